// Binding R for X04 (SSH client connection life cycle and client-side forwarding, spec/SSHClientLife.tla).
//
// Every history TLC generated (calls of the application, contexts that end, peer events, race events, with
// the model's per-step prediction) is replayed on a REAL ssh.Client whose peer is this harness (see
// x04_world.go).  Each history runs in its own testing/synctest bubble: after every event synctest.Wait()
// returns only when every goroutine is durably blocked, so the packets the client wrote, the calls that
// returned (with result class / rejection reason / reply payload / chunks read), the NewChannels delivered to
// handler channels, the handler channels closed and the end of the connection are read at a deterministic
// quiescent point and compared with the prediction.  A race event is performed without waiting between its two
// halves; the observation must equal one of the two outcomes the model allows (the history continues only if it
// is the predicted one).  Wherever the model says the client is idle, and at the end, the goroutines of package
// ssh are counted from a goroutine dump: none beyond the ones present after set-up may exist, none at all after
// the end of the connection.  The replay runs in child processes (the same test binary): a panic or a goroutine
// left blocked inside package ssh kills the child, the parent turns the crash into a violation for the history
// that was running and restarts after it.
package x04

import (
	"bufio"
	"bytes"
	"encoding/json"
	"fmt"
	"os"
	"os/exec"
	"reflect"
	"regexp"
	"sort"
	"strconv"
	"strings"
	"sync"
	"testing"
	"testing/synctest"

	"verif/harness/vutil"
)

type altT struct {
	On   bool              `json:"on"`
	Out  []pktT            `json:"out"`
	Done []json.RawMessage `json:"done"`
	Dead bool              `json:"dead"`
}

type stepT struct {
	Ev   evT               `json:"ev"`
	Out  []pktT            `json:"out"`
	Done []json.RawMessage `json:"done"`
	Del  []string          `json:"del"`
	Dead bool              `json:"dead"`
	Hc   []string          `json:"hc"`
	Idle bool              `json:"idle"`
	Alt  altT              `json:"alt"`
}

type caseT struct {
	Cfg   string  `json:"cfg"`
	Steps []stepT `json:"steps"`
	Final struct {
		Done    []json.RawMessage `json:"done"`
		Hc      []string          `json:"hc"`
		Pending []int             `json:"pending"`
		Was     bool              `json:"was"`
	} `json:"final"`
}

type mismatch struct {
	Step      int      `json:"step"`
	What      string   `json:"what"`
	Got       any      `json:"got"`
	Want      any      `json:"want"`
	Events    []evT    `json:"events"`
	Transport string   `json:"transport"`
	Notes     []string `json:"notes,omitempty"`
	Kind      string   `json:"kind"` // "mismatch" | "doc" | "goroutines"
	Frame     string   `json:"frame,omitempty"`
}

var preambles = map[string][]evT{
	"empty": {},
	"conn":  {{K: "dial", V: "tcp"}, {K: "confirm", O: 1, V: "ok"}},
	"pend":  {{K: "dial", V: "ctx"}},
	"hreg":  {{K: "hreg", V: "ta"}, {K: "popen", V: "ta"}},
	"two":   {{K: "dial", V: "unix"}, {K: "confirm", O: 1, V: "w0"}, {K: "dial", V: "ctx"}},
}

func wantDone(raw []json.RawMessage) (map[int]resT, error) {
	m := map[int]resT{}
	for _, r := range raw {
		var pair []json.RawMessage
		if err := json.Unmarshal(r, &pair); err != nil || len(pair) != 2 {
			return nil, fmt.Errorf("bad done entry %s", r)
		}
		var c int
		var res resT
		if json.Unmarshal(pair[0], &c) != nil || json.Unmarshal(pair[1], &res) != nil {
			return nil, fmt.Errorf("bad done entry %s", r)
		}
		if res.C == "false" {
			res.X = 0 // the payload of a REQUEST_FAILURE is not specified: not compared
		}
		m[c] = res
	}
	return m, nil
}

func sameDone(got, want map[int]resT) bool {
	if len(got) != len(want) {
		return false
	}
	for c, r := range want {
		g, ok := got[c]
		if !ok || !sameRes(g, r) {
			return false
		}
	}
	return true
}

func sameOut(got, want []pktT) bool {
	return len(got) == len(want) && (len(got) == 0 || reflect.DeepEqual(got, want))
}

func sameSet(a, b []string) bool {
	x := append([]string(nil), a...)
	y := append([]string(nil), b...)
	sort.Strings(x)
	sort.Strings(y)
	return len(x) == len(y) && (len(x) == 0 || reflect.DeepEqual(x, y))
}

var topSSHFrame = regexp.MustCompile(`golang\.org/x/crypto/ssh\.(\(\*?\w+\)\.[\w.]+|[\w.]+)`)

// frames returns the multiset of "first ssh frame" signatures of a goroutine dump restricted to package ssh.
func frames(dump string) map[string]int {
	m := map[string]int{}
	for _, g := range strings.Split(dump, "\n\n") {
		if f := topSSHFrame.FindString(g); f != "" {
			m[strings.TrimPrefix(f, "golang.org/x/crypto/ssh.")]++
		}
	}
	return m
}

func extraFrames(now, base map[string]int) []string {
	var r []string
	for f, n := range now {
		for i := base[f]; i < n; i++ {
			r = append(r, f)
		}
	}
	sort.Strings(r)
	return r
}

// compare returns "" or what differs between the observation and the prediction.
func compare(got obsT, out []pktT, done map[int]resT, dead bool) (string, any, any) {
	if !sameOut(got.Out, out) {
		return "packets written by the client", got.Out, out
	}
	if !sameDone(got.Done, done) {
		return "calls that returned (call -> result)", got.Done, done
	}
	if got.Dead != dead {
		return "connection ended (Wait returned)", got.Dead, dead
	}
	return "", nil, nil
}

// replayIn runs one history in its own bubble.
func replayIn(t *testing.T, c *caseT, idx int) (mm *mismatch, diverted bool, infra error) {
	transport := "ctl"
	if n, _ := strconv.Atoi(vutil.Env("VERIF_X04_ENC", "3")); n > 0 && idx%n == n-1 {
		transport = "enc"
	}
	synctest.Test(t, func(t *testing.T) {
		w, err := newWorld(transport)
		if err != nil {
			infra = err
			return
		}
		defer w.cleanup()
		_, baseDump := sshGoroutines()
		baseFrames := frames(baseDump)
		var evs []evT
		fail := func(step int, kind, what string, got, want any) {
			mm = &mismatch{Step: step, What: what, Got: got, Want: want, Events: append([]evT(nil), evs...), Transport: transport, Kind: kind}
		}
		for _, e := range preambles[c.Cfg] {
			evs = append(evs, e)
			if err := w.perform(e, 0); err != nil {
				infra = fmt.Errorf("preamble %v: %w", e, err)
				return
			}
			if _, err := w.observe(); err != nil {
				infra = fmt.Errorf("preamble %v: %w", e, err)
				return
			}
		}
		if n := w.takeNotes(); len(n) > 0 {
			fail(-1, "doc", "preamble: "+n[0], nil, nil)
			mm.Notes = n
			return
		}
		for i := range c.Steps {
			st := &c.Steps[i]
			evs = append(evs, st.Ev)
			if err := w.perform(st.Ev, idx+i); err != nil {
				infra = fmt.Errorf("step %d %v: %w", i, st.Ev, err)
				return
			}
			got, err := w.observe()
			if err != nil {
				infra = fmt.Errorf("step %d %v: %w", i, st.Ev, err)
				return
			}
			want, err := wantDone(st.Done)
			if err != nil {
				infra = err
				return
			}
			if n := w.takeNotes(); len(n) > 0 {
				fail(i, "doc", n[0], nil, nil)
				mm.Notes = n
				return
			}
			if what, g, wv := compare(got, st.Out, want, st.Dead); what != "" {
				if st.Alt.On {
					if aw, err := wantDone(st.Alt.Done); err == nil {
						if w2, _, _ := compare(got, st.Alt.Out, aw, st.Alt.Dead); w2 == "" {
							diverted = true // the other outcome the model allows for this race: this history ends here
							return
						}
					}
				}
				fail(i, "mismatch", what, g, wv)
				return
			}
			if !sameSet(got.Del, st.Del) || len(got.Del) != len(st.Del) {
				fail(i, "mismatch", "NewChannels delivered to handler channels", got.Del, st.Del)
				return
			}
			if !sameSet(got.Hc, st.Hc) {
				fail(i, "mismatch", "handler channels closed", got.Hc, st.Hc)
				return
			}
			if st.Idle {
				n, dump := sshGoroutines()
				wantN := w.base
				bf := baseFrames
				if st.Dead {
					wantN, bf = 0, map[string]int{}
				}
				if n != wantN {
					ex := extraFrames(frames(dump), bf)
					fail(i, "goroutines", "goroutines of package ssh while the client is idle", n, wantN)
					if len(ex) > 0 {
						mm.Frame = ex[0]
					}
					mm.Notes = append(ex, tail(dump, 3000))
					return
				}
			}
		}
		// the connection ends (in one of four ways), unless it has already
		if !c.Final.Was {
			var fe evT
			switch (idx / 2) % 4 {
			case 0:
				fe = evT{K: "peereof"}
			case 1:
				fe = evT{K: "cclose"}
			case 2:
				fe = evT{K: "garbage"}
			default:
				fe = evT{K: "disc"}
			}
			evs = append(evs, fe)
			if err := w.perform(fe, 0); err != nil {
				infra = err
				return
			}
		}
		got, err := w.observe()
		if err != nil {
			infra = err
			return
		}
		want, err := wantDone(c.Final.Done)
		if err != nil {
			infra = err
			return
		}
		ns := len(c.Steps)
		if !c.Final.Was && (idx/2)%4 == 1 {
			// the harness's own Close call is not part of the prediction
			for call, r := range got.Done {
				if r.C == "returned" {
					delete(got.Done, call)
				}
			}
		}
		if what, g, wv := compare(got, nil, want, true); what != "" {
			fail(ns, "mismatch", "after the connection ended: "+what, g, wv)
			return
		}
		if !sameSet(got.Hc, c.Final.Hc) {
			fail(ns, "mismatch", "after the connection ended: handler channels closed", got.Hc, c.Final.Hc)
			return
		}
		if p := w.pendingCalls(); len(p) != 0 {
			fail(ns, "mismatch", "after the connection ended: calls still blocked", p, []int{})
			return
		}
		if n, dump := sshGoroutines(); n != 0 {
			ex := extraFrames(frames(dump), map[string]int{})
			fail(ns, "goroutines", "goroutines of package ssh left after the connection ended", n, 0)
			if len(ex) > 0 {
				mm.Frame = ex[0]
			}
			mm.Notes = append(ex, tail(dump, 3000))
			return
		}
	})
	return mm, diverted, infra
}

// ---------------------------------------------------------------- child: replay cases and report

type childReport struct {
	Case     int       `json:"case"`
	Sig      string    `json:"sig"`
	What     string    `json:"what"`
	Mismatch *mismatch `json:"mismatch"`
	Infra    string    `json:"infra"`
	Diverted bool      `json:"diverted"`
}

func sigOf(c *caseT, mm *mismatch) string {
	k := "end"
	if mm.Step >= 0 && mm.Step < len(c.Steps) {
		k = c.Steps[mm.Step].Ev.K
		if k == "race" {
			k += "-" + c.Steps[mm.Step].Ev.V
		}
	} else if mm.Step < 0 {
		k = "preamble"
	}
	switch mm.Kind {
	case "doc":
		return "clientlife-doc:" + k
	case "goroutines":
		return "clientlife-goroutines:" + mm.Frame
	}
	return "clientlife-mismatch:" + k
}

func TestReplayChild(t *testing.T) {
	if os.Getenv("VERIF_X04_CHILD") != "replay" {
		t.Skip("child only")
	}
	start, _ := strconv.Atoi(os.Getenv("VERIF_X04_START"))
	shard, _ := strconv.Atoi(os.Getenv("VERIF_X04_SHARD"))
	nshard, _ := strconv.Atoi(vutil.Env("VERIF_X04_NSHARD", "1"))
	prog, err := os.OpenFile(os.Getenv("VERIF_X04_PROGRESS"), os.O_CREATE|os.O_WRONLY, 0o644)
	if err != nil {
		t.Fatal(err)
	}
	rep, err := os.OpenFile(os.Getenv("VERIF_X04_REPORT"), os.O_CREATE|os.O_WRONLY|os.O_APPEND, 0o644)
	if err != nil {
		t.Fatal(err)
	}
	defer rep.Close()
	seed := int(vutil.Seed())
	startWatchdog(watchdogLimit())
	i := -1
	err = vutil.ReadNDJSON(os.Getenv("VERIF_CASES"), func(line []byte) error {
		i++
		if i < start || i%nshard != shard {
			return nil
		}
		var c caseT
		if err := json.Unmarshal(line, &c); err != nil {
			return err
		}
		prog.WriteAt([]byte(fmt.Sprintf("%-12d", i)), 0)
		watchdogProgress(i)
		mm, diverted, infra := replayIn(t, &c, i+seed)
		switch {
		case infra != nil:
			b, _ := json.Marshal(childReport{Case: i, Infra: infra.Error()})
			rep.Write(append(b, '\n'))
		case mm != nil:
			b, _ := json.Marshal(childReport{Case: i, Sig: sigOf(&c, mm), What: mm.What, Mismatch: mm})
			rep.Write(append(b, '\n'))
		case diverted:
			b, _ := json.Marshal(childReport{Case: i, Diverted: true})
			rep.Write(append(b, '\n'))
		}
		return nil
	})
	if err != nil {
		t.Fatal(err)
	}
	prog.WriteAt([]byte(fmt.Sprintf("%-12s", "done")), 0)
}

var sshFrame = regexp.MustCompile(`golang\.org/x/crypto/ssh\.(\(\*?\w+\)\.\w+|\w+)`)

// classifyCrash inspects the output of a crashed child.
func classifyCrash(out string) (sig, what string, verdict bool) {
	i := strings.Index(out, "panic: ")
	j := strings.Index(out, "fatal error: ")
	if i < 0 && j < 0 {
		return "", "child died without a Go panic", false
	}
	if i < 0 || (j >= 0 && j < i) {
		i = j
	}
	msg := out[i:]
	first := strings.SplitN(msg, "\n", 2)[0]
	if strings.Contains(first, "test timed out") {
		// a stalled bubble (e.g. a goroutine waiting for a mutex is not durably blocked): never a verdict
		return "", "child timed out: " + first, false
	}
	if strings.Contains(first, "deadlock: main bubble goroutine has exited but blocked goroutines remain") ||
		strings.Contains(first, "all goroutines in bubble are blocked") || strings.Contains(first, "all goroutines are asleep") {
		if f := sshFrame.FindString(msg); f != "" {
			return "clientlife-goroutine-stuck:" + strings.TrimPrefix(f, "golang.org/x/crypto/ssh."), "goroutines remained blocked for ever inside package ssh after the connection ended: " + first, true
		}
		return "", "bubble deadlock outside package ssh: " + first, false
	}
	stack := msg
	if k := strings.Index(msg, "\n\ngoroutine "); k >= 0 {
		rest := msg[k+2:]
		if e := strings.Index(rest, "\n\n"); e >= 0 {
			stack = msg[:k+2+e]
		}
	}
	if f := sshFrame.FindString(stack); f != "" {
		return "clientlife-panic:" + strings.TrimPrefix(f, "golang.org/x/crypto/ssh."), "panic in package ssh: " + first, true
	}
	return "", "child panicked outside package ssh: " + first, false
}

func tail(s string, n int) string {
	if len(s) > n {
		return s[len(s)-n:]
	}
	return s
}

// runChildren runs the child test over all cases in nshard concurrent child processes (child k replays the
// cases with index = k mod nshard), restarting a child after a crash.
func runChildren(t *testing.T, out *vutil.Out, childTest string, ncases int, cases []json.RawMessage) {
	nshard, _ := strconv.Atoi(vutil.Env("VERIF_X04_PAR", "4"))
	if nshard < 1 {
		nshard = 1
	}
	dir := t.TempDir()
	var mu sync.Mutex
	crashes := 0
	var fatal []string
	var wg sync.WaitGroup
	for k := 0; k < nshard; k++ {
		wg.Add(1)
		go func(k int) {
			defer wg.Done()
			progress := fmt.Sprintf("%s/progress%d", dir, k)
			report := fmt.Sprintf("%s/report%d.ndjson", dir, k)
			start := 0
			for start < ncases {
				os.WriteFile(progress, []byte(fmt.Sprintf("%-12d", -1)), 0o644)
				cmd := exec.Command(os.Args[0], "-test.run=^"+childTest+"$", "-test.timeout=1500s")
				cmd.Env = append(os.Environ(), "VERIF_X04_CHILD=replay", "VERIF_X04_START="+strconv.Itoa(start), "VERIF_X04_PROGRESS="+progress,
					"VERIF_X04_REPORT="+report, "VERIF_X04_SHARD="+strconv.Itoa(k), "VERIF_X04_NSHARD="+strconv.Itoa(nshard))
				var buf bytes.Buffer
				cmd.Stdout, cmd.Stderr = &buf, &buf
				err := cmd.Run()
				pb, _ := os.ReadFile(progress)
				ps := strings.TrimSpace(string(pb))
				if ps == "done" {
					return
				}
				last, _ := strconv.Atoi(ps)
				mu.Lock()
				if err == nil || last < start {
					fatal = append(fatal, fmt.Sprintf("x04 child %d stopped at %q without finishing (err=%v):\n%s", k, ps, err, tail(buf.String(), 4000)))
					mu.Unlock()
					return
				}
				sig, what, verdict := classifyCrash(buf.String())
				if f, ok := hangOf(buf.String()); ok {
					sig, what, verdict = "clientlife-hang:"+f, "the client never became quiescent: a goroutine waits for a lock inside package ssh ("+f+") while nothing is running", true
				}
				if !verdict {
					fatal = append(fatal, fmt.Sprintf("x04 child crashed at case %d, not attributable to package ssh (%s):\n%s", last, what, tail(buf.String(), 6000)))
					mu.Unlock()
					return
				}
				var detail any
				if last < len(cases) {
					detail = map[string]any{"case": cases[last], "crash": tail(buf.String(), 3000)}
				} else {
					detail = map[string]any{"case_index": last, "crash": tail(buf.String(), 3000)}
				}
				out.Violation(sig, what, detail)
				t.Errorf("%s at case %d: %s", sig, last, what)
				crashes++
				tooMany := crashes > 25
				mu.Unlock()
				if tooMany {
					return
				}
				start = last + 1
			}
		}(k)
	}
	wg.Wait()
	if len(fatal) > 0 {
		t.Fatal(fatal[0])
	}
	out.Extra["child_crashes"] = crashes
	diverted := 0
	for k := 0; k < nshard; k++ {
		fh, err := os.Open(fmt.Sprintf("%s/report%d.ndjson", dir, k))
		if err != nil {
			continue
		}
		sc := bufio.NewScanner(fh)
		sc.Buffer(make([]byte, 1<<20), 1<<26)
		for sc.Scan() {
			var r childReport
			if json.Unmarshal(sc.Bytes(), &r) != nil {
				continue
			}
			if r.Infra != "" {
				fh.Close()
				t.Fatalf("x04 replay infrastructure problem at case %d: %s", r.Case, r.Infra)
			}
			if r.Diverted {
				diverted++
				continue
			}
			var cs any
			if r.Case < len(cases) {
				cs = cases[r.Case]
			}
			out.Violation(r.Sig, "real ssh.Client differs from SSHClientLife: "+r.What, map[string]any{"mismatch": r.Mismatch, "case": cs})
			t.Errorf("%s: case %d: %s got=%v want=%v", r.Sig, r.Case, r.What, r.Mismatch.Got, r.Mismatch.Want)
		}
		fh.Close()
	}
	out.Extra["race_histories_that_took_the_other_allowed_outcome"] = diverted
}

func TestReplay(t *testing.T) {
	out := vutil.NewOut()
	defer func() {
		if err := out.Write(); err != nil {
			t.Fatal(err)
		}
	}()
	var cases []json.RawMessage
	keep := 100000
	err := vutil.ReadNDJSON(vutil.Env("VERIF_CASES", ""), func(line []byte) error {
		if len(cases) < keep {
			cases = append(cases, append(json.RawMessage(nil), line...))
		}
		out.Case(string(line))
		if len(out.Samples) < 3 && len(line) < 2500 && out.Evaluations%997 == 5 {
			out.Sample(json.RawMessage(append([]byte(nil), line...)))
		}
		return nil
	})
	if err != nil {
		t.Fatal(err)
	}
	runChildren(t, out, "TestReplayChild", out.Evaluations, cases)
}
