// Package x04 binds spec/SSHClientLife.tla (growth check X04) to the real ssh.Client.
//
// A "world" is one real ssh.Client (ssh.NewClient over a real Conn, unchanged code) whose peer is this
// harness speaking raw connection-protocol packets.  Two transports, both without any hook on the client
// side:
//
//	"ctl": ssh.NewControlClientConn over an in-memory conn: a real `connection` (connection.go) over the
//	       real mux, on the unencrypted OpenSSH ControlMaster proxy framing (the harness answers the two
//	       hello messages and then reads / writes length-prefixed packets);
//	"enc": ssh.NewClientConn over an in-memory conn: the real handshake (version exchange, key exchange,
//	       "none" authentication) against a real server-side handshakeTransport (hook
//	       ssh.VerifNewServerHandshake, which hands this harness the decrypted packets).
//
// Everything blocks on sync.Cond / channels, so inside a testing/synctest bubble synctest.Wait()
// returns exactly when the client is quiescent.
package x04

import (
	"bytes"
	"context"
	"crypto/ed25519"
	"crypto/rand"
	"encoding/binary"
	"errors"
	"fmt"
	"io"
	"net"
	"regexp"
	"runtime"
	"sort"
	"strconv"
	"strings"
	"sync"
	"testing/synctest"
	"time"

	"golang.org/x/crypto/ssh"
	"verif/harness/memconn"
)

// ---------------------------------------------------------------- vocabulary shared with the model

type evT struct {
	K string `json:"k"`
	O int    `json:"o"`
	V string `json:"v"`
	X int    `json:"x"`
}

type pktT struct {
	T string `json:"t"`
	A int64  `json:"a"`
	B int64  `json:"b"`
	S string `json:"s"`
}

type resT struct {
	C string `json:"c"`
	X int    `json:"x"`
	D []int  `json:"d"`
}

func (r resT) String() string { return fmt.Sprintf("%s/%d/%v", r.C, r.X, r.D) }

func sameRes(a, b resT) bool {
	if a.C != b.C || a.X != b.X || len(a.D) != len(b.D) {
		return false
	}
	for i := range a.D {
		if a.D[i] != b.D[i] {
			return false
		}
	}
	return true
}

var peerKinds = map[string]bool{"confirm": true, "fail": true, "data": true, "eof": true, "close": true, "adj": true, "creq": true,
	"popen": true, "pgreq": true, "greply": true, "peereof": true, "garbage": true, "disc": true}

var callKinds = map[string]bool{"dial": true, "greq": true, "hreg": true, "accept": true, "reject": true, "write": true,
	"read": true, "closewrite": true, "closeconn": true, "cclose": true, "wait": true, "greq2": true}

const (
	kaName     = "keepalive@openssh.com"
	bigWindow  = 1 << 20
	maxPktSize = 1 << 15
)

func typeName(t string) string { return "x04-" + t + "@verif.example" }

// ---------------------------------------------------------------- packets

func u32(v uint32) []byte    { b := make([]byte, 4); binary.BigEndian.PutUint32(b, v); return b }
func sshStr(s string) []byte { return append(u32(uint32(len(s))), s...) }

func cat(parts ...[]byte) []byte {
	var b []byte
	for _, p := range parts {
		b = append(b, p...)
	}
	return b
}

func getStr(p []byte) (string, []byte, bool) {
	if len(p) < 4 {
		return "", nil, false
	}
	n := binary.BigEndian.Uint32(p)
	if uint32(len(p)-4) < n {
		return "", nil, false
	}
	return string(p[4 : 4+n]), p[4+n:], true
}

func getU32(p []byte) (uint32, []byte, bool) {
	if len(p) < 4 {
		return 0, nil, false
	}
	return binary.BigEndian.Uint32(p), p[4:], true
}

// dialArgs are the arguments the harness uses for dial number n of a given kind.
type dialArgs struct {
	network, addr string
	host          string
	port          int
	laddr, raddr  *net.TCPAddr
}

func argsFor(kind string, n int) dialArgs {
	switch kind {
	case "unix":
		return dialArgs{network: "unix", addr: fmt.Sprintf("/run/x04-%d.sock", n)}
	case "dialtcp":
		return dialArgs{network: "tcp", laddr: &net.TCPAddr{IP: net.IPv4(10, 1, 2, 3), Port: 1200 + n},
			raddr: &net.TCPAddr{IP: net.IPv4(10, 9, 8, 7), Port: 4000 + n}}
	case "badnet":
		return dialArgs{network: "udp", addr: "host.example:53"}
	case "badaddr":
		return dialArgs{network: "tcp", addr: "no-port.example"}
	}
	h := fmt.Sprintf("host-%d.example", n)
	return dialArgs{network: "tcp", addr: fmt.Sprintf("%s:%d", h, 4000+n), host: h, port: 4000 + n}
}

// checkOpen verifies the channel type and the type-specific data of a channel open against the
// arguments of the dial that caused it (RFC 4254 section 7.2; OpenSSH PROTOCOL section 2.4).
func checkOpen(kind string, n int, chanType string, extra []byte) string {
	a := argsFor(kind, n)
	switch kind {
	case "unix":
		if chanType != "direct-streamlocal@openssh.com" {
			return "channel type " + chanType
		}
		path, r, ok := getStr(extra)
		res0, r, ok2 := getStr(r)
		res1, r, ok3 := getU32(r)
		if !ok || !ok2 || !ok3 || len(r) != 0 {
			return "malformed direct-streamlocal payload"
		}
		if path != a.addr || res0 != "" || res1 != 0 {
			return fmt.Sprintf("direct-streamlocal payload (%q,%q,%d)", path, res0, res1)
		}
		return ""
	}
	if chanType != "direct-tcpip" {
		return "channel type " + chanType
	}
	host, r, ok := getStr(extra)
	port, r, ok2 := getU32(r)
	ohost, r, ok3 := getStr(r)
	oport, r, ok4 := getU32(r)
	if !ok || !ok2 || !ok3 || !ok4 || len(r) != 0 {
		return "malformed direct-tcpip payload"
	}
	wantHost, wantPort, wantOHost, wantOPort := a.host, a.port, "0.0.0.0", 0
	if kind == "dialtcp" {
		wantHost, wantPort, wantOHost, wantOPort = a.raddr.IP.String(), a.raddr.Port, a.laddr.IP.String(), a.laddr.Port
	}
	if host != wantHost || int(port) != wantPort || ohost != wantOHost || int(oport) != wantOPort {
		return fmt.Sprintf("direct-tcpip payload (%q,%d,%q,%d), want (%q,%d,%q,%d)", host, port, ohost, oport, wantHost, wantPort, wantOHost, wantOPort)
	}
	return ""
}

// decoded is a packet the client wrote, in the model's vocabulary, plus what the harness needs to go on.
type decoded struct {
	pktT
	chanType string
	extra    []byte
}

func decodeOut(p []byte) decoded {
	be := func(off int) int64 {
		if len(p) < off+4 {
			return -1
		}
		return int64(binary.BigEndian.Uint32(p[off:]))
	}
	if len(p) == 0 {
		return decoded{pktT: pktT{T: "empty"}}
	}
	switch p[0] {
	case 90:
		ct, r, ok := getStr(p[1:])
		if !ok || len(r) < 12 {
			return decoded{pktT: pktT{T: "open", A: -1, S: "malformed"}}
		}
		return decoded{pktT: pktT{T: "open", A: int64(binary.BigEndian.Uint32(r))}, chanType: ct, extra: r[12:]}
	case 91:
		return decoded{pktT: pktT{T: "confirm", A: be(1), B: be(5)}}
	case 92:
		return decoded{pktT: pktT{T: "openfail", A: be(1), B: be(5)}}
	case 93:
		return decoded{pktT: pktT{T: "adjust", A: be(1), B: be(5)}}
	case 94:
		s := ""
		if len(p) >= 9 {
			s = string(p[9:])
		}
		return decoded{pktT: pktT{T: "data", A: be(1), S: s}}
	case 95:
		return decoded{pktT: pktT{T: "extdata", A: be(1), B: be(5)}}
	case 96:
		return decoded{pktT: pktT{T: "eof", A: be(1)}}
	case 97:
		return decoded{pktT: pktT{T: "close", A: be(1)}}
	case 98:
		return decoded{pktT: pktT{T: "creq", A: be(1)}}
	case 99:
		return decoded{pktT: pktT{T: "chansucc", A: be(1)}}
	case 100:
		return decoded{pktT: pktT{T: "chanfail", A: be(1)}}
	case 80:
		name, r, ok := getStr(p[1:])
		if !ok || len(r) < 1 {
			return decoded{pktT: pktT{T: "greq", A: -1, S: "malformed"}}
		}
		if name == kaName {
			name = "ka"
		}
		return decoded{pktT: pktT{T: "greq", A: int64(r[0]), S: name}}
	case 81:
		return decoded{pktT: pktT{T: "gsucc"}}
	case 82:
		return decoded{pktT: pktT{T: "gfail"}}
	case 1:
		return decoded{pktT: pktT{T: "disconnect"}}
	}
	return decoded{pktT: pktT{T: fmt.Sprintf("type%d", p[0])}}
}

// ---------------------------------------------------------------- the raw peer

type peer interface {
	write(pkt []byte)   // one connection-protocol packet towards the client
	drain() [][]byte    // packets the client wrote since the last call
	eof()               // the peer drops the connection
	garbage()           // bytes the client's transport cannot accept
	shutdown()          // release everything (end of the replay)
	problems() []string // things that went wrong on the harness side (never a verdict)
}

type frameList struct {
	mu   sync.Mutex
	pkts [][]byte
	errs []string
}

func (f *frameList) add(p []byte)  { f.mu.Lock(); f.pkts = append(f.pkts, p); f.mu.Unlock() }
func (f *frameList) fail(s string) { f.mu.Lock(); f.errs = append(f.errs, s); f.mu.Unlock() }
func (f *frameList) drain() [][]byte {
	f.mu.Lock()
	defer f.mu.Unlock()
	r := f.pkts
	f.pkts = nil
	return r
}
func (f *frameList) problems() []string {
	f.mu.Lock()
	defer f.mu.Unlock()
	return append([]string(nil), f.errs...)
}

// ctlPeer speaks the ControlMaster proxy framing: uint32 length, padding-length octet (0), packet.
type ctlPeer struct {
	frameList
	c *memconn.Conn
}

const (
	muxMsgHello = 0x00000001
	muxCProxy   = 0x1000000f
	muxSProxy   = 0x8000000f
)

func newCtlPeer(c *memconn.Conn) *ctlPeer {
	p := &ctlPeer{c: c}
	// the answers to the client's hello and proxy request can be written up front: the conn is buffered
	c.Write(cat(u32(8), u32(muxMsgHello), u32(4)))
	c.Write(cat(u32(8), u32(muxSProxy), u32(0)))
	go p.readLoop()
	return p
}

func (p *ctlPeer) readFrame() ([]byte, error) {
	var h [4]byte
	if _, err := io.ReadFull(p.c, h[:]); err != nil {
		return nil, err
	}
	n := binary.BigEndian.Uint32(h[:])
	if n > 1<<20 {
		return nil, fmt.Errorf("frame of %d bytes", n)
	}
	b := make([]byte, n)
	if _, err := io.ReadFull(p.c, b); err != nil {
		return nil, err
	}
	return b, nil
}

func (p *ctlPeer) readLoop() {
	for i := 0; ; i++ {
		b, err := p.readFrame()
		if err != nil {
			return
		}
		switch {
		case i == 0:
			if len(b) != 8 || binary.BigEndian.Uint32(b) != muxMsgHello || binary.BigEndian.Uint32(b[4:]) != 4 {
				p.fail(fmt.Sprintf("client hello %x", b))
			}
		case i == 1:
			if len(b) != 8 || binary.BigEndian.Uint32(b) != muxCProxy {
				p.fail(fmt.Sprintf("client proxy request %x", b))
			}
		default:
			if len(b) < 2 || b[0] != 0 {
				p.fail(fmt.Sprintf("client frame %x", b))
				continue
			}
			p.add(b[1:])
		}
	}
}

func (p *ctlPeer) write(pkt []byte) { p.c.Write(cat(u32(uint32(len(pkt)+1)), []byte{0}, pkt)) }
func (p *ctlPeer) eof()             { p.c.Close() }
func (p *ctlPeer) garbage()         { p.c.Write(cat(u32(3), []byte{7, 0xde, 0xad})) } // non-zero padding length
func (p *ctlPeer) shutdown()        { p.c.Close() }

// encPeer is a real server-side handshakeTransport: encrypted on the wire, raw packets here.
type encPeer struct {
	frameList
	c  *memconn.Conn
	hs *ssh.VerifHandshake
}

var (
	hostKeyOnce sync.Once
	hostSigner  ssh.Signer
)

func hostKey() ssh.Signer {
	hostKeyOnce.Do(func() {
		_, priv, err := ed25519.GenerateKey(rand.Reader)
		if err != nil {
			panic(err)
		}
		hostSigner, err = ssh.NewSignerFromKey(priv)
		if err != nil {
			panic(err)
		}
	})
	return hostSigner
}

const serverVersion = "SSH-2.0-x04peer"

// serve performs the server's part up to the end of user authentication and then collects packets.
func (p *encPeer) serve(ready chan<- error) {
	// version exchange (RFC 4253 section 4.2)
	if _, err := p.c.Write([]byte(serverVersion + "\r\n")); err != nil {
		ready <- err
		return
	}
	var line []byte
	one := make([]byte, 1)
	for {
		if _, err := io.ReadFull(p.c, one); err != nil {
			ready <- fmt.Errorf("reading the client's version: %w", err)
			return
		}
		if one[0] == '\n' {
			break
		}
		line = append(line, one[0])
		if len(line) > 255 {
			ready <- errors.New("client version line too long")
			return
		}
	}
	clientVersion := bytes.TrimRight(line, "\r")
	cfg := &ssh.ServerConfig{NoClientAuth: true}
	cfg.AddHostKey(hostKey())
	p.hs = ssh.VerifNewServerHandshake(p.c, cfg, clientVersion, []byte(serverVersion), nil)
	if err := p.hs.WaitSession(); err != nil {
		ready <- fmt.Errorf("server key exchange: %w", err)
		return
	}
	pkt, err := p.hs.ReadPacket()
	if err != nil || len(pkt) == 0 || pkt[0] != 5 {
		ready <- fmt.Errorf("expected a service request, got %x (%v)", pkt, err)
		return
	}
	if err := p.hs.WritePacket(cat([]byte{6}, sshStr("ssh-userauth"))); err != nil {
		ready <- err
		return
	}
	pkt, err = p.hs.ReadPacket()
	if err != nil || len(pkt) == 0 || pkt[0] != 50 {
		ready <- fmt.Errorf("expected a userauth request, got %x (%v)", pkt, err)
		return
	}
	if err := p.hs.WritePacket([]byte{52}); err != nil {
		ready <- err
		return
	}
	ready <- nil
	for {
		pkt, err := p.hs.ReadPacket()
		if err != nil {
			return
		}
		p.add(append([]byte(nil), pkt...))
	}
}

func (p *encPeer) write(pkt []byte) { p.hs.WritePacket(pkt) }
func (p *encPeer) eof()             { p.c.Close() }
func (p *encPeer) garbage()         { p.c.Write(bytes.Repeat([]byte{0xff}, 64)) }
func (p *encPeer) shutdown() {
	p.c.Close()
	if p.hs != nil {
		p.hs.Close()
	}
}

// ---------------------------------------------------------------- contexts

// manualCtx is a context that ends when the harness says so, reporting context.DeadlineExceeded
// (a deadline that passed), without any timer.
type manualCtx struct {
	mu   sync.Mutex
	done chan struct{}
	err  error
}

func newManualCtx() *manualCtx { return &manualCtx{done: make(chan struct{})} }

func (m *manualCtx) Deadline() (time.Time, bool) { return time.Time{}, false }
func (m *manualCtx) Done() <-chan struct{}       { return m.done }
func (m *manualCtx) Value(any) any               { return nil }
func (m *manualCtx) Err() error {
	m.mu.Lock()
	defer m.mu.Unlock()
	return m.err
}
func (m *manualCtx) expire() {
	m.mu.Lock()
	if m.err == nil {
		m.err = context.DeadlineExceeded
		close(m.done)
	}
	m.mu.Unlock()
}

// ---------------------------------------------------------------- the world

type objT struct {
	dir    string
	kind   string
	n      int    // dial number (arguments)
	lid    uint32 // the client's id of the channel
	hasLid bool
	rid    uint32 // the peer's id
	conn   net.Conn
	nc     ssh.NewChannel
	ch     ssh.Channel
	cancel func()
	nsent  int // data chunks the peer sent
}

type world struct {
	mu        sync.Mutex
	transport string
	cl        *ssh.Client
	pr        peer
	objs      []*objT
	ncalls    int
	ndials    int
	nrep      int
	done      map[int]resT
	completed map[int]bool
	del       []string
	hclosed   map[string]bool
	handlers  map[string]bool
	dead      bool
	waitErr   error
	base      int           // goroutines of package ssh right after the connection was set up
	pendOpen  *objT         // the dial started in the current step (its open packet has not been matched yet)
	stop      chan struct{} // closed by cleanup: releases the harness's own collectors
	notes     []string      // harness-level findings about returned values (addresses, deadlines, messages)
}

func (w *world) finish(call int, r resT) {
	w.mu.Lock()
	w.done[call] = r
	w.completed[call] = true
	w.mu.Unlock()
}

func (w *world) note(s string) { w.mu.Lock(); w.notes = append(w.notes, s); w.mu.Unlock() }

var (
	stackMu  sync.Mutex
	stackBuf = make([]byte, 256<<10)
)

var sshGoroutine = regexp.MustCompile(`golang\.org/x/crypto/ssh\.`)

// sshGoroutines returns the number of goroutines that run, or were started by, package ssh, and their stacks.
func sshGoroutines() (int, string) {
	stackMu.Lock()
	defer stackMu.Unlock()
	var buf []byte
	for {
		n := runtime.Stack(stackBuf, true)
		if n < len(stackBuf) {
			buf = stackBuf[:n]
			break
		}
		stackBuf = make([]byte, 2*len(stackBuf))
	}
	var keep []string
	for _, g := range strings.Split(string(buf), "\n\n") {
		if sshGoroutine.MatchString(g) {
			keep = append(keep, g)
		}
	}
	return len(keep), strings.Join(keep, "\n\n")
}

// newWorld sets up the connection and the client.  Must be called inside a synctest bubble.
func newWorld(transport string) (*world, error) {
	w := &world{transport: transport, done: map[int]resT{}, completed: map[int]bool{}, hclosed: map[string]bool{}, handlers: map[string]bool{},
		stop: make(chan struct{})}
	a, b := memconn.Pair()
	var conn ssh.Conn
	var chans <-chan ssh.NewChannel
	var reqs <-chan *ssh.Request
	var err error
	switch transport {
	case "ctl":
		w.pr = newCtlPeer(b)
		conn, chans, reqs, err = ssh.NewControlClientConn(a)
		if err != nil {
			b.Close()
			return nil, fmt.Errorf("control proxy handshake: %w", err)
		}
	case "enc":
		ep := &encPeer{c: b}
		w.pr = ep
		ready := make(chan error, 1)
		go ep.serve(ready)
		cfg := &ssh.ClientConfig{User: "x04", HostKeyCallback: ssh.InsecureIgnoreHostKey()}
		conn, chans, reqs, err = ssh.NewClientConn(a, "peer.example:22", cfg)
		if err != nil {
			b.Close()
			return nil, fmt.Errorf("client handshake: %w", err)
		}
		if err := <-ready; err != nil {
			conn.Close()
			b.Close()
			return nil, fmt.Errorf("peer handshake: %w", err)
		}
	default:
		return nil, fmt.Errorf("unknown transport %q", transport)
	}
	w.cl = ssh.NewClient(conn, chans, reqs)
	go func() {
		err := w.cl.Wait()
		w.mu.Lock()
		w.dead, w.waitErr = true, err
		w.mu.Unlock()
	}()
	synctest.Wait()
	w.base, _ = sshGoroutines()
	return w, nil
}

func (w *world) obj(o int) (*objT, error) {
	if o < 1 || o > len(w.objs) {
		return nil, fmt.Errorf("no channel object %d", o)
	}
	return w.objs[o-1], nil
}

func errClass(err error) string {
	switch {
	case err == nil:
		return "nil"
	case err == io.EOF:
		return "eof"
	}
	return "err"
}

// checkConn verifies what the documentation promises about a connection returned by Dial*.
func checkConn(kind string, a dialArgs, c net.Conn) string {
	zero := func(ad net.Addr) bool {
		t, ok := ad.(*net.TCPAddr)
		return ok && t.IP.Equal(net.IPv4zero) && t.Port == 0
	}
	switch kind {
	case "tcp", "ctx", "ctxdl":
		if !zero(c.LocalAddr()) || !zero(c.RemoteAddr()) {
			return fmt.Sprintf("addresses %v / %v, documented as zero", c.LocalAddr(), c.RemoteAddr())
		}
	case "dialtcp":
		l, ok1 := c.LocalAddr().(*net.TCPAddr)
		r, ok2 := c.RemoteAddr().(*net.TCPAddr)
		if !ok1 || !ok2 || !l.IP.Equal(a.laddr.IP) || l.Port != a.laddr.Port || !r.IP.Equal(a.raddr.IP) || r.Port != a.raddr.Port {
			return fmt.Sprintf("addresses %v / %v, want %v / %v", c.LocalAddr(), c.RemoteAddr(), a.laddr, a.raddr)
		}
	case "unix":
		if c.RemoteAddr() == nil || c.RemoteAddr().Network() != "unix" || c.RemoteAddr().String() != a.addr {
			return fmt.Sprintf("remote address %v, want unix %s", c.RemoteAddr(), a.addr)
		}
	}
	t := time.Now().Add(time.Hour)
	if c.SetDeadline(t) == nil || c.SetReadDeadline(t) == nil || c.SetWriteDeadline(t) == nil {
		return "a deadline was accepted (documented as unsupported)"
	}
	return ""
}

func (w *world) dialResult(o *objT, kind string, a dialArgs, c net.Conn, err error) resT {
	var oce *ssh.OpenChannelError
	switch {
	case err == nil && c != nil:
		w.mu.Lock()
		if o != nil {
			o.conn = c
		}
		w.mu.Unlock()
		if o == nil {
			return resT{C: "conn-without-open"}
		}
		if s := checkConn(kind, a, c); s != "" {
			w.note("dial " + kind + ": " + s)
			return resT{C: "conn-bad"}
		}
		return resT{C: "conn"}
	case err == nil:
		return resT{C: "nil-nil"}
	case c != nil:
		return resT{C: "conn-and-error"}
	case errors.As(err, &oce):
		if oce.Message != fmt.Sprintf("no-%d", int(oce.Reason)) {
			w.note(fmt.Sprintf("dial %s: OpenChannelError message %q for reason %d", kind, oce.Message, oce.Reason))
			return resT{C: "rejected-badmsg", X: int(oce.Reason)}
		}
		return resT{C: "rejected", X: int(oce.Reason)}
	case errors.Is(err, context.Canceled):
		return resT{C: "ctxerr", X: 1}
	case errors.Is(err, context.DeadlineExceeded):
		return resT{C: "ctxerr", X: 2}
	}
	return resT{C: "err"}
}

// start launches the local event e (a call in its own goroutine, or a cancellation).
func (w *world) start(e evT) error {
	if e.K == "cancel" {
		o, err := w.obj(e.O)
		if err != nil || o.cancel == nil {
			return fmt.Errorf("event %v: object has no context", e)
		}
		o.cancel()
		return nil
	}
	w.ncalls++
	call := w.ncalls
	switch e.K {
	case "dial":
		w.ndials++
		n := w.ndials
		kind := e.V
		a := argsFor(kind, n)
		var o *objT
		if kind != "badnet" && kind != "badaddr" && kind != "ctxdone" {
			o = &objT{dir: "out", kind: kind, n: n}
			w.pendOpen = o
		}
		switch kind {
		case "tcp", "unix", "badnet", "badaddr":
			go func() {
				c, err := w.cl.Dial(a.network, a.addr)
				w.finish(call, w.dialResult(o, kind, a, c, err))
			}()
		case "dialtcp":
			go func() {
				c, err := w.cl.DialTCP("tcp", a.laddr, a.raddr)
				w.finish(call, w.dialResult(o, kind, a, c, err))
			}()
		case "ctx", "ctxdone":
			ctx, cancel := context.WithCancel(context.Background())
			if kind == "ctxdone" {
				cancel()
			} else {
				o.cancel = cancel
			}
			go func() {
				c, err := w.cl.DialContext(ctx, a.network, a.addr)
				w.finish(call, w.dialResult(o, kind, a, c, err))
			}()
		case "ctxdl":
			ctx := newManualCtx()
			o.cancel = ctx.expire
			go func() {
				c, err := w.cl.DialContext(ctx, a.network, a.addr)
				w.finish(call, w.dialResult(o, kind, a, c, err))
			}()
		default:
			return fmt.Errorf("unknown dial kind %q", kind)
		}
	case "greq", "greq2":
		wr := e.K == "greq2" || e.V == "wr"
		go func() {
			ok, payload, err := w.cl.SendRequest(kaName, wr, []byte("ping"))
			switch {
			case err != nil:
				w.finish(call, resT{C: "err"})
			case !wr:
				if ok || len(payload) != 0 {
					w.finish(call, resT{C: "ok-with-reply"})
				} else {
					w.finish(call, resT{C: "ok"})
				}
			case ok:
				x, perr := strconv.Atoi(strings.TrimPrefix(string(payload), "r"))
				if perr != nil {
					x = -1
				}
				w.finish(call, resT{C: "true", X: x})
			default:
				w.finish(call, resT{C: "false"})
			}
		}()
	case "hreg":
		t := e.V
		ch := w.cl.HandleChannelOpen(typeName(t))
		switch {
		case ch == nil:
			w.finish(call, resT{C: "nil"})
		default:
			select {
			case nc, ok := <-ch:
				if !ok {
					w.finish(call, resT{C: "closed"})
				} else {
					w.finish(call, resT{C: "chan-with-content:" + nc.ChannelType()})
				}
			default:
				w.handlers[t] = true
				w.finish(call, resT{C: "chan"})
				go func() {
					for {
						var nc ssh.NewChannel
						var ok bool
						select {
						case nc, ok = <-ch:
						case <-w.stop:
							return
						}
						if !ok {
							break
						}
						label := t
						if nc.ChannelType() != typeName(t) {
							label = t + "!" + nc.ChannelType()
						}
						w.mu.Lock()
						w.del = append(w.del, label)
						for i := len(w.objs) - 1; i >= 0; i-- { // the newest undelivered inbound object of this step
							if w.objs[i].dir == "in" && w.objs[i].nc == nil && w.objs[i].kind == t {
								w.objs[i].nc = nc
								break
							}
						}
						w.mu.Unlock()
					}
					w.mu.Lock()
					w.hclosed[t] = true
					w.mu.Unlock()
				}()
			}
		}
	case "accept", "reject":
		o, err := w.obj(e.O)
		if err != nil || o.nc == nil {
			return fmt.Errorf("event %v: no NewChannel was delivered for object %d", e, e.O)
		}
		if e.K == "accept" {
			go func() {
				ch, reqs, err := o.nc.Accept()
				if err != nil {
					w.finish(call, resT{C: "err"})
					return
				}
				w.mu.Lock()
				o.ch = ch
				w.mu.Unlock()
				go ssh.DiscardRequests(reqs)
				w.finish(call, resT{C: "ok"})
			}()
		} else {
			go func() {
				if err := o.nc.Reject(ssh.Prohibited, "no"); err != nil {
					w.finish(call, resT{C: "err"})
				} else {
					w.finish(call, resT{C: "ok"})
				}
			}()
		}
	case "write", "read", "closewrite", "closeconn":
		o, err := w.obj(e.O)
		if err != nil || o.conn == nil {
			return fmt.Errorf("event %v: the application does not hold a connection for object %d", e, e.O)
		}
		c := o.conn
		switch e.K {
		case "write":
			go func() {
				n, err := c.Write([]byte("w"))
				switch {
				case err == nil && n == 1:
					w.finish(call, resT{C: "ok"})
				case err == io.EOF && n == 0:
					w.finish(call, resT{C: "eof"})
				default:
					w.finish(call, resT{C: fmt.Sprintf("write=%d,%v", n, err)})
				}
			}()
		case "read":
			go func() {
				buf := make([]byte, 4096)
				n, err := c.Read(buf)
				switch {
				case err == nil && n > 0:
					ids, ok := parseChunks(buf[:n])
					if !ok {
						w.finish(call, resT{C: fmt.Sprintf("read-garbled:%q", buf[:n])})
					} else {
						w.finish(call, resT{C: "data", D: ids})
					}
				case err == io.EOF && n == 0:
					w.finish(call, resT{C: "eof"})
				default:
					w.finish(call, resT{C: fmt.Sprintf("read=%d,%v", n, err)})
				}
			}()
		case "closewrite":
			cw, ok := c.(interface{ CloseWrite() error })
			if !ok {
				return fmt.Errorf("connection of object %d has no CloseWrite", e.O)
			}
			go func() { w.finish(call, resT{C: errClass(cw.CloseWrite())}) }()
		case "closeconn":
			go func() { w.finish(call, resT{C: errClass(c.Close())}) }()
		}
	case "cclose":
		go func() {
			w.cl.Close()
			w.finish(call, resT{C: "returned"})
		}()
	case "wait":
		go func() {
			if err := w.cl.Wait(); err != nil {
				w.finish(call, resT{C: "err"})
			} else {
				w.finish(call, resT{C: "nil"})
			}
		}()
	default:
		return fmt.Errorf("unknown local event %v", e)
	}
	return nil
}

// parseChunks decodes "d1;d2;" into [1 2].
func parseChunks(b []byte) ([]int, bool) {
	var ids []int
	for _, f := range strings.Split(strings.TrimSuffix(string(b), ";"), ";") {
		if !strings.HasPrefix(f, "d") {
			return nil, false
		}
		v, err := strconv.Atoi(f[1:])
		if err != nil {
			return nil, false
		}
		ids = append(ids, v)
	}
	return ids, !bytes.HasSuffix(b, []byte(";;")) && bytes.HasSuffix(b, []byte(";"))
}

// inject performs the peer event e.
func (w *world) inject(e evT) error {
	switch e.K {
	case "peereof":
		w.pr.eof()
		return nil
	case "garbage":
		w.pr.garbage()
		return nil
	case "disc":
		w.pr.write(cat([]byte{1}, u32(11), sshStr("bye"), sshStr("")))
		return nil
	case "pgreq":
		wr := byte(0)
		if e.V == "wr" {
			wr = 1
		}
		w.pr.write(cat([]byte{80}, sshStr(kaName), []byte{wr}))
		return nil
	case "greply":
		w.nrep++
		t := byte(82)
		if e.V == "succ" {
			t = 81
		}
		w.pr.write(cat([]byte{t}, []byte(fmt.Sprintf("r%d", w.nrep))))
		return nil
	case "popen":
		o := &objT{dir: "in", kind: e.V, rid: uint32(100 + len(w.objs) + 1)}
		w.mu.Lock()
		w.objs = append(w.objs, o)
		w.mu.Unlock()
		w.pr.write(cat([]byte{90}, sshStr(typeName(e.V)), u32(o.rid), u32(bigWindow), u32(maxPktSize)))
		return nil
	}
	o, err := w.obj(e.O)
	if err != nil {
		return fmt.Errorf("event %v: %v", e, err)
	}
	if !o.hasLid {
		return fmt.Errorf("event %v: the client's id of object %d is not known", e, e.O)
	}
	id := u32(o.lid)
	switch e.K {
	case "confirm":
		win := uint32(bigWindow)
		if e.V == "w0" {
			win = 0
		}
		o.rid = uint32(200 + e.O)
		w.pr.write(cat([]byte{91}, id, u32(o.rid), u32(win), u32(maxPktSize)))
	case "fail":
		w.pr.write(cat([]byte{92}, id, u32(uint32(e.X)), sshStr(fmt.Sprintf("no-%d", e.X)), sshStr("en")))
	case "data":
		o.nsent++
		w.pr.write(cat([]byte{94}, id, sshStr(fmt.Sprintf("d%d;", o.nsent))))
	case "eof":
		w.pr.write(cat([]byte{96}, id))
	case "close":
		w.pr.write(cat([]byte{97}, id))
	case "adj":
		w.pr.write(cat([]byte{93}, id, u32(bigWindow)))
	case "creq":
		wr := byte(0)
		if e.V == "wr" {
			wr = 1
		}
		w.pr.write(cat([]byte{98}, id, sshStr("x04-request@verif.example"), []byte{wr}))
	default:
		return fmt.Errorf("unknown peer event %v", e)
	}
	return nil
}

type obsT struct {
	Out  []pktT       `json:"out"`
	Done map[int]resT `json:"done"`
	Del  []string     `json:"del"`
	Dead bool         `json:"dead"`
	Hc   []string     `json:"hc"`
}

// perform executes one model event without waiting.  variant selects the order of the two halves of a race.
func (w *world) perform(e evT, variant int) error {
	switch {
	case e.K == "race":
		pe := evT{K: e.V, O: e.O, V: "ok", X: 2}
		if e.V == "peereof" {
			pe = evT{K: "peereof"}
		}
		ce := evT{K: "cancel", O: e.O}
		switch variant % 3 {
		case 0:
			if err := w.start(ce); err != nil {
				return err
			}
			return w.inject(pe)
		case 1:
			if err := w.inject(pe); err != nil {
				return err
			}
			return w.start(ce)
		default:
			if err := w.inject(pe); err != nil {
				return err
			}
			for i := 0; i < 20; i++ {
				runtime.Gosched()
			}
			return w.start(ce)
		}
	case e.K == "greq2":
		if err := w.start(e); err != nil {
			return err
		}
		if variant%2 == 1 {
			for i := 0; i < 20; i++ {
				runtime.Gosched()
			}
		}
		return w.inject(evT{K: "greply", V: e.V})
	case peerKinds[e.K]:
		return w.inject(e)
	}
	return w.start(e)
}

// observe waits for quiescence and collects what happened since the last observation.
func (w *world) observe() (obsT, error) {
	synctest.Wait()
	var o obsT
	for _, p := range w.pr.drain() {
		d := decodeOut(p)
		switch d.T {
		case "open":
			po := w.pendOpen
			w.pendOpen = nil
			if po == nil {
				d.S = "unexpected"
				break
			}
			if s := checkOpen(po.kind, po.n, d.chanType, d.extra); s != "" {
				w.note("dial " + po.kind + ": " + s)
				d.S = "bad:" + po.kind
			} else {
				d.S = po.kind
			}
			po.lid, po.hasLid = uint32(d.A), true
			w.mu.Lock()
			w.objs = append(w.objs, po)
			w.mu.Unlock()
		case "confirm":
			// the client accepted an inbound channel: its id is the sender id
			for _, ob := range w.objs {
				if ob.dir == "in" && int64(ob.rid) == d.A {
					ob.lid, ob.hasLid = uint32(d.B), true
				}
			}
		}
		o.Out = append(o.Out, d.pktT)
	}
	w.pendOpen = nil
	w.mu.Lock()
	o.Done = w.done
	w.done = map[int]resT{}
	o.Del = w.del
	w.del = nil
	o.Dead = w.dead
	for t := range w.hclosed {
		o.Hc = append(o.Hc, t)
	}
	w.mu.Unlock()
	sort.Strings(o.Hc)
	if pr := w.pr.problems(); len(pr) > 0 {
		return o, fmt.Errorf("harness peer: %s", strings.Join(pr, "; "))
	}
	return o, nil
}

func (w *world) pendingCalls() []int {
	w.mu.Lock()
	defer w.mu.Unlock()
	var p []int
	for i := 1; i <= w.ncalls; i++ {
		if !w.completed[i] {
			p = append(p, i)
		}
	}
	return p
}

func (w *world) takeNotes() []string {
	w.mu.Lock()
	defer w.mu.Unlock()
	n := w.notes
	w.notes = nil
	return n
}

// cleanup releases what the harness itself holds, so that the bubble can end.
func (w *world) cleanup() {
	for _, o := range w.objs {
		if o.cancel != nil {
			o.cancel()
		}
	}
	close(w.stop)
	w.cl.Close()
	w.pr.shutdown()
	synctest.Wait()
}
