// Binding T for X04: seeded random long sessions on the real ssh.Client, recorded as traces that
// spec/SSHClientLife_Trace.tla validates.
//
// The driver is model-independent: it keeps its own books (which channels the client opened, which the
// peer confirmed / closed, which calls are pending, which contexts are live) from what it did and what it
// observed, picks the next event at random among those the modelled application / a conforming peer may
// perform, performs it on the real client (both transports of x04_world.go; on the encrypted one the peer
// also starts key re-exchanges in the middle of the session), waits for quiescence and records the
// observation.  Nothing is compared here except that nothing is left behind at the end.
package x04

import (
	"bufio"
	"bytes"
	"encoding/json"
	"fmt"
	"math/rand"
	"os"
	"os/exec"
	"sort"
	"strconv"
	"strings"
	"testing"
	"testing/synctest"

	"verif/harness/vutil"
)

type dObj struct {
	dir       string
	kind      string
	opening   bool // out: waiting for the peer's answer
	ok        bool // confirmed / accepted
	peerEOF   bool
	peerClose bool
	zeroWin   bool
	held      bool // the application holds a connection
	inWait    bool // inbound, delivered, undecided
	ctxLive   bool
	dialCall  int
	dialPend  bool
	reader    bool
	writer    bool
	resident  bool
}

type traceLine struct {
	Ev   string   `json:"ev"`
	K    string   `json:"k"`
	O    int      `json:"o"`
	V    string   `json:"v"`
	X    int      `json:"x"`
	Out  []pktT   `json:"out"`
	Done [][2]any `json:"done"`
	Del  []string `json:"del"`
	Dead bool     `json:"dead"`
	Hc   []string `json:"hc"`
}

type driver struct {
	w        *world
	rng      *rand.Rand
	objs     []*dObj
	callObj  map[int]int    // call -> object (dial / read / write)
	callKind map[int]string // call -> kind
	gwait    bool
	gwaitC   int
	dead     bool
	lines    []traceLine
	nrekey   int
}

type cand struct {
	e evT
	w int
}

func (d *driver) resident() int {
	n := 0
	for _, o := range d.objs {
		if o.resident {
			n++
		}
	}
	return n
}

func (d *driver) candidates() []cand {
	var c []cand
	add := func(w int, e evT) { c = append(c, cand{e, w}) }
	free := d.resident() < 4
	if !d.dead {
		for i, o := range d.objs {
			n := i + 1
			if o.dir == "out" && o.opening {
				add(6, evT{K: "confirm", O: n, V: "ok"})
				add(2, evT{K: "confirm", O: n, V: "w0"})
				add(2, evT{K: "fail", O: n, X: []int{1, 2, 4}[d.rng.Intn(3)]})
				if o.ctxLive && o.dialPend {
					add(2, evT{K: "race", O: n, V: "confirm"})
					add(1, evT{K: "race", O: n, V: "fail"})
					add(1, evT{K: "race", O: n, V: "peereof"})
				}
			}
			if o.ok && !o.peerClose {
				if o.dir == "out" && !o.peerEOF {
					add(6, evT{K: "data", O: n})
					add(2, evT{K: "eof", O: n})
				}
				add(2, evT{K: "close", O: n})
				if o.dir == "out" {
					add(1, evT{K: "creq", O: n, V: "wr"})
					add(1, evT{K: "creq", O: n, V: "nowr"})
				}
				if o.dir == "out" && o.zeroWin {
					add(3, evT{K: "adj", O: n})
				}
			}
		}
		if free {
			add(2, evT{K: "popen", V: "ta"})
			add(1, evT{K: "popen", V: "tb"})
			add(1, evT{K: "popen", V: "unk"})
		}
		add(2, evT{K: "pgreq", V: "wr"})
		add(1, evT{K: "pgreq", V: "nowr"})
		if d.gwait {
			add(5, evT{K: "greply", V: "succ"})
			add(5, evT{K: "greply", V: "fail"})
			add(3, evT{K: "greq2", V: []string{"succ", "fail"}[d.rng.Intn(2)]})
		} else {
			add(1, evT{K: "greply", V: []string{"succ", "fail"}[d.rng.Intn(2)]})
		}
	}
	if free {
		for _, k := range []string{"tcp", "tcp", "unix", "dialtcp", "ctx", "ctx", "ctx", "ctxdl", "ctxdl"} {
			add(1, evT{K: "dial", V: k})
		}
		add(1, evT{K: "dial", V: []string{"ctxdone", "badnet", "badaddr"}[d.rng.Intn(3)]})
	}
	for i, o := range d.objs {
		n := i + 1
		if o.ctxLive {
			add(3, evT{K: "cancel", O: n})
		}
		if o.held && o.dir == "out" {
			if !o.writer {
				add(3, evT{K: "write", O: n})
				add(1, evT{K: "closewrite", O: n})
			}
			if !o.reader {
				add(4, evT{K: "read", O: n})
			}
			add(1, evT{K: "closeconn", O: n})
		}
		if o.inWait {
			add(3, evT{K: "accept", O: n})
			add(2, evT{K: "reject", O: n})
		}
	}
	add(2, evT{K: "greq", V: "nowr"})
	if !d.gwait {
		add(3, evT{K: "greq", V: "wr"})
	}
	add(1, evT{K: "hreg", V: "ta"})
	add(1, evT{K: "hreg", V: "tb"})
	add(1, evT{K: "wait"})
	return c
}

func (d *driver) pick(c []cand) evT {
	tot := 0
	for _, x := range c {
		tot += x.w
	}
	r := d.rng.Intn(tot)
	for _, x := range c {
		if r < x.w {
			return x.e
		}
		r -= x.w
	}
	return c[len(c)-1].e
}

// do performs one event, records the observation and updates the books.
func (d *driver) do(e evT) error {
	w := d.w
	callBefore := w.ncalls
	nobjBefore := len(w.objs)
	if err := w.perform(e, d.rng.Intn(6)); err != nil {
		return errAbort{err}
	}
	obs, err := w.observe()
	if err != nil {
		return err
	}
	ln := traceLine{Ev: "step", K: e.K, O: e.O, V: e.V, X: e.X, Out: obs.Out, Del: obs.Del, Dead: obs.Dead, Hc: obs.Hc}
	if e.K == "race" || e.K == "greq2" {
		ln.Ev = "race"
	}
	if ln.Out == nil {
		ln.Out = []pktT{}
	}
	if ln.Del == nil {
		ln.Del = []string{}
	}
	if ln.Hc == nil {
		ln.Hc = []string{}
	}
	calls := make([]int, 0, len(obs.Done))
	for c := range obs.Done {
		calls = append(calls, c)
	}
	sort.Ints(calls)
	ln.Done = [][2]any{}
	for _, c := range calls {
		r := obs.Done[c]
		if r.D == nil {
			r.D = []int{}
		}
		ln.Done = append(ln.Done, [2]any{c, r})
	}
	d.lines = append(d.lines, ln)

	// the books
	newCall := 0
	if w.ncalls > callBefore {
		newCall = w.ncalls
	}
	switch e.K {
	case "dial":
		d.callKind[newCall] = "dial"
		if len(w.objs) > nobjBefore { // an open packet was seen
			o := &dObj{dir: "out", kind: e.V, opening: true, resident: true, dialCall: newCall, dialPend: true,
				ctxLive: e.V == "ctx" || e.V == "ctxdl"}
			d.objs = append(d.objs, o)
			d.callObj[newCall] = len(d.objs)
		}
	case "popen":
		o := &dObj{dir: "in", kind: e.V}
		if len(obs.Del) > 0 {
			o.inWait, o.resident = true, true
		}
		d.objs = append(d.objs, o)
	case "confirm":
		o := d.objs[e.O-1]
		o.opening, o.ok, o.zeroWin = false, true, e.V == "w0"
	case "fail":
		o := d.objs[e.O-1]
		o.opening, o.resident = false, false
	case "race":
		o := d.objs[e.O-1]
		o.ctxLive = false
		switch e.V {
		case "confirm":
			o.opening, o.ok = false, true
		case "fail":
			o.opening, o.resident = false, false
		}
	case "eof":
		d.objs[e.O-1].peerEOF = true
	case "close":
		o := d.objs[e.O-1]
		o.peerClose, o.resident = true, false
	case "adj":
		d.objs[e.O-1].zeroWin = false
	case "cancel":
		d.objs[e.O-1].ctxLive = false
	case "accept":
		o := d.objs[e.O-1]
		o.inWait = false
		if r, ok := obs.Done[newCall]; ok && r.C == "ok" {
			o.ok, o.held = true, true
		}
	case "reject":
		o := d.objs[e.O-1]
		o.inWait, o.resident = false, false
	case "read":
		d.callObj[newCall], d.callKind[newCall] = e.O, "read"
		d.objs[e.O-1].reader = true
	case "write":
		d.callObj[newCall], d.callKind[newCall] = e.O, "write"
		d.objs[e.O-1].writer = true
	case "greq":
		if e.V == "wr" {
			d.gwait, d.gwaitC = true, newCall
		}
	case "greq2":
		d.gwait, d.gwaitC = true, newCall
	}
	for c, r := range obs.Done {
		switch d.callKind[c] {
		case "dial":
			if n, ok := d.callObj[c]; ok {
				o := d.objs[n-1]
				o.dialPend = false
				if r.C == "conn" {
					o.held = true
				}
			}
		case "read":
			d.objs[d.callObj[c]-1].reader = false
		case "write":
			d.objs[d.callObj[c]-1].writer = false
		}
		if d.gwait && c == d.gwaitC {
			d.gwait = false
		}
	}
	if obs.Dead {
		d.dead = true
		d.gwait = false
		for _, o := range d.objs {
			o.resident, o.opening = false, false
			if o.ok {
				o.peerClose = true
			}
		}
	}
	return nil
}

// errAbort: the driver's books and the harness's disagree (an event the driver believes possible cannot be
// performed).  On the unchanged code this is a bug of the harness; with a deviating client it is a consequence of the
// deviation, which the recorded trace up to this point shows -- so the trace is kept and judged by the specification.
type errAbort struct{ error }

func runSession(t *testing.T, seed int64, transport string, steps int) (lines []traceLine, problem string, infra error) {
	synctest.Test(t, func(t *testing.T) {
		w, err := newWorld(transport)
		if err != nil {
			infra = err
			return
		}
		defer w.cleanup()
		d := &driver{w: w, rng: rand.New(rand.NewSource(seed)), callObj: map[int]int{}, callKind: map[int]string{}}
		after := 0
		for i := 0; i < steps; i++ {
			if d.dead {
				after++
				if after > 6 {
					break
				}
			}
			if ep, ok := w.pr.(*encPeer); ok && !d.dead && d.rng.Intn(15) == 0 {
				ep.hs.RequestKeyExchange() // invisible at this level
				synctest.Wait()
				d.nrekey++
			}
			c := d.candidates()
			if !d.dead && i > steps/2 && d.rng.Intn(12) == 0 {
				c = []cand{{evT{K: []string{"peereof", "garbage", "disc", "cclose"}[d.rng.Intn(4)]}, 1}}
			}
			if err := d.do(d.pick(c)); err != nil {
				if _, ok := err.(errAbort); ok {
					lines, problem = d.lines, "abort:"+err.Error()
					return
				}
				infra = err
				return
			}
			if n := w.takeNotes(); len(n) > 0 {
				problem = "doc:" + n[0]
				lines = d.lines
				return
			}
		}
		if !d.dead {
			if err := d.do(evT{K: []string{"peereof", "cclose"}[d.rng.Intn(2)]}); err != nil {
				infra = err
				return
			}
		}
		lines = d.lines
		if !d.dead {
			problem = "the connection did not end after the peer dropped it / Close"
			return
		}
		if p := w.pendingCalls(); len(p) != 0 {
			problem = fmt.Sprintf("calls still blocked after the connection ended: %v", p)
			return
		}
		if n, dump := sshGoroutines(); n != 0 {
			ex := extraFrames(frames(dump), map[string]int{})
			problem = fmt.Sprintf("goroutines:%v", ex)
		}
		vutilRekeys += d.nrekey
	})
	return
}

var vutilRekeys int

type longReport struct {
	Session   int         `json:"session"`
	Seed      int64       `json:"seed"`
	Transport string      `json:"transport"`
	Problem   string      `json:"problem,omitempty"`
	Infra     string      `json:"infra,omitempty"`
	Lines     []traceLine `json:"lines"`
}

func sessionParams(i int) (int64, string) {
	transport := "ctl"
	if i%2 == 1 {
		transport = "enc"
	}
	return vutil.Seed()*100003 + int64(i), transport
}

// TestLongChild runs sessions START.. and appends one report line per session; a goroutine left blocked inside
// package ssh (or a panic) kills this process, the parent classifies the crash.
func TestLongChild(t *testing.T) {
	if os.Getenv("VERIF_X04_CHILD") != "long" {
		t.Skip("child only")
	}
	start, _ := strconv.Atoi(os.Getenv("VERIF_X04_START"))
	n, _ := strconv.Atoi(vutil.Env("VERIF_X04_LONG", "20"))
	steps, _ := strconv.Atoi(vutil.Env("VERIF_X04_LONG_STEPS", "70"))
	prog, err := os.OpenFile(os.Getenv("VERIF_X04_PROGRESS"), os.O_CREATE|os.O_WRONLY, 0o644)
	if err != nil {
		t.Fatal(err)
	}
	rep, err := os.OpenFile(os.Getenv("VERIF_X04_REPORT"), os.O_CREATE|os.O_WRONLY|os.O_APPEND, 0o644)
	if err != nil {
		t.Fatal(err)
	}
	defer rep.Close()
	startWatchdog(watchdogLimit())
	for i := start; i < n; i++ {
		prog.WriteAt([]byte(fmt.Sprintf("%-12d", i)), 0)
		watchdogProgress(i)
		seed, transport := sessionParams(i)
		lines, problem, infra := runSession(t, seed, transport, steps)
		r := longReport{Session: i, Seed: seed, Transport: transport, Problem: problem, Lines: lines}
		if infra != nil {
			r.Infra = infra.Error()
		}
		b, err := json.Marshal(r)
		if err != nil {
			t.Fatal(err)
		}
		rep.Write(append(b, '\n'))
	}
	b, _ := json.Marshal(map[string]int{"rekeys": vutilRekeys})
	os.WriteFile(os.Getenv("VERIF_X04_REPORT")+".stats", b, 0o644)
	prog.WriteAt([]byte(fmt.Sprintf("%-12s", "done")), 0)
}

func TestLong(t *testing.T) {
	out := vutil.NewOut()
	defer func() {
		if err := out.Write(); err != nil {
			t.Fatal(err)
		}
	}()
	n, _ := strconv.Atoi(vutil.Env("VERIF_X04_LONG", "20"))
	var fh *os.File
	if p := os.Getenv("VERIF_TRACE_OUT"); p != "" {
		var err error
		if fh, err = os.Create(p); err != nil {
			t.Fatal(err)
		}
		defer fh.Close()
	}
	dir := t.TempDir()
	progress, report := dir+"/progress", dir+"/report.ndjson"
	start, crashes := 0, 0
	for start < n {
		os.WriteFile(progress, []byte(fmt.Sprintf("%-12d", -1)), 0o644)
		cmd := exec.Command(os.Args[0], "-test.run=^TestLongChild$", "-test.timeout=1400s")
		cmd.Env = append(os.Environ(), "VERIF_X04_CHILD=long", "VERIF_X04_START="+strconv.Itoa(start), "VERIF_X04_PROGRESS="+progress, "VERIF_X04_REPORT="+report)
		var buf bytes.Buffer
		cmd.Stdout, cmd.Stderr = &buf, &buf
		err := cmd.Run()
		pb, _ := os.ReadFile(progress)
		ps := strings.TrimSpace(string(pb))
		if ps == "done" {
			break
		}
		last, _ := strconv.Atoi(ps)
		if err == nil || last < start {
			t.Fatalf("x04 long child stopped at %q without finishing (err=%v):\n%s", ps, err, tail(buf.String(), 4000))
		}
		sig, what, verdict := classifyCrash(buf.String())
		if f, ok := hangOf(buf.String()); ok {
			sig, what, verdict = "clientlife-hang:"+f, "the client never became quiescent: a goroutine waits for a lock inside package ssh ("+f+") while nothing is running", true
		}
		if !verdict {
			t.Fatalf("x04 long child crashed at session %d, not attributable to package ssh (%s):\n%s", last, what, tail(buf.String(), 6000))
		}
		seed, transport := sessionParams(last)
		out.Violation(sig, "long session on the real ssh.Client: "+what, map[string]any{"seed": seed, "transport": transport, "session": last, "crash": tail(buf.String(), 3000)})
		t.Errorf("%s at long session %d: %s", sig, last, what)
		crashes++
		if crashes > 10 {
			break
		}
		start = last + 1
	}
	events := 0
	var aborted []string
	if rf, err := os.Open(report); err == nil {
		defer rf.Close()
		sc := bufio.NewScanner(rf)
		sc.Buffer(make([]byte, 1<<20), 1<<28)
		for sc.Scan() {
			var r longReport
			if err := json.Unmarshal(sc.Bytes(), &r); err != nil {
				t.Fatalf("bad report line: %v", err)
			}
			if r.Infra != "" {
				t.Fatalf("x04 long session %d (%s): %s", r.Session, r.Transport, r.Infra)
			}
			out.Case(fmt.Sprintf("%s/%d", r.Transport, r.Seed))
			events += len(r.Lines)
			if strings.HasPrefix(r.Problem, "abort:") {
				aborted = append(aborted, fmt.Sprintf("session %d (%s, seed %d): %s", r.Session, r.Transport, r.Seed, r.Problem))
				r.Problem = ""
			}
			if r.Problem != "" {
				sig := "clientlife-long:" + r.Problem
				if len(sig) > 90 {
					sig = sig[:90]
				}
				out.Violation(sig, "long session on the real ssh.Client: "+r.Problem, map[string]any{"seed": r.Seed, "transport": r.Transport, "trace": r.Lines})
				t.Errorf("session %d: %s", r.Session, r.Problem)
				continue
			}
			if fh != nil {
				b, err := json.Marshal(r.Lines)
				if err != nil {
					t.Fatal(err)
				}
				fh.Write(append(b, '\n'))
			}
		}
	}
	out.Extra["long_session_events"] = events
	out.Extra["long_child_crashes"] = crashes
	out.Extra["long_sessions_aborted"] = aborted
	if b, err := os.ReadFile(report + ".stats"); err == nil {
		var st map[string]int
		if json.Unmarshal(b, &st) == nil {
			out.Extra["long_session_rekeys"] = st["rekeys"]
		}
	}
}
