// Binding T for X04: seeded random long sessions on the real ssh.Client, recorded as traces that
// spec/SSHClientLife_Trace.tla validates.
//
// The driver is model-independent: it keeps its own books (which channels the client opened, which the
// peer confirmed / closed, which calls are pending, which contexts are live) from what it did and what it
// observed, picks the next event at random among those the modelled application / a conforming peer may
// perform, performs it on the real client (both transports of x04_world.go; on the encrypted one the peer
// also starts key re-exchanges in the middle of the session), waits for quiescence and records the
// observation.  Nothing is compared here except that nothing is left behind at the end.
package x04

import (
	"encoding/json"
	"fmt"
	"math/rand"
	"os"
	"sort"
	"strconv"
	"testing"
	"testing/synctest"

	"verif/harness/vutil"
)

type dObj struct {
	dir       string
	kind      string
	opening   bool // out: waiting for the peer's answer
	ok        bool // confirmed / accepted
	peerEOF   bool
	peerClose bool
	zeroWin   bool
	held      bool // the application holds a connection
	inWait    bool // inbound, delivered, undecided
	ctxLive   bool
	dialCall  int
	dialPend  bool
	reader    bool
	writer    bool
	resident  bool
}

type traceLine struct {
	Ev   string     `json:"ev"`
	K    string     `json:"k"`
	O    int        `json:"o"`
	V    string     `json:"v"`
	X    int        `json:"x"`
	Out  []pktT     `json:"out"`
	Done [][2]any   `json:"done"`
	Del  []string   `json:"del"`
	Dead bool       `json:"dead"`
	Hc   []string   `json:"hc"`
}

type driver struct {
	w        *world
	rng      *rand.Rand
	objs     []*dObj
	callObj  map[int]int    // call -> object (dial / read / write)
	callKind map[int]string // call -> kind
	gwait    bool
	gwaitC   int
	dead     bool
	lines    []traceLine
	nrekey   int
}

type cand struct {
	e evT
	w int
}

func (d *driver) resident() int {
	n := 0
	for _, o := range d.objs {
		if o.resident {
			n++
		}
	}
	return n
}

func (d *driver) candidates() []cand {
	var c []cand
	add := func(w int, e evT) { c = append(c, cand{e, w}) }
	free := d.resident() < 4
	if !d.dead {
		for i, o := range d.objs {
			n := i + 1
			if o.dir == "out" && o.opening {
				add(6, evT{K: "confirm", O: n, V: "ok"})
				add(2, evT{K: "confirm", O: n, V: "w0"})
				add(2, evT{K: "fail", O: n, X: []int{1, 2, 4}[d.rng.Intn(3)]})
				if o.ctxLive && o.dialPend {
					add(2, evT{K: "race", O: n, V: "confirm"})
					add(1, evT{K: "race", O: n, V: "fail"})
					add(1, evT{K: "race", O: n, V: "peereof"})
				}
			}
			if o.ok && !o.peerClose {
				if o.dir == "out" && !o.peerEOF {
					add(6, evT{K: "data", O: n})
					add(2, evT{K: "eof", O: n})
				}
				add(2, evT{K: "close", O: n})
				if o.dir == "out" {
					add(1, evT{K: "creq", O: n, V: "wr"})
					add(1, evT{K: "creq", O: n, V: "nowr"})
				}
				if o.dir == "out" && o.zeroWin {
					add(3, evT{K: "adj", O: n})
				}
			}
		}
		if free {
			add(2, evT{K: "popen", V: "ta"})
			add(1, evT{K: "popen", V: "tb"})
			add(1, evT{K: "popen", V: "unk"})
		}
		add(2, evT{K: "pgreq", V: "wr"})
		add(1, evT{K: "pgreq", V: "nowr"})
		if d.gwait {
			add(5, evT{K: "greply", V: "succ"})
			add(5, evT{K: "greply", V: "fail"})
			add(3, evT{K: "greq2", V: []string{"succ", "fail"}[d.rng.Intn(2)]})
		} else {
			add(1, evT{K: "greply", V: []string{"succ", "fail"}[d.rng.Intn(2)]})
		}
	}
	if free {
		for _, k := range []string{"tcp", "tcp", "unix", "dialtcp", "ctx", "ctx", "ctx", "ctxdl", "ctxdl"} {
			add(1, evT{K: "dial", V: k})
		}
		add(1, evT{K: "dial", V: []string{"ctxdone", "badnet", "badaddr"}[d.rng.Intn(3)]})
	}
	for i, o := range d.objs {
		n := i + 1
		if o.ctxLive {
			add(3, evT{K: "cancel", O: n})
		}
		if o.held && o.dir == "out" {
			if !o.writer {
				add(3, evT{K: "write", O: n})
				add(1, evT{K: "closewrite", O: n})
			}
			if !o.reader {
				add(4, evT{K: "read", O: n})
			}
			add(1, evT{K: "closeconn", O: n})
		}
		if o.inWait {
			add(3, evT{K: "accept", O: n})
			add(2, evT{K: "reject", O: n})
		}
	}
	add(2, evT{K: "greq", V: "nowr"})
	if !d.gwait {
		add(3, evT{K: "greq", V: "wr"})
	}
	add(1, evT{K: "hreg", V: "ta"})
	add(1, evT{K: "hreg", V: "tb"})
	add(1, evT{K: "wait"})
	return c
}

func (d *driver) pick(c []cand) evT {
	tot := 0
	for _, x := range c {
		tot += x.w
	}
	r := d.rng.Intn(tot)
	for _, x := range c {
		if r < x.w {
			return x.e
		}
		r -= x.w
	}
	return c[len(c)-1].e
}

// do performs one event, records the observation and updates the books.
func (d *driver) do(e evT) error {
	w := d.w
	callBefore := w.ncalls
	nobjBefore := len(w.objs)
	if err := w.perform(e, d.rng.Intn(6)); err != nil {
		return err
	}
	obs, err := w.observe()
	if err != nil {
		return err
	}
	ln := traceLine{Ev: "step", K: e.K, O: e.O, V: e.V, X: e.X, Out: obs.Out, Del: obs.Del, Dead: obs.Dead, Hc: obs.Hc}
	if e.K == "race" || e.K == "greq2" {
		ln.Ev = "race"
	}
	if ln.Out == nil {
		ln.Out = []pktT{}
	}
	if ln.Del == nil {
		ln.Del = []string{}
	}
	if ln.Hc == nil {
		ln.Hc = []string{}
	}
	calls := make([]int, 0, len(obs.Done))
	for c := range obs.Done {
		calls = append(calls, c)
	}
	sort.Ints(calls)
	ln.Done = [][2]any{}
	for _, c := range calls {
		r := obs.Done[c]
		if r.D == nil {
			r.D = []int{}
		}
		ln.Done = append(ln.Done, [2]any{c, r})
	}
	d.lines = append(d.lines, ln)

	// the books
	newCall := 0
	if w.ncalls > callBefore {
		newCall = w.ncalls
	}
	switch e.K {
	case "dial":
		d.callKind[newCall] = "dial"
		if len(w.objs) > nobjBefore { // an open packet was seen
			o := &dObj{dir: "out", kind: e.V, opening: true, resident: true, dialCall: newCall, dialPend: true,
				ctxLive: e.V == "ctx" || e.V == "ctxdl"}
			d.objs = append(d.objs, o)
			d.callObj[newCall] = len(d.objs)
		}
	case "popen":
		o := &dObj{dir: "in", kind: e.V}
		if len(obs.Del) > 0 {
			o.inWait, o.resident = true, true
		}
		d.objs = append(d.objs, o)
	case "confirm":
		o := d.objs[e.O-1]
		o.opening, o.ok, o.zeroWin = false, true, e.V == "w0"
	case "fail":
		o := d.objs[e.O-1]
		o.opening, o.resident = false, false
	case "race":
		o := d.objs[e.O-1]
		o.ctxLive = false
		switch e.V {
		case "confirm":
			o.opening, o.ok = false, true
		case "fail":
			o.opening, o.resident = false, false
		}
	case "eof":
		d.objs[e.O-1].peerEOF = true
	case "close":
		o := d.objs[e.O-1]
		o.peerClose, o.resident = true, false
	case "adj":
		d.objs[e.O-1].zeroWin = false
	case "cancel":
		d.objs[e.O-1].ctxLive = false
	case "accept":
		o := d.objs[e.O-1]
		o.inWait = false
		if r, ok := obs.Done[newCall]; ok && r.C == "ok" {
			o.ok, o.held = true, true
		}
	case "reject":
		o := d.objs[e.O-1]
		o.inWait, o.resident = false, false
	case "read":
		d.callObj[newCall], d.callKind[newCall] = e.O, "read"
		d.objs[e.O-1].reader = true
	case "write":
		d.callObj[newCall], d.callKind[newCall] = e.O, "write"
		d.objs[e.O-1].writer = true
	case "greq":
		if e.V == "wr" {
			d.gwait, d.gwaitC = true, newCall
		}
	case "greq2":
		d.gwait, d.gwaitC = true, newCall
	}
	for c, r := range obs.Done {
		switch d.callKind[c] {
		case "dial":
			if n, ok := d.callObj[c]; ok {
				o := d.objs[n-1]
				o.dialPend = false
				if r.C == "conn" {
					o.held = true
				}
			}
		case "read":
			d.objs[d.callObj[c]-1].reader = false
		case "write":
			d.objs[d.callObj[c]-1].writer = false
		}
		if d.gwait && c == d.gwaitC {
			d.gwait = false
		}
	}
	if obs.Dead {
		d.dead = true
		d.gwait = false
		for _, o := range d.objs {
			o.resident, o.opening = false, false
			if o.ok {
				o.peerClose = true
			}
		}
	}
	return nil
}

func runSession(t *testing.T, seed int64, transport string, steps int) (lines []traceLine, problem string, infra error) {
	synctest.Test(t, func(t *testing.T) {
		w, err := newWorld(transport)
		if err != nil {
			infra = err
			return
		}
		defer w.cleanup()
		d := &driver{w: w, rng: rand.New(rand.NewSource(seed)), callObj: map[int]int{}, callKind: map[int]string{}}
		after := 0
		for i := 0; i < steps; i++ {
			if d.dead {
				after++
				if after > 6 {
					break
				}
			}
			if ep, ok := w.pr.(*encPeer); ok && !d.dead && d.rng.Intn(15) == 0 {
				ep.hs.RequestKeyExchange() // invisible at this level
				synctest.Wait()
				d.nrekey++
			}
			c := d.candidates()
			if !d.dead && i > steps/2 && d.rng.Intn(12) == 0 {
				c = []cand{{evT{K: []string{"peereof", "garbage", "disc", "cclose"}[d.rng.Intn(4)]}, 1}}
			}
			if err := d.do(d.pick(c)); err != nil {
				infra = err
				return
			}
			if n := w.takeNotes(); len(n) > 0 {
				problem = "doc:" + n[0]
				lines = d.lines
				return
			}
		}
		if !d.dead {
			if err := d.do(evT{K: []string{"peereof", "cclose"}[d.rng.Intn(2)]}); err != nil {
				infra = err
				return
			}
		}
		lines = d.lines
		if !d.dead {
			problem = "the connection did not end after the peer dropped it / Close"
			return
		}
		if p := w.pendingCalls(); len(p) != 0 {
			problem = fmt.Sprintf("calls still blocked after the connection ended: %v", p)
			return
		}
		if n, dump := sshGoroutines(); n != 0 {
			ex := extraFrames(frames(dump), map[string]int{})
			problem = fmt.Sprintf("goroutines:%v", ex)
		}
		vutilRekeys += d.nrekey
	})
	return
}

var vutilRekeys int

func TestLong(t *testing.T) {
	out := vutil.NewOut()
	defer func() {
		if err := out.Write(); err != nil {
			t.Fatal(err)
		}
	}()
	n, _ := strconv.Atoi(vutil.Env("VERIF_X04_LONG", "20"))
	steps, _ := strconv.Atoi(vutil.Env("VERIF_X04_LONG_STEPS", "70"))
	var fh *os.File
	if p := os.Getenv("VERIF_TRACE_OUT"); p != "" {
		var err error
		if fh, err = os.Create(p); err != nil {
			t.Fatal(err)
		}
		defer fh.Close()
	}
	events := 0
	for i := 0; i < n; i++ {
		transport := "ctl"
		if i%2 == 1 {
			transport = "enc"
		}
		seed := vutil.Seed()*100003 + int64(i)
		lines, problem, infra := runSession(t, seed, transport, steps)
		if infra != nil {
			t.Fatalf("x04 long session %d (%s): %v", i, transport, infra)
		}
		out.Case(fmt.Sprintf("%s/%d", transport, seed))
		events += len(lines)
		if problem != "" {
			sig := "clientlife-long:" + problem
			if len(sig) > 90 {
				sig = sig[:90]
			}
			out.Violation(sig, "long session on the real ssh.Client: "+problem, map[string]any{"seed": seed, "transport": transport, "trace": lines})
			t.Errorf("session %d: %s", i, problem)
			continue
		}
		if fh != nil {
			b, err := json.Marshal(lines)
			if err != nil {
				t.Fatal(err)
			}
			fh.Write(append(b, '\n'))
		}
	}
	out.Extra["long_session_events"] = events
	out.Extra["long_session_rekeys"] = vutilRekeys
}
