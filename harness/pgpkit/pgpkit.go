// Package pgpkit builds throw-away OpenPGP entities of each key type the x/crypto/openpgp package can
// use (RSA; DSA primary + ElGamal subkey; ECDSA primary + RSA or ElGamal encryption subkey) and wraps
// GnuPG in a scratch GNUPGHOME.  Used by the C46 and C44 harnesses.
package pgpkit

import (
	"bytes"
	"crypto"
	"crypto/dsa"
	"crypto/ecdsa"
	"crypto/elliptic"
	"crypto/rand"
	"crypto/rsa"
	"fmt"
	"io"
	"math/big"
	"os"
	"os/exec"
	"path/filepath"
	"strings"
	"time"

	"golang.org/x/crypto/openpgp"
	"golang.org/x/crypto/openpgp/elgamal"
	"golang.org/x/crypto/openpgp/packet"
)

// Kinds of entities.
const (
	RSA       = "rsa"       // RSA-2048 primary (sign+certify) + RSA-2048 subkey (encrypt): openpgp.NewEntity
	DSAElG    = "dsa-elg"   // DSA L2048/N256 primary + ElGamal-2048 subkey
	DSA1024   = "dsa1024"   // DSA L1024/N160 primary + ElGamal-1024 subkey
	ECDSAP256 = "ecdsa-256" // ECDSA P-256 primary + RSA-2048 subkey
	ECDSAP384 = "ecdsa-384" // ECDSA P-384 primary + ElGamal-2048 subkey
	ECDSAP521 = "ecdsa-521" // ECDSA P-521 primary + RSA-2048 subkey
)

// RFC 3526 group 14 (2048-bit MODP), generator 2; RFC 2409 second Oakley group (1024-bit), generator 2.
const modp2048 = "FFFFFFFFFFFFFFFFC90FDAA22168C234C4C6628B80DC1CD129024E088A67CC74020BBEA63B139B22514A08798E3404DD" +
	"EF9519B3CD3A431B302B0A6DF25F14374FE1356D6D51C245E485B576625E7EC6F44C42E9A637ED6B0BFF5CB6F406B7ED" +
	"EE386BFB5A899FA5AE9F24117C4B1FE649286651ECE45B3DC2007CB8A163BF0598DA48361C55D39A69163FA8FD24CF5F" +
	"83655D23DCA3AD961C62F356208552BB9ED529077096966D670C354E4ABC9804F1746C08CA18217C32905E462E36CE3B" +
	"E39E772C180E86039B2783A2EC07A28FB5C55DF06F4C52C9DE2BCBF6955817183995497CEA956AE515D2261898FA0510" +
	"15728E5A8AACAA68FFFFFFFFFFFFFFFF"
const modp1024 = "FFFFFFFFFFFFFFFFC90FDAA22168C234C4C6628B80DC1CD129024E088A67CC74020BBEA63B139B22514A08798E3404DD" +
	"EF9519B3CD3A431B302B0A6DF25F14374FE1356D6D51C245E485B576625E7EC6F44C42E9A637ED6B0BFF5CB6F406B7ED" +
	"EE386BFB5A899FA5AE9F24117C4B1FE649286651ECE65381FFFFFFFFFFFFFFFF"

func elgKey(hexP string) (*elgamal.PrivateKey, error) {
	p, _ := new(big.Int).SetString(hexP, 16)
	x, err := rand.Int(rand.Reader, new(big.Int).Sub(p, big.NewInt(3)))
	if err != nil {
		return nil, err
	}
	x.Add(x, big.NewInt(2))
	g := big.NewInt(2)
	return &elgamal.PrivateKey{PublicKey: elgamal.PublicKey{G: g, P: p, Y: new(big.Int).Exp(g, x, p)}, X: x}, nil
}

// New builds an entity of the given kind whose self-signatures use hash h (0 = package default).
func New(kind string, h crypto.Hash) (*openpgp.Entity, error) {
	switch kind { // GnuPG wants ECDSA digests at least as wide as the curve
	case ECDSAP384:
		h = crypto.SHA384
	case ECDSAP521:
		h = crypto.SHA512
	}
	cfg := &packet.Config{DefaultHash: h, RSABits: 2048}
	now := cfg.Now().Add(-time.Hour).Truncate(time.Second) // in the past, so that gpg does not complain about clock skew
	cfg.Time = func() time.Time { return now }
	name := "verif " + kind
	if kind == RSA {
		return openpgp.NewEntity(name, "", kind+"@verif.invalid", cfg)
	}
	var pub *packet.PublicKey
	var priv *packet.PrivateKey
	var algo packet.PublicKeyAlgorithm
	switch kind {
	case DSAElG, DSA1024:
		sz := dsa.L2048N256
		if kind == DSA1024 {
			sz = dsa.L1024N160
		}
		k := new(dsa.PrivateKey)
		if err := dsa.GenerateParameters(&k.Parameters, rand.Reader, sz); err != nil {
			return nil, err
		}
		if err := dsa.GenerateKey(k, rand.Reader); err != nil {
			return nil, err
		}
		pub, priv, algo = packet.NewDSAPublicKey(now, &k.PublicKey), packet.NewDSAPrivateKey(now, k), packet.PubKeyAlgoDSA
	case ECDSAP256, ECDSAP384, ECDSAP521:
		c := map[string]elliptic.Curve{ECDSAP256: elliptic.P256(), ECDSAP384: elliptic.P384(), ECDSAP521: elliptic.P521()}[kind]
		k, err := ecdsa.GenerateKey(c, rand.Reader)
		if err != nil {
			return nil, err
		}
		pub, priv, algo = packet.NewECDSAPublicKey(now, &k.PublicKey), packet.NewECDSAPrivateKey(now, k), packet.PubKeyAlgoECDSA
	default:
		return nil, fmt.Errorf("pgpkit: unknown kind %q", kind)
	}
	uid := packet.NewUserId(name, "", kind+"@verif.invalid")
	e := &openpgp.Entity{PrimaryKey: pub, PrivateKey: priv, Identities: map[string]*openpgp.Identity{}}
	isPrimary := true
	id := &openpgp.Identity{Name: uid.Id, UserId: uid, SelfSignature: &packet.Signature{
		CreationTime: now, SigType: packet.SigTypePositiveCert, PubKeyAlgo: algo, Hash: cfg.Hash(), IsPrimaryId: &isPrimary,
		FlagsValid: true, FlagSign: true, FlagCertify: true, IssuerKeyId: &pub.KeyId}}
	if err := id.SelfSignature.SignUserId(uid.Id, pub, priv, cfg); err != nil {
		return nil, err
	}
	e.Identities[uid.Id] = id
	var spub *packet.PublicKey
	var spriv *packet.PrivateKey
	switch kind {
	case DSAElG, ECDSAP384, DSA1024:
		grp := modp2048
		if kind == DSA1024 {
			grp = modp1024
		}
		k, err := elgKey(grp)
		if err != nil {
			return nil, err
		}
		spub, spriv = packet.NewElGamalPublicKey(now, &k.PublicKey), packet.NewElGamalPrivateKey(now, k)
	default:
		k, err := rsa.GenerateKey(rand.Reader, 2048)
		if err != nil {
			return nil, err
		}
		spub, spriv = packet.NewRSAPublicKey(now, &k.PublicKey), packet.NewRSAPrivateKey(now, k)
	}
	spub.IsSubkey, spriv.IsSubkey = true, true
	sk := openpgp.Subkey{PublicKey: spub, PrivateKey: spriv, Sig: &packet.Signature{
		CreationTime: now, SigType: packet.SigTypeSubkeyBinding, PubKeyAlgo: algo, Hash: cfg.Hash(),
		FlagsValid: true, FlagEncryptStorage: true, FlagEncryptCommunications: true, IssuerKeyId: &pub.KeyId}}
	if err := sk.Sig.SignKey(spub, priv, cfg); err != nil {
		return nil, err
	}
	e.Subkeys = []openpgp.Subkey{sk}
	return e, nil
}

// GPG is a GnuPG instance with a throw-away home directory.
type GPG struct {
	Home string
	Bin  string
}

// NewGPG creates a scratch GNUPGHOME under dir (short path: gpg-agent's socket path is length limited).
// It returns nil if gpg is not installed.
func NewGPG(dir string) (*GPG, error) {
	bin, err := exec.LookPath("gpg")
	if err != nil {
		return nil, nil
	}
	home := filepath.Join(dir, "gh")
	if err := os.MkdirAll(home, 0o700); err != nil {
		return nil, err
	}
	g := &GPG{Home: home, Bin: bin}
	os.WriteFile(filepath.Join(home, "gpg.conf"), []byte("batch\nno-tty\ntrust-model always\nno-auto-check-trustdb\nallow-weak-digest-algos\n"), 0o600)
	os.WriteFile(filepath.Join(home, "gpg-agent.conf"), []byte("allow-loopback-pinentry\n"), 0o600)
	return g, nil
}

// Run runs gpg with the given arguments and stdin; it returns stdout, stderr and the error of the process.
func (g *GPG) Run(stdin []byte, args ...string) ([]byte, string, error) {
	cmd := exec.Command(g.Bin, append([]string{"--homedir", g.Home, "--batch", "--no-tty", "--pinentry-mode", "loopback", "--passphrase", ""}, args...)...)
	cmd.Stdin = bytes.NewReader(stdin)
	var out, errb bytes.Buffer
	cmd.Stdout, cmd.Stderr = &out, &errb
	cmd.Env = append(os.Environ(), "GNUPGHOME="+g.Home, "LC_ALL=C")
	err := cmd.Run()
	return out.Bytes(), errb.String(), err
}

// ImportPublic imports the public part of e.
func (g *GPG) ImportPublic(e *openpgp.Entity) error {
	var b bytes.Buffer
	if err := e.Serialize(&b); err != nil {
		return err
	}
	_, se, err := g.Run(b.Bytes(), "--import")
	if err != nil {
		return fmt.Errorf("gpg --import: %v: %s", err, se)
	}
	return nil
}

// ImportPrivate imports the secret key of e (unprotected).
func (g *GPG) ImportPrivate(e *openpgp.Entity) error {
	var b bytes.Buffer
	// SerializePrivate re-signs the self-signatures: use a digest GnuPG accepts for the key (ECDSA: as wide as the curve)
	cfg := &packet.Config{DefaultHash: crypto.SHA256}
	if e.PrimaryKey.PubKeyAlgo == packet.PubKeyAlgoECDSA {
		if bits, err := e.PrimaryKey.BitLength(); err == nil && bits > 384 {
			cfg.DefaultHash = crypto.SHA512
		} else if err == nil && bits > 256 {
			cfg.DefaultHash = crypto.SHA384
		}
	}
	if err := e.SerializePrivate(&b, cfg); err != nil {
		return err
	}
	_, se, err := g.Run(b.Bytes(), "--import")
	if err != nil {
		return fmt.Errorf("gpg --import (secret): %v: %s", err, se)
	}
	return nil
}

// Close stops the agent gpg may have started for the scratch home.
func (g *GPG) Close() {
	if bin, err := exec.LookPath("gpgconf"); err == nil {
		cmd := exec.Command(bin, "--homedir", g.Home, "--kill", "all")
		cmd.Env = append(os.Environ(), "GNUPGHOME="+g.Home)
		cmd.Run()
	}
}

// Fingerprint returns the upper-case hex fingerprint of the primary key.
func Fingerprint(e *openpgp.Entity) string {
	return strings.ToUpper(fmt.Sprintf("%x", e.PrimaryKey.Fingerprint[:]))
}

// Chunked is an io.Reader over data that hands out one chunk per Read, with chunk lengths chosen by Next (given the
// remaining data).  It deliberately implements neither io.WriterTo nor anything else, like a file or a socket, so that
// io.Copy issues one Write per chunk.
type Chunked struct {
	Data []byte
	Next func(rem []byte) int
}

func (c *Chunked) Read(p []byte) (int, error) {
	if len(c.Data) == 0 {
		return 0, io.EOF
	}
	n := c.Next(c.Data)
	if n < 1 {
		n = 1
	}
	if n > len(c.Data) {
		n = len(c.Data)
	}
	if n > len(p) {
		n = len(p)
	}
	copy(p, c.Data[:n])
	c.Data = c.Data[n:]
	return n, nil
}

// Chunkers returns named ways of cutting data into reads: all at once (but through a plain io.Reader, i.e. io.Copy's 32 KiB
// buffer), byte by byte, right after every CR, right before every LF plus seeded sizes, and fixed sizes.
func Chunkers(seed int64) map[string]func(data []byte) io.Reader {
	mk := func(next func(rem []byte) int) func([]byte) io.Reader {
		return func(d []byte) io.Reader { return &Chunked{Data: append([]byte{}, d...), Next: next} }
	}
	state := uint64(seed)*6364136223846793005 + 1442695040888963407
	return map[string]func([]byte) io.Reader{
		"memory":  func(d []byte) io.Reader { return bytes.NewReader(d) },
		"plain":   mk(func(rem []byte) int { return len(rem) }),
		"onebyte": mk(func(rem []byte) int { return 1 }),
		"afterCR": mk(func(rem []byte) int {
			if i := bytes.IndexByte(rem, '\r'); i >= 0 {
				return i + 1
			}
			return len(rem)
		}),
		"seeded": mk(func(rem []byte) int {
			state = state*6364136223846793005 + 1442695040888963407
			n := 1 + int(state>>33)%97
			if i := bytes.IndexByte(rem[:min(n, len(rem))], '\r'); i >= 0 && (state>>20)&1 == 0 {
				return i + 1
			}
			return n
		}),
		"k7": mk(func(rem []byte) int { return 7 }),
	}
}
