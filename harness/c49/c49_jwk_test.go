package c49

// Binding E/R for the JWK encoding rules: spec/JWKEnc.tla (evaluated by TLC on the boundary key set)
// yields the exact JWK text per key; it is compared with everything the real code derives from
// jwkEncode: the `jwk` protected-header member of signed requests sent through the public client
// API, the EAB inner payload, JWKThumbprint and the key authorizations of all three challenge types.

import (
	"context"
	"crypto/sha256"
	"crypto/x509"
	"encoding/asn1"
	"encoding/base64"
	"encoding/json"
	"fmt"
	"net/http"
	"testing"

	"golang.org/x/crypto/acme"
	"verif/harness/acmefake"
	"verif/harness/vutil"
)

// TestKeyMaterial exports the boundary key set (public numbers as raw octet strings) for TLC.
func TestKeyMaterial(t *testing.T) {
	out := vutil.NewOut()
	defer func() {
		if err := out.Write(); err != nil {
			t.Fatal(err)
		}
	}()
	ks, err := boundaryKeys()
	if err != nil {
		t.Fatalf("boundary key material is inconsistent (infrastructure): %v", err)
	}
	var recs []map[string]any
	for _, k := range ks {
		recs = append(recs, map[string]any{"id": k.ID, "kty": k.Kty, "crv": k.Crv, "a": k.A, "b": k.B})
	}
	out.Extra["keys"] = recs
}

type kcase struct {
	Key struct{ ID, Kty, Crv string } `json:"key"`
	Out struct {
		JWK        string `json:"jwk"`
		A, B       string
		Alen, Blen int
	} `json:"out"`
}

func TestJWKBytes(t *testing.T) {
	out := vutil.NewOut()
	defer func() {
		if err := out.Write(); err != nil {
			t.Fatal(err)
		}
	}()
	ks, err := boundaryKeys()
	if err != nil {
		t.Fatalf("boundary key material is inconsistent (infrastructure): %v", err)
	}
	byID := map[string]*bkey{}
	for _, k := range ks {
		byID[k.ID] = k
	}
	acctDefault := byID["ec-P-256-d1"].Signer
	counts := map[string]int{}
	sigCount := map[string]int{}
	err = vutil.ReadNDJSON(vutil.Env("VERIF_CASES", ""), func(line []byte) error {
		var c kcase
		if err := json.Unmarshal(line, &c); err != nil {
			return err
		}
		k := byID[c.Key.ID]
		if k == nil {
			return fmt.Errorf("unknown key id %q", c.Key.ID)
		}
		out.Case(k.ID)
		var want map[string]string
		if err := json.Unmarshal([]byte(c.Out.JWK), &want); err != nil {
			return fmt.Errorf("TLC's JWK text for %s is not JSON: %v", k.ID, err)
		}
		detail := map[string]any{"key": k.ID, "expected_jwk": c.Out.JWK}
		fail := func(sig, what string) {
			sigCount[sig]++
			if sigCount[sig] <= 4 {
				out.Violation(sig, what, detail)
			}
			t.Errorf("%s: %s [%s]", sig, what, k.ID)
		}
		if k.SmallE {
			counts["rsa_exponent_below_65536"]++
		}
		if k.Kty == "RSA" {
			counts[fmt.Sprintf("rsa_modulus_%d_bits", k.NBits)]++
		}
		if k.ShortX && k.ShortY {
			counts["ec_short_x_and_y_"+k.Crv]++
		} else if k.ShortX {
			counts["ec_short_x_"+k.Crv]++
		} else if k.ShortY {
			counts["ec_short_y_"+k.Crv]++
		}
		pub := k.Signer.Public()
		// (1) thumbprint = SHA-256 over TLC's text
		d := sha256.Sum256([]byte(c.Out.JWK))
		wantThumb := base64.RawURLEncoding.EncodeToString(d[:])
		th, err := acme.JWKThumbprint(pub)
		if err != nil || th != wantThumb {
			fail("c49-thumbprint", fmt.Sprintf("JWKThumbprint = %q (%v); SHA-256 of the RFC 7638 text %s is %q", th, err, c.Out.JWK, wantThumb))
		}
		if thumbprint(pub) != wantThumb {
			return fmt.Errorf("harness thumbprint disagrees with TLC's text for %s (infrastructure)", k.ID)
		}
		// (2) key authorizations of the three challenge types
		cl := &acme.Client{Key: k.Signer}
		const token = "tok-verif-49"
		wantKA := token + "." + wantThumb
		kd := sha256.Sum256([]byte(wantKA))
		if ka, err := cl.HTTP01ChallengeResponse(token); err != nil || ka != wantKA {
			fail("c49-key-authorization", fmt.Sprintf("HTTP01ChallengeResponse = %q (%v), expected %q", ka, err, wantKA))
		}
		if rec, err := cl.DNS01ChallengeRecord(token); err != nil || rec != base64.RawURLEncoding.EncodeToString(kd[:]) {
			fail("c49-key-authorization", fmt.Sprintf("DNS01ChallengeRecord = %q (%v) is not base64url(SHA-256(key authorization))", rec, err))
		}
		if crt, err := cl.TLSALPN01ChallengeCert(token, "host.verif.test"); err != nil {
			fail("c49-key-authorization", fmt.Sprintf("TLSALPN01ChallengeCert: %v", err))
		} else if leaf, err := x509.ParseCertificate(crt.Certificate[0]); err == nil {
			wantExt, _ := asn1.Marshal(kd[:])
			found := false
			for _, e := range leaf.Extensions {
				if e.Id.Equal(asn1.ObjectIdentifier{1, 3, 6, 1, 5, 5, 7, 1, 31}) {
					found = string(e.Value) == string(wantExt)
				}
			}
			if !found {
				fail("c49-key-authorization", "tls-alpn-01 certificate does not carry SHA-256(key authorization) in id-pe-acmeIdentifier")
			}
		}
		// (3) signed requests through the public API: jwk header member and EAB inner payload
		for _, opn := range []string{"Register", "RevokeCertByCertKey"} {
			spec, _ := acmefake.OpByName(opn)
			jc := &jcase{KT: map[string]string{"RSA": "RSA"}[k.Kty], KS: "preset", EAB: opn == "Register"}
			if k.Kty == "EC" {
				jc.KT = k.Crv
			}
			jc.Op.Name, jc.Op.Key, jc.Op.Payload = opn, map[string]string{"Register": "account", "RevokeCertByCertKey": "certkey"}[opn], "object"
			rr := runOnce(jc, spec, k.Signer, acctDefault)
			for _, p := range rr.probs {
				fail("c49-jose-verifier", opn+": "+p)
			}
			if rr.target == nil {
				continue
			}
			if rr.target.Form != "jwk" {
				fail("c49-jwk-kid-form", opn+" not sent in jwk form")
				continue
			}
			if !sameMembers(rr.target.JWK, want) {
				fail("c49-jwk-member", fmt.Sprintf("%s: protected header jwk = %v, RFC 7517/7518 encoding is %s", opn, rr.target.JWK, c.Out.JWK))
			}
			if jc.EAB {
				var body struct {
					EAB *json.RawMessage `json:"externalAccountBinding"`
				}
				json.Unmarshal(rr.target.Payload, &body)
				if body.EAB == nil {
					fail("c49-eab-missing", "Register with ExternalAccountBinding sent no externalAccountBinding")
				} else {
					ip, _ := parseJWS(*body.EAB)
					var inner map[string]string
					if json.Unmarshal(ip.Payload, &inner) != nil || !sameMembers(inner, want) {
						fail("c49-eab-payload", fmt.Sprintf("EAB inner payload %s is not the account key's JWK %s", ip.Payload, c.Out.JWK))
					}
				}
			}
		}
		if len(out.Samples) < 5 && (k.SmallE || k.ShortX || k.ShortY) {
			out.Sample(map[string]any{"key": k.ID, "jwk_prefix": c.Out.JWK[:min(60, len(c.Out.JWK))], "thumbprint": wantThumb})
		}
		return nil
	})
	for n, v := range counts {
		out.Extra["c49_boundary_"+n] = v
	}
	for n, v := range sigCount {
		out.Extra["count_"+n] = v
	}
	if err != nil {
		t.Fatal(err)
	}
}

func sameMembers(a, b map[string]string) bool {
	if len(a) != len(b) {
		return false
	}
	for k, v := range a {
		if b[k] != v {
			return false
		}
	}
	return true
}

var _ = context.Background
var _ = http.MethodGet
