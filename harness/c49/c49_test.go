// Conformance harness for C49 (ACME request signing).  The harness is the independent JOSE
// implementation: it parses the JSON the REAL acme.Client puts on the wire (captured by the fake
// RoundTripper while public API operations run) and verifies it with the standard library only
// (encoding/json, encoding/base64, crypto/ecdsa, crypto/rsa, crypto/hmac, crypto/sha*), and it
// recomputes RFC 7638 thumbprints from scratch.  Cases (key type, coordinate / signature shapes,
// operation, kid state, EAB) and the expected decisions come from spec/JWS.tla via TLC; keys and
// signatures with leading zero octets are found by search.
package c49

import (
	"bytes"
	"context"
	"crypto"
	"crypto/ecdsa"
	"crypto/elliptic"
	"crypto/hmac"
	"crypto/rand"
	"crypto/rsa"
	"crypto/sha256"
	"crypto/sha512"
	"encoding/base64"
	"encoding/json"
	"fmt"
	"math/big"
	"net/http"
	"sort"
	"strings"
	"sync"
	"testing"

	"golang.org/x/crypto/acme"
	"verif/harness/acmefake"
	"verif/harness/vutil"
)

type jcase struct {
	KT string `json:"kt"`
	ZX int    `json:"zx"`
	ZY int    `json:"zy"`
	ZR int    `json:"zr"`
	ZS int    `json:"zs"`
	Op struct {
		Name, Key, Payload string
	} `json:"op"`
	KS  string `json:"ks"`
	EAB bool   `json:"eab"`
	W   int    `json:"w"`
	Out struct {
		Form, Alg, Hash, Payload, Signer, Eab string
		Xlen, Ylen, Siglen                    int
		Nonce, Url, Lookup                    bool
		Members                               []string
	} `json:"out"`
}

// ---- key search -------------------------------------------------------------------------------

func curveOf(kt string) elliptic.Curve {
	switch kt {
	case "P-256":
		return elliptic.P256()
	case "P-384":
		return elliptic.P384()
	case "P-521":
		return elliptic.P521()
	}
	return nil
}

// lz = number of leading zero octets of v in a w-octet big-endian field (capped at 2)
func lz(v *big.Int, w int) int {
	b := v.FillBytes(make([]byte, w))
	n := 0
	for n < len(b) && b[n] == 0 {
		n++
	}
	return min(n, 2)
}

var (
	poolMu sync.Mutex
	pool   = map[string]crypto.Signer{}
)

func keyFor(kt string, zx, zy int) (crypto.Signer, int) {
	id := fmt.Sprintf("%s/%d/%d", kt, zx, zy)
	poolMu.Lock()
	defer poolMu.Unlock()
	if k, ok := pool[id]; ok {
		return k, 0
	}
	if kt == "RSA" {
		k, err := rsa.GenerateKey(rand.Reader, 2048)
		if err != nil {
			panic(err)
		}
		pool[id] = k
		return k, 1
	}
	c := curveOf(kt)
	w := (c.Params().BitSize + 7) / 8
	for tries := 1; tries < 5000000; tries++ {
		k, err := ecdsa.GenerateKey(c, rand.Reader)
		if err != nil {
			panic(err)
		}
		// remember every shape we pass by
		got := fmt.Sprintf("%s/%d/%d", kt, lz(k.X, w), lz(k.Y, w))
		if _, ok := pool[got]; !ok {
			pool[got] = k
		}
		if got == id {
			return k, tries
		}
	}
	panic("no key found for " + id)
}

// ---- the independent verifier -----------------------------------------------------------------

func b64(s string) ([]byte, error) {
	if strings.ContainsAny(s, "=+/ \n") {
		return nil, fmt.Errorf("not unpadded base64url: %q", s)
	}
	return base64.RawURLEncoding.DecodeString(s)
}

type parsed struct {
	URL        string
	Form       string // jwk | kid
	Alg, Kid   string
	Nonce      string
	HURL       string
	JWK        map[string]string
	PayloadRaw string
	Payload    []byte
	Sig        []byte
	SigInput   []byte
	Problems   []string
}

func keysOf(m map[string]json.RawMessage) []string {
	var k []string
	for x := range m {
		k = append(k, x)
	}
	sort.Strings(k)
	return k
}

func parseJWS(body []byte) (*parsed, map[string]json.RawMessage) {
	p := &parsed{}
	bad := func(f string, a ...any) { p.Problems = append(p.Problems, fmt.Sprintf(f, a...)) }
	var outer map[string]json.RawMessage
	if err := json.Unmarshal(body, &outer); err != nil {
		bad("body is not JSON: %v", err)
		return p, nil
	}
	if got := strings.Join(keysOf(outer), ","); got != "payload,protected,signature" {
		bad("flattened JWS members are %s", got)
	}
	var prot, payload, sig string
	json.Unmarshal(outer["protected"], &prot)
	json.Unmarshal(outer["payload"], &payload)
	json.Unmarshal(outer["signature"], &sig)
	ph, err := b64(prot)
	if err != nil {
		bad("protected: %v", err)
	}
	p.PayloadRaw = payload
	if p.Payload, err = b64(payload); err != nil {
		bad("payload: %v", err)
	}
	if p.Sig, err = b64(sig); err != nil {
		bad("signature: %v", err)
	}
	p.SigInput = []byte(prot + "." + payload)
	var hdr map[string]json.RawMessage
	if err := json.Unmarshal(ph, &hdr); err != nil {
		bad("protected header is not JSON: %v", err)
		return p, hdr
	}
	json.Unmarshal(hdr["alg"], &p.Alg)
	json.Unmarshal(hdr["nonce"], &p.Nonce)
	json.Unmarshal(hdr["url"], &p.HURL)
	_, hasJWK := hdr["jwk"]
	_, hasKid := hdr["kid"]
	switch {
	case hasJWK && hasKid:
		bad("protected header carries both jwk and kid")
		p.Form = "both"
	case hasJWK:
		p.Form = "jwk"
		var raw map[string]json.RawMessage
		if err := json.Unmarshal(hdr["jwk"], &raw); err != nil {
			bad("jwk is not an object: %v", err)
		}
		p.JWK = map[string]string{}
		for k, v := range raw {
			var s string
			if json.Unmarshal(v, &s) != nil {
				bad("jwk member %s is not a string", k)
			}
			p.JWK[k] = s
		}
	case hasKid:
		p.Form = "kid"
		json.Unmarshal(hdr["kid"], &p.Kid)
	default:
		bad("protected header carries neither jwk nor kid")
		p.Form = "none"
	}
	return p, hdr
}

// pubFromJWK rebuilds the public key from a JWK using only the RFC 7517/7518 rules.
func pubFromJWK(j map[string]string, bad func(string, ...any)) crypto.PublicKey {
	switch j["kty"] {
	case "EC":
		var c elliptic.Curve
		switch j["crv"] {
		case "P-256":
			c = elliptic.P256()
		case "P-384":
			c = elliptic.P384()
		case "P-521":
			c = elliptic.P521()
		default:
			bad("unknown crv %q", j["crv"])
			return nil
		}
		w := (c.Params().BitSize + 7) / 8
		x, ex := b64(j["x"])
		y, ey := b64(j["y"])
		if ex != nil || ey != nil {
			bad("jwk coordinates are not base64url")
			return nil
		}
		if len(x) != w || len(y) != w {
			bad("jwk coordinate widths are %d/%d octets, RFC 7518 6.2.1.2 requires %d for %s", len(x), len(y), w, j["crv"])
		}
		if len(j) != 4 {
			bad("EC jwk has %d members", len(j))
		}
		return &ecdsa.PublicKey{Curve: c, X: new(big.Int).SetBytes(x), Y: new(big.Int).SetBytes(y)}
	case "RSA":
		n, en := b64(j["n"])
		e, ee := b64(j["e"])
		if en != nil || ee != nil || len(n) == 0 || len(e) == 0 {
			bad("jwk n/e are not base64url")
			return nil
		}
		if n[0] == 0 || e[0] == 0 {
			bad("jwk n/e have leading zero octets (RFC 7518 6.3.1: minimal)")
		}
		if len(j) != 3 {
			bad("RSA jwk has %d members", len(j))
		}
		return &rsa.PublicKey{N: new(big.Int).SetBytes(n), E: int(new(big.Int).SetBytes(e).Int64())}
	}
	bad("unknown kty %q", j["kty"])
	return nil
}

// verify checks the signature with the advertised alg; returns the shapes (leading zero octets) of the halves.
func verifySig(alg string, pub crypto.PublicKey, input, sig []byte, bad func(string, ...any)) (zr, zs int) {
	switch alg {
	case "RS256":
		k, ok := pub.(*rsa.PublicKey)
		if !ok {
			bad("alg RS256 with a non-RSA key")
			return
		}
		if len(sig) != k.Size() {
			bad("RS256 signature is %d octets, modulus is %d", len(sig), k.Size())
		}
		h := sha256.Sum256(input)
		if err := rsa.VerifyPKCS1v15(k, crypto.SHA256, h[:], sig); err != nil {
			bad("RS256 signature does not verify: %v", err)
		}
		if len(sig) > 0 && sig[0] == 0 {
			zr = 1
		}
		return zr, 0
	case "ES256", "ES384", "ES512":
		k, ok := pub.(*ecdsa.PublicKey)
		if !ok {
			bad("alg %s with a non-EC key", alg)
			return
		}
		want := map[string]string{"ES256": "P-256", "ES384": "P-384", "ES512": "P-521"}[alg]
		if k.Curve.Params().Name != want {
			bad("alg %s with curve %s", alg, k.Curve.Params().Name)
		}
		w := (k.Curve.Params().BitSize + 7) / 8
		if len(sig) != 2*w {
			bad("%s signature is %d octets, RFC 7518 3.4 requires %d (R||S, %d each)", alg, len(sig), 2*w, w)
			return
		}
		var digest []byte
		switch alg {
		case "ES256":
			d := sha256.Sum256(input)
			digest = d[:]
		case "ES384":
			d := sha512.Sum384(input)
			digest = d[:]
		case "ES512":
			d := sha512.Sum512(input)
			digest = d[:]
		}
		r, s := new(big.Int).SetBytes(sig[:w]), new(big.Int).SetBytes(sig[w:])
		if !ecdsa.Verify(k, digest, r, s) {
			bad("%s signature does not verify under the split R||S", alg)
		}
		return lz(r, w), lz(s, w)
	}
	bad("unexpected alg %q", alg)
	return
}

func pubEqual(a, b crypto.PublicKey) bool {
	type eq interface{ Equal(crypto.PublicKey) bool }
	x, ok := a.(eq)
	return ok && b != nil && x.Equal(b)
}

// thumbprint from scratch per RFC 7638: required members, lexicographic order, no whitespace.
func thumbprint(pub crypto.PublicKey) string {
	m := map[string]string{}
	switch k := pub.(type) {
	case *ecdsa.PublicKey:
		w := (k.Curve.Params().BitSize + 7) / 8
		m["kty"], m["crv"] = "EC", k.Curve.Params().Name
		m["x"] = base64.RawURLEncoding.EncodeToString(k.X.FillBytes(make([]byte, w)))
		m["y"] = base64.RawURLEncoding.EncodeToString(k.Y.FillBytes(make([]byte, w)))
	case *rsa.PublicKey:
		m["kty"] = "RSA"
		m["n"] = base64.RawURLEncoding.EncodeToString(k.N.Bytes())
		m["e"] = base64.RawURLEncoding.EncodeToString(big.NewInt(int64(k.E)).Bytes())
	}
	var names []string
	for n := range m {
		names = append(names, n)
	}
	sort.Strings(names)
	var b bytes.Buffer
	b.WriteByte('{')
	for i, n := range names {
		if i > 0 {
			b.WriteByte(',')
		}
		fmt.Fprintf(&b, "%q:%q", n, m[n])
	}
	b.WriteByte('}')
	d := sha256.Sum256(b.Bytes())
	return base64.RawURLEncoding.EncodeToString(d[:])
}

// ---- driving the client -----------------------------------------------------------------------

const eabKID = "eab-kid-verif-1"

var eabKey = []byte("verif external account binding hmac key 0123456789")

var runNo int

type runResult struct {
	target *parsed // the request of the operation itself
	zr, zs int
	lookup *parsed // the accountKID lookup request, if one was sent
	probs  []string
}

func runOnce(c *jcase, spec acmefake.OpSpec, key, acctDefault crypto.Signer) runResult {
	var rr runResult
	s := acmefake.NewServer()
	s.Capture = true
	runNo++
	s.SetNonceBase(1 + runNo*16)
	s.Choose = func(op *acmefake.Op, head bool, url string) string {
		if head {
			return "nonce"
		}
		if url == "/new-acct" && c.KS == "lookupFail" {
			return "noacct"
		}
		return "ok"
	}
	acct, env := key, &acmefake.Env{CertKey: acctDefault}
	if c.Op.Key == "certkey" {
		acct, env.CertKey = acctDefault, key // the key under test signs the revocation
	}
	if c.EAB {
		env.EAB = &acme.ExternalAccountBinding{KID: eabKID, Key: eabKey}
	}
	cl := &acme.Client{Key: acct, HTTPClient: &http.Client{Transport: s}, DirectoryURL: acmefake.Base + "/dir", RetryBackoff: s.Backoff}
	presetKID := acmefake.Base + "/acct/preset"
	if c.KS == "preset" {
		cl.KID = acme.KeyID(presetKID)
	}
	op := s.NewOp(spec.Name, 0, spec.Phases, 0)
	res := s.Run(op, func(ctx context.Context) (string, error) { return spec.Run(ctx, cl, env) })
	bad := func(f string, a ...any) { rr.probs = append(rr.probs, fmt.Sprintf(f, a...)) }
	if res.Class != "ok" {
		bad("operation %s failed against an all-ok server: %s", spec.Name, res.Err)
	}
	rr.probs = append(rr.probs, s.TakeProblems()...)
	wantSigner := key
	for i, cp := range s.Captured {
		p, hdr := parseJWS(cp.Body)
		p.URL = cp.URL
		for _, x := range p.Problems {
			bad("request %d (%s): %s", i, cp.URL, x)
		}
		pbad := func(f string, a ...any) { bad("request %d (%s): "+f, append([]any{i, cp.URL}, a...)...) }
		// members of the protected header: alg, nonce, url and exactly one of jwk/kid
		if hdr != nil {
			for _, k := range keysOf(hdr) {
				if k != "alg" && k != "nonce" && k != "url" && k != "jwk" && k != "kid" {
					pbad("unexpected protected header member %q", k)
				}
			}
		}
		if p.Nonce == "" {
			pbad("no nonce in the protected header")
		}
		if p.HURL != cp.URL {
			pbad("protected url %q differs from the request URL", p.HURL)
		}
		isLookup := c.Out.Lookup && strings.HasSuffix(cp.URL, "/new-acct") && spec.Name != "Register" && spec.Name != "GetReg"
		// which key must have signed
		signer := crypto.Signer(acct)
		if c.Op.Key == "certkey" && !isLookup {
			signer = wantSigner
		}
		var pub crypto.PublicKey = signer.Public()
		if p.Form == "jwk" {
			jp := pubFromJWK(p.JWK, pbad)
			if jp == nil || !pubEqual(signer.Public(), jp) {
				pbad("jwk does not describe the signing key")
			} else {
				pub = jp // verify with the key rebuilt from the wire
			}
		}
		zr, zs := verifySig(p.Alg, pub, p.SigInput, p.Sig, pbad)
		if isLookup {
			rr.lookup = p
			if p.Form != "jwk" || !bytes.Contains(p.Payload, []byte("onlyReturnExisting")) {
				pbad("account lookup is not a jwk-form newAccount(onlyReturnExisting) request")
			}
			continue
		}
		// multi-request operations (CreateOrderCert): judge the first request of the operation, verify all
		if rr.target == nil {
			rr.target, rr.zr, rr.zs = p, zr, zs
		}
		if p.Form == "kid" {
			want := presetKID
			if c.KS == "lookupOK" {
				want = "" // whatever the server's Location said; checked to be an account URL below
			}
			if want != "" && p.Kid != want {
				pbad("kid %q, expected %q", p.Kid, want)
			}
			if !strings.HasPrefix(p.Kid, acmefake.Base+"/acct/") {
				pbad("kid %q is not the account URL", p.Kid)
			}
		}
	}
	return rr
}

func TestJWS(t *testing.T) {
	out := vutil.NewOut()
	defer func() {
		if err := out.Write(); err != nil {
			t.Fatal(err)
		}
	}()
	maxTries := 20000
	searchStats := map[string]int{}
	sigCount := map[string]int{}
	acctDefault, _ := ecdsa.GenerateKey(elliptic.P256(), rand.Reader)
	err := vutil.ReadNDJSON(vutil.Env("VERIF_CASES", ""), func(line []byte) error {
		var c jcase
		if err := json.Unmarshal(line, &c); err != nil {
			return err
		}
		spec, err := acmefake.OpByName(c.Op.Name)
		if err != nil {
			return err
		}
		key, tries := keyFor(c.KT, c.ZX, c.ZY)
		if tries > 0 {
			searchStats[fmt.Sprintf("keygen_%s_zx%d_zy%d", c.KT, c.ZX, c.ZY)] = tries
		}
		keyID := fmt.Sprintf("%s|zx=%d|zy=%d|zr=%d|zs=%d|%s|%s|eab=%v", c.KT, c.ZX, c.ZY, c.ZR, c.ZS, c.Op.Name, c.KS, c.EAB)
		out.Case(keyID)
		detail := map[string]any{"case": json.RawMessage(append([]byte(nil), line...))}
		fail := func(sig, what string) {
			sigCount[sig]++
			if sigCount[sig] <= 4 {
				out.Violation(sig, what, detail)
			}
			t.Errorf("%s: %s [%s]", sig, what, keyID)
		}
		var rr runResult
		found := false
		n := 0
		for n = 1; n <= maxTries; n++ {
			rr = runOnce(&c, spec, key, acctDefault)
			if len(rr.probs) > 0 || rr.target == nil {
				break
			}
			if rr.zr == c.ZR && rr.zs == c.ZS {
				found = true
				break
			}
		}
		for _, p := range rr.probs {
			fail("c49-jose-verifier", p)
		}
		if rr.target == nil {
			if len(rr.probs) == 0 {
				fail("c49-no-request", "operation sent no signed request")
			}
			return nil
		}
		if !found && len(rr.probs) == 0 {
			out.Extra["info_shape_not_found_"+keyID] = n
			return nil
		}
		p := rr.target
		detail["protected_form"], detail["alg"], detail["siglen"] = p.Form, p.Alg, len(p.Sig)
		// the model's decisions
		if p.Form != c.Out.Form {
			fail("c49-jwk-kid-form", fmt.Sprintf("%s sent in %s form, the model (RFC 8555 6.2) says %s", c.Op.Name, p.Form, c.Out.Form))
		}
		if p.Alg != c.Out.Alg {
			fail("c49-alg", fmt.Sprintf("alg %s for a %s key, expected %s", p.Alg, c.KT, c.Out.Alg))
		}
		if len(p.Sig) != c.Out.Siglen {
			fail("c49-signature-width", fmt.Sprintf("signature of %d octets for %s (R/S with %d/%d leading zero octets), expected %d", len(p.Sig), c.KT, c.ZR, c.ZS, c.Out.Siglen))
		}
		if p.Form == "jwk" && c.KT != "RSA" {
			x, _ := b64(p.JWK["x"])
			y, _ := b64(p.JWK["y"])
			if len(x) != c.Out.Xlen || len(y) != c.Out.Ylen {
				fail("c49-coordinate-width", fmt.Sprintf("jwk x/y of %d/%d octets, expected %d/%d", len(x), len(y), c.Out.Xlen, c.Out.Ylen))
			}
		}
		switch c.Out.Payload {
		case "empty":
			if p.PayloadRaw != "" {
				fail("c49-post-as-get-payload", "POST-as-GET payload is not the empty string")
			}
		default:
			var v any
			if p.PayloadRaw == "" || json.Unmarshal(p.Payload, &v) != nil {
				fail("c49-payload", "payload is not base64url(JSON)")
			}
		}
		if c.Out.Lookup != (rr.lookup != nil) {
			out.Extra["info_lookup_differs_"+keyID] = fmt.Sprintf("model %v", c.Out.Lookup)
		}
		// thumbprint from scratch
		th, err := acme.JWKThumbprint(key.Public())
		if err != nil || th != thumbprint(key.Public()) {
			fail("c49-thumbprint", fmt.Sprintf("JWKThumbprint = %q (%v), RFC 7638 from scratch = %q", th, err, thumbprint(key.Public())))
		}
		// external account binding
		if c.EAB {
			var body struct {
				EAB *json.RawMessage `json:"externalAccountBinding"`
			}
			json.Unmarshal(p.Payload, &body)
			if body.EAB == nil {
				fail("c49-eab-missing", "Register with ExternalAccountBinding sent no externalAccountBinding")
			} else {
				ip, ihdr := parseJWS(*body.EAB)
				for _, x := range ip.Problems {
					if !strings.Contains(x, "neither jwk nor kid") {
						fail("c49-eab", "inner JWS: "+x)
					}
				}
				if ip.Alg != "HS256" || ip.Kid != eabKID || ip.HURL != acmefake.Base+"/new-acct" {
					fail("c49-eab", fmt.Sprintf("inner protected header alg=%q kid=%q url=%q", ip.Alg, ip.Kid, ip.HURL))
				}
				if _, has := ihdr["nonce"]; has {
					fail("c49-eab", "inner JWS carries a nonce (RFC 8555 7.3.4: must not)")
				}
				mac := hmac.New(sha256.New, eabKey)
				mac.Write(ip.SigInput)
				if !hmac.Equal(mac.Sum(nil), ip.Sig) {
					fail("c49-eab-mac", "externalAccountBinding signature is not HMAC-SHA256(key, protected.payload)")
				}
				var inner map[string]string
				if json.Unmarshal(ip.Payload, &inner) != nil {
					fail("c49-eab", "inner payload is not a JWK object")
				} else if jp := pubFromJWK(inner, func(f string, a ...any) { fail("c49-eab", "inner payload: "+fmt.Sprintf(f, a...)) }); jp == nil || !pubEqual(key.Public(), jp) {
					fail("c49-eab", "inner payload is not the account key's JWK")
				}
			}
		}
		searchStats["max_sign_tries"] = max(searchStats["max_sign_tries"], n)
		if len(out.Samples) < 5 && (c.ZR > 0 || c.ZX > 0) {
			out.Sample(map[string]any{"case": keyID, "form": p.Form, "alg": p.Alg, "siglen": len(p.Sig), "sign_tries": n})
		}
		return nil
	})
	for k, v := range searchStats {
		out.Extra["c49_"+k] = v
	}
	for k, v := range sigCount {
		out.Extra["count_"+k] = v
	}
	if err != nil {
		t.Fatal(err)
	}
}

// TestThumbprints: JWKThumbprint against the from-scratch RFC 7638 computation for seeded random
// keys incl. searched leading-zero coordinates, and the RFC 7638 3.1 example key.
func TestThumbprints(t *testing.T) {
	out := vutil.NewOut()
	defer func() {
		if err := out.Write(); err != nil {
			t.Fatal(err)
		}
	}()
	// RFC 7638 section 3.1 example
	nB, _ := b64("0vx7agoebGcQSuuPiLJXZptN9nndrQmbXEps2aiAFbWhM78LhWx4cbbfAAtVT86zwu1RK7aPFFxuhDR1L6tSoc_BJECPebWKRXjBZCiFV4n3oknjhMstn64tZ_2W-5JsGY4Hc5n9yBXArwl93lqt7_RN5w6Cf0h4QyQ5v-65YGjQR0_FDW2QvzqY368QQMicAtaSqzs8KJZgnYb9c7d0zgdAZHzu6qMQvRL5hajrn1n91CbOpbISD08qNLyrdkt-bFTWhAI4vMQFh6WeZu0fM4lFd2NcRwr3XPksINHaQ-G_xBniIqbw0Ls1jF44-csFCur-kEgU8awapJzKnqDKgw")
	rfcKey := &rsa.PublicKey{N: new(big.Int).SetBytes(nB), E: 65537}
	const rfcThumb = "NzbLsXh8uDCcd-6MNwXF4W_7noWXFZAfHkxZsRGC9Xs"
	out.Case("rfc7638-3.1")
	if th, err := acme.JWKThumbprint(rfcKey); err != nil || th != rfcThumb || thumbprint(rfcKey) != rfcThumb {
		out.Violation("c49-thumbprint", fmt.Sprintf("RFC 7638 3.1 example: JWKThumbprint=%q scratch=%q expected %q", th, thumbprint(rfcKey), rfcThumb), nil)
		t.Errorf("rfc example")
	}
	n := 300
	if vutil.Thorough() {
		n = 6000
	}
	for _, kt := range []string{"P-256", "P-384", "P-521"} {
		c := curveOf(kt)
		w := (c.Params().BitSize + 7) / 8
		lzSeen := 0
		for i := 0; i < n; i++ {
			k, _ := ecdsa.GenerateKey(c, rand.Reader)
			zx, zy := lz(k.X, w), lz(k.Y, w)
			key := ""
			if zx > 0 || zy > 0 {
				lzSeen++
				key = fmt.Sprintf("%s lz x=%d y=%d #%d", kt, zx, zy, lzSeen)
			} else if i < 20 {
				key = fmt.Sprintf("%s generic #%d", kt, i)
			}
			out.Case(key)
			th, err := acme.JWKThumbprint(k.Public())
			if err != nil || th != thumbprint(k.Public()) {
				out.Violation("c49-thumbprint", fmt.Sprintf("%s key with %d/%d leading zero octets in x/y: JWKThumbprint=%q scratch=%q", kt, zx, zy, th, thumbprint(k.Public())),
					map[string]any{"x": k.X.Text(16), "y": k.Y.Text(16)})
				t.Errorf("thumbprint mismatch")
			}
		}
		out.Extra["c49_thumb_leading_zero_keys_"+kt] = lzSeen
	}
}
