package c49

// Boundary key material for the JWK encoding rules (spec/JWKEnc.tla): RSA public exponents around
// every octet boundary of the exponent, RSA moduli whose top octet sits at every kind of boundary,
// and EC points whose X, Y or both have leading zero octets on P-256/384/521.  Everything is
// deterministic: fixed primes (found once by a seeded search; re-validated here) and the first
// scalars d = 1, 2, ... whose public point d*G has the wanted shape (re-validated here).

import (
	"crypto"
	"crypto/ecdsa"
	"crypto/elliptic"
	"crypto/rsa"
	"encoding/binary"
	"fmt"
	"math/big"
	"sync"
)

const (
	hexP     = "c0cadd2341977142c5f39a52ff2ed231895424e5695790587de89f01082a2c6f91333c0ad8b0ea517527992bdc9b98d999a77861d9cc3b653b357998a25c6b374389d172d671d79869f600f10df4955594233b3cc6ea576c45936b8a51c62a2d3348b29e7f1045a4281dfb7915dd641e1cd44b9e3771e0ea4a2158fae8d1d77b"
	hexQ2048 = "e26226da46a14fc07349f08196139ed1282852f16e7b0eee7284f7f1c1ff8d28f56cef0e01cd2738c1c56507739d39845e7648859daef51cc0ad2a705fcc16ae3c60d2ee7c31ab9495ba6c68584f0f42961f8eed3a90298d3bdb11d5b9a94f5cf7889fe8a85e6a80c3e98cd35d465266c9b55f529f0784d110c87ef0f36f819b"
	hexQ2047 = "a89fc47038f2706c843aac14b368beca5a116808497c0853a3fba6785bc14d5211e601e562679f18c1e63e3319746413428fc507ba37c5f2a08b6f62fcf513887e530b12c4c96d78c5818c1243b405ca1e6377530a1e52333360fde6309583719de7e76ce91d651c2cfd759ffceba1944df03557f263ab2838569f17412c8d3d"
	hexQ2041 = "29d78a9a5302de29b804a06b6e31034c791f58c0c60a62fcc50136553c4502ea7778379b8a2d20c228f5293b3e0caa4129610df85df938455b762ecd7984eb96ce85710401482bf1a274e1bccb4960068bb9806be74c3d533512acd39949bbe53d13c7b2842c0d569e72f70eaf1e6fefdc2bba13bbde880ea41c3bdc5084c6f"
	hexQ2040 = "1163dbcb428e53d66c1d8ceb4642beb63822dd5983299c17dd0d1a04ff421b0cabc3f5849052b283e85a04d54ee1f5bc584baa713b1eca29bdd7f827a0274cd662fd2434c42c558b906de2ba94eaebfb18f62e336cac7e595ccc74015e1c7258f4b3715c2efd8ae3b1b1bb8a06913fde58bdb1706a47aee100f14f96461bff3"
)

var boundaryExponents = []int64{3, 5, 17, 257, 65535, 65537, 1<<24 + 1, 1<<31 - 1}

type bkey struct {
	ID     string
	Kty    string
	Crv    string
	Signer crypto.Signer
	// raw, deliberately non-canonical octet strings handed to the TLA+ encoder
	A, B []int
	// shape
	SmallE, ShortX, ShortY bool
	NBits                  int
}

func ints(b []byte) []int {
	r := make([]int, len(b))
	for i, x := range b {
		r[i] = int(x)
	}
	return r
}

func hexInt(s string) *big.Int {
	v, ok := new(big.Int).SetString(s, 16)
	if !ok {
		panic("bad hex")
	}
	return v
}

func rsaFromPrimes(p, q *big.Int, e int64) (*rsa.PrivateKey, error) {
	one := big.NewInt(1)
	p1, q1 := new(big.Int).Sub(p, one), new(big.Int).Sub(q, one)
	g := new(big.Int).GCD(nil, nil, p1, q1)
	lcm := new(big.Int).Div(new(big.Int).Mul(p1, q1), g)
	d := new(big.Int).ModInverse(big.NewInt(e), lcm)
	if d == nil {
		return nil, fmt.Errorf("e=%d not invertible", e)
	}
	k := &rsa.PrivateKey{PublicKey: rsa.PublicKey{N: new(big.Int).Mul(p, q), E: int(e)}, D: d, Primes: []*big.Int{p, q}}
	k.Precompute()
	if err := k.Validate(); err != nil {
		return nil, err
	}
	return k, nil
}

var (
	bkOnce sync.Once
	bkList []*bkey
	bkErr  error
)

func boundaryKeys() ([]*bkey, error) {
	bkOnce.Do(func() {
		p := hexInt(hexP)
		if !p.ProbablyPrime(20) {
			bkErr = fmt.Errorf("p is not prime")
			return
		}
		addRSA := func(tag string, q *big.Int, e int64) {
			if !q.ProbablyPrime(20) {
				bkErr = fmt.Errorf("q (%s) is not prime", tag)
				return
			}
			k, err := rsaFromPrimes(p, q, e)
			if err != nil {
				bkErr = fmt.Errorf("rsa %s e=%d: %v", tag, e, err)
				return
			}
			eb := binary.BigEndian.AppendUint64(nil, uint64(e)) // 8-octet container
			nb := append([]byte{0, 0, 0}, k.N.Bytes()...)       // three superfluous zero octets
			bkList = append(bkList, &bkey{ID: fmt.Sprintf("rsa-%s-e%d", tag, e), Kty: "RSA", Signer: k, A: ints(eb), B: ints(nb),
				SmallE: e < 65536, NBits: k.N.BitLen()})
		}
		for _, e := range boundaryExponents {
			addRSA("n2048", hexInt(hexQ2048), e)
		}
		for _, m := range []struct {
			tag string
			q   string
		}{{"n2047", hexQ2047}, {"n2041", hexQ2041}, {"n2040", hexQ2040}} {
			addRSA(m.tag, hexInt(m.q), 3)
			addRSA(m.tag, hexInt(m.q), 65537)
		}
		// first scalars with the wanted shapes (x short only, y short only, both, none)
		scalars := map[string][]int64{"P-256": {1, 43, 379, 49350}, "P-384": {1, 176, 197, 6394}, "P-521": {3, 9, 1, 2}}
		for _, c := range []elliptic.Curve{elliptic.P256(), elliptic.P384(), elliptic.P521()} {
			w := (c.Params().BitSize + 7) / 8
			for i, d := range scalars[c.Params().Name] {
				x, y := c.ScalarBaseMult(big.NewInt(d).Bytes())
				sx, sy := len(x.Bytes()) < w, len(y.Bytes()) < w
				if want := [][2]bool{{false, false}, {false, true}, {true, false}, {true, true}}[i]; sx != want[0] || sy != want[1] {
					bkErr = fmt.Errorf("%s d=%d: shape x short=%v y short=%v, expected %v", c.Params().Name, d, sx, sy, want)
					return
				}
				k := &ecdsa.PrivateKey{PublicKey: ecdsa.PublicKey{Curve: c, X: x, Y: y}, D: big.NewInt(d)}
				xa := x.Bytes()                                             // minimal: shorter than the field when it has leading zeros
				ya := append([]byte{0, 0}, y.FillBytes(make([]byte, w))...) // over-long: two superfluous zero octets
				bkList = append(bkList, &bkey{ID: fmt.Sprintf("ec-%s-d%d", c.Params().Name, d), Kty: "EC", Crv: c.Params().Name, Signer: k,
					A: ints(xa), B: ints(ya), ShortX: sx, ShortY: sy})
			}
		}
	})
	return bkList, bkErr
}
