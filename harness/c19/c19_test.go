//go:build verif

// Package c19 binds spec/PrimBlowfish.tla and spec/BcryptPbkdf.tla to the real
// golang.org/x/crypto/ssh/internal/bcrypt_pbkdf.Key (reached through the verif hook
// ssh.VerifKeysBcryptPBKDF; the package is internal) and to golang.org/x/crypto/blowfish.
//
// TestC19 (VERIF_CASES = everything TLC emitted in this run):
//  1. validates the Go transcription harness/c19ref against EVERY TLC-evaluated vector (bcrypt_hash at the
//     scales TLC ran, intermediate P-arrays, Blowfish ciphertexts, toy-scale keys of BcryptPbkdf!KeySpec) and
//     against the published bcrypt_pbkdf vectors; a mismatch is a harness failure (no verdict);
//  2. replays the argument decision table of BcryptPbkdf on the real Key (errors, panics);
//  3. compares the real Key with TLC's full-scale bcrypt_hash values directly, the real blowfish package with
//     TLC's ciphertexts, the real Key with the published vectors;
//  4. compares the real Key byte for byte with the validated transcription on a dense set of
//     (password length, salt length, rounds, key length).
//
// TestInterop: OpenSSH's ssh-keygen (the independent implementation the property names) both ways.
package c19

import (
	"bytes"
	"crypto/sha512"
	"encoding/hex"
	"encoding/json"
	"fmt"
	"os"
	"runtime"
	"sort"
	"strings"
	"sync"
	"testing"

	"golang.org/x/crypto/blowfish"
	"golang.org/x/crypto/ssh"
	"verif/harness/c19ref"
	"verif/harness/toyprim"
	"verif/harness/vutil"
)

type scale struct{ Cost, Nr, Sb, Mag int }

func (s scale) ref() c19ref.Scale { return c19ref.Scale{NR: s.Nr, SB: s.Sb, Cost: s.Cost, Mag: s.Mag} }
func (s scale) full() bool        { return s.Nr == 16 && s.Sb == 256 }

type tcase struct {
	K  string `json:"k"`
	ID int    `json:"id"`
	Sc scale  `json:"sc"`
	A  []int  `json:"a"`
	B  []int  `json:"b"`
	C  []int  `json:"c"`
	// results
	Out []int `json:"out"`
	I   int   `json:"i"`
	P   []int `json:"p"`
	// toy vectors
	Pass   []int `json:"pass"`
	Salt   []int `json:"salt"`
	M      []int `json:"m"`
	Rounds int   `json:"rounds"`
	KeyLen int   `json:"keyLen"`
	Key    []int `json:"key"`
	// argument table
	PassLen int    `json:"passLen"`
	SaltLen int    `json:"saltLen"`
	Want    string `json:"want"`
	Model   string `json:"model"`
	Guard   string `json:"guard"`
	// attached by checks/C19.py to full-scale "bh" cases: a = SHA-512(pw), b = SHA-512(saltb || BE32(counter))
	Pw      string `json:"pw"`
	Saltb   string `json:"saltb"`
	Counter int    `json:"counter"`
	// cached TLC evaluation (quick tier; re-evaluated by every thorough run)
	Cached bool `json:"cached"`
	// replay of a recorded bulk case
	Replay *bulkCase `json:"replay"`
}

func bs(v []int) []byte {
	b := make([]byte, len(v))
	for i, x := range v {
		b[i] = byte(x)
	}
	return b
}

func sha(b []byte) []byte { s := sha512.Sum512(b); return s[:] }

var fullParams = c19ref.Params{Hash: sha, BHash: func(p, s []byte) []byte { return c19ref.BcryptHash(c19ref.Full, p, s) }, BS: 32}
var toyScale = c19ref.Scale{NR: 4, SB: 4, Cost: 2, Mag: 2}
var toyParams = c19ref.Params{Hash: func(b []byte) []byte { return toyprim.Sum(8, b) },
	BHash: func(p, s []byte) []byte { return c19ref.BcryptHash(toyScale, p, s) }, BS: 32}

// published bcrypt_pbkdf vectors: the first three are the vectors of the pyca/bcrypt test-suite (taken there from
// OpenBSD's regress tests), the others those shipped in the package's own test, attributed there to the OpenBSD
// reference implementation.
var published = []struct {
	rounds     int
	pass, salt string
	hexOut     string
}{
	{4, "password", "salt", "5bbf0cc293587f1c3635555c27796598d47e579071bf427e9d8fbe842aba34d9"},
	{4, "password", "\x00", "c12b566235eee04c212598970a579a67"},
	{4, "\x00", "salt", "6051be18c2f4f82cbf0efee5471b4bb9"},
	{12, "password", "salt", "1ae42c05d487bc02f64921a4ebe4ea93bcacfe135fda99974c06b7b01fae149a"},
	{3, "passwordy\x00PASSWORD\x00", "salty\x00SALT\x00", "7f310bd3e78c3280c59ce4595211a2928e8d4ec744c1ed2efc9f764e3388e0ad"},
	{8, "секретное слово", "посолить немножко", "8df43fc6fe131fc47f0c9e39224bd94c70b6fcc8ee8135faddf61156e6cb2733ea765f315a3e1e4afc35bf8687d189254c1e05a6fe80c0617f9183d67260d6a115c6c94e3603e2303fbb43a76a64523ffda686b1d4518543"},
}

func loadPi(t *testing.T) {
	p := vutil.Env("VERIF_C19_PI", "/verif/spec/PrimBlowfishPi.tla")
	if err := c19ref.LoadPi(p); err != nil {
		t.Fatalf("cannot load the pi tables: %v", err)
	}
}

// refPublished checks the transcription at full scale against the published vectors (harness failure if not).
func refPublished(t *testing.T) int {
	n := 0
	for _, v := range published {
		want, _ := hex.DecodeString(v.hexOut)
		if got := fullParams.Key([]byte(v.pass), []byte(v.salt), v.rounds, len(want)); !bytes.Equal(got, want) {
			t.Fatalf("c19ref (transcription of the TLA+ definitions) differs from a published vector (rounds %d, %q, %q): harness defect, no verdict", v.rounds, v.pass, v.salt)
		}
		n++
	}
	return n
}

// realKey calls the real function and converts a panic into a value.
func realKey(pass, salt []byte, rounds, keyLen int) (key []byte, err error, panicked any) {
	defer func() {
		if r := recover(); r != nil {
			panicked = fmt.Sprint(r)
		}
	}()
	key, err = ssh.VerifKeysBcryptPBKDF(pass, salt, rounds, keyLen)
	return
}

type bulkCase struct {
	Pass   string `json:"pass_hex"`
	Salt   string `json:"salt_hex"`
	SaltN  int    `json:"salt_len,omitempty"` // large salts: pattern of this length instead of salt_hex
	Rounds int    `json:"rounds"`
	KeyLen int    `json:"keyLen"`
}

func (c bulkCase) bytes() (pass, salt []byte) {
	pass, _ = hex.DecodeString(c.Pass)
	if c.SaltN > 0 {
		return pass, toyprim.Pat(c.SaltN%200+2, c.SaltN)
	}
	salt, _ = hex.DecodeString(c.Salt)
	return
}

func TestC19(t *testing.T) {
	out := vutil.NewOut()
	defer out.Write()
	loadPi(t)
	var cases []tcase
	if p := os.Getenv("VERIF_CASES"); p != "" {
		if err := vutil.ReadNDJSON(p, func(line []byte) error {
			var c tcase
			if err := json.Unmarshal(line, &c); err != nil {
				return err
			}
			cases = append(cases, c)
			return nil
		}); err != nil {
			t.Fatal(err)
		}
	}
	thorough := vutil.Thorough()

	// ---------------------------------------------------------------- 1. the transcription against TLC
	refCount := map[string]int{}
	fullBH := 0
	for _, c := range cases {
		switch c.K {
		case "bh":
			if got := c19ref.BcryptHash(c.Sc.ref(), bs(c.A), bs(c.B)); !bytes.Equal(got, bs(c.Out)) {
				t.Fatalf("c19ref.BcryptHash differs from TLC's evaluation of PrimBlowfish!BcryptHash at scale %+v (case %d): harness defect, no verdict", c.Sc, c.ID)
			}
			refCount["bh"]++
			if c.Sc.full() && c.Sc.Cost == 64 && c.Sc.Mag == 64 {
				fullBH++
				if c.Cached {
					refCount["bh-full-cached"]++
				} else {
					refCount["bh-full"]++
				}
			}
		case "stage":
			st := c19ref.Stages(c.Sc.ref(), bs(c.A), bs(c.B), c.I)
			if len(c.P) != 2*len(st.P) {
				t.Fatalf("stage vector of case %d has %d limbs, want %d", c.ID, len(c.P), 2*len(st.P))
			}
			for j, w := range st.P {
				if uint32(c.P[2*j])<<16|uint32(c.P[2*j+1]) != w {
					t.Fatalf("c19ref P-array after %d expansion pairs differs from TLC (scale %+v, case %d, word %d): harness defect, no verdict", c.I, c.Sc, c.ID, j)
				}
			}
			refCount["stage"]++
		case "ecb":
			var st *c19ref.State
			if len(c.B) == 0 {
				st = c19ref.NewCipher(c.Sc.ref(), bs(c.A))
			} else {
				st = c19ref.Init(c.Sc.ref())
				st.Expand(bs(c.A), bs(c.B))
			}
			if got := st.EncryptBlock(bs(c.C)); !bytes.Equal(got, bs(c.Out)) {
				t.Fatalf("c19ref Blowfish differs from TLC (scale %+v, case %d): harness defect, no verdict", c.Sc, c.ID)
			}
			refCount["ecb"]++
		case "toyhash":
			if !bytes.Equal(toyprim.Sum(8, bs(c.M)), bs(c.Out)) {
				t.Fatalf("toyprim.Sum(8) differs from TLC's ToyHash: harness defect, no verdict")
			}
			refCount["toyhash"]++
		case "toybhash":
			if !bytes.Equal(c19ref.BcryptHash(toyScale, bs(c.Pass), bs(c.Salt)), bs(c.Out)) {
				t.Fatalf("c19ref.BcryptHash at toy scale differs from TLC: harness defect, no verdict")
			}
			refCount["toybhash"]++
		case "toykey":
			if got := toyParams.Key(bs(c.Pass), bs(c.Salt), c.Rounds, c.KeyLen); !bytes.Equal(got, bs(c.Key)) {
				t.Fatalf("c19ref.Params.Key differs from TLC's evaluation of BcryptPbkdf!KeySpec (toy primitives; %d-byte password, %d-byte salt, %d rounds, %d bytes): harness defect, no verdict",
					len(c.Pass), len(c.Salt), c.Rounds, c.KeyLen)
			}
			refCount["toykey"]++
		}
	}
	if os.Getenv("VERIF_C19_ALLOW_FEW") == "" && (refCount["bh"] < 3 || refCount["toykey"] < 10 || refCount["ecb"] < 2 || refCount["stage"] < 4) {
		t.Fatalf("too few TLC vectors to validate the transcription: %v", refCount)
	}
	refCount["published"] = refPublished(t)
	out.Extra["reference_validated_against"] = refCount

	var mu sync.Mutex
	// at most three recorded violations per signature: vutil.Out keeps 50 in all, and a known finding
	// reproduced on many cases must not crowd out a different violation
	perSig := map[string]int{}
	viol := func(sig, what string, detail any) {
		mu.Lock()
		defer mu.Unlock()
		perSig[sig]++
		if perSig[sig] <= 3 {
			out.Violation(sig, what, detail)
		}
		out.Extra["violations_by_signature"] = perSig
		t.Errorf("%s: %s", sig, what)
	}

	// ---------------------------------------------------------------- 2. argument decision table
	argSeen := map[string]int{}
	argJobs := make(chan tcase, 64)
	var awg sync.WaitGroup
	naw := runtime.GOMAXPROCS(0)
	if naw > 8 {
		naw = 8
	}
	for w := 0; w < naw; w++ {
		awg.Add(1)
		go func() {
			defer awg.Done()
			for c := range argJobs {
				pass := toyprim.Pat(11, c.PassLen)
				salt := toyprim.Pat(12, c.SaltLen)
				key, err, pan := realKey(pass, salt, c.Rounds, c.KeyLen)
				got := "key"
				if pan != nil {
					got = "panic"
				} else if err != nil {
					got = "error"
				}
				mu.Lock()
				out.Case(fmt.Sprintf("arg|%d|%d|%d|%d", c.Rounds, c.PassLen, c.SaltLen, c.KeyLen))
				argSeen[c.Want+"->"+got]++
				mu.Unlock()
				det := map[string]any{"case": c, "real": got, "panic": pan, "error": fmt.Sprint(err)}
				switch {
				case got == "panic" && c.KeyLen < 0 && c.Guard == "pass":
					viol("c19-negative-keylen-panics", fmt.Sprintf("Key(%d-byte password, %d-byte salt, rounds %d, keyLen %d) panics (%v) instead of returning an error", c.PassLen, c.SaltLen, c.Rounds, c.KeyLen, pan), det)
				case got == "panic":
					viol(fmt.Sprintf("c19-panic:rounds%d-pass%d-salt%d-keylen%d", c.Rounds, c.PassLen, c.SaltLen, c.KeyLen), fmt.Sprintf("Key panics: %v", pan), det)
				case c.Want == "error" && got != "error":
					viol("c19-missing-error:"+argClass(c), "Key accepts arguments that are documented as invalid", det)
				case c.Want == "key" && got != "key":
					viol("c19-spurious-error:"+argClass(c), "Key rejects valid arguments: "+fmt.Sprint(err), det)
				case c.Want == "key" && len(key) != c.KeyLen:
					viol("c19-wrong-length", fmt.Sprintf("Key returned %d bytes for keyLen %d", len(key), c.KeyLen), det)
				case c.Want == "key" && c.KeyLen <= 64:
					// (long keys are compared in step 4)
					if want := fullParams.Key(pass, salt, c.Rounds, c.KeyLen); !bytes.Equal(key, want) {
						viol("c19-key-differs:arg-table", "Key differs from the reference definition on an argument-table case", det)
					}
				case c.Want == "either":
					if got == "key" && len(key) != 0 {
						viol("c19-wrong-length", "Key returned a non-empty key for keyLen 0", det)
					}
					mu.Lock()
					out.Extra["keylen0_behaviour_informational"] = got
					mu.Unlock()
				}
			}
		}()
	}
	for _, c := range cases {
		if c.K == "arg" {
			argJobs <- c
		}
	}
	close(argJobs)
	awg.Wait()
	out.Extra["arg_table_outcomes"] = argSeen

	// ---------------------------------------------------------------- 3. direct comparisons with TLC / published values
	direct := 0
	for _, c := range cases {
		switch {
		case c.K == "bh" && c.Pw != "" && c.Sc.full() && c.Sc.Cost == 64 && c.Sc.Mag == 64:
			pw, _ := hex.DecodeString(c.Pw)
			sb, _ := hex.DecodeString(c.Saltb)
			// a = SHA-512(pw), b = SHA-512(saltb || BE32(counter)) is what the check promised TLC evaluated
			cnt := []byte{byte(c.Counter >> 24), byte(c.Counter >> 16), byte(c.Counter >> 8), byte(c.Counter)}
			if !bytes.Equal(sha(pw), bs(c.A)) || !bytes.Equal(sha(append(append([]byte(nil), sb...), cnt...)), bs(c.B)) {
				t.Fatalf("direct case %d: inputs are not the SHA-512 digests announced (harness defect)", c.ID)
			}
			n := c.Counter
			key, err, pan := realKey(pw, sb, 1, 32*n)
			out.Case(fmt.Sprintf("direct|%s|%s|%d", c.Pw, c.Saltb, n))
			direct++
			det := map[string]any{"password_hex": c.Pw, "salt_hex": c.Saltb, "counter": n, "tlc_bcrypt_hash": hex.EncodeToString(bs(c.Out)), "cached_tlc_value": c.Cached}
			if pan != nil || err != nil || len(key) != 32*n {
				viol("c19-key-fails:direct", fmt.Sprintf("Key fails on valid arguments: %v %v", err, pan), det)
				continue
			}
			col := make([]byte, 32)
			for i := range col {
				col[i] = key[i*n+(n-1)]
			}
			det["real_block"] = hex.EncodeToString(col)
			if !bytes.Equal(col, bs(c.Out)) {
				viol("c19-block-differs-from-tlc-bcrypt-hash", fmt.Sprintf("the bytes Key(pw, salt, 1, %d) delivers for block %d differ from bcrypt_hash(SHA-512(pw), SHA-512(salt||%d)) as evaluated by TLC from PrimBlowfish", 32*n, n, n), det)
			}
			out.Sample(det)
		case c.K == "ecb" && c.Sc.full():
			var ci *blowfish.Cipher
			var err error
			if len(c.B) == 0 {
				ci, err = blowfish.NewCipher(bs(c.A))
			} else {
				ci, err = blowfish.NewSaltedCipher(bs(c.A), bs(c.B))
			}
			out.Case(fmt.Sprintf("ecb|%d|%d|%d", len(c.A), len(c.B), c.ID))
			det := map[string]any{"key": c.A, "salt": c.B, "block": c.C, "tlc": c.Out}
			if err != nil {
				viol("c19-blowfish-constructor-fails", "blowfish constructor fails on a valid key: "+err.Error(), det)
				continue
			}
			got := make([]byte, 8)
			ci.Encrypt(got, bs(c.C))
			if !bytes.Equal(got, bs(c.Out)) {
				det["real"] = hex.EncodeToString(got)
				viol("c19-blowfish-differs-from-tlc", "blowfish ciphertext differs from TLC's evaluation of PrimBlowfish", det)
			}
			direct++
		}
	}
	for _, v := range published {
		want, _ := hex.DecodeString(v.hexOut)
		key, err, pan := realKey([]byte(v.pass), []byte(v.salt), v.rounds, len(want))
		out.Case(fmt.Sprintf("published|%x|%x|%d|%d", v.pass, v.salt, v.rounds, len(want)))
		direct++
		if pan != nil || err != nil || !bytes.Equal(key, want) {
			viol("c19-differs-from-published-vector", "Key differs from a published bcrypt_pbkdf vector",
				map[string]any{"password_hex": hex.EncodeToString([]byte(v.pass)), "salt_hex": hex.EncodeToString([]byte(v.salt)), "rounds": v.rounds, "want": v.hexOut, "got": hex.EncodeToString(key), "error": fmt.Sprint(err), "panic": pan})
		}
	}
	out.Extra["direct_comparisons"] = direct
	out.Extra["tlc_full_scale_bcrypt_hash_vectors"] = fullBH

	// ---------------------------------------------------------------- 4. bulk: real Key against the validated transcription
	var bulk []bulkCase
	for _, c := range cases {
		if c.K == "replay" && c.Replay != nil {
			bulk = append(bulk, *c.Replay)
		}
	}
	if os.Getenv("VERIF_C19_NOBULK") == "" {
		bulk = append(bulk, bulkCases(thorough)...)
	}
	// group by (pass, salt, rounds): the transcription computes the 32 blocks once per group
	type gkey struct {
		pass, salt string
		saltN      int
		rounds     int
	}
	groups := map[gkey][]int{}
	var order []gkey
	for _, c := range bulk {
		g := gkey{c.Pass, c.Salt, c.SaltN, c.Rounds}
		if _, ok := groups[g]; !ok {
			order = append(order, g)
		}
		groups[g] = append(groups[g], c.KeyLen)
	}
	type job struct {
		g  gkey
		kl int
		bl [][]byte // reference blocks 1..maxStride
	}
	jobs := make(chan job, 64)
	var wg sync.WaitGroup
	nw := runtime.GOMAXPROCS(0)
	if nw > 8 {
		nw = 8
	}
	for w := 0; w < nw; w++ {
		wg.Add(1)
		go func() {
			defer wg.Done()
			for j := range jobs {
				c := bulkCase{Pass: j.g.pass, Salt: j.g.salt, SaltN: j.g.saltN, Rounds: j.g.rounds, KeyLen: j.kl}
				pass, salt := c.bytes()
				stride := (j.kl + 31) / 32
				want := make([]byte, j.kl)
				for d := range want {
					want[d] = j.bl[d%stride][d/stride]
				}
				key, err, pan := realKey(pass, salt, j.g.rounds, j.kl)
				mu.Lock()
				out.Case(fmt.Sprintf("bulk|%d|%d|%d|%d", len(pass), len(salt), j.g.rounds, j.kl))
				mu.Unlock()
				det := map[string]any{"case": map[string]any{"k": "replay", "replay": c}, "password_len": len(pass), "salt_len": len(salt)}
				switch {
				case pan != nil || err != nil:
					viol(fmt.Sprintf("c19-key-fails:pass%d-salt%d-rounds%d-keylen%d", len(pass), len(salt), j.g.rounds, j.kl), fmt.Sprintf("Key fails on valid arguments: %v %v", err, pan), det)
				case len(key) != j.kl:
					viol("c19-wrong-length", fmt.Sprintf("Key returned %d bytes for keyLen %d", len(key), j.kl), det)
				case !bytes.Equal(key, want):
					first := 0
					for first < len(key) && key[first] == want[first] {
						first++
					}
					det["first_differing_position"] = first
					det["want"] = hex.EncodeToString(want)
					det["got"] = hex.EncodeToString(key)
					viol(fmt.Sprintf("c19-key-differs:%s", diffClass(key, want, j.g.rounds, j.kl)),
						fmt.Sprintf("Key(%d-byte password, %d-byte salt, rounds %d, keyLen %d) differs from the bcrypt_pbkdf definition at byte %d", len(pass), len(salt), j.g.rounds, j.kl, first), det)
				}
			}
		}()
	}
	for _, g := range order {
		kls := groups[g]
		sort.Ints(kls)
		maxStride := (kls[len(kls)-1] + 31) / 32
		c := bulkCase{Pass: g.pass, Salt: g.salt, SaltN: g.saltN}
		pass, salt := c.bytes()
		hp := sha(pass)
		bl := make([][]byte, maxStride)
		var bw sync.WaitGroup
		for cnt := 1; cnt <= maxStride; cnt++ {
			bw.Add(1)
			go func(cnt int) { defer bw.Done(); bl[cnt-1] = fullParams.Block(hp, salt, g.rounds, cnt) }(cnt)
		}
		bw.Wait()
		for _, kl := range kls {
			jobs <- job{g, kl, bl}
		}
	}
	close(jobs)
	wg.Wait()
	out.Extra["bulk_cases"] = len(bulk)
	if len(bulk) > 0 {
		out.Sample(map[string]any{"bulk_example": bulk[len(bulk)/2]})
	}
}

func argClass(c tcase) string {
	switch {
	case c.Rounds < 1:
		return "rounds<1"
	case c.PassLen == 0:
		return "empty-password"
	case c.SaltLen == 0:
		return "empty-salt"
	case c.SaltLen > 1<<20:
		return "salt>2^20"
	case c.KeyLen > 1024:
		return "keylen>1024"
	case c.KeyLen < 0:
		return "keylen<0"
	case c.KeyLen == 1024:
		return "keylen=1024"
	}
	return fmt.Sprintf("rounds%d-pass%d-salt%d-keylen%d", c.Rounds, c.PassLen, c.SaltLen, c.KeyLen)
}

// diffClass names a disagreement coarsely (for distinct violation signatures).
func diffClass(got, want []byte, rounds, kl int) string {
	stride := (kl + 31) / 32
	switch {
	case stride == 1 && rounds == 1:
		return "single-block-single-round"
	case stride == 1:
		return "single-block-multi-round"
	case kl%32 == 0:
		return "multi-block-full"
	default:
		return "multi-block-partial"
	}
}

// bulkCases enumerates the (password, salt, rounds, key length) combinations of step 4, seeded.
func bulkCases(thorough bool) []bulkCase {
	rng := vutil.Rand(19)
	rnd := func(n int) []byte {
		b := make([]byte, n)
		rng.Read(b)
		return b
	}
	hx := hex.EncodeToString
	var out []bulkCase
	// (a) key lengths, one round, one password/salt pair (seeded): dense around the multiples of the block size
	pw, salt := rnd(1+rng.Intn(40)), rnd(16)
	var kls []int
	if thorough {
		for kl := 1; kl <= 1024; kl++ {
			kls = append(kls, kl)
		}
	} else {
		seen := map[int]bool{}
		add := func(k int) {
			if k >= 1 && k <= 1024 && !seen[k] {
				seen[k] = true
				kls = append(kls, k)
			}
		}
		for k := 1; k <= 100; k++ {
			add(k)
		}
		for m := 1; m <= 32; m++ {
			add(32*m - 1)
			add(32 * m)
			add(32*m + 1)
		}
		for k := 1000; k <= 1024; k++ {
			add(k)
		}
		for i := 0; i < 20; i++ {
			add(1 + rng.Intn(1024))
		}
	}
	for _, kl := range kls {
		out = append(out, bulkCase{Pass: hx(pw), Salt: hx(salt), Rounds: 1, KeyLen: kl})
	}
	// (b) rounds 2, 3, 4 (and 16, 32 for a few) x key lengths around block multiples
	for _, r := range []int{2, 3, 4} {
		pw, salt := rnd(1+rng.Intn(40)), rnd(16)
		kk := []int{1, 16, 31, 32, 33, 48, 63, 64, 65, 96, 100, 200}
		if r == 2 || thorough {
			kk = append(kk, 1023, 1024)
		}
		for _, kl := range kk {
			out = append(out, bulkCase{Pass: hx(pw), Salt: hx(salt), Rounds: r, KeyLen: kl})
		}
	}
	hi := []int{16}
	if thorough {
		hi = []int{5, 8, 16, 31, 32}
	}
	for _, r := range hi {
		pw, salt := rnd(1+rng.Intn(40)), rnd(16)
		for _, kl := range []int{32, 48, 65} {
			out = append(out, bulkCase{Pass: hx(pw), Salt: hx(salt), Rounds: r, KeyLen: kl})
		}
	}
	// (c) salt lengths 1..64 and a few large ones; password lengths 1..80 (beyond bcrypt's 72) and a few large ones
	step := 3
	if thorough {
		step = 1
	}
	for sl := 1; sl <= 64; sl += step {
		out = append(out, bulkCase{Pass: hx(rnd(8)), Salt: hx(rnd(sl)), Rounds: 1 + sl%2, KeyLen: 48})
	}
	for _, sl := range []int{100, 1000, 65536, 1 << 20} {
		out = append(out, bulkCase{Pass: hx(rnd(9)), SaltN: sl, Rounds: 1, KeyLen: 33})
	}
	for pl := 1; pl <= 80; pl += step {
		out = append(out, bulkCase{Pass: hx(rnd(pl)), Salt: hx(rnd(16)), Rounds: 1 + pl%2, KeyLen: 48})
	}
	for _, pl := range []int{71, 72, 73, 100, 1000, 100000} {
		out = append(out, bulkCase{Pass: hx(rnd(pl)), Salt: hx(rnd(16)), Rounds: 2, KeyLen: 40})
	}
	// passwords / salts with zero bytes and 0xff bytes
	for _, p := range [][]byte{{0}, {0, 0}, {255}, bytes.Repeat([]byte{0}, 64), bytes.Repeat([]byte{255}, 73), []byte("a\x00b")} {
		out = append(out, bulkCase{Pass: hx(p), Salt: hx(p), Rounds: 2, KeyLen: 64})
	}
	// (d) the property's quantifier: passwords 1..100, salts 1..64, rounds 1..32, key lengths 1..200 -- seeded random
	n := 60
	if thorough {
		n = 1500
	}
	for i := 0; i < n; i++ {
		r := 1 + rng.Intn(4)
		if rng.Intn(10) == 0 {
			r = 1 + rng.Intn(32)
		}
		kl := 1 + rng.Intn(200)
		if rng.Intn(3) == 0 {
			m := 32 * (1 + rng.Intn(6))
			kl = m - 1 + rng.Intn(3)
		}
		out = append(out, bulkCase{Pass: hx(rnd(1 + rng.Intn(100))), Salt: hx(rnd(1 + rng.Intn(64))), Rounds: r, KeyLen: kl})
	}
	return out
}

var _ = strings.Repeat
