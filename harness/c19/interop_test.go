//go:build verif

package c19

// TestInterop: OpenSSH's ssh-keygen is the independent implementation of bcrypt_pbkdf the property names
// ("as used by OpenSSH private key encryption").
//
//	A. ssh-keygen writes passphrase-protected ed25519 keys (ciphers with different key+IV sizes = different
//	   bcrypt_pbkdf output lengths, several round counts and passphrases); the key||iv derived by the REAL
//	   Key must decrypt the private section (check-ints equal, key type and public key as in the clear part,
//	   AEAD tag valid).
//	B. files whose private section is encrypted under key||iv derived by the REAL Key (salt lengths 1..100,
//	   rounds 1..33, passphrases up to 100 bytes, output lengths 28..64) must be opened by
//	   `ssh-keygen -y -P <passphrase>`, which prints the expected public key.  A rejected file is charged to
//	   Key only when the same plaintext encrypted under the validated transcription's key is accepted.

import (
	"bytes"
	"crypto/aes"
	"crypto/cipher"
	"crypto/des"
	"crypto/ed25519"
	"crypto/subtle"
	"encoding/base64"
	"encoding/binary"
	"encoding/hex"
	"encoding/pem"
	"fmt"
	"os"
	"os/exec"
	"path/filepath"
	"strings"
	"sync"
	"testing"

	"golang.org/x/crypto/chacha20"
	"golang.org/x/crypto/poly1305"
	"verif/harness/vutil"
)

type ciph struct {
	name           string
	keyLen, ivLen  int
	block, authLen int
	crypt          func(key, iv, in []byte, enc bool) (out []byte, tag []byte)
	verify         func(key, iv, ct, tag []byte) bool
}

func ctr(key, iv, in []byte, enc bool) ([]byte, []byte) {
	b, _ := aes.NewCipher(key)
	out := make([]byte, len(in))
	cipher.NewCTR(b, iv).XORKeyStream(out, in)
	return out, nil
}
func cbcWith(mk func([]byte) (cipher.Block, error)) func(key, iv, in []byte, enc bool) ([]byte, []byte) {
	return func(key, iv, in []byte, enc bool) ([]byte, []byte) {
		b, _ := mk(key)
		out := make([]byte, len(in))
		if enc {
			cipher.NewCBCEncrypter(b, iv).CryptBlocks(out, in)
		} else {
			cipher.NewCBCDecrypter(b, iv).CryptBlocks(out, in)
		}
		return out, nil
	}
}
func gcm(key, iv, in []byte, enc bool) ([]byte, []byte) {
	// AES-GCM keystream = CTR starting at counter 2 of J0 = iv || 1; the tag is handled with cipher.NewGCM
	b, _ := aes.NewCipher(key)
	g, _ := cipher.NewGCM(b)
	if enc {
		s := g.Seal(nil, iv, in, nil)
		return s[:len(in)], s[len(in):]
	}
	j := make([]byte, 16)
	copy(j, iv)
	j[15] = 2
	out := make([]byte, len(in))
	cipher.NewCTR(b, j).XORKeyStream(out, in)
	return out, nil
}
func gcmVerify(key, iv, ct, tag []byte) bool {
	b, _ := aes.NewCipher(key)
	g, _ := cipher.NewGCM(b)
	_, err := g.Open(nil, iv, append(append([]byte(nil), ct...), tag...), nil)
	return err == nil
}
func chachaParts(key []byte) (polyKey [32]byte, s *chacha20.Cipher) {
	// chacha20-poly1305@openssh.com with sequence number 0: original ChaCha20 (64-bit nonce 0) = the IETF
	// variant with a zero 96-bit nonce while the block counter stays below 2^32
	s, _ = chacha20.NewUnauthenticatedCipher(key[:32], make([]byte, 12))
	var z [64]byte
	s.XORKeyStream(z[:], z[:])
	copy(polyKey[:], z[:32])
	return
}
func chacha(key, iv, in []byte, enc bool) ([]byte, []byte) {
	pk, s := chachaParts(key)
	out := make([]byte, len(in))
	s.XORKeyStream(out, in) // counter 1 onwards
	if enc {
		var tag [16]byte
		poly1305.Sum(&tag, out, &pk)
		return out, tag[:]
	}
	return out, nil
}
func chachaVerify(key, iv, ct, tag []byte) bool {
	pk, _ := chachaParts(key)
	var t [16]byte
	poly1305.Sum(&t, ct, &pk)
	return subtle.ConstantTimeCompare(t[:], tag) == 1
}

var ciphers = []ciph{
	{"aes256-ctr", 32, 16, 16, 0, ctr, nil},
	{"aes192-ctr", 24, 16, 16, 0, ctr, nil},
	{"aes128-ctr", 16, 16, 16, 0, ctr, nil},
	{"aes256-cbc", 32, 16, 16, 0, cbcWith(aes.NewCipher), nil},
	{"3des-cbc", 24, 8, 8, 0, cbcWith(des.NewTripleDESCipher), nil},
	{"aes256-gcm@openssh.com", 32, 12, 16, 16, gcm, gcmVerify},
	{"aes128-gcm@openssh.com", 16, 12, 16, 16, gcm, gcmVerify},
	{"chacha20-poly1305@openssh.com", 64, 0, 8, 16, chacha, chachaVerify},
}

func sshString(b []byte) []byte {
	return append(binary.BigEndian.AppendUint32(nil, uint32(len(b))), b...)
}

type rd struct {
	b   []byte
	bad bool
}

func (r *rd) str() []byte {
	if len(r.b) < 4 {
		r.bad = true
		return nil
	}
	n := int(binary.BigEndian.Uint32(r.b))
	if n > len(r.b)-4 {
		r.bad = true
		return nil
	}
	s := r.b[4 : 4+n]
	r.b = r.b[4+n:]
	return s
}
func (r *rd) u32() uint32 {
	if len(r.b) < 4 {
		r.bad = true
		return 0
	}
	v := binary.BigEndian.Uint32(r.b)
	r.b = r.b[4:]
	return v
}

const magicV1 = "openssh-key-v1\x00"

type keyFile struct {
	cipher string
	salt   []byte
	rounds int
	pub    []byte // public key blob
	enc    []byte
	tag    []byte
}

func parseKeyFile(pemBytes []byte) (*keyFile, error) {
	blk, _ := pem.Decode(pemBytes)
	if blk == nil || blk.Type != "OPENSSH PRIVATE KEY" || !bytes.HasPrefix(blk.Bytes, []byte(magicV1)) {
		return nil, fmt.Errorf("not an openssh-key-v1 file")
	}
	r := &rd{b: blk.Bytes[len(magicV1):]}
	k := &keyFile{cipher: string(r.str())}
	kdf := string(r.str())
	opts := &rd{b: r.str()}
	if kdf != "bcrypt" {
		return nil, fmt.Errorf("kdf %q", kdf)
	}
	k.salt = opts.str()
	k.rounds = int(opts.u32())
	if r.u32() != 1 {
		return nil, fmt.Errorf("number of keys")
	}
	k.pub = r.str()
	k.enc = r.str()
	k.tag = r.b
	if r.bad || opts.bad {
		return nil, fmt.Errorf("truncated")
	}
	return k, nil
}

// plainOK: check-ints equal, then string keytype, string pub as in the public blob.
func plainOK(plain, pubBlob []byte) bool {
	r := &rd{b: plain}
	a, b := r.u32(), r.u32()
	kt := r.str()
	pk := r.str()
	pr := &rd{b: pubBlob}
	pkt := pr.str()
	ppk := pr.str()
	return !r.bad && !pr.bad && a == b && bytes.Equal(kt, pkt) && bytes.Equal(pk, ppk) && len(pk) == 32
}

func buildKeyFile(c ciph, salt []byte, rounds int, key []byte, priv ed25519.PrivateKey, check uint32, comment string) []byte {
	pub := priv.Public().(ed25519.PublicKey)
	pubBlob := append(sshString([]byte("ssh-ed25519")), sshString(pub)...)
	var plain []byte
	plain = binary.BigEndian.AppendUint32(plain, check)
	plain = binary.BigEndian.AppendUint32(plain, check)
	plain = append(plain, pubBlob...)
	plain = append(plain, sshString(priv)...)
	plain = append(plain, sshString([]byte(comment))...)
	for i := 1; len(plain)%c.block != 0; i++ {
		plain = append(plain, byte(i))
	}
	ct, tag := c.crypt(key[:c.keyLen], key[c.keyLen:c.keyLen+c.ivLen], plain, true)
	var b []byte
	b = append(b, magicV1...)
	b = append(b, sshString([]byte(c.name))...)
	b = append(b, sshString([]byte("bcrypt"))...)
	b = append(b, sshString(append(sshString(salt), binary.BigEndian.AppendUint32(nil, uint32(rounds))...))...)
	b = binary.BigEndian.AppendUint32(b, 1)
	b = append(b, sshString(pubBlob)...)
	b = append(b, sshString(ct)...)
	b = append(b, tag...)
	return pem.EncodeToMemory(&pem.Block{Type: "OPENSSH PRIVATE KEY", Bytes: b})
}

func keygenReads(dir, name string, pemBytes []byte, pass string) (pubB64 string, output string, ok bool) {
	f := filepath.Join(dir, name)
	if err := os.WriteFile(f, pemBytes, 0o600); err != nil {
		return "", err.Error(), false
	}
	defer os.Remove(f)
	o, err := exec.Command("ssh-keygen", "-y", "-P", pass, "-f", f).CombinedOutput()
	if err != nil {
		return "", strings.TrimSpace(string(o)), false
	}
	fs := strings.Fields(string(o))
	if len(fs) < 2 {
		return "", string(o), false
	}
	return fs[1], string(o), true
}

func TestInterop(t *testing.T) {
	out := vutil.NewOut()
	defer out.Write()
	if _, err := exec.LookPath("ssh-keygen"); err != nil {
		out.Extra["skipped"] = "ssh-keygen not installed: interoperability with OpenSSH's bcrypt_pbkdf not exercised"
		return
	}
	loadPi(t)
	refPublished(t)
	thorough := vutil.Thorough()
	rng := vutil.Rand(1919)
	dir := t.TempDir()
	var mu sync.Mutex
	// at most three recorded violations per signature: vutil.Out keeps 50 in all, and a known finding
	// reproduced on many cases must not crowd out a different violation
	perSig := map[string]int{}
	viol := func(sig, what string, detail any) {
		mu.Lock()
		defer mu.Unlock()
		perSig[sig]++
		if perSig[sig] <= 3 {
			out.Violation(sig, what, detail)
		}
		out.Extra["violations_by_signature"] = perSig
		t.Errorf("%s: %s", sig, what)
	}
	skipped := map[string]bool{}
	passes := []string{"p", "secret", "pass phrase with spaces", "пароль-✓", strings.Repeat("x", 72), strings.Repeat("long-passphrase-", 6) + "tail", "q" + strings.Repeat("Z", 99)}

	// ------------------------------------------------------------ A. ssh-keygen writes, the package's key must decrypt
	type aJob struct {
		c      ciph
		rounds int
		pass   string
		idx    int
	}
	var aJobs []aJob
	roundsA := []int{1, 2, 3, 16}
	if thorough {
		roundsA = []int{1, 2, 3, 4, 5, 7, 16, 24, 33}
	}
	i := 0
	for _, c := range ciphers {
		for _, r := range roundsA {
			aJobs = append(aJobs, aJob{c, r, passes[(i+rng.Intn(2))%len(passes)], i})
			i++
		}
	}
	sem := make(chan struct{}, 8)
	var wg sync.WaitGroup
	nA, nB := 0, 0
	for _, j := range aJobs {
		wg.Add(1)
		sem <- struct{}{}
		go func(j aJob) {
			defer wg.Done()
			defer func() { <-sem }()
			f := filepath.Join(dir, fmt.Sprintf("kg_%d", j.idx))
			o, err := exec.Command("ssh-keygen", "-q", "-t", "ed25519", "-a", fmt.Sprint(j.rounds), "-Z", j.c.name, "-N", j.pass, "-C", "c19", "-f", f).CombinedOutput()
			if err != nil {
				mu.Lock()
				skipped[fmt.Sprintf("ssh-keygen cannot write %s keys here: %s", j.c.name, strings.TrimSpace(string(o)))] = true
				mu.Unlock()
				return
			}
			pemBytes, _ := os.ReadFile(f)
			os.Remove(f)
			os.Remove(f + ".pub")
			kf, err := parseKeyFile(pemBytes)
			if err != nil || kf.cipher != j.c.name || kf.rounds != j.rounds || len(kf.tag) != j.c.authLen {
				t.Errorf("unexpected key file from ssh-keygen (%v): harness defect", err)
				return
			}
			n := j.c.keyLen + j.c.ivLen
			key, kerr, pan := realKey([]byte(j.pass), kf.salt, kf.rounds, n)
			mu.Lock()
			out.Case(fmt.Sprintf("A|%s|%d|%d|%d", j.c.name, j.rounds, len(j.pass), n))
			nA++
			mu.Unlock()
			det := map[string]any{"file": string(pemBytes), "passphrase": j.pass, "cipher": j.c.name, "rounds": kf.rounds, "salt_hex": hex.EncodeToString(kf.salt), "derived_len": n}
			if kerr != nil || pan != nil || len(key) != n {
				viol("c19-key-fails:interop", fmt.Sprintf("Key fails on the parameters of a key file written by ssh-keygen: %v %v", kerr, pan), det)
				return
			}
			plain, _ := j.c.crypt(key[:j.c.keyLen], key[j.c.keyLen:], kf.enc, false)
			ok := plainOK(plain, kf.pub)
			if ok && j.c.verify != nil {
				ok = j.c.verify(key[:j.c.keyLen], key[j.c.keyLen:], kf.enc, kf.tag)
			}
			if !ok {
				// is it the derivation or this harness?  the validated transcription decides
				rk := fullParams.Key([]byte(j.pass), kf.salt, kf.rounds, n)
				rp, _ := j.c.crypt(rk[:j.c.keyLen], rk[j.c.keyLen:], kf.enc, false)
				if !plainOK(rp, kf.pub) {
					t.Errorf("neither the package's key nor the transcription's decrypts a %s key written by ssh-keygen: harness defect, no verdict", j.c.name)
					return
				}
				det["key_hex"] = hex.EncodeToString(key)
				viol(fmt.Sprintf("c19-cannot-decrypt-ssh-keygen-key:%s", diffClass(nil, nil, kf.rounds, n)),
					fmt.Sprintf("key||iv = Key(passphrase, salt, %d, %d) does not decrypt a %s private key written by ssh-keygen", kf.rounds, n, j.c.name), det)
			}
		}(j)
	}
	wg.Wait()

	// ------------------------------------------------------------ B. the package derives, ssh-keygen must read
	type bJob struct {
		c      ciph
		salt   []byte
		rounds int
		pass   string
		idx    int
		seed   []byte
		check  uint32
	}
	var bJobs []bJob
	saltLens := []int{1, 8, 15, 16, 17, 32, 64, 100}
	roundsB := []int{1, 2, 3, 5, 16}
	nb := 20
	if thorough {
		saltLens = []int{1, 2, 3, 7, 8, 15, 16, 17, 24, 31, 32, 33, 48, 63, 64, 65, 100, 255, 1000}
		roundsB = []int{1, 2, 3, 4, 5, 6, 9, 16, 17, 33}
		nb = 120
	}
	// probe: which ciphers does ssh-keygen read from this harness's writer at all (key from the validated transcription)
	var usable []ciph
	for k, c := range ciphers {
		seed := bytes.Repeat([]byte{byte(k + 1)}, 32)
		priv := ed25519.NewKeyFromSeed(seed)
		salt := bytes.Repeat([]byte{7}, 16)
		rk := fullParams.Key([]byte("probe"), salt, 1, c.keyLen+c.ivLen)
		wantPub := base64.StdEncoding.EncodeToString(append(sshString([]byte("ssh-ed25519")), sshString(priv.Public().(ed25519.PublicKey))...))
		if got, msg, ok := keygenReads(dir, fmt.Sprintf("probe_%d", k), buildKeyFile(c, salt, 1, rk, priv, 42, "probe"), "probe"); ok && got == wantPub {
			usable = append(usable, c)
		} else {
			skipped[fmt.Sprintf("ssh-keygen does not read harness-written %s files (%s): direction B skipped for this cipher", c.name, msg)] = true
		}
	}
	if len(usable) == 0 {
		t.Fatalf("ssh-keygen reads none of the harness-written files: harness defect, no verdict")
	}
	for k := 0; k < nb; k++ {
		c := usable[k%len(usable)]
		salt := make([]byte, saltLens[(k/2)%len(saltLens)])
		rng.Read(salt)
		seed := make([]byte, 32)
		rng.Read(seed)
		bJobs = append(bJobs, bJob{c, salt, roundsB[(k/3)%len(roundsB)], passes[k%len(passes)], k, seed, rng.Uint32()})
	}
	for _, j := range bJobs {
		wg.Add(1)
		sem <- struct{}{}
		go func(j bJob) {
			defer wg.Done()
			defer func() { <-sem }()
			priv := ed25519.NewKeyFromSeed(j.seed)
			wantPub := base64.StdEncoding.EncodeToString(append(sshString([]byte("ssh-ed25519")), sshString(priv.Public().(ed25519.PublicKey))...))
			n := j.c.keyLen + j.c.ivLen
			key, kerr, pan := realKey([]byte(j.pass), j.salt, j.rounds, n)
			mu.Lock()
			out.Case(fmt.Sprintf("B|%s|%d|%d|%d|%d", j.c.name, j.rounds, len(j.pass), len(j.salt), n))
			nB++
			mu.Unlock()
			det := map[string]any{"passphrase": j.pass, "cipher": j.c.name, "rounds": j.rounds, "salt_hex": hex.EncodeToString(j.salt), "derived_len": n}
			if kerr != nil || pan != nil || len(key) != n {
				viol("c19-key-fails:interop", fmt.Sprintf("Key fails on valid arguments: %v %v", kerr, pan), det)
				return
			}
			file := buildKeyFile(j.c, j.salt, j.rounds, key, priv, j.check, "c19 b")
			det["file"] = string(file)
			got, msg, ok := keygenReads(dir, fmt.Sprintf("b_%d", j.idx), file, j.pass)
			if ok && got == wantPub {
				return
			}
			// rejected: is it Key or this harness?  (the cipher passed the probe with the transcription's key)
			rk := fullParams.Key([]byte(j.pass), j.salt, j.rounds, n)
			got2, msg2, ok2 := keygenReads(dir, fmt.Sprintf("b_%d_ref", j.idx), buildKeyFile(j.c, j.salt, j.rounds, rk, priv, j.check, "c19 b"), j.pass)
			if bytes.Equal(rk, key) || !(ok2 && got2 == wantPub) {
				t.Errorf("ssh-keygen rejects a harness-written %s file also under the transcription's key (%s / %s): harness defect, no verdict", j.c.name, msg, msg2)
				return
			}
			det["ssh_keygen"] = msg
			det["key_hex"] = hex.EncodeToString(key)
			viol(fmt.Sprintf("c19-ssh-keygen-rejects-key-derived-by-package:%s", diffClass(nil, nil, j.rounds, n)),
				fmt.Sprintf("ssh-keygen -y cannot open a %s private key encrypted under key||iv = Key(passphrase, %d-byte salt, %d, %d)", j.c.name, len(j.salt), j.rounds, n), det)
		}(j)
	}
	wg.Wait()
	out.Extra["ssh_keygen_written_keys_decrypted"] = nA
	out.Extra["package_derived_keys_read_by_ssh_keygen"] = nB
	var sk []string
	for s := range skipped {
		sk = append(sk, s)
	}
	out.Extra["skipped_list"] = sk
	if v, err := exec.Command("ssh", "-V").CombinedOutput(); err == nil {
		out.Extra["openssh_version"] = strings.TrimSpace(string(v))
	}
}
