package x03

import (
	"bytes"
	"io"
	"testing"
	"testing/iotest"

	"golang.org/x/crypto/openpgp/packet"
)

func TestProbe(t *testing.T) {
	// new-format literal (tag 11), partial chunk of 8 bytes: header 6 bytes ("b",0,time4) + 2 body bytes, then truncated
	hdr := []byte{0xC0 | 11, 224 + 3, 'b', 0, 0, 0, 0, 0, 'x', 'y'}
	for _, mk := range []func([]byte) io.Reader{
		func(b []byte) io.Reader { return bytes.NewReader(b) },
		func(b []byte) io.Reader { return iotest.DataErrReader(bytes.NewReader(b)) },
	} {
		p, err := packet.Read(mk(hdr))
		if err != nil {
			t.Logf("read err %v", err)
			continue
		}
		l := p.(*packet.LiteralData)
		buf := make([]byte, 2)
		n, err := l.Body.Read(buf)
		t.Logf("n=%d err=%v", n, err)
		n, err = l.Body.Read(buf)
		t.Logf("n=%d err=%v", n, err)
	}
	// truncated mid-chunk: chunk of 16, only 6+4 present
	hdr2 := []byte{0xC0 | 11, 224 + 4, 'b', 0, 0, 0, 0, 0, 'x', 'y', 'z', 'w'}
	p, _ := packet.Read(iotest.DataErrReader(bytes.NewReader(hdr2)))
	l := p.(*packet.LiteralData)
	b, err := io.ReadAll(l.Body)
	t.Logf("ReadAll: %q err=%v", b, err)
	buf := make([]byte, 4)
	p, _ = packet.Read(iotest.DataErrReader(bytes.NewReader(hdr2)))
	l = p.(*packet.LiteralData)
	n, err := l.Body.Read(buf)
	t.Logf("Read4: n=%d err=%v", n, err)
}
