// Package x03 holds the conformance harness of growth check X03 (OpenPGP packet framing and the keyring grammar).
//
// ref.go is a plain Go transcription of the TLA+ definitions of spec/PGPFraming.tla (header codec, ParsePacket, the
// partial-length writer) and spec/PGPFramingKeyring.tla (the keyring acceptor).  Its authority derives from the TLA+
// text: every run first checks it equal to the vectors TLC evaluated (TestCodec, TestWriter, TestKeyring), then uses it
// to judge many more cases than TLC prints.
package x03

import (
	"fmt"
	"sort"
	"strings"
)

// PatByte is PrimWords!PatByte.
func PatByte(seed, i int) byte {
	if seed == 0 {
		return 0
	}
	if seed == 1 {
		return 255
	}
	return byte(((seed*131 + i*197 + (i/7)*31 + 17) ^ (((i%251)*(i%241) + seed) % 256)) % 256)
}

// Pat returns data[from, from+n) of the pattern.
func Pat(seed, from, n int) []byte {
	b := make([]byte, n)
	for i := range b {
		b[i] = PatByte(seed, from+i)
	}
	return b
}

// ---------------------------------------------------------------- encoders (PGPFraming: EncLen, EncNewHeader, ...)

func EncLen(n int) []byte {
	switch {
	case n < 192:
		return []byte{byte(n)}
	case n < 8384:
		return []byte{byte(192 + (n-192)/256), byte((n - 192) % 256)}
	}
	return []byte{255, byte(n >> 24), byte(n >> 16), byte(n >> 8), byte(n)}
}

func EncNewHeader(tag, n int) []byte { return append([]byte{byte(192 + tag)}, EncLen(n)...) }

func EncSubLen(n int) []byte {
	switch {
	case n < 192:
		return []byte{byte(n)}
	case n < 16320:
		return []byte{byte(192 + (n-192)/256), byte((n - 192) % 256)}
	}
	return []byte{255, byte(n >> 24), byte(n >> 16), byte(n >> 8), byte(n)}
}

// ---------------------------------------------------------------- decoder (PGPFraming: DecLen, Span, Chunks, ParsePacket)

// Res is PGPFraming!Res with the body materialised.
type Res struct {
	St   string // ok | eof | uneof | structural
	Tag  int
	Fmt  string
	Len  int64 // declared length; -1 for streams (partial / indeterminate)
	Body []byte
	Used int
}

type decLen struct {
	ok      bool
	n       int64
	partial bool
	used    int
}

func refDecLen(w []byte, off int) decLen {
	if off >= len(w) {
		return decLen{}
	}
	b := w[off]
	switch {
	case b < 192:
		return decLen{true, int64(b), false, 1}
	case b < 224:
		if off+1 >= len(w) {
			return decLen{}
		}
		return decLen{true, int64(b-192)*256 + int64(w[off+1]) + 192, false, 2}
	case b < 255:
		return decLen{true, int64(1) << (b - 224), true, 1}
	}
	if off+4 >= len(w) {
		return decLen{}
	}
	return decLen{true, int64(w[off+1])<<24 | int64(w[off+2])<<16 | int64(w[off+3])<<8 | int64(w[off+4]), false, 5}
}

func refSpan(w []byte, r Res, acc []byte, off int, n int64) Res {
	if n > int64(len(w)-off) {
		r.St, r.Body, r.Used = "uneof", append(acc, w[off:]...), len(w)
		return r
	}
	r.St, r.Body, r.Used = "ok", append(acc, w[off:off+int(n)]...), off+int(n)
	return r
}

// RefParsePacket is PGPFraming!ParsePacket.
func RefParsePacket(w []byte, off int) Res {
	if off >= len(w) {
		return Res{St: "eof", Fmt: "none", Used: off}
	}
	b := w[off]
	if b < 128 {
		return Res{St: "structural", Fmt: "none", Used: off + 1}
	}
	if b < 192 {
		r := Res{Tag: int(b%64) / 4}
		lt := int(b % 4)
		r.Fmt = fmt.Sprintf("old%d", lt)
		if lt == 3 {
			r.St, r.Len, r.Body, r.Used = "ok", -1, append([]byte{}, w[off+1:]...), len(w)
			return r
		}
		nb := 1 << lt
		if off+1+nb > len(w) {
			r.St, r.Used = "uneof", len(w)
			return r
		}
		var n int64
		for i := 0; i < nb; i++ {
			n = n<<8 | int64(w[off+1+i])
		}
		r.Len = n
		return refSpan(w, r, nil, off+1+nb, n)
	}
	r := Res{Tag: int(b % 64)}
	l := refDecLen(w, off+1)
	if !l.ok {
		r.St, r.Fmt, r.Used = "uneof", "new", len(w)
		return r
	}
	if !l.partial {
		r.Fmt, r.Len = fmt.Sprintf("new%d", l.used), l.n
		return refSpan(w, r, nil, off+1+l.used, l.n)
	}
	r.Fmt, r.Len = "partial", -1
	var acc []byte
	off, rem, partial := off+1+l.used, l.n, true
	for {
		if !partial {
			return refSpan(w, r, acc, off, rem)
		}
		if rem > int64(len(w)-off) {
			r.St, r.Body, r.Used = "uneof", append(acc, w[off:]...), len(w)
			return r
		}
		acc = append(acc, w[off:off+int(rem)]...)
		l = refDecLen(w, off+int(rem))
		if !l.ok {
			r.St, r.Body, r.Used = "uneof", acc, len(w)
			return r
		}
		off, rem, partial = off+int(rem)+l.used, l.n, l.partial
	}
}

// RefParseAll is PGPFraming!ParseAll.
func RefParseAll(w []byte) []Res {
	var out []Res
	off := 0
	for {
		r := RefParsePacket(w, off)
		out = append(out, r)
		if r.St != "ok" {
			return out
		}
		off = r.Used
	}
}

// RefSubParse is PGPFraming!SubParse.
type Sub struct {
	Type int   `json:"type"`
	Body []int `json:"body"`
}

func RefSubParse(b []byte) (ok bool, subs []Sub) {
	for len(b) > 0 {
		hl := 5
		if b[0] < 192 {
			hl = 1
		} else if b[0] < 255 {
			hl = 2
		}
		if len(b) < hl+1 {
			return false, subs
		}
		var sl int64
		switch hl {
		case 1:
			sl = int64(b[0])
		case 2:
			sl = int64(b[0]-192)*256 + int64(b[1]) + 192
		default:
			sl = int64(b[1])<<24 | int64(b[2])<<16 | int64(b[3])<<8 | int64(b[4])
		}
		rest := b[hl:]
		if sl == 0 || sl > int64(len(rest)) {
			return false, subs
		}
		body := make([]int, 0, sl)
		for _, x := range rest[1:sl] {
			body = append(body, int(x))
		}
		subs = append(subs, Sub{int(rest[0]), body})
		b = rest[sl:]
	}
	return true, subs
}

// ---------------------------------------------------------------- partial-length writer (PGPFraming: WWrite, WClose, ChunkOut)

const RefMinFirst, RefMaxPow = 512, 30

// RefWStream returns the stream PGPFraming!WStream(tag, sizes, fixShort) as an alternating list: header octets, data range, ...
// (a data range of length 0 after a final header), plus the value each Write returns.
type WItem struct {
	Hdr  []byte
	From int
	N    int
}

func RefWStream(tag int, sizes []int, fixShort bool) (items []WItem, rets []int) {
	items = append(items, WItem{Hdr: []byte{byte(192 + tag)}})
	sent, bufN, pos := false, 0, 0
	emit := func(from, n int) {
		for n > 0 {
			k := 0
			for k < RefMaxPow && (1<<(k+1)) <= n {
				k++
			}
			items = append(items, WItem{Hdr: []byte{byte(224 + k)}, From: from, N: 1 << k})
			from += 1 << k
			n -= 1 << k
		}
	}
	for _, k := range sizes {
		if !sent && (bufN > 0 || k < RefMinFirst) {
			tot := bufN + k
			if tot < RefMinFirst {
				bufN, pos = tot, pos+k
			} else {
				emit(pos-bufN, tot)
				sent, bufN, pos = true, 0, pos+k
			}
		} else {
			emit(pos, k)
			sent, pos = true, pos+k
		}
		rets = append(rets, k)
	}
	if fixShort && !sent {
		items = append(items, WItem{Hdr: EncLen(bufN), From: pos - bufN, N: bufN})
	} else {
		emit(pos-bufN, bufN)
		items = append(items, WItem{Hdr: []byte{0}})
	}
	return
}

// ---------------------------------------------------------------- keyring acceptor (PGPFramingKeyring: Dispatch, Step, Finish, Result)

type KTok struct {
	K    string
	A, B int
}

func ParseTok(name string) KTok {
	// Name(t) == t.k \o a \o ("_" if a = 0) \o b
	i := 0
	for i < len(name) && name[i] >= 'A' && name[i] <= 'Z' {
		i++
	}
	t := KTok{K: name[:i]}
	rest := name[i:]
	if strings.HasPrefix(rest, "_") {
		fmt.Sscanf(rest[1:], "%d", &t.B)
	} else if len(rest) == 1 {
		t.A = int(rest[0] - '0')
	} else if len(rest) == 2 {
		t.A, t.B = int(rest[0]-'0'), int(rest[1]-'0')
	}
	return t
}

func (t KTok) Name() string {
	s := t.K
	if t.A > 0 {
		s += fmt.Sprint(t.A)
	}
	if t.B > 0 {
		if t.A == 0 {
			s += "_"
		}
		s += fmt.Sprint(t.B)
	}
	return s
}

type KID struct {
	UID  int    `json:"uid"`
	Self string `json:"self"`
	N    int    `json:"n"`
}
type KSub struct {
	Sub  int    `json:"sub"`
	Sig  string `json:"sig"`
	Priv bool   `json:"priv"`
}
type KEnt struct {
	PK   [2]any `json:"pk"` // ["K", a] or ["S", b]
	Priv bool   `json:"priv"`
	IDs  []KID  `json:"ids"`
	Subs []KSub `json:"subs"`
	NRev int    `json:"nrev"`
	revs []int
	pkK  string
	pkN  int
}
type KRes struct {
	El  []KEnt `json:"el"`
	Err string `json:"err"`
}

type kcur struct {
	id, n int
	added bool
	self  string
	sig   string
	priv  bool
}
type kstate struct {
	mode    string
	ent     KEnt
	cur     kcur
	el      []KEnt
	lastErr string
	err     string
}

func parseErr(t KTok) string {
	switch t.K {
	case "KU", "EU":
		return "unsup"
	case "EM":
		return "struct"
	case "T":
		return "other"
	}
	return "none"
}
func isSig(t KTok) bool {
	switch t.K {
	case "C", "G", "Q", "R", "B", "BN", "V", "D":
		return true
	}
	return false
}
func isPrimaryPkt(t KTok) bool { return t.K == "K" || t.K == "KS" || t.K == "KE" }
func isSubPkt(t KTok) bool     { return t.K == "S" || t.K == "SS" }
func keyOf(t KTok) (string, int) {
	switch t.K {
	case "K", "KS":
		return "K", t.A
	case "KE":
		return "KE", 0
	}
	return "S", t.B
}
func canSign(k string, n int) bool { return (k == "K" && (n == 1 || n == 2)) || (k == "S" && n == 1) }

func (s *kstate) fail(cls string) { s.mode, s.lastErr, s.ent, s.cur = "skip", cls, KEnt{}, kcur{} }
func (s *kstate) die(cls string)  { s.mode, s.err, s.el, s.ent, s.cur = "dead", cls, nil, KEnt{}, kcur{} }
func (s *kstate) syncID() {
	if !s.cur.added {
		return
	}
	ids := s.ent.IDs[:0:0]
	for _, x := range s.ent.IDs {
		if x.UID != s.cur.id {
			ids = append(ids, x)
		}
	}
	s.ent.IDs = append(ids, KID{s.cur.id, s.cur.self, s.cur.n})
}
func (s *kstate) finishEntity() {
	if len(s.ent.IDs) == 0 {
		s.fail("struct")
		return
	}
	for _, r := range s.ent.revs {
		if !(s.ent.pkK == "K" && s.ent.pkN == r) {
			s.fail("struct")
			return
		}
	}
	e := s.ent
	e.NRev = len(e.revs)
	e.PK = [2]any{e.pkK, e.pkN}
	sort.Slice(e.IDs, func(i, j int) bool { return e.IDs[i].UID < e.IDs[j].UID })
	s.el = append(s.el, e)
	s.mode, s.ent, s.cur = "start", KEnt{}, kcur{}
}
func (s *kstate) closeSub() {
	if s.cur.sig == "" {
		s.fail("struct")
		return
	}
	s.ent.Subs = append(append([]KSub{}, s.ent.Subs...), KSub{s.cur.id, s.cur.sig, s.cur.priv})
	s.mode, s.cur = "main", kcur{}
}
func (s *kstate) closeUID() { s.syncID(); s.mode, s.cur = "main", kcur{} }

func (s *kstate) dispatch(t KTok) {
	pe := parseErr(t)
	switch s.mode {
	case "dead":
	case "start":
		switch {
		case pe == "other":
			s.die("other")
		case pe != "none":
			s.fail(pe)
		case isPrimaryPkt(t) || isSubPkt(t):
			k, n := keyOf(t)
			if canSign(k, n) {
				s.mode, s.ent = "main", KEnt{pkK: k, pkN: n, Priv: t.K == "KS" || t.K == "SS"}
			} else {
				s.fail("struct")
			}
		default:
			s.fail("struct")
		}
	case "skip":
		switch {
		case pe == "unsup":
		case pe != "none":
			s.die(pe)
		case t.K == "K" || t.K == "KE":
			s.mode = "start"
			s.dispatch(t)
		}
	case "main":
		switch {
		case pe == "other":
			s.die("other")
		case pe != "none":
			s.fail(pe)
		case t.K == "U":
			s.mode, s.cur = "uid", kcur{id: t.B}
		case t.K == "R":
			s.ent.revs = append(append([]int{}, s.ent.revs...), t.A)
		case isPrimaryPkt(t):
			s.finishEntity()
			s.dispatch(t)
		case isSubPkt(t):
			s.mode, s.cur = "sub", kcur{id: t.B, priv: t.K == "SS"}
		}
	case "uid":
		switch {
		case pe == "other":
			s.die("other")
		case pe != "none":
			s.fail(pe)
		case !isSig(t):
			s.closeUID()
			s.dispatch(t)
		case (t.K == "C" || t.K == "G") && s.ent.pkK == "K" && s.ent.pkN == t.A:
			if t.B == s.cur.id {
				s.cur.added, s.cur.self = true, t.K
				s.syncID()
			} else {
				s.fail("struct")
			}
		default:
			s.cur.n++
			s.syncID()
		}
	default: // sub
		switch {
		case pe != "none":
			s.fail("struct")
		case !isSig(t):
			s.closeSub()
			s.dispatch(t)
		case t.K != "B" && t.K != "BN" && t.K != "V":
			s.fail("struct")
		case !(s.ent.pkK == "K" && s.ent.pkN == t.A && t.B == s.cur.id):
			s.fail("struct")
		case t.K == "V" || s.cur.sig == "":
			s.cur.sig = t.K
		case s.cur.sig == "B" && t.K == "BN":
			s.cur.sig = "BN"
		}
	}
}

// RefKeyring is PGPFramingKeyring!Result over the fold of Step.
func RefKeyring(toks []KTok) KRes {
	s := &kstate{mode: "start", lastErr: "none", err: "none"}
	for _, t := range toks {
		if t.K == "X" {
			continue
		}
		s.dispatch(t)
	}
	switch s.mode {
	case "main":
		s.finishEntity()
	case "uid":
		s.closeUID()
		s.finishEntity()
	case "sub":
		s.closeSub()
		if s.mode == "main" {
			s.finishEntity()
		}
	}
	if s.mode == "dead" {
		return KRes{nil, s.err}
	}
	if len(s.el) == 0 {
		return KRes{nil, s.lastErr}
	}
	return KRes{s.el, "none"}
}
