package x03

import (
	"bytes"
	"compress/flate"
	"crypto"
	_ "crypto/sha256"
	"encoding/json"
	"fmt"
	"io"
	"os"
	"reflect"
	"sort"
	"strconv"
	"strings"
	"sync"
	"testing"
	"testing/iotest"

	"golang.org/x/crypto/openpgp"
	pgperrors "golang.org/x/crypto/openpgp/errors"
	"golang.org/x/crypto/openpgp/packet"

	"verif/harness/pgpkit"
	"verif/harness/vutil"
)

// ---------------------------------------------------------------- shared helpers

// seg is a wire segment as TLC prints it: {"h":[octets]} or {"d":[from, n]}.
type seg struct {
	H []int `json:"h"`
	D []int `json:"d"`
}

func materialise(segs []seg, data func(from, n int) []byte) []byte {
	var w []byte
	for _, s := range segs {
		if s.D != nil {
			w = append(w, data(s.D[0], s.D[1])...)
		} else {
			for _, b := range s.H {
				w = append(w, byte(b))
			}
		}
	}
	return w
}

func ints(b []byte) []int {
	o := make([]int, len(b))
	for i, x := range b {
		o[i] = int(x)
	}
	return o
}
func bytesOf(v []int) []byte {
	o := make([]byte, len(v))
	for i, x := range v {
		o[i] = byte(x)
	}
	return o
}

func errClass(err error) string {
	switch err.(type) {
	case nil:
		return "ok"
	case pgperrors.StructuralError:
		return "structural"
	case pgperrors.UnsupportedError:
		return "unsupported"
	case pgperrors.UnknownPacketTypeError:
		return "unknown"
	}
	switch err {
	case io.EOF:
		return "eof"
	case io.ErrUnexpectedEOF:
		return "uneof"
	}
	return "other:" + err.Error()
}

// countReader counts the octets handed to the packet code.
type countReader struct {
	r io.Reader
	n int
}

func (c *countReader) Read(p []byte) (int, error) {
	n, err := c.r.Read(p)
	c.n += n
	return n, err
}

// the ways an io.Reader may deliver its input
type style struct {
	name     string
	withData bool // reports io.EOF together with the last octets
	mk       func([]byte) io.Reader
}

var styles = []style{
	{"bytes", false, func(b []byte) io.Reader { return bytes.NewReader(b) }},
	{"onebyte", false, func(b []byte) io.Reader { return iotest.OneByteReader(bytes.NewReader(b)) }},
	{"half", false, func(b []byte) io.Reader { return iotest.HalfReader(bytes.NewReader(b)) }},
	{"dataerr", true, func(b []byte) io.Reader { return iotest.DataErrReader(bytes.NewReader(b)) }},
	{"dataerr-onebyte", true, func(b []byte) io.Reader { return iotest.DataErrReader(iotest.OneByteReader(bytes.NewReader(b))) }},
}

// stylesFor: megabyte inputs are not fed octet by octet
func stylesFor(n int) []style {
	if n > 200000 {
		return []style{styles[0], styles[3]}
	}
	return styles
}

const sigSilentEOF = "x03-partial-reader:io.EOF-on-truncated-stream:underlying-reader-returns-data-with-EOF"
const sigAfterCompressed = "x03-compressed:packet-after-partial-length-compressed-packet:final-length-octet-left-unread"

// readSched reads r to its end with the given cycle of buffer sizes.
func readSched(r io.Reader, sizes []int) ([]byte, error) {
	var out []byte
	bufs := make([][]byte, len(sizes))
	for i := range bufs {
		bufs[i] = make([]byte, sizes[i])
	}
	for i := 0; ; i++ {
		buf := bufs[i%len(sizes)]
		n, err := r.Read(buf)
		out = append(out, buf[:n]...)
		if err != nil {
			if err == io.EOF {
				err = nil
			}
			return out, err
		}
		if i > 1<<26 {
			return out, fmt.Errorf("no progress")
		}
	}
}

var schedules = [][]int{{1}, {3}, {7, 512}, {4096}, {2, 1 << 16}}

// viol records a violation, at most three per signature (vutil keeps 50 in total: a signature that occurs thousands of
// times must not crowd out the others).
var violCount = map[string]int{}

func viol(out *vutil.Out, sig, what string, detail any) {
	violCount[sig]++
	if violCount[sig] <= 3 {
		out.Violation(sig, what, detail)
	}
}

func guard(out *vutil.Out, t *testing.T, what string, detail any, f func()) {
	defer func() {
		if r := recover(); r != nil {
			viol(out, "x03-panic:"+what, fmt.Sprintf("panic in %s: %v", what, r), detail)
			t.Errorf("panic in %s: %v", what, r)
		}
	}()
	f()
}

// ---------------------------------------------------------------- (a) header codec, crafted inputs, subpackets

type resJ struct {
	St   string `json:"st"`
	Tag  int    `json:"tag"`
	Fmt  string `json:"fmt"`
	Lenw []int  `json:"lenw"`
	Body []seg  `json:"body"`
	Used int    `json:"used"`
}
type codecCase struct {
	K    string `json:"k"`
	Tag  int    `json:"tag"`
	N    int    `json:"n"`
	Hdr  []int  `json:"hdr"`
	Seed int    `json:"seed"`
	Form string `json:"form"`
	Segs []seg  `json:"segs"`
	Runs []struct {
		Cut int    `json:"cut"`
		Res []resJ `json:"res"`
	} `json:"runs"`
	Type int   `json:"type"`
	Body []int `json:"body"`
	Enc  []int `json:"enc"`
	Raw  []int `json:"raw"`
	Res  *struct {
		OK   bool  `json:"ok"`
		Subs []Sub `json:"subs"`
	} `json:"res"`
}

// realParseAll drives the real OpaqueReader over w until the first error.
func realParseAll(r io.Reader) (out []Res, partial bool) {
	cr := &countReader{r: r}
	or := packet.NewOpaqueReader(cr)
	for i := 0; i < 1000; i++ {
		op, err := or.Next()
		st := errClass(err)
		res := Res{St: st, Used: cr.n}
		if op != nil {
			res.Tag, res.Body = int(op.Tag), op.Contents
		}
		out = append(out, res)
		if err != nil {
			return
		}
	}
	return
}

func TestCodec(t *testing.T) {
	out := vutil.NewOut()
	defer out.Write()
	nEnc, nRead, nSub, nRef := 0, 0, 0, 0
	err := vutil.ReadNDJSON(os.Getenv("VERIF_CASES"), func(line []byte) error {
		var c codecCase
		if err := json.Unmarshal(line, &c); err != nil {
			return err
		}
		guard(out, t, "codec:"+c.K, c, func() {
			switch c.K {
			case "enc":
				nEnc++
				out.Case(fmt.Sprintf("enc:%d:%d", c.Tag, c.N))
				want := append(bytesOf(c.Hdr), Pat(c.Seed, 0, c.N)...)
				// the transcription must agree with TLC
				if !bytes.Equal(EncNewHeader(c.Tag, c.N), bytesOf(c.Hdr)) {
					panic(fmt.Sprintf("harness transcription EncNewHeader(%d,%d) differs from TLC", c.Tag, c.N))
				}
				var b bytes.Buffer
				op := &packet.OpaquePacket{Tag: uint8(c.Tag), Contents: Pat(c.Seed, 0, c.N)}
				if err := op.Serialize(&b); err != nil || !bytes.Equal(b.Bytes(), want) {
					viol(out, fmt.Sprintf("x03-serializeHeader:len=%d", c.N), fmt.Sprintf("OpaquePacket{Tag:%d, %d octets}.Serialize wrote header % x, the specification says % x (err %v)",
						c.Tag, c.N, b.Bytes()[:min(len(b.Bytes()), 6)], bytesOf(c.Hdr), err), c)
					t.Errorf("serializeHeader tag %d len %d", c.Tag, c.N)
				}
				if c.Tag == 13 { // a typed packet through the same header writer
					var u bytes.Buffer
					uid := &packet.UserId{Id: string(Pat(c.Seed, 0, c.N))}
					if err := uid.Serialize(&u); err != nil || !bytes.Equal(u.Bytes(), want) {
						viol(out, fmt.Sprintf("x03-serializeHeader:userid:len=%d", c.N), "UserId.Serialize header differs from the specification", c)
						t.Errorf("UserId.Serialize len %d", c.N)
					}
				}
			case "read":
				w := materialise(c.Segs, func(from, n int) []byte { return Pat(c.Seed, from, n) })
				for _, run := range c.Runs {
					in := w[:run.Cut]
					// transcription against TLC
					ref := RefParseAll(in)
					nRef++
					if len(ref) != len(run.Res) {
						panic(fmt.Sprintf("harness transcription ParseAll: %d results, TLC %d (cut %d)", len(ref), len(run.Res), run.Cut))
					}
					for i, r := range ref {
						wb := materialise(run.Res[i].Body, func(from, n int) []byte { return Pat(c.Seed, from, n) })
						if r.St != run.Res[i].St || r.Used != run.Res[i].Used || (r.St != "eof" && r.St != "structural" && (r.Tag != run.Res[i].Tag || !bytes.Equal(r.Body, wb))) {
							panic(fmt.Sprintf("harness transcription ParseAll differs from TLC at result %d (cut %d): %v/%d/%d vs %+v", i, run.Cut, r.St, r.Tag, r.Used, run.Res[i]))
						}
					}
					for _, sty := range stylesFor(len(in)) {
						nRead++
						out.Case(fmt.Sprintf("read:%s:%d:%d:%d:%s", c.Form, c.Tag, c.N, run.Cut, sty.name))
						got, _ := realParseAll(sty.mk(in))
						compareParse(out, t, c, run.Cut, sty.name, sty.withData, ref, got)
					}
					typedReads(out, t, c, run.Cut, in, ref)
				}
			case "sub":
				nSub++
				out.Case(fmt.Sprintf("sub:%d:%d", c.Type, len(c.Body)))
				if !bytes.Equal(append(append(EncSubLen(len(c.Body)+1), byte(c.Type)), bytesOf(c.Body)...), bytesOf(c.Enc)) {
					panic("harness transcription EncSub differs from TLC")
				}
				var b bytes.Buffer
				sp := &packet.OpaqueSubpacket{SubType: uint8(c.Type), Contents: bytesOf(c.Body)}
				if err := sp.Serialize(&b); err != nil || !bytes.Equal(b.Bytes(), bytesOf(c.Enc)) {
					viol(out, fmt.Sprintf("x03-subpacket-length:len=%d", len(c.Body)+1), "OpaqueSubpacket.Serialize differs from the specification", c)
					t.Errorf("subpacket serialize %d", len(c.Body))
				}
				subs, err := packet.OpaqueSubpackets(append(bytesOf(c.Enc), 3, 3, 1, 2))
				if err != nil || len(subs) != 2 || subs[0].SubType != uint8(c.Type) || !bytes.Equal(subs[0].Contents, bytesOf(c.Body)) || subs[1].SubType != 3 {
					viol(out, fmt.Sprintf("x03-subpacket-parse:len=%d", len(c.Body)+1), fmt.Sprintf("OpaqueSubpackets does not read back a serialized subpacket (err %v)", err), c)
					t.Errorf("subpacket parse %d", len(c.Body))
				}
			case "subraw":
				nSub++
				out.Case("subraw:" + fmt.Sprint(c.Raw))
				ok, rs := RefSubParse(bytesOf(c.Raw))
				if ok != c.Res.OK || len(rs) != len(c.Res.Subs) {
					panic("harness transcription SubParse differs from TLC")
				}
				subs, err := packet.OpaqueSubpackets(bytesOf(c.Raw))
				same := (err == nil) == c.Res.OK && len(subs) == len(c.Res.Subs)
				if same {
					for i, s := range subs {
						if int(s.SubType) != c.Res.Subs[i].Type || !reflect.DeepEqual(ints(s.Contents), append([]int{}, c.Res.Subs[i].Body...)) {
							same = false
						}
					}
				}
				if !same {
					viol(out, "x03-subpacket-parse:"+fmt.Sprint(c.Raw), fmt.Sprintf("OpaqueSubpackets(% x): %d subpackets, err %v; the specification says %d, ok=%v", bytesOf(c.Raw), len(subs), err, len(c.Res.Subs), c.Res.OK), c)
					t.Errorf("subraw %v", c.Raw)
				}
			}
		})
		return nil
	})
	if err != nil {
		t.Fatal(err)
	}
	// bulk: the transcription (now validated on the TLC vectors) against the real header writer and reader
	rng := vutil.Rand(303)
	lens := []int{}
	for n := 0; n <= 9000; n++ {
		lens = append(lens, n)
	}
	for i := 0; i < 300; i++ {
		lens = append(lens, 9000+rng.Intn(1<<17))
	}
	if vutil.Thorough() {
		for i := 0; i < 40; i++ {
			lens = append(lens, rng.Intn(1<<24))
		}
	}
	bulk := 0
	for _, n := range lens {
		tag := 1 + rng.Intn(63)
		body := Pat(11, n, n)
		var b bytes.Buffer
		(&packet.OpaquePacket{Tag: uint8(tag), Contents: body}).Serialize(&b)
		want := append(EncNewHeader(tag, n), body...)
		bulk++
		if !bytes.Equal(b.Bytes(), want) {
			viol(out, fmt.Sprintf("x03-serializeHeader:len=%d", n), fmt.Sprintf("OpaquePacket.Serialize header % x, specification % x", b.Bytes()[:min(b.Len(), 6)], EncNewHeader(tag, n)), map[string]int{"tag": tag, "n": n})
			t.Errorf("bulk serializeHeader %d", n)
			continue
		}
		in := append(b.Bytes(), 0xCD, 1, 'z')
		cut := len(in)
		if n%3 == 1 {
			cut = rng.Intn(len(in) + 1)
		}
		ref := RefParseAll(in[:cut])
		sty := styles[n%len(styles)]
		got, _ := realParseAll(sty.mk(in[:cut]))
		compareParse(out, t, codecCase{K: "bulk", Form: "new", Tag: tag, N: n}, cut, sty.name, sty.withData, ref, got)
	}
	out.Extra["x03_codec_enc"] = nEnc
	out.Extra["x03_codec_reads"] = nRead
	out.Extra["x03_codec_sub"] = nSub
	out.Extra["x03_codec_bulk"] = bulk
	out.Extra["x03_transcription_vectors_codec"] = nRef + nEnc + nSub
	out.Sample(map[string]any{"codec": "enc/read/sub cases", "enc": nEnc, "reads": nRead, "bulk": bulk})
}

// compareParse judges the real OpaqueReader results against the specification's.
func compareParse(out *vutil.Out, t *testing.T, c codecCase, cut int, sty string, withData bool, want, got []Res) {
	detail := map[string]any{"case": c, "cut": cut, "style": sty}
	for i := range want {
		if i >= len(got) {
			viol(out, "x03-read:missing-result", fmt.Sprintf("%s tag %d n %d cut %d (%s): the real reader stopped after %d results, expected %d", c.Form, c.Tag, c.N, cut, sty, len(got), len(want)), detail)
			t.Errorf("read %s %d cut %d", c.Form, c.N, cut)
			return
		}
		w, g := want[i], got[i]
		bad := w.St != g.St
		if !bad && w.St == "ok" {
			bad = w.Tag != g.Tag || !bytes.Equal(w.Body, g.Body) || w.Used != g.Used
		}
		if !bad && w.St == "structural" {
			bad = w.Used != g.Used
		}
		if bad {
			sig := fmt.Sprintf("x03-read:%s:want-%s-got-%s", c.Form, w.St, g.St)
			if w.St == "uneof" && (g.St == "ok" || g.St == "eof") && c.Form == "partial" && withData {
				sig = sigSilentEOF
			}
			detail["want"], detail["got"] = fmt.Sprintf("%s tag %d body %d used %d", w.St, w.Tag, len(w.Body), w.Used), fmt.Sprintf("%s tag %d body %d used %d", g.St, g.Tag, len(g.Body), g.Used)
			viol(out, sig, fmt.Sprintf("OpaqueReader.Next on a %s packet (tag %d, %d octets declared) cut after %d octets, input delivered as %q: got %s (%d body octets, %d consumed), the specification says %s (%d body octets, %d consumed)",
				c.Form, c.Tag, c.N, cut, sty, g.St, len(g.Body), g.Used, w.St, len(w.Body), w.Used), detail)
			t.Errorf("read %s n %d cut %d style %s: got %s want %s", c.Form, c.N, cut, sty, g.St, w.St)
			return
		}
	}
}

// typedReads goes through packet.Read (typed packets): UserId (tag 13), unknown tags and broken packets must be consumed
// whole; LiteralData (tag 11) hands out the body reader, which is read with several buffer-size schedules.
func typedReads(out *vutil.Out, t *testing.T, c codecCase, cut int, in []byte, ref []Res) {
	first := ref[0]
	for si, sty := range stylesFor(len(in)) {
		cr := &countReader{r: sty.mk(in)}
		p, err := packet.Read(cr)
		detail := map[string]any{"case": c, "cut": cut, "style": sty.name}
		switch {
		case first.St == "eof" || first.St == "structural":
			if errClass(err) != first.St {
				viol(out, "x03-Read:"+first.St, fmt.Sprintf("packet.Read: %v, specification: %s", err, first.St), detail)
				t.Errorf("Read %s", first.St)
			}
		case first.Tag == 13:
			out.Case("")
			if first.St == "ok" {
				u, ok := p.(*packet.UserId)
				if err != nil || !ok || u.Id != string(first.Body) || cr.n != first.Used {
					viol(out, "x03-Read:userid", fmt.Sprintf("packet.Read of a complete user id packet (%s, %d octets): err %v, %d octets consumed (packet ends at %d)", c.Form, len(first.Body), err, cr.n, first.Used), detail)
					t.Errorf("Read userid %s %d", c.Form, c.N)
				}
			} else if err == nil || err == io.EOF {
				sig := "x03-Read:userid:truncated-accepted"
				if c.Form == "partial" && sty.withData {
					sig = sigSilentEOF
				}
				viol(out, sig, fmt.Sprintf("packet.Read of a user id packet (%s) cut after %d octets (input as %q) returned err=%v", c.Form, cut, sty.name, err), detail)
				t.Errorf("Read truncated userid accepted %s cut %d", c.Form, cut)
			}
		case first.Tag == 60 || first.Tag == 2 || first.Tag == 0 || first.Tag == 12:
			// "If there is an error parsing a packet, the whole packet is consumed from the input."
			if first.St == "ok" && (err == nil || cr.n != first.Used) {
				viol(out, "x03-Read:not-consumed", fmt.Sprintf("packet.Read of a tag %d packet (%s): err %v, consumed %d of %d octets", first.Tag, c.Form, err, cr.n, first.Used), detail)
				t.Errorf("Read consumed %d want %d", cr.n, first.Used)
			}
			if first.St == "ok" && first.Tag != 2 && errClass(err) != "unknown" {
				viol(out, "x03-Read:unknown-tag", fmt.Sprintf("packet.Read of tag %d: %v, expected UnknownPacketTypeError", first.Tag, err), detail)
				t.Errorf("Read unknown tag %d: %v", first.Tag, err)
			}
		case first.Tag == 11:
			// literal data: format, name length, name, 4 octets of time, then the data
			body := first.Body
			if len(body) < 2 || len(body) < 6+int(body[1]) {
				if err == nil && first.St == "uneof" {
					viol(out, "x03-Read:literal-header-truncated", "packet.Read accepted a literal packet whose header is cut", detail)
					t.Errorf("literal header truncated accepted")
				}
				continue
			}
			l, ok := p.(*packet.LiteralData)
			if err != nil || !ok {
				viol(out, "x03-Read:literal", fmt.Sprintf("packet.Read of a literal packet (%s): %v", c.Form, err), detail)
				t.Errorf("Read literal: %v", err)
				continue
			}
			wantData := body[6+int(body[1]):]
			sched := schedules[(si+cut+c.N)%len(schedules)]
			if len(in) > 200000 {
				sched = schedules[3+(si+cut)%2] // megabyte bodies are not read octet by octet
			}
			data, rerr := readSched(l.Body, sched)
			detail["schedule"] = sched
			out.Case(fmt.Sprintf("lit:%s:%d:%d:%s:%v", c.Form, c.N, cut, sty.name, sched))
			if first.St == "ok" {
				if rerr != nil || !bytes.Equal(data, wantData) || cr.n != first.Used {
					viol(out, "x03-body-reader:"+c.Form, fmt.Sprintf("reading the body of a complete %s literal packet with buffers %v (input as %q): %d octets, err %v, consumed %d; expected %d octets, packet ends at %d",
						c.Form, sched, sty.name, len(data), rerr, cr.n, len(wantData), first.Used), detail)
					t.Errorf("body %s n %d style %s sched %v: %d/%d err %v", c.Form, c.N, sty.name, sched, len(data), len(wantData), rerr)
				}
			} else { // cut inside the packet: never a clean end
				if rerr == nil {
					sig := "x03-body-reader:" + c.Form + ":io.EOF-on-truncated-packet"
					if c.Form == "partial" && sty.withData {
						sig = sigSilentEOF
					}
					viol(out, sig, fmt.Sprintf("the body reader of a %s literal packet cut after %d of %d octets reported a clean io.EOF after %d data octets (buffers %v, input delivered as %q)",
						c.Form, cut, first.Used, len(data), sched, sty.name), detail)
					t.Errorf("silent truncation %s cut %d style %s", c.Form, cut, sty.name)
				} else if rerr != io.ErrUnexpectedEOF {
					viol(out, "x03-body-reader:"+c.Form+":wrong-error", fmt.Sprintf("cut %s literal packet: error %v, expected io.ErrUnexpectedEOF", c.Form, rerr), detail)
					t.Errorf("wrong error %v", rerr)
				} else if !bytes.HasPrefix(wantData, data) {
					viol(out, "x03-body-reader:"+c.Form+":not-a-prefix", "data delivered before the error is not a prefix of the body", detail)
					t.Errorf("not a prefix")
				}
			}
		}
	}
}

// ---------------------------------------------------------------- (b) partial-length writer

type nopWC struct{ *bytes.Buffer }

func (nopWC) Close() error { return nil }

type writerCase struct {
	K     string `json:"k"`
	L     int    `json:"L"`
	Sizes []int  `json:"sizes"`
	Seed  int    `json:"seed"`
	Segs  []seg  `json:"segs"`
	Fixed []seg  `json:"fixed"`
}

const sigShortFirst = "x03-partial-writer:first-partial-chunk<512:stream-shorter-than-512"

// streamData returns the octets that go through the partial-length writer for SerializeLiteral(binary, name of L octets,
// time) followed by the body: 'b', L, name, time(4), body.
func literalStream(seed, L, total int) (name string, tm uint32, all []byte) {
	all = append([]byte{'b', byte(L)}, Pat(seed, 2, 4+L+total)...)
	name = string(all[2 : 2+L])
	tm = uint32(all[2+L])<<24 | uint32(all[3+L])<<16 | uint32(all[4+L])<<8 | uint32(all[5+L])
	return
}

// checkStream judges one stream written by the real partial-length writer at the level of the properties B2/B3.
func checkStream(out *vutil.Out, t *testing.T, what string, tag int, got, data []byte, detail any) {
	rs := RefParseAll(got)
	if len(rs) != 2 || rs[0].St != "ok" || rs[0].Tag != tag || !bytes.Equal(rs[0].Body, data) || rs[0].Used != len(got) || rs[1].St != "eof" {
		st := "?"
		if len(rs) > 0 {
			st = fmt.Sprintf("%s tag %d body %d used %d/%d", rs[0].St, rs[0].Tag, len(rs[0].Body), rs[0].Used, len(got))
		}
		viol(out, "x03-partial-writer:not-one-packet:"+what, fmt.Sprintf("the stream written by %s does not parse as one packet of tag %d with the %d octets written and nothing left over: %s", what, tag, len(data), st), detail)
		t.Errorf("%s: stream is not one packet: %s", what, st)
		return
	}
	if len(got) > 1 && got[1] >= 224 && got[1] < 255 && (1<<(got[1]-224)) < 512 {
		sig := sigShortFirst
		if len(data) >= 512 {
			sig = "x03-partial-writer:first-partial-chunk<512:stream-of-512-or-more"
		}
		viol(out, sig, fmt.Sprintf("%s: %d octets were written; the first partial chunk has %d octets (RFC 4880 4.2.2.4: the first partial length MUST be at least 512 octets)", what, len(data), 1<<(got[1]-224)), detail)
		t.Errorf("%s: first partial chunk %d < 512 (%d octets written)", what, 1<<(got[1]-224), len(data))
	}
}

func runLiteralWriter(out *vutil.Out, t *testing.T, seed, L int, sizes []int, detail any) (got, all []byte, ok bool) {
	total := 0
	for _, k := range sizes {
		total += k
	}
	name, tm, all := literalStream(seed, L, total)
	var buf bytes.Buffer
	w, err := packet.SerializeLiteral(nopWC{&buf}, true, name, tm)
	if err != nil {
		viol(out, "x03-partial-writer:error", fmt.Sprintf("SerializeLiteral: %v", err), detail)
		t.Errorf("SerializeLiteral: %v", err)
		return nil, nil, false
	}
	pos := 6 + L
	for i, k := range sizes {
		n, err := w.Write(all[pos : pos+k])
		if n != k || err != nil {
			viol(out, "x03-partial-writer:write-return", fmt.Sprintf("Write #%d of %d octets returned (%d, %v)", i+1, k, n, err), detail)
			t.Errorf("Write returned %d, %v for %d", n, err, k)
			return nil, nil, false
		}
		pos += k
	}
	if err := w.Close(); err != nil {
		viol(out, "x03-partial-writer:error", fmt.Sprintf("Close: %v", err), detail)
		t.Errorf("Close: %v", err)
		return nil, nil, false
	}
	return buf.Bytes(), all, true
}

func TestWriter(t *testing.T) {
	out := vutil.NewOut()
	defer out.Write()
	exact, fixedForm, other, n := 0, 0, 0, 0
	err := vutil.ReadNDJSON(os.Getenv("VERIF_CASES"), func(line []byte) error {
		var c writerCase
		if err := json.Unmarshal(line, &c); err != nil {
			return err
		}
		if c.K != "writer" {
			return nil
		}
		guard(out, t, "writer", c, func() {
			n++
			out.Case(fmt.Sprintf("w:%d:%v", c.L, c.Sizes))
			writes := append([]int{2, c.L, 4}, c.Sizes...)
			// transcription against TLC
			for _, fx := range []bool{false, true} {
				items, _ := RefWStream(11, writes, fx)
				var flat []seg
				for _, it := range items {
					flat = append(flat, seg{H: ints(it.Hdr)})
					if it.N > 0 {
						flat = append(flat, seg{D: []int{it.From, it.N}})
					}
				}
				want := c.Segs
				if fx {
					want = c.Fixed
				}
				if !sameSegs(flat, want) {
					panic(fmt.Sprintf("harness transcription WStream(fix=%v) differs from TLC for writes %v", fx, writes))
				}
			}
			got, all, ok := runLiteralWriter(out, t, c.Seed, c.L, c.Sizes, c)
			if !ok {
				return
			}
			data := func(from, n int) []byte { return all[from : from+n] }
			switch {
			case bytes.Equal(got, materialise(c.Segs, data)):
				exact++
			case bytes.Equal(got, materialise(c.Fixed, data)):
				fixedForm++
			default:
				other++ // another chunking: judged by the properties only
			}
			checkStream(out, t, "SerializeLiteral", 11, got, all, c)
			// and back through the real reader
			for _, sty := range styles[n%4 : n%4+1] {
				cr := &countReader{r: sty.mk(got)}
				p, err := packet.Read(cr)
				l, isLit := p.(*packet.LiteralData)
				if err != nil || !isLit {
					viol(out, "x03-roundtrip:read", fmt.Sprintf("packet.Read of the written literal packet: %v", err), c)
					t.Errorf("round trip read: %v", err)
					return
				}
				body, rerr := readSched(l.Body, schedules[(n+len(c.Sizes))%len(schedules)])
				if rerr != nil || !bytes.Equal(body, all[6+c.L:]) || l.FileName != string(all[2:2+c.L]) || !l.IsBinary || cr.n != len(got) {
					viol(out, "x03-roundtrip:body", fmt.Sprintf("reader(writer(data)) != data: %d octets back, err %v, %d of %d stream octets consumed (input as %q)", len(body), rerr, cr.n, len(got), sty.name), c)
					t.Errorf("round trip body: %d/%d err %v", len(body), len(all)-6-c.L, rerr)
					return
				}
			}
		})
		return nil
	})
	if err != nil {
		t.Fatal(err)
	}
	// bulk: random write-size sequences, judged by the properties and compared with the (validated) transcription
	rng := vutil.Rand(304)
	bulkN, _ := strconv.Atoi(vutil.Env("VERIF_X03_WBULK", "400"))
	bulk := 0
	for i := 0; i < bulkN; i++ {
		L := []int{0, 1, 9, 255}[rng.Intn(4)]
		var sizes []int
		for j := rng.Intn(7); j >= 0; j-- {
			switch rng.Intn(5) {
			case 0:
				sizes = append(sizes, rng.Intn(4))
			case 1:
				sizes = append(sizes, 480+rng.Intn(64))
			case 2:
				sizes = append(sizes, rng.Intn(700))
			case 3:
				sizes = append(sizes, rng.Intn(20000))
			default:
				sizes = append(sizes, 1<<uint(rng.Intn(18))+rng.Intn(3)-1)
			}
		}
		detail := map[string]any{"L": L, "sizes": sizes, "seed": 12}
		guard(out, t, "writer-bulk", detail, func() {
			got, all, ok := runLiteralWriter(out, t, 12, L, sizes, detail)
			if !ok {
				return
			}
			bulk++
			checkStream(out, t, "SerializeLiteral", 11, got, all, detail)
			items, _ := RefWStream(11, append([]int{2, L, 4}, sizes...), false)
			var want []byte
			for _, it := range items {
				want = append(append(want, it.Hdr...), all[it.From:it.From+it.N]...)
			}
			if bytes.Equal(got, want) {
				exact++
			} else {
				other++
			}
		})
	}
	// the other public entry points that write through the partial-length writer
	wrapped := 0
	key := Pat(9, 0, 16)
	for i := 0; i < bulkN/4+8; i++ {
		var sizes []int
		for j := rng.Intn(4); j >= 0; j-- {
			sizes = append(sizes, []int{0, 1, 200, 470, 489, 490, 491, 512, 513, 3000, 70000}[rng.Intn(11)])
		}
		total := 0
		for _, k := range sizes {
			total += k
		}
		plain := Pat(13, i, total)
		detail := map[string]any{"sizes": sizes, "via": "SerializeSymmetricallyEncrypted/SerializeCompressed"}
		guard(out, t, "writer-wrapped", detail, func() {
			// symmetrically encrypted: version octet, 18 octets of prefix, the data, 22 octets of MDC
			var buf bytes.Buffer
			w, err := packet.SerializeSymmetricallyEncrypted(&buf, packet.CipherAES128, key, nil)
			if err != nil {
				t.Fatalf("SerializeSymmetricallyEncrypted: %v", err)
			}
			pos := 0
			for _, k := range sizes {
				if n, err := w.Write(plain[pos : pos+k]); n != k || err != nil {
					viol(out, "x03-partial-writer:write-return:se", fmt.Sprintf("Write of %d returned (%d, %v)", k, n, err), detail)
					t.Errorf("se write")
				}
				pos += k
			}
			w.Close()
			rs := RefParseAll(buf.Bytes())
			if len(rs) != 2 || rs[0].St != "ok" || rs[0].Tag != 18 || len(rs[0].Body) != 1+18+total+22 || rs[0].Used != buf.Len() {
				viol(out, "x03-partial-writer:not-one-packet:se", "the stream written by SerializeSymmetricallyEncrypted is not one tag-18 packet of version+prefix+data+MDC octets", detail)
				t.Errorf("se stream")
			} else {
				checkStream(out, t, "SerializeSymmetricallyEncrypted", 18, buf.Bytes(), rs[0].Body, detail)
			}
			p, err := packet.Read(bytes.NewReader(buf.Bytes()))
			se, ok := p.(*packet.SymmetricallyEncrypted)
			if err != nil || !ok {
				t.Errorf("se read: %v", err)
				return
			}
			rc, err := se.Decrypt(packet.CipherAES128, key)
			if err != nil {
				t.Errorf("se decrypt: %v", err)
				return
			}
			back, rerr := io.ReadAll(rc)
			cerr := rc.Close()
			if rerr != nil || cerr != nil || !bytes.Equal(back, plain) {
				viol(out, "x03-roundtrip:se", fmt.Sprintf("symmetrically encrypted round trip: %d/%d octets, read err %v, MDC %v", len(back), len(plain), rerr, cerr), detail)
				t.Errorf("se round trip")
			}
			// compressed: algorithm octet, then the deflate stream
			var cb bytes.Buffer
			cw, err := packet.SerializeCompressed(nopWC{&cb}, packet.CompressionZIP, &packet.CompressionConfig{Level: i % 3})
			if err != nil {
				t.Fatalf("SerializeCompressed: %v", err)
			}
			pos = 0
			for _, k := range sizes {
				cw.Write(plain[pos : pos+k])
				pos += k
			}
			cw.Close()
			rs = RefParseAll(cb.Bytes())
			if len(rs) != 2 || rs[0].St != "ok" || rs[0].Tag != 8 || rs[0].Used != cb.Len() || len(rs[0].Body) < 1 || rs[0].Body[0] != 1 {
				viol(out, "x03-partial-writer:not-one-packet:compressed", "the stream written by SerializeCompressed is not one tag-8 packet", detail)
				t.Errorf("compressed stream")
				return
			}
			checkStream(out, t, "SerializeCompressed", 8, cb.Bytes(), rs[0].Body, detail)
			inflated, ierr := io.ReadAll(flate.NewReader(bytes.NewReader(rs[0].Body[1:])))
			p, err = packet.Read(bytes.NewReader(cb.Bytes()))
			cp, ok := p.(*packet.Compressed)
			if err != nil || !ok || ierr != nil || !bytes.Equal(inflated, plain) {
				viol(out, "x03-roundtrip:compressed", fmt.Sprintf("compressed packet: read %v, inflate %v", err, ierr), detail)
				t.Errorf("compressed read")
				return
			}
			back, rerr = io.ReadAll(cp.Body)
			if rerr != nil || !bytes.Equal(back, plain) {
				viol(out, "x03-roundtrip:compressed", fmt.Sprintf("compressed round trip: %d/%d octets, err %v", len(back), len(plain), rerr), detail)
				t.Errorf("compressed round trip")
			}
			wrapped++
		})
	}
	out.Extra["x03_writer_cases"] = n
	out.Extra["x03_writer_bulk"] = bulk
	out.Extra["x03_writer_wrapped"] = wrapped
	out.Extra["x03_writer_chunking_as_model"] = exact
	out.Extra["x03_writer_chunking_as_repaired_model"] = fixedForm
	out.Extra["x03_writer_chunking_other"] = other
	out.Extra["x03_transcription_vectors_writer"] = 2 * n
	out.Sample(map[string]any{"writer": "SerializeLiteral + writes + Close", "cases": n, "bulk": bulk, "exact_chunking": exact})
}

func sameSegs(a, b []seg) bool {
	// TLC keeps adjacent header segments apart exactly as the writer emits them; compare octet-wise on a fixed pattern
	d := func(from, n int) []byte { return Pat(5, from, n) }
	return bytes.Equal(materialise(a, d), materialise(b, d))
}

// ---------------------------------------------------------------- realistic route of the silent-EOF finding

// TestScenarios: the two reader findings (X03-R1, since repaired: regression guard; X03-C1) on routes through the public
// message API.
// (1) a Compressed packet (deflate) whose content is a partial-length literal packet that stops at a chunk boundary:
// compress/flate delivers its last octets together with io.EOF.
// (2) one-pass signature, compressed literal, signature (RFC 4880 11.3), the compressed packet written by
// SerializeCompressed: the signature packet follows a partial-length compressed packet.
func TestScenarios(t *testing.T) {
	out := vutil.NewOut()
	defer out.Write()
	signedCompressed(out, t)
	for _, k := range []uint{3, 9, 12} {
		body := Pat(21, 0, (1<<k)-6)
		inner := append([]byte{0xC0 | 11, byte(224 + k), 'b', 0, 0, 0, 0, 0}, body...) // one partial chunk, no further length
		for _, complete := range []bool{true, false} {
			in := inner
			if complete {
				in = append(append([]byte{}, inner...), 0) // final zero length
			}
			var z bytes.Buffer
			fw, _ := flate.NewWriter(&z, 6)
			fw.Write(in)
			fw.Close()
			var msg bytes.Buffer
			(&packet.OpaquePacket{Tag: 8, Contents: append([]byte{1}, z.Bytes()...)}).Serialize(&msg)
			detail := map[string]any{"chunk": 1 << k, "complete": complete}
			guard(out, t, "compressed-truncation", detail, func() {
				out.Case(fmt.Sprintf("ctrunc:%d:%v", k, complete))
				md, err := openpgp.ReadMessage(bytes.NewReader(msg.Bytes()), openpgp.EntityList{}, nil, nil)
				if err != nil {
					if complete {
						viol(out, "x03-readmessage:compressed-literal", fmt.Sprintf("ReadMessage of compressed{literal}: %v", err), detail)
						t.Errorf("ReadMessage: %v", err)
					}
					return
				}
				data, rerr := io.ReadAll(md.UnverifiedBody)
				if complete {
					if rerr != nil || !bytes.Equal(data, body) {
						viol(out, "x03-readmessage:compressed-literal", fmt.Sprintf("complete message: %d octets, err %v", len(data), rerr), detail)
						t.Errorf("complete message: %v", rerr)
					}
				} else if rerr == nil {
					viol(out, sigSilentEOF, fmt.Sprintf("openpgp.ReadMessage on compressed{literal with one partial chunk of %d octets and no final length}: UnverifiedBody ended with a clean io.EOF after %d octets", 1<<k, len(data)), detail)
					t.Errorf("truncated compressed literal read to clean EOF")
				}
			})
		}
	}
}

func signedCompressed(out *vutil.Out, t *testing.T) {
	e, err := pgpkit.New(pgpkit.RSA, crypto.SHA256)
	if err != nil {
		t.Fatalf("pgpkit: %v", err)
	}
	for _, streamed := range []bool{false, true} {
		for _, n := range []int{0, 28, 600, 9000} {
			msg := Pat(23, n, n)
			var b, lit bytes.Buffer
			(&packet.OnePassSignature{SigType: packet.SigTypeBinary, Hash: crypto.SHA256, PubKeyAlgo: e.PrimaryKey.PubKeyAlgo, KeyId: e.PrimaryKey.KeyId, IsLast: true}).Serialize(&b)
			lw, _ := packet.SerializeLiteral(nopWC{&lit}, true, "", 0)
			lw.Write(msg)
			lw.Close()
			var z bytes.Buffer
			cw, _ := packet.SerializeCompressed(nopWC{&z}, packet.CompressionZIP, nil)
			cw.Write(lit.Bytes())
			cw.Close()
			if streamed {
				b.Write(z.Bytes())
			} else {
				(&packet.OpaquePacket{Tag: 8, Contents: RefParsePacket(z.Bytes(), 0).Body}).Serialize(&b)
			}
			sig := &packet.Signature{SigType: packet.SigTypeBinary, PubKeyAlgo: e.PrimaryKey.PubKeyAlgo, Hash: crypto.SHA256, CreationTime: e.PrimaryKey.CreationTime, IssuerKeyId: &e.PrimaryKey.KeyId}
			h := crypto.SHA256.New()
			h.Write(msg)
			if err := sig.Sign(h, e.PrivateKey, nil); err != nil {
				t.Fatalf("sign: %v", err)
			}
			sig.Serialize(&b)
			detail := map[string]any{"compressed_packet": map[bool]string{true: "partial lengths (SerializeCompressed)", false: "definite length"}[streamed], "octets": n}
			guard(out, t, "signed-compressed", detail, func() {
				out.Case(fmt.Sprintf("ops-z-sig:%v:%d", streamed, n))
				md, err := openpgp.ReadMessage(bytes.NewReader(b.Bytes()), openpgp.EntityList{e}, nil, nil)
				if err != nil {
					viol(out, "x03-readmessage:onepass-compressed-signature", fmt.Sprintf("ReadMessage: %v", err), detail)
					t.Errorf("ReadMessage: %v", err)
					return
				}
				data, rerr := io.ReadAll(md.UnverifiedBody)
				if rerr != nil || !bytes.Equal(data, msg) {
					viol(out, "x03-readmessage:onepass-compressed-signature", fmt.Sprintf("body: %d octets, err %v", len(data), rerr), detail)
					t.Errorf("body: %v", rerr)
					return
				}
				if md.SignatureError != nil || md.Signature == nil {
					sig := "x03-readmessage:onepass-compressed-signature"
					if streamed && md.SignatureError != nil && strings.Contains(md.SignatureError.Error(), "tag byte does not have MSB set") {
						sig = sigAfterCompressed
					}
					viol(out, sig, fmt.Sprintf("ReadMessage on one-pass signature, compressed{literal} (%s), signature -- all written by the package, signature valid: SignatureError = %v",
						detail["compressed_packet"], md.SignatureError), detail)
					t.Errorf("valid signature after compressed packet not verified: %v", md.SignatureError)
				}
			})
		}
	}
}

// ---------------------------------------------------------------- (c) packet.Reader

type rop struct {
	Op  string `json:"op"`
	Arg int    `json:"arg"`
	K   string `json:"k"`
	ID  int    `json:"id"`
}
type readerCase struct {
	Hist    []rop `json:"hist"`
	Streams [][]struct {
		K  string `json:"k"`
		ID int    `json:"id"`
	} `json:"streams"`
}

func TestReader(t *testing.T) {
	out := vutil.NewOut()
	defer out.Write()
	var streams [][]struct {
		K  string `json:"k"`
		ID int    `json:"id"`
	}
	built := map[string][]byte{}
	var build func(sid int, streamed bool) []byte
	build = func(sid int, streamed bool) []byte {
		key := fmt.Sprintf("%d/%v", sid, streamed)
		if b, ok := built[key]; ok {
			return b
		}
		var b bytes.Buffer
		for _, tok := range streams[sid-1] {
			switch tok.K {
			case "pkt":
				packet.NewUserId(fmt.Sprintf("p%d", tok.ID), "", "").Serialize(&b)
			case "unk":
				(&packet.OpaquePacket{Tag: 60, Contents: []byte{1, 2, 3}}).Serialize(&b)
			case "bad":
				(&packet.OpaquePacket{Tag: 2, Contents: []byte{9, 1, 2, 3, 4, 5, 6, 7}}).Serialize(&b) // signature packet version 9
			case "cont":
				inner := build(tok.ID, streamed)
				if streamed {
					cw, err := packet.SerializeCompressed(nopWC{&b}, packet.CompressionZIP, nil)
					if err != nil {
						panic(err)
					}
					cw.Write(inner)
					cw.Close()
				} else {
					var z bytes.Buffer
					fw, _ := flate.NewWriter(&z, 6)
					fw.Write(inner)
					fw.Close()
					(&packet.OpaquePacket{Tag: 8, Contents: append([]byte{1}, z.Bytes()...)}).Serialize(&b)
				}
			}
		}
		built[key] = b.Bytes()
		return b.Bytes()
	}
	nh := 0
	maxPushOK := -1
	err := vutil.ReadNDJSON(os.Getenv("VERIF_CASES"), func(line []byte) error {
		var c readerCase
		if err := json.Unmarshal(line, &c); err != nil {
			return err
		}
		if c.Streams != nil {
			streams = c.Streams
			built = map[string][]byte{}
			return nil
		}
		// containers as definite-length compressed packets and as SerializeCompressed writes them (partial lengths)
		variants := []bool{false, true}
		for _, streamed := range variants {
			guard(out, t, "reader", c, func() {
				nh++
				key := make([]string, len(c.Hist))
				for i, o := range c.Hist {
					key[i] = fmt.Sprintf("%s%d", o.Op[:1], o.Arg)
				}
				out.Case("r:" + strings.Join(key, ""))
				r := packet.NewReader(bytes.NewReader(build(1, streamed)))
				real := map[string]packet.Packet{}
				pushes := 0
				for i, o := range c.Hist {
					var gotK string
					gotID := 0
					switch o.Op {
					case "next":
						p, err := r.Next()
						switch {
						case err == io.EOF:
							gotK = "eof"
						case err != nil:
							gotK = "err"
							if cl := errClass(err); cl != "unsupported" && cl != "structural" {
								gotK = "err:" + cl
							}
							if streamed && strings.Contains(err.Error(), "tag byte does not have MSB set") {
								// nothing in these streams starts with an octet below 0x80: the reader is inside a packet
								viol(out, sigAfterCompressed, fmt.Sprintf("packet.Reader history %v: call #%d Next() returned %q after the body of a partial-length compressed packet ended; the specification says %s %d",
									key, i+1, err, o.K, o.ID), map[string]any{"hist": c.Hist, "streams": streams, "at": i, "containers": "partial-length (SerializeCompressed)"})
								t.Errorf("reader history %v call %d: residue of a streamed compressed packet read as a packet header", key, i+1)
								return
							}
						default:
							switch v := p.(type) {
							case *packet.UserId:
								gotK = "pkt"
								fmt.Sscanf(v.Id, "p%d", &gotID)
							case *packet.Compressed:
								gotK, gotID = "cont", o.ID // identity is checked through the packets of its body
							default:
								gotK = fmt.Sprintf("%T", p)
							}
							real[fmt.Sprintf("%s%d", gotK, gotID)] = p
						}
					case "push":
						cp, ok := real[fmt.Sprintf("cont%d", o.Arg)].(*packet.Compressed)
						if !ok {
							panic("harness: push of a container that was not returned")
						}
						err := r.Push(cp.Body)
						gotID = o.Arg
						if err == nil {
							gotK = "ok"
							pushes++
						} else if _, is := err.(pgperrors.StructuralError); is {
							gotK = "toomany"
						} else {
							gotK = "err:" + err.Error()
						}
					case "unread":
						p, ok := real[fmt.Sprintf("%s%d", o.K, o.ID)]
						if !ok {
							panic("harness: unread of a packet that was not returned")
						}
						r.Unread(p)
						gotK, gotID = o.K, o.ID
					}
					if gotK != o.K || gotID != o.ID {
						viol(out, fmt.Sprintf("x03-packet-reader:%s:want-%s-got-%s", o.Op, o.K, gotK),
							fmt.Sprintf("packet.Reader history %v: call #%d %s(%d) gave %s %d, the specification says %s %d", key, i+1, o.Op, o.Arg, gotK, gotID, o.K, o.ID),
							map[string]any{"hist": c.Hist, "streams": streams, "at": i})
						t.Errorf("reader history %v call %d: got %s %d want %s %d", key, i+1, gotK, gotID, o.K, o.ID)
						return
					}
				}
				if c.Hist[len(c.Hist)-1].K == "toomany" {
					maxPushOK = pushes
				}
			})
		}
		return nil
	})
	if err != nil {
		t.Fatal(err)
	}
	// the same limit through ReadMessage: d nested compressed packets around a literal packet
	nested := 0
	if maxPushOK >= 0 {
		for _, d := range []int{1, 2, maxPushOK - 1, maxPushOK, maxPushOK + 1, maxPushOK + 2, maxPushOK + 9} {
			var lit bytes.Buffer
			lw, _ := packet.SerializeLiteral(nopWC{&lit}, true, "", 0)
			lw.Write([]byte("nested"))
			lw.Close()
			msg := lit.Bytes()
			for i := 0; i < d; i++ {
				var z bytes.Buffer
				fw, _ := flate.NewWriter(&z, 6)
				fw.Write(msg)
				fw.Close()
				var b bytes.Buffer
				(&packet.OpaquePacket{Tag: 8, Contents: append([]byte{1}, z.Bytes()...)}).Serialize(&b)
				msg = b.Bytes()
			}
			nested++
			out.Case(fmt.Sprintf("nest:%d", d))
			md, err := openpgp.ReadMessage(bytes.NewReader(msg), openpgp.EntityList{}, nil, nil)
			wantOK := d <= maxPushOK
			var data []byte
			if err == nil {
				data, _ = io.ReadAll(md.UnverifiedBody)
			}
			_, structural := err.(pgperrors.StructuralError)
			if (wantOK && (err != nil || string(data) != "nested")) || (!wantOK && !structural) {
				viol(out, fmt.Sprintf("x03-recursion-limit:depth=%d", d), fmt.Sprintf("ReadMessage on %d nested compressed packets: err %v; the specification (maxReaders) says %v", d, err, map[bool]string{true: "the literal data", false: "StructuralError"}[wantOK]), map[string]int{"depth": d, "limit": maxPushOK})
				t.Errorf("nesting depth %d: %v", d, err)
			}
		}
	}
	out.Extra["x03_reader_histories"] = nh
	out.Extra["x03_reader_nested_messages"] = nested
	out.Extra["x03_reader_push_limit_observed"] = maxPushOK
	out.Sample(map[string]any{"packet.Reader": "Next/Push/Unread histories", "histories": nh, "pushes_allowed": maxPushOK})
}

// ---------------------------------------------------------------- (d) keyring

type keyringCase struct {
	Inp []string `json:"inp"`
	El  []KEnt   `json:"el"`
	Err string   `json:"err"`
	Wf  bool     `json:"wf"`
}

func normEnts(el []KEnt) string {
	var sb strings.Builder
	for _, e := range el {
		ids := append([]KID{}, e.IDs...)
		sort.Slice(ids, func(i, j int) bool { return ids[i].UID < ids[j].UID })
		fmt.Fprintf(&sb, "[%v%v priv=%v ids=%v subs=%v nrev=%d]", e.PK[0], e.PK[1], e.Priv, ids, e.Subs, e.NRev)
	}
	return sb.String()
}

func TestKeyring(t *testing.T) {
	out := vutil.NewOut()
	defer out.Write()
	kit, err := newKeyKit()
	if err != nil {
		if own, ok := err.(*ownPacketError); ok {
			viol(out, "x03-roundtrip:own-packet-not-read:"+own.token, own.what, map[string]string{"token": own.token})
			t.Errorf("%v", err)
			return
		}
		t.Fatalf("building keys: %v", err)
	}
	// the cases are judged by a pool of workers (ReadKeyRing verifies RSA and ECDSA signatures); reporting is serialised
	type job struct {
		names []string
		want  KRes
		src   string
	}
	var mu sync.Mutex
	var wg sync.WaitGroup
	jobs := make(chan job, 256)
	bad := 0
	judge := func(j job) {
		names, want := j.names, j.want
		in := kit.assemble(names)
		var got KRes
		var el openpgp.EntityList
		var rerr error
		panicked := ""
		func() {
			defer func() {
				if r := recover(); r != nil {
					panicked = fmt.Sprint(r)
				}
			}()
			el, rerr = openpgp.ReadKeyRing(bytes.NewReader(in))
			got = kit.observe(el, rerr)
		}()
		unsound := kit.unsound(el)
		mu.Lock()
		defer mu.Unlock()
		out.Case("k:" + strings.Join(names, " "))
		detail := map[string]any{"inp": names, "want": want, "got": got, "source": j.src}
		if panicked != "" {
			viol(out, "x03-panic:ReadKeyRing", fmt.Sprintf("ReadKeyRing(%v) panicked: %s", names, panicked), detail)
			t.Errorf("panic on %v: %s", names, panicked)
			bad++
			return
		}
		// the properties on the real result, independent of the prediction
		if unsound != "" {
			viol(out, "x03-keyring:unsound:"+strings.SplitN(unsound, ":", 2)[0], fmt.Sprintf("ReadKeyRing(%v) returned an entity that violates Sound: %s", names, unsound), detail)
			t.Errorf("unsound entity for %v: %s", names, unsound)
			bad++
		}
		if rerr != nil && len(el) != 0 {
			viol(out, "x03-keyring:error-with-entities", fmt.Sprintf("ReadKeyRing(%v) returned %d entities and error %v", names, len(el), rerr), detail)
			t.Errorf("error with entities for %v", names)
			bad++
		}
		if got.Err != want.Err || normEnts(got.El) != normEnts(want.El) {
			viol(out, fmt.Sprintf("x03-keyring:want-%s/%d-got-%s/%d", want.Err, len(want.El), got.Err, len(got.El)),
				fmt.Sprintf("ReadKeyRing(%v): entities %s error class %s (%v); the specification says %s error class %s", names, normEnts(got.El), got.Err, rerr, normEnts(want.El), want.Err), detail)
			t.Errorf("keyring %v: got %s/%s want %s/%s", names, normEnts(got.El), got.Err, normEnts(want.El), want.Err)
			bad++
		}
	}
	for w := 0; w < 8; w++ {
		wg.Add(1)
		go func() {
			defer wg.Done()
			for j := range jobs {
				judge(j)
			}
		}()
	}
	tooBad := func() bool { mu.Lock(); defer mu.Unlock(); return bad >= 20 }
	nvec, nwf := 0, 0
	var wfSamples [][]string
	err = vutil.ReadNDJSON(os.Getenv("VERIF_CASES"), func(line []byte) error {
		var c keyringCase
		if err := json.Unmarshal(line, &c); err != nil {
			return err
		}
		toks := make([]KTok, len(c.Inp))
		for i, n := range c.Inp {
			toks[i] = ParseTok(n)
			if toks[i].Name() != n {
				panic("harness: token name " + n)
			}
		}
		// transcription against TLC
		ref := RefKeyring(toks)
		if ref.Err != c.Err || normEnts(ref.El) != normEnts(c.El) {
			return fmt.Errorf("harness transcription of the keyring acceptor differs from TLC on %v: %s/%s vs %s/%s", c.Inp, normEnts(ref.El), ref.Err, normEnts(c.El), c.Err)
		}
		nvec++
		if c.Wf {
			nwf++
			if len(wfSamples) < 40 {
				wfSamples = append(wfSamples, c.Inp)
			}
		}
		jobs <- job{c.Inp, KRes{c.El, c.Err}, "TLC"}
		return nil
	})
	if err != nil {
		t.Fatal(err)
	}
	// bulk through the validated transcription: exhaustive over an alphabet up to a length, plus seeded random sequences
	alpha := strings.Fields(vutil.Env("VERIF_X03_KALPHA", "K1 K2 U_1 C11 C21 R1 S_1 B11 V11 X EU KS1"))
	maxLen, _ := strconv.Atoi(vutil.Env("VERIF_X03_KLEN", "4"))
	nrand, _ := strconv.Atoi(vutil.Env("VERIF_X03_KRAND", "20000"))
	bulk := 0
	var rec func(prefix []string)
	rec = func(prefix []string) {
		if len(prefix) > 3 && !tooBad() { // lengths <= 3 over the full alphabet came from TLC
			toks := make([]KTok, len(prefix))
			for i, n := range prefix {
				toks[i] = ParseTok(n)
			}
			bulk++
			jobs <- job{prefix, RefKeyring(toks), "transcription"}
		}
		if len(prefix) == maxLen || (len(prefix) > 0 && prefix[len(prefix)-1] == "T") {
			return
		}
		for _, a := range alpha {
			rec(append(append([]string{}, prefix...), a))
		}
	}
	rec(nil)
	full := strings.Fields("K1 K2 KS1 KE KU S_1 S_2 SS_1 U_1 U_2 C11 C12 C21 G11 Q11 R1 R2 B11 B12 B21 BN11 V11 D1 X A EU EM T")
	rng := vutil.Rand(305)
	for i := 0; i < nrand && !tooBad(); i++ {
		n := 4 + rng.Intn(6)
		var names []string
		// half of the samples start from a well-formed skeleton that is then perturbed, so that deep states are reached
		if i%2 == 0 {
			names = strings.Fields("K1 U_1 C11 S_1 B11 K2 U_1 C21")
			for j := rng.Intn(3); j >= 0; j-- {
				p := rng.Intn(len(names) + 1)
				switch rng.Intn(3) {
				case 0:
					names = append(names[:p:p], append([]string{full[rng.Intn(len(full)-1)]}, names[p:]...)...)
				case 1:
					if p < len(names) {
						names = append(names[:p:p], names[p+1:]...)
					}
				default:
					if p < len(names) {
						names[p] = full[rng.Intn(len(full)-1)]
					}
				}
			}
		} else {
			for j := 0; j < n; j++ {
				names = append(names, full[rng.Intn(len(full)-1)]) // T only as the last packet
			}
			if rng.Intn(10) == 0 {
				names = append(names, "T")
			}
		}
		toks := make([]KTok, len(names))
		for j, nm := range names {
			toks[j] = ParseTok(nm)
		}
		bulk++
		jobs <- job{names, RefKeyring(toks), "transcription"}
	}
	// longer well-formed keyrings (also the ones shown to GnuPG)
	for _, ring := range []string{"K1 U_1 C11 X S_1 B11 K2 U_1 C21", "K1 U_1 C11 Q11 U_2 C12 S_1 BN11 S_2 B12", "KS1 U_1 G11 SS_1 B11", "K1 R1 U_1 C11",
		"K2 U_1 C21 X K1 U_2 C12 D1 S_2 B12 X", "K1 U_1 C11 C21 S_1 B11 BN11", "K1 U_1 C11 S_1 B11 V11 K2 U_1 C21 R2"} {
		names := strings.Fields(ring)
		toks := make([]KTok, len(names))
		for j, nm := range names {
			toks[j] = ParseTok(nm)
		}
		wfSamples = append([][]string{names}, wfSamples...)
		bulk++
		jobs <- job{names, RefKeyring(toks), "transcription"}
	}
	close(jobs)
	wg.Wait()
	// ReadArmoredKeyRing is ReadKeyRing behind armor.Decode
	armored := 0
	for _, names := range wfSamples {
		var a bytes.Buffer
		if err := kit.armor(&a, names); err != nil {
			t.Fatalf("armor: %v", err)
		}
		el, err := openpgp.ReadArmoredKeyRing(bytes.NewReader(a.Bytes()))
		el2, err2 := openpgp.ReadKeyRing(bytes.NewReader(kit.assemble(names)))
		armored++
		if (err == nil) != (err2 == nil) || normEnts(kit.observe(el, err).El) != normEnts(kit.observe(el2, err2).El) {
			viol(out, "x03-keyring:armored-differs", fmt.Sprintf("ReadArmoredKeyRing and ReadKeyRing disagree on %v: %v vs %v", names, err, err2), names)
			t.Errorf("armored differs on %v", names)
		}
	}
	if _, err := openpgp.ReadArmoredKeyRing(strings.NewReader("no armor here")); err == nil {
		viol(out, "x03-keyring:armored-no-armor", "ReadArmoredKeyRing accepted input without armor", nil)
		t.Errorf("no armor accepted")
	}
	// GnuPG as an independent judge of what was accepted (optional)
	if os.Getenv("VERIF_X03_GPG") == "1" {
		kit.gpgJudge(out, t, wfSamples)
	}
	out.Extra["x03_keyring_tlc_vectors"] = nvec
	out.Extra["x03_keyring_wellformed_vectors"] = nwf
	out.Extra["x03_keyring_bulk"] = bulk
	out.Extra["x03_keyring_armored"] = armored
	out.Extra["x03_transcription_vectors_keyring"] = nvec
	out.Sample(map[string]any{"keyring": "token sequences -> real packets -> ReadKeyRing", "tlc_vectors": nvec, "bulk": bulk})
}
