package x03

import (
	"bytes"
	"crypto"
	"crypto/sha256"
	"crypto/sha512"
	"fmt"
	"hash"
	"io"
	"os"
	"strings"
	"testing"
	"time"

	"golang.org/x/crypto/openpgp"
	"golang.org/x/crypto/openpgp/armor"
	pgperrors "golang.org/x/crypto/openpgp/errors"
	"golang.org/x/crypto/openpgp/packet"

	"verif/harness/pgpkit"
	"verif/harness/vutil"
)

// keyKit maps every token of PGPFramingKeyring to a real packet.
//
//	K1 / KS1: RSA-2048 primary key (public / secret packet); K2: ECDSA P-384 primary key
//	S_1 / SS_1: RSA-2048 subkey of the RSA entity; S_2: ElGamal-2048 subkey of the ECDSA entity
//	KE: the ElGamal key in a primary key packet (algorithm cannot sign); KU: key packet with algorithm 99
//	U_1, U_2: user ids; Cab / Gab / Qab: certifications 0x13 / 0x10 / 0x12 by key a over (key a, user id b)
//	Ra: key revocation; Bab / BNab: subkey binding (BN one hour newer); Vab: subkey revocation; Da: direct-key signature
//	X: trust packet (tag 12, unknown to the package); A: user attribute; EU: signature with hash algorithm 99;
//	EM: signature without creation time; T: a user id packet cut short
type keyKit struct {
	pkt     map[string][]byte
	pub     map[int]*packet.PublicKey
	priv    map[int]*packet.PrivateKey
	sub     map[int]*packet.PublicKey
	keyName map[uint64][2]any // key id -> ["K", a] / ["S", b]
	uidNo   map[string]int
	tBind   time.Time
}

type ownPacketError struct{ token, what string }

func (e *ownPacketError) Error() string { return e.what }

func ser(f func(io.Writer) error) []byte {
	var b bytes.Buffer
	if err := f(&b); err != nil {
		panic(err)
	}
	return b.Bytes()
}

func newKeyKit() (*keyKit, error) {
	e1, err := pgpkit.New(pgpkit.RSA, crypto.SHA256)
	if err != nil {
		return nil, err
	}
	e2, err := pgpkit.New(pgpkit.ECDSAP384, 0)
	if err != nil {
		return nil, err
	}
	k := &keyKit{pkt: map[string][]byte{}, pub: map[int]*packet.PublicKey{1: e1.PrimaryKey, 2: e2.PrimaryKey},
		priv: map[int]*packet.PrivateKey{1: e1.PrivateKey, 2: e2.PrivateKey},
		sub:  map[int]*packet.PublicKey{1: e1.Subkeys[0].PublicKey, 2: e2.Subkeys[0].PublicKey},
		keyName: map[uint64][2]any{}, uidNo: map[string]int{}}
	k.keyName[e1.PrimaryKey.KeyId] = [2]any{"K", 1}
	k.keyName[e2.PrimaryKey.KeyId] = [2]any{"K", 2}
	k.keyName[k.sub[1].KeyId] = [2]any{"S", 1}
	k.keyName[k.sub[2].KeyId] = [2]any{"S", 2}
	now := e1.PrimaryKey.CreationTime.Add(time.Minute)
	k.tBind = now
	hashOf := map[int]crypto.Hash{1: crypto.SHA256, 2: crypto.SHA384}
	cfgOf := func(a int) *packet.Config { return &packet.Config{DefaultHash: hashOf[a]} }
	newSig := func(a int, typ packet.SignatureType, at time.Time) *packet.Signature {
		return &packet.Signature{CreationTime: at, SigType: typ, PubKeyAlgo: k.pub[a].PubKeyAlgo, Hash: hashOf[a], IssuerKeyId: &k.pub[a].KeyId}
	}
	k.pkt["K1"] = ser(e1.PrimaryKey.Serialize)
	k.pkt["K2"] = ser(e2.PrimaryKey.Serialize)
	k.pkt["KS1"] = ser(e1.PrivateKey.Serialize)
	k.pkt["S_1"] = ser(k.sub[1].Serialize)
	k.pkt["S_2"] = ser(k.sub[2].Serialize)
	k.pkt["SS_1"] = ser(e1.Subkeys[0].PrivateKey.Serialize)
	elg := *k.sub[2]
	elg.IsSubkey = false
	k.pkt["KE"] = ser(elg.Serialize)
	k.keyName[elg.KeyId] = [2]any{"S", 2}
	k.pkt["KU"] = ser((&packet.OpaquePacket{Tag: 6, Contents: []byte{4, 0, 0, 0, 1, 99, 0, 8, 0xff}}).Serialize)
	uids := map[int]*packet.UserId{}
	for b := 1; b <= 2; b++ {
		uids[b] = packet.NewUserId(fmt.Sprintf("user%d", b), "", fmt.Sprintf("u%d@verif.invalid", b))
		k.uidNo[uids[b].Id] = b
		k.pkt[fmt.Sprintf("U_%d", b)] = ser(uids[b].Serialize)
	}
	cert := func(name string, typ packet.SignatureType, a, b int) error {
		s := newSig(a, typ, now)
		if typ == packet.SigTypePositiveCert {
			s.FlagsValid, s.FlagSign, s.FlagCertify = true, true, true
		}
		if err := s.SignUserId(uids[b].Id, k.pub[a], k.priv[a], cfgOf(a)); err != nil {
			return err
		}
		k.pkt[name] = ser(s.Serialize)
		return nil
	}
	for _, c := range []struct {
		n    string
		t    packet.SignatureType
		a, b int
	}{{"C11", packet.SigTypePositiveCert, 1, 1}, {"C12", packet.SigTypePositiveCert, 1, 2}, {"C21", packet.SigTypePositiveCert, 2, 1},
		{"G11", packet.SigTypeGenericCert, 1, 1}, {"Q11", packet.SigTypeCasualCert, 1, 1}} {
		if err := cert(c.n, c.t, c.a, c.b); err != nil {
			return nil, err
		}
	}
	// signatures over the key alone (RFC 4880 5.2.4): 0x99, two octets of length, the key packet body
	keyHash := func(a int) hash.Hash {
		var h hash.Hash = sha256.New()
		if a == 2 {
			h = sha512.New384()
		}
		k.pub[a].SerializeSignaturePrefix(h)
		h.Write(RefParsePacket(ser(k.pub[a].Serialize), 0).Body)
		return h
	}
	for a := 1; a <= 2; a++ {
		s := newSig(a, packet.SigTypeKeyRevocation, now)
		if err := s.Sign(keyHash(a), k.priv[a], cfgOf(a)); err != nil {
			return nil, err
		}
		k.pkt[fmt.Sprintf("R%d", a)] = ser(s.Serialize)
	}
	d := newSig(1, packet.SigTypeDirectSignature, now)
	if err := d.Sign(keyHash(1), k.priv[1], cfgOf(1)); err != nil {
		return nil, err
	}
	k.pkt["D1"] = ser(d.Serialize)
	bind := func(name string, typ packet.SignatureType, a, b int, at time.Time) error {
		s := newSig(a, typ, at)
		if typ == packet.SigTypeSubkeyBinding {
			s.FlagsValid, s.FlagEncryptStorage, s.FlagEncryptCommunications = true, true, true
		}
		if err := s.SignKey(k.sub[b], k.priv[a], cfgOf(a)); err != nil {
			return err
		}
		k.pkt[name] = ser(s.Serialize)
		return nil
	}
	for _, c := range []struct {
		n    string
		t    packet.SignatureType
		a, b int
		at   time.Time
	}{{"B11", packet.SigTypeSubkeyBinding, 1, 1, now}, {"B12", packet.SigTypeSubkeyBinding, 1, 2, now}, {"B21", packet.SigTypeSubkeyBinding, 2, 1, now},
		{"BN11", packet.SigTypeSubkeyBinding, 1, 1, now.Add(time.Hour)}, {"V11", packet.SigTypeSubkeyRevocation, 1, 1, now}} {
		if err := bind(c.n, c.t, c.a, c.b, c.at); err != nil {
			return nil, err
		}
	}
	k.pkt["X"] = ser((&packet.OpaquePacket{Tag: 12, Contents: []byte{1, 2}}).Serialize)
	k.pkt["A"] = ser((&packet.OpaquePacket{Tag: 17, Contents: []byte{2, 1, 0}}).Serialize)
	c11 := RefParsePacket(k.pkt["C11"], 0).Body
	eu := append([]byte{}, c11...)
	eu[3] = 99 // hash algorithm
	k.pkt["EU"] = ser((&packet.OpaquePacket{Tag: 2, Contents: eu}).Serialize)
	k.pkt["EM"] = ser((&packet.OpaquePacket{Tag: 2, Contents: []byte{4, 0x13, 1, 8, 0, 0, 0, 0, 0xAA, 0xBB, 0, 8, 0xFF}}).Serialize)
	k.pkt["T"] = []byte{0xC0 | 13, 10, 'a', 'b', 'c'}
	// self test: every token parses (or fails) the way the specification assumes
	for name, want := range map[string]string{"K1": "ok", "K2": "ok", "KS1": "ok", "KE": "ok", "KU": "unsupported", "S_1": "ok", "S_2": "ok", "SS_1": "ok",
		"U_1": "ok", "C11": "ok", "Q11": "ok", "R1": "ok", "R2": "ok", "B11": "ok", "BN11": "ok", "V11": "ok", "D1": "ok", "X": "unknown", "A": "ok",
		"EU": "unsupported", "EM": "structural", "T": "uneof"} {
		_, err := packet.Read(bytes.NewReader(k.pkt[name]))
		if got := errClass(err); got != want {
			if want == "ok" && !strings.HasPrefix(name, "A") {
				// a packet serialized by the package itself is not read back by it: behaviour of the code under test
				return nil, &ownPacketError{name, fmt.Sprintf("the %s packet (token %s) written by the package's Serialize is not read back by packet.Read: %v", got, name, err)}
			}
			return nil, fmt.Errorf("token %s: packet.Read gives %s (%v), the token table assumes %s", name, got, err, want)
		}
	}
	if k.pub[1].PubKeyAlgo.CanSign() != true || k.pub[2].PubKeyAlgo.CanSign() != true || k.sub[1].PubKeyAlgo.CanSign() != true || k.sub[2].PubKeyAlgo.CanSign() != false {
		return nil, fmt.Errorf("token table: sign-capable keys are not K1, K2, S1")
	}
	return k, nil
}

func (k *keyKit) assemble(names []string) []byte {
	var b []byte
	for _, n := range names {
		p, ok := k.pkt[n]
		if !ok {
			panic("no packet for token " + n)
		}
		b = append(b, p...)
	}
	return b
}

func (k *keyKit) armor(w io.Writer, names []string) error {
	aw, err := armor.Encode(w, openpgp.PublicKeyType, nil)
	if err != nil {
		return err
	}
	aw.Write(k.assemble(names))
	return aw.Close()
}

// observe abstracts the result of ReadKeyRing to the level of the specification.
func (k *keyKit) observe(el openpgp.EntityList, err error) KRes {
	r := KRes{Err: "none"}
	switch err.(type) {
	case nil:
	case pgperrors.UnsupportedError:
		r.Err = "unsup"
	case pgperrors.StructuralError:
		r.Err = "struct"
	default:
		r.Err = "other"
	}
	for _, e := range el {
		ke := KEnt{Priv: e.PrivateKey != nil, NRev: len(e.Revocations)}
		ke.PK = k.keyName[e.PrimaryKey.KeyId]
		for name, id := range e.Identities {
			self := "?"
			if id.SelfSignature != nil {
				switch id.SelfSignature.SigType {
				case packet.SigTypePositiveCert:
					self = "C"
				case packet.SigTypeGenericCert:
					self = "G"
				}
			}
			ke.IDs = append(ke.IDs, KID{k.uidNo[name], self, len(id.Signatures)})
		}
		for _, s := range e.Subkeys {
			ks := KSub{Priv: s.PrivateKey != nil, Sig: "?"}
			if n, ok := k.keyName[s.PublicKey.KeyId]; ok {
				ks.Sub = n[1].(int)
			}
			if s.Sig != nil {
				switch {
				case s.Sig.SigType == packet.SigTypeSubkeyRevocation:
					ks.Sig = "V"
				case s.Sig.SigType == packet.SigTypeSubkeyBinding && s.Sig.CreationTime.After(k.tBind):
					ks.Sig = "BN"
				case s.Sig.SigType == packet.SigTypeSubkeyBinding:
					ks.Sig = "B"
				}
			}
			ke.Subs = append(ke.Subs, ks)
		}
		r.El = append(r.El, ke)
	}
	return r
}

// unsound checks property Sound on the real entities with the real signature verification.
func (k *keyKit) unsound(el openpgp.EntityList) string {
	for _, e := range el {
		if e.PrimaryKey == nil || !e.PrimaryKey.PubKeyAlgo.CanSign() {
			return "primary-cannot-sign: entity whose primary key cannot sign"
		}
		if len(e.Identities) == 0 {
			return "no-identity: entity without identity"
		}
		for name, id := range e.Identities {
			if id.SelfSignature == nil {
				return "identity-without-self-signature: " + name
			}
			if err := e.PrimaryKey.VerifyUserIdSignature(name, e.PrimaryKey, id.SelfSignature); err != nil {
				return "identity-self-signature-invalid: " + name + ": " + err.Error()
			}
		}
		for _, s := range e.Subkeys {
			if s.Sig == nil {
				return "subkey-without-binding-signature: subkey attached without a signature"
			}
			if s.Sig.SigType != packet.SigTypeSubkeyBinding && s.Sig.SigType != packet.SigTypeSubkeyRevocation {
				return "subkey-signature-type: subkey attached with a signature of the wrong type"
			}
			if err := e.PrimaryKey.VerifyKeySignature(s.PublicKey, s.Sig); err != nil {
				return "subkey-binding-invalid: " + err.Error()
			}
		}
		for _, r := range e.Revocations {
			if err := e.PrimaryKey.VerifyRevocationSignature(r); err != nil {
				return "revocation-invalid: " + err.Error()
			}
		}
	}
	return ""
}

// gpgJudge: every component ReadKeyRing accepted from a well-formed keyring is also listed by GnuPG for the same octets.
func (k *keyKit) gpgJudge(out *vutil.Out, t *testing.T, samples [][]string) {
	dir, err := os.MkdirTemp("", "x03g")
	if err != nil {
		return
	}
	defer os.RemoveAll(dir)
	g, err := pgpkit.NewGPG(dir)
	if err != nil || g == nil {
		return
	}
	defer g.Close()
	g.Run(nil, "--trust-model", "pgp", "--list-keys") // creates the trust database (needed to show revoked keys)
	n, agree := 0, 0
	for _, names := range samples {
		if n >= 25 {
			break
		}
		in := k.assemble(names)
		el, rerr := openpgp.ReadKeyRing(bytes.NewReader(in))
		if rerr != nil {
			continue
		}
		so, se, gerr := g.Run(in, "--import-options", "show-only", "--import", "--with-colons")
		n++
		if gerr != nil {
			out.Extra["x03_gpg_note"] = fmt.Sprintf("gpg --import show-only failed on %v: %v %s", names, gerr, strings.TrimSpace(se))
			continue
		}
		ls := string(so)
		ok := true
		for _, e := range el {
			fpr := pgpkit.Fingerprint(e)
			if !strings.Contains(ls, fpr) {
				ok = false
			}
			for name := range e.Identities {
				if !strings.Contains(ls, strings.ReplaceAll(name, ":", "\\x3a")) {
					ok = false
				}
			}
			for _, s := range e.Subkeys {
				if s.Sig.SigType == packet.SigTypeSubkeyBinding && !strings.Contains(ls, strings.ToUpper(fmt.Sprintf("%x", s.PublicKey.Fingerprint[:]))) {
					ok = false
				}
			}
		}
		if ok {
			agree++
		} else {
			out.Extra["x03_gpg_disagreement"] = fmt.Sprintf("keyring %v: gpg lists\n%s", names, ls)
		}
	}
	out.Extra["x03_gpg_keyrings"] = n
	out.Extra["x03_gpg_keyrings_agree"] = agree
}

// TestGPG: GnuPG as an independent judge of the framing (optional; run only when gpg is installed).
//   - literal packets written by the real partial-length writer are read back by gpg;
//   - literal and compressed packets written by gpg (partial lengths for piped input) are read by the real reader and by
//     the specification's decoder.
func TestGPG(t *testing.T) {
	out := vutil.NewOut()
	defer out.Write()
	dir, err := os.MkdirTemp("", "x03f")
	if err != nil {
		t.Skip(err)
	}
	defer os.RemoveAll(dir)
	g, err := pgpkit.NewGPG(dir)
	if err != nil || g == nil {
		out.Extra["x03_gpg_framing"] = "gpg not available"
		return
	}
	defer g.Close()
	toGPG, fromGPG := 0, 0
	for _, sizes := range [][]int{{}, {0}, {5}, {505}, {506}, {507}, {600}, {8191, 1}, {3, 70000}, {100000}} {
		got, all, ok := runLiteralWriter(out, t, 12, 0, sizes, sizes)
		if !ok {
			continue
		}
		so, se, err := g.Run(got, "-o", "-", "--decrypt")
		out.Case(fmt.Sprintf("gpg<-go:%v", sizes))
		toGPG++
		if err != nil || !bytes.Equal(so, all[6:]) {
			viol(out, "x03-gpg:rejects-written-literal", fmt.Sprintf("gpg does not read back the literal packet written for sizes %v: %v %s (%d octets out, %d expected)", sizes, err, strings.TrimSpace(se), len(so), len(all)-6),
				map[string]any{"sizes": sizes})
			t.Errorf("gpg read of sizes %v: %v %s", sizes, err, se)
		}
	}
	for i, n := range []int{0, 5, 600, 8191, 8192, 8193, 20000, 100000} {
		data := Pat(14, i, n)
		for _, z := range []string{"0", "6"} {
			so, se, err := g.Run(data, "-z", z, "-o", "-", "--store")
			if err != nil {
				out.Extra["x03_gpg_note"] = fmt.Sprintf("gpg --store failed: %v %s", err, se)
				continue
			}
			fromGPG++
			out.Case(fmt.Sprintf("go<-gpg:%d:z%s", n, z))
			rs := RefParseAll(so)
			wantTag := 11
			if z != "0" {
				wantTag = 8
			}
			if len(rs) != 2 || rs[0].St != "ok" || rs[0].Tag != wantTag || rs[0].Used != len(so) {
				// the specification's decoder and gpg's writer disagree: a defect of the specification, not of the package
				panic(fmt.Sprintf("specification decoder does not accept gpg --store output (n=%d, z=%s): %+v", n, z, rs[0].St))
			}
			md, err := openpgp.ReadMessage(bytes.NewReader(so), openpgp.EntityList{}, nil, nil)
			var back []byte
			var rerr error
			if err == nil {
				back, rerr = io.ReadAll(md.UnverifiedBody)
			}
			if err != nil || rerr != nil || !bytes.Equal(back, data) {
				viol(out, "x03-gpg:written-by-gpg-not-read", fmt.Sprintf("ReadMessage on gpg --store -z %s output of %d octets (framing %s): %v / %v, %d octets back", z, n, rs[0].Fmt, err, rerr, len(back)), map[string]any{"n": n, "z": z})
				t.Errorf("gpg --store n=%d z=%s: %v %v", n, z, err, rerr)
			}
			if rs[0].Fmt == "partial" {
				out.Extra["x03_gpg_partial_streams_read"] = 1 + toInt(out.Extra["x03_gpg_partial_streams_read"])
			}
		}
	}
	out.Extra["x03_gpg_reads_go_literals"] = toGPG
	out.Extra["x03_go_reads_gpg_packets"] = fromGPG
}

func toInt(v any) int {
	if i, ok := v.(int); ok {
		return i
	}
	return 0
}
