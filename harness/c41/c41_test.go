// Binding R for C41 (spec/SSHCert.tla): every case TLC enumerated (field classes of a certificate
// and a CertChecker configuration, with the model's predictions) is materialised as a real
// certificate -- built with Certificate.SignCert, or re-encoded / re-signed at wire level for the
// signed-bytes clause, or issued by ssh-keygen -s -- pushed through ParsePublicKey and the real
// CertChecker.Authenticate / CheckHostKey / CheckCert with a controlled Clock, and the real
// decision is compared with the property's conjunction (prediction "lit") and with the
// transcription of the code (prediction "acc").
package c41

import (
	"bytes"
	"crypto/rand"
	"encoding/base64"
	"encoding/json"
	"errors"
	"fmt"
	"hash/fnv"
	mrand "math/rand"
	"net"
	"os"
	"os/exec"
	"path/filepath"
	"reflect"
	"sort"
	"strings"
	"testing"
	"time"

	"golang.org/x/crypto/ssh"
	"verif/harness/c38lib"
	"verif/harness/vutil"
)

const nowUnix = int64(1700000000)

type ccase struct {
	Use    string   `json:"use"`
	Kind   string   `json:"kind"`
	CType  int      `json:"ctype"`
	Auth   string   `json:"auth"`
	AddrOK bool     `json:"addrOK"`
	PList  []string `json:"plist"`
	Req    string   `json:"req"`
	VA     int      `json:"va"`
	VB     int      `json:"vb"`
	Crit   []string `json:"crit"`
	Supp   []string `json:"supp"`
	Rev    string   `json:"rev"`
	Sig    string   `json:"sig"`
	Enc    string   `json:"enc"`
	Over   string   `json:"over"`
}

type tcase struct {
	C   ccase  `json:"c"`
	Acc bool   `json:"acc"`
	Why string `json:"why"`
	Lit bool   `json:"lit"`
}

func (c ccase) key() string { b, _ := json.Marshal(c); return string(b) }

func hashOf(s string, salt int64) uint64 {
	h := fnv.New64a()
	fmt.Fprintf(h, "%d|%d|%s", vutil.Seed(), salt, s)
	return h.Sum64()
}

// ---------------------------------------------------------------- keys

type caPair struct{ trusted, other *c38lib.Key }

type world struct {
	subjects []*c38lib.Key          // one per key type
	cas      map[string]*caPair     // by CA key type
	caOrder  []string               // weighted rotation of CA types
	trusted  map[string]bool        // marshalled trusted CA keys
	byType   map[string]*c38lib.Key // subject by type
}

func newWorld(t *testing.T) *world {
	w := &world{cas: map[string]*caPair{}, trusted: map[string]bool{}, byType: map[string]*c38lib.Key{}}
	for _, kt := range c38lib.KeyTypes {
		k, err := c38lib.NewKey(kt, 2048)
		if err != nil {
			t.Fatal(err)
		}
		w.subjects = append(w.subjects, k)
		w.byType[kt] = k
		a, err := c38lib.NewKey(kt, 2048)
		if err != nil {
			t.Fatal(err)
		}
		b, err := c38lib.NewKey(kt, 2048)
		if err != nil {
			t.Fatal(err)
		}
		// security-key CAs sign without user presence: CheckCert must not require the UP flag
		// on a CA signature (skKeyWithoutUP), as OpenSSH does not.
		if a.SK != nil {
			a.SK.Flags, b.SK.Flags = 0, 4
		}
		w.cas[kt] = &caPair{a, b}
		w.trusted[string(a.Pub.Marshal())] = true
	}
	// ed25519/ecdsa CAs are cheap; RSA and DSA signing is slow, so they get a smaller share
	for i := 0; i < 5; i++ {
		w.caOrder = append(w.caOrder, ssh.KeyAlgoED25519, ssh.KeyAlgoECDSA256, ssh.KeyAlgoSKED25519)
	}
	w.caOrder = append(w.caOrder, ssh.KeyAlgoECDSA384, ssh.KeyAlgoECDSA521, ssh.KeyAlgoSKECDSA256, ssh.KeyAlgoRSA, ssh.InsecureKeyAlgoDSA)
	return w
}

// ---------------------------------------------------------------- materialisation

func timeValue(class int, variant uint64) uint64 {
	now := uint64(nowUnix)
	switch class {
	case 0:
		return 0
	case 1:
		if variant%2 == 0 {
			return now - 1
		}
		return 1 + (variant>>1)%(now-1)
	case 2:
		return now
	case 3:
		if variant%2 == 0 {
			return now + 1
		}
		return now + 1 + (variant>>1)%(1<<62)
	case 4:
		return 1<<63 - 1
	case 5:
		if variant%2 == 0 {
			return 1 << 63
		}
		return 1<<63 + (variant>>1)%(1<<63-1)
	default:
		return 1<<64 - 1
	}
}

const (
	reqUser  = "alice"
	reqHost  = "host.example.org"
	otherP   = "mallory"
	optFC    = "force-command"
	optSA    = "source-address"
	optZZ    = "zz-unknown@verif.example"
	optZY    = "zy-unknown@verif.example"
	optFD    = "verify-required"
	flagExt  = "permit-pty"
	valueExt = "ext-with-value@verif.example"
)

func (c ccase) principal() string {
	if c.Req == "" {
		return ""
	}
	if c.Use == "host" {
		return reqHost
	}
	return reqUser
}

func (c ccase) principalList() []string {
	var out []string
	for _, p := range c.PList {
		switch p {
		case "p":
			out = append(out, c.principalOrName())
		case "q":
			out = append(out, otherP)
		default:
			out = append(out, "")
		}
	}
	return out
}

// principalOrName: the name that "p" stands for (also when the request uses the empty principal).
func (c ccase) principalOrName() string {
	if c.Use == "host" {
		return reqHost
	}
	return reqUser
}

type meta struct{ user string }

func (m meta) User() string          { return m.user }
func (m meta) SessionID() []byte     { return []byte("session") }
func (m meta) ClientVersion() []byte { return []byte("SSH-2.0-verif") }
func (m meta) ServerVersion() []byte { return []byte("SSH-2.0-verif") }
func (m meta) RemoteAddr() net.Addr  { return &net.TCPAddr{IP: net.IPv4(10, 1, 2, 3), Port: 4000} }
func (m meta) LocalAddr() net.Addr   { return &net.TCPAddr{IP: net.IPv4(10, 1, 2, 4), Port: 22} }

var errFallback = errors.New("verif: fallback rejects")

// built is a materialised case.
type built struct {
	wire    []byte // bytes "received"
	serial  uint64
	caType  string
	subType string
	note    string
	perms   ssh.Permissions
}

func (w *world) pickCA(c ccase, h uint64) string {
	switch c.Enc {
	case "caMpint0":
		if h%2 == 0 {
			return ssh.KeyAlgoRSA
		}
		return ssh.InsecureKeyAlgoDSA
	}
	return w.caOrder[h%uint64(len(w.caOrder))]
}

func (w *world) pickSubject(c ccase, h uint64) *c38lib.Key {
	if c.Enc == "keyMpint0" {
		if h%2 == 0 {
			return w.byType[ssh.KeyAlgoRSA]
		}
		return w.byType[ssh.InsecureKeyAlgoDSA]
	}
	return w.subjects[h%uint64(len(w.subjects))]
}

func otherFormat(caType string, h uint64) string {
	if caType == ssh.KeyAlgoRSA && h%2 == 0 {
		return "" // marker: swap the RSA hash variant
	}
	for i := 0; ; i++ {
		f := c38lib.SigFormats[(h+uint64(i))%uint64(len(c38lib.SigFormats))]
		if f == caType || (caType == ssh.KeyAlgoRSA && strings.HasPrefix(f, "rsa-sha2")) {
			continue
		}
		return f
	}
}

// build materialises the case; variant selects boundary vs in-class random times.
func (w *world) build(c ccase, variant uint64) (*built, error) {
	h := hashOf(c.key(), int64(variant))
	sub := w.pickSubject(c, h>>8)
	b := &built{subType: sub.Type}
	if c.Kind != "cert" {
		b.wire = sub.Pub.Marshal()
		return b, nil
	}
	caType := w.pickCA(c, h>>16)
	b.caType = caType
	pair := w.cas[caType]
	nominal, alt := pair.trusted, pair.other
	if c.Auth == "untrusted" {
		nominal, alt = pair.other, pair.trusted
	}
	signer := nominal
	if c.Sig == "otherkey" {
		signer = alt
	}
	ctype := uint32(c.CType)
	if c.CType == 3 {
		ctype = []uint32{0, 3, 7, 0xffffffff}[(h>>24)%4]
	}
	crit := map[string]string{}
	for _, o := range c.Crit {
		switch o {
		case "fc":
			crit[optFC] = "/bin/true"
		case "sa":
			crit[optSA] = "10.0.0.0/8,192.168.1.1/32"
		case "zz":
			if (h>>28)%2 == 0 {
				crit[optZZ] = "v"
			} else {
				crit[optZZ] = ""
			}
		case "zy":
			crit[optZY] = "w"
		case "fd":
			crit[optFD] = ""
		}
	}
	ext := map[string]string{flagExt: "", valueExt: "some value"}
	if (h>>30)%3 == 0 {
		ext["permit-port-forwarding"] = ""
	}
	b.serial = h >> 3
	cert := &ssh.Certificate{
		Key: sub.Pub, Serial: b.serial, CertType: ctype, KeyId: fmt.Sprintf("kid-%x", h&0xffff),
		ValidPrincipals: c.principalList(),
		ValidAfter:      timeValue(c.VA, variant), ValidBefore: timeValue(c.VB, variant),
		Permissions: ssh.Permissions{CriticalOptions: crit, Extensions: ext},
	}
	if (h>>33)%4 == 0 {
		cert.Reserved = []byte{byte(h >> 40), 0, 0xff}
	}
	b.perms = cert.Permissions
	// the package's own signing path
	if err := cert.SignCert(rand.Reader, signer.Signer); err != nil {
		return nil, fmt.Errorf("SignCert: %w", err)
	}
	if c.Sig == "otherkey" {
		cert.SignatureKey = nominal.Pub
	}
	canon := cert.Marshal()
	cw, err := c38lib.SplitCert(canon)
	if err != nil {
		return nil, fmt.Errorf("split: %w", err)
	}
	if !bytes.Equal(cw.Join(), canon) {
		return nil, errors.New("harness: split/join of the canonical certificate is not the identity")
	}
	// encoding class of the received bytes
	switch c.Enc {
	case "canon":
	case "keyMpint0":
		i := int((h >> 44) % uint64(len(cw.KeyFields)))
		cw.KeyFields[i] = append([]byte{0}, cw.KeyFields[i]...)
		b.note = fmt.Sprintf("leading zero byte in mpint %d of the %s subject key", i, sub.Type)
	case "caMpint0":
		typ, f, _, err := c38lib.SplitKey(cw.SigKey)
		if err != nil {
			return nil, err
		}
		i := int((h >> 44) % uint64(len(f)))
		f[i] = append([]byte{0}, f[i]...)
		cw.SigKey = c38lib.JoinKey(typ, f)
		b.note = fmt.Sprintf("leading zero byte in mpint %d of the %s signature key", i, typ)
	case "optNested":
		tu, err := c38lib.SplitTuples(cw.Ext)
		if err != nil {
			return nil, err
		}
		for i := range tu {
			if tu[i].Name == flagExt {
				tu[i].Data = []byte{0, 0, 0, 0}
			}
		}
		cw.Ext = c38lib.JoinTuples(tu)
		b.note = "flag extension encoded as a data field holding an empty string (as ssh-keygen -O extension:name= does)"
	case "trailCert":
		cw.Trailing = []byte{0}
	case "trailSig":
		cw.Sig = append(cw.Sig, 0)
	case "trailSigKey":
		cw.SigKey = append(cw.SigKey, 0)
	case "trailPrinc":
		cw.Princ = append(cw.Princ, 0)
	case "trailOpt":
		cw.Ext = append(cw.Ext, 0)
	case "optValTrail":
		tu, err := c38lib.SplitTuples(cw.Ext)
		if err != nil {
			return nil, err
		}
		for i := range tu {
			if tu[i].Name == valueExt {
				tu[i].Data = append(tu[i].Data, 0)
			}
		}
		cw.Ext = c38lib.JoinTuples(tu)
	default:
		return nil, fmt.Errorf("unknown enc class %q", c.Enc)
	}
	if c.Over == "received" && c.Enc != "canon" {
		// the CA signed exactly the bytes that are received
		cw.Sig = nil
		joined := cw.Join()
		prefix := joined[:len(joined)-4-len(cw.Trailing)]
		sig, err := signer.Signer.Sign(rand.Reader, prefix)
		if err != nil {
			return nil, err
		}
		cw.Sig = ssh.Marshal(sig)
	}
	// signature classes (applied to the wire so that they compose with the encoding classes)
	switch c.Sig {
	case "valid", "otherkey":
	case "otherdata":
		switch (h >> 50) % 4 {
		case 0:
			cw.KeyID = append(append([]byte{}, cw.KeyID...), 'x')
		case 1:
			cw.Nonce = append([]byte{}, cw.Nonce...)
			cw.Nonce[int(h>>52)%len(cw.Nonce)] ^= 1 << ((h >> 60) % 8)
		case 2:
			cw.Reserved = append(append([]byte{}, cw.Reserved...), 1)
		default:
			tu, _ := c38lib.SplitTuples(cw.Ext)
			tu = append(tu, c38lib.Tuple{Name: "zzz-added-after-signing@verif.example"})
			cw.Ext = c38lib.JoinTuples(tu)
		}
	case "badformat", "flip":
		r := &c38lib.R{B: cw.Sig}
		format, blob, rest := string(r.Str()), append([]byte{}, r.Str()...), r.B
		if r.Err != nil {
			return nil, r.Err
		}
		if c.Sig == "flip" {
			if len(blob) == 0 {
				return nil, errors.New("empty signature blob")
			}
			blob[int(h>>50)%len(blob)] ^= 1 << ((h >> 60) % 8)
		} else {
			f := otherFormat(caType, h>>50)
			if f == "" {
				f = map[string]string{ssh.KeyAlgoRSASHA512: ssh.KeyAlgoRSASHA256, ssh.KeyAlgoRSASHA256: ssh.KeyAlgoRSASHA512, ssh.KeyAlgoRSA: ssh.KeyAlgoRSASHA256}[format]
			}
			if !strings.HasPrefix(f, "sk-") {
				rest = nil // the flags/counter trailer only exists in security-key signatures
			}
			format = f
		}
		cw.Sig = (&c38lib.W{}).S(format).Str(blob).Raw(rest).B
	default:
		return nil, fmt.Errorf("unknown sig class %q", c.Sig)
	}
	b.wire = cw.Join()
	return b, nil
}

// checker configuration + call; returns accept, reason class, error text
func (w *world) decide(c ccase, b *built) (acc bool, why string, detail string, parsed ssh.PublicKey) {
	pk, err := ssh.ParsePublicKey(b.wire)
	if err != nil {
		return false, "parse", err.Error(), nil
	}
	chk := &ssh.CertChecker{Clock: func() time.Time { return time.Unix(nowUnix, 0) }}
	for _, s := range c.Supp {
		switch s {
		case "fc":
			chk.SupportedCriticalOptions = append(chk.SupportedCriticalOptions, optFC)
		case "fd":
			chk.SupportedCriticalOptions = append(chk.SupportedCriticalOptions, optFD)
		}
	}
	if c.Auth != "nil" {
		chk.IsUserAuthority = func(k ssh.PublicKey) bool { return w.trusted[string(k.Marshal())] }
		chk.IsHostAuthority = func(k ssh.PublicKey, addr string) bool { return w.trusted[string(k.Marshal())] }
	}
	switch c.Rev {
	case "no":
		chk.IsRevoked = func(*ssh.Certificate) bool { return false }
	case "yes":
		chk.IsRevoked = func(x *ssh.Certificate) bool { return x.Serial == b.serial }
	}
	switch c.Kind {
	case "plain-ok":
		chk.UserKeyFallback = func(ssh.ConnMetadata, ssh.PublicKey) (*ssh.Permissions, error) { return &ssh.Permissions{}, nil }
		chk.HostKeyFallback = func(string, net.Addr, ssh.PublicKey) error { return nil }
	case "plain-err":
		chk.UserKeyFallback = func(ssh.ConnMetadata, ssh.PublicKey) (*ssh.Permissions, error) { return nil, errFallback }
		chk.HostKeyFallback = func(string, net.Addr, ssh.PublicKey) error { return errFallback }
	}
	switch c.Use {
	case "auth":
		var perms *ssh.Permissions
		perms, err = chk.Authenticate(meta{c.principal()}, pk)
		if err == nil && c.Kind == "cert" {
			if perms == nil || !reflect.DeepEqual(perms.CriticalOptions, b.perms.CriticalOptions) ||
				(c.Enc == "canon" && c.Sig != "otherdata" && !reflect.DeepEqual(perms.Extensions, b.perms.Extensions)) {
				return true, "ok", "PERMISSIONS-DIFFER", pk
			}
		}
	case "host":
		addr := c.principal()
		if c.AddrOK {
			addr += ":2222"
		}
		err = chk.CheckHostKey(addr, &net.TCPAddr{IP: net.IPv4(10, 9, 9, 9), Port: 2222}, pk)
	default:
		cert, ok := pk.(*ssh.Certificate)
		if !ok {
			return false, "harness", "not a certificate", pk
		}
		err = chk.CheckCert(c.principal(), cert)
	}
	if err == nil {
		return true, "ok", "", pk
	}
	return false, classify(err), err.Error(), pk
}

func classify(err error) string {
	s := err.Error()
	switch {
	case errors.Is(err, errFallback):
		return "fallback"
	case strings.Contains(s, "revoked"):
		return "revoked"
	case strings.Contains(s, "unsupported critical option"):
		return "critical"
	case strings.Contains(s, "not in the set of valid principals"):
		return "principal"
	case strings.Contains(s, "not yet valid"):
		return "notyet"
	case strings.Contains(s, "expired"):
		return "expired"
	case strings.Contains(s, "signature does not verify"):
		return "signature"
	case strings.Contains(s, "has type") || strings.Contains(s, "cert has type"):
		return "type"
	case strings.Contains(s, "Authority not set"):
		return "noauthfn"
	case strings.Contains(s, "unrecognized authority") || strings.Contains(s, "no authorities"):
		return "authority"
	case strings.Contains(s, "normal key pairs not accepted") || strings.Contains(s, "non-certificate host key"):
		return "notcert"
	case strings.Contains(s, "missing port") || strings.Contains(s, "address"):
		return "addr"
	}
	return "other"
}

// judge compares the real decision with the predictions.  The verdict is taken against the
// property's conjunction (lit), and only for byte strings the parser delivers as certificates;
// the code-shaped prediction (acc/why) classifies the difference.
func judge(out *vutil.Out, tc tcase, b *built, acc bool, why, detail string, parsed ssh.PublicKey, origin string) (bad bool) {
	c := tc.C
	det := func() map[string]any {
		return map[string]any{"case": tc, "origin": origin, "real": map[string]any{"accept": acc, "why": why, "error": detail},
			"received_b64": base64.StdEncoding.EncodeToString(b.wire), "ca_type": b.caType, "subject_type": b.subType, "note": b.note}
	}
	if detail == "PERMISSIONS-DIFFER" {
		viol(out, "authenticate-permissions-differ", "Authenticate accepted but did not return the certificate's permissions", det())
		return true
	}
	if c.Kind != "cert" {
		// a plain key: the property speaks about certificates; what is asserted is that a plain key is never
		// accepted unless a configured fallback accepted it (documented API behaviour)
		if acc && c.Kind != "plain-ok" {
			viol(out, "plain-key-accepted-without-fallback", "a key that is not a certificate was accepted although no fallback accepted it", det())
			return true
		}
		if acc != tc.Acc {
			bump(out, "fallback_decision_differs_from_model")
		}
		return false
	}
	if parsed == nil {
		// not a certificate as far as the package is concerned: outside the accept-iff clause.
		if c.Enc == "canon" {
			viol(out, "roundtrip:canonical-certificate-does-not-parse", "ParsePublicKey rejects a certificate produced by SignCert/Marshal: "+detail, det())
			return true
		}
		if tc.Why != "parse" {
			bump(out, "parser_stricter_than_model:"+c.Enc)
		}
		return false
	}
	if tc.Why == "parse" {
		bump(out, "parser_more_tolerant_than_model:"+c.Enc) // verdict still against lit below (lit is false for these)
	}
	if acc == tc.Lit {
		if acc != tc.Acc {
			bump(out, "code_model_drift_towards_property")
		} else if !acc && why != tc.Why {
			bump(out, "reason_differs")
		}
		return false
	}
	// the real decision contradicts the property as stated
	var sig, what string
	switch {
	case c.Enc != "canon" && acc:
		sig = "signed-bytes:" + c.Enc + "-accepted"
		what = "certificate accepted although the received bytes are not the bytes the CA signed (" + b.note + "); bytesForSigning re-marshals the parsed value"
	case c.Enc != "canon" && !acc && c.Over == "received":
		sig = "signed-bytes:noncanonical-signed-as-received-rejected"
		what = "certificate whose CA signature covers exactly the received bytes is rejected (" + why + "): the signature is verified over a re-encoding (" + b.note + ")"
	case c.VB == 5 && !acc:
		sig = "time-window:validbefore-in-[2^63,2^64-2]-rejected"
		what = "certificate with ValidAfter <= now < ValidBefore rejected as expired because ValidBefore >= 2^63 is cast to a negative int64"
	default:
		sig = "cert-decision:" + map[bool]string{true: "accepted", false: "rejected"}[acc] + ":" + why + ":model-" + tc.Why
		what = fmt.Sprintf("%s: real decision accept=%v (%s) but the property's conjunction says accept=%v (code model: %v/%s)", c.Use, acc, why, tc.Lit, tc.Acc, tc.Why)
	}
	viol(out, sig, what, det())
	return true
}

var sigCount = map[string]int{}

// viol records at most 3 violations per signature (vutil.Out keeps 50 in total) and counts all of them.
func viol(out *vutil.Out, sig, what string, detail any) {
	sigCount[sig]++
	out.Extra["violations:"+sig] = sigCount[sig]
	if sigCount[sig] <= 3 {
		out.Violation(sig, what, detail)
	}
}

func bump(out *vutil.Out, k string) {
	n, _ := out.Extra[k].(int)
	out.Extra[k] = n + 1
}

func roundTrip(out *vutil.Out, tc tcase, b *built, parsed ssh.PublicKey, origin string) bool {
	if parsed == nil {
		return true
	}
	re := parsed.Marshal()
	if bytes.Equal(re, b.wire) {
		return true
	}
	if tc.C.Enc != "canon" {
		return true // non-canonical input: the difference is the point of the signed-bytes clause
	}
	viol(out, "roundtrip:"+origin+"-marshal-differs", "ParsePublicKey -> Marshal does not reproduce the certificate bytes",
		map[string]any{"case": tc, "received_b64": base64.StdEncoding.EncodeToString(b.wire), "remarshalled_b64": base64.StdEncoding.EncodeToString(re)})
	return false
}

// TestC41 runs the three parts with one shared world and one result file.
func TestC41(t *testing.T) {
	out := vutil.NewOut()
	defer func() {
		if err := out.Write(); err != nil {
			t.Fatal(err)
		}
	}()
	w := newWorld(t)
	replay(t, out, w)
	randomRoundTrip(t, out, w)
	keygen(t, out, w)
	if !t.Failed() || len(out.Violations) > 0 {
		out.Extra["completed"] = true
	}
}

func replay(t *testing.T, out *vutil.Out, w *world) {
	fails := 0
	err := vutil.ReadNDJSON(vutil.Env("VERIF_CASES", ""), func(line []byte) error {
		var tc tcase
		if err := json.Unmarshal(line, &tc); err != nil {
			return err
		}
		for variant := uint64(0); variant < 2; variant++ {
			if variant == 1 && !(tc.C.VA == 1 || tc.C.VA == 3 || tc.C.VA == 5 || tc.C.VB == 1 || tc.C.VB == 3 || tc.C.VB == 5) {
				continue // the time classes have a single representative
			}
			v := variant
			if v == 1 {
				v = 1 + 2*(hashOf(tc.C.key(), 99)>>8)
			}
			b, err := w.build(tc.C, v)
			if err != nil {
				return fmt.Errorf("materialise %s: %w", line, err)
			}
			acc, why, detail, parsed := w.safeDecide(out, tc, b)
			out.Case(fmt.Sprintf("%s|%d", tc.C.key(), variant))
			bad := judge(out, tc, b, acc, why, detail, parsed, "signcert")
			if tc.C.Kind == "cert" && !roundTrip(out, tc, b, parsed, "signcert") {
				bad = true
			}
			if bad {
				fails++
				if fails <= 10 {
					t.Errorf("case %s variant %d: real accept=%v why=%s (%s); model acc=%v why=%s lit=%v", line, variant, acc, why, detail, tc.Acc, tc.Why, tc.Lit)
				}
			}
		}
		if out.Evaluations%997 == 1 {
			out.Sample(json.RawMessage(append([]byte(nil), line...)))
		}
		return nil
	})
	if err != nil {
		t.Fatal(err)
	}
	if fails > 0 {
		t.Errorf("%d failing cases", fails)
	}
}

// ---------------------------------------------------------------- random field round trip (SignCert)

func randString(r *mrand.Rand, max int) string {
	n := r.Intn(max + 1)
	b := make([]byte, n)
	for i := range b {
		b[i] = byte(r.Intn(256))
	}
	return string(b)
}

func randName(r *mrand.Rand) string {
	const al = "abcdefghijklmnopqrstuvwxyz-@.0123456789"
	n := 1 + r.Intn(12)
	b := make([]byte, n)
	for i := range b {
		b[i] = al[r.Intn(len(al))]
	}
	return string(b)
}

func randTuples(r *mrand.Rand) map[string]string {
	if r.Intn(4) == 0 {
		return nil
	}
	m := map[string]string{}
	for i := r.Intn(5); i > 0; i-- {
		if r.Intn(2) == 0 {
			m[randName(r)] = ""
		} else {
			m[randName(r)] = randString(r, 20) + "x" // non-empty
		}
	}
	return m
}

func normMap(m map[string]string) map[string]string {
	if len(m) == 0 {
		return map[string]string{}
	}
	return m
}

func randomRoundTrip(t *testing.T, out *vutil.Out, w *world) {
	r := vutil.Rand(41)
	n := 250
	if vutil.Thorough() {
		n = 6000
	}
	times := []uint64{0, 1, uint64(nowUnix), 1<<63 - 1, 1 << 63, 1<<64 - 2, 1<<64 - 1}
	for i := 0; i < n; i++ {
		sub := w.subjects[r.Intn(len(w.subjects))]
		caType := w.caOrder[r.Intn(len(w.caOrder))]
		ca := w.cas[caType].trusted
		cert := &ssh.Certificate{Key: sub.Pub, Serial: r.Uint64(), CertType: uint32(r.Intn(4)), KeyId: randString(r, 24)}
		for j := r.Intn(4); j > 0; j-- {
			cert.ValidPrincipals = append(cert.ValidPrincipals, randString(r, 12))
		}
		cert.ValidAfter, cert.ValidBefore = times[r.Intn(len(times))], times[r.Intn(len(times))]
		if r.Intn(2) == 0 {
			cert.ValidAfter, cert.ValidBefore = r.Uint64(), r.Uint64()
		}
		cert.CriticalOptions, cert.Extensions = randTuples(r), randTuples(r)
		if r.Intn(3) == 0 {
			cert.Reserved = []byte(randString(r, 9))
		}
		if err := cert.SignCert(rand.Reader, ca.Signer); err != nil {
			t.Fatalf("SignCert: %v", err)
		}
		wire := cert.Marshal()
		key := fmt.Sprintf("rt|%s|%s|%d|%d|%d", sub.Type, caType, len(cert.ValidPrincipals), len(cert.CriticalOptions), len(cert.Extensions))
		out.Case(key)
		det := map[string]any{"wire_b64": base64.StdEncoding.EncodeToString(wire), "subject": sub.Type, "ca": caType}
		pk, err := ssh.ParsePublicKey(wire)
		if err != nil {
			viol(out, "roundtrip:canonical-certificate-does-not-parse", "ParsePublicKey rejects Marshal() of a certificate signed with SignCert: "+err.Error(), det)
			t.Errorf("parse: %v", err)
			continue
		}
		c2, ok := pk.(*ssh.Certificate)
		if !ok {
			viol(out, "roundtrip:parsed-value-not-a-certificate", "ParsePublicKey returned a non-certificate", det)
			t.Errorf("not a certificate")
			continue
		}
		if !bytes.Equal(c2.Marshal(), wire) {
			viol(out, "roundtrip:signcert-marshal-differs", "ParsePublicKey -> Marshal does not reproduce the bytes of a SignCert certificate", det)
			t.Errorf("marshal differs")
			continue
		}
		same := c2.Serial == cert.Serial && c2.CertType == cert.CertType && c2.KeyId == cert.KeyId &&
			c2.ValidAfter == cert.ValidAfter && c2.ValidBefore == cert.ValidBefore &&
			(len(c2.ValidPrincipals) == len(cert.ValidPrincipals)) && bytes.Equal(c2.Nonce, cert.Nonce) &&
			reflect.DeepEqual(normMap(c2.CriticalOptions), normMap(cert.CriticalOptions)) &&
			reflect.DeepEqual(normMap(c2.Extensions), normMap(cert.Extensions)) && bytes.Equal(c2.Reserved, cert.Reserved) &&
			bytes.Equal(c2.Key.Marshal(), cert.Key.Marshal()) && bytes.Equal(c2.SignatureKey.Marshal(), cert.SignatureKey.Marshal())
		for j := range cert.ValidPrincipals {
			same = same && j < len(c2.ValidPrincipals) && c2.ValidPrincipals[j] == cert.ValidPrincipals[j]
		}
		if !same {
			viol(out, "roundtrip:parsed-fields-differ", "ParsePublicKey(Marshal(cert)) has different field values", det)
			t.Errorf("fields differ")
		}
		// the CA signature must verify on the parsed value (time etc. aside): CheckCert with a matching clock class
		chk := &ssh.CertChecker{Clock: func() time.Time { return time.Unix(nowUnix, 0) }}
		for o := range c2.CriticalOptions {
			chk.SupportedCriticalOptions = append(chk.SupportedCriticalOptions, o)
		}
		err = chk.CheckCert("", c2)
		timeOK := cert.ValidAfter <= uint64(nowUnix) && uint64(nowUnix) < cert.ValidBefore
		princOK := len(cert.ValidPrincipals) == 0
		for _, p := range cert.ValidPrincipals {
			princOK = princOK || p == ""
		}
		want := timeOK && princOK
		if (err == nil) != want {
			if want && cert.ValidBefore >= 1<<63 && cert.ValidBefore != 1<<64-1 {
				viol(out, "time-window:validbefore-in-[2^63,2^64-2]-rejected", "certificate with ValidAfter <= now < ValidBefore rejected as expired because ValidBefore >= 2^63 is cast to a negative int64", det)
			} else {
				det["error"] = fmt.Sprint(err)
				det["want_accept"] = want
				viol(out, "cert-decision:random-fields", "CheckCert decision on a random SignCert certificate differs from the property's conjunction", det)
			}
			t.Errorf("CheckCert=%v want accept=%v", err, want)
		}
		if i < 3 {
			out.Sample(det)
		}
	}
}

// ---------------------------------------------------------------- ssh-keygen -s amplifier

func run(dir string, name string, args ...string) (string, error) {
	cmd := exec.Command(name, args...)
	cmd.Dir = dir
	o, err := cmd.CombinedOutput()
	return string(o), err
}

func keygen(t *testing.T, out *vutil.Out, w *world) {
	if _, err := exec.LookPath("ssh-keygen"); err != nil {
		out.Extra["skipped"] = "ssh-keygen not installed"
		return
	}
	dir := t.TempDir()
	budget := 150
	if vutil.Thorough() {
		budget = 1500
	}
	if v := os.Getenv("VERIF_KEYGEN_N"); v != "" {
		fmt.Sscan(v, &budget)
	}
	eligible := 0
	// CA keys written by ssh-keygen itself; which of them is trusted is decided per case
	type kgCA struct {
		file string
		pub  ssh.PublicKey
	}
	cas := map[string][2]kgCA{}
	for _, spec := range [][]string{{"ed25519"}, {"ecdsa", "-b", "256"}, {"ecdsa", "-b", "521"}, {"rsa", "-b", "2048"}} {
		var pair [2]kgCA
		for i := 0; i < 2; i++ {
			f := filepath.Join(dir, fmt.Sprintf("ca_%s_%d", strings.Join(spec, ""), i))
			args := append([]string{"-q", "-t", spec[0], "-N", "", "-C", "ca", "-f", f}, spec[1:]...)
			if o, err := run(dir, "ssh-keygen", args...); err != nil {
				t.Fatalf("ssh-keygen: %v %s", err, o)
			}
			pb, _ := os.ReadFile(f + ".pub")
			pk, _, _, _, err := ssh.ParseAuthorizedKey(pb)
			if err != nil {
				t.Fatalf("CA public key written by ssh-keygen does not parse: %v", err)
			}
			pair[i] = kgCA{f, pk}
		}
		cas[strings.Join(spec, "")] = pair
		w.trusted[string(pair[0].pub.Marshal())] = true
	}
	caNames := []string{}
	for k := range cas {
		caNames = append(caNames, k)
	}
	sort.Strings(caNames)
	for i, s := range w.subjects {
		if err := os.WriteFile(filepath.Join(dir, fmt.Sprintf("sub%d.pub", i)), ssh.MarshalAuthorizedKey(s.Pub), 0o600); err != nil {
			t.Fatal(err)
		}
	}
	fails, skippedCases, total := 0, 0, 0
	vutil.ReadNDJSON(vutil.Env("VERIF_CASES", ""), func(line []byte) error { total++; return nil })
	err := vutil.ReadNDJSON(vutil.Env("VERIF_CASES", ""), func(line []byte) error {
		var tc tcase
		if err := json.Unmarshal(line, &tc); err != nil {
			return err
		}
		c := tc.C
		if c.Kind != "cert" || c.CType == 3 || c.Enc != "canon" || !(c.Sig == "valid" || c.Sig == "otherdata") {
			skippedCases++
			return nil
		}
		for _, p := range c.PList {
			if p == "" {
				skippedCases++
				return nil
			}
		}
		h := hashOf(c.key(), 7)
		eligible++
		if total > budget && h%uint64(total) >= uint64(budget) {
			return nil // seeded sample of the eligible cases
		}
		si := int(h>>8) % len(w.subjects)
		pair := cas[caNames[int(h>>16)%len(caNames)]]
		ca := pair[0]
		if c.Auth == "untrusted" {
			ca = pair[1]
		}
		variant := 2 * (h >> 20) // boundary representatives
		if (h>>19)%2 == 1 {
			variant++
		}
		serial := h >> 3 & (1<<62 - 1)
		args := []string{"-q", "-s", ca.file, "-I", fmt.Sprintf("kid-%x", h&0xffff), "-z", fmt.Sprint(serial),
			"-V", fmt.Sprintf("0x%x:0x%x", timeValue(c.VA, variant), timeValue(c.VB, variant))}
		if c.VB == 6 {
			va := fmt.Sprintf("0x%x", timeValue(c.VA, variant))
			if c.VA == 0 {
				va = "always"
			}
			args[len(args)-1] = va + ":forever"
		} else if c.VA == 0 {
			args[len(args)-1] = fmt.Sprintf("always:0x%x", timeValue(c.VB, variant))
		}
		if c.CType == 2 {
			args = append(args, "-h")
		}
		if pl := c.principalList(); len(pl) > 0 {
			args = append(args, "-n", strings.Join(pl, ","))
		}
		args = append(args, "-O", "clear", "-O", "permit-pty", "-O", "extension:"+valueExt+"=some value")
		for _, o := range c.Crit {
			switch o {
			case "fc":
				args = append(args, "-O", "force-command=/bin/true")
			case "sa":
				args = append(args, "-O", "source-address=10.0.0.0/8,192.168.1.1/32")
			case "zz":
				args = append(args, "-O", "critical:"+optZZ+"=v")
			case "zy":
				args = append(args, "-O", "critical:"+optZY+"=w")
			case "fd":
				args = append(args, "-O", "verify-required")
			}
		}
		subf := fmt.Sprintf("sub%d.pub", si)
		args = append(args, subf)
		certf := filepath.Join(dir, fmt.Sprintf("sub%d-cert.pub", si))
		os.Remove(certf)
		if o, err := run(dir, "ssh-keygen", args...); err != nil {
			bump(out, "keygen_refused")
			if n, _ := out.Extra["keygen_refused"].(int); n <= 3 {
				out.Extra[fmt.Sprintf("keygen_refused_example_%d", n)] = strings.TrimSpace(o)
			}
			return nil
		}
		line2, err := os.ReadFile(certf)
		if err != nil {
			return err
		}
		f := strings.Fields(string(line2))
		if len(f) < 2 {
			return fmt.Errorf("unexpected certificate file %q", line2)
		}
		wire, err := base64.StdEncoding.DecodeString(f[1])
		if err != nil {
			return err
		}
		b := &built{wire: wire, serial: serial, caType: ca.pub.Type(), subType: w.subjects[si].Type, note: "issued by ssh-keygen -s " + strings.Join(args, " ")}
		b.perms.CriticalOptions = map[string]string{}
		// the authorized_keys form must parse to the same certificate
		pk2, _, _, _, err := ssh.ParseAuthorizedKey(line2)
		if err != nil || !bytes.Equal(pk2.Marshal(), wire) {
			viol(out, "roundtrip:ssh-keygen-cert-line", "certificate line written by ssh-keygen does not parse / re-marshal to its bytes",
				map[string]any{"line": string(line2), "error": fmt.Sprint(err)})
			fails++
		}
		if c.Sig == "otherdata" {
			cw, err := c38lib.SplitCert(wire)
			if err != nil {
				return err
			}
			cw.KeyID = append(append([]byte{}, cw.KeyID...), 'x')
			b.wire = cw.Join()
		}
		cc := c
		var acc bool
		var why, detail string
		var parsed ssh.PublicKey
		for i, n := 0, map[bool]int{false: 1, true: 24}[len(c.Crit) >= 2]; i < n; i++ { // map iteration order, see safeDecide
			if acc, why, detail, parsed = w.decideKeygen(cc, b); acc != tc.Lit {
				break
			}
		}
		out.Case("kg|" + c.key())
		bad := judge(out, tc, b, acc, why, detail, parsed, "ssh-keygen")
		if !roundTrip(out, tc, b, parsed, "ssh-keygen") {
			bad = true
		}
		if bad {
			fails++
			if fails <= 10 {
				t.Errorf("ssh-keygen case %s: real accept=%v why=%s (%s); lit=%v", line, acc, why, detail, tc.Lit)
			}
		}
		return nil
	})
	if err != nil {
		t.Fatal(err)
	}
	// ssh-keygen certificates with an explicitly empty option value (-O extension:name=)
	for _, spec := range []string{"extension:empty-value@verif.example=", "critical:empty-value@verif.example="} {
		certf := filepath.Join(dir, "sub0-cert.pub")
		os.Remove(certf)
		pair := cas[caNames[0]]
		if o, err := run(dir, "ssh-keygen", "-q", "-s", pair[0].file, "-I", "kid", "-n", reqUser, "-O", "clear", "-O", spec, "sub0.pub"); err != nil {
			out.Extra["keygen_empty_value_refused"] = strings.TrimSpace(o)
			continue
		}
		line2, _ := os.ReadFile(certf)
		f := strings.Fields(string(line2))
		wire, _ := base64.StdEncoding.DecodeString(f[1])
		out.Case("kg-empty-value|" + spec)
		det := map[string]any{"ssh_keygen_option": spec, "cert_line": strings.TrimSpace(string(line2))}
		pk, err := ssh.ParsePublicKey(wire)
		okRT := err == nil && bytes.Equal(pk.Marshal(), wire)
		var chkErr error
		if err == nil {
			chk := &ssh.CertChecker{Clock: func() time.Time { return time.Unix(nowUnix, 0) }, SupportedCriticalOptions: []string{"empty-value@verif.example"}}
			chkErr = chk.CheckCert(reqUser, pk.(*ssh.Certificate))
		}
		det["parse_error"], det["checkcert_error"], det["roundtrip_equal"] = fmt.Sprint(err), fmt.Sprint(chkErr), okRT
		if !okRT || chkErr != nil {
			viol(out, "roundtrip:ssh-keygen-explicit-empty-option-value",
				"a certificate issued by ssh-keygen -s with an option given an explicitly empty value (-O "+spec+") does not round-trip byte-for-byte through ParsePublicKey/Marshal and its valid CA signature is rejected", det)
			fails++
		}
	}
	out.Extra["keygen_cases_not_expressible"] = skippedCases
	out.Extra["keygen_cases_eligible"] = eligible
	if fails > 0 {
		t.Errorf("%d failing ssh-keygen cases", fails)
	}
}

// decideKeygen: like decide, but the certificate's permissions come from ssh-keygen.
func (w *world) decideKeygen(c ccase, b *built) (bool, string, string, ssh.PublicKey) {
	acc, why, detail, pk := w.decide(c, b)
	if detail == "PERMISSIONS-DIFFER" {
		// compare against the certificate's own parsed permissions instead of the harness's
		if cert, ok := pk.(*ssh.Certificate); ok {
			chkCrit := map[string]string{}
			for _, o := range c.Crit {
				switch o {
				case "fc":
					chkCrit[optFC] = "/bin/true"
				case "sa":
					chkCrit[optSA] = "10.0.0.0/8,192.168.1.1/32"
				case "zz":
					chkCrit[optZZ] = "v"
				case "zy":
					chkCrit[optZY] = "w"
				case "fd":
					chkCrit[optFD] = ""
				}
			}
			if reflect.DeepEqual(normMap(cert.CriticalOptions), chkCrit) {
				return true, "ok", "", pk
			}
		}
	}
	return acc, why, detail, pk
}

// safeDecide: a panic inside the package is a violation, not a harness failure.
// safeDecide runs the real check; certificates with two or more critical options are checked 24 times, because
// the options live in a Go map whose iteration order changes from call to call: the first call whose decision
// differs from the property's is the one reported.
func (w *world) safeDecide(out *vutil.Out, tc tcase, b *built) (acc bool, why, detail string, parsed ssh.PublicKey) {
	n := 1
	if len(tc.C.Crit) >= 2 {
		n = 24
	}
	for i := 0; i < n; i++ {
		acc, why, detail, parsed = w.safeDecide1(out, tc, b)
		if acc != tc.Lit {
			break
		}
	}
	return
}

func (w *world) safeDecide1(out *vutil.Out, tc tcase, b *built) (acc bool, why, detail string, parsed ssh.PublicKey) {
	defer func() {
		if r := recover(); r != nil {
			viol(out, "panic:certificate-check", fmt.Sprintf("the package panicked while parsing/checking a certificate: %v", r),
				map[string]any{"case": tc, "received_b64": base64.StdEncoding.EncodeToString(b.wire), "panic": fmt.Sprint(r)})
			acc, why, detail, parsed = false, "panic", fmt.Sprint(r), nil
		}
	}()
	return w.decide(tc.C, b)
}
