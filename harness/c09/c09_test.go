// Binding E+R for C09 (Salsa20/XSalsa20 keystream incl. the 64-bit counter carry; assembly = portable;
// HSalsa20 and Core208 equal their definitions).
//
// Input (VERIF_CASES): tables evaluated by TLC from the executable TLA+ definitions spec/PrimSalsa.tla
// (spec/PrimSalsa_Gen.tla): keystream blocks for named start counters (0, around 2^32, around 2^64 with
// wrap, every byte carry), XSalsa20 subkeys and streams, HSalsa20 values, Salsa20/8 cores.
// The real salsa.XORKeyStream (amd64 assembly with tags "verif"; portable with "verif,purego"),
// genericXORKeyStream (hook VerifGenericXORKeyStream), salsa20.XORKeyStream (8- and 24-byte nonces),
// salsa.HSalsa20 and salsa.Core208 are compared byte-for-byte with them, with separate and with
// identical (in == out) buffers.  Then the amplifier: the Go transcription c09ref, first checked equal
// to every TLC-evaluated vector, judges every input length 0..2000 for every start counter.
package c09

import (
	"bytes"
	"encoding/binary"
	"encoding/hex"
	"encoding/json"
	"fmt"
	"testing"

	"golang.org/x/crypto/salsa20"
	"golang.org/x/crypto/salsa20/salsa"
	"verif/harness/c03ref"
	"verif/harness/c09ref"
	"verif/harness/vutil"
)

type vec struct {
	T      string `json:"t"`
	Kseed  int    `json:"kseed"`
	Nseed  int    `json:"nseed"`
	Cseed  int    `json:"cseed"`
	Seed   int    `json:"seed"`
	Start  string `json:"start"`
	Nb     int    `json:"nb"`
	Cb     []int  `json:"cb"`
	Subkey []int  `json:"subkey"`
	Bytes  []int  `json:"bytes"`
}

func toBytes(v []int) []byte {
	b := make([]byte, len(v))
	for i, x := range v {
		b[i] = byte(x)
	}
	return b
}

func hx(b []byte) string {
	if len(b) > 48 {
		return hex.EncodeToString(b[:24]) + ".." + hex.EncodeToString(b[len(b)-24:])
	}
	return hex.EncodeToString(b)
}

func firstDiff(a, b []byte) int {
	for i := 0; i < len(a) && i < len(b); i++ {
		if a[i] != b[i] {
			return i
		}
	}
	if len(a) != len(b) {
		return min(len(a), len(b))
	}
	return -1
}

type impl struct {
	name string
	// xor runs the implementation: out and in may be the same slice
	xor func(out, in []byte, cb *[16]byte, key *[32]byte)
	// zeroCounterOnly: the front-end salsa20.XORKeyStream always starts at block 0
	zeroCounterOnly bool
}

func impls(path string) []impl {
	return []impl{
		{name: "salsa.XORKeyStream[" + path + "]", xor: salsa.XORKeyStream},
		{name: "genericXORKeyStream", xor: salsa.VerifGenericXORKeyStream},
		{name: "salsa20.XORKeyStream/8[" + path + "]", zeroCounterOnly: true,
			xor: func(out, in []byte, cb *[16]byte, key *[32]byte) { salsa20.XORKeyStream(out, in, cb[:8], key) }},
	}
}

type env struct {
	t    *testing.T
	out  *vutil.Out
	path string
	bad  int
}

func (e *env) fail(sig, what string, d map[string]any) {
	d["build"] = e.path
	e.bad++
	e.out.Violation(sig, what, d)
	if e.bad <= 10 {
		e.t.Errorf("%s: %s %v", sig, what, d)
	} else {
		e.t.Fail()
	}
}

// xorCheck runs one implementation on input `in` (length n) with separate buffers and in place and compares with in xor ks[:n].
func (e *env) xorCheck(im impl, label string, key, cb, in, ks []byte) (ok bool) {
	defer func() {
		if p := recover(); p != nil { // the real code panicked on a legal input: that is its behaviour, not an infrastructure problem
			e.fail("c09-panic", "XORKeyStream panicked on a legal input", map[string]any{"impl": im.name, "case": label, "len": len(in), "panic": fmt.Sprint(p)})
			ok = false
		}
	}()
	return e.xorCheck1(im, label, key, cb, in, ks)
}

func (e *env) xorCheck1(im impl, label string, key, cb, in, ks []byte) bool {
	n := len(in)
	want := make([]byte, n)
	for i := range want {
		want[i] = in[i] ^ ks[i]
	}
	var k [32]byte
	var c [16]byte
	copy(k[:], key)
	copy(c[:], cb)
	ok := true
	for _, mode := range []string{"separate", "inplace"} {
		var got []byte
		src := append([]byte(nil), in...)
		if mode == "separate" {
			got = make([]byte, n)
			for i := range got {
				got[i] = 0xA5
			}
			im.xor(got, src, &c, &k)
			if !bytes.Equal(src, in) {
				e.fail("c09-input-modified", "XORKeyStream modified its input buffer (separate buffers)", map[string]any{"impl": im.name, "case": label, "len": n})
				ok = false
			}
		} else {
			im.xor(src, src, &c, &k)
			got = src
		}
		if !bytes.Equal(c[:], cb) || !bytes.Equal(k[:], key) {
			e.fail("c09-counter-or-key-modified", "XORKeyStream modified the caller's counter block or key", map[string]any{"impl": im.name, "case": label, "len": n})
			ok = false
			copy(k[:], key)
			copy(c[:], cb)
		}
		if !bytes.Equal(got, want) {
			fd := firstDiff(got, want)
			e.fail("c09-xor-mismatch", "output differs from input xor Salsa20 keystream of the specification",
				map[string]any{"impl": im.name, "case": label, "mode": mode, "len": n, "key": hx(key), "counterBlock": hx(cb),
					"firstDiff": fd, "block": fd / 64, "got": hx(got[fd:min(n, fd+32)]), "want": hx(want[fd:min(n, fd+32)])})
			ok = false
		}
	}
	return ok
}

func lengthClasses(max int) []int {
	var l []int
	seen := map[int]bool{}
	add := func(x int) {
		if x >= 0 && x <= max && !seen[x] {
			seen[x] = true
			l = append(l, x)
		}
	}
	add(0)
	add(1)
	add(2)
	add(31)
	add(32)
	add(33)
	for m := 64; m <= max+1; m += 64 {
		add(m - 1)
		add(m)
		add(m + 1)
	}
	add(max)
	return l
}

func TestSalsa(t *testing.T) {
	out := vutil.NewOut()
	defer func() {
		if err := out.Write(); err != nil {
			t.Fatal(err)
		}
	}()
	e := &env{t: t, out: out, path: vutil.Env("VERIF_C09_PATH", "default")}
	ims := impls(e.path)
	nvec := map[string]int{}

	err := vutil.ReadNDJSON(vutil.Env("VERIF_CASES", ""), func(line []byte) error {
		var v vec
		if err := json.Unmarshal(line, &v); err != nil {
			return err
		}
		want := toBytes(v.Bytes)
		nvec[v.T]++
		switch v.T {
		case "ks":
			key, cb := c03ref.Pat(v.Kseed, 32), toBytes(v.Cb)
			if len(cb) != 16 || len(want) != 64*v.Nb || !bytes.Equal(cb[:8], c03ref.Pat(v.Nseed, 8)) {
				return fmt.Errorf("malformed ks vector")
			}
			if !bytes.Equal(c09ref.KS(key, cb, len(want)), want) {
				return fmt.Errorf("refimpl KS differs from the TLC-evaluated definition (kseed=%d start=%s)", v.Kseed, v.Start)
			}
			in := c03ref.Pat(v.Kseed+3, len(want))
			for _, im := range ims {
				if im.zeroCounterOnly && v.Start != "z" {
					continue
				}
				for _, n := range lengthClasses(len(want)) {
					label := fmt.Sprintf("tlc ks kseed=%d nseed=%d start=%s", v.Kseed, v.Nseed, v.Start)
					out.Case(fmt.Sprintf("%s|%s|%d", im.name, label, n))
					e.xorCheck(im, label, key, cb, in[:n], want)
				}
			}
			if nvec["ks"]%7 == 1 {
				out.Sample(map[string]any{"t": "ks", "start": v.Start, "counterBlock": hx(cb), "blocks": v.Nb, "firstBytes": hx(want[:16])})
			}
		case "xs":
			key, nonce := c03ref.Pat(v.Kseed, 32), c03ref.Pat(v.Nseed, 24)
			sub := toBytes(v.Subkey)
			if !bytes.Equal(c09ref.HSalsa20(key, nonce[:16]), sub) || !bytes.Equal(c09ref.XOR(key, nonce, make([]byte, len(want))), want) {
				return fmt.Errorf("refimpl XSalsa20 differs from the TLC-evaluated definition (kseed=%d nseed=%d)", v.Kseed, v.Nseed)
			}
			var k [32]byte
			copy(k[:], key)
			in := c03ref.Pat(v.Kseed+5, len(want))
			for _, n := range lengthClasses(len(want)) {
				label := fmt.Sprintf("tlc xs kseed=%d nseed=%d", v.Kseed, v.Nseed)
				out.Case(fmt.Sprintf("salsa20/24|%s|%d", label, n))
				exp := make([]byte, n)
				for i := range exp {
					exp[i] = in[i] ^ want[i]
				}
				got := make([]byte, n)
				salsa20.XORKeyStream(got, in[:n], nonce, &k)
				inpl := append([]byte(nil), in[:n]...)
				salsa20.XORKeyStream(inpl, inpl, nonce, &k)
				if !bytes.Equal(got, exp) || !bytes.Equal(inpl, exp) {
					fd := firstDiff(got, exp)
					if fd < 0 {
						fd = firstDiff(inpl, exp)
					}
					e.fail("c09-xsalsa20-mismatch", "salsa20.XORKeyStream with a 24-byte nonce differs from XSalsa20 (HSalsa20 subkey, last 8 nonce bytes, counter 0)",
						map[string]any{"case": label, "len": n, "firstDiff": fd, "separateOK": bytes.Equal(got, exp), "inplaceOK": bytes.Equal(inpl, exp)})
				}
			}
		case "hs":
			key, in16 := c03ref.Pat(v.Kseed, 32), c03ref.Pat(v.Nseed, 16)
			c := c09ref.Sigma
			if v.Cseed >= 0 {
				c = c03ref.Pat(v.Cseed, 16)
			}
			if !bytes.Equal(c09ref.HSalsa20C(key, in16, c), want) {
				return fmt.Errorf("refimpl HSalsa20 differs from the TLC-evaluated definition")
			}
			out.Case(fmt.Sprintf("hsalsa20|%d|%d|%d", v.Kseed, v.Nseed, v.Cseed))
			e.hsCheck(fmt.Sprintf("tlc hs kseed=%d nseed=%d cseed=%d", v.Kseed, v.Nseed, v.Cseed), key, in16, c, want)
		case "c208":
			in := c03ref.Pat(v.Seed, 64)
			if !bytes.Equal(c09ref.Core208(in), want) {
				return fmt.Errorf("refimpl Core208 differs from the TLC-evaluated definition")
			}
			out.Case(fmt.Sprintf("core208|%d", v.Seed))
			e.c208Check(fmt.Sprintf("tlc c208 seed=%d", v.Seed), in, want)
		default:
			return fmt.Errorf("unknown vector type %q", v.T)
		}
		return nil
	})
	if err != nil {
		t.Fatal(err)
	}
	for _, k := range []string{"ks", "xs", "hs", "c208"} {
		if nvec[k] == 0 {
			t.Fatalf("no TLC-evaluated %s vectors", k)
		}
		out.Extra["tlc_vectors_"+k+"_"+e.path] = nvec[k]
	}
	if e.bad > 0 {
		return // the amplifier would only repeat it
	}

	// ---- amplifier (oracle: the transcription just validated against the TLC vectors)
	rng := vutil.Rand(909)
	starts := amplifierStarts(rng.Uint64, vutil.Thorough())
	nkeys := 2
	maxLen := 2000
	if vutil.Thorough() {
		nkeys = 8
	}
	classLens := lengthClasses(maxLen)
	allLens := make([]int, maxLen+1)
	for i := range allLens {
		allLens[i] = i
	}
	for ki := 0; ki < nkeys; ki++ {
		key, nonce := make([]byte, 32), make([]byte, 8)
		rng.Read(key)
		rng.Read(nonce)
		if ki == 1 {
			for i := range key {
				key[i] = 0xff
			}
		}
		in := make([]byte, maxLen)
		rng.Read(in)
		if ki%2 == 1 {
			in = make([]byte, maxLen) // zeros: output = keystream
		}
		for _, st := range starts {
			cb := make([]byte, 16)
			copy(cb, nonce)
			binary.LittleEndian.PutUint64(cb[8:], st)
			ks := c09ref.KS(key, cb, maxLen)
			label := fmt.Sprintf("sweep key#%d start=%#x (seed %d)", ki, st, vutil.Seed())
			for _, im := range ims {
				if im.zeroCounterOnly && st != 0 {
					continue
				}
				lens := allLens
				if ki > 0 && !vutil.Thorough() { // quick tier: the second key only at the length classes around 64-byte multiples
					lens = classLens
				}
				for _, n := range lens {
					out.Case(fmt.Sprintf("%s|%#x|%d", im.name, st, n))
					if !e.xorCheck(im, label, key, cb, in[:n], ks) && e.bad >= 20 {
						return
					}
				}
			}
		}
		// XSalsa20 front-end, every length
		nonce24 := make([]byte, 24)
		rng.Read(nonce24)
		var k [32]byte
		copy(k[:], key)
		want := c09ref.XOR(key, nonce24, in)
		for n := 0; n <= maxLen; n++ {
			out.Case(fmt.Sprintf("salsa20/24|sweep|%d", n))
			got := make([]byte, n)
			salsa20.XORKeyStream(got, in[:n], nonce24, &k)
			inpl := append([]byte(nil), in[:n]...)
			salsa20.XORKeyStream(inpl, inpl, nonce24, &k)
			if !bytes.Equal(got, want[:n]) || !bytes.Equal(inpl, want[:n]) {
				e.fail("c09-xsalsa20-mismatch", "salsa20.XORKeyStream with a 24-byte nonce differs from XSalsa20 (HSalsa20 subkey, last 8 nonce bytes, counter 0)",
					map[string]any{"case": fmt.Sprintf("sweep key#%d (seed %d)", ki, vutil.Seed()), "len": n, "key": hx(key), "nonce": hx(nonce24),
						"firstDiff": firstDiff(got, want[:n]), "separateOK": bytes.Equal(got, want[:n]), "inplaceOK": bytes.Equal(inpl, want[:n])})
				if e.bad >= 20 {
					return
				}
			}
		}
	}
	// long messages (many wide iterations of the assembly), random start counters incl. ones that wrap inside the message
	nlong := 6
	if vutil.Thorough() {
		nlong = 60
	}
	for i := 0; i < nlong; i++ {
		key, cb := make([]byte, 32), make([]byte, 16)
		rng.Read(key)
		rng.Read(cb)
		n := 2001 + rng.Intn(70000)
		switch i % 3 {
		case 1:
			binary.LittleEndian.PutUint64(cb[8:], (1<<32)-uint64(rng.Intn(n/64+2)))
		case 2:
			binary.LittleEndian.PutUint64(cb[8:], -uint64(rng.Intn(n/64+2)))
		}
		in := make([]byte, n)
		rng.Read(in)
		ks := c09ref.KS(key, cb, n)
		for _, im := range ims[:2] {
			out.Case(fmt.Sprintf("%s|long|%d", im.name, i))
			e.xorCheck(im, fmt.Sprintf("long #%d (seed %d)", i, vutil.Seed()), key, cb, in, ks)
		}
	}
	// HSalsa20 and Core208 on random inputs
	nh := 300
	if vutil.Thorough() {
		nh = 5000
	}
	for i := 0; i < nh; i++ {
		key, in16, c := make([]byte, 32), make([]byte, 16), c09ref.Sigma
		rng.Read(key)
		rng.Read(in16)
		if i%3 == 2 {
			c = make([]byte, 16)
			rng.Read(c)
		}
		out.Case(fmt.Sprintf("hsalsa20|rand|%d", i))
		e.hsCheck(fmt.Sprintf("random #%d (seed %d)", i, vutil.Seed()), key, in16, c, c09ref.HSalsa20C(key, in16, c))
		b := make([]byte, 64)
		rng.Read(b)
		if i%50 == 0 {
			for j := range b {
				b[j] = 0xff
			}
			b[i%64] = byte(i)
		}
		out.Case(fmt.Sprintf("core208|rand|%d", i))
		e.c208Check(fmt.Sprintf("random #%d (seed %d)", i, vutil.Seed()), b, c09ref.Core208(b))
	}
}

// amplifierStarts: the start counters of the property's quantifier (0, 2^32-3..2^32+1, 2^64-3..2^64-1) plus neighbours,
// every byte-carry boundary 2^(8k)-1, -2, and random 64-bit values.
func amplifierStarts(rnd func() uint64, thorough bool) []uint64 {
	s := []uint64{0, 1}
	for d := uint64(0); d <= 6; d++ {
		s = append(s, (1<<32)-d, -d-0) // 2^32-d ; 2^64-d (d = 0 gives 0 again, harmless)
	}
	s = append(s, (1<<32)+1, (1<<32)+2, 0x01020304fffffffe, 0xfffffffeffffffff, 0xfffffffefffffffd)
	for k := uint(8); k < 64; k += 8 {
		s = append(s, (uint64(1)<<k)-1, (uint64(1)<<k)-2, (uint64(1)<<k)-4)
	}
	nr := 4
	if thorough {
		nr = 24
	}
	for i := 0; i < nr; i++ {
		s = append(s, rnd())
	}
	return s
}

func (e *env) hsCheck(label string, key, in16, c, want []byte) {
	var k, o [32]byte
	var in, cc [16]byte
	copy(k[:], key)
	copy(in[:], in16)
	copy(cc[:], c)
	for i := range o {
		o[i] = byte(0xA5 + i) // the caller's output array has been used before
	}
	salsa.HSalsa20(&o, &in, &k, &cc)
	// out aliasing k is how box.Precompute calls it
	k2 := k
	salsa.HSalsa20(&k2, &in, &k2, &cc)
	if !bytes.Equal(o[:], want) || !bytes.Equal(k2[:], want) {
		e.fail("c09-hsalsa20-mismatch", "salsa.HSalsa20 differs from the definition (20 rounds, no feed-forward, words 0,5,10,15,6,7,8,9)",
			map[string]any{"case": label, "key": hx(key), "in": hx(in16), "const": hx(c), "got": hx(o[:]), "gotOutAliasesKey": hx(k2[:]), "want": hx(want)})
	}
}

func (e *env) c208Check(label string, in, want []byte) {
	var i, o [64]byte
	copy(i[:], in)
	for j := range o {
		o[j] = byte(0xA5 + j) // the caller's output array has been used before
	}
	salsa.Core208(&o, &i)
	same := i
	salsa.Core208(&same, &same)
	if !bytes.Equal(o[:], want) || !bytes.Equal(same[:], want) || !bytes.Equal(i[:], in) {
		e.fail("c09-core208-mismatch", "salsa.Core208 differs from the Salsa20/8 core (x + doubleround^4(x))",
			map[string]any{"case": label, "in": hx(in), "got": hx(o[:]), "gotInPlace": hx(same[:]), "want": hx(want), "inputModified": !bytes.Equal(i[:], in)})
	}
}
