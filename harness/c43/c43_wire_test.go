package c43

import (
	"bytes"
	"encoding/binary"
	"fmt"
	"io"
	"log"
	"math/rand"
	"runtime/debug"
	"testing"
	"time"

	"golang.org/x/crypto/ssh/agent"
	"verif/harness/vutil"
)

// ---- wire robustness of ServeAgent (exploration): reply or error, never a panic ----------------

// capture returns the request bodies agent.NewClient writes for a set of well-formed operations:
// the protocol grammar as the real client speaks it.
type capRW struct {
	in    bytes.Buffer
	reqs  [][]byte
	reply []byte
}

func (c *capRW) Write(p []byte) (int, error) {
	c.in.Write(p)
	for c.in.Len() >= 4 {
		l := int(binary.BigEndian.Uint32(c.in.Bytes()[:4]))
		if c.in.Len() < 4+l {
			break
		}
		c.in.Next(4)
		c.reqs = append(c.reqs, append([]byte(nil), c.in.Next(l)...))
	}
	return len(p), nil
}
func (c *capRW) Read(p []byte) (int, error) {
	if len(c.reply) == 0 {
		c.reply = []byte{0, 0, 0, 1, 5} // SSH_AGENT_FAILURE
	}
	n := copy(p, c.reply)
	c.reply = c.reply[n:]
	return n, nil
}

func grammarFrames() (frames [][]byte, names []string) {
	kp := keyPool()
	c := &capRW{}
	cl := agent.NewClient(c) // capRW has no Close: serialized mode, no goroutine
	rec := func(name string, f func()) {
		before := len(c.reqs)
		f()
		for i := before; i < len(c.reqs); i++ {
			frames = append(frames, c.reqs[i])
			names = append(names, name)
		}
	}
	for _, kn := range []string{"rsa", "rsa-cert", "ed25519", "ed25519-cert", "ecdsa256", "ecdsa384-cert"} {
		k := kp[kn]
		rec("add:"+kn, func() { cl.Add(agent.AddedKey{PrivateKey: k.priv, Certificate: k.cert, Comment: "c-" + kn}) })
		rec("add-constrained:"+kn, func() {
			cl.Add(agent.AddedKey{PrivateKey: k.priv, Certificate: k.cert, Comment: "c", LifetimeSecs: 3600, ConfirmBeforeUse: true,
				ConstraintExtensions: []agent.ConstraintExtension{{ExtensionName: "x@verif", ExtensionDetails: []byte{1, 2, 3}}}})
		})
		rec("add-lifetime:"+kn, func() { cl.Add(agent.AddedKey{PrivateKey: k.priv, Certificate: k.cert, Comment: "c", LifetimeSecs: 7}) })
		rec("remove:"+kn, func() { cl.Remove(k.pub) })
		for _, fl := range []agent.SignatureFlags{0, agent.SignatureFlagRsaSha256, agent.SignatureFlagRsaSha512, 1, 0xffffffff} {
			rec(fmt.Sprintf("sign:%s:%d", kn, fl), func() { cl.SignWithFlags(k.pub, []byte("data to sign"), fl) })
		}
	}
	rec("list", func() { cl.List() })
	rec("removeall", func() { cl.RemoveAll() })
	rec("lock", func() { cl.Lock([]byte("pw")) })
	rec("unlock", func() { cl.Unlock([]byte("pw")) })
	rec("lock-empty", func() { cl.Lock(nil) })
	rec("extension", func() { cl.Extension("query@verif", []byte{9, 9}) })
	// requests the Go client never sends but the server dispatches on
	for _, op := range []byte{1, 9, 20, 21, 26, 27} {
		frames = append(frames, []byte{op})
		names = append(names, fmt.Sprintf("bare-opcode-%d", op))
	}
	return
}

type oneShot struct {
	r   *bytes.Reader
	out bytes.Buffer
}

func (o *oneShot) Read(p []byte) (int, error)  { return o.r.Read(p) }
func (o *oneShot) Write(p []byte) (int, error) { return o.out.Write(p) }

// serve feeds raw bytes (already framed) to the real ServeAgent; it reports a panic, if any.
func serve(kr agent.Agent, raw []byte) (replies []byte, err error, panicked any, stack string) {
	o := &oneShot{r: bytes.NewReader(raw)}
	func() {
		defer func() {
			if p := recover(); p != nil {
				panicked = p
				stack = string(debug.Stack())
			}
		}()
		err = agent.ServeAgent(kr, o)
	}()
	return o.out.Bytes(), err, panicked, stack
}

func frame(body []byte) []byte {
	b := make([]byte, 4+len(body))
	binary.BigEndian.PutUint32(b, uint32(len(body)))
	copy(b[4:], body)
	return b
}

func mutations(body []byte, rng *rand.Rand, budget int) [][]byte {
	var out [][]byte
	n := len(body)
	// truncations
	step := 1
	if n > 400 {
		step = n / 200
	}
	for i := 1; i < n; i += step {
		out = append(out, body[:i])
	}
	// every aligned-or-not uint32 that looks like a length field
	for i := 1; i+4 <= n; i++ {
		v := binary.BigEndian.Uint32(body[i:])
		if int(v) > n-i-4 || (v == 0 && i%4 != 1) {
			continue
		}
		for _, nv := range []uint32{0, 1, v - 1, v + 1, uint32(n - i - 4), uint32(n-i-4) + 1, 0x7fffffff, 0x80000000, 0xffffffff} {
			if nv == v {
				continue
			}
			m := append([]byte(nil), body...)
			binary.BigEndian.PutUint32(m[i:], nv)
			out = append(out, m)
		}
	}
	// the type byte
	for t := 0; t < 256; t += 1 {
		if byte(t) == body[0] {
			continue
		}
		m := append([]byte(nil), body...)
		m[0] = byte(t)
		out = append(out, m)
	}
	// random byte edits, insertions, deletions, trailing garbage
	for j := 0; j < budget; j++ {
		m := append([]byte(nil), body...)
		switch rng.Intn(5) {
		case 0, 1:
			for k := 0; k <= rng.Intn(4); k++ {
				m[rng.Intn(len(m))] = byte(rng.Intn(256))
			}
		case 2:
			p := rng.Intn(len(m))
			m = append(m[:p], append([]byte{byte(rng.Intn(256))}, m[p:]...)...)
		case 3:
			if len(m) > 1 {
				p := rng.Intn(len(m)-1) + 1
				m = append(m[:p], m[p+1:]...)
			}
		case 4:
			g := make([]byte, rng.Intn(20)+1)
			rng.Read(g)
			m = append(m, g...)
		}
		out = append(out, m)
	}
	return out
}

func TestWire(t *testing.T) {
	out := vutil.NewOut()
	defer func() {
		if err := out.Write(); err != nil {
			t.Fatal(err)
		}
	}()
	log.SetOutput(io.Discard)
	rng := vutil.Rand(43)
	kp := keyPool()
	budget := 12
	nRandom := 3000
	if vutil.Thorough() {
		budget, nRandom = 400, 60000
	}
	deadline := time.Now().Add(time.Duration(map[bool]int{false: 25, true: 420}[vutil.Thorough()]) * time.Second)
	frames, names := grammarFrames()
	newAgent := func(state int) agent.Agent {
		kr := agent.NewKeyring()
		if state >= 1 {
			for _, kn := range []string{"rsa", "rsa-cert", "ed25519", "ed25519-cert", "ecdsa256", "ecdsa384-cert"} {
				kr.Add(agent.AddedKey{PrivateKey: kp[kn].priv, Certificate: kp[kn].cert, Comment: kn})
			}
		}
		if state == 2 {
			kr.Lock([]byte("pw"))
		}
		return kr
	}
	var sent, replied, errored, panics, accepted int
	report := func(name string, raw []byte, p any, stack string) {
		panics++
		if panics <= 3 {
			out.Violation("serveagent-panic:"+name, fmt.Sprintf("ServeAgent panicked on a %s-derived request: %v", name, p),
				map[string]any{"request_hex": fmt.Sprintf("%x", raw), "panic": fmt.Sprint(p), "stack": stack})
			t.Errorf("ServeAgent panic on %s-derived frame %x: %v", name, raw, p)
		}
	}
	// after a request that the agent accepted, make it use whatever it now holds: list and sign with every key
	probeAll := func(kr agent.Agent, name string, raw []byte) {
		keys, err := kr.List()
		if err != nil {
			return
		}
		for _, k := range keys {
			req := append([]byte{13}, sshString(k.Marshal())...)
			req = append(req, sshString([]byte("probe"))...)
			req = append(req, 0, 0, 0, 0)
			_, _, p, st := serve(kr, frame(req))
			if p != nil {
				report(name+"+sign", append(append([]byte(nil), raw...), frame(req)...), p, st)
			}
		}
	}
	feed := func(name string, state int, kr agent.Agent, raw []byte) {
		rep, err, p, st := serve(kr, raw)
		sent++
		out.Case(fmt.Sprintf("%d|%x", state, raw))
		if p != nil {
			report(name, raw, p, st)
			return
		}
		if len(rep) >= 5 {
			replied++
			if rep[4] == 6 { // SSH_AGENT_SUCCESS
				accepted++
				if raw[4] == 17 || raw[4] == 25 {
					probeAll(kr, name, raw)
				}
			}
		} else if err != nil {
			errored++
		}
	}
	for state := 0; state < 3; state++ {
		kr := newAgent(state)
		for i, f := range frames {
			feed(names[i], state, kr, frame(f))
			b := budget
			if state == 2 {
				b = budget / 4
			}
			for _, m := range mutations(f, rng, b) {
				if len(m) == 0 {
					continue
				}
				feed(names[i], state, kr, frame(m))
				if time.Now().After(deadline) {
					break
				}
			}
			// outer length prefix lies
			for _, l := range []uint32{0, 1, uint32(len(f)) - 1, uint32(len(f)) + 1, 16 << 20, 16<<20 + 1, 0xffffffff} {
				raw := frame(f)
				binary.BigEndian.PutUint32(raw, l)
				feed(names[i]+":outer-length", state, kr, raw)
			}
			// two requests back to back, the second mutated
			feed(names[i]+":pair", state, kr, append(frame(f), frame(f[:len(f)/2+1])...))
			if state == 0 && i%8 == 7 {
				kr = newAgent(0) // keep the key list short
			}
		}
	}
	ops := []byte{1, 9, 11, 13, 17, 18, 19, 20, 21, 22, 23, 25, 26, 27}
	kr := newAgent(1)
	for i := 0; i < nRandom && !time.Now().After(deadline); i++ {
		b := make([]byte, rng.Intn(200)+1)
		rng.Read(b)
		if rng.Intn(4) != 0 {
			b[0] = ops[rng.Intn(len(ops))]
		}
		feed("random", 1, kr, frame(b))
	}
	out.Extra["c43_wire_requests_sent"] = sent
	out.Extra["c43_wire_replied"] = replied
	out.Extra["c43_wire_accepted"] = accepted
	out.Extra["c43_wire_connection_errors"] = errored
	out.Extra["c43_wire_panics"] = panics
	out.Sample(map[string]any{"wire_grammar_frames": len(frames), "example": fmt.Sprintf("%s: %x", names[0], frames[0][:40])})
}

func sshString(b []byte) []byte {
	o := make([]byte, 4+len(b))
	binary.BigEndian.PutUint32(o, uint32(len(b)))
	copy(o[4:], b)
	return o
}
