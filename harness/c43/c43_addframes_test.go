package c43

import (
	"crypto/dsa"
	"crypto/ecdsa"
	"crypto/ed25519"
	"crypto/elliptic"
	"crypto/rand"
	"encoding/binary"
	"fmt"
	"io"
	"log"
	"sort"
	"testing"

	"golang.org/x/crypto/ssh"
	"golang.org/x/crypto/ssh/agent"
	"verif/harness/vutil"
)

// TestAddFrames: type-complete malformed SSH_AGENTC_ADD_IDENTITY / ADD_ID_CONSTRAINED requests.
// For every key type ServeAgent's insertIdentity parses (ssh-rsa, ssh-dss, ecdsa-sha2-nistp256/384/521,
// ssh-ed25519 and the rsa/dss/ecdsa/ed25519 *-cert-v01 types, the latter with a VALID certificate blob),
// the well-formed request the real client sends is split into its length-prefixed fields and each field
// is, in turn, made {empty, 1 byte, one byte short, valid, one byte long, twice as long}; the whole frame
// is also cut at every field boundary.  Expected of the agent (the property's clause "ServeAgent never
// panics for any request bytes"; the abstract agent answers a malformed add with a failure and does not
// change): a reply, the key list unchanged unless the add succeeded, and the next request on the same
// connection is still served.  A panic is a violation agent-serve-panic:<keytype>:<field>:<class>.

var addFields = map[string][]string{
	"ssh-rsa":      {"type", "N", "E", "D", "Iqmp", "P", "Q", "comment"},
	"ssh-dss":      {"type", "P", "Q", "G", "Y", "X", "comment"},
	"ecdsa":        {"type", "curve", "point", "D", "comment"},
	"ssh-ed25519":  {"type", "pub", "priv", "comment"},
	"rsa-cert":     {"type", "cert", "D", "Iqmp", "P", "Q", "comment"},
	"dss-cert":     {"type", "cert", "X", "comment"},
	"ecdsa-cert":   {"type", "cert", "D", "comment"},
	"ed25519-cert": {"type", "cert", "pub", "priv", "comment"},
}

// privFields: the fields of the private part, per layout
var privFields = map[string]map[string]bool{
	"ssh-rsa": {"D": true, "Iqmp": true, "P": true, "Q": true}, "ssh-dss": {"X": true}, "ecdsa": {"D": true},
	"ssh-ed25519": {"pub": true, "priv": true}, "rsa-cert": {"D": true, "Iqmp": true, "P": true, "Q": true},
	"dss-cert": {"X": true}, "ecdsa-cert": {"D": true}, "ed25519-cert": {"pub": true, "priv": true},
}

type addKind struct {
	name   string // key type as on the wire
	layout string
	key    agent.AddedKey
}

func addKinds(t *testing.T) []addKind {
	kp := keyPool()
	_, caPriv, _ := ed25519.GenerateKey(rand.Reader)
	ca, _ := ssh.NewSignerFromKey(caPriv)
	var params dsa.Parameters
	if err := dsa.GenerateParameters(&params, rand.Reader, dsa.L1024N160); err != nil {
		t.Fatal(err)
	}
	dk := &dsa.PrivateKey{PublicKey: dsa.PublicKey{Parameters: params}}
	if err := dsa.GenerateKey(dk, rand.Reader); err != nil {
		t.Fatal(err)
	}
	dpub, err := ssh.NewPublicKey(&dk.PublicKey)
	if err != nil {
		t.Fatal(err)
	}
	e384, _ := ecdsa.GenerateKey(elliptic.P384(), rand.Reader)
	e521, _ := ecdsa.GenerateKey(elliptic.P521(), rand.Reader)
	k := func(n string) agent.AddedKey {
		return agent.AddedKey{PrivateKey: kp[n].priv, Certificate: kp[n].cert, Comment: "c"}
	}
	return []addKind{
		{"ssh-rsa", "ssh-rsa", k("rsa")},
		{"ssh-dss", "ssh-dss", agent.AddedKey{PrivateKey: dk, Comment: "c"}},
		{"ecdsa-sha2-nistp256", "ecdsa", k("ecdsa256")},
		{"ecdsa-sha2-nistp384", "ecdsa", agent.AddedKey{PrivateKey: e384, Comment: "c"}},
		{"ecdsa-sha2-nistp521", "ecdsa", agent.AddedKey{PrivateKey: e521, Comment: "c"}},
		{"ssh-ed25519", "ssh-ed25519", k("ed25519")},
		{"ssh-rsa-cert-v01@openssh.com", "rsa-cert", k("rsa-cert")},
		{"ssh-dss-cert-v01@openssh.com", "dss-cert", agent.AddedKey{PrivateKey: dk, Certificate: mkCert(dpub, ca, "dsa"), Comment: "c"}},
		{"ecdsa-sha2-nistp384-cert-v01@openssh.com", "ecdsa-cert", k("ecdsa384-cert")},
		{"ssh-ed25519-cert-v01@openssh.com", "ed25519-cert", k("ed25519-cert")},
	}
}

// splitFields splits body[1:] into its length-prefixed fields (every field of the add messages is one).
func splitFields(body []byte) (fields [][]byte, ok bool) {
	b := body[1:]
	for len(b) > 0 {
		if len(b) < 4 {
			return nil, false
		}
		l := int(binary.BigEndian.Uint32(b))
		if l > len(b)-4 {
			return nil, false
		}
		fields = append(fields, b[4:4+l])
		b = b[4+l:]
	}
	return fields, true
}

func joinFields(op byte, fields [][]byte) []byte {
	out := []byte{op}
	for _, f := range fields {
		out = append(out, sshString(f)...)
	}
	return out
}

func classes(c []byte) map[string][]byte {
	m := map[string][]byte{"empty": {}, "valid": c, "long+1": append(append([]byte(nil), c...), 0x5a), "long-x2": append(append([]byte(nil), c...), c...)}
	if len(c) >= 1 {
		m["1-byte"] = c[:1]
		m["short-1"] = c[:len(c)-1]
	}
	return m
}

func listKeys(kr agent.Agent) string {
	ks, _ := kr.List()
	var s []string
	for _, k := range ks {
		s = append(s, string(k.Marshal())+"|"+k.Comment)
	}
	sort.Strings(s)
	return fmt.Sprint(len(s), s)
}

func TestAddFrames(t *testing.T) {
	out := vutil.NewOut()
	defer func() {
		if err := out.Write(); err != nil {
			t.Fatal(err)
		}
	}()
	log.SetOutput(io.Discard)
	var sent, failed, accepted, panics, stateChanged, loopStopped int
	shortPriv := map[string]int{}
	listReq := frame([]byte{11})
	run := func(kind addKind, field, class string, body []byte) {
		kr := agent.NewKeyring()
		// a key is present beforehand so that "state unchanged" is not trivially about an empty agent
		kp := keyPool()
		kr.Add(agent.AddedKey{PrivateKey: kp["ecdsa256"].priv, Comment: "resident"})
		before := listKeys(kr)
		raw := append(frame(body), listReq...)
		rep, _, p, st := serve(kr, raw)
		sent++
		out.Case(fmt.Sprintf("%s|%s|%s|%d", kind.name, field, class, body[0]))
		sig := fmt.Sprintf("agent-serve-panic:%s:%s:%s", kind.name, field, class)
		if p != nil {
			panics++
			if panics <= 5 {
				out.Violation(sig, fmt.Sprintf("ServeAgent panicked on an add-identity request (%s) whose field %q is %s: %v", kind.name, field, class, p),
					map[string]any{"request_hex": fmt.Sprintf("%x", body), "panic": fmt.Sprint(p), "stack": st})
				t.Errorf("%s: %v", sig, p)
			}
			return
		}
		if len(rep) < 5 {
			return // the agent dropped the connection without a reply: an error, not a panic
		}
		switch rep[4] {
		case 6:
			accepted++
			// whatever it accepted must be usable without a panic
			keys, _ := kr.List()
			for _, k := range keys {
				req := append([]byte{13}, sshString(k.Marshal())...)
				req = append(append(req, sshString([]byte("probe"))...), 0, 0, 0, 0)
				if _, _, p2, st2 := serve(kr, frame(req)); p2 != nil {
					panics++
					out.Violation(sig+":then-sign", fmt.Sprintf("ServeAgent panicked signing with a key accepted from a malformed add (%s, field %q %s): %v", kind.name, field, class, p2),
						map[string]any{"request_hex": fmt.Sprintf("%x", body), "panic": fmt.Sprint(p2), "stack": st2})
					t.Errorf("%s:then-sign: %v", sig, p2)
				}
			}
		case 5:
			failed++
			if listKeys(kr) != before {
				stateChanged++
				out.Violation("agent-add-failure-changed-state:"+kind.name+":"+field+":"+class,
					"ServeAgent answered SSH_AGENT_FAILURE to an add-identity request but the key list changed", map[string]any{"request_hex": fmt.Sprintf("%x", body)})
				t.Errorf("failure reply but state changed: %s %s %s", kind.name, field, class)
			}
		}
		// the loop continues: the List request behind it is answered (a second framed reply)
		l1 := int(binary.BigEndian.Uint32(rep))
		if len(rep) < 4+l1+5 {
			loopStopped++
		}
	}
	for _, kind := range addKinds(t) {
		c := &capRW{}
		cl := agent.NewClient(c)
		if err := cl.Add(kind.key); err == nil || len(c.reqs) != 1 {
			// capRW answers SSH_AGENT_FAILURE, so Add reports an error after having written the request
			if len(c.reqs) != 1 {
				t.Fatalf("client wrote %d requests for %s", len(c.reqs), kind.name)
			}
		}
		body := c.reqs[0]
		fields, ok := splitFields(body)
		names := addFields[kind.layout]
		if !ok || len(fields) != len(names) || string(fields[0]) != kind.name {
			t.Fatalf("unexpected request layout for %s: %d fields, type %q", kind.name, len(fields), fields[0])
		}
		for _, op := range []byte{17, 25} {
			for i := 1; i < len(fields); i++ {
				for class, v := range classes(fields[i]) {
					f2 := append([][]byte(nil), fields...)
					f2[i] = v
					b := joinFields(op, f2)
					if op == 25 {
						b = append(b, 1, 0, 0, 0, 60) // lifetime constraint
					}
					if privFields[kind.layout][names[i]] && (class == "empty" || class == "1-byte" || class == "short-1") {
						shortPriv[kind.name]++
					}
					run(kind, names[i], class, b)
				}
			}
			// the whole frame cut at every field boundary (and inside the length prefix of the next field)
			whole := joinFields(op, fields)
			off := 1
			for i := 0; i < len(fields); i++ {
				run(kind, names[i], "frame-cut-before", whole[:off])
				if off+2 <= len(whole) {
					run(kind, names[i], "frame-cut-in-length", whole[:off+2])
				}
				off += 4 + len(fields[i])
			}
		}
	}
	out.Extra["c43_addframes_sent"] = sent
	out.Extra["c43_addframes_failure_replies"] = failed
	out.Extra["c43_addframes_accepted"] = accepted
	out.Extra["c43_addframes_panics"] = panics
	out.Extra["c43_addframes_connection_dropped_after"] = loopStopped
	out.Extra["c43_addframes_short_private_field_cases"] = shortPriv
	out.Extra["c43_addframes_key_types"] = len(shortPriv)
}
