// Binding R for C43: every history TLC generated from spec/Agent.tla is replayed on (i) the real
// agent.NewKeyring() directly and (ii) agent.NewClient <-> agent.ServeAgent over an in-memory pipe
// (pipelined client over a net.Pipe end, serialized client over a plain io.ReadWriter), inside a
// testing/synctest bubble so that key lifetimes run on a virtual clock.  After every operation the real
// result is compared with the model's (at the level of the property: success/failure, the multiset of
// listed keys and comments, which keys sign, signature algorithm for the RSA flags) and every
// signature returned is verified under the key.
package c43

import (
	"bytes"
	"crypto/ecdsa"
	"crypto/ed25519"
	"crypto/elliptic"
	"crypto/rand"
	"crypto/rsa"
	"encoding/json"
	"errors"
	"fmt"
	"io"
	"log"
	"net"
	"sort"
	"strings"
	"sync"
	"testing"
	"testing/synctest"
	"time"

	"golang.org/x/crypto/ssh"
	"golang.org/x/crypto/ssh/agent"
	"verif/harness/vutil"
)

// ---- keys -------------------------------------------------------------------------------------

type testKey struct {
	name string
	priv any // what AddedKey.PrivateKey takes
	cert *ssh.Certificate
	pub  ssh.PublicKey // identity the agent lists (the certificate if there is one)
	rsa  bool
}

var (
	keysOnce sync.Once
	pool     map[string]*testKey // by concrete name
)

func mkCert(pub ssh.PublicKey, ca ssh.Signer, id string) *ssh.Certificate {
	c := &ssh.Certificate{Key: pub, Serial: 1, CertType: ssh.UserCert, KeyId: id, ValidPrincipals: []string{"u"},
		ValidAfter: 0, ValidBefore: ssh.CertTimeInfinity}
	if err := c.SignCert(rand.Reader, ca); err != nil {
		panic(err)
	}
	return c
}

func keyPool() map[string]*testKey {
	keysOnce.Do(func() {
		pool = map[string]*testKey{}
		_, caPriv, _ := ed25519.GenerateKey(rand.Reader)
		ca, err := ssh.NewSignerFromKey(caPriv)
		if err != nil {
			panic(err)
		}
		add := func(name string, priv any, isRSA bool, withCert bool) {
			s, err := ssh.NewSignerFromKey(priv)
			if err != nil {
				panic(err)
			}
			k := &testKey{name: name, priv: priv, pub: s.PublicKey(), rsa: isRSA}
			if withCert {
				k.cert = mkCert(s.PublicKey(), ca, name)
				k.pub = k.cert
			}
			pool[name] = k
		}
		r1, err := rsa.GenerateKey(rand.Reader, 2048)
		if err != nil {
			panic(err)
		}
		r2, _ := rsa.GenerateKey(rand.Reader, 2048)
		_, e1, _ := ed25519.GenerateKey(rand.Reader)
		_, e2, _ := ed25519.GenerateKey(rand.Reader)
		c1, _ := ecdsa.GenerateKey(elliptic.P256(), rand.Reader)
		c2, _ := ecdsa.GenerateKey(elliptic.P384(), rand.Reader)
		add("rsa", r1, true, false)
		add("rsa-cert", r2, true, true)
		add("ed25519", &e1, false, false)
		add("ed25519-cert", e2, false, true)
		add("ecdsa256", c1, false, false)
		add("ecdsa384-cert", c2, false, true)
		// same private key as "rsa", presented with a certificate: a different identity for the agent
		add("rsa+cert", r1, true, true)
	})
	return pool
}

// assignments of the model's key names to concrete keys; RSAKeys of the model are k1 and k4.
var assignments = []map[string]string{
	{"k1": "rsa", "k2": "ed25519", "k3": "ecdsa256", "k4": "rsa-cert", "k5": "ed25519-cert"},
	{"k1": "rsa-cert", "k2": "ecdsa384-cert", "k3": "ed25519", "k4": "rsa", "k5": "ecdsa256"},
	{"k1": "rsa", "k2": "ed25519-cert", "k3": "ecdsa384-cert", "k4": "rsa+cert", "k5": "ed25519"},
}

// ---- model histories ----------------------------------------------------------------------------

type mRes struct {
	T  string     `json:"t"`
	Ks [][]string `json:"ks"`
	F  string     `json:"f"`
}
type mEv struct {
	Op        string `json:"op"`
	K         string `json:"k"`
	A         string `json:"a"`
	N         int    `json:"n"`
	Res       mRes   `json:"res"`
	ResAbs    mRes   `json:"resAbs"`
	ResWire   mRes   `json:"resWire"`
	Lazy      bool   `json:"lazy"`
	PreLocked bool   `json:"preLocked"`
	PreUsable bool   `json:"preUsable"`
}
type tcase struct {
	H      []mEv  `json:"h"`
	Assign *int   `json:"assign,omitempty"`
	Path   string `json:"path,omitempty"` // restrict to one path (replay)
}

func (c *tcase) String() string {
	var b strings.Builder
	for i, e := range c.H {
		if i > 0 {
			b.WriteByte(' ')
		}
		switch e.Op {
		case "add":
			fmt.Fprintf(&b, "add(%s,%d,%s)", e.K, e.N, e.A)
		case "remove":
			fmt.Fprintf(&b, "remove(%s)", e.K)
		case "sign":
			fmt.Fprintf(&b, "sign(%s,%d)", e.K, e.N)
		case "lock", "unlock":
			fmt.Fprintf(&b, "%s(%q)", e.Op, e.A)
		case "tick":
			fmt.Fprintf(&b, "tick(%d)", e.N)
		default:
			b.WriteString(e.Op)
		}
	}
	return b.String()
}

func normKs(ks [][]string, withComment bool) string {
	var s []string
	for _, p := range ks {
		if withComment && len(p) > 1 {
			s = append(s, p[0]+"="+p[1])
		} else {
			s = append(s, p[0])
		}
	}
	sort.Strings(s)
	return strings.Join(s, ",")
}

// real result of one operation, at the level of the property
type rRes struct {
	T   string // ok | err | list | sig | signers | unsupported
	Ks  string // normalised multiset of keys (with comments for list)
	F   string // signature format
	Err string
}

func (r rRes) String() string { return fmt.Sprintf("{%s ks=[%s] f=%s err=%q}", r.T, r.Ks, r.F, r.Err) }

type viol struct{ sig, what string }

type runner struct {
	ag     agent.ExtendedAgent
	path   string
	keys   map[string]*testKey // model name -> key
	byBlob map[string]string   // marshalled public key -> model name
	rng    io.Reader
}

func errRes(err error) rRes { return rRes{T: "err", Err: err.Error()} }

// do performs the operation on the real agent.
func (r *runner) do(e mEv) (res rRes, vs []viol) {
	switch e.Op {
	case "add":
		k := r.keys[e.K]
		parts := strings.SplitN(e.A, "/", 2)
		ak := agent.AddedKey{PrivateKey: k.priv, Certificate: k.cert, Comment: parts[0], LifetimeSecs: uint32(e.N)}
		switch parts[1] {
		case "confirm":
			ak.ConfirmBeforeUse = true
		case "ext":
			ak.ConstraintExtensions = []agent.ConstraintExtension{{ExtensionName: "x@verif", ExtensionDetails: []byte{1, 2}}}
		}
		if err := r.ag.Add(ak); err != nil {
			return errRes(err), nil
		}
		return rRes{T: "ok"}, nil
	case "remove":
		if err := r.ag.Remove(r.keys[e.K].pub); err != nil {
			return errRes(err), nil
		}
		return rRes{T: "ok"}, nil
	case "removeall":
		if err := r.ag.RemoveAll(); err != nil {
			return errRes(err), nil
		}
		return rRes{T: "ok"}, nil
	case "lock":
		if err := r.ag.Lock([]byte(e.A)); err != nil { // a fresh slice every time (see TestLockAliasProbe)
			return errRes(err), nil
		}
		return rRes{T: "ok"}, nil
	case "unlock":
		if err := r.ag.Unlock([]byte(e.A)); err != nil {
			return errRes(err), nil
		}
		return rRes{T: "ok"}, nil
	case "list":
		ks, err := r.ag.List()
		if err != nil {
			return errRes(err), nil
		}
		var s []string
		for _, k := range ks {
			name, ok := r.byBlob[string(k.Marshal())]
			if !ok {
				vs = append(vs, viol{"list-unknown-key", "List returned a key that was never added: " + k.String()})
				name = "?"
			}
			s = append(s, name+"="+k.Comment)
		}
		sort.Strings(s)
		return rRes{T: "list", Ks: strings.Join(s, ",")}, vs
	case "sign":
		k := r.keys[e.K]
		data := make([]byte, 24)
		io.ReadFull(r.rng, data)
		sig, err := r.ag.SignWithFlags(k.pub, data, agent.SignatureFlags(e.N))
		if err != nil {
			return errRes(err), nil
		}
		if sig == nil {
			return rRes{T: "err", Err: "nil signature and nil error"}, []viol{{"sign-nil-nil", "SignWithFlags returned (nil, nil)"}}
		}
		if verr := k.pub.Verify(data, sig); verr != nil {
			vs = append(vs, viol{"signature-does-not-verify", fmt.Sprintf("signature by %s (flags %d, format %s) does not verify under the key: %v", k.name, e.N, sig.Format, verr)})
		}
		return rRes{T: "sig", F: sig.Format}, vs
	case "signers":
		ss, err := r.ag.Signers()
		if err != nil {
			return errRes(err), nil
		}
		var s []string
		for _, sg := range ss {
			name, ok := r.byBlob[string(sg.PublicKey().Marshal())]
			if !ok {
				vs = append(vs, viol{"signers-unknown-key", "Signers returned a key that was never added"})
				name = "?"
			}
			s = append(s, name)
			data := []byte("signers probe " + name)
			sig, err := sg.Sign(rand.Reader, data)
			if err != nil {
				vs = append(vs, viol{"signer-cannot-sign", fmt.Sprintf("signer for present key %s fails to sign: %v", name, err)})
			} else if verr := sg.PublicKey().Verify(data, sig); verr != nil {
				vs = append(vs, viol{"signature-does-not-verify", fmt.Sprintf("signature by signer %s does not verify: %v", name, verr)})
			}
		}
		sort.Strings(s)
		return rRes{T: "signers", Ks: strings.Join(s, ",")}, vs
	case "extension":
		out, err := r.ag.Extension("probe@verif", []byte{1})
		if err != nil {
			return rRes{T: "unsupported", Err: err.Error()}, nil
		}
		return rRes{T: "ok", Err: fmt.Sprintf("extension reply %x", out)}, nil
	case "tick":
		time.Sleep(time.Duration(e.N) * time.Second)
		return rRes{T: "ok"}, nil
	}
	return rRes{T: "?"}, []viol{{"harness:unknown-op", e.Op}}
}

// agree compares at the level of the property.
func agree(m mRes, e mEv, r rRes) bool {
	switch m.T {
	case "ok", "err", "unsupported":
		return r.T == m.T
	case "list":
		return r.T == "list" && r.Ks == normKs(m.Ks, true)
	case "signers":
		return r.T == "signers" && r.Ks == normKs(m.Ks, false)
	case "sig":
		if r.T != "sig" {
			return false
		}
		if m.F == "default" {
			return true // verified under the key; which algorithm is the key type's business
		}
		return r.F == m.F
	case "sigOrErr":
		return r.T == "sig" || r.T == "err"
	}
	return false
}

type caseOut struct {
	viols    []viol
	lazyOnly int // steps where the real agent purges eagerly where the keyring is lazy (or vice versa)
	steps    int
	sigs     int
}

func (r *runner) replay(c *tcase) (out caseOut) {
	for i, e := range c.H {
		want := e.Res
		if r.path != "direct" {
			want = e.ResWire
		}
		got, vs := r.do(e)
		out.steps++
		if got.T == "sig" {
			out.sigs++
		}
		for _, v := range vs {
			out.viols = append(out.viols, viol{v.sig, fmt.Sprintf("[%s, step %d %s] %s", r.path, i+1, e.Op, v.what)})
		}
		// the clauses of the property, judged on the real result alone
		if got.T == "sig" && (e.PreLocked || !e.PreUsable) {
			why := "absent or expired"
			if e.PreLocked {
				why = "the agent is locked"
			}
			out.viols = append(out.viols, viol{"signature-by-unusable-key", fmt.Sprintf("[%s, step %d] a signature was produced for %s although %s", r.path, i+1, e.K, why)})
			continue
		}
		if e.PreLocked && (got.T == "list" || got.T == "signers") && got.Ks != "" {
			out.viols = append(out.viols, viol{"locked-agent-lists-keys", fmt.Sprintf("[%s, step %d] locked agent revealed keys: %s", r.path, i+1, got.Ks)})
			continue
		}
		if agree(want, e, got) {
			continue
		}
		if e.Lazy && agree(e.ResAbs, e, got) {
			out.lazyOnly++
			continue
		}
		out.viols = append(out.viols, viol{"agent-" + e.Op + "-differs-from-abstract-agent",
			fmt.Sprintf("[%s, step %d] %s: real result %v, abstract agent %+v", r.path, i+1, e.Op, got, want)})
	}
	return
}

// plainRW hides Close so that agent.NewClient picks its fully serialized mode.
type plainRW struct {
	r io.Reader
	w io.Writer
}

func (p plainRW) Read(b []byte) (int, error)  { return p.r.Read(b) }
func (p plainRW) Write(b []byte) (int, error) { return p.w.Write(b) }

func runHistory(t *testing.T, c *tcase, assign int, path string) (out caseOut) {
	kp := keyPool()
	r := &runner{path: path, keys: map[string]*testKey{}, byBlob: map[string]string{}, rng: rand.Reader}
	for m, conc := range assignments[assign%len(assignments)] {
		r.keys[m] = kp[conc]
		r.byBlob[string(kp[conc].pub.Marshal())] = m
	}
	synctest.Test(t, func(t *testing.T) {
		kr := agent.NewKeyring().(agent.ExtendedAgent)
		switch path {
		case "direct":
			r.ag = kr
			out = r.replay(c)
		default:
			c1, c2 := net.Pipe()
			done := make(chan error, 1)
			go func() { done <- agent.ServeAgent(kr, c2) }()
			if path == "wire-pipelined" {
				r.ag = agent.NewClient(c1)
			} else {
				r.ag = agent.NewClient(plainRW{c1, c1})
			}
			out = r.replay(c)
			c1.Close()
			<-done
			c2.Close()
		}
	})
	return
}

func TestReplay(t *testing.T) {
	out := vutil.NewOut()
	defer func() {
		if err := out.Write(); err != nil {
			t.Fatal(err)
		}
	}()
	log.SetOutput(io.Discard) // ServeAgent logs every failed request
	seed := int(vutil.Seed())
	var n, steps, sigs, lazy int
	sigCount := map[string]int{}
	err := vutil.ReadNDJSON(vutil.Env("VERIF_CASES", ""), func(line []byte) error {
		var c tcase
		if err := json.Unmarshal(line, &c); err != nil {
			return err
		}
		assign := (n + seed) % len(assignments)
		if c.Assign != nil {
			assign = *c.Assign
		}
		wire := "wire-pipelined"
		if (n+seed)%2 == 1 {
			wire = "wire-serial"
		}
		n++
		paths := []string{"direct", wire}
		if c.Path != "" {
			paths = []string{c.Path}
		}
		for _, p := range paths {
			co := runHistory(t, &c, assign, p)
			out.Case(fmt.Sprintf("%s|%d|%s", p, assign, c.String()))
			steps += co.steps
			sigs += co.sigs
			lazy += co.lazyOnly
			for _, v := range co.viols {
				if strings.HasPrefix(v.sig, "harness:") {
					return errors.New(v.what)
				}
				sigCount[v.sig]++
				if sigCount[v.sig] <= 3 {
					out.Violation(v.sig, v.what+" [history: "+c.String()+"]", map[string]any{"case": c, "assign": assign, "path": p})
					t.Errorf("%s: %s (history %s)", v.sig, v.what, c.String())
				}
			}
			if len(co.viols) == 0 && n%997 == 1 {
				out.Sample(map[string]any{"history": c.String(), "path": p, "assign": assign})
			}
		}
		return nil
	})
	out.Extra["c43_operations_replayed"] = steps
	out.Extra["c43_signatures_verified"] = sigs
	if lazy > 0 {
		out.Extra["c43_steps_matching_eager_expiry_only"] = lazy
	}
	if len(sigCount) > 0 {
		out.Extra["c43_signature_counts"] = sigCount
	}
	if err != nil {
		out.Violations = nil
		out.Extra["infra_error"] = err.Error()
		t.Fatal(err)
	}
}

// TestLockAliasProbe is informational (DESIGN section 9, O3): does the keyring keep the caller's
// passphrase slice?  It never produces a violation; the result goes into the evidence.
func TestLockAliasProbe(t *testing.T) {
	out := vutil.NewOut()
	defer out.Write()
	kr := agent.NewKeyring()
	pw := []byte("secret")
	if err := kr.Lock(pw); err != nil {
		t.Fatal(err)
	}
	for i := range pw {
		pw[i] = 0
	}
	e1 := kr.Unlock([]byte("secret"))
	res := "keyring copies the passphrase (Unlock with the original passphrase succeeds after the caller zeroed its buffer)"
	if e1 != nil {
		e2 := kr.Unlock(bytes.Repeat([]byte{0}, 6))
		res = fmt.Sprintf("keyring.Lock keeps the caller's slice: after the caller zeroed its buffer Unlock(original) fails (%v) and Unlock(zeros) returns %v", e1, e2)
	}
	// over the wire the passphrase is a copy by construction
	out.Extra["c43_lock_alias_probe"] = res
	out.Case("lock-alias-probe")
}
