package c47

import (
	"bytes"
	"fmt"
	"math/rand"
	"runtime/debug"
	"strconv"
	"strings"
	"sync"
	"testing"

	"golang.org/x/crypto/otr"
	"verif/harness/vutil"
)

// Property-level random driver: no model prediction is involved, the clauses of C47 are checked directly on two
// real Conversations under random schedules, message lengths 0..5000 and FragmentSize 0, 1..17 (ignored), 19..200.

func randLen(r *rand.Rand) int {
	switch r.Intn(6) {
	case 0:
		return r.Intn(4)
	case 1:
		return 245 + r.Intn(14) // around the 256-byte padding boundary (len+5)
	case 2:
		return 500 + r.Intn(20)
	case 3:
		return r.Intn(5001)
	default:
		return r.Intn(300)
	}
}

func randBody(r *rand.Rand, n int) []byte {
	b := make([]byte, n)
	for i := range b {
		b[i] = byte(1 + r.Intn(255)) // no NUL: the data format ends the text at the first NUL
	}
	return b
}

func randFragSize(r *rand.Rand) int {
	switch r.Intn(10) {
	case 0, 1, 2:
		return 0
	case 3:
		return 1 + r.Intn(17) // below minFragmentSize: ignored
	case 4:
		return 19 + r.Intn(3) // 1..3 characters per fragment
	default:
		return 19 + r.Intn(182)
	}
}

type scenarioResult struct {
	sig, what string
	key       string
	stats     map[string]int
}

// deliverOne hands the head of p's channel to p and records what the user of p sees.
type seen struct {
	dlv  [][]byte
	chg  []string
	errs []string
}

func (w *world) deliverOne(p string, s map[string]*seen) {
	m := w.net[p][0]
	w.net[p] = w.net[p][1:]
	out, enc, chg, ts, err := w.conv[p].Receive(append([]byte(nil), m.b...))
	if err != nil {
		s[p].errs = append(s[p].errs, err.Error())
	}
	if enc && err == nil && out != nil && chg == otr.NoChange && len(ts) == 0 {
		s[p].dlv = append(s[p].dlv, append([]byte(nil), out...))
	} else if len(out) > 0 {
		s[p].dlv = append(s[p].dlv, append([]byte("UNEXPECTED:"), out...))
	}
	if chg != otr.NoChange {
		s[p].chg = append(s[p].chg, chgName(chg))
	}
	w.post(p, ts)
}

// randomDrain delivers in a random order until the network is quiet.
func (w *world) randomDrain(r *rand.Rand, s map[string]*seen, max int) bool {
	for n := 0; n < max; n++ {
		var cand []string
		for _, p := range []string{"a", "b"} {
			if len(w.net[p]) > 0 {
				cand = append(cand, p)
			}
		}
		if len(cand) == 0 {
			return true
		}
		w.deliverOne(cand[r.Intn(len(cand))], s)
	}
	return false
}

func scenario(seed int64) (res scenarioResult) {
	res.stats = map[string]int{}
	r := rand.New(rand.NewSource(seed))
	phase := "setup"
	defer func() {
		if x := recover(); x != nil {
			st := debug.Stack()
			res.sig = panicSig(x, st)
			res.what = fmt.Sprintf("panic in phase %s (scenario seed %d): %v\n%s", phase, seed, x, st)
		}
	}()
	w := newWorld(seed, "")
	fs := map[string]int{"a": randFragSize(r), "b": randFragSize(r)}
	for p, c := range w.conv {
		c.FragmentSize = fs[p]
	}
	start := []string{"a", "b", "ab"}[r.Intn(3)]
	res.key = fmt.Sprintf("start=%s fs=%d/%d", start, fs["a"], fs["b"])
	for _, p := range []string{"a", "b"} {
		if strings.Contains(start, p) { // p's user sends the query: it arrives at the peer
			w.net[peer(p)] = append(w.net[peer(p)], wire{b: []byte(otr.QueryMessage)})
		}
	}
	s := map[string]*seen{"a": {}, "b": {}}
	fail := func(sig, f string, a ...any) scenarioResult {
		res.sig = sig
		res.what = fmt.Sprintf("scenario seed %d (%s), phase %s: ", seed, res.key, phase) + fmt.Sprintf(f, a...)
		return res
	}
	// ---- O1: handshake under a random (fair: everything is delivered eventually) schedule
	phase = "handshake"
	if !w.randomDrain(r, s, 200000) {
		return fail("otr-never-quiet", "the handshake never completes (200000 deliveries)")
	}
	if !w.conv["a"].IsEncrypted() || !w.conv["b"].IsEncrypted() {
		return fail("otr-not-encrypted", "after the query and delivery of every message IsEncrypted a=%v b=%v; errors a=%v b=%v",
			w.conv["a"].IsEncrypted(), w.conv["b"].IsEncrypted(), s["a"].errs, s["b"].errs)
	}
	for _, p := range []string{"a", "b"} {
		if len(s[p].dlv) > 0 {
			return fail("otr-unexpected-delivery", "%s's user was handed %d messages during the handshake", p, len(s[p].dlv))
		}
	}
	// ---- O2: data both ways, random interleaving of Send and delivery, fragment sizes change on the way
	exchange := func(tag string, perSide int) *scenarioResult {
		phase = tag
		sent := map[string][][]byte{}
		for _, p := range []string{"a", "b"} {
			s[p].dlv, s[p].errs = nil, nil
		}
		left := map[string]int{"a": perSide, "b": perSide}
		for left["a"]+left["b"] > 0 || len(w.net["a"])+len(w.net["b"]) > 0 {
			var cand []string
			for _, p := range []string{"a", "b"} {
				if left[p] > 0 {
					cand = append(cand, "s"+p)
				}
				if len(w.net[p]) > 0 {
					cand = append(cand, "d"+p, "d"+p)
				}
			}
			c := cand[r.Intn(len(cand))]
			p := c[1:]
			if c[0] == 's' {
				if r.Intn(3) == 0 {
					w.conv[p].FragmentSize = randFragSize(r)
				}
				body := randBody(r, randLen(r))
				ms, err := w.conv[p].Send(body)
				if err != nil {
					x := fail("otr-data-not-delivered", "Send of %d bytes by %s failed: %v", len(body), p, err)
					return &x
				}
				sent[p] = append(sent[p], body)
				w.post(p, ms)
				left[p]--
				res.stats["sent"]++
				res.stats["wire"] += len(ms)
			} else {
				w.deliverOne(p, s)
			}
		}
		for _, p := range []string{"a", "b"} {
			if len(s[p].errs) > 0 {
				x := fail("otr-data-not-delivered", "Receive of %s returned errors on genuine traffic: %v", p, s[p].errs)
				return &x
			}
			if len(s[p].dlv) != len(sent[peer(p)]) {
				x := fail("otr-data-not-delivered", "%s sent %d messages, %s's user was handed %d", peer(p), len(sent[peer(p)]), p, len(s[p].dlv))
				return &x
			}
			for i := range s[p].dlv {
				if !bytes.Equal(s[p].dlv[i], sent[peer(p)][i]) {
					x := fail("otr-data-not-delivered", "message %d from %s (%d bytes) arrived changed or out of order (%d bytes)", i, peer(p), len(sent[peer(p)][i]), len(s[p].dlv[i]))
					return &x
				}
			}
		}
		return nil
	}
	if x := exchange("data", 1+r.Intn(5)); x != nil {
		return *x
	}
	// ---- O3: two or three SMP runs in the same session, in both role orders, after success / failure / no answer;
	// judged per run by the tracker: the responder is asked once, Complete on both sides iff the secrets of THAT run are equal
	phase = "smp"
	tr := newSMPTracker()
	var prevI []byte
	nruns := 2 + r.Intn(2)
	for k := 0; k < nruns; k++ {
		ini := []string{"a", "b"}[r.Intn(2)]
		rsp := peer(ini)
		equal := r.Intn(2) == 0
		question := ""
		if r.Intn(2) == 0 {
			question = "q-" + strconv.Itoa(r.Intn(1000))
		}
		secI := randBody(r, r.Intn(40))
		if prevI != nil && r.Intn(3) == 0 {
			secI = prevI // the initiator repeats the secret of the previous run
		}
		secR := secI
		if !equal {
			secR = append(append([]byte(nil), secI...), byte(1+r.Intn(255)))
			if r.Intn(2) == 0 && len(secI) > 0 {
				secR = append([]byte(nil), secI...)
				secR[r.Intn(len(secR))] ^= 0x20
			}
		}
		prevI = secI
		for _, p := range []string{"a", "b"} {
			s[p].chg, s[p].errs, s[p].dlv = nil, nil, nil
			w.conv[p].FragmentSize = randFragSize(r)
		}
		feed := func() {
			for _, p := range []string{"a", "b"} {
				for _, c := range s[p].chg {
					tr.event(p, c)
				}
				s[p].chg = nil
			}
		}
		if sg, wh := tr.auth(ini, string(secI), true); sg != "" {
			return fail(sg, "%s", wh)
		}
		ms, err := w.conv[ini].Authenticate(question, secI)
		if err != nil {
			return fail("otr-smp-run:authenticate-error", "Authenticate failed: %v", err)
		}
		w.post(ini, ms)
		w.randomDrain(r, s, 200000)
		feed()
		if tr.pending[rsp] {
			if got := w.conv[rsp].SMPQuestion(); got != question {
				// observed on the unchanged code: after a completed run the responder keeps the question of that run, and a
				// later SMP1 without a question does not clear it.  The property does not mention the question: counted.
				if question == "" && got != "" {
					res.stats["smp_stale_question_reported"]++
				} else {
					return fail("otr-smp-question", "SMPQuestion %q, sent %q", got, question)
				}
			}
			if r.Intn(6) > 0 { // sometimes the responder's user never answers
				if sg, wh := tr.auth(rsp, string(secR), true); sg != "" {
					return fail(sg, "%s", wh)
				}
				ms, err = w.conv[rsp].Authenticate("", secR)
				if err != nil {
					return fail("otr-smp-run:authenticate-error", "responder's Authenticate failed: %v", err)
				}
				w.post(rsp, ms)
				w.randomDrain(r, s, 200000)
				feed()
			}
		}
		for _, p := range []string{"a", "b"} {
			for _, d := range s[p].dlv { // an abort TLV that changes nothing looks like an empty message: only text counts
				if len(d) > 0 {
					return fail("otr-unexpected-delivery", "%s's user was handed a message of %d bytes during SMP", p, len(d))
				}
			}
		}
		if sg, wh := tr.finish(true); sg != "" {
			for kk, v := range tr.stats {
				res.stats[kk] += v
			}
			return fail(sg, "%s", wh)
		}
		if equal {
			res.stats["smp_equal"]++
		} else {
			res.stats["smp_unequal"]++
		}
	}
	for kk, v := range tr.stats {
		res.stats[kk] += v
	}
	if x := exchange("data-after-smp", 1+r.Intn(3)); x != nil {
		return *x
	}
	// ---- O4 and "exactly once": a modified copy and a replayed copy of a data message deliver nothing
	phase = "tamper"
	for round := 0; round < 3; round++ {
		p := []string{"a", "b"}[r.Intn(2)]
		q := peer(p)
		w.conv[p].FragmentSize = randFragSize(r)
		body := randBody(r, randLen(r))
		ms, err := w.conv[p].Send(body)
		if err != nil {
			return fail("otr-data-not-delivered", "Send failed: %v", err)
		}
		w.post(p, ms)
		orig := append([]wire(nil), w.net[q]...)
		// modified copy first
		victim := r.Intn(len(w.net[q]))
		keep := w.net[q]
		w.net[q] = keep[victim:]
		okT := w.tamperHead(q)
		tampered := append(append([]wire(nil), keep[:victim]...), w.net[q]...)
		w.net[q] = tampered
		s[q].dlv, s[q].errs, s[q].chg = nil, nil, nil
		if okT {
			for len(w.net[q]) > 0 {
				w.deliverOne(q, s)
			}
			if len(s[q].dlv) > 0 || len(s[q].chg) > 0 {
				return fail("otr-modified-accepted", "a data message of %d bytes with one bit flipped in its authenticated part (wire message %d of %d) was accepted: %d deliveries, changes %v",
					len(body), victim+1, len(keep), len(s[q].dlv), s[q].chg)
			}
			res.stats["tampered"]++
			// whatever Receive answered goes to the peer; drain
			w.randomDrain(r, s, 10000)
		}
		// now the genuine copy: must still be delivered, exactly once
		s[q].dlv, s[q].errs = nil, nil
		w.net[q] = nil
		for _, m := range orig {
			w.net[q] = append(w.net[q], wire{b: append([]byte(nil), m.b...), grp: m.grp, idx: m.idx})
		}
		for len(w.net[q]) > 0 {
			w.deliverOne(q, s)
		}
		if len(s[q].dlv) != 1 || !bytes.Equal(s[q].dlv[0], body) {
			return fail("otr-modified-changed-state", "after a rejected modified copy the genuine message (%d bytes) was not delivered: %d deliveries, errors %v", len(body), len(s[q].dlv), s[q].errs)
		}
		// replay of the same wire messages: nothing may be delivered a second time
		s[q].dlv, s[q].errs = nil, nil
		for _, m := range orig {
			w.net[q] = append(w.net[q], wire{b: append([]byte(nil), m.b...)})
		}
		for len(w.net[q]) > 0 {
			w.deliverOne(q, s)
		}
		if len(s[q].dlv) != 0 {
			return fail("otr-replay-accepted", "a replayed data message was delivered a second time")
		}
		res.stats["replayed"]++
		w.randomDrain(r, s, 10000)
	}
	if x := exchange("data-after-tamper", 1+r.Intn(2)); x != nil {
		return *x
	}
	return res
}

func TestRandom(t *testing.T) { withOut(t, runRandom) }

func runRandom(t *testing.T, out *vutil.Out) {
	n, _ := strconv.Atoi(vutil.Env("VERIF_N", "100"))
	results := make([]scenarioResult, n)
	var wg sync.WaitGroup
	sem := make(chan struct{}, 8)
	for i := 0; i < n; i++ {
		wg.Add(1)
		sem <- struct{}{}
		go func(i int) {
			defer wg.Done()
			defer func() { <-sem }()
			results[i] = scenario(vutil.Seed()*1000003 + int64(i))
		}(i)
	}
	wg.Wait()
	tot := map[string]int{}
	perSig := map[string]int{}
	for i, r := range results {
		out.Case(r.key + fmt.Sprint(i))
		for k, v := range r.stats {
			tot[k] += v
		}
		if r.sig != "" {
			perSig[r.sig]++
			if perSig[r.sig] <= 3 { // a few witnesses per signature, so that no signature is crowded out of the result
				out.Violation(r.sig, r.what, map[string]any{"scenario_seed": vutil.Seed()*1000003 + int64(i), "driver": "TestRandom"})
			}
			t.Errorf("%s: %s", r.sig, r.what)
		}
		if i < 3 {
			out.Sample(map[string]any{"random_scenario": r.key, "stats": r.stats})
		}
	}
	for k, v := range tot {
		out.Extra["random_"+k] = v
	}
}

// TestFragmentSizes: every FragmentSize 0..64 (and a few larger ones) through a whole conversation.  The package
// documents that sizes below minFragmentSize (18) are ignored; 18 itself leaves 0 characters per fragment.
func TestFragmentSizes(t *testing.T) { withOut(t, runFragmentSizes) }

func runFragmentSizes(t *testing.T, out *vutil.Out) {
	sizes := []int{-1}
	for i := 0; i <= 64; i++ {
		sizes = append(sizes, i)
	}
	sizes = append(sizes, 100, 199, 200, 1000, 100000)
	for _, fs := range sizes {
		func() {
			stage := "Receive(query)"
			defer func() {
				if x := recover(); x != nil {
					sig := panicSig(x, debug.Stack())
					if fs == 18 && strings.Contains(fmt.Sprint(x), "divide by zero") {
						sig = "otr-panic:FragmentSize=18:encode:integer-divide-by-zero"
					}
					out.Violation(sig, fmt.Sprintf("Conversation with FragmentSize=%d panics in %s: %v", fs, stage, x),
						map[string]any{"FragmentSize": fs, "stage": stage, "panic": fmt.Sprint(x)})
					t.Errorf("FragmentSize=%d: panic in %s: %v", fs, stage, x)
				}
			}()
			out.Case("fs=" + strconv.Itoa(fs))
			w := newWorld(vutil.Seed()*31+int64(fs), "")
			w.conv["a"].FragmentSize, w.conv["b"].FragmentSize = fs, fs
			w.net["b"] = append(w.net["b"], wire{b: []byte(otr.QueryMessage)})
			if sig, what := drainAndProbe(w, vutil.Seed()); sig != "" {
				out.Violation(sig, fmt.Sprintf("FragmentSize=%d: %s", fs, what), map[string]any{"FragmentSize": fs})
				t.Errorf("FragmentSize=%d: %s %s", fs, sig, what)
			}
		}()
	}
}

func withOut(t *testing.T, f func(*testing.T, *vutil.Out)) {
	out := vutil.NewOut()
	defer func() {
		if err := out.Write(); err != nil {
			t.Fatal(err)
		}
	}()
	f(t, out)
}

// TestDrivers: the three drivers that need no TLC output, in one process.
func TestDrivers(t *testing.T) {
	withOut(t, func(t *testing.T, out *vutil.Out) {
		runRandom(t, out)
		runMutate(t, out)
		runFragmentSizes(t, out)
	})
}
