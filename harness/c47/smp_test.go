package c47

import (
	"fmt"
	"strings"
)

// Property-level bookkeeping of the SMP runs of one session, independent of the model's predictions.
// A run starts with an Authenticate call of a user who has no unanswered SMPSecretNeeded; the other user's
// Authenticate after being asked supplies the responder's secret FOR THAT RUN.  A run is clean when it starts on a quiet,
// undisturbed network after a clean run that was answered, or by the same user as the previous one (a user who ignores
// the peer's question and starts a run of its own makes the peer abort: that is the protocol).  For a clean run that is
// over: the responder was asked exactly once, and if it answered, Complete on both sides iff the secrets of the run are
// equal, otherwise Failed on both sides and Complete on neither.
type smpRun struct {
	ini        string
	isec, rsec string
	answered   bool
	asked      int
	ev         map[string][]string
	clean      bool
	after      string // outcome of the previous run: first / complete / failed / unanswered / other
	roles      string // same-initiator / roles-swapped / -
	judged     bool
}

type smpTracker struct {
	runs      []*smpRun
	pending   map[string]bool // the user has been asked (SMPSecretNeeded) and has not called Authenticate since
	disturbed bool            // a fault, End or re-query happened
	stats     map[string]int
}

func newSMPTracker() *smpTracker {
	return &smpTracker{pending: map[string]bool{}, stats: map[string]int{}}
}

func (t *smpTracker) last() *smpRun {
	if len(t.runs) == 0 {
		return nil
	}
	return t.runs[len(t.runs)-1]
}

func has(l []string, e string) bool {
	for _, x := range l {
		if x == e {
			return true
		}
	}
	return false
}

func (r *smpRun) outcome() string {
	switch {
	case !r.answered:
		return "unanswered"
	case has(r.ev["a"], "smpcomplete") && has(r.ev["b"], "smpcomplete") && !has(r.ev["a"], "smpfailed") && !has(r.ev["b"], "smpfailed"):
		return "complete"
	case has(r.ev["a"], "smpfailed") || has(r.ev["b"], "smpfailed"):
		return "failed"
	}
	return "other"
}

// auth is called before p.Authenticate(_, sec); quiet: nothing is in flight.  It returns a violation of the previous
// run, which is over when a new one starts on a quiet network.
func (t *smpTracker) auth(p, sec string, quiet bool) (sig, what string) {
	if t.pending[p] {
		t.pending[p] = false
		if r := t.last(); r != nil {
			if r.ini == p || r.answered || r.asked == 0 {
				r.clean = false // an answer that does not belong to this run
			} else {
				r.rsec, r.answered = sec, true
			}
		}
		return
	}
	prev := t.last()
	if prev != nil && quiet && !t.disturbed {
		sig, what = t.judge(prev)
	}
	r := &smpRun{ini: p, isec: sec, ev: map[string][]string{}, after: "first", roles: "-"}
	r.clean = quiet && !t.disturbed
	if prev != nil {
		r.after = prev.outcome()
		r.roles = map[bool]string{true: "same-initiator", false: "roles-swapped"}[prev.ini == p]
		r.clean = r.clean && prev.clean && (prev.answered || prev.ini == p)
	}
	t.runs = append(t.runs, r)
	return
}

func (t *smpTracker) event(p, chg string) {
	if chg != "smpneeded" && chg != "smpcomplete" && chg != "smpfailed" {
		return
	}
	if chg == "smpneeded" {
		t.pending[p] = true
	}
	if r := t.last(); r != nil {
		r.ev[p] = append(r.ev[p], chg)
		if chg == "smpneeded" && p != r.ini {
			r.asked++
		}
	}
}

// finish judges the last run when the network is quiet and undisturbed.
func (t *smpTracker) finish(quiet bool) (sig, what string) {
	if r := t.last(); r != nil && quiet && !t.disturbed {
		return t.judge(r)
	}
	return
}

func (t *smpTracker) judge(r *smpRun) (sig, what string) {
	if !r.clean || r.judged {
		return
	}
	r.judged = true
	k := 0
	for i, x := range t.runs {
		if x == r {
			k = i + 1
		}
	}
	t.stats[fmt.Sprintf("smp_runs_judged_%s_%s", r.after, r.roles)]++
	if k >= 2 && r.after == "complete" {
		t.stats["smp_second_run_after_complete"]++
		if r.answered {
			t.stats["smp_second_run_after_complete_answered"]++
		}
	}
	ctx := fmt.Sprintf("SMP run %d of the session (started by %s, previous run: %s, %s; secrets of this run: initiator %q, responder %q answered=%v): a saw %v, b saw %v",
		k, r.ini, r.after, r.roles, r.isec, r.rsec, r.answered, r.ev["a"], r.ev["b"])
	pre := "otr-smp-run:after-" + r.after + ":" + r.roles + ":"
	if r.after == "first" {
		pre = "otr-smp-run:first:-:"
	}
	if r.asked != 1 {
		sym := "responder-not-asked"
		if r.asked > 1 {
			sym = "responder-asked-" + fmt.Sprint(r.asked) + "-times"
		}
		return pre + sym, "the responder's user was asked for the secret " + fmt.Sprint(r.asked) + " times instead of once. " + ctx
	}
	if !r.answered {
		return
	}
	bothC := has(r.ev["a"], "smpcomplete") && has(r.ev["b"], "smpcomplete")
	anyC := has(r.ev["a"], "smpcomplete") || has(r.ev["b"], "smpcomplete")
	bothF := has(r.ev["a"], "smpfailed") && has(r.ev["b"], "smpfailed")
	anyF := has(r.ev["a"], "smpfailed") || has(r.ev["b"], "smpfailed")
	if r.isec == r.rsec && (!bothC || anyF) {
		return pre + "equal-secrets-not-complete", "equal secrets, but the run did not end Complete on both sides. " + ctx
	}
	if r.isec != r.rsec && (!bothF || anyC) {
		return pre + "unequal-secrets-not-failed", "different secrets, but the run did not end Failed on both sides (Complete on neither). " + ctx
	}
	return
}

func (t *smpTracker) addStats(into map[string]int) {
	for k, v := range t.stats {
		into[k] += v
	}
}

// smpScript: the user-level SMP script of a behaviour (who calls Authenticate with which secret, in order) run
// sequentially -- everything in flight is delivered between two calls -- on a fresh pair of conversations, judged by the
// tracker alone.  A user whom the real code never asked does not answer.  Used when a replay leaves the model.
func smpScript(bh *behaviour, seed int64, stats map[string]int) (sig, what string) {
	w := newWorld(seed, bh.Hi)
	w.net["b"] = append(w.net["b"], wire{b: []byte("?OTRv2?")})
	if !w.drain(20000, nil) || !w.conv["a"].IsEncrypted() || !w.conv["b"].IsEncrypted() {
		return "", "" // the handshake is judged by fairFinish
	}
	tr := newSMPTracker()
	modelPending := map[string]bool{}
	feed := func() {
		w.drainChg(20000, func(p, chg string) { tr.event(p, chg) })
	}
	for _, s := range bh.H {
		if s.Act == "deliver" && s.Chg == "smpneeded" {
			modelPending[s.P] = true
		}
		if s.Act != "auth" {
			continue
		}
		wasAnswer := modelPending[s.P]
		modelPending[s.P] = false
		if wasAnswer && !tr.pending[s.P] {
			continue // in the model this call answered a question the real code never asked
		}
		if sg, wh := tr.auth(s.P, s.S, true); sg != "" {
			tr.addStats(stats)
			return sg, wh + " [sequential re-run of the behaviour's Authenticate calls]"
		}
		q := ""
		if s.Arg == 1 {
			q = "what is the answer?"
		}
		ms, err := w.conv[s.P].Authenticate(q, []byte("secret-"+s.S))
		if err != nil {
			return "otr-smp-run:authenticate-error", "Authenticate failed: " + err.Error()
		}
		w.post(s.P, ms)
		feed()
	}
	sig, what = tr.finish(true)
	tr.addStats(stats)
	if sig != "" {
		what += " [sequential re-run of the behaviour's Authenticate calls]"
	}
	return
}

// drainChg delivers everything in flight (alternating directions) and reports the SecurityChange of every Receive.
func (w *world) drainChg(max int, obs func(p, chg string)) bool {
	for n := 0; n < max; n++ {
		progressed := false
		for _, p := range []string{"a", "b"} {
			if len(w.net[p]) == 0 {
				continue
			}
			m := w.net[p][0]
			w.net[p] = w.net[p][1:]
			_, _, chg, ts, _ := w.conv[p].Receive(append([]byte(nil), m.b...))
			obs(p, chgName(chg))
			w.post(p, ts)
			progressed = true
		}
		if !progressed {
			return true
		}
	}
	return false
}

func hasAuth(bh *behaviour) bool {
	for _, s := range bh.H {
		if s.Act == "auth" {
			return true
		}
	}
	return false
}

var _ = strings.Contains
