// Harness for C47 (OTR).  The otr API is sequential (Receive/Send return the messages to transmit), so the harness
// is the network: two REAL otr.Conversation objects with the fixed DSA keys of the package's tests, one in-order
// queue of wire messages per direction.
package c47

import (
	"bytes"
	"crypto/sha256"
	"encoding/base64"
	"encoding/hex"
	"fmt"
	"math/big"
	"math/rand"
	"strconv"
	"strings"

	"golang.org/x/crypto/otr"
)

// DSA keys from otr_test.go (generation takes seconds; the property does not quantify over keys).
const aliceHex = "000000000080c81c2cb2eb729b7e6fd48e975a932c638b3a9055478583afa46755683e30102447f6da2d8bec9f386bbb5da6403b0040fee8650b6ab2d7f32c55ab017ae9b6aec8c324ab5844784e9a80e194830d548fb7f09a0410df2c4d5c8bc2b3e9ad484e65412be689cf0834694e0839fb2954021521ffdffb8f5c32c14dbf2020b3ce7500000014da4591d58def96de61aea7b04a8405fe1609308d000000808ddd5cb0b9d66956e3dea5a915d9aba9d8a6e7053b74dadb2fc52f9fe4e5bcc487d2305485ed95fed026ad93f06ebb8c9e8baf693b7887132c7ffdd3b0f72f4002ff4ed56583ca7c54458f8c068ca3e8a4dfa309d1dd5d34e2a4b68e6f4338835e5e0fb4317c9e4c7e4806dafda3ef459cd563775a586dd91b1319f72621bf3f00000080b8147e74d8c45e6318c37731b8b33b984a795b3653c2cd1d65cc99efe097cb7eb2fa49569bab5aab6e8a1c261a27d0f7840a5e80b317e6683042b59b6dceca2879c6ffc877a465be690c15e4a42f9a7588e79b10faac11b1ce3741fcef7aba8ce05327a2c16d279ee1b3d77eb783fb10e3356caa25635331e26dd42b8396c4d00000001420bec691fea37ecea58a5c717142f0b804452f57"
const bobHex = "000000000080a5138eb3d3eb9c1d85716faecadb718f87d31aaed1157671d7fee7e488f95e8e0ba60ad449ec732710a7dec5190f7182af2e2f98312d98497221dff160fd68033dd4f3a33b7c078d0d9f66e26847e76ca7447d4bab35486045090572863d9e4454777f24d6706f63e02548dfec2d0a620af37bbc1d24f884708a212c343b480d00000014e9c58f0ea21a5e4dfd9f44b6a9f7f6a9961a8fa9000000803c4d111aebd62d3c50c2889d420a32cdf1e98b70affcc1fcf44d59cca2eb019f6b774ef88153fb9b9615441a5fe25ea2d11b74ce922ca0232bd81b3c0fcac2a95b20cb6e6c0c5c1ace2e26f65dc43c751af0edbb10d669890e8ab6beea91410b8b2187af1a8347627a06ecea7e0f772c28aae9461301e83884860c9b656c722f0000008065af8625a555ea0e008cd04743671a3cda21162e83af045725db2eb2bb52712708dc0cc1a84c08b3649b88a966974bde27d8612c2861792ec9f08786a246fcadd6d8d3a81a32287745f309238f47618c2bd7612cb8b02d940571e0f30b96420bcd462ff542901b46109b1e5ad6423744448d20a57818a8cbb1647d0fea3b664e0000001440f9f2eb554cb00d45a5826b54bfa419b6980e48"

// The OTR group prime (RFC 3526, 1536 bit), generator 2: needed to bias commit digests.
var groupP, _ = new(big.Int).SetString("FFFFFFFFFFFFFFFFC90FDAA22168C234C4C6628B80DC1CD129024E088A67CC74020BBEA63B139B22514A08798E3404DDEF9519B3CD3A431B302B0A6DF25F14374FE1356D6D51C245E485B576625E7EC6F44C42E9A637ED6B0BFF5CB6F406B7EDEE386BFB5A899FA5AE9F24117C4B1FE649286651ECE45B3DC2007CB8A163BF0598DA48361C55D39A69163FA8FD24CF5F83655D23DCA3AD961C62F356208552BB9ED529077096966D670C354E4ABC9804F1746C08CA237327FFFFFFFFFFFFFFFF", 16)

// biasedReader is the Conversation.Rand of one party: a seeded stream in which every 40-byte draw (the size of a
// DH private value; generateDHCommit draws x this way) is resampled until SHA-256 of the MPI encoding of 2^x mod p
// -- the digest compareToDHCommit compares -- starts with a 1 bit (high) or a 0 bit (low).  bias 0: no bias.
type biasedReader struct {
	r    *rand.Rand
	bias int // +1 high, -1 low, 0 none
}

func (b *biasedReader) Read(buf []byte) (int, error) {
	for {
		for i := range buf {
			buf[i] = byte(b.r.Intn(256))
		}
		if len(buf) != 40 || b.bias == 0 {
			return len(buf), nil
		}
		gx := new(big.Int).Exp(big.NewInt(2), new(big.Int).SetBytes(buf), groupP)
		gb := gx.Bytes()
		mpi := append([]byte{byte(len(gb) >> 24), byte(len(gb) >> 16), byte(len(gb) >> 8), byte(len(gb))}, gb...)
		d := sha256.Sum256(mpi)
		if (d[0]&0x80 != 0) == (b.bias > 0) {
			return len(buf), nil
		}
	}
}

func newConv(keyHex string, rd *biasedReader) *otr.Conversation {
	c := new(otr.Conversation)
	c.PrivateKey = new(otr.PrivateKey)
	kb, _ := hex.DecodeString(keyHex)
	if _, ok := c.PrivateKey.Parse(kb); !ok {
		panic("cannot parse test key")
	}
	c.Rand = rd
	return c
}

// wire is one message on the network: raw bytes plus, for bookkeeping of tampering, the group (all fragments of
// the logical message it belongs to) and its index in the group.
type wire struct {
	b   []byte
	grp *group
	idx int
}
type group struct{ frags [][]byte }

type world struct {
	conv map[string]*otr.Conversation
	net  map[string][]wire // net[p]: in flight to p
}

func peer(p string) string {
	if p == "a" {
		return "b"
	}
	return "a"
}

// newWorld: hi = party whose commit digests are the greater ones ("" = unbiased).
func newWorld(seed int64, hi string) *world {
	w := &world{conv: map[string]*otr.Conversation{}, net: map[string][]wire{}}
	bias := func(p string) int {
		if hi == "" {
			return 0
		}
		if hi == p {
			return 1
		}
		return -1
	}
	w.conv["a"] = newConv(aliceHex, &biasedReader{r: rand.New(rand.NewSource(seed*2 + 1)), bias: bias("a")})
	w.conv["b"] = newConv(bobHex, &biasedReader{r: rand.New(rand.NewSource(seed*2 + 2)), bias: bias("b")})
	return w
}

// post puts the messages p produced on the channel to its peer, grouped into logical messages.
func (w *world) post(from string, msgs [][]byte) (groups []*group) {
	to := peer(from)
	var cur *group
	for _, m := range msgs {
		k, n, _, isFrag := parseFragment(m)
		if !isFrag || k == 1 || cur == nil {
			cur = &group{}
			groups = append(groups, cur)
		}
		cur.frags = append(cur.frags, m)
		w.net[to] = append(w.net[to], wire{b: m, grp: cur, idx: len(cur.frags) - 1})
		if !isFrag || k == n {
			cur = nil
		}
	}
	return
}

// parseFragment: "?OTR,k,n,payload," -> k, n, payload.
func parseFragment(m []byte) (k, n int, payload []byte, ok bool) {
	if !bytes.HasPrefix(m, []byte("?OTR,")) {
		return 0, 0, nil, false
	}
	parts := bytes.Split(m[5:], []byte(","))
	if len(parts) != 4 {
		return 0, 0, nil, false
	}
	k, e1 := strconv.Atoi(string(parts[0]))
	n, e2 := strconv.Atoi(string(parts[1]))
	if e1 != nil || e2 != nil {
		return 0, 0, nil, false
	}
	return k, n, parts[2], true
}

// whole returns the unfragmented text "?OTR:....." of a group.
func (g *group) whole() []byte {
	if len(g.frags) == 1 {
		if _, _, pl, ok := parseFragment(g.frags[0]); ok {
			return pl
		}
		return g.frags[0]
	}
	var s []byte
	for _, f := range g.frags {
		_, _, pl, _ := parseFragment(f)
		s = append(s, pl...)
	}
	return s
}

// decode returns the binary OTR message of an encoded text, or nil.
func decodeOTR(text []byte) []byte {
	if !bytes.HasPrefix(text, []byte("?OTR:")) || len(text) < 6 || text[len(text)-1] != '.' {
		return nil
	}
	d, err := base64.StdEncoding.DecodeString(string(text[5 : len(text)-1]))
	if err != nil {
		return nil
	}
	return d
}

func encodeOTR(bin []byte) []byte {
	return []byte("?OTR:" + base64.StdEncoding.EncodeToString(bin) + ".")
}

// kind of a logical message as seen on the wire.
func (g *group) kind() string {
	t := g.whole()
	if strings.Contains(string(t), "?OTRv2?") || bytes.HasPrefix(t, []byte("?OTRv")) {
		return "query"
	}
	d := decodeOTR(t)
	if len(d) < 3 {
		return "other"
	}
	switch d[2] {
	case 2:
		return "commit"
	case 3:
		return "data"
	case 10:
		return "dhkey"
	case 17:
		return "reveal"
	case 18:
		return "sig"
	}
	return "other"
}

// dataLayout returns the offsets of a binary data message: start of the encrypted payload bytes, end of the MAC
// (= end of the authenticated part plus the MAC itself).  ok=false if d is not a well-formed data message.
func dataLayout(d []byte) (yStart, encStart, macStart, macEnd int, ok bool) {
	if len(d) < 3+1+4+4+4 || d[2] != 3 {
		return
	}
	o := 3 + 1 + 4 + 4
	yl := int(d[o])<<24 | int(d[o+1])<<16 | int(d[o+2])<<8 | int(d[o+3])
	yStart = o + 4
	o = yStart + yl + 8
	if o+4 > len(d) {
		return
	}
	el := int(d[o])<<24 | int(d[o+1])<<16 | int(d[o+2])<<8 | int(d[o+3])
	encStart = o + 4
	macStart = encStart + el
	macEnd = macStart + 20
	if macEnd+4 > len(d) {
		return
	}
	return yStart, encStart, macStart, macEnd, true
}

// refragment rebuilds the fragments of g from a new whole text of the same length.
func (g *group) setWhole(text []byte) {
	if len(g.frags) == 1 {
		if k, n, _, ok := parseFragment(g.frags[0]); ok {
			g.frags[0] = []byte(fmt.Sprintf("?OTR,%d,%d,%s,", k, n, text))
		} else {
			g.frags[0] = text
		}
		return
	}
	off := 0
	for i, f := range g.frags {
		k, n, pl, _ := parseFragment(f)
		g.frags[i] = []byte(fmt.Sprintf("?OTR,%d,%d,%s,", k, n, text[off:off+len(pl)]))
		off += len(pl)
	}
}

// fragRange returns the range of characters of the whole text carried by fragment idx.
func (g *group) fragRange(idx int) (from, to int) {
	if len(g.frags) == 1 {
		return 0, len(g.whole())
	}
	off := 0
	for i, f := range g.frags {
		_, _, pl, _ := parseFragment(f)
		if i == idx {
			return off, off + len(pl)
		}
		off += len(pl)
	}
	return 0, 0
}

// tamperHead flips one bit of the authenticated part (DH value, counter, ciphertext or MAC) of the data message
// at the head of p's channel, inside the wire message at the head.  Returns false if that cannot be done.
func (w *world) tamperHead(p string) bool {
	if len(w.net[p]) == 0 {
		return false
	}
	h := w.net[p][0]
	if h.grp != nil && len(h.grp.frags) == 1 && h.grp.kind() == "commit" {
		// a malformed D-H commit: the message cut down to its header (processDHCommit fails on the first field)
		w.net[p][0].b = encodeOTR([]byte{0, 2, 2})
		return true
	}
	text := append([]byte(nil), h.grp.whole()...)
	d := decodeOTR(text)
	yStart, _, _, macEnd, ok := dataLayout(d)
	if !ok {
		return false
	}
	from, to := h.grp.fragRange(h.idx)
	// bytes whose 4-character base64 group lies wholly inside this fragment
	lo := 0
	if from > 5 {
		lo = 3 * ((from - 5 + 3) / 4)
	}
	hiB := 3*((to-5)/4) - 1
	if lo < yStart {
		lo = yStart
	}
	if hiB > macEnd-1 {
		hiB = macEnd - 1
	}
	if lo > hiB {
		return false
	}
	o := (lo + hiB) / 2
	d[o] ^= 0x04
	nt := encodeOTR(d)
	if len(nt) != len(text) {
		return false
	}
	// only characters inside [from,to) may differ
	for i := range nt {
		if nt[i] != text[i] && (i < from || i >= to) {
			return false
		}
	}
	// rewrite only this wire message (the others of the group may already have been delivered)
	if k, n, _, isFrag := parseFragment(h.b); isFrag {
		w.net[p][0].b = []byte(fmt.Sprintf("?OTR,%d,%d,%s,", k, n, nt[from:to]))
	} else {
		w.net[p][0].b = nt
	}
	return true
}

// bodyOf materialises the user message with the given model id: deterministic, no NUL byte, lengths around the
// padding boundary (generateData pads len+5 up to a multiple of 256).
func bodyOf(id int, seed int64) []byte {
	lens := []int{0, 1, 17, 250, 251, 252, 300, 100, 507, 5}
	n := lens[(id+int(seed))%len(lens)]
	r := rand.New(rand.NewSource(int64(id)*7919 + seed))
	b := make([]byte, n)
	for i := range b {
		b[i] = byte(1 + r.Intn(255))
	}
	return b
}

func chgName(c otr.SecurityChange) string {
	switch c {
	case otr.NoChange:
		return "none"
	case otr.NewKeys:
		return "newkeys"
	case otr.SMPSecretNeeded:
		return "smpneeded"
	case otr.SMPComplete:
		return "smpcomplete"
	case otr.SMPFailed:
		return "smpfailed"
	case otr.ConversationEnded:
		return "ended"
	}
	return fmt.Sprintf("change(%d)", int(c))
}

// fragSizeFor returns a FragmentSize that makes encode cut a text of about estLen characters into n pieces:
// encode uses FragmentSize-18 characters per piece and floor(len/perPiece)+1 pieces.
func fragSizeFor(n, estLen int) int {
	switch n {
	case 1:
		return 0
	case 2:
		return estLen*3/4 + 18 // pieces of 0.75 L: two pieces for 0.75 L <= len < 1.5 L
	default:
		per := estLen * 100 / (100*n - 58) // n=3: 0.413 L -> three pieces for 0.83 L <= len < 1.24 L
		return per + 18
	}
}

// panicSig names a panic by the innermost function of package otr on the stack and the runtime's message, so that
// a known panic (known_findings.json) does not hide a different one.
func panicSig(x any, stack []byte) string {
	fn := "?"
	for _, line := range strings.Split(string(stack), "\n") {
		if i := strings.Index(line, "golang.org/x/crypto/otr."); i >= 0 && !strings.HasPrefix(line, "\t") {
			f := line[i+len("golang.org/x/crypto/otr."):]
			if j := strings.LastIndex(f, "("); j > 0 {
				f = f[:j]
			}
			if fn == "?" {
				fn = strings.TrimPrefix(f, "(*Conversation).")
			}
			if strings.HasPrefix(f, "(*Conversation).") { // innermost method of Conversation: the call site
				fn = strings.TrimPrefix(f, "(*Conversation).")
				break
			}
		}
	}
	msg := fmt.Sprint(x)
	msg = strings.TrimPrefix(msg, "runtime error: ")
	if i := strings.Index(msg, " ["); i > 0 { // index/slice values
		msg = msg[:i]
	}
	return "otr-panic:" + fn + ":" + strings.ReplaceAll(msg, " ", "-")
}
