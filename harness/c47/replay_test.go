package c47

import (
	"bytes"
	"encoding/json"
	"fmt"
	"runtime/debug"
	"sync"
	"testing"

	"verif/harness/vutil"
)

// One call of a TLC-generated behaviour with the model's predicted observables.
type step struct {
	Act  string          `json:"act"`
	P    string          `json:"p"`
	Arg  int             `json:"arg"`
	S    string          `json:"s"` // auth: the secret typed for this run
	Body int             `json:"body"`
	EncF bool            `json:"encf"`
	Chg  string          `json:"chg"`
	Err  bool            `json:"err"`
	Outs []string        `json:"outs"`
	Enc  map[string]bool `json:"enc"`
}
type behaviour struct {
	Hi     string         `json:"hi"`
	NF     map[string]int `json:"nf"`
	Inbox0 []string       `json:"inbox0"`
	H      []step         `json:"h"`
}

// estimated text lengths per message kind (characters of "?OTR:...."), learnt from a pilot conversation
var (
	estOnce sync.Once
	estLen  map[string]int
)

func learnLengths() {
	estLen = map[string]int{}
	w := newWorld(4242, "a")
	rec := func(kind string, msgs [][]byte) {
		for _, m := range msgs {
			if _, ok := estLen[kind]; !ok {
				estLen[kind] = len(m)
			}
		}
	}
	a, b := w.conv["a"], w.conv["b"]
	_, _, _, m1, _ := b.Receive([]byte("?OTRv2?"))
	rec("commit", m1)
	_, _, _, m2, _ := a.Receive(m1[0])
	rec("dhkey", m2)
	_, _, _, m3, _ := b.Receive(m2[0])
	rec("reveal", m3)
	_, _, _, m4, _ := a.Receive(m3[0])
	rec("sig", m4)
	b.Receive(m4[0])
	d, _ := a.Send([]byte("x"))
	rec("none", d)
	b.Receive(d[0])
	d, _ = b.Send([]byte("x"))
	a.Receive(d[0])
	s1, _ := a.Authenticate("question", []byte("s"))
	rec("smp1q", s1)
	rec("smp1", [][]byte{s1[0][:len(s1[0])-12]})
	b.Receive(s1[0])
	s2, _ := b.Authenticate("", []byte("s"))
	rec("smp2", s2)
	_, _, _, s3, _ := a.Receive(s2[0])
	rec("smp3", s3)
	_, _, _, s4, _ := b.Receive(s3[0])
	rec("smp4", s4)
	a.Receive(s4[0])
	e := a.End()
	rec("disc", e)
	rec("abort", e)
}

type divergence struct {
	Field string
	Step  int
	Want  any
	Got   any
}

// replay steps one behaviour through two real Conversations.  It returns a property-level violation
// (sig, what), or a divergence in details the property is silent about, or neither.
func replay(bh *behaviour, seed int64, tr *smpTracker) (sig, what string, div *divergence, unrealised string) {
	estOnce.Do(learnLengths)
	w := newWorld(seed, bh.Hi)
	for _, p := range bh.Inbox0 {
		w.net[p] = append(w.net[p], wire{b: []byte("?OTRv2?"), grp: &group{frags: [][]byte{[]byte("?OTRv2?")}}})
	}
	stepNo := 0
	faulted := false
	sentBodies := map[string][][]byte{}
	dlvIdx := map[string]int{}
	defer func() {
		if r := recover(); r != nil {
			st := debug.Stack()
			sig = panicSig(r, st)
			what = fmt.Sprintf("panic at step %d (%s %s): %v\n%s", stepNo, bh.H[stepNo].Act, bh.H[stepNo].P, r, st)
		}
	}()
	for i, s := range bh.H {
		stepNo = i
		c := w.conv[s.P]
		// configure the encoder for the number of fragments the model chose
		if len(s.Outs) > 0 {
			est := estLen[s.Outs[len(s.Outs)-1]]
			if s.Act == "send" {
				// the padded plaintext grows by 256 bytes for every 256 bytes of len(body)+5
				est += (len(bodyOf(s.Arg, seed)) + 5) / 256 * 256 * 4 / 3
			}
			if s.Outs[len(s.Outs)-1] != "commit" && s.Outs[len(s.Outs)-1] != "dhkey" && s.Outs[len(s.Outs)-1] != "reveal" && s.Outs[len(s.Outs)-1] != "sig" {
				est += 40 // revealed MAC keys: 0..80 bytes
			}
			c.FragmentSize = fragSizeFor(bh.NF[s.P], est)
		}
		var out []byte
		var encf bool
		var chg = "none"
		var toSend [][]byte
		var err error
		switch s.Act {
		case "deliver":
			if len(w.net[s.P]) == 0 {
				return "", "", nil, "model delivers from an empty channel"
			}
			m := w.net[s.P][0]
			w.net[s.P] = w.net[s.P][1:]
			var ch = c.IsEncrypted()
			_ = ch
			o, e, sc, ts, er := c.Receive(append([]byte(nil), m.b...))
			out, encf, chg, toSend, err = o, e, chgName(sc), ts, er
		case "send":
			toSend, err = c.Send(bodyOf(s.Arg, seed))
		case "end":
			tr.disturbed = true
			toSend = c.End()
		case "auth":
			q := ""
			if s.Arg == 1 {
				q = "what is the answer?"
			}
			if sg, wh := tr.auth(s.P, s.S, len(w.net["a"])+len(w.net["b"]) == 0); sg != "" {
				return sg, fmt.Sprintf("step %d: %s", i, wh), nil, ""
			}
			toSend, err = c.Authenticate(q, []byte("secret-"+s.S))
		case "query": // p's user sends the query again (re-keying): outside the property's scope, conformance only
			faulted = true
			tr.disturbed = true
			w.net[peer(s.P)] = append(w.net[peer(s.P)], wire{b: []byte("?OTRv2?"), grp: &group{frags: [][]byte{[]byte("?OTRv2?")}}})
			continue
		case "drop":
			faulted = true
			tr.disturbed = true
			w.net[s.P] = w.net[s.P][1:]
			continue
		case "dup":
			faulted = true
			tr.disturbed = true
			q := w.net[s.P]
			cp := q[0]
			cp.b = append([]byte(nil), cp.b...)
			nq := append([]wire{}, q[:s.Arg]...)
			nq = append(nq, cp)
			nq = append(nq, q[s.Arg:]...)
			w.net[s.P] = nq
			continue
		case "tamper":
			faulted = true
			tr.disturbed = true
			if !w.tamperHead(s.P) {
				return "", "", nil, "cannot modify the authenticated part inside this fragment"
			}
			continue
		default:
			return "", "", nil, "unknown action " + s.Act
		}
		groups := w.post(s.P, toSend)

		// ---- property-level observables: a difference here contradicts the property directly.
		// What a user is handed must be, in order and without repetition, messages the peer's user sent; and
		// without network faults every message the model delivers must be delivered.
		if s.Act == "send" && err == nil {
			sentBodies[s.P] = append(sentBodies[s.P], bodyOf(s.Arg, seed))
		}
		var delivDiv *divergence
		if s.Act == "deliver" && len(out) > 0 {
			from := sentBodies[peer(s.P)]
			j := dlvIdx[s.P]
			for j < len(from) && !bytes.Equal(from[j], out) {
				j++
			}
			if j >= len(from) || !encf {
				return "otr-unexpected-delivery", fmt.Sprintf("step %d: Receive handed %d bytes (encrypted=%v) to %s's user that are not the next undelivered message(s) the peer sent: changed, repeated, reordered or forged (model: %s)",
					i, len(out), encf, s.P, map[bool]string{true: "delivers message " + fmt.Sprint(s.Body), false: "delivers nothing"}[s.Body > 0]), nil, ""
			}
			dlvIdx[s.P] = j + 1
			if s.Body == 0 || !bytes.Equal(out, bodyOf(s.Body, seed)) {
				delivDiv = &divergence{"delivered message", i, s.Body, fmt.Sprintf("genuine message #%d of the peer", j+1)}
			}
		} else if s.Body > 0 {
			want := bodyOf(s.Body, seed)
			if len(want) > 0 || err != nil || !encf {
				if !faulted {
					return "otr-data-not-delivered", fmt.Sprintf("step %d: Receive should deliver user message %d (%d bytes) unchanged and marked encrypted; got %d bytes, encrypted=%v, err=%v", i, s.Body, len(want), len(out), encf, err), nil, ""
				}
				delivDiv = &divergence{"delivered message", i, s.Body, fmt.Sprintf("nothing (err %v)", err)}
			} else {
				dlvIdx[s.P]++
			}
		}
		if delivDiv != nil {
			return "", "", delivDiv, ""
		}
		if s.Act == "deliver" {
			tr.event(s.P, chg)
		}
		for _, ev := range []string{"smpcomplete", "smpfailed", "smpneeded"} {
			if (chg == ev) != (s.Chg == ev) {
				// the SMP events differ from the model's: what that means for the property is decided per run by the tracker
				// (here, if the behaviour goes on, and in the sequential re-run of the behaviour's Authenticate calls)
				return "", "", &divergence{"SecurityChange", i, s.Chg, chg}, ""
			}
		}
		// ---- details the property is silent about: divergence (decided by fair completion, see finish)
		kinds := []string{}
		for _, g := range groups {
			kinds = append(kinds, g.kind())
		}
		wantKinds := []string{}
		for _, k := range s.Outs {
			switch k {
			case "commit", "dhkey", "reveal", "sig":
				wantKinds = append(wantKinds, k)
			default:
				wantKinds = append(wantKinds, "data")
			}
		}
		if fmt.Sprint(kinds) != fmt.Sprint(wantKinds) {
			return "", "", &divergence{"messages to send", i, wantKinds, kinds}, ""
		}
		if (err != nil) != s.Err {
			return "", "", &divergence{"error", i, s.Err, fmt.Sprint(err)}, ""
		}
		if chg != s.Chg {
			return "", "", &divergence{"SecurityChange", i, s.Chg, chg}, ""
		}
		if s.Act == "deliver" && encf != s.EncF {
			return "", "", &divergence{"encrypted flag", i, s.EncF, encf}, ""
		}
		for _, p := range []string{"a", "b"} {
			if w.conv[p].IsEncrypted() != s.Enc[p] {
				return "", "", &divergence{"IsEncrypted(" + p + ")", i, s.Enc[p], w.conv[p].IsEncrypted()}, ""
			}
		}
		for _, g := range groups {
			if len(g.frags) != bh.NF[s.P] {
				return "", "", nil, fmt.Sprintf("encoder produced %d fragments, wanted %d (length estimate off)", len(g.frags), bh.NF[s.P])
			}
		}
	}
	if sg, wh := tr.finish(len(w.net["a"])+len(w.net["b"]) == 0); sg != "" {
		return sg, "end of the behaviour: " + wh, nil, ""
	}
	return "", "", nil, ""
}

// fairFinish decides what a divergence means for the property: a fresh pair of conversations, simultaneous or
// one-sided start as in the behaviour, every message delivered in order until the network is quiet; then both
// sides must be encrypted and a message each way must be delivered unchanged.
func fairFinish(bh *behaviour, seed int64) (sig, what string) {
	defer func() {
		if r := recover(); r != nil {
			st := debug.Stack()
			sig, what = panicSig(r, st), fmt.Sprintf("panic in fair completion: %v\n%s", r, st)
		}
	}()
	w := newWorld(seed, bh.Hi)
	for _, p := range []string{"a", "b"} {
		w.conv[p].FragmentSize = fragSizeFor(bh.NF[p], 400)
	}
	for _, p := range bh.Inbox0 {
		w.net[p] = append(w.net[p], wire{b: []byte("?OTRv2?")})
	}
	return drainAndProbe(w, seed)
}

func drainAndProbe(w *world, seed int64) (sig, what string) {
	if !w.drain(20000, nil) {
		return "otr-never-quiet", "the handshake keeps exchanging messages (20000 deliveries) and never completes"
	}
	if !w.conv["a"].IsEncrypted() || !w.conv["b"].IsEncrypted() {
		return "otr-not-encrypted", fmt.Sprintf("after a query and delivery of every message: IsEncrypted a=%v b=%v", w.conv["a"].IsEncrypted(), w.conv["b"].IsEncrypted())
	}
	for i, p := range []string{"a", "b"} {
		body := bodyOf(90+i, seed)
		ms, err := w.conv[p].Send(body)
		if err != nil {
			return "otr-data-not-delivered", "Send failed: " + err.Error()
		}
		w.post(p, ms)
		var got [][]byte
		w.drain(20000, func(to string, out []byte, enc bool, err error) {
			if to == peer(p) && enc && err == nil && out != nil {
				got = append(got, out)
			}
		})
		if len(got) != 1 || !bytes.Equal(got[0], body) {
			return "otr-data-not-delivered", fmt.Sprintf("message of %d bytes from %s not delivered unchanged exactly once (%d deliveries)", len(body), p, len(got))
		}
	}
	return "", ""
}

// drain delivers every message in flight, alternating directions, until quiet.  obs sees every Receive result.
func (w *world) drain(max int, obs func(to string, out []byte, enc bool, err error)) bool {
	for n := 0; n < max; n++ {
		progressed := false
		for _, p := range []string{"a", "b"} {
			if len(w.net[p]) == 0 {
				continue
			}
			m := w.net[p][0]
			w.net[p] = w.net[p][1:]
			out, enc, _, ts, err := w.conv[p].Receive(append([]byte(nil), m.b...))
			if obs != nil {
				obs(p, out, enc, err)
			}
			w.post(p, ts)
			progressed = true
		}
		if !progressed {
			return true
		}
	}
	return false
}

func TestReplay(t *testing.T) {
	out := vutil.NewOut()
	defer func() {
		if err := out.Write(); err != nil {
			t.Fatal(err)
		}
	}()
	var cases []behaviour
	var raw [][]byte
	err := vutil.ReadNDJSON(vutil.Env("VERIF_CASES", ""), func(line []byte) error {
		var b behaviour
		if err := json.Unmarshal(line, &b); err != nil {
			return err
		}
		cases = append(cases, b)
		raw = append(raw, append([]byte(nil), line...))
		return nil
	})
	if err != nil {
		t.Fatal(err)
	}
	estOnce.Do(learnLengths)
	type result struct {
		sig, what  string
		div        *divergence
		unrealised string
		benign     bool
		stats      map[string]int
	}
	res := make([]result, len(cases))
	var wg sync.WaitGroup
	sem := make(chan struct{}, 8)
	for i := range cases {
		wg.Add(1)
		sem <- struct{}{}
		go func(i int) {
			defer wg.Done()
			defer func() { <-sem }()
			seed := vutil.Seed()*100003 + int64(i)
			r := &res[i]
			tr := newSMPTracker()
			r.sig, r.what, r.div, r.unrealised = replay(&cases[i], seed, tr)
			r.stats = map[string]int{}
			if r.div == nil {
				tr.addStats(r.stats)
			}
			if r.sig == "" && r.div != nil && hasAuth(&cases[i]) {
				if sg, wh := smpScript(&cases[i], seed, r.stats); sg != "" {
					r.sig = sg
					r.what = fmt.Sprintf("after diverging from the model at step %d (%s: model %v, code %v): %s", r.div.Step, r.div.Field, r.div.Want, r.div.Got, wh)
				}
			}
			if r.sig == "" && r.div != nil {
				// the real code left the model in a detail the property does not fix: does the property still hold?
				r.sig, r.what = fairFinish(&cases[i], seed)
				if r.sig != "" {
					r.what = fmt.Sprintf("after diverging from the model at step %d (%s: model %v, code %v): %s", r.div.Step, r.div.Field, r.div.Want, r.div.Got, r.what)
				} else {
					r.benign = true
				}
			}
		}(i)
	}
	wg.Wait()
	divs, unreal := 0, 0
	smpStats := map[string]int{}
	perSig := map[string]int{}
	var divSamples, unrealSamples []any
	for i := range cases {
		r := res[i]
		key := ""
		if len(cases[i].H) > 0 {
			key = string(raw[i])
		}
		out.Case(key)
		if r.sig != "" {
			perSig[r.sig]++
			if perSig[r.sig] <= 3 { // a few witnesses per signature, so that no signature is crowded out of the result
				out.Violation(r.sig, r.what, map[string]any{"behaviour": json.RawMessage(raw[i]), "seed": vutil.Seed()*100003 + int64(i)})
			}
			t.Errorf("%s: %s", r.sig, r.what)
		}
		if r.div != nil {
			divs++
			if len(divSamples) < 5 {
				divSamples = append(divSamples, map[string]any{"field": r.div.Field, "step": r.div.Step, "model": r.div.Want, "code": fmt.Sprint(r.div.Got), "behaviour": json.RawMessage(raw[i])})
			}
		}
		for k, v := range r.stats {
			smpStats[k] += v
		}
		if r.unrealised != "" {
			unreal++
			if len(unrealSamples) < 3 {
				unrealSamples = append(unrealSamples, r.unrealised)
			}
		}
		if i < 3 {
			out.Sample(json.RawMessage(raw[i]))
		}
	}
	out.Extra["divergences"] = divs
	for k, v := range smpStats {
		out.Extra["replay_"+k] = v
	}
	for k, v := range perSig {
		out.Extra["violations_"+k] = v
	}
	out.Extra["unrealised"] = unreal
	if divs > 0 {
		out.Extra["divergence_samples"] = divSamples
	}
	if unreal > 0 {
		out.Extra["unrealised_samples"] = unrealSamples
	}
}
