package c47

import (
	"bytes"
	"encoding/base64"
	"fmt"
	"math/rand"
	"runtime/debug"
	"strconv"
	"sync"
	"testing"

	"golang.org/x/crypto/otr"
	"verif/harness/vutil"
)

// Mutation of encoded messages at every field boundary, truncations, wrong type/version bytes, damaged text
// framing and fragment headers, and seeded random inputs: Receive must reject or ignore them without panicking
// ("Receive never panics on any input"); for data messages a modified message must deliver nothing and must not
// disturb the conversation (the genuine message is still delivered afterwards).

type mutation struct {
	name  string
	text  []byte // the mutated wire text
	tail  bool   // only the unauthenticated trailer (revealed MAC keys) of a data message differs
	equiv bool   // the same message in another legitimate framing (one fragment of one)
}

// binMutations: mutations of the binary message d (re-encoded), bounded in number.
func binMutations(d []byte, r *rand.Rand, budget int) (ms []mutation) {
	_, _, _, macEnd, isData := dataLayout(d)
	add := func(name string, nd []byte) {
		tail := false
		if isData && len(nd) >= macEnd && bytes.Equal(nd[:macEnd], d[:macEnd]) {
			tail = true
		}
		ms = append(ms, mutation{name: name, text: encodeOTR(nd), tail: tail})
	}
	flip := func(o int, bit byte) []byte {
		nd := append([]byte(nil), d...)
		nd[o] ^= bit
		return nd
	}
	// field boundaries: walk the message as a sequence of plausible 4-byte length prefixed fields as well
	bounds := map[int]bool{0: true, 1: true, 2: true, 3: true, len(d) - 1: true}
	if isData {
		y, e, m, me, _ := dataLayout(d)
		for _, o := range []int{3, 4, 7, 8, 11, 12, 15, y, e - 12, e - 5, e - 4, e - 1, e, m - 1, m, me - 1, me, me + 3, me + 4} {
			if o >= 0 && o < len(d) {
				bounds[o] = true
			}
		}
	} else {
		o := 3
		for o+4 <= len(d) {
			l := int(d[o])<<24 | int(d[o+1])<<16 | int(d[o+2])<<8 | int(d[o+3])
			bounds[o], bounds[o+3] = true, true
			if o+4 < len(d) {
				bounds[o+4] = true
			}
			if l < 0 || o+4+l > len(d) {
				break
			}
			if o+4+l-1 >= 0 && o+4+l-1 < len(d) {
				bounds[o+4+l-1] = true
			}
			o += 4 + l
		}
	}
	for o := range bounds {
		if o < 0 || o >= len(d) {
			continue
		}
		add(fmt.Sprintf("flip-lowbit@%d", o), flip(o, 0x01))
		add(fmt.Sprintf("flip-highbit@%d", o), flip(o, 0x80))
		add(fmt.Sprintf("truncate@%d", o), append([]byte(nil), d[:o]...))
		if o+1 <= len(d) {
			add(fmt.Sprintf("truncate@%d", o+1), append([]byte(nil), d[:o+1]...))
		}
		nd := append([]byte(nil), d...)
		nd[o] = 0xff
		add(fmt.Sprintf("set-ff@%d", o), nd)
	}
	// wrong type byte / version
	for _, v := range []byte{0, 1, 2, 3, 4, 9, 10, 11, 16, 17, 18, 19, 0x7f, 0xff} {
		if v != d[2] {
			nd := append([]byte(nil), d...)
			nd[2] = v
			add(fmt.Sprintf("type=%d", v), nd)
		}
	}
	for _, v := range [][2]byte{{0, 1}, {0, 3}, {2, 0}, {0xff, 0xff}} {
		nd := append([]byte(nil), d...)
		nd[0], nd[1] = v[0], v[1]
		add(fmt.Sprintf("version=%d.%d", v[0], v[1]), nd)
	}
	// trailing garbage, empty
	add("append-1", append(append([]byte(nil), d...), 0))
	add("append-64", append(append([]byte(nil), d...), make([]byte, 64)...))
	add("header-only", append([]byte(nil), d[:3]...))
	// random single bit flips over the whole message
	for len(ms) < budget {
		o := r.Intn(len(d))
		add(fmt.Sprintf("flip-random@%d", o), flip(o, 1<<uint(r.Intn(8))))
	}
	return ms
}

// textMutations: damage to the text framing of the encoded message t ("?OTR:base64.") and fragment headers.
func textMutations(t []byte) (ms []mutation) {
	add := func(name string, x []byte) { ms = append(ms, mutation{name: name, text: x}) }
	add("no-dot", t[:len(t)-1])
	add("double-dot", append(append([]byte(nil), t...), '.'))
	add("prefix-only", []byte("?OTR:"))
	add("prefix-dot", []byte("?OTR:."))
	add("bad-base64-char", append([]byte("?OTR:!"), t[6:]...))
	add("base64-minus-1", append(append([]byte(nil), t[:len(t)-2]...), '.'))
	add("base64-padding", []byte("?OTR:AAI=."))
	add("base64-short", []byte("?OTR:AA==."))
	add("lowercase-prefix", append([]byte("?otr:"), t[5:]...))
	b := t[5 : len(t)-1]
	half := len(b) / 2
	for _, f := range []string{
		"?OTR,1,1,%s,", "?OTR,0,1,%s,", "?OTR,1,0,%s,", "?OTR,2,1,%s,", "?OTR,-1,1,%s,", "?OTR,1,-1,%s,",
		"?OTR,1,1,%s", "?OTR,1,1,%s,,", "?OTR,1,%s,", "?OTR,,,%s,", "?OTR,a,b,%s,", "?OTR,1,99999999999999999999,%s,",
		"?OTR,99999999999999999999,1,%s,", "?OTR,1,2,%s,", "?OTR,2,2,%s,", "?OTR,3,3,%s,", "?OTR,1,1,,", "?OTR,", "?OTR,1", "?OTR,1,1", "?OTR,1,1,",
		"?OTR,+1,+1,%s,", "?OTR, 1,1,%s,", "?OTR,01,01,%s,", "?OTR,1,65536,%s,",
	} {
		add("fragment:"+f, []byte(fmt.Sprintf(f, t)))
		if f == "?OTR,1,1,%s," || f == "?OTR,+1,+1,%s," || f == "?OTR,01,01,%s," {
			ms[len(ms)-1].equiv = true // strconv.Atoi reads +1 and 01 as 1: the whole message as one fragment of one
		}
	}
	// out-of-order and mismatched pieces of a two-fragment message
	add("fragment:second-first", []byte(fmt.Sprintf("?OTR,2,2,%s,", t[5+half:])))
	add("fragment:first-of-3", []byte(fmt.Sprintf("?OTR,1,3,%s,", t[:5+half])))
	add("fragment:second-of-2-after-first-of-3", []byte(fmt.Sprintf("?OTR,2,2,%s,", t[5+half:])))
	add("fragment:third-of-3", []byte(fmt.Sprintf("?OTR,3,3,%s,", t[5+half:])))
	return ms
}

func randomInputs(r *rand.Rand, n int) (ins [][]byte) {
	rb := func(k int) []byte {
		b := make([]byte, k)
		r.Read(b)
		return b
	}
	for i := 0; i < n; i++ {
		switch r.Intn(9) {
		case 0:
			ins = append(ins, rb(r.Intn(64)))
		case 1:
			ins = append(ins, append([]byte("?OTR:"), append(rb(r.Intn(40)), '.')...))
		case 2: // valid framing and header, random body, every message type
			typ := []byte{2, 3, 10, 17, 18, byte(r.Intn(256))}[r.Intn(6)]
			ins = append(ins, encodeOTR(append([]byte{0, 2, typ}, rb(r.Intn(300))...)))
		case 3: // plausible length-prefixed fields
			typ := []byte{2, 3, 10, 17, 18}[r.Intn(5)]
			d := []byte{0, 2, typ}
			for f := r.Intn(6); f > 0; f-- {
				l := r.Intn(40)
				if r.Intn(5) == 0 {
					l = int(r.Uint32()) // lying length
				}
				d = append(d, byte(l>>24), byte(l>>16), byte(l>>8), byte(l))
				d = append(d, rb(r.Intn(40))...)
			}
			ins = append(ins, encodeOTR(d))
		case 4:
			ins = append(ins, []byte(fmt.Sprintf("?OTR,%d,%d,%s,", r.Intn(5)-1, r.Intn(5)-1, base64.StdEncoding.EncodeToString(rb(r.Intn(30))))))
		case 5:
			ins = append(ins, append([]byte("?OTR,"), rb(r.Intn(30))...))
		case 6:
			q := []string{"?OTR?", "?OTRv", "?OTRv2", "?OTR?v2?", "?OTRv23?", "?OTRv3?", "?OTRv 2?", "?OTR", "x?OTRv2?y", "?OTRv\x002?", "?OTR Error: x"}
			ins = append(ins, []byte(q[r.Intn(len(q))]))
		case 7: // a well-formed data message with random keys
			d := []byte{0, 2, 3, byte(r.Intn(2))}
			d = append(d, rb(8)...)
			d = append(d, 0, 0, 0, 4)
			d = append(d, rb(4)...)
			d = append(d, rb(8)...)
			d = append(d, 0, 0, 0, 16)
			d = append(d, rb(16)...)
			d = append(d, rb(20)...)
			d = append(d, 0, 0, 0, 0)
			ins = append(ins, encodeOTR(d))
		default:
			ins = append(ins, []byte(base64.StdEncoding.EncodeToString(rb(r.Intn(50)))))
		}
	}
	return
}

// advance runs a fresh conversation pair up to the point where `kind` is the next message for `to`.
// It returns the world, the receiver and the genuine encoded message (unfragmented).
func advance(seed int64, kind string) (w *world, to string, genuine []byte) {
	w = newWorld(seed, "")
	a, b := w.conv["a"], w.conv["b"]
	one := func(ms [][]byte, err error) []byte {
		if err != nil || len(ms) != 1 {
			panic(fmt.Sprintf("advance(%s): unexpected %d messages, err %v", kind, len(ms), err))
		}
		return ms[0]
	}
	recv := func(c *otr.Conversation, m []byte) ([][]byte, error) {
		_, _, _, ts, err := c.Receive(m)
		return ts, err
	}
	commit := one(recv(b, []byte(otr.QueryMessage))) // b commits
	if kind == "commit" {
		return w, "a", commit
	}
	dhkey := one(recv(a, commit))
	if kind == "dhkey" {
		return w, "b", dhkey
	}
	reveal := one(recv(b, dhkey))
	if kind == "reveal" {
		return w, "a", reveal
	}
	sig := one(recv(a, reveal))
	if kind == "sig" {
		return w, "b", sig
	}
	recv(b, sig)
	// one round trip so that keys have rotated once
	recv(b, one(a.Send([]byte("hello"))))
	recv(a, one(b.Send([]byte("hello back"))))
	switch kind {
	case "data":
		return w, "b", one(a.Send([]byte("the genuine message")))
	case "disc":
		return w, "b", one(a.End(), nil)
	}
	smp1 := one(a.Authenticate("", []byte("secret")))
	if kind == "smp1" {
		return w, "b", smp1
	}
	recv(b, smp1)
	smp2 := one(b.Authenticate("", []byte("secret")))
	if kind == "smp2" {
		return w, "a", smp2
	}
	smp3 := one(recv(a, smp2))
	if kind == "smp3" {
		return w, "b", smp3
	}
	smp4 := one(recv(b, smp3))
	if kind == "smp4" {
		return w, "a", smp4
	}
	panic("advance: unknown kind " + kind)
}

func TestMutate(t *testing.T) { withOut(t, runMutate) }

func runMutate(t *testing.T, out *vutil.Out) {
	budget, _ := strconv.Atoi(vutil.Env("VERIF_MUT", "120"))
	var mu sync.Mutex
	statsM := map[string]int{}
	stat := func(k string) { mu.Lock(); statsM[k]++; mu.Unlock() }
	ocase := func(k string) { mu.Lock(); out.Case(k); mu.Unlock() }
	viol := func(sig, what string, detail map[string]any) {
		mu.Lock()
		out.Violation(sig, what, detail)
		mu.Unlock()
		t.Errorf("%s: %s", sig, what)
	}
	var wg sync.WaitGroup
	sem := make(chan struct{}, 8)
	task := func(salt int64, f func(r *rand.Rand)) {
		wg.Add(1)
		go func() {
			defer wg.Done()
			sem <- struct{}{}
			defer func() { <-sem }()
			f(vutil.Rand(4700 + salt))
		}()
	}
	safeReceive := func(c *otr.Conversation, in []byte, ctxt string) (o []byte, enc bool, chg otr.SecurityChange, ts [][]byte, err error, panicked bool) {
		defer func() {
			if x := recover(); x != nil {
				panicked = true
				st := debug.Stack()
				viol(panicSig(x, st), fmt.Sprintf("Receive panics on %s: %v", ctxt, x),
					map[string]any{"input_base64": base64.StdEncoding.EncodeToString(in), "context": ctxt, "stack": string(st)})
			}
		}()
		o, enc, chg, ts, err = c.Receive(append([]byte(nil), in...))
		return
	}

	// ---- data-phase messages: many mutations against one receiver, then the genuine message
	expect := map[string]string{"data": "deliver", "disc": "ended", "smp1": "smpneeded", "smp2": "reply", "smp3": "smpcomplete", "smp4": "smpcomplete"}
	for ki, kind := range []string{"data", "disc", "smp1", "smp2", "smp3", "smp4"} {
		task(int64(ki), func(r *rand.Rand) {
			seed := vutil.Seed()*977 + int64(ki)
			w, to, genuine := advance(seed, kind)
			c := w.conv[to]
			d := decodeOTR(genuine)
			muts := append(binMutations(d, r, budget), textMutations(genuine)...)
			accepted := false
			for _, m := range muts {
				ocase(kind + "/" + m.name)
				o, enc, chg, ts, _, panicked := safeReceive(c, m.text, kind+" message mutated by "+m.name)
				if panicked {
					continue
				}
				stat("data_phase_mutations")
				// accepted = handed to the user as an encrypted message, or acted upon (an unencrypted echo of a
				// damaged text is a plaintext message, not an accepted data message)
				took := (enc && len(o) > 0) || chg != otr.NoChange || len(ts) > 0
				if !took {
					continue
				}
				if (m.tail || m.equiv) && !accepted {
					// the revealed-MAC-keys trailer is not authenticated (by design of the protocol): the message is
					// accepted; what counts is that the user sees the plaintext unchanged
					if kind == "data" && !bytes.Equal(o, []byte("the genuine message")) {
						viol("otr-modified-accepted", fmt.Sprintf("data message with modified trailer (%s) delivered changed plaintext", m.name), map[string]any{"mutation": m.name})
					}
					accepted = true
					stat("trailer_mutations_accepted")
					continue
				}
				if accepted {
					continue // the genuine content was already consumed through a trailer mutation; replays must do nothing
				}
				viol("otr-modified-accepted", fmt.Sprintf("a %s message modified by %s was accepted: plaintext %d bytes, change %s, %d replies", kind, m.name, len(o), chgName(chg), len(ts)),
					map[string]any{"kind": kind, "mutation": m.name, "seed": seed})
			}
			if accepted {
				return
			}
			// the genuine message must still work: nothing was changed by the rejected ones
			o, enc, chg, ts, err, _ := safeReceive(c, genuine, "genuine "+kind)
			ok := false
			switch expect[kind] {
			case "deliver":
				ok = err == nil && enc && bytes.Equal(o, []byte("the genuine message"))
			case "reply":
				ok = err == nil && len(ts) == 1
			default:
				ok = err == nil && chgName(chg) == expect[kind]
			}
			if !ok {
				viol("otr-modified-changed-state", fmt.Sprintf("after %d rejected modified copies the genuine %s message no longer works: out %d bytes, change %s, %d replies, err %v", len(muts), kind, len(o), chgName(chg), len(ts), err),
					map[string]any{"kind": kind, "seed": seed})
			}
		})
	}

	// ---- AKE messages: every mutation against a fresh receiver in the right state: no panic.  Whether the
	// handshake survives is recorded, not judged (the property is silent; AKE messages are not authenticated
	// until the signatures).
	akeBudget := budget / 2
	for ki, kind := range []string{"commit", "dhkey", "reveal", "sig"} {
		task(int64(10+ki), func(r *rand.Rand) {
			_, _, g0 := advance(vutil.Seed()*31, kind)
			muts := append(binMutations(decodeOTR(g0), r, akeBudget), textMutations(g0)...)
			for i, m := range muts {
				w, to, genuine := advance(vutil.Seed()*31+int64(i), kind)
				// apply the same structural mutation to this run's genuine message
				var text []byte
				if i < len(muts)-len(textMutations(g0)) {
					text = remutate(decodeOTR(genuine), m.name, r)
				} else {
					text = textMutations(genuine)[i-(len(muts)-len(textMutations(g0)))].text
				}
				ocase(kind + "/" + m.name)
				_, _, _, _, err, panicked := safeReceive(w.conv[to], text, kind+" message mutated by "+m.name)
				if panicked {
					continue
				}
				stat("ake_mutations")
				if err != nil {
					stat("ake_mutations_error")
				}
				// then the genuine message and the rest of the handshake
				_, _, _, ts, _, panicked := safeReceive(w.conv[to], genuine, "genuine "+kind+" after "+m.name)
				if panicked {
					continue
				}
				w.post(to, ts)
				func() {
					defer func() {
						if x := recover(); x != nil {
							st := debug.Stack()
							viol(panicSig(x, st), fmt.Sprintf("panic while finishing the handshake after a %s message mutated by %s: %v", kind, m.name, x), map[string]any{"stack": string(st)})
						}
					}()
					w.drain(1000, nil)
				}()
				if w.conv["a"].IsEncrypted() && w.conv["b"].IsEncrypted() {
					stat("ake_survived_" + kind)
				} else {
					stat("ake_stuck_" + kind)
				}
			}
		})
	}

	// ---- random inputs in every state
	nRand, _ := strconv.Atoi(vutil.Env("VERIF_RAND", "400"))
	for ki, kind := range []string{"fresh", "commit", "dhkey", "reveal", "sig", "data", "smp2", "smp3", "smp4", "finished"} {
		task(int64(20+ki), func(r *rand.Rand) {
			var c *otr.Conversation
			switch kind {
			case "fresh":
				c = newWorld(1, "").conv["a"]
			case "finished":
				w, to, g := advance(vutil.Seed(), "disc")
				w.conv[to].Receive(g)
				c = w.conv[to]
			default:
				w, to, _ := advance(vutil.Seed(), kind)
				c = w.conv[to]
			}
			c.FragmentSize = []int{0, 19, 50, 200}[r.Intn(4)]
			for i, in := range randomInputs(r, nRand) {
				ocase("")
				_, _, _, _, _, panicked := safeReceive(c, in, fmt.Sprintf("random input #%d in state before %q", i, kind))
				if panicked {
					break
				}
				stat("random_inputs")
			}
		})
	}

	// ---- TLV injection: the data format ends the human-readable part at the first NUL, so a genuine Send of
	// "text NUL bytes" makes the peer parse the bytes as TLVs under a valid MAC: arbitrary TLV content reaches
	// processSMP in every SMP state.
	for ki, kind := range []string{"data", "smp2", "smp3", "smp4"} {
		task(int64(40+ki), func(r *rand.Rand) {
			w, to, _ := advance(vutil.Seed()+7, kind)
			from := peer(to)
			for i := 0; i < nRand/2; i++ {
				tl := []byte("x\x00")
				for n := 1 + r.Intn(3); n > 0; n-- {
					typ := r.Intn(9)
					var data []byte
					switch r.Intn(5) {
					case 0:
						data = make([]byte, r.Intn(20))
						r.Read(data)
					case 1: // SMP shaped: count + MPIs
						cnt := []uint32{0, 1, 3, 6, 8, 11, 20, 21, 0xffffffff}[r.Intn(9)]
						data = []byte{byte(cnt >> 24), byte(cnt >> 16), byte(cnt >> 8), byte(cnt)}
						if typ == 7 && r.Intn(2) == 0 {
							data = append([]byte("question\x00"), data...)
						}
						for k := uint32(0); k < cnt && k < 21; k++ {
							l := []int{0, 1, 32, 192, 193}[r.Intn(5)]
							mp := make([]byte, l)
							if r.Intn(3) > 0 {
								r.Read(mp)
							}
							data = append(data, byte(l>>24), byte(l>>16), byte(l>>8), byte(l))
							if r.Intn(10) > 0 {
								data = append(data, mp...)
							}
						}
					case 2:
						data = nil
					default:
						data = make([]byte, r.Intn(300))
					}
					l := len(data)
					if r.Intn(8) == 0 {
						l = r.Intn(70000)
					}
					tl = append(tl, byte(typ>>8), byte(typ), byte(l>>8), byte(l))
					tl = append(tl, data...)
				}
				var ms [][]byte
				func() {
					defer func() {
						if x := recover(); x != nil {
							ms = nil
						}
					}()
					ms, _ = w.conv[from].Send(tl)
				}()
				for _, m := range ms {
					ocase("")
					_, _, _, ts, _, panicked := safeReceive(w.conv[to], m, fmt.Sprintf("data message carrying injected TLVs %x (receiver before %q)", tl, kind))
					if panicked {
						break
					}
					stat("tlv_injections")
					// replies go back (keeps the ratchet moving)
					for _, x := range ts {
						safeReceive(w.conv[from], x, "reply to injected TLV")
					}
				}
				if !w.conv[to].IsEncrypted() || !w.conv[from].IsEncrypted() {
					w, to, _ = advance(vutil.Seed()+7+int64(i), kind)
					from = peer(to)
				}
			}
		})
	}
	wg.Wait()
	for k, v := range statsM {
		out.Extra["mut_"+k] = v
	}
}

// remutate applies the structural mutation called name (as produced by binMutations) to another message of the
// same kind and layout.
func remutate(d []byte, name string, r *rand.Rand) []byte {
	var o int
	nd := append([]byte(nil), d...)
	clip := func(o int) int {
		if o >= len(nd) {
			return len(nd) - 1
		}
		return o
	}
	switch {
	case scan(name, "flip-lowbit@%d", &o):
		nd[clip(o)] ^= 0x01
	case scan(name, "flip-highbit@%d", &o):
		nd[clip(o)] ^= 0x80
	case scan(name, "flip-random@%d", &o):
		nd[clip(o)] ^= 1 << uint(r.Intn(8))
	case scan(name, "truncate@%d", &o):
		if o > len(nd) {
			o = len(nd)
		}
		nd = nd[:o]
	case scan(name, "set-ff@%d", &o):
		nd[clip(o)] = 0xff
	case scan(name, "type=%d", &o):
		nd[2] = byte(o)
	case name == "append-1":
		nd = append(nd, 0)
	case name == "append-64":
		nd = append(nd, make([]byte, 64)...)
	case name == "header-only":
		nd = nd[:3]
	default: // version=...
		nd[0], nd[1] = 0xff, 0xff
	}
	return encodeOTR(nd)
}

func scan(s, f string, o *int) bool {
	n, err := fmt.Sscanf(s, f, o)
	return err == nil && n == 1
}
