package acmefake

import (
	"context"
	"crypto"
	"fmt"

	"golang.org/x/crypto/acme"
)

// OpSpec is one RFC 8555 client operation driven through the PUBLIC acme.Client API.
// Run returns a marker string (a value from the result that embeds "s<serial>" of the reply it
// was derived from, "" when the call returns no value) and the call's error.
type OpSpec struct {
	Name   string
	Phases int  // consecutive post() calls when every reply is a success
	JWK    bool // request is sent in JWK form (no kid)
	Run    func(ctx context.Context, c *acme.Client, e *Env) (string, error)
}

// Env carries per-case inputs of the operations.
type Env struct {
	CertKey crypto.Signer // key for cert-key authenticated revocation
	EAB     *acme.ExternalAccountBinding
}

var Ops = []OpSpec{
	{"Register", 1, true, func(ctx context.Context, c *acme.Client, e *Env) (string, error) {
		a, err := c.Register(ctx, &acme.Account{Contact: []string{"mailto:a@verif.test"}, ExternalAccountBinding: e.EAB}, acme.AcceptTOS)
		if a == nil {
			return "", err
		}
		return a.URI, err
	}},
	{"GetReg", 1, true, func(ctx context.Context, c *acme.Client, e *Env) (string, error) {
		a, err := c.GetReg(ctx, "")
		if a == nil {
			return "", err
		}
		return a.URI, err
	}},
	{"UpdateReg", 1, false, func(ctx context.Context, c *acme.Client, e *Env) (string, error) {
		a, err := c.UpdateReg(ctx, &acme.Account{Contact: []string{"mailto:b@verif.test"}})
		if a == nil {
			return "", err
		}
		return a.URI, err
	}},
	{"AuthorizeOrder", 1, false, func(ctx context.Context, c *acme.Client, e *Env) (string, error) {
		o, err := c.AuthorizeOrder(ctx, acme.DomainIDs("example.org"))
		if o == nil {
			return "", err
		}
		return o.URI, err
	}},
	{"Authorize", 1, false, func(ctx context.Context, c *acme.Client, e *Env) (string, error) {
		a, err := c.Authorize(ctx, "example.org")
		if a == nil {
			return "", err
		}
		return a.URI, err
	}},
	{"GetAuthorization", 1, false, func(ctx context.Context, c *acme.Client, e *Env) (string, error) {
		a, err := c.GetAuthorization(ctx, Base+"/authz/7")
		if a == nil {
			return "", err
		}
		return a.Identifier.Value, err
	}},
	{"WaitAuthorization", 1, false, func(ctx context.Context, c *acme.Client, e *Env) (string, error) {
		a, err := c.WaitAuthorization(ctx, Base+"/authz/8")
		if a == nil {
			return "", err
		}
		return a.Identifier.Value, err
	}},
	{"GetChallenge", 1, false, func(ctx context.Context, c *acme.Client, e *Env) (string, error) {
		ch, err := c.GetChallenge(ctx, Base+"/chal/3")
		if ch == nil {
			return "", err
		}
		return ch.Token, err
	}},
	{"Accept", 1, false, func(ctx context.Context, c *acme.Client, e *Env) (string, error) {
		ch, err := c.Accept(ctx, &acme.Challenge{URI: Base + "/chal/4", Type: "http-01", Token: "tok"})
		if ch == nil {
			return "", err
		}
		return ch.Token, err
	}},
	{"GetOrder", 1, false, func(ctx context.Context, c *acme.Client, e *Env) (string, error) {
		o, err := c.GetOrder(ctx, Base+"/order/5")
		if o == nil {
			return "", err
		}
		return o.URI, err
	}},
	{"WaitOrder", 1, false, func(ctx context.Context, c *acme.Client, e *Env) (string, error) {
		o, err := c.WaitOrder(ctx, Base+"/order/6")
		if o == nil {
			return "", err
		}
		return o.URI, err
	}},
	{"FetchCert", 1, false, func(ctx context.Context, c *acme.Client, e *Env) (string, error) {
		der, err := c.FetchCert(ctx, Base+"/cert/9", true)
		if len(der) == 0 {
			return "", err
		}
		return string(der[0]), err
	}},
	{"ListCertAlternates", 1, false, func(ctx context.Context, c *acme.Client, e *Env) (string, error) {
		alts, err := c.ListCertAlternates(ctx, Base+"/cert/10")
		if len(alts) == 0 {
			return "", err
		}
		return alts[0], err
	}},
	{"RevokeCert", 1, false, func(ctx context.Context, c *acme.Client, e *Env) (string, error) {
		return "", c.RevokeCert(ctx, nil, []byte("verif-der"), acme.CRLReasonKeyCompromise)
	}},
	{"RevokeCertByCertKey", 1, true, func(ctx context.Context, c *acme.Client, e *Env) (string, error) {
		return "", c.RevokeCert(ctx, e.CertKey, []byte("verif-der"), acme.CRLReasonUnspecified)
	}},
	{"RevokeAuthorization", 1, false, func(ctx context.Context, c *acme.Client, e *Env) (string, error) {
		return "", c.RevokeAuthorization(ctx, Base+"/authz/11")
	}},
	{"DeactivateReg", 1, false, func(ctx context.Context, c *acme.Client, e *Env) (string, error) {
		return "", c.DeactivateReg(ctx)
	}},
	{"CreateOrderCert", 2, false, func(ctx context.Context, c *acme.Client, e *Env) (string, error) {
		der, _, err := c.CreateOrderCert(ctx, Base+"/finalize/v12", []byte("verif-csr"), true)
		if len(der) == 0 {
			return "", err
		}
		return string(der[0]), err
	}},
	{"CreateOrderCertSlow", 3, false, func(ctx context.Context, c *acme.Client, e *Env) (string, error) {
		// finalize answers "processing": CreateOrderCert polls the order (WaitOrder), then downloads
		der, _, err := c.CreateOrderCert(ctx, Base+"/finalize/p13", []byte("verif-csr"), true)
		if len(der) == 0 {
			return "", err
		}
		return string(der[0]), err
	}},
}

// OpsWithPhases returns the operations that make exactly p post() calls.
func OpsWithPhases(p int) []OpSpec {
	var r []OpSpec
	for _, o := range Ops {
		if o.Phases == p {
			r = append(r, o)
		}
	}
	return r
}

func OpByName(n string) (OpSpec, error) {
	for _, o := range Ops {
		if o.Name == n {
			return o, nil
		}
	}
	return OpSpec{}, fmt.Errorf("unknown op %q", n)
}
