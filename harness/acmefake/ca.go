package acmefake

// A small functional in-process ACME CA (http.RoundTripper) for the autocert harness (C51):
// directory, nonces, account, orders that are "ready" at once, finalize (issues a real X.509
// certificate for the CSR's key, or refuses, or issues a certificate for the wrong name),
// certificate download.  It counts orders/finalizations per name and reports every issuance
// through callbacks that run in the goroutine of the client call that caused the request.

import (
	"crypto"
	"crypto/ecdsa"
	"crypto/elliptic"
	"crypto/rand"
	"crypto/rsa"
	"crypto/x509"
	"crypto/x509/pkix"
	"encoding/base64"
	"encoding/json"
	"encoding/pem"
	"fmt"
	"io"
	"math/big"
	"net/http"
	"strconv"
	"strings"
	"sync"
	"time"
)

type CA struct {
	mu       sync.Mutex
	Now      func() time.Time
	RootKey  *ecdsa.PrivateKey
	RootDER  []byte
	rootCert *x509.Certificate

	// Outcome decides an issuance: "ok", "cafail" (finalize refused), "badcert" (certificate for another name).
	Outcome func(name, kt string) string
	// OnFinalize / OnIssued run in the requesting goroutine (before processing / before replying).
	OnFinalize func(name, kt string)
	OnIssued   func(name, kt, outcome string, serial int)
	// Gate, when non-nil, blocks every newOrder request until it is closed.
	Gate chan struct{}

	NewOrders map[string]int // per name
	Finalizes map[string]int // per name|kt
	Problems  []string

	serial    int
	nextNonce int
	issuedN   map[string]bool
	orders    map[string]string // order id -> name
	certs     map[string][]byte // order id -> PEM chain
	nextOrder int
}

func NewCA(now func() time.Time) *CA {
	k, err := ecdsa.GenerateKey(elliptic.P256(), rand.Reader)
	if err != nil {
		panic(err)
	}
	t := now()
	tmpl := &x509.Certificate{SerialNumber: big.NewInt(1), Subject: pkix.Name{CommonName: "verif root"},
		NotBefore: t.Add(-10 * 365 * 24 * time.Hour), NotAfter: t.Add(10 * 365 * 24 * time.Hour),
		KeyUsage: x509.KeyUsageCertSign, BasicConstraintsValid: true, IsCA: true}
	der, err := x509.CreateCertificate(rand.Reader, tmpl, tmpl, &k.PublicKey, k)
	if err != nil {
		panic(err)
	}
	rc, _ := x509.ParseCertificate(der)
	return &CA{Now: now, RootKey: k, RootDER: der, rootCert: rc, NewOrders: map[string]int{}, Finalizes: map[string]int{},
		issuedN: map[string]bool{}, orders: map[string]string{}, certs: map[string][]byte{},
		Outcome: func(string, string) string { return "ok" }}
}

// Leaf issues a certificate signed by the CA root.
func (ca *CA) Leaf(serial int64, name string, pub crypto.PublicKey, notBefore, notAfter time.Time) []byte {
	tmpl := &x509.Certificate{SerialNumber: big.NewInt(serial), Subject: pkix.Name{CommonName: name}, DNSNames: []string{name},
		NotBefore: notBefore, NotAfter: notAfter, KeyUsage: x509.KeyUsageDigitalSignature,
		ExtKeyUsage: []x509.ExtKeyUsage{x509.ExtKeyUsageServerAuth}, BasicConstraintsValid: true}
	der, err := x509.CreateCertificate(rand.Reader, tmpl, ca.rootCert, pub, ca.RootKey)
	if err != nil {
		panic(err)
	}
	return der
}

func (ca *CA) nonce() string {
	ca.nextNonce++
	v := "caN" + strconv.Itoa(ca.nextNonce)
	ca.issuedN[v] = true
	return v
}

func (ca *CA) RoundTrip(req *http.Request) (*http.Response, error) {
	if err := req.Context().Err(); err != nil {
		return nil, err
	}
	path := strings.TrimPrefix(req.URL.String(), Base)
	h := http.Header{"Content-Type": {"application/json"}}
	ca.mu.Lock()
	h.Set("Replay-Nonce", ca.nonce())
	ca.mu.Unlock()
	if req.Method == "GET" && path == "/dir" {
		b, _ := json.Marshal(map[string]any{"newAccount": Base + "/new-acct", "newOrder": Base + "/new-order",
			"newNonce": Base + "/new-nonce", "revokeCert": Base + "/revoke", "keyChange": Base + "/key-change"})
		return resp(req, 200, h, b), nil
	}
	if req.Method == "HEAD" {
		return resp(req, 200, h, nil), nil
	}
	if req.Method != "POST" {
		return nil, fmt.Errorf("verif ca: unexpected %s %s", req.Method, path)
	}
	raw, _ := io.ReadAll(req.Body)
	var jb jwsBody
	var ph struct {
		Nonce string `json:"nonce"`
	}
	json.Unmarshal(raw, &jb)
	if b, err := base64.RawURLEncoding.DecodeString(jb.Protected); err == nil {
		json.Unmarshal(b, &ph)
	}
	payload, _ := base64.RawURLEncoding.DecodeString(jb.Payload)
	ca.mu.Lock()
	if !ca.issuedN[ph.Nonce] {
		ca.Problems = append(ca.Problems, fmt.Sprintf("POST %s with nonce %q that is not an unused nonce of this CA", path, ph.Nonce))
	}
	delete(ca.issuedN, ph.Nonce)
	ca.mu.Unlock()
	switch {
	case path == "/new-acct":
		h.Set("Location", Base+"/acct/1")
		return resp(req, 201, h, []byte(`{"status":"valid"}`)), nil
	case path == "/new-order":
		var p struct {
			Identifiers []struct{ Type, Value string }
		}
		json.Unmarshal(payload, &p)
		if len(p.Identifiers) != 1 {
			return resp(req, 400, h, problem("malformed", 400, 0)), nil
		}
		name := p.Identifiers[0].Value
		if ca.Gate != nil {
			select {
			case <-ca.Gate:
			case <-req.Context().Done():
				return nil, req.Context().Err()
			}
		}
		ca.mu.Lock()
		ca.NewOrders[name]++
		ca.nextOrder++
		id := strconv.Itoa(ca.nextOrder)
		ca.orders[id] = name
		ca.mu.Unlock()
		h.Set("Location", Base+"/order/"+id)
		b, _ := json.Marshal(map[string]any{"status": "ready", "finalize": Base + "/finalize/" + id,
			"identifiers": []map[string]string{{"type": "dns", "value": name}}, "authorizations": []string{}})
		return resp(req, 201, h, b), nil
	case strings.HasPrefix(path, "/finalize/"):
		id := strings.TrimPrefix(path, "/finalize/")
		var p struct {
			CSR string `json:"csr"`
		}
		json.Unmarshal(payload, &p)
		der, _ := base64.RawURLEncoding.DecodeString(p.CSR)
		csr, err := x509.ParseCertificateRequest(der)
		ca.mu.Lock()
		name := ca.orders[id]
		ca.mu.Unlock()
		if err != nil || name == "" || csr.CheckSignature() != nil {
			return resp(req, 400, h, problem("badCSR", 400, 0)), nil
		}
		kt := "E"
		if _, ok := csr.PublicKey.(*rsa.PublicKey); ok {
			kt = "R"
		}
		ca.mu.Lock()
		ca.Finalizes[name+"|"+kt]++
		ca.mu.Unlock()
		if ca.OnFinalize != nil {
			ca.OnFinalize(name, kt)
		}
		out := ca.Outcome(name, kt)
		serial := 0
		if out != "cafail" {
			ca.mu.Lock()
			ca.serial++
			serial = ca.serial
			ca.mu.Unlock()
			cn := name
			if out == "badcert" {
				cn = "wrong.verif.test"
			}
			now := ca.Now()
			leaf := ca.Leaf(int64(serial), cn, csr.PublicKey, now.Add(-time.Hour), now.Add(90*24*time.Hour))
			chain := append(pem.EncodeToMemory(&pem.Block{Type: "CERTIFICATE", Bytes: leaf}),
				pem.EncodeToMemory(&pem.Block{Type: "CERTIFICATE", Bytes: ca.RootDER})...)
			ca.mu.Lock()
			ca.certs[id] = chain
			ca.mu.Unlock()
		}
		if ca.OnIssued != nil {
			ca.OnIssued(name, kt, out, serial)
		}
		if out == "cafail" {
			h.Set("Content-Type", "application/problem+json")
			return resp(req, 403, h, problem("unauthorized", 403, 0)), nil
		}
		h.Set("Location", Base+"/order/"+id)
		return resp(req, 200, h, []byte(`{"status":"valid","certificate":"`+Base+`/cert/`+id+`"}`)), nil
	case strings.HasPrefix(path, "/order/"):
		id := strings.TrimPrefix(path, "/order/")
		h.Set("Location", Base+"/order/"+id)
		return resp(req, 200, h, []byte(`{"status":"valid","certificate":"`+Base+`/cert/`+id+`"}`)), nil
	case strings.HasPrefix(path, "/cert/"):
		id := strings.TrimPrefix(path, "/cert/")
		ca.mu.Lock()
		chain := ca.certs[id]
		ca.mu.Unlock()
		h.Set("Content-Type", "application/pem-certificate-chain")
		return resp(req, 200, h, chain), nil
	}
	return resp(req, 404, h, problem("malformed", 404, 0)), nil
}

// Counts returns (newOrder requests for name, finalize requests for name and key type).
func (ca *CA) Counts(name, kt string) (int, int) {
	ca.mu.Lock()
	defer ca.mu.Unlock()
	return ca.NewOrders[name], ca.Finalizes[name+"|"+kt]
}

func (ca *CA) TakeProblems() []string {
	ca.mu.Lock()
	defer ca.mu.Unlock()
	p := ca.Problems
	ca.Problems = nil
	return p
}
