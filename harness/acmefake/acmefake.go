// Package acmefake is a scripted, in-process ACME server (an http.RoundTripper) used by the
// conformance harnesses of C49/C50: it hands out unique nonces, answers every request with a
// reply kind chosen by a script, and logs every request (method, URL, decoded JWS nonce) and
// every reply in the event vocabulary of spec/AcmeNonce.tla.
package acmefake

import (
	"bytes"
	"context"
	"encoding/base64"
	"encoding/json"
	"encoding/pem"
	"errors"
	"fmt"
	"io"
	"net/http"
	"strconv"
	"strings"
	"sync"
	"time"

	"golang.org/x/crypto/acme"
)

const Base = "https://ca.verif.test"

// MaxRequestsPerCall bounds the requests one public call may send (scripts are at most 7 replies long).
const MaxRequestsPerCall = 50

// Event is one line of the recorded trace (see AcmeNonce_Trace.tla).
type Event map[string]any

type opKey struct{}

// Op is one public client call, identified in requests through its context.
type Op struct {
	ID       int
	Budget   int           // RetryBackoff(n) > 0 iff n <= Budget
	Phases   int           // number of consecutive post() calls the call makes
	CancelAt int           // cancel the context during the CancelAt-th back-off (1-based), 0 = never
	StopVal  time.Duration // the NON-POSITIVE value RetryBackoff returns once the budget is used up (0 or negative)
	Name     string

	Ctx    context.Context
	cancel context.CancelFunc

	backoffs   int
	LastSerial int       // serial of the last reply the server gave this op
	Posts      int       // POSTs that reached the server
	Heads      int       // HEADs that reached the server
	CancelTime time.Time // when the context was cancelled (zero if not)
	Returned   time.Time
	Refused    []string // requests attempted with a cancelled context (never reached the server)
	Unbounded  bool     // the call exceeded MaxRequestsPerCall
}

func OpFrom(ctx context.Context) *Op {
	o, _ := ctx.Value(opKey{}).(*Op)
	return o
}

// NetErr is the transport error returned for reply kind "neterr".
type NetErr struct{ Serial int }

func (e *NetErr) Error() string { return fmt.Sprintf("verif: connection reset (serial=%d)", e.Serial) }

// Captured is one signed request body as the client sent it.
type Captured struct {
	URL  string
	Body []byte
	Op   string
}

type Server struct {
	mu        sync.Mutex
	Log       []Event
	nextNonce int
	nrep      int
	issued    map[int]bool
	used      map[int]int
	Problems  []string // things the real client did that contradict C50 outright (direct checks)

	// Choose returns the reply kind for a request of op (head: HEAD newNonce / fallback HEAD).
	Choose func(op *Op, head bool, url string) string
	// NonceURL: directory advertises newNonce.  DirNonce: directory reply carries a nonce.
	NonceURL, DirNonce bool
	SlowDelay          time.Duration // "cancel" replies: the context is cancelled after this delay
	BackoffDelay       time.Duration
	CancelSleep        time.Duration // back-off returned when the context is cancelled SlowDelay into the sleep
	Capture            bool
	DirChoose          func(n int) string // reply kind of the n-th GET of the directory (nil: always ok)
	DirGets            int
	RetryAfter         func() string // Retry-After value of 429 replies (nil: "1"; "" = header absent)
	Captured           []Captured
	busy               map[int]bool // operation ids in use (an id is reused after its call returned)
}

func NewServer() *Server {
	return &Server{nextNonce: 1, issued: map[int]bool{}, used: map[int]int{}, NonceURL: true, DirNonce: true,
		SlowDelay: time.Second, BackoffDelay: 2 * time.Second, CancelSleep: time.Hour}
}

// SetNonceBase makes the server number its nonces from n (C49 varies it so that deterministic
// signature schemes see fresh inputs on every run; C50 keeps the default 1, as the trace spec expects).
func (s *Server) SetNonceBase(n int) { s.nextNonce = n }

func (s *Server) logf(e Event) { s.Log = append(s.Log, e) }

// Reset starts a new recorded trace (the pool of a fresh client is empty until Discover).
func (s *Server) ResetEvent() Event {
	ip := 0
	if s.DirNonce {
		ip = 1
	}
	return Event{"ev": "cfg", "nurl": s.NonceURL, "ip": ip}
}

func (s *Server) NewOp(name string, budget, phases, cancelAt int) *Op {
	s.mu.Lock()
	id := 1
	for s.busy[id] {
		id++
	}
	if s.busy == nil {
		s.busy = map[int]bool{}
	}
	s.busy[id] = true
	s.mu.Unlock()
	op := &Op{ID: id, Budget: budget, Phases: phases, CancelAt: cancelAt, Name: name}
	ctx, cancel := context.WithCancel(context.Background())
	op.Ctx = context.WithValue(ctx, opKey{}, op)
	op.cancel = cancel
	return op
}

func (s *Server) cancelOp(op *Op) {
	s.mu.Lock()
	if op.CancelTime.IsZero() {
		op.CancelTime = time.Now()
	}
	s.mu.Unlock()
	op.cancel()
}

func (s *Server) issue() (int, string) {
	n := s.nextNonce
	s.nextNonce++
	s.issued[n] = true
	return n, NonceString(n)
}

func NonceString(n int) string { return fmt.Sprintf("vN%d-%x", n, uint32(n)*2654435761) }
func nonceNumber(v string) int {
	if !strings.HasPrefix(v, "vN") {
		return -1
	}
	i := strings.IndexByte(v, '-')
	if i < 0 {
		return -1
	}
	n, err := strconv.Atoi(v[2:i])
	if err != nil || NonceString(n) != v {
		return -1
	}
	return n
}

// Backoff is the scripted Client.RetryBackoff.
func (s *Server) Backoff(n int, r *http.Request, resp *http.Response) time.Duration {
	op := OpFrom(r.Context())
	if op == nil {
		s.mu.Lock()
		s.Problems = append(s.Problems, "RetryBackoff called with a request that does not carry the caller's context")
		s.mu.Unlock()
		return 0
	}
	s.mu.Lock()
	op.backoffs++
	how := "wake"
	if n > op.Budget {
		how = "stop"
	} else if op.CancelAt != 0 && op.backoffs == op.CancelAt {
		how = "cancel"
	}
	s.logf(Event{"ev": "backoff", "o": op.ID, "k": how, "n": n})
	s.mu.Unlock()
	switch how {
	case "stop":
		return op.StopVal // zero or negative: both must end the retries
	case "cancel":
		// the context is cancelled long before the sleep would end
		time.AfterFunc(s.SlowDelay, func() { s.cancelOp(op) })
		return s.CancelSleep
	}
	return s.BackoffDelay
}

type jwsBody struct {
	Protected string `json:"protected"`
	Payload   string `json:"payload"`
	Sig       string `json:"signature"`
}

func resp(req *http.Request, code int, h http.Header, body []byte) *http.Response {
	if h == nil {
		h = http.Header{}
	}
	return &http.Response{StatusCode: code, Status: fmt.Sprintf("%d %s", code, http.StatusText(code)),
		Proto: "HTTP/1.1", ProtoMajor: 1, ProtoMinor: 1, Header: h, Body: io.NopCloser(bytes.NewReader(body)),
		ContentLength: int64(len(body)), Request: req}
}

func (s *Server) RoundTrip(req *http.Request) (*http.Response, error) {
	ctx := req.Context()
	op := OpFrom(ctx)
	path := strings.TrimPrefix(req.URL.String(), Base)
	if req.Method == "GET" && path == "/dir" {
		// discovery is set-up, not part of the scripts -- unless DirChoose scripts it (unsigned GET retry loop)
		if err := ctx.Err(); err != nil {
			return nil, err
		}
		if s.DirChoose != nil {
			s.mu.Lock()
			s.DirGets++
			n := s.DirGets
			s.mu.Unlock()
			if n > MaxRequestsPerCall {
				return nil, errors.New("verif: request budget of the call exhausted")
			}
			if k := s.DirChoose(n); k != "ok" {
				h := http.Header{"Content-Type": {"application/problem+json"}, "X-Verif-Serial": {strconv.Itoa(n)}}
				code := 503
				if k == "e429" {
					code = 429
					ra := "1"
					if s.RetryAfter != nil {
						ra = s.RetryAfter()
					}
					if ra != "" {
						h.Set("Retry-After", ra)
					}
				}
				return resp(req, code, h, problem("serverInternal", code, n)), nil
			}
		}
		h := http.Header{"Content-Type": {"application/json"}}
		s.mu.Lock()
		if s.DirNonce {
			_, v := s.issue()
			h.Set("Replay-Nonce", v)
		}
		s.mu.Unlock()
		d := map[string]any{"newAccount": Base + "/new-acct", "newOrder": Base + "/new-order", "newAuthz": Base + "/new-authz",
			"revokeCert": Base + "/revoke", "keyChange": Base + "/key-change"}
		if s.NonceURL {
			d["newNonce"] = Base + "/new-nonce"
		}
		b, _ := json.Marshal(d)
		return resp(req, 200, h, b), nil
	}
	if op == nil {
		s.mu.Lock()
		s.Problems = append(s.Problems, fmt.Sprintf("%s %s sent without the caller's context", req.Method, path))
		s.mu.Unlock()
		return nil, errors.New("verif: request without caller context")
	}
	if err := ctx.Err(); err != nil {
		// a real transport refuses a request whose context is already done; nothing reaches the wire
		s.mu.Lock()
		op.Refused = append(op.Refused, req.Method)
		s.mu.Unlock()
		return nil, err
	}
	s.mu.Lock()
	if op.Posts+op.Heads >= MaxRequestsPerCall {
		// judged by COUNT, never by time: no bounded retry policy sends this many requests for one call
		if !op.Unbounded {
			op.Unbounded = true
			s.Problems = append(s.Problems, fmt.Sprintf("retry-unbounded: %s sent more than %d requests for one call (back-off stop value %v)", op.Name, MaxRequestsPerCall, op.StopVal))
		}
		s.mu.Unlock()
		return nil, errors.New("verif: request budget of the call exhausted")
	}
	s.mu.Unlock()
	switch req.Method {
	case "HEAD":
		s.mu.Lock()
		op.Heads++
		s.logf(Event{"ev": "head", "o": op.ID, "url": path})
		kind := s.Choose(op, true, path)
		s.mu.Unlock()
		return s.reply(req, op, true, kind, path, nil)
	case "POST":
		var raw []byte
		if req.Body != nil {
			raw, _ = io.ReadAll(req.Body)
		}
		var jb jwsBody
		var ph struct {
			Nonce string `json:"nonce"`
			URL   string `json:"url"`
		}
		var payload []byte
		perr := json.Unmarshal(raw, &jb)
		if perr == nil {
			var b []byte
			if b, perr = base64.RawURLEncoding.DecodeString(jb.Protected); perr == nil {
				perr = json.Unmarshal(b, &ph)
			}
			payload, _ = base64.RawURLEncoding.DecodeString(jb.Payload)
		}
		s.mu.Lock()
		op.Posts++
		n := nonceNumber(ph.Nonce)
		if perr != nil {
			s.Problems = append(s.Problems, fmt.Sprintf("POST %s: body is not a flattened JWS: %v", path, perr))
		}
		if n <= 0 || !s.issued[n] {
			s.Problems = append(s.Problems, fmt.Sprintf("nonce-not-issued: POST %s by op %d (%s) carries nonce %q which the server never issued", path, op.ID, op.Name, ph.Nonce))
		} else if s.used[n] > 0 {
			s.Problems = append(s.Problems, fmt.Sprintf("nonce-reused: POST %s by op %d (%s) carries nonce %q already used by %d earlier request(s)", path, op.ID, op.Name, ph.Nonce, s.used[n]))
		}
		if n > 0 {
			s.used[n]++
		}
		s.logf(Event{"ev": "post", "o": op.ID, "n": n, "url": path})
		if s.Capture {
			s.Captured = append(s.Captured, Captured{URL: req.URL.String(), Body: raw, Op: op.Name})
		}
		kind := s.Choose(op, false, path)
		s.mu.Unlock()
		return s.reply(req, op, false, kind, path, payload)
	}
	return nil, fmt.Errorf("verif: unexpected %s %s", req.Method, path)
}

func problem(typ string, status, serial int) []byte {
	return []byte(fmt.Sprintf(`{"type":"urn:ietf:params:acme:error:%s","detail":"serial=%d","status":%d}`, typ, serial, status))
}

func (s *Server) reply(req *http.Request, op *Op, head bool, kind, path string, payload []byte) (*http.Response, error) {
	if kind == "cancel" {
		// slow reply: the caller gives up (its context is cancelled) before the reply arrives
		time.AfterFunc(s.SlowDelay, func() { s.cancelOp(op) })
		<-req.Context().Done()
		s.mu.Lock()
		s.nrep++
		op.LastSerial = s.nrep
		s.logf(Event{"ev": replyEv(head), "o": op.ID, "k": "cancel", "n": 0, "s": s.nrep})
		s.mu.Unlock()
		return nil, req.Context().Err()
	}
	s.mu.Lock()
	defer s.mu.Unlock()
	s.nrep++
	serial := s.nrep
	op.LastSerial = serial
	h := http.Header{"X-Verif-Serial": {strconv.Itoa(serial)}}
	nn := 0
	withNonce := map[string]bool{"nonce": true, "ok": true, "badNonce": true, "e403": true, "noacct": true}
	if withNonce[kind] || (!head && (kind == "e500" || kind == "e429")) {
		var v string
		nn, v = s.issue()
		h.Set("Replay-Nonce", v)
	}
	s.logf(Event{"ev": replyEv(head), "o": op.ID, "k": kind, "n": nn, "s": serial})
	switch kind {
	case "neterr":
		return nil, &NetErr{Serial: serial}
	case "nonce", "noNonce":
		return resp(req, 200, h, nil), nil
	case "badNonce":
		h.Set("Content-Type", "application/problem+json")
		return resp(req, 400, h, problem("badNonce", 400, serial)), nil
	case "e500":
		h.Set("Content-Type", "application/problem+json")
		return resp(req, 503, h, problem("serverInternal", 503, serial)), nil
	case "e429":
		h.Set("Content-Type", "application/problem+json")
		ra := "1"
		if s.RetryAfter != nil {
			ra = s.RetryAfter()
		}
		if ra != "" {
			h.Set("Retry-After", ra)
		}
		return resp(req, 429, h, problem("rateLimited", 429, serial)), nil
	case "e403":
		h.Set("Content-Type", "application/problem+json")
		return resp(req, 403, h, problem("unauthorized", 403, serial)), nil
	case "noacct": // newAccount with onlyReturnExisting for an unknown key
		h.Set("Content-Type", "application/problem+json")
		return resp(req, 400, h, problem("accountDoesNotExist", 400, serial)), nil
	case "ok", "okNoNonce":
		code, body := okReply(path, payload, serial, h)
		return resp(req, code, h, body), nil
	}
	return nil, fmt.Errorf("verif: unknown reply kind %q", kind)
}

func replyEv(head bool) string {
	if head {
		return "headReply"
	}
	return "postReply"
}

// okReply builds the success response of the resource at path; every value the client returns to
// its caller embeds "s<serial>" so the harness can tell which reply a result was derived from.
func okReply(path string, payload []byte, serial int, h http.Header) (int, []byte) {
	tag := fmt.Sprintf("s%d", serial)
	h.Set("Content-Type", "application/json")
	switch {
	case path == "/new-acct":
		h.Set("Location", Base+"/acct/"+tag)
		code := 201
		if bytes.Contains(payload, []byte("onlyReturnExisting")) {
			code = 200
		}
		return code, []byte(`{"status":"valid","contact":["mailto:` + tag + `@verif.test"]}`)
	case strings.HasPrefix(path, "/acct/"):
		h.Set("Location", Base+"/acct/"+tag)
		return 200, []byte(`{"status":"valid","contact":["mailto:` + tag + `@verif.test"]}`)
	case path == "/new-order":
		h.Set("Location", Base+"/order/"+tag)
		return 201, []byte(`{"status":"pending","finalize":"` + Base + `/finalize/v1","authorizations":["` + Base + `/authz/1"]}`)
	case path == "/new-authz":
		h.Set("Location", Base+"/authz/"+tag)
		return 201, []byte(`{"status":"pending","identifier":{"type":"dns","value":"example.org"}}`)
	case strings.HasPrefix(path, "/authz/"):
		return 200, []byte(`{"status":"valid","identifier":{"type":"dns","value":"` + tag + `.verif.test"}}`)
	case strings.HasPrefix(path, "/chal/"):
		return 200, []byte(`{"type":"http-01","url":"` + Base + path + `","token":"` + tag + `","status":"valid"}`)
	case strings.HasPrefix(path, "/order/"):
		h.Set("Location", Base+"/order/"+tag)
		return 200, []byte(`{"status":"valid","certificate":"` + Base + `/cert/o` + tag + `"}`)
	case strings.HasPrefix(path, "/finalize/"):
		x := strings.TrimPrefix(path, "/finalize/")
		h.Set("Location", Base+"/order/"+x)
		st := "processing"
		if strings.HasPrefix(x, "v") {
			st = "valid"
		}
		return 200, []byte(`{"status":"` + st + `","certificate":"` + Base + `/cert/f` + tag + `"}`)
	case strings.HasPrefix(path, "/cert/"):
		h.Set("Content-Type", "application/pem-certificate-chain")
		h.Add("Link", "<"+Base+"/cert/alt-"+tag+`>;rel="alternate"`)
		return 200, pem.EncodeToMemory(&pem.Block{Type: "CERTIFICATE", Bytes: []byte("verif-" + tag + "-")})
	}
	return 200, []byte(`{}`) // revoke, key-change
}

// Result of a public call as the caller sees it.
type Result struct {
	Class  string // ok | acmeerr | neterr | ctx | nononce | other
	Serial int    // serial of the reply the value/error was derived from, -1 when it carries none
	Err    string
}

var serialRe = func(s string) int {
	// finds "s<digits>" marker
	for i := 0; i+1 < len(s); i++ {
		if s[i] == 's' && s[i+1] >= '0' && s[i+1] <= '9' && (i == 0 || !(s[i-1] >= 'a' && s[i-1] <= 'z')) {
			j := i + 1
			for j < len(s) && s[j] >= '0' && s[j] <= '9' {
				j++
			}
			n, _ := strconv.Atoi(s[i+1 : j])
			return n
		}
	}
	return -1
}

func Classify(marker string, err error) Result {
	if err == nil {
		r := Result{Class: "ok", Serial: -1}
		if marker != "" {
			r.Serial = serialRe(marker)
		}
		return r
	}
	r := Result{Serial: -1, Err: err.Error()}
	var ae *acme.Error
	var ne *NetErr
	switch {
	case errors.Is(err, context.Canceled):
		r.Class = "ctx"
	case errors.As(err, &ae):
		r.Class = "acmeerr"
		if ae.Header != nil {
			if n, e := strconv.Atoi(ae.Header.Get("X-Verif-Serial")); e == nil {
				r.Serial = n
			}
		}
		if r.Serial < 0 && strings.HasPrefix(ae.Detail, "serial=") {
			r.Serial, _ = strconv.Atoi(strings.TrimPrefix(ae.Detail, "serial="))
		}
	case errors.As(err, &ne):
		r.Class = "neterr"
		r.Serial = ne.Serial
	case err.Error() == "acme: nonce not found":
		r.Class = "nononce"
	default:
		r.Class = "other"
	}
	return r
}

// Run performs one public call as operation op and logs call/return.
func (s *Server) Run(op *Op, f func(ctx context.Context) (string, error)) Result {
	s.mu.Lock()
	sv := "zero"
	if op.StopVal < 0 {
		sv = "neg"
	}
	s.logf(Event{"ev": "call", "o": op.ID, "b": op.Budget, "p": op.Phases, "sv": sv})
	s.mu.Unlock()
	marker, err := f(op.Ctx)
	res := Classify(marker, err)
	s.mu.Lock()
	op.Returned = time.Now()
	s.logf(Event{"ev": "ret", "o": op.ID, "c": res.Class, "s": res.Serial})
	delete(s.busy, op.ID)
	s.mu.Unlock()
	op.cancel()
	return res
}

// TakeLog returns and clears the recorded events.
func (s *Server) TakeLog() []Event {
	s.mu.Lock()
	defer s.mu.Unlock()
	l := s.Log
	s.Log = nil
	return l
}

func (s *Server) TakeProblems() []string {
	s.mu.Lock()
	defer s.mu.Unlock()
	p := s.Problems
	s.Problems = nil
	return p
}
