// Binding R for C39 (spec/OpenSSHKey.tla).  Pristine OpenSSH private key files are produced by the
// package (MarshalPrivateKey / MarshalPrivateKeyWithPassphrase) and by ssh-keygen (every type and
// size it offers, with and without passphrase); each TLC case applies one corruption class to such a
// file with an independent container codec (decrypting and re-encrypting the private section with
// the known passphrase) and parses it with ParseRawPrivateKey / ParseRawPrivateKeyWithPassphrase.
// Whatever the parser accepts is tested directly: it must sign and verify under its own public key
// and that public key must be the one stored in the file.  Go-written files are given to
// `ssh-keygen -y`.
package c39

import (
	"bytes"
	"crypto"
	"crypto/ecdsa"
	"crypto/ed25519"
	"crypto/elliptic"
	"crypto/rand"
	"crypto/rsa"
	"crypto/x509"
	"encoding/base64"
	"encoding/json"
	"encoding/pem"
	"errors"
	"fmt"
	"hash/fnv"
	"math/big"
	"os"
	"os/exec"
	"path/filepath"
	"strings"
	"testing"

	"golang.org/x/crypto/ssh"
	"verif/harness/c38lib"
	"verif/harness/vutil"
)

type fcase struct {
	Src  string `json:"src"`
	KT   string `json:"kt"`
	Enc  string `json:"enc"`
	Mode string `json:"mode"`
	Corr string `json:"corr"`
}
type tcase struct {
	F    fcase  `json:"f"`
	Res  string `json:"res"`
	Want string `json:"want"`
}

func hashOf(s string, salt int64) uint64 {
	h := fnv.New64a()
	fmt.Fprintf(h, "%d|%d|%s", vutil.Seed(), salt, s)
	return h.Sum64()
}

var sigCount = map[string]int{}

func viol(out *vutil.Out, sig, what string, detail any) {
	sigCount[sig]++
	out.Extra["violations:"+sig] = sigCount[sig]
	if sigCount[sig] <= 3 {
		out.Violation(sig, what, detail)
	}
}
func bump(out *vutil.Out, k string) {
	n, _ := out.Extra[k].(int)
	out.Extra[k] = n + 1
}

var sshType = map[string]string{"rsa": ssh.KeyAlgoRSA, "ecdsa256": ssh.KeyAlgoECDSA256, "ecdsa384": ssh.KeyAlgoECDSA384,
	"ecdsa521": ssh.KeyAlgoECDSA521, "ed25519": ssh.KeyAlgoED25519, "dsa": ssh.InsecureKeyAlgoDSA}

// pristine is one key file as written by its producer.
type pristine struct {
	pem     []byte
	pass    []byte
	comment string
	pubLine []byte // authorized_keys form of the public key (from the producer)
	pub     []byte // public key blob
	desc    string
}

type world struct {
	t      *testing.T
	dir    string
	keygen bool
	pool   map[string][]*pristine
	out    *vutil.Out
}

var comments = []string{"user@host", "", "a comment with spaces", "kommentar-äöü-✓", strings.Repeat("long", 40)}
var passes = []string{"secret", "p", "pass phrase with spaces", "пароль-✓", strings.Repeat("x", 70)}

var kdfCache = map[string][]byte{}

// kdf is the package's bcrypt_pbkdf (hook VerifKeysBcryptPBKDF), memoised: it is slow by design.
func kdf(password, salt []byte, rounds, keyLen int) ([]byte, error) {
	k := fmt.Sprintf("%x|%x|%d|%d", password, salt, rounds, keyLen)
	if v, ok := kdfCache[k]; ok {
		return v, nil
	}
	v, err := ssh.VerifKeysBcryptPBKDF(password, salt, rounds, keyLen)
	if err == nil {
		kdfCache[k] = v
	}
	return v, err
}

func (w *world) goKey(kt string) (crypto.PrivateKey, error) {
	switch kt {
	case "rsa":
		return rsa.GenerateKey(rand.Reader, 2048)
	case "ecdsa256":
		return ecdsa.GenerateKey(elliptic.P256(), rand.Reader)
	case "ecdsa384":
		return ecdsa.GenerateKey(elliptic.P384(), rand.Reader)
	case "ecdsa521":
		return ecdsa.GenerateKey(elliptic.P521(), rand.Reader)
	case "ed25519":
		_, k, err := ed25519.GenerateKey(rand.Reader)
		return k, err
	}
	return nil, fmt.Errorf("no Go writer for %s", kt)
}

// produce writes a fresh pristine file.
func (w *world) produce(src, kt, enc string, idx int) (*pristine, error) {
	h := hashOf(fmt.Sprintf("%s|%s|%s|%d", src, kt, enc, idx), 5)
	p := &pristine{comment: comments[h%uint64(len(comments))], desc: fmt.Sprintf("%s/%s/%s#%d", src, kt, enc, idx)}
	if enc != "none" {
		p.pass = []byte(passes[(h>>8)%uint64(len(passes))])
	}
	if src == "go" {
		key, err := w.goKey(kt)
		if err != nil {
			return nil, err
		}
		var blk *pem.Block
		if enc == "none" {
			blk, err = ssh.MarshalPrivateKey(key, p.comment)
		} else {
			blk, err = ssh.MarshalPrivateKeyWithPassphrase(key, p.comment, p.pass)
		}
		if err != nil {
			return nil, err
		}
		p.pem = pem.EncodeToMemory(blk)
		s, err := ssh.NewSignerFromKey(key)
		if err != nil {
			return nil, err
		}
		p.pub = s.PublicKey().Marshal()
		p.pubLine = ssh.MarshalAuthorizedKey(s.PublicKey())
		return p, nil
	}
	if !w.keygen {
		return nil, errors.New("ssh-keygen not installed")
	}
	f := filepath.Join(w.dir, fmt.Sprintf("kg_%s_%s_%d", kt, enc, idx))
	os.Remove(f)
	os.Remove(f + ".pub")
	args := []string{"-q", "-N", string(p.pass), "-C", p.comment, "-f", f}
	switch kt {
	case "rsa":
		bits := []string{"1024", "2048", "3072", "1536"}[idx%4]
		args = append(args, "-t", "rsa", "-b", bits)
		p.desc += " rsa-" + bits
	case "dsa":
		args = append(args, "-t", "dsa")
	case "ed25519":
		args = append(args, "-t", "ed25519")
	default:
		args = append(args, "-t", "ecdsa", "-b", strings.TrimPrefix(kt, "ecdsa"))
	}
	if enc != "none" {
		args = append(args, "-a", fmt.Sprint(1+(h>>16)%4)) // small bcrypt round counts
		if enc == "cbc" {
			args = append(args, "-Z", "aes256-cbc")
		}
	}
	if o, err := exec.Command("ssh-keygen", args...).CombinedOutput(); err != nil {
		return nil, fmt.Errorf("ssh-keygen %v: %v %s", args, err, o)
	}
	var err error
	if p.pem, err = os.ReadFile(f); err != nil {
		return nil, err
	}
	if p.pubLine, err = os.ReadFile(f + ".pub"); err != nil {
		return nil, err
	}
	fs := strings.Fields(string(p.pubLine))
	if len(fs) < 2 {
		return nil, fmt.Errorf("bad .pub %q", p.pubLine)
	}
	if p.pub, err = base64.StdEncoding.DecodeString(fs[1]); err != nil {
		return nil, err
	}
	return p, nil
}

// get returns the idx-th pristine file of that kind (cached).
func (w *world) get(src, kt, enc string, idx int) (*pristine, error) {
	k := src + "|" + kt + "|" + enc
	for len(w.pool[k]) <= idx {
		p, err := w.produce(src, kt, enc, len(w.pool[k]))
		if err != nil {
			return nil, err
		}
		w.pool[k] = append(w.pool[k], p)
	}
	return w.pool[k][idx], nil
}

func mp(b []byte) *big.Int { return new(big.Int).SetBytes(b) }

// innerOf decrypts and parses the private section.
func innerOf(p *pristine) (*c38lib.KeyFile, *c38lib.Inner, error) {
	kf, err := c38lib.ParseKeyFile(p.pem)
	if err != nil {
		return nil, nil, err
	}
	plain, err := kf.Crypt(kdf, p.pass, kf.Enc, true)
	if err != nil {
		return nil, nil, err
	}
	in, err := c38lib.ParseInner(plain)
	if err != nil {
		return nil, nil, err
	}
	if in.Check1 != in.Check2 {
		return nil, nil, errors.New("harness: check words differ after decrypting a pristine file (KDF/cipher mismatch)")
	}
	return kf, in, nil
}

func blockSize(kf *c38lib.KeyFile) int {
	if kf.Cipher == "none" {
		return 8
	}
	return 16
}

func extendPad(in *c38lib.Inner, n int) {
	for i := 0; i < n; i++ {
		in.Pad = append(in.Pad, byte(len(in.Pad)+1))
	}
}

// corrupt applies the class to a copy of p, using other (same kind, different key) as donor.
func corrupt(p, other *pristine, corr string, h uint64) ([]byte, string, error) {
	kf, in, err := innerOf(p)
	if err != nil {
		return nil, "", err
	}
	_, oin, err := innerOf(other)
	if err != nil {
		return nil, "", err
	}
	okf, _ := c38lib.ParseKeyFile(other.pem)
	note := ""
	bs := blockSize(kf)
	touchedInner := true
	switch corr {
	case "none":
		return p.pem, "", nil
	case "magic":
		kf.Magic[3] ^= 1
		touchedInner = false
	case "truncated":
		blk, _ := pem.Decode(p.pem)
		cut := 1 + int(h%40)
		return pem.EncodeToMemory(&pem.Block{Type: blk.Type, Bytes: blk.Bytes[:len(blk.Bytes)-cut]}), fmt.Sprintf("last %d bytes removed", cut), nil
	case "nkeys0":
		kf.NKeys, touchedInner = 0, false
	case "nkeys2":
		kf.NKeys, touchedInner = 2, false
	case "kdfUnknown":
		kf.KDF, touchedInner = "scrypt@verif", false
	case "cipherUnknown":
		kf.Cipher, touchedInner = []string{"aes128-ctr", "aes256-gcm@openssh.com", "3des-cbc"}[h%3], false
	case "kdfoptsJunk":
		kf.KDFOpts, touchedInner = []byte{1, 2, 3}, false
	case "roundsHuge":
		salt, _, _ := kf.KDFParams()
		kf.KDFOpts, touchedInner = (&c38lib.W{}).Str(salt).U32(1<<20+uint32(h%1000)).B, false
	case "outerPubOther":
		kf.Pub, touchedInner = okf.Pub, false
	case "outerPubGarbage":
		kf.Pub, touchedInner = []byte("\x00\x00\x00\x07ssh-rsa\x00\x00\x00\x01garbage"), false
	case "trailing":
		kf.Trailing, touchedInner = []byte{0, 1, 2, byte(h)}, false
	case "check":
		in.Check2 ^= 1 << (h % 32)
	case "keytypeUnknown":
		in.KeyType = "ssh-verif@example"
		in.Repad(bs)
	case "padWrongByte":
		if len(in.Pad) == 0 {
			extendPad(in, bs)
		}
		in.Pad[int(h%uint64(len(in.Pad)))] ^= 0x10
	case "padOrder":
		if len(in.Pad) < 2 {
			extendPad(in, bs)
		}
		in.Pad[0], in.Pad[1] = in.Pad[1], in.Pad[0]
	case "padLong":
		extendPad(in, bs*int(1+h%3))
	case "commentChanged":
		in.Fields[len(in.Fields)-1] = []byte("changed comment " + fmt.Sprint(h%1000))
		in.Repad(bs)
	// RSA: n e d iqmp p q comment
	case "nMismatch":
		in.Fields[0] = oin.Fields[0]
		in.Repad(bs)
	case "dMismatch":
		in.Fields[2] = c38lib.MpintBytes(new(big.Int).Xor(mp(in.Fields[2]), big.NewInt(2)))
		in.Repad(bs)
	case "eMismatch":
		e := big.NewInt(3)
		if mp(in.Fields[1]).Cmp(e) == 0 {
			e = big.NewInt(65537)
		}
		in.Fields[1] = c38lib.MpintBytes(e)
		in.Repad(bs)
	case "iqmpWrong":
		in.Fields[3] = c38lib.MpintBytes(new(big.Int).Add(mp(in.Fields[3]), big.NewInt(1)))
		in.Repad(bs)
	case "pqSwapped":
		in.Fields[4], in.Fields[5] = in.Fields[5], in.Fields[4]
	// ECDSA: curve pub d comment
	case "pointMismatch":
		in.Fields[1] = oin.Fields[1]
	case "pointNegated", "pointNegatedInner", "pointShareY":
		curve := map[string]elliptic.Curve{"nistp256": elliptic.P256(), "nistp384": elliptic.P384(), "nistp521": elliptic.P521()}[string(in.Fields[0])]
		pt, ok := relatedPoint(curve, in.Fields[1], corr == "pointShareY")
		if !ok {
			return nil, "", errNotConstructible
		}
		in.Fields[1] = pt
		if corr != "pointNegatedInner" {
			typ, f, _, err := c38lib.SplitKey(kf.Pub)
			if err != nil {
				return nil, "", err
			}
			f[1] = pt
			kf.Pub = c38lib.JoinKey(typ, f)
		}
		note = "public point replaced by a different curve point sharing one coordinate with D*G"
	case "dOutOfRange":
		n := map[string]*big.Int{"nistp256": elliptic.P256().Params().N, "nistp384": elliptic.P384().Params().N, "nistp521": elliptic.P521().Params().N}[string(in.Fields[0])]
		in.Fields[2] = c38lib.MpintBytes(new(big.Int).Add(n, big.NewInt(int64(h%5))))
		in.Repad(bs)
	// Ed25519: pub priv comment
	case "pubFieldOther":
		in.Fields[0] = oin.Fields[0]
	case "seedMismatch":
		in.Fields[1] = append(append([]byte{}, oin.Fields[1][:32]...), in.Fields[1][32:]...)
	case "privPubHalfOther":
		in.Fields[1] = append(append([]byte{}, in.Fields[1][:32]...), oin.Fields[1][32:]...)
	case "privShort":
		in.Fields[1] = in.Fields[1][:63]
		in.Repad(bs)
	default:
		return nil, "", fmt.Errorf("unknown corruption class %q", corr)
	}
	if touchedInner {
		enc, err := kf.Crypt(kdf, p.pass, in.Bytes(), false)
		if err != nil {
			return nil, "", err
		}
		kf.Enc = enc
	}
	return kf.PEM(), note, nil
}

var errNotConstructible = errors.New("no such point for this key")

// relatedPoint returns another point of the curve that shares one coordinate with the given uncompressed point:
// the negation (X, p-Y), or -- shareY -- a point (X', Y) with X' != X, which exists for about half of the keys
// (X' is a root of x^2 + X x + X^2 - 3, the cofactor of (x - X) in x^3 - 3x + b - Y^2).
func relatedPoint(curve elliptic.Curve, pt []byte, shareY bool) ([]byte, bool) {
	x, y := elliptic.Unmarshal(curve, pt)
	if x == nil {
		return nil, false
	}
	p := curve.Params().P
	if !shareY {
		ny := new(big.Int).Sub(p, y)
		return elliptic.Marshal(curve, x, ny), curve.IsOnCurve(x, ny)
	}
	disc := new(big.Int).Mul(x, x)
	disc.Mul(disc, big.NewInt(3)).Sub(big.NewInt(12), disc).Mod(disc, p)
	r := new(big.Int).ModSqrt(disc, p)
	if r == nil {
		return nil, false
	}
	inv2 := new(big.Int).ModInverse(big.NewInt(2), p)
	x2 := new(big.Int).Sub(r, x)
	x2.Mul(x2, inv2).Mod(x2, p)
	if x2.Cmp(x) == 0 || !curve.IsOnCurve(x2, y) {
		return nil, false
	}
	return elliptic.Marshal(curve, x2, y), true
}

type outcome struct {
	class string // key | badpass | needpass | err
	err   error
	key   any
}

func parse(pemBytes []byte, mode string, pass []byte) (o outcome) {
	defer func() {
		if r := recover(); r != nil {
			o = outcome{class: "panic", err: fmt.Errorf("panic: %v", r)}
		}
	}()
	var k any
	var err error
	switch mode {
	case "nopass":
		k, err = ssh.ParseRawPrivateKey(pemBytes)
	case "right":
		k, err = ssh.ParseRawPrivateKeyWithPassphrase(pemBytes, pass)
	default:
		k, err = ssh.ParseRawPrivateKeyWithPassphrase(pemBytes, append([]byte("not-"), pass...))
	}
	var pm *ssh.PassphraseMissingError
	switch {
	case err == nil:
		return outcome{"key", nil, k}
	case errors.Is(err, x509.IncorrectPasswordError):
		return outcome{"badpass", err, nil}
	case errors.As(err, &pm):
		return outcome{"needpass", err, nil}
	}
	return outcome{"err", err, nil}
}

// consistency tests an accepted key directly.
func consistency(key any, storedPub []byte) (signOK bool, pubEqual bool, info string) {
	defer func() {
		if r := recover(); r != nil {
			signOK, info = false, fmt.Sprintf("panic while using the accepted key: %v", r)
		}
	}()
	s, err := ssh.NewSignerFromKey(key)
	if err != nil {
		return false, false, "NewSignerFromKey: " + err.Error()
	}
	pub := s.PublicKey()
	pubEqual = bytes.Equal(pub.Marshal(), storedPub)
	data := []byte("C39 consistency probe")
	algos := []string{""}
	if pub.Type() == ssh.KeyAlgoRSA {
		algos = []string{ssh.KeyAlgoRSASHA256, ssh.KeyAlgoRSASHA512}
	}
	signOK = true
	for _, a := range algos {
		var sig *ssh.Signature
		if as, ok := s.(ssh.AlgorithmSigner); ok && a != "" {
			sig, err = as.SignWithAlgorithm(rand.Reader, data, a)
		} else {
			sig, err = s.Sign(rand.Reader, data)
		}
		if err != nil {
			return false, pubEqual, "Sign: " + err.Error()
		}
		if err := pub.Verify(data, sig); err != nil {
			signOK = false
			info = "Verify: " + err.Error()
		}
	}
	return signOK, pubEqual, info
}

func storedPubOf(pemBytes []byte) []byte {
	kf, err := c38lib.ParseKeyFile(pemBytes)
	if err != nil {
		return nil
	}
	return kf.Pub
}

func (w *world) one(tc tcase, line []byte, variant int) bool {
	out, f := w.out, tc.F
	if f.Src == "keygen" && !w.keygen {
		bump(out, "skipped_no_ssh_keygen")
		return false
	}
	p, err := w.get(f.Src, f.KT, f.Enc, variant*2)
	if err != nil {
		if f.Src == "keygen" && f.KT == "dsa" {
			bump(out, "keygen_refused_dsa")
			return false
		}
		w.t.Fatalf("producing %s/%s/%s: %v", f.Src, f.KT, f.Enc, err)
	}
	other, err := w.get(f.Src, f.KT, f.Enc, variant*2+1)
	if err != nil {
		w.t.Fatalf("producing donor %s/%s/%s: %v", f.Src, f.KT, f.Enc, err)
	}
	h := hashOf(string(line), int64(variant))
	var file []byte
	var note string
	file, note, err = corrupt(p, other, f.Corr, h)
	if err == errNotConstructible {
		bump(out, "not_constructible_for_this_key:"+f.Corr)
		return false
	}
	if err != nil {
		w.t.Fatalf("corrupting %s with %s: %v", p.desc, f.Corr, err)
	}
	o := parse(file, f.Mode, p.pass)
	out.Case(fmt.Sprintf("%s|%d", line, variant))
	det := func() map[string]any {
		d := map[string]any{"case": tc, "file": p.desc, "note": note, "real": map[string]any{"class": o.class, "error": fmt.Sprint(o.err)}}
		if len(file) < 6000 {
			d["pem"] = string(file)
			d["passphrase"] = string(p.pass)
		}
		return d
	}
	bad := false
	if o.class == "panic" {
		viol(out, "panic:parse-private-key", fmt.Sprint(o.err), det())
		return true
	}
	// (1) whatever is accepted must be consistent
	if o.class == "key" {
		signOK, pubEqual, info := consistency(o.key, storedPubOf(file))
		origEqual := false
		if s, err := ssh.NewSignerFromKey(o.key); err == nil {
			origEqual = bytes.Equal(s.PublicKey().Marshal(), p.pub)
		}
		if !signOK || !pubEqual {
			d := det()
			d["signatures_verify"], d["public_key_equals_stored"], d["info"] = signOK, pubEqual, info
			what := "the parser accepted a key file whose key is not consistent: "
			if !signOK {
				what += "signatures made with the returned key do not verify under its public key; "
			}
			if !pubEqual {
				what += "the returned key's public key differs from the public key stored in the file; "
			}
			viol(out, "accepted-inconsistent:"+f.Corr, what+"corruption class "+f.Corr+" ("+f.KT+")", d)
			bad = true
		} else if tc.Want == "reject" {
			bump(out, "accepted_consistent_but_model_rejects:"+f.Corr)
		}
		if tc.Want == "key" && !origEqual {
			viol(out, "parsed-key-differs:"+f.Src+":"+f.KT, "the key parsed from a pristine file is not the key its writer published", det())
			bad = true
		}
	}
	// (2) pristine files must parse; (3) wrong passphrase
	switch {
	case tc.Want == "key" && o.class != "key":
		if f.KT == "dsa" {
			viol(out, "ssh-keygen-key:dsa-openssh-format-unhandled", "a DSA private key written by ssh-keygen in OpenSSH format is not parsed: "+fmt.Sprint(o.err), det())
		} else {
			viol(out, "valid-key-rejected:"+f.Src+":"+f.KT+":"+f.Enc+":"+f.Corr, "a valid private key file is rejected: "+fmt.Sprint(o.err), det())
		}
		bad = true
	case tc.Want == "badpass" && f.Mode == "wrong" && o.class != "badpass":
		viol(out, "wrong-passphrase:"+o.class, "a wrong passphrase does not yield x509.IncorrectPasswordError but "+o.class+": "+fmt.Sprint(o.err), det())
		bad = true
	case o.class != tc.Res && !(o.class == "key"):
		bump(out, "outcome_differs_from_code_model:"+tc.Res+"->"+o.class)
	}
	return bad
}

// goToKeygen: every Go-written file must be accepted by ssh-keygen -y and yield the same public key.
func (w *world) goToKeygen() int {
	fails := 0
	rounds := 1
	if vutil.Thorough() {
		rounds = 6
	}
	for r := 0; r < rounds; r++ {
		for _, kt := range []string{"rsa", "ecdsa256", "ecdsa384", "ecdsa521", "ed25519"} {
			for _, enc := range []string{"none", "ctr"} {
				p, err := w.produce("go", kt, enc, 1000+r)
				if err != nil {
					w.t.Fatal(err)
				}
				f := filepath.Join(w.dir, fmt.Sprintf("go_%s_%s_%d", kt, enc, r))
				if err := os.WriteFile(f, p.pem, 0o600); err != nil {
					w.t.Fatal(err)
				}
				o, err := exec.Command("ssh-keygen", "-y", "-P", string(p.pass), "-f", f).CombinedOutput()
				w.out.Case("go->ssh-keygen|" + p.desc)
				det := map[string]any{"file": p.desc, "pem": string(p.pem), "passphrase": string(p.pass), "ssh-keygen": strings.TrimSpace(string(o))}
				if err != nil {
					viol(w.out, "go-written-key-rejected-by-ssh-keygen:"+kt+":"+enc, "ssh-keygen -y rejects a key written by MarshalPrivateKey(WithPassphrase): "+strings.TrimSpace(string(o)), det)
					fails++
					continue
				}
				got, want := strings.Fields(string(o)), strings.Fields(string(p.pubLine))
				if len(got) < 2 || got[0] != want[0] || got[1] != want[1] {
					viol(w.out, "go-written-key-read-differently-by-ssh-keygen:"+kt+":"+enc, "ssh-keygen -y prints a different public key for a key written by the package", det)
					fails++
				}
				if len(got) >= 3 != (p.comment != "") && p.comment != "" {
					bump(w.out, "ssh_keygen_lost_comment")
				}
				// wrong passphrase must be refused by ssh-keygen too (sanity of the amplifier)
				if enc != "none" {
					if _, err := exec.Command("ssh-keygen", "-y", "-P", "definitely-wrong", "-f", f).CombinedOutput(); err == nil {
						bump(w.out, "ssh_keygen_accepted_wrong_passphrase")
					}
				}
			}
		}
	}
	return fails
}

func TestC39(t *testing.T) {
	out := vutil.NewOut()
	defer func() {
		if err := out.Write(); err != nil {
			t.Fatal(err)
		}
	}()
	_, err := exec.LookPath("ssh-keygen")
	w := &world{t: t, dir: t.TempDir(), keygen: err == nil, pool: map[string][]*pristine{}, out: out}
	if !w.keygen {
		out.Extra["skipped"] = "ssh-keygen not installed: only Go-written files are covered"
	}
	variants := 1
	if vutil.Thorough() {
		variants = 4
	}
	fails, n := 0, 0
	err = vutil.ReadNDJSON(vutil.Env("VERIF_CASES", ""), func(line []byte) error {
		var tc tcase
		if err := json.Unmarshal(line, &tc); err != nil {
			return err
		}
		line = append([]byte(nil), line...)
		n++
		if n%97 == 1 {
			out.Sample(json.RawMessage(line))
		}
		for v := 0; v < variants; v++ {
			if w.one(tc, line, v) {
				fails++
				if fails <= 10 {
					t.Errorf("case %s variant %d", line, v)
				}
			}
		}
		return nil
	})
	if err != nil {
		t.Fatal(err)
	}
	if w.keygen {
		fails += w.goToKeygen()
	}
	out.Extra["completed"] = true
	if fails > 0 {
		t.Errorf("%d failing cases", fails)
	}
}
