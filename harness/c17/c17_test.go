// Binding R for C17.
//
// TestKeys: every (password, candidate) family member TLC enumerated from spec/Bcrypt_MCA.tla at the real key length
// (72) is run on the REAL GenerateFromPassword / CompareHashAndPassword / Cost and compared with TLC's verdict
// SameKey(p, q); the same relation is asserted for hashes made by libxcrypt ($2a$/$2b$/$2y$, file VERIF_C17_FOREIGN),
// and the hashes made here are written out (VERIF_C17_GOHASHES) for libxcrypt to verify.
//
// TestGrammar: every mutated hash string TLC enumerated from spec/Bcrypt_MCB.tla is materialised from a real hash
// and given to the REAL Cost and CompareHashAndPassword (right and wrong password) under recover.
package c17

import (
	"bytes"
	"encoding/hex"
	"encoding/json"
	"errors"
	"fmt"
	"math"
	"os"
	"strings"
	"testing"

	"golang.org/x/crypto/bcrypt"
	"verif/harness/vutil"
)

type keyCase struct {
	P    []int  `json:"p"`
	HP   []int  `json:"hp"`
	Q    []int  `json:"q"`
	Op   string `json:"op"`
	Gen  string `json:"gen"`
	Same bool   `json:"same"`
}

func bs(x []int) []byte {
	b := make([]byte, len(x))
	for i, v := range x {
		b[i] = byte(v)
	}
	return b
}

type guarded struct {
	err   error
	panic string
	cost  int
	hash  []byte
}

func gCompare(h, pw []byte) (g guarded) {
	defer func() {
		if e := recover(); e != nil {
			g.panic = fmt.Sprint(e)
		}
	}()
	g.err = bcrypt.CompareHashAndPassword(h, pw)
	return
}
func gCost(h []byte) (g guarded) {
	defer func() {
		if e := recover(); e != nil {
			g.panic = fmt.Sprint(e)
		}
	}()
	g.cost, g.err = bcrypt.Cost(h)
	return
}
func gGenerate(pw []byte, cost int) (g guarded) {
	defer func() {
		if e := recover(); e != nil {
			g.panic = fmt.Sprint(e)
		}
	}()
	g.hash, g.err = bcrypt.GenerateFromPassword(pw, cost)
	return
}

func errStr(e error) string {
	if e == nil {
		return "nil"
	}
	return e.Error()
}

func TestKeys(t *testing.T) {
	out := vutil.NewOut()
	defer func() {
		if err := out.Write(); err != nil {
			t.Fatal(err)
		}
	}()
	// hashes made by libxcrypt: key = hex(password) -> list of hashes ($2a$, $2b$, $2y$)
	foreign := map[string][]string{}
	if p := os.Getenv("VERIF_C17_FOREIGN"); p != "" {
		err := vutil.ReadNDJSON(p, func(line []byte) error {
			var f struct{ Pw, Hash string }
			if err := json.Unmarshal(line, &f); err != nil {
				return err
			}
			foreign[f.Pw] = append(foreign[f.Pw], f.Hash)
			return nil
		})
		if err != nil {
			t.Fatal(err)
		}
	}
	var goHashes bytes.Buffer
	viol := func(sig, what string, c keyCase, extra map[string]any) {
		d := map[string]any{"p": hex.EncodeToString(bs(c.P)), "q": hex.EncodeToString(bs(c.Q)), "op": c.Op, "same_key_per_model": c.Same, "case": c}
		for k, v := range extra {
			d[k] = v
		}
		out.Violation(sig, what, d)
		t.Errorf("%s: %s (op %s, |p|=%d |q|=%d) %v", sig, what, c.Op, len(c.P), len(c.Q), extra)
	}
	hashCache := map[string][]byte{}
	idx := 0
	nForeign, nDefaultCost, otherErr := 0, 0, 0
	err := vutil.ReadNDJSON(vutil.Env("VERIF_CASES", ""), func(line []byte) error {
		var c keyCase
		if err := json.Unmarshal(line, &c); err != nil {
			return err
		}
		idx++
		p, hp, q := bs(c.P), bs(c.HP), bs(c.Q)
		cost := 4 + idx%3 // 4..6
		out.Case(fmt.Sprintf("%x|%x", p, q))
		// GenerateFromPassword on p itself
		if c.Gen == "ErrPasswordTooLong" {
			g := gGenerate(p, cost)
			if g.panic != "" {
				viol("bcrypt-generate-panics", "GenerateFromPassword panicked: "+g.panic, c, nil)
			} else if !errors.Is(g.err, bcrypt.ErrPasswordTooLong) || g.hash != nil {
				viol("bcrypt-generate-accepts>72", "GenerateFromPassword did not refuse a password longer than 72 bytes with ErrPasswordTooLong", c, map[string]any{"err": errStr(g.err)})
			}
		}
		key := fmt.Sprintf("%x|%d", hp, cost)
		h, ok := hashCache[key]
		if !ok {
			g := gGenerate(hp, cost)
			if g.panic != "" || g.err != nil {
				viol("bcrypt-generate-fails", "GenerateFromPassword failed for a password of at most 72 bytes: "+g.panic+errStr(g.err), c, map[string]any{"cost": cost})
				return nil
			}
			h = g.hash
			hashCache[key] = h
			if len(h) != 60 || !strings.HasPrefix(string(h), fmt.Sprintf("$2a$%02d$", cost)) {
				viol("bcrypt-hash-format", "GenerateFromPassword output is not $2a$cc$ + 53 characters", c, map[string]any{"hash": string(h)})
			}
			if gc := gCost(h); gc.panic != "" || gc.err != nil || gc.cost != cost {
				viol("bcrypt-cost-of-own-hash", "Cost() of a hash just generated is not the cost given", c, map[string]any{"hash": string(h), "cost": gc.cost, "err": errStr(gc.err), "panic": gc.panic})
			}
			if r := gCompare(h, hp); r.panic != "" || r.err != nil {
				viol("bcrypt-roundtrip-fails", "CompareHashAndPassword(GenerateFromPassword(pw), pw) failed", c, map[string]any{"hash": string(h), "err": errStr(r.err), "panic": r.panic})
			}
		}
		check := func(hash []byte, who string) {
			r := gCompare(hash, q)
			switch {
			case r.panic != "":
				viol("bcrypt-compare-panics", "CompareHashAndPassword panicked: "+r.panic, c, map[string]any{"hash": string(hash), "hash_by": who})
			case c.Same && r.err != nil:
				viol("bcrypt-compare-rejects-same-key:"+who, "CompareHashAndPassword rejected a candidate that the key schedule cannot distinguish from the password (or the password itself)", c, map[string]any{"hash": string(hash), "err": errStr(r.err)})
			case !c.Same && r.err == nil:
				viol("bcrypt-compare-accepts-different-key:"+who, "CompareHashAndPassword accepted a candidate that is a different key", c, map[string]any{"hash": string(hash)})
			case !c.Same && !errors.Is(r.err, bcrypt.ErrMismatchedHashAndPassword):
				otherErr++ // which error is not part of the property: informational
			}
		}
		check(h, "go")
		if len(p) > 72 { // the over-long password itself is the same key as its first 72 bytes
			if r := gCompare(h, p); r.panic != "" || r.err != nil {
				viol("bcrypt-compare-rejects-same-key:go", "CompareHashAndPassword rejected the password whose first 72 bytes were hashed", c, map[string]any{"hash": string(h), "err": errStr(r.err), "panic": r.panic})
			}
		}
		for _, fh := range foreign[hex.EncodeToString(hp)] {
			nForeign++
			if gc := gCost([]byte(fh)); gc.panic != "" || gc.err != nil || gc.cost != 4 {
				viol("bcrypt-cost-of-foreign-hash", "Cost() of a libxcrypt hash is wrong", c, map[string]any{"hash": fh, "cost": gc.cost, "err": errStr(gc.err)})
			}
			check([]byte(fh), "libxcrypt"+fh[:4])
		}
		if !bytes.Contains(q, []byte{0}) {
			b, _ := json.Marshal(map[string]any{"hash": string(h), "q": hex.EncodeToString(q), "same": c.Same})
			goHashes.Write(b)
			goHashes.WriteByte('\n')
		}
		out.Sample(map[string]any{"p_len": len(p), "q_len": len(q), "op": c.Op, "same": c.Same, "cost": cost})
		return nil
	})
	if err != nil {
		t.Fatal(err)
	}
	// cost handling of GenerateFromPassword: below MinCost -> DefaultCost, above MaxCost -> InvalidCostError
	for _, cc := range []struct {
		cost, eff int
	}{{0, 10}, {3, 10}, {-1, 10}, {math.MinInt, 10}, {math.MinInt + 1, 10}, {-1 << 32, 10}, {4, 4}, {32, -1}, {100, -1},
		{math.MaxInt32, -1}, {1 << 32, -1}, {1<<32 + 4, -1}, {math.MaxInt - 1, -1}, {math.MaxInt, -1}} { // int-range ends and the uint32(cost) wrap (2^32+4 must not act as 4)
		g := gGenerate([]byte("pw"), cc.cost)
		nDefaultCost++
		out.Case(fmt.Sprint("gencost|", cc.cost))
		if g.panic != "" {
			out.Violation("bcrypt-generate-panics", "GenerateFromPassword panicked: "+g.panic, map[string]any{"cost": cc.cost})
			t.Errorf("generate cost %d panicked", cc.cost)
			continue
		}
		if cc.eff < 0 {
			var ice bcrypt.InvalidCostError
			if !errors.As(g.err, &ice) {
				out.Violation("bcrypt-generate-cost>31", "GenerateFromPassword accepted a cost above MaxCost", map[string]any{"cost": cc.cost, "err": errStr(g.err)})
				t.Errorf("generate cost %d: %v", cc.cost, g.err)
			}
			continue
		}
		if gc := gCost(g.hash); g.err != nil || gc.cost != cc.eff {
			out.Violation("bcrypt-generate-default-cost", "GenerateFromPassword with cost < MinCost did not use DefaultCost", map[string]any{"cost": cc.cost, "got": gc.cost, "err": errStr(g.err)})
			t.Errorf("generate cost %d -> %d", cc.cost, gc.cost)
		}
	}
	out.Extra["foreign_hash_compares"] = nForeign
	out.Extra["rejections_with_other_error_than_mismatch_informational"] = otherErr
	if p := os.Getenv("VERIF_C17_GOHASHES"); p != "" {
		os.WriteFile(p, goHashes.Bytes(), 0o644)
	}
}

// ---------------------------------------------------------------- part B

type costOut struct {
	T    string `json:"t"`
	Cost int    `json:"cost"`
}
type gramCase struct {
	S     []int   `json:"s"`
	Kind  string  `json:"kind"`
	Tmpl  []int   `json:"tmpl"`
	WF    bool    `json:"wf"`
	Cost  costOut `json:"cost"`
	Right string  `json:"right"`
	Wrong string  `json:"wrong"`
}

const alphabet = "./ABCDEFGHIJKLMNOPQRSTUVWXYZabcdefghijklmnopqrstuvwxyz0123456789"

var (
	pwRight = []byte("correct horse \x00 battery \xe9")
	pwWrong = []byte("correct horse \x00 battery \xe8")
)

// canonical real string for a template: a real hash of pwRight with the version bytes rewritten
func canonical(tm []int, cache map[string][]byte) ([]byte, error) {
	k := fmt.Sprint(tm)
	if c, ok := cache[k]; ok {
		return c, nil
	}
	cost := 10*(tm[2]-48) + (tm[3] - 48)
	h, err := bcrypt.GenerateFromPassword(pwRight, cost)
	if err != nil {
		return nil, err
	}
	// h = "$2a$cc$" + 53
	var c []byte
	c = append(c, '$', byte(tm[0]))
	if tm[1] != 0 {
		c = append(c, byte(tm[1]))
	}
	c = append(c, h[3:]...)
	cache[k] = c
	return c, nil
}

// materialise returns the byte string, or nil when the "mutation" does not change the string's meaning
func materialise(s []int, canon []byte, saltStart int) []byte {
	b := make([]byte, len(s))
	for i, code := range s {
		var orig byte
		if i < len(canon) {
			orig = canon[i]
		}
		salt22 := i == saltStart+21
		switch {
		case code >= 2000:
			b[i] = canon[saltStart+22+(code-2001)]
		case code >= 1000:
			b[i] = canon[saltStart+(code-1001)]
		case code == 900 || code == 901:
			v := strings.IndexByte(alphabet, orig)
			var nv int
			if code == 901 { // same significant (top 2) bits, different character
				nv = v ^ 1
			} else if salt22 {
				nv = v ^ 0x20
			} else {
				nv = (v + 17) % 64
			}
			b[i] = alphabet[nv]
		default:
			b[i] = byte(code)
			if i < len(canon) && i >= saltStart { // concrete byte over a salt/hash character
				if b[i] == orig {
					return nil
				}
				if salt22 {
					v, w := strings.IndexByte(alphabet, orig), strings.IndexByte(alphabet, b[i])
					if w >= 0 && v>>4 == w>>4 {
						return nil // decodes to the same salt: covered by the 901 class
					}
				}
			}
		}
	}
	return b
}

var mustFailCost = map[string]bool{"too-short": true, "bad-prefix": true, "version-too-new": true, "bad-cost": true}
var mustFail = map[string]bool{"too-short": true, "bad-prefix": true, "version-too-new": true, "bad-cost": true, "bad-salt": true}

func classify(err error) string {
	var ip bcrypt.InvalidHashPrefixError
	var hv bcrypt.HashVersionTooNewError
	var ic bcrypt.InvalidCostError
	switch {
	case err == nil:
		return "ok"
	case errors.Is(err, bcrypt.ErrHashTooShort):
		return "too-short"
	case errors.Is(err, bcrypt.ErrMismatchedHashAndPassword):
		return "mismatch"
	case errors.As(err, &ip):
		return "bad-prefix"
	case errors.As(err, &hv):
		return "version-too-new"
	case errors.As(err, &ic):
		return "bad-cost"
	case strings.Contains(err.Error(), "strconv"):
		return "bad-cost"
	case strings.Contains(err.Error(), "base64"):
		return "bad-salt"
	}
	return "other:" + err.Error()
}

func TestGrammar(t *testing.T) {
	out := vutil.NewOut()
	defer func() {
		if err := out.Write(); err != nil {
			t.Fatal(err)
		}
	}()
	cache := map[string][]byte{}
	agree, disagree, lenient, skipped, heavy := 0, 0, 0, 0, 0
	var disagreeSamples []any
	err := vutil.ReadNDJSON(vutil.Env("VERIF_CASES", ""), func(line []byte) error {
		var c gramCase
		if err := json.Unmarshal(line, &c); err != nil {
			return err
		}
		canon, err := canonical(c.Tmpl, cache)
		if err != nil {
			return err
		}
		saltStart := 7
		if c.Tmpl[1] == 0 {
			saltStart = 6
		}
		b := materialise(c.S, canon, saltStart)
		if b == nil {
			skipped++
			out.Case("")
			return nil
		}
		out.Case(string(b))
		tmplCost := 10*(c.Tmpl[2]-48) + (c.Tmpl[3] - 48)
		viol := func(sig, what string, extra map[string]any) {
			d := map[string]any{"hash_string": string(b), "hash_hex": hex.EncodeToString(b), "kind": c.Kind, "canonical": string(canon), "case": c}
			for k, v := range extra {
				d[k] = v
			}
			out.Violation(sig, what, d)
			t.Errorf("%s: %s: %q %v", sig, what, b, extra)
		}
		// Cost
		gc := gCost(b)
		switch {
		case gc.panic != "":
			viol("bcrypt-cost-panics", "Cost panicked on a byte string: "+gc.panic, nil)
		case mustFailCost[c.Cost.T] && gc.err == nil:
			viol("bcrypt-cost-no-error:"+c.Cost.T, "Cost returned no error for a malformed hash string ("+c.Cost.T+")", map[string]any{"cost": gc.cost})
		case c.WF && (gc.err != nil || gc.cost != c.Cost.Cost):
			viol("bcrypt-cost-wellformed", "Cost of a well-formed hash string is wrong", map[string]any{"cost": gc.cost, "err": errStr(gc.err), "want": c.Cost.Cost})
		}
		gotCost := classify(gc.err)
		if c.Cost.T == "ok" && c.Cost.Cost > 6 { // the mutation produced a valid but expensive cost (2^cost rounds): Cost only
			heavy++
			return nil
		}
		// Compare with the right and the wrong password
		gr, gw := gCompare(b, pwRight), gCompare(b, pwWrong)
		switch {
		case gr.panic != "" || gw.panic != "":
			viol("bcrypt-compare-panics", "CompareHashAndPassword panicked on a byte string: "+gr.panic+gw.panic, nil)
		case gw.err == nil:
			viol("bcrypt-compare-accepts-different-key:mangled", "CompareHashAndPassword accepted a password that is not the hashed one", nil)
		case (mustFail[c.Right] || c.Right == "mismatch") && gr.err == nil:
			viol("bcrypt-compare-no-error:"+c.Right, "CompareHashAndPassword returned nil for a hash string that is malformed or not the password's hash ("+c.Right+")", nil)
		case c.WF && c.Right == "ok" && gr.err != nil:
			viol("bcrypt-compare-rejects-wellformed", "CompareHashAndPassword rejected a well-formed hash of the password", map[string]any{"err": errStr(gr.err)})
		}
		gotRight, gotWrong := classify(gr.err), classify(gw.err)
		_ = tmplCost
		if gotCost == c.Cost.T && (gc.err != nil || gc.cost == c.Cost.Cost) && gotRight == c.Right && gotWrong == c.Wrong {
			agree++
		} else {
			disagree++
			if len(disagreeSamples) < 10 {
				disagreeSamples = append(disagreeSamples, map[string]any{"s": string(b), "model": []string{c.Cost.T, c.Right, c.Wrong}, "real": []string{gotCost, gotRight, gotWrong}})
			}
		}
		if !c.WF && gr.err == nil && gr.panic == "" {
			lenient++
		}
		out.Sample(map[string]any{"s": string(b), "kind": c.Kind, "cost": gotCost, "right": gotRight, "wrong": gotWrong})
		return nil
	})
	if err != nil {
		t.Fatal(err)
	}
	out.Extra["error_class_agrees_with_transcription"] = agree
	out.Extra["error_class_differs_from_transcription_informational"] = disagree
	out.Extra["error_class_difference_samples"] = disagreeSamples
	out.Extra["strings_outside_grammar_that_verify_informational"] = lenient
	out.Extra["unchanged_after_materialisation_skipped"] = skipped
	out.Extra["compare_not_run_cost>6"] = heavy
}
