// Binding T for C31: concurrent application writers/readers and re-keys on real
// handshakeTransport pairs; every packet at the keyingTransport boundary and every driver
// call/return/delivery is appended to one log (one lock), which TLC validates against
// spec/SSHRekey_Trace.tla.  The driver itself checks payload integrity (writers reuse and
// scribble their buffers after writePacket returns) and, at quiescence, that every writer
// returned and every packet was delivered; a stall is classified from a goroutine dump.
package c31

import (
	"bytes"
	"crypto/ed25519"
	"crypto/rand"
	"encoding/binary"
	"encoding/json"
	"fmt"
	mrand "math/rand"
	"os"
	"runtime"
	"strings"
	"sync"
	"testing"
	"time"

	"golang.org/x/crypto/ssh"
	"verif/harness/memconn"
	"verif/harness/vutil"
)

type event struct {
	Ev string `json:"ev"`
	X  string `json:"x"`
	T  string `json:"t"`
	W  int    `json:"w"`
	I  int    `json:"i"`
}

type recorder struct {
	mu  sync.Mutex
	evs []event
	off bool
}

func (r *recorder) add(e event) {
	r.mu.Lock()
	if !r.off {
		r.evs = append(r.evs, e)
	}
	r.mu.Unlock()
}

const appType = 94 // SSH_MSG_CHANNEL_DATA: opaque to handshakeTransport

func classify(p []byte) (t string, w, i int) {
	switch {
	case len(p) == 0:
		return "EMPTY", 0, 0
	case p[0] == ssh.VerifMsgKexInit:
		return "KEXINIT", 0, 0
	case p[0] == ssh.VerifMsgNewKeys:
		return "NEWKEYS", 0, 0
	case p[0] == ssh.VerifMsgExtInfo:
		return "EXT", 0, 0
	case p[0] >= 30 && p[0] <= 49:
		return "KEXMSG", 0, 0
	case p[0] == appType && len(p) >= 6:
		return "APP", int(p[1]), int(binary.BigEndian.Uint32(p[2:6]))
	}
	return fmt.Sprintf("OTHER%d", p[0]), 0, 0
}

func fill(p []byte, side byte, w, i int) {
	p[0] = appType
	p[1] = byte(w)
	binary.BigEndian.PutUint32(p[2:6], uint32(i))
	for k := 6; k < len(p); k++ {
		p[k] = byte(int(side) + 7*w + 13*i + 31*k)
	}
}

func checkPayload(p []byte, side byte) bool {
	q := make([]byte, len(p))
	_, w, i := classify(p)
	fill(q, side, w, i)
	return bytes.Equal(p, q)
}

type scenario struct {
	Seed       int64 `json:"seed"`
	WritersC   int   `json:"writersC"`
	WritersS   int   `json:"writersS"`
	NPkts      int   `json:"npkts"`
	Threshold  int   `json:"threshold"` // RekeyThreshold bytes (0 = default 1 GiB)
	MaxLen     int   `json:"maxLen"`
	RekeysC    int   `json:"rekeysC"`
	RekeysS    int   `json:"rekeysS"`
	StallPeer  bool  `json:"stallPeer"` // server app stops reading for a while so the client's queue fills
	Yield      int   `json:"yield"`     // 0..3: how aggressively goroutines yield
	ReaderSlow int   `json:"readerSlow"`
	Storm      bool  `json:"storm"` // a goroutine keeps requesting key exchanges on the client while the stalled exchange completes
}

type result struct {
	Trace      []event
	Problems   []string // property-level problems detected by the driver itself
	Stall      string   // non-empty: classification of a stall
	InfraStall bool
}

var hostKey ssh.Signer

func init() {
	_, priv, _ := ed25519.GenerateKey(rand.Reader)
	hostKey, _ = ssh.NewSignerFromKey(priv)
}

func run(sc scenario) (res result) {
	rng := mrand.New(mrand.NewSource(sc.Seed))
	rec := &recorder{}
	ca, cb := memconn.Pair()
	hook := func(side, ev string, p []byte) {
		if ev == "kexdone" {
			rec.add(event{Ev: ev, X: side})
			return
		}
		t, w, i := classify(p)
		rec.add(event{Ev: ev, X: side, T: t, W: w, I: i})
	}
	cconf := &ssh.ClientConfig{HostKeyCallback: ssh.InsecureIgnoreHostKey()}
	cconf.RekeyThreshold = uint64(sc.Threshold)
	cconf.KeyExchanges = []string{"curve25519-sha256"}
	sconf := &ssh.ServerConfig{}
	sconf.RekeyThreshold = uint64(sc.Threshold)
	sconf.KeyExchanges = []string{"curve25519-sha256"}
	sconf.AddHostKey(hostKey)
	v := []byte("SSH-2.0-verif")
	hc := ssh.VerifNewClientHandshake(ca, cconf, v, v, "addr", ca.RemoteAddr(), hook)
	hs := ssh.VerifNewServerHandshake(cb, sconf, v, v, hook)
	sides := map[string]*ssh.VerifHandshake{"c": hc, "s": hs}
	var probMu sync.Mutex
	problem := func(s string) { probMu.Lock(); res.Problems = append(res.Problems, s); probMu.Unlock() }

	var wgSess sync.WaitGroup
	sessErr := make(chan error, 2)
	for x, h := range sides {
		wgSess.Add(1)
		go func(x string, h *ssh.VerifHandshake) {
			defer wgSess.Done()
			if err := h.WaitSession(); err != nil {
				sessErr <- fmt.Errorf("%s waitSession: %v", x, err)
				return
			}
			rec.add(event{Ev: "deliver", X: x, T: "NEWKEYS"})
		}(x, h)
	}
	wgSess.Wait()
	select {
	case err := <-sessErr:
		res.InfraStall = true
		res.Stall = err.Error()
		return
	default:
	}

	nw := map[string]int{"c": sc.WritersC, "s": sc.WritersS}
	expect := map[string]int{"c": sc.WritersS * sc.NPkts, "s": sc.WritersC * sc.NPkts} // deliveries at x come from the other side
	var wgW, wgR sync.WaitGroup
	stallGate := make(chan struct{})
	yield := func(r *mrand.Rand) {
		switch {
		case sc.Yield == 0:
		case r.Intn(4) < sc.Yield:
			runtime.Gosched()
		}
		if sc.Yield == 3 && r.Intn(50) == 0 {
			time.Sleep(time.Duration(r.Intn(200)) * time.Microsecond)
		}
	}
	// readers
	for x, h := range sides {
		wgR.Add(1)
		go func(x string, h *ssh.VerifHandshake, seed int64) {
			defer wgR.Done()
			r := mrand.New(mrand.NewSource(seed))
			from := byte('c')
			if x == "c" {
				from = 's'
			}
			got := 0
			last := map[int]int{}
			if x == "s" && sc.StallPeer {
				<-stallGate
			}
			for got < expect[x] {
				p, err := h.ReadPacket()
				if err != nil {
					problem(fmt.Sprintf("%s ReadPacket error before all packets were delivered (%d/%d): %v", x, got, expect[x], err))
					return
				}
				t, w, i := classify(p)
				rec.add(event{Ev: "deliver", X: x, T: t, W: w, I: i})
				if t != "APP" {
					continue
				}
				got++
				if !checkPayload(p, from) {
					problem(fmt.Sprintf("payload of packet (writer %d, #%d) delivered at %s is corrupted", w, i, x))
				}
				if i != last[w]+1 {
					problem(fmt.Sprintf("packet (writer %d) delivered at %s out of order or duplicated/lost: got #%d after #%d", w, x, i, last[w]))
				}
				last[w] = i
				if sc.ReaderSlow > 0 && r.Intn(sc.ReaderSlow) == 0 {
					time.Sleep(time.Duration(r.Intn(300)) * time.Microsecond)
				}
				yield(r)
			}
		}(x, h, rng.Int63())
	}
	// writers
	for x, h := range sides {
		for w := 1; w <= nw[x]; w++ {
			wgW.Add(1)
			go func(x string, h *ssh.VerifHandshake, w int, seed int64) {
				defer wgW.Done()
				r := mrand.New(mrand.NewSource(seed))
				buf := make([]byte, sc.MaxLen+6)
				for i := 1; i <= sc.NPkts; i++ {
					n := 6 + r.Intn(sc.MaxLen+1)
					p := buf[:n]
					fill(p, x[0], w, i)
					rec.add(event{Ev: "wstart", X: x, W: w, I: i})
					err := h.WritePacket(p)
					rec.add(event{Ev: "wend", X: x, W: w, I: i})
					if err != nil {
						problem(fmt.Sprintf("%s writer %d WritePacket #%d: %v", x, w, i, err))
						return
					}
					for k := range p { // the caller may reuse its buffer
						p[k] = 0xEE
					}
					yield(r)
				}
			}(x, h, w, rng.Int63())
		}
	}
	// explicit re-keys
	var wgK sync.WaitGroup
	rk := map[string]int{"c": sc.RekeysC, "s": sc.RekeysS}
	for x, h := range sides {
		wgK.Add(1)
		go func(x string, h *ssh.VerifHandshake, seed int64) {
			defer wgK.Done()
			r := mrand.New(mrand.NewSource(seed))
			for k := 0; k < rk[x]; k++ {
				time.Sleep(time.Duration(r.Intn(1500)) * time.Microsecond)
				rec.add(event{Ev: "rekey", X: x})
				h.RequestKeyExchange()
			}
		}(x, h, rng.Int63())
	}
	stormStop := make(chan struct{})
	if sc.Storm {
		wgK.Add(1)
		go func() {
			defer wgK.Done()
			for {
				select {
				case <-stormStop:
					return
				default:
				}
				rec.add(event{Ev: "rekey", X: "c"})
				hc.RequestKeyExchange()
				time.Sleep(20 * time.Microsecond)
			}
		}()
		go func() { wgW.Wait(); close(stormStop) }()
	}
	if sc.StallPeer {
		// let the client's queue fill (and writers block) while the server application is not reading
		go func() { time.Sleep(30 * time.Millisecond); close(stallGate) }()
	}
	done := make(chan struct{})
	go func() { wgW.Wait(); wgK.Wait(); wgR.Wait(); close(done) }()
	select {
	case <-done:
	case <-time.After(45 * time.Second):
		buf := make([]byte, 1<<20)
		buf = buf[:runtime.Stack(buf, true)]
		res.Stall, res.InfraStall = classifyStall(string(buf))
	}
	rec.mu.Lock()
	rec.off = true
	res.Trace = rec.evs
	rec.mu.Unlock()
	go hc.Close()
	go hs.Close()
	return
}

// classifyStall: a writer parked in writeCond.Wait inside handshakeTransport.writePacket while
// no key exchange is running on that side (its kexLoop is idle in select) is the property's
// "writer blocks forever"; anything else is reported as infrastructure trouble, not a verdict.
func classifyStall(dump string) (string, bool) {
	gs := strings.Split(dump, "\n\n")
	blockedWriters, kexIdle, kexBusy := 0, 0, 0
	for _, g := range gs {
		if strings.Contains(g, "(*handshakeTransport).writePacket") && strings.Contains(g, "sync.(*Cond).Wait") {
			blockedWriters++
		}
		if strings.Contains(g, "(*handshakeTransport).kexLoop") {
			if strings.Contains(g, "enterKeyExchange") || strings.Contains(g, "sendKexInit") {
				kexBusy++
			} else if strings.Contains(g, "[select") {
				kexIdle++
			}
		}
	}
	if blockedWriters > 0 && kexBusy == 0 && kexIdle == 2 {
		return fmt.Sprintf("%d writer(s) parked in writeCond.Wait while both kexLoops are idle (no key exchange in progress)", blockedWriters), false
	}
	return fmt.Sprintf("stall not classifiable as the property's violation (blockedWriters=%d kexIdle=%d kexBusy=%d)", blockedWriters, kexIdle, kexBusy), true
}

func TestRecord(t *testing.T) {
	out := vutil.NewOut()
	defer func() {
		if err := out.Write(); err != nil {
			t.Fatal(err)
		}
	}()
	n := 40
	if v := os.Getenv("VERIF_N"); v != "" {
		fmt.Sscan(v, &n)
	}
	rng := vutil.Rand(31)
	tf, err := os.Create(vutil.Env("VERIF_TRACES", os.DevNull))
	if err != nil {
		t.Fatal(err)
	}
	defer tf.Close()
	enc := json.NewEncoder(tf)
	infra := 0
	for k := 0; k < n; k++ {
		sc := scenario{Seed: rng.Int63(), WritersC: 1 + rng.Intn(4), WritersS: 1 + rng.Intn(4), NPkts: 3 + rng.Intn(30),
			Threshold: []int{256, 256, 1024, 4096, 0}[rng.Intn(5)], MaxLen: []int{0, 10, 100, 600}[rng.Intn(4)],
			RekeysC: rng.Intn(3), RekeysS: rng.Intn(3), Yield: rng.Intn(4), ReaderSlow: []int{0, 0, 3, 10}[rng.Intn(4)]}
		if k%5 == 4 { // queue-overflow scenario: > maxPendingPackets writes during a stalled key exchange
			sc.StallPeer = true
			sc.WritersC = 2 + rng.Intn(3)
			sc.NPkts = 40 + rng.Intn(30)
			sc.RekeysC = 1 + rng.Intn(2)
			sc.MaxLen = 10
			if k%10 == 9 { // ... and a second key exchange starts while the blocked writers are being woken
				sc.Storm = true
				sc.WritersC = 6 + rng.Intn(3)
				sc.Threshold = 256
				sc.MaxLen = 300
				sc.Yield = 0
			}
		}
		res := run(sc)
		key := fmt.Sprintf("%+v", sc)
		out.Case(key)
		if res.InfraStall {
			infra++
			out.Extra["infra_stalls"] = infra
			t.Logf("infra stall: %s (scenario %+v)", res.Stall, sc)
			continue
		}
		if res.Stall != "" {
			out.Violation("rekey-writer-blocked-forever", "a writer blocks forever although the peer keeps reading: "+res.Stall, map[string]any{"scenario": sc})
			t.Errorf("stall: %s", res.Stall)
		}
		for _, p := range res.Problems {
			out.Violation("rekey-delivery", p, map[string]any{"scenario": sc})
			t.Errorf("problem: %s (scenario %+v)", p, sc)
		}
		enc.Encode(map[string]any{"scenario": sc, "events": res.Trace})
		if k < 2 {
			m := len(res.Trace)
			if m > 40 {
				m = 40
			}
			out.Sample(map[string]any{"scenario": sc, "first_events": res.Trace[:m], "events": len(res.Trace)})
		}
	}
	out.Extra["max_pending"] = ssh.VerifMaxPendingPackets
	out.Extra["chan_size"] = ssh.VerifChanSize
	if infra > n/4 {
		t.Fatalf("too many unclassifiable stalls: %d of %d", infra, n)
	}
}
