// A bounded in-memory duplex byte stream for C31: like a TCP connection with small socket
// buffers.  Each direction buffers at most `limit` bytes; Write blocks (sync.Cond) until the
// reader has drained enough, so a transport-level write can stall exactly as conn.Write does on
// a full socket.  (harness/memconn is unbounded: its Write never blocks; net.Pipe is unusable
// because it has no buffer at all.)
package c31

import (
	"io"
	"net"
	"sync"
)

type boundedHalf struct {
	mu            sync.Mutex
	cond          *sync.Cond
	buf           []byte
	limit         int
	closed        bool
	peak          int // high-water mark of len(buf)
	blockedWrites int // number of Write calls that had to wait for room at least once
	total         int // bytes accepted so far
}

func newBoundedHalf(limit int) *boundedHalf {
	h := &boundedHalf{limit: limit}
	h.cond = sync.NewCond(&h.mu)
	return h
}

func (h *boundedHalf) write(p []byte) (int, error) {
	h.mu.Lock()
	defer h.mu.Unlock()
	n, waited := 0, false
	for len(p) > 0 {
		for !h.closed && len(h.buf) >= h.limit {
			if !waited {
				waited = true
				h.blockedWrites++
			}
			h.cond.Wait()
		}
		if h.closed {
			return n, io.ErrClosedPipe
		}
		k := h.limit - len(h.buf)
		if k > len(p) {
			k = len(p)
		}
		h.buf = append(h.buf, p[:k]...)
		if len(h.buf) > h.peak {
			h.peak = len(h.buf)
		}
		p = p[k:]
		n += k
		h.total += k
		h.cond.Broadcast()
	}
	return n, nil
}

func (h *boundedHalf) read(p []byte) (int, error) {
	h.mu.Lock()
	defer h.mu.Unlock()
	for !h.closed && len(h.buf) == 0 {
		h.cond.Wait()
	}
	if len(h.buf) == 0 {
		return 0, io.EOF
	}
	n := copy(p, h.buf)
	h.buf = h.buf[:copy(h.buf, h.buf[n:])]
	h.cond.Broadcast()
	return n, nil
}

func (h *boundedHalf) close() {
	h.mu.Lock()
	h.closed = true
	h.cond.Broadcast()
	h.mu.Unlock()
}

func (h *boundedHalf) stats() (peak, blockedWrites, total int) {
	h.mu.Lock()
	defer h.mu.Unlock()
	return h.peak, h.blockedWrites, h.total
}

type boundedAddr string

func (a boundedAddr) Network() string { return "tcp" }
func (a boundedAddr) String() string  { return string(a) }

// boundedConn is one end of the bounded duplex stream (an io.ReadWriteCloser).
type boundedConn struct {
	r, w   *boundedHalf
	remote net.Addr
}

func (c *boundedConn) Read(p []byte) (int, error)  { return c.r.read(p) }
func (c *boundedConn) Write(p []byte) (int, error) { return c.w.write(p) }
func (c *boundedConn) Close() error                { c.r.close(); c.w.close(); return nil }
func (c *boundedConn) RemoteAddr() net.Addr        { return c.remote }

// boundedPair returns the two ends; every direction buffers at most limit bytes.
func boundedPair(limit int) (*boundedConn, *boundedConn) {
	ab, ba := newBoundedHalf(limit), newBoundedHalf(limit)
	return &boundedConn{r: ba, w: ab, remote: boundedAddr("10.0.0.2:22")},
		&boundedConn{r: ab, w: ba, remote: boundedAddr("10.0.0.1:1111")}
}
