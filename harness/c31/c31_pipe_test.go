// Scenario BothQueueBeyondPipe for C31: a key re-exchange is held open (the client's
// HostKeyCallback blocks: both sides are between their KEXINIT and NEWKEYS) while EACH side's
// application queues more bytes than the byte stream between the peers buffers per direction
// (bounded in-memory conn, c31_boundedconn.go); then the exchange is allowed to finish.  Both
// applications read all the time.  Property-level verdict: every queued packet is delivered
// exactly once and in order on both sides, and a writePacket issued after the exchange returns.
// A stall is a violation only when the goroutine dump shows the dead-lock itself (both kexLoops
// flushing pendingPackets in conn.Write under t.mu while both readLoops are parked waiting for
// request.done); any other stall is infrastructure trouble.  The same trace points as in
// TestRecord are recorded and validated against SSHRekey_Trace by the check.
package c31

import (
	"encoding/json"
	"fmt"
	"net"
	"os"
	"runtime"
	"strings"
	"sync"
	"sync/atomic"
	"testing"
	"time"

	"golang.org/x/crypto/ssh"
	"verif/harness/vutil"
)

type pipeScenario struct {
	Name      string `json:"name"`
	PipeLimit int    `json:"pipeLimit"` // bytes buffered per direction
	NQueued   int    `json:"nQueued"`   // packets each side queues during the held exchange (< maxPendingPackets)
	PktSize   int    `json:"pktSize"`
	Initiator string `json:"initiator"` // side whose application asks for the re-exchange
}

type pipeResult struct {
	Trace        []event
	Problems     []string
	Stall        string // non-empty: the run did not reach quiescence
	StallIsDead  bool   // the dump shows the cross-peer flush dead-lock
	InfraStall   bool
	QueuedAtDone map[string]int // bytes in pendingPackets of x when x's exchange completed (kexdone, under t.mu)
	PipeBlocked  map[string]int // conn.Write calls of x that found the pipe full
	PipePeak     map[string]int
}

const pipeWatchdog = 25 * time.Second

func runPipe(sc pipeScenario) (res pipeResult) {
	rec := &recorder{}
	ca, cb := boundedPair(sc.PipeLimit)
	var qmu sync.Mutex
	queued := map[string]int{}
	atDone := map[string]int{}
	held := false // the re-exchange under test has started
	kexdone := map[string]chan struct{}{"c": make(chan struct{}), "s": make(chan struct{})}
	hook := func(side, ev string, p []byte) {
		switch ev {
		case "kexdone":
			rec.add(event{Ev: ev, X: side})
			qmu.Lock()
			if held {
				if _, seen := atDone[side]; !seen {
					atDone[side] = queued[side]
					close(kexdone[side])
				}
			}
			qmu.Unlock()
			return
		case "queued":
			qmu.Lock()
			queued[side] += len(p)
			qmu.Unlock()
		}
		t, w, i := classify(p)
		rec.add(event{Ev: ev, X: side, T: t, W: w, I: i})
	}
	// host key callback: first exchange passes, the second is held until release is closed
	var calls atomic.Int32
	entered, release := make(chan struct{}), make(chan struct{})
	cconf := &ssh.ClientConfig{HostKeyCallback: func(string, net.Addr, ssh.PublicKey) error {
		if calls.Add(1) == 2 {
			close(entered)
			<-release
		}
		return nil
	}}
	cconf.KeyExchanges = []string{"curve25519-sha256"}
	sconf := &ssh.ServerConfig{}
	sconf.KeyExchanges = []string{"curve25519-sha256"}
	sconf.AddHostKey(hostKey)
	v := []byte("SSH-2.0-verif")
	hc := ssh.VerifNewClientHandshake(ca, cconf, v, v, "addr", ca.RemoteAddr(), hook)
	hs := ssh.VerifNewServerHandshake(cb, sconf, v, v, hook)
	sides := map[string]*ssh.VerifHandshake{"c": hc, "s": hs}
	var releaseOnce sync.Once
	cleanup := func() {
		releaseOnce.Do(func() { close(release) })
		rec.mu.Lock()
		rec.off = true
		res.Trace = rec.evs
		rec.mu.Unlock()
		pk, bl, _ := ca.w.stats()
		pk2, bl2, _ := cb.w.stats()
		res.PipePeak = map[string]int{"c": pk, "s": pk2}
		res.PipeBlocked = map[string]int{"c": bl, "s": bl2}
		qmu.Lock()
		res.QueuedAtDone = map[string]int{}
		for k, n := range atDone {
			res.QueuedAtDone[k] = n
		}
		qmu.Unlock()
		ca.Close() // unblocks every conn.Write / conn.Read
		cb.Close()
		go hc.Close()
		go hs.Close()
	}
	defer cleanup()
	stalled := func(where string) {
		buf := make([]byte, 4<<20)
		buf = buf[:runtime.Stack(buf, true)]
		what, dead := classifyPipeStall(string(buf))
		res.Stall = where + ": " + what
		res.StallIsDead = dead
		res.InfraStall = !dead
	}
	var probMu sync.Mutex
	problem := func(s string) { probMu.Lock(); res.Problems = append(res.Problems, s); probMu.Unlock() }

	// initial key exchange
	sessDone := make(chan error, 2)
	for x, h := range sides {
		go func(x string, h *ssh.VerifHandshake) {
			if err := h.WaitSession(); err != nil {
				sessDone <- fmt.Errorf("%s waitSession: %v", x, err)
				return
			}
			rec.add(event{Ev: "deliver", X: x, T: "NEWKEYS"})
			sessDone <- nil
		}(x, h)
	}
	for k := 0; k < 2; k++ {
		select {
		case err := <-sessDone:
			if err != nil {
				res.Stall, res.InfraStall = err.Error(), true
				return
			}
		case <-time.After(pipeWatchdog):
			res.Stall, res.InfraStall = "setup: initial key exchange did not finish", true
			return
		}
	}

	// both applications read all the time
	want := sc.NQueued + 1 // queued packets plus the probe written after the exchange
	var wg sync.WaitGroup
	got := map[string]*atomic.Int32{"c": {}, "s": {}}
	for x, h := range sides {
		wg.Add(1)
		go func(x string, h *ssh.VerifHandshake) {
			defer wg.Done()
			from := byte('c')
			if x == "c" {
				from = 's'
			}
			last, count := 0, 0
			for count < want {
				p, err := h.ReadPacket()
				if err != nil {
					if !rec.isOff() {
						problem(fmt.Sprintf("%s ReadPacket error before all packets were delivered (%d/%d): %v", x, last, want, err))
					}
					return
				}
				t, w, i := classify(p)
				rec.add(event{Ev: "deliver", X: x, T: t, W: w, I: i})
				if t != "APP" {
					continue
				}
				if !checkPayload(p, from) {
					problem(fmt.Sprintf("payload of packet #%d delivered at %s is corrupted", i, x))
				}
				if w != 1 || i != last+1 {
					problem(fmt.Sprintf("packet delivered at %s out of order or duplicated/lost: got writer %d #%d after #%d", x, w, i, last))
				}
				last = i
				count++
				got[x].Store(int32(count))
			}
		}(x, h)
	}

	// start the re-exchange and wait until it is held open in the client's host key callback:
	// the client has sent KEXINIT and its ECDH init and read the server's KEXINIT and reply; the
	// server has sent KEXINIT, reply and NEWKEYS and waits for the client's NEWKEYS
	qmu.Lock()
	held = true
	qmu.Unlock()
	rec.add(event{Ev: "rekey", X: sc.Initiator})
	sides[sc.Initiator].RequestKeyExchange()
	select {
	case <-entered:
	case <-time.After(pipeWatchdog):
		res.Stall, res.InfraStall = "setup: the second key exchange did not reach the host key callback", true
		return
	}

	// each side's application writes NQueued packets; they are queued (NQueued < maxPendingPackets)
	write := func(x string, i, size int) error {
		p := make([]byte, size)
		fill(p, x[0], 1, i)
		rec.add(event{Ev: "wstart", X: x, W: 1, I: i})
		err := sides[x].WritePacket(p)
		rec.add(event{Ev: "wend", X: x, W: 1, I: i})
		for k := range p { // the caller may reuse its buffer
			p[k] = 0xEE
		}
		return err
	}
	qdone := make(chan struct{})
	var wgQ sync.WaitGroup
	for x := range sides {
		wgQ.Add(1)
		go func(x string) {
			defer wgQ.Done()
			for i := 1; i <= sc.NQueued; i++ {
				if err := write(x, i, sc.PktSize); err != nil {
					problem(fmt.Sprintf("%s WritePacket #%d during the key exchange: %v", x, i, err))
					return
				}
			}
		}(x)
	}
	go func() { wgQ.Wait(); close(qdone) }()
	select {
	case <-qdone:
	case <-time.After(pipeWatchdog):
		stalled("writes during the held key exchange did not return")
		return
	}
	releaseOnce.Do(func() { close(release) })

	// one more writePacket per side, issued once that side's exchange has completed
	for x := range sides {
		wg.Add(1)
		go func(x string) {
			defer wg.Done()
			<-kexdone[x]
			if err := write(x, sc.NQueued+1, 16); err != nil && !rec.isOff() {
				problem(fmt.Sprintf("%s WritePacket issued after the key exchange: %v", x, err))
			}
		}(x)
	}
	done := make(chan struct{})
	go func() { wg.Wait(); close(done) }()
	select {
	case <-done:
	case <-time.After(pipeWatchdog):
		stalled(fmt.Sprintf("no quiescence %v after the key exchange was allowed to finish (delivered at c: %d/%d, at s: %d/%d)",
			pipeWatchdog, got["c"].Load(), want, got["s"].Load(), want))
		// unblock the probe goroutines that still wait for kexdone
		qmu.Lock()
		for x, ch := range kexdone {
			if _, seen := atDone[x]; !seen {
				atDone[x] = -1
				close(ch)
			}
		}
		qmu.Unlock()
	}
	return
}

func (r *recorder) isOff() bool { r.mu.Lock(); defer r.mu.Unlock(); return r.off }

// classifyPipeStall: the dead-lock this scenario looks for is visible in the goroutine dump as
// BOTH kexLoops inside the flush of pendingPackets (kexLoop -> pushPacket -> ... -> the bounded
// conn's write parked in sync.Cond.Wait), which they do holding t.mu, while BOTH readLoops are
// parked in readOnePacket on a channel receive (<-kex.done), i.e. nobody reads either direction.
// Anything else is not classified as the property's violation.
func classifyPipeStall(dump string) (string, bool) {
	flushBlocked, readersParked, readersReading, muWaiters := 0, 0, 0, 0
	for _, g := range strings.Split(dump, "\n\n") {
		head := g
		if k := strings.IndexByte(g, '\n'); k >= 0 {
			head = g[:k]
		}
		switch {
		case strings.Contains(g, "(*handshakeTransport).kexLoop"):
			if strings.Contains(g, "(*handshakeTransport).pushPacket") && strings.Contains(g, "(*boundedHalf).write") &&
				strings.Contains(g, "sync.(*Cond).Wait") && !strings.Contains(g, "enterKeyExchange") && !strings.Contains(g, "sendKexInit") {
				flushBlocked++
			}
		case strings.Contains(g, "(*handshakeTransport).readOnePacket"):
			if strings.Contains(head, "chan receive") {
				readersParked++
			} else if strings.Contains(g, "(*boundedHalf).read") {
				readersReading++
			}
		case strings.Contains(g, "(*handshakeTransport).writePacket") && (strings.Contains(head, "sync.Mutex.Lock") || strings.Contains(head, "semacquire")):
			muWaiters++
		}
	}
	desc := fmt.Sprintf("kexLoops flushing pendingPackets blocked in conn.Write (holding t.mu): %d, readLoops parked waiting for request.done: %d, "+
		"readLoops reading the connection: %d, writePacket callers waiting for t.mu: %d", flushBlocked, readersParked, readersReading, muWaiters)
	if flushBlocked == 2 && readersParked == 2 {
		return "both sides flush their queue into a full pipe while neither side reads the connection: " + desc, true
	}
	return "stall not classifiable as the cross-peer flush dead-lock (" + desc + ")", false
}

func TestBothQueueBeyondPipe(t *testing.T) {
	out := vutil.NewOut()
	defer func() {
		if err := out.Write(); err != nil {
			t.Fatal(err)
		}
	}()
	n := 3
	if v := os.Getenv("VERIF_N"); v != "" {
		fmt.Sscan(v, &n)
	}
	rng := vutil.Rand(3131)
	tf, err := os.Create(vutil.Env("VERIF_TRACES", os.DevNull))
	if err != nil {
		t.Fatal(err)
	}
	defer tf.Close()
	enc := json.NewEncoder(tf)
	minQ := map[string]int{}
	blocked := map[string]int{}
	completed, infra := 0, 0
	limit := 32 << 10
	for k := 0; k < n; k++ {
		sc := pipeScenario{Name: "BothQueueBeyondPipe", PipeLimit: limit, NQueued: 48, PktSize: 8 << 10, Initiator: "c"}
		if k > 0 { // seeded variations around the base case; always fewer than maxPendingPackets packets, always more bytes than the pipe
			sc.NQueued = 40 + rng.Intn(ssh.VerifMaxPendingPackets-40)
			sc.PktSize = (4 + rng.Intn(9)) << 10
			sc.Initiator = []string{"c", "s"}[rng.Intn(2)]
		}
		res := runPipe(sc)
		out.Case(fmt.Sprintf("%+v", sc))
		for _, p := range res.Problems {
			out.Violation("rekey-delivery", p, map[string]any{"scenario": sc})
			t.Errorf("problem: %s (scenario %+v)", p, sc)
		}
		if res.InfraStall {
			infra++
			t.Logf("infra stall: %s (scenario %+v)", res.Stall, sc)
			continue
		}
		for _, x := range []string{"c", "s"} {
			q, ok := res.QueuedAtDone[x]
			if !ok || q < 0 {
				q = 0
			}
			if m, seen := minQ[x]; !seen || q < m {
				minQ[x] = q
			}
			blocked[x] += res.PipeBlocked[x]
		}
		if res.Stall != "" { // classified dead-lock
			out.Violation("rekey-deadlock:both-queue-beyond-pipe",
				"after a key exchange during which both sides queued more bytes than the connection buffers, queued packets are never delivered and "+
					"writePacket blocks for ever although both applications keep reading: "+res.Stall,
				map[string]any{"scenario": sc, "queued_bytes_at_kexdone": res.QueuedAtDone, "pipe_limit": sc.PipeLimit})
			t.Errorf("dead-lock: %s", res.Stall)
		} else {
			completed++
		}
		enc.Encode(map[string]any{"scenario": sc, "events": res.Trace})
		if k == 0 {
			out.Sample(map[string]any{"scenario": sc, "events": len(res.Trace), "queued_bytes_at_kexdone": res.QueuedAtDone,
				"conn_writes_that_found_the_pipe_full": res.PipeBlocked, "pipe_peak_bytes": res.PipePeak, "stall": res.Stall})
		}
		if res.Stall != "" {
			break // every further run would cost another watchdog period
		}
	}
	out.Extra["pipe_limit"] = limit
	out.Extra["pipe_min_queued_c"] = minQ["c"]
	out.Extra["pipe_min_queued_s"] = minQ["s"]
	out.Extra["pipe_blocked_writes_c"] = blocked["c"]
	out.Extra["pipe_blocked_writes_s"] = blocked["s"]
	out.Extra["pipe_completed"] = completed
	out.Extra["pipe_infra_stalls"] = infra
	if infra > 0 {
		t.Logf("%d unclassifiable stall(s)", infra)
	}
}
