// Binding E+R for C01 (ChaCha20-Poly1305 / XChaCha20-Poly1305 equal RFC 8439).
//
// Input (VERIF_CASES): Seal outputs evaluated by TLC from the executable TLA+ definition
// spec/AEAD.tla (over PrimChaCha + PrimPoly) for the boundary grid of spec/AEAD_Gen.tla.
// The real chacha20poly1305.New/NewX AEADs are compared byte-for-byte (Seal with several dst
// prefix/capacity arrangements, Open of the expected output).  Then the amplifier: the Go
// transcription c03ref.Seal, first checked equal to every TLC-evaluated vector, judges the length
// sweep.  Built twice: tags "verif" (amd64 AVX2 assembly) and "verif,purego" (sealGeneric /
// openGeneric); VERIF_C01_PATH labels the run.
package c01

import (
	"bytes"
	"crypto/cipher"
	"encoding/hex"
	"encoding/json"
	"fmt"
	"testing"

	"golang.org/x/crypto/chacha20poly1305"
	"verif/harness/c03ref"
	"verif/harness/vutil"
)

type sealCase struct {
	V     string `json:"v"`
	Kseed int    `json:"kseed"`
	Nseed int    `json:"nseed"`
	Pseed int    `json:"pseed"`
	Aseed int    `json:"aseed"`
	PtLen int    `json:"ptLen"`
	AdLen int    `json:"adLen"`
	Out   []int  `json:"out"`
}

func toBytes(v []int) []byte {
	b := make([]byte, len(v))
	for i, x := range v {
		b[i] = byte(x)
	}
	return b
}

func hx(b []byte) string {
	if len(b) > 64 {
		return hex.EncodeToString(b[:32]) + ".." + hex.EncodeToString(b[len(b)-32:])
	}
	return hex.EncodeToString(b)
}

func firstDiff(a, b []byte) int {
	for i := 0; i < len(a) && i < len(b); i++ {
		if a[i] != b[i] {
			return i
		}
	}
	if len(a) != len(b) {
		if len(a) < len(b) {
			return len(a)
		}
		return len(b)
	}
	return -1
}

func newAEAD(key, nonce []byte) cipher.AEAD {
	var a cipher.AEAD
	var err error
	if len(nonce) == 24 {
		a, err = chacha20poly1305.NewX(key)
	} else {
		a, err = chacha20poly1305.New(key)
	}
	if err != nil {
		panic(err)
	}
	return a
}

// dst arrangements: prefix length and spare capacity relative to what the result needs
type dstVar struct {
	name   string
	prefix int
	spare  func(need int) int // capacity beyond the prefix
}

var dstVars = []dstVar{
	{"nil", 0, func(int) int { return -1 }},
	{"prefix5-nospare", 5, func(int) int { return 0 }},
	{"prefix5-exact", 5, func(n int) int { return n }},
	{"prefix5-plus1", 5, func(n int) int { return n + 1 }},
	{"prefix0-exact", 0, func(n int) int { return n }},
	{"prefix3-short", 3, func(n int) int { return n / 2 }},
}

func mkDst(v dstVar, need int) []byte {
	sp := v.spare(need)
	if sp < 0 {
		return nil
	}
	buf := make([]byte, v.prefix, v.prefix+sp)
	for i := range buf {
		buf[i] = byte(0xC0 + i)
	}
	full := buf[:cap(buf)]
	for i := v.prefix; i < len(full); i++ {
		full[i] = 0x5A
	}
	return buf
}

type env struct {
	t    *testing.T
	out  *vutil.Out
	path string
}

func (e *env) fail(sig, what string, d map[string]any) {
	d["path"] = e.path
	e.out.Violation(sig, what, d)
	e.t.Errorf("%s: %s %v", sig, what, d)
}

// check one (key, nonce, pt, ad) against the expected ct||tag on the real AEAD; allDst: every dst arrangement
func (e *env) check(label string, key, nonce, pt, ad, want []byte, allDst bool) bool {
	a := newAEAD(key, nonce)
	vars := dstVars[:2]
	if allDst {
		vars = dstVars
	}
	desc := func() map[string]any {
		return map[string]any{"case": label, "key": hx(key), "nonce": hx(nonce), "ptLen": len(pt), "adLen": len(ad)}
	}
	for _, v := range vars {
		dst := mkDst(v, len(pt)+16)
		prefix := append([]byte(nil), dst...)
		got := a.Seal(dst, nonce, pt, ad)
		exp := append(append([]byte(nil), prefix...), want...)
		if !bytes.Equal(got, exp) {
			d := desc()
			d["dst"], d["firstDiff"], d["got"], d["want"] = v.name, firstDiff(got, exp)-len(prefix), hx(got), hx(exp)
			e.fail("c01-seal-mismatch", "Seal output differs from dst || RFC 8439 ciphertext || tag", d)
			return false
		}
		dst2 := mkDst(v, len(pt))
		prefix2 := append([]byte(nil), dst2...)
		back, err := a.Open(dst2, nonce, want, ad)
		exp2 := append(append([]byte(nil), prefix2...), pt...)
		if err != nil || !bytes.Equal(back, exp2) {
			d := desc()
			d["dst"], d["err"], d["firstDiff"], d["got"] = v.name, fmt.Sprint(err), firstDiff(back, exp2)-len(prefix2), hx(back)
			e.fail("c01-open-mismatch", "Open of the RFC 8439 output does not return dst || plaintext", d)
			return false
		}
	}
	return true
}

func TestSeal(t *testing.T) {
	out := vutil.NewOut()
	defer func() {
		if err := out.Write(); err != nil {
			t.Fatal(err)
		}
	}()
	e := &env{t: t, out: out, path: vutil.Env("VERIF_C01_PATH", "default")}
	n := 0
	err := vutil.ReadNDJSON(vutil.Env("VERIF_CASES", ""), func(line []byte) error {
		var c sealCase
		if err := json.Unmarshal(line, &c); err != nil {
			return err
		}
		nl := 12
		if c.V == "x" {
			nl = 24
		}
		key, nonce := c03ref.Pat(c.Kseed, 32), c03ref.Pat(c.Nseed, nl)
		pt, ad := c03ref.Pat(c.Pseed, c.PtLen), c03ref.Pat(c.Aseed, c.AdLen)
		want := toBytes(c.Out)
		if len(want) != c.PtLen+16 {
			return fmt.Errorf("bad TLC vector length")
		}
		if !bytes.Equal(c03ref.Seal(key, nonce, pt, ad), want) {
			return fmt.Errorf("refimpl Seal differs from the TLC-evaluated definition (v=%s pt=%d ad=%d)", c.V, c.PtLen, c.AdLen)
		}
		n++
		label := fmt.Sprintf("tlc %s seeds %d/%d/%d/%d pt=%d ad=%d", c.V, c.Kseed, c.Nseed, c.Pseed, c.Aseed, c.PtLen, c.AdLen)
		out.Case(e.path + "|" + label)
		e.check(label, key, nonce, pt, ad, want, true)
		if n%37 == 1 {
			out.Sample(map[string]any{"v": c.V, "ptLen": c.PtLen, "adLen": c.AdLen, "tag": hx(want[c.PtLen:])})
		}
		return nil
	})
	if err != nil {
		t.Fatal(err)
	}
	if n == 0 {
		t.Fatal("no TLC-evaluated vectors")
	}
	out.Extra["tlc_evaluated_vectors_"+e.path] = n

	// ---- amplifier (oracle: the transcription just validated against the TLC vectors)
	rng := vutil.Rand(101)
	sweep := func(label string, ptLen, adLen int, x bool, allDst bool) bool {
		nl := 12
		if x {
			nl = 24
		}
		key, nonce := make([]byte, 32), make([]byte, nl)
		rng.Read(key)
		rng.Read(nonce)
		pt, ad := make([]byte, ptLen), make([]byte, adLen)
		rng.Read(pt)
		rng.Read(ad)
		out.Case(fmt.Sprintf("%s|sweep|%v|%d|%d", e.path, x, ptLen, adLen))
		return e.check(fmt.Sprintf("%s x=%v (seed %d)", label, x, vutil.Seed()), key, nonce, pt, ad, c03ref.Seal(key, nonce, pt, ad), allDst)
	}
	ptFull := []int{0, 1, 15, 16, 17, 31, 32, 33, 63, 64, 65, 127, 128, 129, 159, 160, 161, 191, 192, 193, 255, 256, 257, 319, 320, 321,
		383, 384, 385, 479, 480, 481, 511, 512, 513, 1023, 1024, 1025}
	adFull := []int{0, 1, 12, 13, 14, 15, 16, 17, 32, 33}
	bad := 0
	okOrStop := func(ok bool) bool {
		if !ok {
			bad++
		}
		return bad < 20
	}
	// the whole boundary grid, every dst arrangement
	for _, p := range ptFull {
		for _, a := range adFull {
			for _, x := range []bool{false, true} {
				if !okOrStop(sweep("grid", p, a, x, true)) {
					return
				}
			}
		}
	}
	maxPt, adSet := 330, []int{0, 1, 2, 3, 4, 5, 6, 7, 8, 9, 10, 11, 12, 13, 14, 15, 16, 17, 31, 32, 33, 47, 48, 49, 64, 80}
	if vutil.Thorough() {
		maxPt = 1100
		adSet = adSet[:0]
		for a := 0; a <= 80; a++ {
			adSet = append(adSet, a)
		}
	}
	for p := 0; p <= maxPt; p++ {
		for _, a := range adSet {
			if !okOrStop(sweep("sweep", p, a, (p+a)%2 == 1, false)) {
				return
			}
		}
	}
	// the AD length is a dimension of its own: every AD length 0..1100 (this covers every residue class mod 16 and
	// mod 256 several times, e.g. 13+256k) for a few plaintext lengths, plus large ones
	adPts := []int{1, 64}
	if vutil.Thorough() {
		adPts = []int{0, 1, 17, 64, 129, 300}
	}
	for _, p := range adPts {
		for a := 0; a <= 1100; a++ {
			if !okOrStop(sweep("adsweep", p, a, (p+a)%2 == 0, false)) {
				return
			}
		}
	}
	for _, a := range []int{268, 269, 270, 524, 525, 526, 781, 1037, 4095, 4096, 4097, 4109, 65535, 65536, 65537, 65536 + 13} {
		for _, p := range []int{0, 17, 129, 257} {
			for _, x := range []bool{false, true} {
				if !okOrStop(sweep("adlarge", p, a, x, p == 17)) {
					return
				}
			}
		}
	}
	// long messages and long AD
	nlong := 150
	if vutil.Thorough() {
		nlong = 3000
	}
	for i := 0; i < nlong; i++ {
		p := rng.Intn(70001)
		if i%3 == 0 {
			p = rng.Intn(2500)
		}
		a := rng.Intn(601)
		if !okOrStop(sweep("long", p, a, i%2 == 0, i%10 == 0)) {
			return
		}
	}
}
