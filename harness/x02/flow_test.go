package x02

// TestFlow (binding R of AcmeOrderFlow): every behaviour TLC enumerated for the autocert issuance
// flow is played against the REAL autocert.Manager through its public API (GetCertificate, and
// HTTPHandler when http-01 is enabled) inside a testing/synctest bubble.  Compared with the model:
// the main-flow request sequence at the CA (orders created, authorizations fetched, challenge types
// accepted, polls, finalize), the outcome (certificate or error), the statuses of all
// authorizations once the deferred goroutines are done (F4), and directly: the challenge response
// is served when the challenge is accepted (F2) and is gone afterwards (F3).

import (
	"context"
	"crypto/ecdsa"
	"crypto/elliptic"
	"crypto/rand"
	"crypto/tls"
	"encoding/asn1"
	"encoding/json"
	"fmt"
	"net/http"
	"net/http/httptest"
	"strings"
	"testing"
	"testing/synctest"

	"golang.org/x/crypto/acme"
	"golang.org/x/crypto/acme/autocert"
	"verif/harness/vutil"
)

type fev struct {
	E struct {
		T string `json:"t"`
		A string `json:"a"`
		B string `json:"b"`
		N int    `json:"n"`
		M int    `json:"m"`
	} `json:"e"`
	Az [][]string `json:"az"`
	Of [][]string `json:"of"`
}
type fcase struct {
	HTTP   bool       `json:"http"`
	NAuthz int        `json:"nauthz"`
	H      []fev      `json:"h"`
	Result string     `json:"result"`
	Orders int        `json:"orders"`
	Az     [][]string `json:"az"`
}

var idPeAcmeIdentifier = asn1.ObjectIdentifier{1, 3, 6, 1, 5, 5, 7, 1, 31}

func TestFlow(t *testing.T) {
	out := vutil.NewOut()
	defer func() {
		if err := out.Write(); err != nil {
			t.Fatal(err)
		}
	}()
	keyOnce.Do(func() { acctKey, _ = ecdsa.GenerateKey(elliptic.P256(), rand.Reader) })
	err := vutil.ReadNDJSON(vutil.Env("VERIF_CASES", ""), func(line []byte) error {
		var c fcase
		if err := json.Unmarshal(line, &c); err != nil {
			return err
		}
		flowOne(t, out, c, line)
		return nil
	})
	if err != nil {
		t.Fatal(err)
	}
}

func flowOne(t *testing.T, out *vutil.Out, c fcase, line []byte) {
	// script and predictions from the model history
	var script []FDecision
	var want []FReq
	verifyLen := -1
	for _, e := range c.H {
		ev := e.E
		switch ev.T {
		case "newOrder":
			d := FDecision{Kind: "newOrder", How: ev.A}
			if ev.A != "err" && len(e.Az) >= ev.N {
				d.Sts = e.Az[ev.N-1]
				d.Ofs = e.Of
			}
			script = append(script, d)
			want = append(want, FReq{Kind: "newOrder", K: ev.N})
		case "getAuthz":
			how := "ok"
			if ev.A == "err" {
				how = "err"
			}
			script = append(script, FDecision{Kind: "getAuthz", How: how})
			want = append(want, FReq{Kind: "authz", K: ev.N, J: ev.M})
		case "accept":
			script = append(script, FDecision{Kind: "accept", How: ev.A})
			want = append(want, FReq{Kind: "accept", K: ev.N, J: ev.M, Typ: ev.B})
		case "waitAuthz":
			want = append(want, FReq{Kind: "authz", K: ev.N, J: ev.M})
		case "waitOrder":
			script = append(script, FDecision{Kind: "waitOrder", How: ev.A})
			want = append(want, FReq{Kind: "order", K: ev.N})
		case "background":
			verifyLen = len(script)
		case "finalize":
			script = append(script, FDecision{Kind: "finalize", How: ev.A})
			want = append(want, FReq{Kind: "finalize", K: ev.N})
		}
	}
	if verifyLen < 0 {
		t.Fatalf("history without background step")
	}
	refused := map[[2]int]bool{}
	for k, l := range c.Az {
		for j, st := range l {
			if st == "pending" {
				refused[[2]int{k + 1, j + 1}] = true
			}
		}
	}
	key := fmt.Sprintf("http=%v|n=%d|%v|%v", c.HTTP, c.NAuthz, script, refused)
	out.Case(key)

	var ca *FlowCA
	var gotErr error
	var gotCert *tls.Certificate
	var leftovers []string
	var finalAz [][]string
	synctest.Test(t, func(t *testing.T) {
		ca = NewFlowCA(script, verifyLen, refused)
		cl := &acme.Client{Key: acctKey, HTTPClient: &http.Client{Transport: ca}, DirectoryURL: Base + "/dir"}
		m := &autocert.Manager{Prompt: autocert.AcceptTOS, Client: cl}
		var handler http.Handler
		if c.HTTP {
			handler = m.HTTPHandler(nil)
		}
		probe := func(typ, tok string) (bool, string) {
			switch typ {
			case "tls-alpn-01":
				crt, err := m.GetCertificate(&tls.ClientHelloInfo{ServerName: FlowDomain, SupportedProtos: []string{acme.ALPNProto}})
				if err != nil {
					return false, err.Error()
				}
				if crt == nil || crt.Leaf == nil && len(crt.Certificate) == 0 {
					return false, "empty token certificate"
				}
				return true, ""
			case "http-01":
				if handler == nil {
					return false, "HTTPHandler was never installed"
				}
				rec := httptest.NewRecorder()
				handler.ServeHTTP(rec, httptest.NewRequest("GET", "http://"+FlowDomain+"/.well-known/acme-challenge/"+tok, nil))
				wantBody, _ := cl.HTTP01ChallengeResponse(tok)
				if rec.Code != 200 {
					return false, fmt.Sprintf("HTTP %d", rec.Code)
				}
				if rec.Body.String() != wantBody {
					return false, "wrong key authorization"
				}
				return true, ""
			}
			return false, "the Manager cannot answer " + typ
		}
		ca.Probe = probe
		hello := &tls.ClientHelloInfo{ServerName: FlowDomain, CipherSuites: []uint16{tls.TLS_ECDHE_ECDSA_WITH_AES_128_GCM_SHA256},
			SupportedCurves: []tls.CurveID{tls.CurveP256}, SignatureSchemes: []tls.SignatureScheme{tls.ECDSAWithP256AndSHA256}}
		gotCert, gotErr = m.GetCertificate(hello)
		synctest.Wait() // the deferred goroutines (cleanups, deactivations) have finished
		// F3: nothing is served any more
		for _, typ := range ca.AcceptedTy {
			if ok, _ := probe(typ, "tok-left"); ok && typ == "tls-alpn-01" {
				leftovers = append(leftovers, typ)
			}
		}
		if handler != nil {
			ca.mu.Lock()
			reqs := append([]FReq(nil), ca.Main...)
			ca.mu.Unlock()
			for _, r := range reqs {
				if r.Kind == "accept" && r.Typ == "http-01" {
					if ok, _ := probe("http-01", token(r.K, r.J, "http-01")); ok {
						leftovers = append(leftovers, "http-01 "+token(r.K, r.J, "http-01"))
					}
				}
			}
		}
		finalAz = ca.AuthzStatuses()
		_ = context.Background
	})
	detail := map[string]any{"case": json.RawMessage(append([]byte(nil), line...)), "main": ca.Main, "background": ca.Bg, "predicted": want,
		"final_authz": finalAz, "err": fmt.Sprint(gotErr)}
	fail := func(sig, what string) {
		out.Violation(sig, what, detail)
		t.Errorf("%s: %s [%s]", sig, what, key)
	}
	for _, p := range ca.Problems {
		fail("x02f-"+strings.SplitN(p, ":", 2)[0], p)
	}
	// outcome (F5)
	got := "error"
	if gotErr == nil && gotCert != nil {
		got = "cert"
	}
	if got != c.Result {
		fail("x02f-result", fmt.Sprintf("GetCertificate ended with %s (%v); the specification predicts %s", got, gotErr, c.Result))
	}
	for _, k := range ca.Finalized {
		if !ca.ReadySeen[k] {
			fail("x02f-finalize-not-ready", fmt.Sprintf("F5: finalize requested for order %d which the CA never reported ready", k))
		}
	}
	// main-flow requests up to and including finalize (what follows the finalize is CreateOrderCert's business: AcmeOrder)
	var main []FReq
	for _, r := range ca.Main {
		main = append(main, r)
		if r.Kind == "finalize" {
			break
		}
	}
	same := len(main) == len(want)
	for i := 0; same && i < len(want); i++ {
		same = main[i] == want[i]
	}
	if !same {
		fail("x02f-requests", fmt.Sprintf("the issuance flow sent %v; the specification predicts %v", main, want))
	}
	// F3
	for _, l := range leftovers {
		fail("x02f-response-left-behind", "F3: challenge response still served after the issuance ended: "+l)
	}
	// F4
	if fmt.Sprint(finalAz) != fmt.Sprint(c.Az) {
		sig := "x02f-final-authz"
		for k, l := range finalAz {
			for j, st := range l {
				if st == "pending" && !refused[[2]int{k + 1, j + 1}] {
					sig = "x02f-pending-authz-left"
				}
			}
		}
		fail(sig, fmt.Sprintf("F4: authorizations ended as %v; the specification predicts %v (pending ones of every order created by the call are deactivated)", finalAz, c.Az))
	}
	if len(out.Samples) < 5 && len(want) > 6 {
		out.Sample(map[string]any{"http01": c.HTTP, "requests": main, "result": got, "final_authz": finalAz})
	}
}
