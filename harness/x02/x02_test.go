// Conformance harness for growth specification X02 (spec/AcmeOrder.tla).
//
// TestReplay (binding R): every behaviour TLC enumerated from AcmeOrder_Gen (initial server state,
//
//	environment steps, reply shapes, client calls) is played by the stateful fake CA against the
//	REAL acme.Client through its public API inside a testing/synctest bubble (virtual time for
//	Retry-After / back-off / cancellation); the requests the server saw, the virtual time slept
//	before each of them and the value/error class of every call are compared with the model.
//
// TestRandom (binding T): seeded random server evolutions (RFC 8555 transitions, optionally
//
//	regressions and malformed replies) under sessions of random public calls; the event logs are
//	validated by AcmeOrder_Trace.
//
// TestRetryAfterForms: Retry-After as delta-seconds and as HTTP date (future, past) on poll replies.
package x02

import (
	"context"
	"crypto/ecdsa"
	"crypto/elliptic"
	"crypto/rand"
	"encoding/json"
	"errors"
	"fmt"
	"net/http"
	"os"
	"strconv"
	"strings"
	"sync"
	"testing"
	"testing/synctest"
	"time"

	"golang.org/x/crypto/acme"
	"verif/harness/vutil"
)

// Result of a public call as the caller sees it, in the model's vocabulary.
type Result struct {
	C   string `json:"c"`  // ok ordererr authzerr acmeerr neterr ctx other
	St  string `json:"st"` // status of the returned resource / of the typed error
	S   int    `json:"s"`  // serial of the reply the result derives from, -1 when it carries none
	N   int    `json:"n"`  // number of DER certificates / alternate URLs
	U   bool   `json:"u"`  // Order.URI non-empty
	Err string `json:"err,omitempty"`
	Bad string `json:"bad,omitempty"` // inconsistency inside the returned value (e.g. chain out of order)
}

var (
	keyOnce sync.Once
	acctKey *ecdsa.PrivateKey
)

func newClient(s *Server) *acme.Client {
	keyOnce.Do(func() { acctKey, _ = ecdsa.GenerateKey(elliptic.P256(), rand.Reader) })
	return &acme.Client{Key: acctKey, HTTPClient: &http.Client{Transport: s}, DirectoryURL: Base + "/dir",
		RetryBackoff: s.Backoff, KID: acme.KeyID(Base + "/acct/1")}
}

func serialOf(v string) int {
	// "s<digits>" marker
	for i := 0; i+1 < len(v); i++ {
		if v[i] == 's' && v[i+1] >= '0' && v[i+1] <= '9' && (i == 0 || !(v[i-1] >= 'a' && v[i-1] <= 'z')) {
			j := i + 1
			for j < len(v) && v[j] >= '0' && v[j] <= '9' {
				j++
			}
			n, _ := strconv.Atoi(v[i+1 : j])
			return n
		}
	}
	return -1
}

func classifyErr(err error) Result {
	r := Result{S: -1, Err: err.Error()}
	var oe *acme.OrderError
	var ze *acme.AuthorizationError
	var ae *acme.Error
	var ne *NetErr
	switch {
	case errors.As(err, &oe):
		r.C, r.St = "ordererr", oe.Status
		if i := strings.Index(oe.OrderURL, "?s="); i >= 0 {
			r.S, _ = strconv.Atoi(oe.OrderURL[i+3:])
		}
		if oe.Problem != nil && strings.HasPrefix(oe.Problem.Detail, "serial=") {
			n, _ := strconv.Atoi(strings.TrimPrefix(oe.Problem.Detail, "serial="))
			if r.S >= 0 && r.S != n {
				r.Bad = fmt.Sprintf("OrderError.OrderURL is from reply #%d, OrderError.Problem from reply #%d", r.S, n)
			}
			r.S = n
		}
		if oe.Status == "invalid" && oe.Problem == nil {
			r.Bad = "OrderError for an invalid order carries no Problem although the order has an error object"
		}
	case errors.As(err, &ze):
		r.C, r.St = "authzerr", "invalid"
		r.S = serialOf(ze.Identifier)
		if ze.URI != Base+"/authz/1" {
			r.Bad = "AuthorizationError.URI = " + ze.URI
		}
	case errors.Is(err, context.Canceled):
		r.C = "ctx"
	case errors.As(err, &ae):
		r.C = "acmeerr"
		if ae.Header != nil {
			if n, e := strconv.Atoi(ae.Header.Get("X-Verif-Serial")); e == nil {
				r.S = n
			}
		}
	case errors.As(err, &ne):
		r.C, r.S = "neterr", ne.Serial
	default:
		r.C = "other"
	}
	return r
}

func orderResult(o *acme.Order, err error) Result {
	if err != nil {
		return classifyErr(err)
	}
	if o == nil {
		return Result{C: "ok", S: -1, Bad: "nil order with nil error"}
	}
	r := Result{C: "ok", St: o.Status, S: -1, U: o.URI != ""}
	if len(o.Identifiers) > 0 {
		r.S = serialOf(o.Identifiers[0].Value)
	}
	if o.URI != "" && !strings.HasPrefix(o.URI, Base+"/order/1") {
		r.Bad = "Order.URI = " + o.URI
	}
	if o.FinalizeURL != Base+"/finalize/1" {
		r.Bad = "Order.FinalizeURL = " + o.FinalizeURL
	}
	if o.Status == "invalid" && o.Error == nil {
		r.Bad = "invalid order returned without its Error"
	}
	return r
}

func chainResult(der [][]byte, err error) Result {
	if err != nil {
		return classifyErr(err)
	}
	r := Result{C: "ok", S: -1, N: len(der)}
	for i, d := range der {
		s := string(d)
		if !strings.HasPrefix(s, "verif-s") || !strings.HasSuffix(s, "-"+strconv.Itoa(i)) {
			r.Bad = fmt.Sprintf("chain element %d is %q", i, s)
		}
		n := serialOf(s[len("verif-"):])
		if i == 0 {
			r.S = n
		} else if n != r.S {
			r.Bad = "chain mixes certificates from different replies"
		}
	}
	return r
}

type opFn func(ctx context.Context, c *acme.Client, bundle bool) Result

var ops = map[string]opFn{
	"AuthorizeOrder": func(ctx context.Context, c *acme.Client, _ bool) Result {
		return orderResult(c.AuthorizeOrder(ctx, acme.DomainIDs("x02.test")))
	},
	"GetOrder": func(ctx context.Context, c *acme.Client, _ bool) Result {
		return orderResult(c.GetOrder(ctx, Base+"/order/1"))
	},
	"WaitOrder": func(ctx context.Context, c *acme.Client, _ bool) Result {
		return orderResult(c.WaitOrder(ctx, Base+"/order/1"))
	},
	"CreateOrderCert": func(ctx context.Context, c *acme.Client, bundle bool) Result {
		der, curl, err := c.CreateOrderCert(ctx, Base+"/finalize/1", []byte("x02-csr"), bundle)
		r := chainResult(der, err)
		if err == nil && curl != Base+"/cert/1" {
			r.Bad = "certURL = " + curl
		}
		return r
	},
	"FetchCert": func(ctx context.Context, c *acme.Client, bundle bool) Result {
		return chainResult(c.FetchCert(ctx, Base+"/cert/1", bundle))
	},
	"ListCertAlternates": func(ctx context.Context, c *acme.Client, _ bool) Result {
		alts, err := c.ListCertAlternates(ctx, Base+"/cert/1")
		if err != nil {
			return classifyErr(err)
		}
		r := Result{C: "ok", S: -1, N: len(alts)}
		for i, a := range alts {
			if !strings.HasPrefix(a, Base+"/cert/alt-s") || !strings.HasSuffix(a, "-"+strconv.Itoa(i)) {
				r.Bad = "alternate " + a
			}
			r.S = serialOf(strings.TrimPrefix(a, Base+"/cert/alt-"))
		}
		return r
	},
	"GetAuthorization": func(ctx context.Context, c *acme.Client, _ bool) Result {
		a, err := c.GetAuthorization(ctx, Base+"/authz/1")
		return authzResult(a, err)
	},
	"WaitAuthorization": func(ctx context.Context, c *acme.Client, _ bool) Result {
		a, err := c.WaitAuthorization(ctx, Base+"/authz/1")
		return authzResult(a, err)
	},
	"GetChallenge": func(ctx context.Context, c *acme.Client, _ bool) Result {
		return chalResult(c.GetChallenge(ctx, Base+"/chal/1"))
	},
	"Accept": func(ctx context.Context, c *acme.Client, _ bool) Result {
		return chalResult(c.Accept(ctx, &acme.Challenge{URI: Base + "/chal/1", Type: "http-01", Token: "tok"}))
	},
	"RevokeAuthorization": func(ctx context.Context, c *acme.Client, _ bool) Result {
		if err := c.RevokeAuthorization(ctx, Base+"/authz/1"); err != nil {
			return classifyErr(err)
		}
		return Result{C: "ok", S: -1}
	},
	"DeactivateReg": func(ctx context.Context, c *acme.Client, _ bool) Result {
		if err := c.DeactivateReg(ctx); err != nil {
			return classifyErr(err)
		}
		return Result{C: "ok", S: -1}
	},
}

func authzResult(a *acme.Authorization, err error) Result {
	if err != nil {
		return classifyErr(err)
	}
	if a == nil {
		return Result{C: "ok", S: -1, Bad: "nil authorization with nil error"}
	}
	r := Result{C: "ok", St: a.Status, S: serialOf(a.Identifier.Value)}
	if a.URI != Base+"/authz/1" {
		r.Bad = "Authorization.URI = " + a.URI
	}
	if len(a.Challenges) != 1 || a.Challenges[0].URI != Base+"/chal/1" {
		r.Bad = "challenges of the authorization not returned"
	}
	return r
}

func chalResult(ch *acme.Challenge, err error) Result {
	if err != nil {
		return classifyErr(err)
	}
	if ch == nil {
		return Result{C: "ok", S: -1, Bad: "nil challenge with nil error"}
	}
	return Result{C: "ok", St: ch.Status, S: serialOf(strings.TrimPrefix(ch.Token, "tok"))}
}

// ---------------------------------------------------------------------------------------------
// model histories

type mev struct {
	T string `json:"t"`
	K string `json:"k"`
	A string `json:"a"`
	B string `json:"b"`
	N int    `json:"n"`
	M int    `json:"m"`
}
type mres struct {
	C  string `json:"c"`
	St string `json:"st"`
	S  int    `json:"s"`
	N  int    `json:"n"`
	U  bool   `json:"u"`
}
type tcase struct {
	H   []mev `json:"h"`
	Res *mres `json:"res"` // result of the last call (its "ret" event is not part of the history)
}

type mreq struct {
	K   string
	Gap int
}
type mcall struct {
	Op     string
	Bundle bool
	Steps  []Step
	Reqs   []mreq
	Want   Result
}

func wireKind(k string) string {
	if k == "alts" {
		return "cert"
	}
	return k
}

// parse splits a model history into the initial state and the calls with their scripts/predictions.
func parse(c tcase) (init [3]string, calls []*mcall, err error) {
	var cur *mcall
	var env [][3]string
	for _, e := range c.H {
		switch e.T {
		case "init":
			init = [3]string{e.K, e.A, e.B}
		case "call":
			cur = &mcall{Op: e.K, Bundle: e.A == "bundle"}
			calls = append(calls, cur)
		case "env":
			env = append(env, [3]string{e.K, e.A, e.B})
		case "req":
			cur.Reqs = append(cur.Reqs, mreq{K: wireKind(e.K), Gap: e.N})
		case "reply":
			st := Step{Env: env, Shape: e.K}
			env = nil
			isAlts := cur.Op == "ListCertAlternates"
			switch {
			case isAlts:
				st.Na = e.M
			default:
				st.Ra = e.M
			}
			if strings.HasPrefix(e.B, "c") || e.B == "empty" || e.B == "junk" || e.B == "keyfirst" || e.B == "big" {
				st.Cb = e.B
			} else {
				st.Fx = e.B
			}
			cur.Steps = append(cur.Steps, st)
		case "cancel":
			if len(cur.Steps) == 0 {
				return init, nil, fmt.Errorf("cancel before any reply")
			}
			cur.Steps[len(cur.Steps)-1].CancelAfter = true
		case "ret":
			cur.Want = Result{C: e.K, St: e.A, U: e.B == "uri", S: e.N, N: e.M}
		case "timer", "backoff", "bwake":
		default:
			return init, nil, fmt.Errorf("unknown model event %q", e.T)
		}
	}
	if c.Res != nil && cur != nil && cur.Want.C == "" {
		cur.Want = Result{C: c.Res.C, St: c.Res.St, S: c.Res.S, N: c.Res.N, U: c.Res.U}
	}
	return init, calls, nil
}

func errClass(c string) string {
	if c == "neterr" || c == "other" {
		return "err" // untyped failures: the documentation promises only "an error"
	}
	return c
}

type traceWriter struct {
	f *os.File
	n int
}

func newTraceWriter() *traceWriter {
	p := os.Getenv("VERIF_TRACES")
	if p == "" {
		return &traceWriter{}
	}
	f, err := os.Create(p)
	if err != nil {
		panic(err)
	}
	return &traceWriter{f: f}
}
func (w *traceWriter) add(cfg Event, log []Event) {
	if w.f == nil {
		return
	}
	b, _ := json.Marshal(append([]Event{cfg}, log...))
	w.f.Write(append(b, '\n'))
	w.n++
}
func (w *traceWriter) close() {
	if w.f != nil {
		w.f.Close()
	}
}

func envInt(k string, d int) int {
	if v := os.Getenv(k); v != "" {
		if n, err := strconv.Atoi(v); err == nil {
			return n
		}
	}
	return d
}

// judge holds the direct (model-independent) checks of P3..P6 on what the server observed.
func judgeCall(c *Call, res Result, fail func(sig, what string)) {
	if c.FinAcc > 1 {
		fail("x02-finalize-twice:"+c.Op, fmt.Sprintf("P3: the server accepted %d finalize requests within one %s call", c.FinAcc, c.Op))
	}
	if c.EarlyCrt {
		fail("x02-cert-before-valid:"+c.Op, "P6: the certificate URL was requested although no order reply of this call showed status valid")
	}
	for _, r := range c.Refused {
		fail("x02-request-after-cancel:"+c.Op, "P5: request attempted after the context had been cancelled: "+r)
	}
	if !c.Cancel.IsZero() && !c.Returned.Equal(c.Cancel) {
		fail("x02-cancel-not-honoured:"+c.Op, fmt.Sprintf("P5: the call returned %v (virtual time) after its context was cancelled", c.Returned.Sub(c.Cancel)))
	}
	if res.Bad != "" {
		fail("x02-inconsistent-result:"+c.Op, "P7: "+res.Bad)
	}
}

func TestReplay(t *testing.T) {
	out := vutil.NewOut()
	tw := newTraceWriter()
	defer func() {
		tw.close()
		out.Extra["traces_written"] = tw.n
		if err := out.Write(); err != nil {
			t.Fatal(err)
		}
	}()
	budget := envInt("X02_BUDGET", 1)
	err := vutil.ReadNDJSON(vutil.Env("VERIF_CASES", ""), func(line []byte) error {
		var c tcase
		if err := json.Unmarshal(line, &c); err != nil {
			return err
		}
		init, calls, err := parse(c)
		if err != nil {
			return err
		}
		replay(t, out, tw, init, calls, budget, line)
		return nil
	})
	if err != nil {
		t.Fatal(err)
	}
}

func replay(t *testing.T, out *vutil.Out, tw *traceWriter, init [3]string, calls []*mcall, budget int, line []byte) {
	var key strings.Builder
	fmt.Fprintf(&key, "%v|b=%d", init, budget)
	for _, mc := range calls {
		fmt.Fprintf(&key, "|%s/%v", mc.Op, mc.Bundle)
		for _, s := range mc.Steps {
			fmt.Fprintf(&key, ";%v%s.%s%s.%d.%d.%v", s.Env, s.Shape, s.Fx, s.Cb, s.Ra, s.Na, s.CancelAfter)
		}
	}
	out.Case(key.String())
	type obsCall struct {
		Call *Call
		Res  Result
	}
	var got []obsCall
	var log []Event
	var cfg Event
	var probs []string
	synctest.Test(t, func(t *testing.T) {
		s := NewServer(init[0], init[1], init[2], budget)
		cfg = s.CfgEvent()
		cl := newClient(s)
		if _, err := cl.Discover(context.Background()); err != nil {
			t.Fatalf("discover: %v", err)
		}
		for _, mc := range calls {
			mc := mc
			s.Next = func(s *Server, kind string, n int) Step {
				if n < len(mc.Steps) {
					return mc.Steps[n]
				}
				return Step{Shape: "e4xx"} // a request the model did not predict: end the call, the comparison reports it
			}
			call := s.Begin(mc.Op, mc.Bundle)
			res := ops[mc.Op](call.Ctx, cl, mc.Bundle)
			s.End(call, res)
			got = append(got, obsCall{call, res})
		}
		probs = s.Problems
		log = s.TakeLog()
	})
	tw.add(cfg, log)
	detail := map[string]any{"case": json.RawMessage(append([]byte(nil), line...)), "budget": budget, "log": log}
	for i, g := range got {
		mc := calls[i]
		c, res := g.Call, g.Res
		d := map[string]any{"case": detail["case"], "budget": budget, "call": i, "op": mc.Op, "bundle": mc.Bundle, "got": res, "want": mc.Want,
			"requests": c.Reqs, "predicted_requests": mc.Reqs, "log": log}
		fail := func(sig, what string) {
			out.Violation(sig, what, d)
			t.Errorf("%s: %s [%s]", sig, what, key.String())
		}
		judgeCall(c, res, fail)
		// requests: kinds and number (P3, P6, P9: polls exactly while not final)
		same := len(c.Reqs) == len(mc.Reqs)
		for j := 0; same && j < len(mc.Reqs); j++ {
			same = c.Reqs[j].K == mc.Reqs[j].K
		}
		if !same {
			fail("x02-requests:"+mc.Op, fmt.Sprintf("%s sent requests %v; the specification predicts %v for this server evolution", mc.Op, kinds(c.Reqs), mkinds(mc.Reqs)))
		} else {
			// spacing (P4): virtual time slept before each request
			for j := range mc.Reqs {
				if c.Reqs[j].Gap != time.Duration(mc.Reqs[j].Gap)*time.Second {
					fail("x02-poll-spacing:"+mc.Op, fmt.Sprintf("%s: request #%d (%s) was sent %v after the previous one; the specification requires %ds (Retry-After / 1 s default / back-off)",
						mc.Op, j+1, mc.Reqs[j].K, c.Reqs[j].Gap, mc.Reqs[j].Gap))
					break
				}
			}
		}
		// result (P1, P2, P7, P8)
		want := mc.Want
		switch {
		case errClass(res.C) != errClass(want.C):
			sig := "x02-result-class:"
			if res.C == "ok" {
				sig = "x02-false-success:"
			}
			fail(sig+mc.Op, fmt.Sprintf("%s returned %s (status %q, %s); the specification predicts %s (status %q)", mc.Op, res.C, res.St, res.Err, want.C, want.St))
		case (res.C == "ok" || res.C == "ordererr" || res.C == "authzerr") && want.St != "" && res.St != want.St && mc.Op != "RevokeAuthorization" && mc.Op != "DeactivateReg":
			fail("x02-result-status:"+mc.Op, fmt.Sprintf("%s returned %s with status %q; the last reply showed %q", mc.Op, res.C, res.St, want.St))
		case res.S >= 0 && want.S > 0 && res.S != want.S:
			fail("x02-result-not-last-reply:"+mc.Op, fmt.Sprintf("%s: the result derives from reply #%d, the last reply received was #%d", mc.Op, res.S, want.S))
		case res.C == "ok" && res.N != want.N:
			fail("x02-chain:"+mc.Op, fmt.Sprintf("%s(bundle=%v) returned %d element(s); the specification predicts %d", mc.Op, mc.Bundle, res.N, want.N))
		}
		if res.C == "ok" && res.U != want.U {
			out.Extra["info_order_uri_differs"] = fmt.Sprintf("%s: Order.URI set=%v, model %v", key.String(), res.U, want.U)
		}
		if len(out.Samples) < 5 && len(mc.Steps) > 1 {
			out.Sample(map[string]any{"init": init, "op": mc.Op, "requests": kinds(c.Reqs), "result": res})
		}
	}
	for _, p := range probs {
		out.Violation("x02-"+strings.SplitN(p, ":", 2)[0], p, detail)
		t.Errorf("%s", p)
	}
}

func kinds(r []Req) []string {
	var o []string
	for _, x := range r {
		o = append(o, x.K)
	}
	return o
}
func mkinds(r []mreq) []string {
	var o []string
	for _, x := range r {
		o = append(o, x.K)
	}
	return o
}

// ---------------------------------------------------------------------------------------------
// binding T: seeded random evolutions

var (
	ordNext = map[string][]string{"pending": {"ready", "invalid"}, "ready": {"processing", "invalid"}, "processing": {"valid", "invalid"}}
	azNext  = map[string][]string{"pending": {"valid", "invalid", "expired", "deactivated"}, "valid": {"expired", "revoked", "deactivated"}}
	chNext  = map[string][]string{"processing": {"valid", "invalid"}}
	ordAll  = []string{"pending", "ready", "processing", "valid", "invalid", "unknown"}
	azAll   = []string{"pending", "valid", "invalid", "deactivated", "expired", "revoked", "unknown"}
	chAll   = []string{"pending", "processing", "valid", "invalid", "unknown"}
	opNames = []string{"AuthorizeOrder", "GetOrder", "WaitOrder", "CreateOrderCert", "FetchCert", "ListCertAlternates",
		"GetAuthorization", "WaitAuthorization", "GetChallenge", "Accept", "RevokeAuthorization", "DeactivateReg"}
	certKinds = []string{"c1", "c1", "c2", "c2", "c5", "c6", "c1key", "empty", "junk", "keyfirst", "big"}
)

func TestRandom(t *testing.T) {
	out := vutil.NewOut()
	tw := newTraceWriter()
	defer func() {
		tw.close()
		out.Extra["traces_written"] = tw.n
		if err := out.Write(); err != nil {
			t.Fatal(err)
		}
	}()
	sessions := envInt("X02_SESSIONS", 40)
	malformed := os.Getenv("X02_MALFORMED") == "1"
	salt := int64(200)
	if malformed {
		salt = 201
	}
	rng := vutil.Rand(salt)
	pick := func(l []string) string { return l[rng.Intn(len(l))] }
	for sn := 0; sn < sessions; sn++ {
		var log []Event
		var cfg Event
		type oc struct {
			c   *Call
			res Result
		}
		var got []oc
		names := []string{}
		synctest.Test(t, func(t *testing.T) {
			s := NewServer(pick(ordAll[:5]), pick(azAll[:6]), pick(chAll[:4]), 1)
			if !malformed {
				// a consistent snapshot
				snaps := [][3]string{{"pending", "pending", "pending"}, {"pending", "pending", "processing"}, {"pending", "valid", "valid"},
					{"ready", "valid", "valid"}, {"processing", "valid", "valid"}, {"valid", "valid", "valid"}, {"invalid", "invalid", "invalid"}}
				x := snaps[rng.Intn(len(snaps))]
				s.Ord, s.Az, s.Ch = x[0], x[1], x[2]
			}
			finSeen := s.Ord == "processing" || s.Ord == "valid"
			cfg = s.CfgEvent()
			cl := newClient(s)
			if _, err := cl.Discover(context.Background()); err != nil {
				t.Fatalf("discover: %v", err)
			}
			s.Next = func(s *Server, kind string, n int) Step {
				st := Step{}
				if kind == "finalize" {
					finSeen = true
				}
				// environment: 0..2 steps
				o, a, c := s.Ord, s.Az, s.Ch
				for k := rng.Intn(3); k > 0; k-- {
					switch r := rng.Intn(3); {
					case malformed && rng.Intn(3) == 0:
						switch r {
						case 0:
							o = pick(ordAll)
						case 1:
							a = pick(azAll)
						default:
							c = pick(chAll)
						}
					case r == 0:
						var cand []string
						for _, x := range ordNext[o] {
							if (x == "ready" && a != "valid") || (x == "processing" && !finSeen) {
								continue
							}
							cand = append(cand, x)
						}
						if len(cand) > 0 {
							o = pick(cand)
						}
					case r == 1:
						var cand []string
						for _, x := range azNext[a] {
							if a == "pending" && ((x == "valid" && c != "valid") || (x == "invalid" && c != "invalid")) {
								continue
							}
							cand = append(cand, x)
						}
						if len(cand) > 0 {
							a = pick(cand)
						}
					default:
						if l := chNext[c]; len(l) > 0 {
							c = pick(l)
						}
					}
					if n := len(st.Env); (n == 0 && [3]string{o, a, c} != [3]string{s.Ord, s.Az, s.Ch}) || (n > 0 && st.Env[n-1] != [3]string{o, a, c}) {
						st.Env = append(st.Env, [3]string{o, a, c})
					}
				}
				// shape
				shapes := []string{"ok", "ok", "ok", "ok", "ok", "ok", "e4xx", "e5xx", "neterr", "cancel"}
				if malformed {
					shapes = append(shapes, "ctype", "noloc", "nocert", "garbage", "garbage")
				} else if kind == "order" {
					shapes = append(shapes, "noloc")
				}
				st.Shape = pick(shapes)
				two := st.Shape != "e4xx" && st.Shape != "e5xx" && st.Shape != "neterr" && st.Shape != "cancel"
				orderish := kind == "newOrder" || kind == "order" || kind == "finalize"
				if (st.Shape == "noloc" && !orderish) || (st.Shape == "garbage" && (kind == "cert" || kind == "deact" || kind == "deactAcct")) {
					st.Shape = "ok"
				}
				if !malformed && two && (s.Acct != "valid" || (kind == "finalize" && o != "ready")) {
					st.Shape = "e4xx" // a conforming server refuses
					two = false
				}
				if n >= 10 { // keep calls finite: the caller gives up
					st.Shape = "cancel"
					two = false
				}
				// after the effect the order status shown would be:
				shownOrd := o
				if two && kind == "finalize" && o == "ready" {
					st.Fx = pick([]string{"processing", "valid"})
					shownOrd = st.Fx
				}
				if two && kind == "newOrder" {
					st.Fx = pick([]string{"pending", "ready"})
					shownOrd = st.Fx
					finSeen = false
				}
				if st.Shape == "nocert" && !(orderish && shownOrd == "valid") {
					st.Shape = "ok"
				}
				if kind == "cert" && two {
					st.Cb = pick(certKinds)
					st.Na = rng.Intn(3)
				}
				st.Ra = []int{0, 0, 2, 5}[rng.Intn(4)]
				st.CancelAfter = rng.Intn(12) == 0
				return st
			}
			ncalls := 3 + rng.Intn(6)
			for i := 0; i < ncalls; i++ {
				op := pick(opNames)
				if op == "DeactivateReg" && rng.Intn(3) != 0 {
					op = "WaitOrder"
				}
				bundle := (op == "CreateOrderCert" || op == "FetchCert") && rng.Intn(2) == 0
				names = append(names, op)
				call := s.Begin(op, bundle)
				res := ops[op](call.Ctx, cl, bundle)
				s.End(call, res)
				got = append(got, oc{call, res})
			}
			log = s.TakeLog()
		})
		out.Case(fmt.Sprintf("session %d %v", sn, names))
		for _, g := range got {
			d := map[string]any{"session": sn, "malformed": malformed, "op": g.c.Op, "got": g.res, "requests": g.c.Reqs, "log": log}
			judgeCall(g.c, g.res, func(sig, what string) {
				out.Violation(sig, what, d)
				t.Errorf("%s: %s", sig, what)
			})
		}
		tw.add(cfg, log)
		if len(out.Samples) < 3 {
			out.Sample(map[string]any{"session": sn, "ops": names, "events": len(log)})
		}
	}
}

// ---------------------------------------------------------------------------------------------

// TestRetryAfterForms: the delay between two polls for every form of the Retry-After header.
// P4: Retry-After seconds when positive, otherwise the 1 s default; never less.
func TestRetryAfterForms(t *testing.T) {
	out := vutil.NewOut()
	defer func() {
		if err := out.Write(); err != nil {
			t.Fatal(err)
		}
	}()
	type form struct {
		name   string
		ra     int
		date   bool
		expect time.Duration
	}
	forms := []form{{"absent", 0, false, time.Second}, {"seconds-3", 3, false, 3 * time.Second}, {"date-future-4", 4, true, 4 * time.Second},
		{"date-past-5", -5, true, time.Second}, {"seconds-negative", -2, false, time.Second}}
	for _, op := range []string{"WaitOrder", "WaitAuthorization", "CreateOrderCert"} {
		for _, f := range forms {
			var reqs []Req
			var res Result
			synctest.Test(t, func(t *testing.T) {
				s := NewServer("processing", "pending", "processing", 0)
				if op == "CreateOrderCert" {
					s.Ord = "ready"
				}
				cl := newClient(s)
				if _, err := cl.Discover(context.Background()); err != nil {
					t.Fatalf("discover: %v", err)
				}
				s.Next = func(s *Server, kind string, n int) Step {
					st := Step{Shape: "ok", Ra: f.ra, RaDate: f.date, Fx: "processing", Cb: "c1"}
					polls := n
					if op == "CreateOrderCert" {
						polls = n - 1
					}
					if polls >= 3 {
						st.Env = [][3]string{{"valid", "valid", "valid"}}
					}
					return st
				}
				call := s.Begin(op, false)
				res = ops[op](call.Ctx, cl, false)
				s.End(call, res)
				reqs = call.Reqs
			})
			out.Case(op + "/" + f.name)
			d := map[string]any{"op": op, "retry_after": f.name, "requests": reqs, "result": res}
			if res.C != "ok" {
				out.Violation("x02-retry-after-result:"+op, fmt.Sprintf("%s failed (%s) although the resource became valid", op, res.Err), d)
				t.Errorf("%s/%s: %v", op, f.name, res)
				continue
			}
			first := 1
			if op == "CreateOrderCert" {
				first = 2
			}
			for j := first; j < len(reqs); j++ {
				if reqs[j].K == "cert" {
					continue
				}
				if g := reqs[j].Gap; g != f.expect {
					sig := "x02-poll-spacing:retry-after-" + f.name
					if g < time.Second {
						sig = "x02-poll-no-delay:retry-after-in-the-past"
					}
					out.Violation(sig, fmt.Sprintf("P4: %s polled again %v after a reply with Retry-After %s; required %v (polling must not hit the CA without a pause)", op, g, f.name, f.expect), d)
					t.Errorf("%s/%s: gap %v want %v", op, f.name, g, f.expect)
					break
				}
			}
			out.Sample(d)
		}
	}
}
