package x02

// flow.go: a functional multi-order ACME CA for the autocert issuance flow (spec/AcmeOrderFlow.tla).
// Orders with several authorizations, each offering a set of challenge types; the CA's decisions
// (refusals, validation results, order outcome, finalization) come from a script extracted from a
// TLC-generated behaviour and are consumed in the order in which the MAIN flow (verifyRFC, then
// CreateOrderCert) makes its requests; requests of the deferred goroutines (authorization lookups
// and deactivations after verifyRFC returned) are answered from the CA's state.  When a challenge
// is accepted the CA probes the Manager for the challenge response, like a real validator would.

import (
	"crypto/x509"
	"encoding/base64"
	"encoding/json"
	"encoding/pem"
	"fmt"
	"io"
	"net/http"
	"strconv"
	"strings"
	"sync"
	"time"

	"verif/harness/acmefake"
)

const FlowDomain = "flow.x02.test"

type FDecision struct {
	Kind string     // newOrder getAuthz accept waitOrder finalize
	How  string     // newOrder: pending|ready|invalid|err; getAuthz: err|ok; accept: err|valid|invalid; waitOrder: ready|invalid; finalize: valid|invalid
	Sts  []string   // newOrder: authorization statuses
	Ofs  [][]string // newOrder: offers per authorization
}

type fauthz struct {
	st       string
	offer    []string
	accepted bool
}
type forder struct {
	st    string
	authz []*fauthz
}

type FReq struct {
	Kind string `json:"kind"`
	K    int    `json:"k"`
	J    int    `json:"j"`
	Typ  string `json:"typ,omitempty"`
	Bg   bool   `json:"bg,omitempty"`
}

type FlowCA struct {
	mu        sync.Mutex
	ca        *acmefake.CA
	Script    []FDecision
	VerifyLen int // number of decisions consumed by verifyRFC
	next      int
	Refused   map[[2]int]bool // deactivations the CA refuses
	orders    []*forder
	nonce     int
	Main      []FReq // requests of the main flow, in order
	Bg        []FReq // requests of the deferred goroutines
	Problems  []string
	chain     []byte
	// Probe reports whether the Manager currently serves the response of a challenge of the given type and token.
	Probe      func(typ, token string) (bool, string)
	ReadySeen  map[int]bool
	Finalized  []int
	AcceptedTy []string
}

func NewFlowCA(script []FDecision, verifyLen int, refused map[[2]int]bool) *FlowCA {
	return &FlowCA{ca: acmefake.NewCA(time.Now), Script: script, VerifyLen: verifyLen, Refused: refused, ReadySeen: map[int]bool{}}
}

func (c *FlowCA) problemf(f string, a ...any) { c.Problems = append(c.Problems, fmt.Sprintf(f, a...)) }

func (c *FlowCA) decision(kind string) (FDecision, bool) {
	if c.next < len(c.Script) && c.Script[c.next].Kind == kind {
		c.next++
		return c.Script[c.next-1], true
	}
	want := "nothing (script exhausted)"
	if c.next < len(c.Script) {
		want = c.Script[c.next].Kind
	}
	c.problemf("unexpected-request: the flow made a %s request where the specification predicts %s (decision #%d)", kind, want, c.next)
	return FDecision{}, false
}

func (c *FlowCA) inVerify() bool { return c.next < c.VerifyLen }

func token(k, j int, typ string) string { return fmt.Sprintf("tok-%d-%d-%s", k, j, typ) }

func (c *FlowCA) authzJSON(k, j int) []byte {
	a := c.orders[k-1].authz[j-1]
	var chals []string
	for _, t := range a.offer {
		st := "pending"
		if a.accepted && a.st != "pending" {
			st = a.st
		}
		chals = append(chals, fmt.Sprintf(`{"type":%q,"url":"%s/chal/%d/%d/%s","token":%q,"status":%q}`, t, Base, k, j, t, token(k, j, t), st))
	}
	return []byte(fmt.Sprintf(`{"status":%q,"identifier":{"type":"dns","value":%q},"challenges":[%s]}`, a.st, FlowDomain, strings.Join(chals, ",")))
}

func (c *FlowCA) orderJSON(k int) []byte {
	o := c.orders[k-1]
	var az []string
	for j := range o.authz {
		az = append(az, fmt.Sprintf(`"%s/authz/%d/%d"`, Base, k, j+1))
	}
	crt, er := "", ""
	if o.st == "valid" {
		crt = fmt.Sprintf(`,"certificate":"%s/cert/%d"`, Base, k)
	}
	if o.st == "invalid" {
		er = `,"error":{"type":"urn:ietf:params:acme:error:unauthorized","detail":"order failed","status":403}`
	}
	return []byte(fmt.Sprintf(`{"status":%q,"identifiers":[{"type":"dns","value":%q}],"authorizations":[%s],"finalize":"%s/finalize/%d"%s%s}`,
		o.st, FlowDomain, strings.Join(az, ","), Base, k, crt, er))
}

func (c *FlowCA) RoundTrip(req *http.Request) (*http.Response, error) {
	if err := req.Context().Err(); err != nil {
		return nil, err
	}
	if req.URL.Scheme == "" {
		return nil, fmt.Errorf("unsupported protocol scheme %q", req.URL.Scheme)
	}
	path := strings.TrimPrefix(req.URL.String(), Base)
	h := http.Header{"Content-Type": {"application/json"}}
	c.mu.Lock()
	defer c.mu.Unlock()
	c.nonce++
	h.Set("Replay-Nonce", "flowN"+strconv.Itoa(c.nonce))
	if req.Method == "GET" && path == "/dir" {
		b, _ := json.Marshal(map[string]string{"newAccount": Base + "/new-acct", "newOrder": Base + "/new-order",
			"newNonce": Base + "/new-nonce", "revokeCert": Base + "/revoke", "keyChange": Base + "/key-change"})
		return mkresp(req, 200, h, b), nil
	}
	if req.Method == "HEAD" {
		return mkresp(req, 200, h, nil), nil
	}
	if req.Method != "POST" {
		return nil, fmt.Errorf("x02 flow: unexpected %s %s", req.Method, path)
	}
	raw, _ := io.ReadAll(req.Body)
	var jb jwsBody
	json.Unmarshal(raw, &jb)
	payload, _ := base64.RawURLEncoding.DecodeString(jb.Payload)
	refuse := func(code int, typ string) (*http.Response, error) {
		h.Set("Content-Type", "application/problem+json")
		return mkresp(req, code, h, []byte(fmt.Sprintf(`{"type":"urn:ietf:params:acme:error:%s","detail":"scripted refusal","status":%d}`, typ, code))), nil
	}
	parts := strings.Split(strings.Trim(path, "/"), "/")
	num := func(i int) int {
		if i < len(parts) {
			n, _ := strconv.Atoi(parts[i])
			return n
		}
		return 0
	}
	switch parts[0] {
	case "new-acct", "acct":
		h.Set("Location", Base+"/acct/1")
		return mkresp(req, 201, h, []byte(`{"status":"valid"}`)), nil
	case "new-order":
		c.Main = append(c.Main, FReq{Kind: "newOrder", K: len(c.orders) + 1})
		d, ok := c.decision("newOrder")
		if !ok || d.How == "err" {
			return refuse(403, "unauthorized")
		}
		o := &forder{st: d.How}
		for i, st := range d.Sts {
			var of []string
			if i < len(d.Ofs) {
				of = d.Ofs[i]
			}
			if len(of) == 0 {
				of = []string{"dns-01"} // offers of non-pending authorizations are irrelevant in the model
			}
			o.authz = append(o.authz, &fauthz{st: st, offer: of})
		}
		c.orders = append(c.orders, o)
		k := len(c.orders)
		if o.st == "ready" {
			c.ReadySeen[k] = true
		}
		h.Set("Location", fmt.Sprintf("%s/order/%d", Base, k))
		return mkresp(req, 201, h, c.orderJSON(k)), nil
	case "authz":
		k, j := num(1), num(2)
		if k < 1 || k > len(c.orders) || j < 1 || j > len(c.orders[k-1].authz) {
			return refuse(404, "malformed")
		}
		a := c.orders[k-1].authz[j-1]
		if len(payload) != 0 { // deactivation
			c.Bg = append(c.Bg, FReq{Kind: "deact", K: k, J: j, Bg: true})
			if c.inVerify() {
				c.problemf("deactivation-during-verify: authorization %d/%d deactivated while the flow is still running", k, j)
			}
			if c.Refused[[2]int{k, j}] {
				return refuse(403, "unauthorized")
			}
			if a.st == "pending" || a.st == "valid" {
				a.st = "deactivated"
			}
			return mkresp(req, 200, h, c.authzJSON(k, j)), nil
		}
		if !c.inVerify() {
			c.Bg = append(c.Bg, FReq{Kind: "authz", K: k, J: j, Bg: true})
			return mkresp(req, 200, h, c.authzJSON(k, j)), nil
		}
		c.Main = append(c.Main, FReq{Kind: "authz", K: k, J: j})
		if !a.accepted { // GetAuthorization (polls after the accept are answered from the state)
			d, ok := c.decision("getAuthz")
			if !ok || d.How == "err" {
				return refuse(403, "unauthorized")
			}
		}
		return mkresp(req, 200, h, c.authzJSON(k, j)), nil
	case "chal":
		k, j := num(1), num(2)
		typ := ""
		if len(parts) > 3 {
			typ = parts[3]
		}
		c.Main = append(c.Main, FReq{Kind: "accept", K: k, J: j, Typ: typ})
		if k < 1 || k > len(c.orders) || j < 1 || j > len(c.orders[k-1].authz) {
			return refuse(404, "malformed")
		}
		a := c.orders[k-1].authz[j-1]
		offered := false
		for _, t := range a.offer {
			offered = offered || t == typ
		}
		if !offered {
			c.problemf("accept-not-offered: challenge type %s accepted for authorization %d/%d which offers %v", typ, k, j, a.offer)
		}
		if a.st != "pending" {
			c.problemf("accept-not-pending: challenge accepted for authorization %d/%d whose status is %s", k, j, a.st)
		}
		for _, t := range c.AcceptedTy {
			if t == typ {
				c.problemf("type-tried-twice: challenge type %s accepted a second time within one issuance", typ)
			}
		}
		c.AcceptedTy = append(c.AcceptedTy, typ)
		// what a validator would find right now
		c.mu.Unlock()
		served, why := c.Probe(typ, token(k, j, typ))
		c.mu.Lock()
		if !served {
			c.problemf("accept-without-response: %s challenge of authorization %d/%d accepted while its response is not served (%s)", typ, k, j, why)
		}
		d, ok := c.decision("accept")
		if !ok || d.How == "err" {
			return refuse(403, "unauthorized")
		}
		a.accepted = true
		a.st = d.How
		if d.How == "invalid" {
			c.orders[k-1].st = "invalid"
		}
		return mkresp(req, 200, h, []byte(fmt.Sprintf(`{"type":%q,"url":"%s/chal/%d/%d/%s","token":%q,"status":"processing"}`, typ, Base, k, j, typ, token(k, j, typ)))), nil
	case "order":
		k := num(1)
		if k < 1 || k > len(c.orders) {
			return refuse(404, "malformed")
		}
		c.Main = append(c.Main, FReq{Kind: "order", K: k})
		if c.inVerify() {
			d, ok := c.decision("waitOrder")
			if !ok {
				return refuse(403, "unauthorized")
			}
			c.orders[k-1].st = d.How
			if d.How == "ready" {
				c.ReadySeen[k] = true
			}
		}
		h.Set("Location", fmt.Sprintf("%s/order/%d", Base, k))
		return mkresp(req, 200, h, c.orderJSON(k)), nil
	case "finalize":
		k := num(1)
		c.Main = append(c.Main, FReq{Kind: "finalize", K: k})
		c.Finalized = append(c.Finalized, k)
		if k < 1 || k > len(c.orders) {
			return refuse(404, "malformed")
		}
		d, ok := c.decision("finalize")
		if !ok {
			return refuse(403, "orderNotReady")
		}
		o := c.orders[k-1]
		if o.st != "ready" {
			c.problemf("finalize-not-ready: finalize requested for order %d whose status is %s", k, o.st)
		}
		o.st = d.How
		h.Set("Location", fmt.Sprintf("%s/order/%d", Base, k))
		if d.How == "valid" {
			var p struct {
				CSR string `json:"csr"`
			}
			json.Unmarshal(payload, &p)
			der, _ := base64.RawURLEncoding.DecodeString(p.CSR)
			csr, err := x509.ParseCertificateRequest(der)
			if err != nil || csr.CheckSignature() != nil {
				c.problemf("bad-csr: %v", err)
				return refuse(400, "badCSR")
			}
			now := time.Now()
			leaf := c.ca.Leaf(int64(k), FlowDomain, csr.PublicKey, now.Add(-time.Hour), now.Add(90*24*time.Hour))
			c.chain = append(pem.EncodeToMemory(&pem.Block{Type: "CERTIFICATE", Bytes: leaf}),
				pem.EncodeToMemory(&pem.Block{Type: "CERTIFICATE", Bytes: c.ca.RootDER})...)
		}
		return mkresp(req, 200, h, c.orderJSON(k)), nil
	case "cert":
		c.Main = append(c.Main, FReq{Kind: "cert", K: num(1)})
		h.Set("Content-Type", "application/pem-certificate-chain")
		return mkresp(req, 200, h, c.chain), nil
	}
	return refuse(404, "malformed")
}

// AuthzStatuses returns the statuses of all authorizations, per order.
func (c *FlowCA) AuthzStatuses() [][]string {
	c.mu.Lock()
	defer c.mu.Unlock()
	var out [][]string
	for _, o := range c.orders {
		var l []string
		for _, a := range o.authz {
			l = append(l, a.st)
		}
		out = append(out, l)
	}
	return out
}
