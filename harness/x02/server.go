// Package x02 is the conformance harness of growth specification X02 (spec/AcmeOrder.tla):
// order / authorization / challenge life cycle of golang.org/x/crypto/acme.
//
// server.go: a stateful in-process ACME CA (http.RoundTripper) owning one order, one
// authorization, one challenge and one account, in the vocabulary of AcmeOrder.tla.  Before it
// answers a request it applies the environment steps of a script (replay of a TLC-generated
// behaviour) or of a seeded random chooser, renders the reply from its CURRENT state in the
// scripted shape, and logs every event for trace validation (AcmeOrder_Trace.tla).
package x02

import (
	"bytes"
	"context"
	"encoding/base64"
	"encoding/json"
	"encoding/pem"
	"errors"
	"fmt"
	"io"
	"net/http"
	"strconv"
	"strings"
	"sync"
	"time"
)

const Base = "https://ca.x02.test"

type Event map[string]any

// Step is what the server does for one request: environment steps, then a reply.
type Step struct {
	Env         [][3]string // states (order, authz, challenge) the environment moves through before the reply
	Shape       string      // ok ctype noloc nocert garbage e4xx e5xx neterr cancel
	Fx          string      // server's choice on finalize (processing|valid) / newOrder (pending|ready)
	Cb          string      // certificate body kind
	Na          int         // number of rel="alternate" links
	Ra          int         // Retry-After seconds (0: header absent)
	RaDate      bool        // send Retry-After as an HTTP date instead of delta-seconds
	CancelAfter bool        // cancel the caller's context 500 ms (virtual) after this reply
}

// Call is one public client call in progress.
type Call struct {
	Op       string
	Ctx      context.Context
	cancel   context.CancelFunc
	Reqs     []Req
	Refused  []string
	FinAcc   int
	LastOrd  string // last order status shown in this call
	LastSer  int    // serial of the last reply
	EarlyCrt bool
	Cancel   time.Time
	Returned time.Time
	lastReq  time.Time
	timers   []*time.Timer
}

type Req struct {
	K   string        // wire kind
	Gap time.Duration // virtual time since the previous request of the call
}

type NetErr struct{ Serial int }

func (e *NetErr) Error() string { return fmt.Sprintf("x02: connection reset (serial=%d)", e.Serial) }

type Server struct {
	mu                sync.Mutex
	Ord, Az, Ch, Acct string
	Budget            int
	Next              func(s *Server, kind string, n int) Step // chooses the step for the n-th request of the call
	Log               []Event
	cur               *Call
	nrep, nonce       int
	Problems          []string
}

var (
	bigOnce sync.Once
	bigBody []byte
)

const (
	SlowDelay    = 500 * time.Millisecond
	BackoffDelay = 2 * time.Second
)

func NewServer(ord, az, ch string, budget int) *Server {
	return &Server{Ord: ord, Az: az, Ch: ch, Acct: "valid", Budget: budget}
}

func (s *Server) logf(e Event) { s.Log = append(s.Log, e) }

func (s *Server) CfgEvent() Event {
	return Event{"ev": "cfg", "ord": s.Ord, "az": s.Az, "ch": s.Ch}
}

func (s *Server) Begin(op string, bundle bool) *Call {
	ctx, cancel := context.WithCancel(context.Background())
	c := &Call{Op: op, Ctx: ctx, cancel: cancel, lastReq: time.Now()}
	s.mu.Lock()
	s.cur = c
	s.logf(Event{"ev": "call", "op": op, "bundle": bundle})
	s.mu.Unlock()
	return c
}

func (s *Server) End(c *Call, r Result) {
	s.mu.Lock()
	c.Returned = time.Now()
	for _, t := range c.timers {
		t.Stop()
	}
	s.logf(Event{"ev": "ret", "c": r.C, "st": r.St, "s": r.S, "n": r.N, "u": r.U})
	s.cur = nil
	s.mu.Unlock()
	c.cancel()
}

func (s *Server) cancelCall(c *Call) {
	s.mu.Lock()
	if c.Cancel.IsZero() && c.Returned.IsZero() {
		c.Cancel = time.Now()
		s.logf(Event{"ev": "cancel", "s": c.LastSer})
	}
	s.mu.Unlock()
	c.cancel()
}

// Backoff is the scripted Client.RetryBackoff: positive for the first Budget retries.
func (s *Server) Backoff(n int, r *http.Request, resp *http.Response) time.Duration {
	s.mu.Lock()
	defer s.mu.Unlock()
	how := "wake"
	if n > s.Budget {
		how = "stop"
	}
	s.logf(Event{"ev": "backoff", "how": how, "n": n})
	if how == "stop" {
		return 0
	}
	return BackoffDelay
}

func mkresp(req *http.Request, code int, h http.Header, body []byte) *http.Response {
	return &http.Response{StatusCode: code, Status: fmt.Sprintf("%d %s", code, http.StatusText(code)),
		Proto: "HTTP/1.1", ProtoMajor: 1, ProtoMinor: 1, Header: h, Body: io.NopCloser(bytes.NewReader(body)),
		ContentLength: int64(len(body)), Request: req}
}

func (s *Server) freshNonce(h http.Header) {
	s.nonce++
	h.Set("Replay-Nonce", fmt.Sprintf("x02N%d", s.nonce))
}

type jwsBody struct {
	Protected string `json:"protected"`
	Payload   string `json:"payload"`
}

// wire kind of a signed request
func kindOf(path string, payload []byte) string {
	if i := strings.IndexByte(path, '?'); i >= 0 {
		path = path[:i]
	}
	switch {
	case path == "/new-order":
		return "newOrder"
	case path == "/order/1":
		return "order"
	case path == "/finalize/1":
		return "finalize"
	case path == "/cert/1":
		return "cert"
	case path == "/authz/1":
		if len(payload) == 0 {
			return "authz"
		}
		return "deact"
	case path == "/chal/1":
		if len(payload) == 0 {
			return "chal"
		}
		return "accept"
	case path == "/acct/1":
		return "deactAcct"
	}
	return "unknown:" + path
}

func (s *Server) RoundTrip(req *http.Request) (*http.Response, error) {
	ctx := req.Context()
	u := req.URL.String()
	if u == "" || req.URL.Scheme == "" {
		// what net/http.Transport says for a request without scheme/host; nothing reaches a server
		return nil, fmt.Errorf("unsupported protocol scheme %q", req.URL.Scheme)
	}
	path := strings.TrimPrefix(u, Base)
	if err := ctx.Err(); err != nil {
		s.mu.Lock()
		if s.cur != nil {
			s.cur.Refused = append(s.cur.Refused, req.Method+" "+path)
		}
		s.mu.Unlock()
		return nil, err
	}
	h := http.Header{}
	switch {
	case req.Method == "GET" && path == "/dir":
		s.mu.Lock()
		s.freshNonce(h)
		s.mu.Unlock()
		h.Set("Content-Type", "application/json")
		b, _ := json.Marshal(map[string]string{"newAccount": Base + "/new-acct", "newOrder": Base + "/new-order",
			"newNonce": Base + "/new-nonce", "revokeCert": Base + "/revoke", "keyChange": Base + "/key-change"})
		return mkresp(req, 200, h, b), nil
	case req.Method == "HEAD":
		s.mu.Lock()
		s.freshNonce(h)
		s.mu.Unlock()
		return mkresp(req, 200, h, nil), nil
	case req.Method != "POST":
		return nil, fmt.Errorf("x02: unexpected %s %s", req.Method, path)
	}
	raw, _ := io.ReadAll(req.Body)
	var jb jwsBody
	json.Unmarshal(raw, &jb)
	payload, _ := base64.RawURLEncoding.DecodeString(jb.Payload)
	kind := kindOf(path, payload)

	s.mu.Lock()
	c := s.cur
	if c == nil {
		s.Problems = append(s.Problems, "request-outside-call: POST "+path)
		s.mu.Unlock()
		return nil, errors.New("x02: request outside a call")
	}
	now := time.Now()
	gap := now.Sub(c.lastReq)
	c.lastReq = now
	c.Reqs = append(c.Reqs, Req{K: kind, Gap: gap})
	s.logf(Event{"ev": "req", "k": kind, "gap": int(gap / time.Millisecond)})
	if kind == "cert" && c.Op == "CreateOrderCert" && c.LastOrd != "valid" {
		c.EarlyCrt = true
	}
	st := s.Next(s, kind, len(c.Reqs)-1)
	for _, e := range st.Env {
		s.Ord, s.Az, s.Ch = e[0], e[1], e[2]
		s.logf(Event{"ev": "env", "ord": e[0], "az": e[1], "ch": e[2]})
	}
	s.mu.Unlock()

	if st.Shape == "cancel" {
		t := time.AfterFunc(SlowDelay, func() { s.cancelCall(c) })
		s.mu.Lock()
		c.timers = append(c.timers, t)
		s.mu.Unlock()
		<-ctx.Done()
		s.mu.Lock()
		s.nrep++
		c.LastSer = s.nrep
		// the cancel event was logged by cancelCall before the reply line: keep the model's order (reply, then nothing)
		s.fixCancelOrder(Event{"ev": "reply", "sh": "cancel", "st": "", "x": "", "s": s.nrep, "ra": 0, "na": 0})
		s.mu.Unlock()
		return nil, ctx.Err()
	}

	s.mu.Lock()
	defer s.mu.Unlock()
	s.nrep++
	serial := s.nrep
	c.LastSer = serial
	h.Set("X-Verif-Serial", strconv.Itoa(serial))
	if st.Shape != "neterr" {
		s.freshNonce(h)
	}
	two := map[string]bool{"ok": true, "ctype": true, "noloc": true, "nocert": true, "garbage": true}[st.Shape]
	x := ""
	if two {
		// server-side effect of the request
		switch kind {
		case "finalize":
			c.FinAcc++
			if s.Ord == "ready" {
				s.Ord = st.Fx
				x = st.Fx
			}
		case "newOrder":
			s.Ord = st.Fx
			x = st.Fx
			if st.Fx == "ready" {
				s.Az, s.Ch = "valid", "valid"
			} else {
				s.Az, s.Ch = "pending", "pending"
			}
		case "deact":
			if s.Az == "pending" || s.Az == "valid" {
				s.Az = "deactivated"
			}
		case "accept":
			if s.Ch == "pending" {
				s.Ch = "processing"
			}
		case "deactAcct":
			s.Acct = "deactivated"
		}
	}
	shown := ""
	switch kind {
	case "newOrder", "order", "finalize":
		shown = s.Ord
	case "authz", "deact":
		shown = s.Az
	case "chal", "accept":
		shown = s.Ch
	case "deactAcct":
		shown = s.Acct
	}
	if !two || st.Shape == "garbage" {
		shown = ""
	}
	if two && st.Shape != "garbage" && (kind == "newOrder" || kind == "order" || kind == "finalize") {
		c.LastOrd = shown
	}
	if kind == "cert" && two {
		x = st.Cb
	}
	s.logf(Event{"ev": "reply", "sh": st.Shape, "st": shown, "x": x, "s": serial, "ra": st.Ra, "na": st.Na})
	if st.CancelAfter {
		c.timers = append(c.timers, time.AfterFunc(SlowDelay, func() { s.cancelCall(c) }))
	}
	tag := fmt.Sprintf("s%d", serial)
	problem := func(code int, typ string) (*http.Response, error) {
		h.Set("Content-Type", "application/problem+json")
		return mkresp(req, code, h, []byte(fmt.Sprintf(`{"type":"urn:ietf:params:acme:error:%s","detail":"serial=%d","status":%d}`, typ, serial, code))), nil
	}
	switch st.Shape {
	case "neterr":
		return nil, &NetErr{Serial: serial}
	case "e4xx":
		return problem(403, "unauthorized")
	case "e5xx":
		return problem(503, "serverInternal")
	}
	if st.Ra != 0 {
		if st.RaDate {
			h.Set("Retry-After", time.Now().Add(time.Duration(st.Ra)*time.Second).UTC().Format(http.TimeFormat))
		} else {
			h.Set("Retry-After", strconv.Itoa(st.Ra))
		}
	}
	h.Set("Content-Type", "application/json")
	if st.Shape == "ctype" {
		h.Set("Content-Type", "text/html")
	}
	code := 200
	if st.Shape == "garbage" {
		if kind == "newOrder" {
			code = 201
		}
		return mkresp(req, code, h, []byte("<html><body>maintenance</body></html>")), nil
	}
	errField := func(status string) string {
		if status == "invalid" {
			return fmt.Sprintf(`,"error":{"type":"urn:ietf:params:acme:error:unauthorized","detail":"serial=%d","status":403}`, serial)
		}
		return ""
	}
	switch kind {
	case "newOrder", "order", "finalize":
		if kind == "newOrder" {
			code = 201
		}
		if st.Shape != "noloc" {
			h.Set("Location", Base+"/order/1?s="+strconv.Itoa(serial))
		}
		crt := ""
		if s.Ord == "valid" && st.Shape != "nocert" {
			crt = `,"certificate":"` + Base + `/cert/1"`
		}
		body := fmt.Sprintf(`{"status":%q,"identifiers":[{"type":"dns","value":"%s.x02.test"}],"authorizations":["%s/authz/1"],"finalize":"%s/finalize/1"%s%s}`,
			s.Ord, tag, Base, Base, crt, errField(s.Ord))
		return mkresp(req, code, h, []byte(body)), nil
	case "authz", "deact":
		body := fmt.Sprintf(`{"status":%q,"identifier":{"type":"dns","value":"%s.x02.test"},"challenges":[{"type":"http-01","url":"%s/chal/1","token":"tok%s","status":%q%s}]}`,
			s.Az, tag, Base, tag, s.Ch, errField(s.Ch))
		return mkresp(req, code, h, []byte(body)), nil
	case "chal", "accept":
		body := fmt.Sprintf(`{"type":"http-01","url":"%s/chal/1","token":"tok%s","status":%q%s}`, Base, tag, s.Ch, errField(s.Ch))
		return mkresp(req, code, h, []byte(body)), nil
	case "deactAcct":
		return mkresp(req, code, h, []byte(`{"status":"deactivated"}`)), nil
	case "cert":
		h.Set("Content-Type", "application/pem-certificate-chain")
		if st.Shape == "ctype" {
			h.Set("Content-Type", "text/html")
		}
		h.Add("Link", "<"+Base+`/dir>;rel="index"`)
		for i := 0; i < st.Na; i++ {
			h.Add("Link", fmt.Sprintf(`<%s/cert/alt-%s-%d>;rel="alternate"`, Base, tag, i))
		}
		return mkresp(req, code, h, s.certBody(st.Cb, tag)), nil
	}
	return problem(404, "malformed")
}

// the "cancel" line logged by cancelCall precedes the slow reply's line in real time; the model
// (and the generated histories) order them reply-then-return, with the cancellation folded into
// the reply shape.  Drop that cancel line.
func (s *Server) fixCancelOrder(reply Event) {
	if n := len(s.Log); n > 0 && s.Log[n-1]["ev"] == "cancel" {
		s.Log = s.Log[:n-1]
	}
	s.logf(reply)
}

// DER payloads are not parsed by the client: "verif-<tag>-<i>" identifies reply and position.
func CertDER(tag string, i int) []byte { return []byte(fmt.Sprintf("verif-%s-%d", tag, i)) }

func (s *Server) certBody(kind, tag string) []byte {
	blk := func(typ string, b []byte) []byte { return pem.EncodeToMemory(&pem.Block{Type: typ, Bytes: b}) }
	chain := func(n int) []byte {
		var out []byte
		for i := 0; i < n; i++ {
			out = append(out, blk("CERTIFICATE", CertDER(tag, i))...)
		}
		return out
	}
	switch kind {
	case "", "c1":
		return chain(1)
	case "c2":
		return chain(2)
	case "c5":
		return chain(5)
	case "c6":
		return chain(6)
	case "c1key":
		return append(chain(1), blk("PRIVATE KEY", []byte("not a certificate"))...)
	case "keyfirst":
		return append(blk("PRIVATE KEY", []byte("not a certificate")), chain(1)...)
	case "empty":
		return nil
	case "junk":
		return []byte("<html><body>no certificate here</body></html>\n")
	case "big":
		// one CERTIFICATE block whose PEM text exceeds maxCertChainSize + maxCertChainSize/33
		bigOnce.Do(func() { bigBody = blk("CERTIFICATE", make([]byte, 5<<20)) })
		return bigBody
	}
	return []byte("unknown certificate kind " + kind)
}

func (s *Server) TakeLog() []Event {
	s.mu.Lock()
	defer s.mu.Unlock()
	l := s.Log
	s.Log = nil
	return l
}
