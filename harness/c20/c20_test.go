// Binding E+R for C20 (OpenPGP S2K derives RFC 4880 keys).
//
// VERIF_CASES holds the TRACE lines of spec/S2K_MC.tla: toy-hash vectors; derived keys evaluated by
// TLC from spec/S2K.tla with the toy hash (t = "toy"); the coded-count table and encodeCount
// probes (t = "counts"); exact octet strings fed to hash contexts 0..3 for simple, salted and
// small-count iterated specifiers together with the specifier bytes per hash id (t = "pre");
// specifier samples with their Parse outcome (t = "specs").
// The harness drives the REAL golang.org/x/crypto/openpgp/s2k: Simple/Salted/Iterated with the toy
// hash (a hash.Hash), and Parse / Serialize with every supported hash id, judged "by preimage":
// the expected key is the standard-library hash of the octet string the specification says is
// hashed (written out by TLC for small counts, expanded from TLC's run-length form for all 256
// coded counts by toyprim.FeedRL, which is validated against the written-out strings).
package c20

import (
	"bytes"
	"crypto"
	_ "crypto/md5"
	_ "crypto/sha1"
	_ "crypto/sha256"
	_ "crypto/sha512"
	"encoding/hex"
	"encoding/json"
	"fmt"
	"hash"
	"os"
	"runtime"
	"sort"
	"strconv"
	"sync"
	"testing"

	"golang.org/x/crypto/openpgp/s2k"
	_ "golang.org/x/crypto/ripemd160"
	"verif/harness/toyprim"
	"verif/harness/vutil"
)

type vec struct {
	H int   `json:"h"`
	M []int `json:"m"`
	D []int `json:"d"`
}

type rec struct {
	T      string           `json:"t"`
	Hash   []vec            `json:"hash"`
	Mode   int              `json:"mode"`
	Salt   []int            `json:"salt"`
	Pass   []int            `json:"pass"`
	Count  json.RawMessage  `json:"count"`
	Key    []int            `json:"key"`
	CC     int              `json:"cc"`
	Spec   map[string][]int `json:"spec"`
	Pre    [][]int          `json:"pre"`
	Probes []struct {
		S2KCount int `json:"s2kcount"`
		C        int `json:"c"`
	} `json:"probes"`
	Specs []struct {
		B   []int  `json:"b"`
		Out string `json:"out"`
	} `json:"specs"`
}

func tb(v []int) []byte {
	b := make([]byte, len(v))
	for i, x := range v {
		b[i] = byte(x)
	}
	return b
}

func hx(b []byte) string {
	if len(b) > 40 {
		return hex.EncodeToString(b[:40]) + "..."
	}
	return hex.EncodeToString(b)
}

var hashIDs = map[int]crypto.Hash{1: crypto.MD5, 2: crypto.SHA1, 3: crypto.RIPEMD160, 8: crypto.SHA256, 9: crypto.SHA384, 10: crypto.SHA512, 11: crypto.SHA224}
var idOrder = []int{1, 2, 3, 8, 9, 10, 11}

type env struct {
	mu   sync.Mutex
	t    *testing.T
	out  *vutil.Out
	seen map[string]int
}

func (e *env) fail(sig, what string, d map[string]any) {
	e.mu.Lock()
	defer e.mu.Unlock()
	e.seen[sig]++
	if e.seen[sig] <= 5 {
		e.out.Violation(sig, what, d)
	}
	if e.seen[sig] <= 20 {
		e.t.Errorf("%s: %s %v", sig, what, d)
	} else {
		e.t.Fail()
	}
}

func (e *env) kase(k string) {
	e.mu.Lock()
	e.out.Case(k)
	e.mu.Unlock()
}

func (e *env) guard(sig string, d map[string]any, f func()) {
	defer func() {
		if r := recover(); r != nil {
			d["panic"] = fmt.Sprint(r)
			e.fail(sig, "panic on a valid input", d)
		}
	}()
	f()
}

// refKey: the key "by preimage" for a real hash: contexts 0.. hashed with the standard library.
func refKey(h crypto.Hash, mode int, salt, pass []byte, count, keyLen int) []byte {
	return toyprim.S2KKey(func() hash.Hash { return h.New() }, mode, salt, pass, count, keyLen)
}

// wipe overwrites caller-owned buffers once a call's result has been copied out.
func wipe(bs ...[]byte) {
	for _, b := range bs {
		for i := range b {
			b[i] = 0xA5
		}
	}
}

type fixedRand struct{ b []byte }

func (r *fixedRand) Read(p []byte) (int, error) { return copy(p, r.b), nil }

func TestReplay(t *testing.T) {
	out := vutil.NewOut()
	defer func() {
		if err := out.Write(); err != nil {
			t.Errorf("write out: %v", err)
		}
	}()
	e := &env{t: t, out: out, seen: map[string]int{}}
	var cases []rec
	if err := vutil.ReadNDJSON(os.Getenv("VERIF_CASES"), func(line []byte) error {
		var r rec
		if err := json.Unmarshal(line, &r); err != nil {
			return err
		}
		cases = append(cases, r)
		return nil
	}); err != nil {
		t.Fatalf("cases: %v", err)
	}
	for id, h := range hashIDs {
		if !h.Available() {
			t.Fatalf("harness: hash id %d not linked in", id)
		}
	}
	toy4 := func() hash.Hash { return toyprim.NewHash(4) }
	var countTab []int
	intOf := func(raw json.RawMessage) int { n, _ := strconv.Atoi(string(raw)); return n }

	// ---- 1. harness self-check: Go twins against TLC (no verdict)
	nv := 0
	for _, r := range cases {
		switch r.T {
		case "toyvec":
			for _, v := range r.Hash {
				if !bytes.Equal(toyprim.Sum(v.H, tb(v.M)), tb(v.D)) {
					t.Fatalf("harness: toyprim.Hash differs from PrimToy!ToyHash evaluated by TLC")
				}
				nv++
			}
		case "toy":
			if !bytes.Equal(toyprim.S2KKey(toy4, r.Mode, tb(r.Salt), tb(r.Pass), intOf(r.Count), len(r.Key)), tb(r.Key)) {
				t.Fatalf("harness: toyprim.S2KKey differs from S2K!Key evaluated by TLC (mode %d count %s)", r.Mode, r.Count)
			}
			nv++
		case "counts":
			if err := json.Unmarshal(r.Count, &countTab); err != nil || len(countTab) != 256 {
				t.Fatalf("harness: count table: %v", err)
			}
		}
	}
	if nv < 30 || countTab == nil {
		t.Fatalf("harness: too few TLC vectors (%d)", nv)
	}
	// FeedRL (run-length expansion) against the written-out preimages
	for _, r := range cases {
		if r.T != "pre" {
			continue
		}
		unit := tb(r.Pass)
		if r.Mode != 0 {
			unit = append(tb(r.Salt), unit...)
		}
		total := len(unit)
		if r.Mode == 3 && countTab[r.CC] > total {
			total = countTab[r.CC]
		}
		for i, p := range r.Pre {
			a, b := crypto.SHA256.New(), crypto.SHA256.New()
			toyprim.FeedRL(a, i, unit, total)
			b.Write(tb(p))
			if !bytes.Equal(a.Sum(nil), b.Sum(nil)) {
				t.Fatalf("harness: FeedRL differs from S2K!Preimage written out by TLC (mode %d cc %d ctx %d)", r.Mode, r.CC, i)
			}
			nv++
		}
	}
	out.Extra["tlc_vectors_validating_go_twins"] = nv

	// ---- 2. s2k.Simple / Salted / Iterated with the toy hash against the TLC-evaluated keys.
	// One hash instance is reused for all calls (the functions must Reset it).
	shared := toyprim.NewHash(4)
	for _, r := range cases {
		if r.T != "toy" {
			continue
		}
		salt, pass, count, want := tb(r.Salt), tb(r.Pass), intOf(r.Count), tb(r.Key)
		if r.Mode == 3 && len(salt)+len(pass) == 0 {
			continue // Iterated with nothing to hash and count > 0 is outside RFC 4880 (the salt has 8 octets)
		}
		for kl := 1; kl <= len(want); kl++ {
			label := fmt.Sprintf("toy mode=%d salt=%d pass=%d count=%d keylen=%d", r.Mode, len(salt), len(pass), count, kl)
			d := map[string]any{"case": label, "salt": hx(salt), "pass": hx(pass)}
			e.guard("c20-panic", d, func() {
				got := bytes.Repeat([]byte{0xCC}, kl)
				var h hash.Hash = shared
				if kl%3 == 0 {
					h = toyprim.NewHash(4)
				}
				switch r.Mode {
				case 0:
					s2k.Simple(got, h, pass)
				case 1:
					s2k.Salted(got, h, pass, salt)
				case 3:
					s2k.Iterated(got, h, pass, salt, count)
				}
				if !bytes.Equal(got, want[:kl]) {
					d["got"], d["want"] = hx(got), hx(want[:kl])
					e.fail("c20-toy-key-mismatch", "s2k.Simple/Salted/Iterated differs from RFC 4880 3.7.1 over the supplied hash", d)
				}
			})
			e.kase(label)
		}
		if r.Mode == 3 && count == 100 {
			out.Sample(map[string]any{"mode": 3, "salt": hx(salt), "pass": hx(pass), "count": count, "key": hx(want)})
		}
	}

	// ---- 3. Parse on TLC's specifiers with written-out preimages: every hash id, key lengths around the hash size
	for _, r := range cases {
		if r.T != "pre" {
			continue
		}
		pass := tb(r.Pass)
		for _, id := range idOrder {
			h := hashIDs[id]
			spec := tb(r.Spec[strconv.Itoa(id)])
			// expected key material from the written-out preimages
			var material []byte
			for _, p := range r.Pre {
				hh := h.New()
				hh.Write(tb(p))
				material = hh.Sum(material)
			}
			label := fmt.Sprintf("parse mode=%d hash=%d pass=%d c=%d", r.Mode, id, len(pass), r.CC)
			d := map[string]any{"case": label, "spec": hx(spec), "pass": hx(pass)}
			e.guard("c20-panic", d, func() {
				specc := append([]byte(nil), spec...)
				f, err := s2k.Parse(bytes.NewReader(specc))
				wipe(specc) // the returned function must not depend on the caller's specifier bytes
				if err != nil {
					d["err"] = err.Error()
					e.fail("c20-parse-rejects-supported-specifier", "s2k.Parse rejects a supported specifier", d)
					return
				}
				hs := h.Size()
				for _, kl := range []int{1, hs - 1, hs, hs + 1, 2*hs + 1, 64, 3, hs} { // several calls on the same function
					if kl > len(material) {
						continue
					}
					got := bytes.Repeat([]byte{0xCC}, kl)
					passc := append([]byte(nil), pass...)
					f(got, passc)
					res := append([]byte(nil), got...)
					wipe(got, passc) // the caller's buffers are its own between calls
					if !bytes.Equal(res, material[:kl]) {
						d["keylen"], d["got"], d["want"] = kl, hx(res), hx(material[:kl])
						e.fail("c20-parse-key-mismatch", "key derived by the function returned by s2k.Parse differs from RFC 4880 3.7.1", d)
						return
					}
				}
			})
			e.kase(label)
		}
	}

	// ---- 4. all 256 coded counts x hash ids: Serialize -> Parse round trip, judged by preimage.
	// quick: every coded count with one hash id (rotating), every hash id for c < 128, two contexts for small c;
	// thorough: every (hash id, coded count).
	type job struct{ id, c int }
	var jobs []job
	seed := int(vutil.Seed())
	for c := 0; c < 256; c++ {
		for k, id := range idOrder {
			if vutil.Thorough() || c < 128 || (c+seed)%len(idOrder) == k {
				jobs = append(jobs, job{id, c})
			}
		}
	}
	sort.Slice(jobs, func(i, j int) bool { return jobs[i].c > jobs[j].c }) // big ones first
	ch := make(chan job)
	var wg sync.WaitGroup
	nw := runtime.NumCPU()
	if nw > 12 {
		nw = 12
	}
	for w := 0; w < nw; w++ {
		wg.Add(1)
		go func() {
			defer wg.Done()
			for j := range ch {
				h := hashIDs[j.id]
				count := countTab[j.c]
				pass := toyprim.TPat(5+j.c, (j.c*7+j.id)%101) // passphrases 0..100 octets
				salt := toyprim.TPat(200+j.c+j.id, 8)
				kl := h.Size()
				if j.c < 64 {
					kl = h.Size() + 1 + j.c%h.Size() // two contexts
				}
				if j.c%50 == 7 {
					kl = 64
				}
				label := fmt.Sprintf("roundtrip hash=%d c=%d count=%d pass=%d keylen=%d", j.id, j.c, count, len(pass), kl)
				d := map[string]any{"case": label, "pass": hx(pass), "salt": hx(salt)}
				e.guard("c20-panic", d, func() {
					want := refKey(h, 3, salt, pass, count, kl)
					var w bytes.Buffer
					key1 := make([]byte, kl)
					saltc, passc := append([]byte(nil), salt...), append([]byte(nil), pass...)
					err := s2k.Serialize(&w, key1, &fixedRand{saltc}, passc, &s2k.Config{Hash: h, S2KCount: count})
					wipe(saltc, passc)
					if err != nil {
						d["err"] = err.Error()
						e.fail("c20-serialize-error", "s2k.Serialize failed", d)
						return
					}
					hdr := append([]byte(nil), w.Bytes()...)
					wantHdr := append(append([]byte{3, byte(j.id)}, salt...), byte(j.c))
					if !bytes.Equal(hdr, wantHdr) {
						d["got"], d["want"] = hx(hdr), hx(wantHdr)
						e.fail("c20-serialize-specifier-mismatch", "s2k.Serialize wrote a specifier other than (iterated, hash id, salt, smallest coded count >= S2KCount)", d)
						return
					}
					if !bytes.Equal(key1, want) {
						d["got"], d["want"] = hx(key1), hx(want)
						e.fail("c20-serialize-key-mismatch", "key produced by s2k.Serialize differs from RFC 4880 3.7.1.3 for the specifier it wrote", d)
						return
					}
					f, err := s2k.Parse(bytes.NewReader(hdr))
					wipe(hdr, w.Bytes())
					if err != nil {
						d["err"] = err.Error()
						e.fail("c20-parse-rejects-supported-specifier", "s2k.Parse rejects the specifier written by s2k.Serialize", d)
						return
					}
					key2 := make([]byte, kl)
					// first a throw-away call whose buffers are overwritten, then the judged one
					tmpOut, tmpPass := make([]byte, 5), []byte("other passphrase")
					f(tmpOut, tmpPass)
					wipe(tmpOut, tmpPass)
					f(key2, pass)
					if !bytes.Equal(key2, want) {
						d["got"], d["want"] = hx(key2), hx(want)
						e.fail("c20-parse-key-mismatch", "key derived after Parse differs from RFC 4880 3.7.1.3 (coded count decoding)", d)
					}
				})
				e.kase(label)
			}
		}()
	}
	for _, j := range jobs {
		ch <- j
	}
	close(ch)
	wg.Wait()
	out.Extra["roundtrip_jobs"] = len(jobs)

	// ---- 5. encodeCount probes through Serialize (header only matters; small counts keep it cheap)
	for _, r := range cases {
		if r.T != "counts" {
			continue
		}
		for _, p := range r.Probes {
			if countTab[p.C] > 1<<22 && !vutil.Thorough() {
				continue
			}
			d := map[string]any{"s2kcount": p.S2KCount, "want_c": p.C}
			e.guard("c20-panic", d, func() {
				var w bytes.Buffer
				key := make([]byte, 16)
				salt := toyprim.TPat(9, 8)
				if err := s2k.Serialize(&w, key, &fixedRand{salt}, []byte("pw"), &s2k.Config{Hash: crypto.SHA256, S2KCount: p.S2KCount}); err != nil {
					d["err"] = err.Error()
					e.fail("c20-serialize-error", "s2k.Serialize failed", d)
					return
				}
				hdr := w.Bytes()
				if len(hdr) != 11 || int(hdr[10]) != p.C {
					d["got"] = hx(hdr)
					e.fail("c20-serialize-specifier-mismatch", "s2k.Serialize encoded S2KCount to a different coded count than the smallest one that is >= it", d)
					return
				}
				if want := refKey(crypto.SHA256, 3, salt, []byte("pw"), countTab[p.C], 16); !bytes.Equal(key, want) {
					d["got"], d["want"] = hx(key), hx(want)
					e.fail("c20-serialize-key-mismatch", "key produced by s2k.Serialize differs from RFC 4880 3.7.1.3 for the specifier it wrote", d)
				}
			})
			e.kase(fmt.Sprintf("probe %d", p.S2KCount))
		}
		// nil config: SHA-1, coded count 96
		func() {
			var w bytes.Buffer
			key := make([]byte, 20)
			salt := toyprim.TPat(10, 8)
			d := map[string]any{"case": "nil config"}
			e.guard("c20-panic", d, func() {
				if err := s2k.Serialize(&w, key, &fixedRand{salt}, []byte("x"), nil); err != nil {
					return
				}
				f, err := s2k.Parse(bytes.NewReader(w.Bytes()))
				if err != nil {
					d["err"] = err.Error()
					e.fail("c20-parse-rejects-supported-specifier", "s2k.Parse rejects the specifier written by s2k.Serialize(nil config)", d)
					return
				}
				k2 := make([]byte, 20)
				f(k2, []byte("x"))
				if !bytes.Equal(k2, key) {
					e.fail("c20-parse-key-mismatch", "Serialize(nil config) output does not parse back to the same function", d)
				}
			})
			e.kase("nil config")
		}()
	}

	// ---- 6. Parse outcome on specifier samples: supported specifiers must be accepted (verdict);
	// rejection classes for unsupported/short input are informational
	dev := []string{}
	for _, r := range cases {
		if r.T != "specs" {
			continue
		}
		for _, s := range r.Specs {
			b := tb(s.B)
			var err error
			panicked := false
			func() {
				defer func() {
					if recover() != nil {
						panicked = true
					}
				}()
				_, err = s2k.Parse(bytes.NewReader(b))
			}()
			switch {
			case s.Out == "ok" && (err != nil || panicked):
				e.fail("c20-parse-rejects-supported-specifier", "s2k.Parse rejects a supported specifier", map[string]any{"spec": hx(b), "err": fmt.Sprint(err), "panic": panicked})
			case s.Out != "ok" && err == nil:
				dev = append(dev, fmt.Sprintf("%s (%s) accepted", hx(b), s.Out))
			case panicked:
				dev = append(dev, fmt.Sprintf("%s (%s) panicked", hx(b), s.Out))
			}
			e.kase("spec " + hx(b))
		}
	}
	out.Extra["informational"] = map[string]any{"parse_outcome_deviations_on_unsupported_or_short_specifiers": dev}
}
