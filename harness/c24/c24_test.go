// Binding E+R for C24: the byte strings TLC evaluated from spec/SSHWire.tla (PrimSSHEnc encoders) are
// compared with the real ssh.Marshal for every message struct of messages.go and ad hoc structs;
// Unmarshal(Marshal(m)) must reproduce m; every mutant (truncations, trailing bytes, wrong type,
// corrupted length fields) goes through the real Unmarshal and decode, whose accept/reject (and value)
// must match the model and which must never panic.  The signature table of the spec is
// cross-checked against the Go structs by reflection first (mismatch = infrastructure failure).
package c24

import (
	"bytes"
	"encoding/json"
	"fmt"
	"go/ast"
	"go/parser"
	"go/token"
	"math/big"
	"path/filepath"
	"reflect"
	"sort"
	"strconv"
	"strings"
	"testing"

	"golang.org/x/crypto/ssh"
	"verif/harness/vutil"
)

// ad hoc structs, mirrored by AdHocTable in spec/SSHWire.tla
type adhocAll struct {
	B uint8 `sshtype:"200"`
	F bool
	U uint32
	V uint64
	S string
	D []byte
	A [4]byte
	N []string
	I *big.Int
	R []byte `ssh:"rest"`
}
type adhocNoTag struct {
	U uint32
	S string
}
type adhocMulti struct {
	S string `sshtype:"202|203"`
}
type adhocMpints struct {
	X *big.Int `sshtype:"201"`
	Y *big.Int
	Z uint8
}

var adhoc = map[string]interface{}{
	"adhocAll": new(adhocAll), "adhocNoTag": new(adhocNoTag), "adhocMulti": new(adhocMulti), "adhocMpints": new(adhocMpints),
}

type sig struct {
	Types  []int    `json:"types"`
	Fields []string `json:"fields"`
}

type mutant struct {
	M    string            `json:"m"`
	A    int               `json:"a"`
	B    []int             `json:"b"`
	Ok   bool              `json:"ok"`
	Vals []json.RawMessage `json:"vals"`
}

type tcase struct {
	Table   map[string]sig    `json:"table"`
	Decode  [][]any           `json:"decode"`
	Name    string            `json:"name"`
	Vals    []json.RawMessage `json:"vals"`
	Wire    []int             `json:"wire"`
	RestOff int               `json:"restOff"`
	Muts    []mutant          `json:"muts"`
	DecOwn  bool              `json:"decOwn"`
	Dec     struct {
		Ok   bool              `json:"ok"`
		Name string            `json:"name"`
		Vals []json.RawMessage `json:"vals"`
	} `json:"dec"`
}

var bigIntType = reflect.TypeOf((*big.Int)(nil))

func protos() map[string]interface{} {
	m := map[string]interface{}{}
	for k, v := range ssh.VerifMsgPrototypes() {
		m[k] = v
	}
	for k, v := range adhoc {
		m[k] = v
	}
	return m
}

// kindType maps a field kind of the specification to a Go type.
func kindType(k string) (reflect.Type, reflect.StructTag, error) {
	switch k {
	case "byte":
		return reflect.TypeOf(uint8(0)), "", nil
	case "bool":
		return reflect.TypeOf(false), "", nil
	case "u32":
		return reflect.TypeOf(uint32(0)), "", nil
	case "u64":
		return reflect.TypeOf(uint64(0)), "", nil
	case "string":
		return reflect.TypeOf(""), "", nil
	case "bytes":
		return reflect.TypeOf([]byte(nil)), "", nil
	case "rest":
		return reflect.TypeOf([]byte(nil)), `ssh:"rest"`, nil
	case "namelist":
		return reflect.TypeOf([]string(nil)), "", nil
	case "mpint":
		return bigIntType, "", nil
	}
	if strings.HasPrefix(k, "arr") {
		if n, err := strconv.Atoi(k[3:]); err == nil && n > 0 {
			return reflect.ArrayOf(n, reflect.TypeOf(uint8(0))), "", nil
		}
	}
	return nil, "", fmt.Errorf("unknown field kind %q", k)
}

// shapeProto builds, with reflect.StructOf, the struct of a position-complete shape of the specification
// (ShapeTable in spec/SSHWire.tla): fields F0..Fn of the given kinds, sshtype tag on the first field.
func shapeProto(s sig) (interface{}, error) {
	var fs []reflect.StructField
	for i, k := range s.Fields {
		t, tag, err := kindType(k)
		if err != nil {
			return nil, err
		}
		if i == 0 && len(s.Types) > 0 {
			parts := make([]string, len(s.Types))
			for j, x := range s.Types {
				parts[j] = strconv.Itoa(x)
			}
			if tag != "" {
				tag += " "
			}
			tag += reflect.StructTag(`sshtype:"` + strings.Join(parts, "|") + `"`)
		}
		fs = append(fs, reflect.StructField{Name: fmt.Sprintf("F%d", i), Type: t, Tag: tag})
	}
	return reflect.New(reflect.StructOf(fs)).Interface(), nil
}

func goSig(t reflect.Type) (sig, error) {
	s := sig{Types: []int{}, Fields: []string{}}
	if t.NumField() > 0 {
		for _, x := range strings.Split(t.Field(0).Tag.Get("sshtype"), "|") {
			if n, err := strconv.Atoi(x); err == nil {
				s.Types = append(s.Types, n)
			}
		}
	}
	for i := 0; i < t.NumField(); i++ {
		f := t.Field(i)
		var k string
		switch f.Type.Kind() {
		case reflect.Uint8:
			k = "byte"
		case reflect.Bool:
			k = "bool"
		case reflect.Uint32:
			k = "u32"
		case reflect.Uint64:
			k = "u64"
		case reflect.String:
			k = "string"
		case reflect.Slice:
			switch f.Type.Elem().Kind() {
			case reflect.Uint8:
				if f.Tag.Get("ssh") == "rest" {
					k = "rest"
				} else {
					k = "bytes"
				}
			case reflect.String:
				k = "namelist"
			}
		case reflect.Ptr:
			if f.Type == bigIntType {
				k = "mpint"
			}
		case reflect.Array:
			if f.Type.Elem().Kind() == reflect.Uint8 {
				k = fmt.Sprintf("arr%d", f.Type.Len())
			}
		}
		if k == "" {
			return s, fmt.Errorf("field %s of %s has a kind the specification does not know: %v", f.Name, t.Name(), f.Type)
		}
		s.Fields = append(s.Fields, k)
	}
	return s, nil
}

// struct type names declared in ssh/messages.go
func declaredStructs() ([]string, error) {
	path := filepath.Join(vutil.Env("VERIF_REPO", "/repo"), "ssh", "messages.go")
	f, err := parser.ParseFile(token.NewFileSet(), path, nil, 0)
	if err != nil {
		return nil, err
	}
	var out []string
	for _, d := range f.Decls {
		g, ok := d.(*ast.GenDecl)
		if !ok || g.Tok != token.TYPE {
			continue
		}
		for _, s := range g.Specs {
			ts := s.(*ast.TypeSpec)
			if _, ok := ts.Type.(*ast.StructType); ok {
				out = append(out, ts.Name.Name)
			}
		}
	}
	sort.Strings(out)
	return out, nil
}

func crossCheck(table map[string]sig, ps map[string]interface{}) error {
	shapes := 0
	for n, sg := range table {
		if strings.HasPrefix(n, "shape_") {
			p, err := shapeProto(sg)
			if err != nil {
				return err
			}
			ps[n] = p
			shapes++
		}
	}
	decl, err := declaredStructs()
	if err != nil {
		return err
	}
	for _, n := range decl {
		if _, ok := ps[n]; !ok {
			return fmt.Errorf("struct %s of messages.go is missing from the verif hook VerifMsgPrototypes", n)
		}
		if _, ok := table[n]; !ok {
			return fmt.Errorf("struct %s of messages.go is missing from MsgTable in spec/SSHWire.tla", n)
		}
	}
	if len(decl)+len(adhoc)+shapes != len(table) || len(ps) != len(table) {
		return fmt.Errorf("MsgTable has %d entries, messages.go declares %d structs (+%d ad hoc, %d shapes), hook returns %d", len(table), len(decl), len(adhoc), shapes, len(ps)-len(adhoc)-shapes)
	}
	for n, p := range ps {
		want, ok := table[n]
		if !ok {
			return fmt.Errorf("%s not in the specification's table", n)
		}
		got, err := goSig(reflect.TypeOf(p).Elem())
		if err != nil {
			return err
		}
		if !reflect.DeepEqual(got, want) {
			return fmt.Errorf("signature of %s: Go struct %+v, specification %+v", n, got, want)
		}
	}
	return nil
}

func ints2bytes(x []int) []byte {
	out := make([]byte, len(x))
	for i, v := range x {
		out[i] = byte(v)
	}
	return out
}

func rawBytes(r json.RawMessage) ([]byte, error) {
	var x []int
	if err := json.Unmarshal(r, &x); err != nil {
		return nil, err
	}
	return ints2bytes(x), nil
}

// canonical textual form of one field value given in the model's JSON representation
func canonModel(kind string, r json.RawMessage) (string, error) {
	switch kind {
	case "byte":
		var n int
		err := json.Unmarshal(r, &n)
		return fmt.Sprintf("%d", n), err
	case "bool":
		var b bool
		err := json.Unmarshal(r, &b)
		return fmt.Sprintf("%v", b), err
	case "u32", "u64":
		var l []uint64
		if err := json.Unmarshal(r, &l); err != nil {
			return "", err
		}
		var v uint64
		for _, x := range l {
			v = v<<16 | x
		}
		return fmt.Sprintf("%d", v), nil
	case "namelist":
		var l [][]int
		if err := json.Unmarshal(r, &l); err != nil {
			return "", err
		}
		parts := make([]string, len(l))
		for i, x := range l {
			parts[i] = fmt.Sprintf("%x", ints2bytes(x))
		}
		return "[" + strings.Join(parts, " ") + "]", nil
	case "mpint":
		var m struct {
			Neg bool  `json:"neg"`
			Mag []int `json:"mag"`
		}
		if err := json.Unmarshal(r, &m); err != nil {
			return "", err
		}
		v := new(big.Int).SetBytes(ints2bytes(m.Mag))
		if m.Neg {
			v.Neg(v)
		}
		return v.String(), nil
	default:
		b, err := rawBytes(r)
		return fmt.Sprintf("%x", b), err
	}
}

func canonGo(kind string, f reflect.Value) string {
	switch kind {
	case "byte", "u32", "u64":
		return fmt.Sprintf("%d", f.Uint())
	case "bool":
		return fmt.Sprintf("%v", f.Bool())
	case "string":
		return fmt.Sprintf("%x", []byte(f.String()))
	case "namelist":
		parts := make([]string, f.Len())
		for i := range parts {
			parts[i] = fmt.Sprintf("%x", []byte(f.Index(i).String()))
		}
		return "[" + strings.Join(parts, " ") + "]"
	case "mpint":
		if f.IsNil() {
			return "<nil>"
		}
		return f.Interface().(*big.Int).String()
	case "bytes", "rest":
		return fmt.Sprintf("%x", f.Bytes())
	default:
		b := make([]byte, f.Len())
		for i := range b {
			b[i] = byte(f.Index(i).Uint())
		}
		return fmt.Sprintf("%x", b)
	}
}

func canonStruct(s sig, v reflect.Value) []string {
	out := make([]string, len(s.Fields))
	for i, k := range s.Fields {
		out[i] = canonGo(k, v.Field(i))
	}
	return out
}

func canonVals(s sig, vals []json.RawMessage) ([]string, error) {
	if len(vals) != len(s.Fields) {
		return nil, fmt.Errorf("model gives %d values for %d fields", len(vals), len(s.Fields))
	}
	out := make([]string, len(vals))
	for i, k := range s.Fields {
		c, err := canonModel(k, vals[i])
		if err != nil {
			return nil, err
		}
		out[i] = c
	}
	return out, nil
}

// build a Go struct from the model's values
func build(t reflect.Type, s sig, vals []json.RawMessage) (reflect.Value, error) {
	v := reflect.New(t).Elem()
	for i, k := range s.Fields {
		f := v.Field(i)
		switch k {
		case "byte":
			var n uint64
			if err := json.Unmarshal(vals[i], &n); err != nil {
				return v, err
			}
			f.SetUint(n)
		case "bool":
			var b bool
			if err := json.Unmarshal(vals[i], &b); err != nil {
				return v, err
			}
			f.SetBool(b)
		case "u32", "u64":
			var l []uint64
			if err := json.Unmarshal(vals[i], &l); err != nil {
				return v, err
			}
			var n uint64
			for _, x := range l {
				n = n<<16 | x
			}
			f.SetUint(n)
		case "string":
			b, err := rawBytes(vals[i])
			if err != nil {
				return v, err
			}
			f.SetString(string(b))
		case "bytes", "rest":
			b, err := rawBytes(vals[i])
			if err != nil {
				return v, err
			}
			f.SetBytes(b)
		case "namelist":
			var l [][]int
			if err := json.Unmarshal(vals[i], &l); err != nil {
				return v, err
			}
			nl := make([]string, len(l))
			for j, x := range l {
				nl[j] = string(ints2bytes(x))
			}
			f.Set(reflect.ValueOf(nl))
		case "mpint":
			var m struct {
				Neg bool  `json:"neg"`
				Mag []int `json:"mag"`
			}
			if err := json.Unmarshal(vals[i], &m); err != nil {
				return v, err
			}
			n := new(big.Int).SetBytes(ints2bytes(m.Mag))
			if m.Neg {
				n.Neg(n)
			}
			f.Set(reflect.ValueOf(n))
		default: // arrN
			b, err := rawBytes(vals[i])
			if err != nil {
				return v, err
			}
			for j := range b {
				f.Index(j).SetUint(uint64(b[j]))
			}
		}
	}
	return v, nil
}

func safeUnmarshal(data []byte, out interface{}) (err error, pan string) {
	defer func() {
		if r := recover(); r != nil {
			pan = fmt.Sprint(r)
		}
	}()
	return ssh.Unmarshal(data, out), ""
}

func safeDecode(data []byte) (msg interface{}, err error, pan string) {
	defer func() {
		if r := recover(); r != nil {
			pan = fmt.Sprint(r)
		}
	}()
	msg, err = ssh.VerifMsgDecode(data)
	return
}

func safeMarshal(m interface{}) (out []byte, pan string) {
	defer func() {
		if r := recover(); r != nil {
			pan = fmt.Sprint(r)
		}
	}()
	return ssh.Marshal(m), ""
}

func applyMut(w []byte, m mutant) []byte {
	switch m.M {
	case "trunc":
		return append([]byte(nil), w[:m.A]...)
	case "trail":
		return append(append([]byte(nil), w...), ints2bytes(m.B)...)
	case "type":
		out := append([]byte(nil), w...)
		out[0] = byte(m.A)
		return out
	default:
		out := append([]byte(nil), w...)
		copy(out[m.A:], ints2bytes(m.B))
		return out
	}
}

type runner struct {
	t        *testing.T
	out      *vutil.Out
	sigCount map[string]int
}

func (r *runner) viol(sig, what string, detail map[string]any) {
	r.sigCount[sig]++
	if r.sigCount[sig] > 3 {
		return
	}
	r.out.Violation(sig, what, detail)
	r.t.Errorf("%s: %s %v", sig, what, detail)
}

func typeName(x interface{}) string {
	if x == nil {
		return ""
	}
	t := reflect.TypeOf(x)
	for t.Kind() == reflect.Ptr {
		t = t.Elem()
	}
	return t.Name()
}

func TestReplay(t *testing.T) {
	out := vutil.NewOut()
	defer func() {
		if err := out.Write(); err != nil {
			t.Fatal(err)
		}
	}()
	r := &runner{t: t, out: out, sigCount: map[string]int{}}
	ps := protos()
	var table map[string]sig
	var pending [][]byte
	mutN, truncN := 0, 0
	// vacuity guard: (field kind, position) pairs whose round trip ran, and for the kind in LAST position the
	// three boundary inputs: exactly enough bytes / one byte short / one byte extra
	cover := map[string]int{}
	process := func(line []byte) error {
		var c tcase
		if err := json.Unmarshal(line, &c); err != nil {
			return err
		}
		s, ok := table[c.Name]
		if !ok {
			return fmt.Errorf("case for unknown message %q", c.Name)
		}
		typ := reflect.TypeOf(ps[c.Name]).Elem()
		v, err := build(typ, s, c.Vals)
		if err != nil {
			return err
		}
		want, err := canonVals(s, c.Vals)
		if err != nil {
			return err
		}
		key := c.Name + "|" + strings.Join(want, ",")
		out.Case(key)
		detail := func(extra map[string]any) map[string]any {
			d := map[string]any{"message": c.Name, "values": want, "case": json.RawMessage(append([]byte(nil), line...))}
			for k, x := range extra {
				d[k] = x
			}
			return d
		}
		wire := ints2bytes(c.Wire)
		// E: Marshal equals the bytes TLC evaluated (pointer and value receivers)
		got, pan := safeMarshal(v.Addr().Interface())
		if pan != "" {
			r.viol("c24-marshal-panic", "Marshal panicked", detail(map[string]any{"panic": pan}))
			return nil
		}
		if !bytes.Equal(got, wire) {
			r.viol("c24-marshal-bytes", "Marshal output differs from the RFC 4251 encoding evaluated by TLC", detail(map[string]any{"got": fmt.Sprintf("%x", got), "want": fmt.Sprintf("%x", wire)}))
			return nil
		}
		if got2, _ := safeMarshal(v.Interface()); !bytes.Equal(got2, wire) {
			r.viol("c24-marshal-bytes", "Marshal of the struct value differs from Marshal of the pointer", detail(nil))
		}
		// R: Unmarshal(Marshal(m)) = m
		back := reflect.New(typ)
		if err, pan := safeUnmarshal(got, back.Interface()); err != nil || pan != "" {
			r.viol("c24-roundtrip", "Unmarshal(Marshal(m)) failed", detail(map[string]any{"error": fmt.Sprint(err), "panic": pan}))
		} else if gotv := canonStruct(s, back.Elem()); !reflect.DeepEqual(gotv, canonStruct(s, v)) || !reflect.DeepEqual(gotv, want) {
			r.viol("c24-roundtrip", "Unmarshal(Marshal(m)) differs from m", detail(map[string]any{"got": gotv}))
		}
		// decode of the marshaled packet
		msg, derr, pan := safeDecode(wire)
		if pan != "" {
			r.viol("c24-decode-panic", "decode panicked on a marshaled message", detail(map[string]any{"panic": pan}))
		} else if (derr == nil) != c.Dec.Ok {
			r.viol("c24-decode-accept", fmt.Sprintf("decode accept=%v, model %v", derr == nil, c.Dec.Ok), detail(map[string]any{"error": fmt.Sprint(derr)}))
		} else if derr == nil {
			if typeName(msg) != c.Dec.Name {
				r.viol("c24-decode-dispatch", fmt.Sprintf("decode returned %s, the specification's table says %s", typeName(msg), c.Dec.Name), detail(nil))
			} else {
				ds := table[c.Dec.Name]
				wv, err := canonVals(ds, c.Dec.Vals)
				if err != nil {
					return err
				}
				if gv := canonStruct(ds, reflect.ValueOf(msg).Elem()); !reflect.DeepEqual(gv, wv) {
					r.viol("c24-decode-value", "decode returned different field values than the model", detail(map[string]any{"got": gv, "want": wv}))
				}
			}
		}
		nf := len(s.Fields)
		for i, k := range s.Fields {
			if i == 0 {
				cover[k+"|first"]++
			}
			if i == nf-1 {
				cover[k+"|last"]++
				cover[k+"|last|exact"]++
			}
			if i > 0 && i < nf-1 {
				cover[k+"|middle"]++
			}
		}
		// mutants with the model's prediction
		for _, m := range c.Muts {
			mutN++
			if nf > 0 {
				if m.M == "trail" && m.A == 1 {
					cover[s.Fields[nf-1]+"|last|extra"]++
				}
				if m.M == "trunc" && m.A == len(wire)-1 {
					cover[s.Fields[nf-1]+"|last|short"]++
				}
			}
			data := applyMut(wire, m)
			dst := reflect.New(typ)
			err, pan := safeUnmarshal(data, dst.Interface())
			md := map[string]any{"mutant": map[string]any{"m": m.M, "a": m.A, "b": m.B}, "data": fmt.Sprintf("%x", data)}
			if pan != "" {
				md["panic"] = pan
				r.viol("c24-unmarshal-panic", "Unmarshal panicked on a mutated message", detail(md))
				continue
			}
			if (err == nil) != m.Ok {
				md["error"] = fmt.Sprint(err)
				r.viol("c24-mutant-accept:"+m.M, fmt.Sprintf("Unmarshal accept=%v on a %s mutant, model %v", err == nil, m.M, m.Ok), detail(md))
				continue
			}
			if err == nil {
				wv, cerr := canonVals(s, m.Vals)
				if cerr != nil {
					return cerr
				}
				if gv := canonStruct(s, dst.Elem()); !reflect.DeepEqual(gv, wv) {
					md["got"], md["want"] = gv, wv
					r.viol("c24-mutant-value", "Unmarshal of an accepted mutant returned different values than the model", detail(md))
				}
			}
			dmsg, derr, pan := safeDecode(data)
			if pan != "" && len(data) > 0 {
				md["panic"] = pan
				r.viol("c24-decode-panic", "decode panicked on a mutated message", detail(md))
			} else if pan == "" && c.DecOwn && m.M != "type" && len(data) > 0 {
				if (derr == nil) != m.Ok || (derr == nil && typeName(dmsg) != c.Name) {
					md["error"] = fmt.Sprint(derr)
					r.viol("c24-decode-accept", fmt.Sprintf("decode accept=%v on a %s mutant, model %v", derr == nil, m.M, m.Ok), detail(md))
				}
			}
		}
		// every truncation, judged by TruncRule (checked by TLC on the sampled lengths)
		for k := 0; k < len(wire); k++ {
			truncN++
			dst := reflect.New(typ)
			err, pan := safeUnmarshal(wire[:k:k], dst.Interface())
			wantOk := c.RestOff >= 0 && k >= c.RestOff && k >= 1
			if pan != "" {
				r.viol("c24-unmarshal-panic", "Unmarshal panicked on a truncated message", detail(map[string]any{"k": k, "panic": pan}))
			} else if (err == nil) != wantOk {
				r.viol("c24-mutant-accept:trunc", fmt.Sprintf("Unmarshal accept=%v on truncation to %d bytes, model %v", err == nil, k, wantOk), detail(map[string]any{"k": k}))
			}
		}
		out.Sample(map[string]any{"message": c.Name, "values": want, "wire": fmt.Sprintf("%x", wire)})
		return nil
	}
	err := vutil.ReadNDJSON(vutil.Env("VERIF_CASES", ""), func(line []byte) error {
		if table == nil {
			var c tcase
			if err := json.Unmarshal(line, &c); err != nil {
				return err
			}
			if c.Table != nil {
				table = c.Table
				if err := crossCheck(table, ps); err != nil {
					return fmt.Errorf("SIGNATURE TABLE MISMATCH (infrastructure, not a verdict): %w", err)
				}
				// decode dispatch: types outside the specification's DecodeTable must be rejected
				known := map[int]bool{}
				for _, p := range c.Decode {
					known[int(p[0].(float64))] = true
				}
				for ty := 0; ty < 256; ty++ {
					if known[ty] {
						continue
					}
					for _, pkt := range [][]byte{{byte(ty)}, {byte(ty), 0, 0, 0, 0}, {byte(ty), 0, 0, 0, 1, 65}} {
						out.Case("")
						if _, err, pan := safeDecode(pkt); pan != "" || err == nil {
							r.viol("c24-decode-dispatch", fmt.Sprintf("decode accepted or panicked on message type %d which is not in the specification's decode table", ty), map[string]any{"packet": fmt.Sprintf("%x", pkt), "panic": pan})
						}
					}
				}
				for _, l := range pending {
					if err := process(l); err != nil {
						return err
					}
				}
				pending = nil
				return nil
			}
			pending = append(pending, append([]byte(nil), line...))
			return nil
		}
		return process(line)
	})
	if err != nil {
		t.Fatal(err)
	}
	if table == nil {
		t.Fatal("no signature table among the cases")
	}
	// fixed probes of the clauses the case generator cannot express
	out.Case("decode|empty")
	if _, err, pan := safeDecode([]byte{}); pan != "" {
		r.viol("decode-empty-packet-panics", "decode panics on the empty byte string (index out of range) instead of returning an error", map[string]any{"panic": pan})
	} else if err == nil {
		r.viol("c24-decode-accept", "decode accepted the empty packet", nil)
	}
	out.Case("decode|52")
	if m, err, pan := safeDecode([]byte{52}); pan != "" || err != nil || typeName(m) != "userAuthSuccessMsg" {
		r.viol("c24-decode-accept", "decode rejected SSH_MSG_USERAUTH_SUCCESS", map[string]any{"error": fmt.Sprint(err), "panic": pan})
	}
	out.Case("decode|52+trailing")
	if _, err, pan := safeDecode([]byte{52, 0}); pan != "" {
		r.viol("c24-decode-panic", "decode panicked", map[string]any{"panic": pan})
	} else if err == nil {
		r.viol("decode-userauth-success-trailing-bytes-accepted", "decode accepts SSH_MSG_USERAUTH_SUCCESS (type 52, no fields) followed by trailing bytes", map[string]any{"packet": "3400"})
	}
	out.Case("codec|zero-field struct")
	empty := ps["userAuthSuccessMsg"]
	_, pan1 := safeMarshal(empty)
	_, pan2 := safeUnmarshal([]byte{52}, reflect.New(reflect.TypeOf(empty).Elem()).Interface())
	if pan1 != "" || pan2 != "" {
		r.viol("codec-zero-field-struct-panics", "Marshal/Unmarshal panic (reflect: Field index out of bounds in typeTags) for userAuthSuccessMsg, the message struct of messages.go that has no fields", map[string]any{"marshal": pan1, "unmarshal": pan2})
	}
	out.Extra["c24_kind_position_cover"] = cover
	out.Extra["c24_mutants"] = mutN
	out.Extra["c24_truncations"] = truncN
	for k, n := range r.sigCount {
		out.Extra["c24_violations_"+k] = n
	}
}

// TestSmoke: seeded random and mutated byte strings into Unmarshal (every struct) and decode; only
// panic-freedom is judged.  Exploration, not proof: totality over all byte strings is not decidable here.
func TestSmoke(t *testing.T) {
	out := vutil.NewOut()
	defer func() {
		if err := out.Write(); err != nil {
			t.Fatal(err)
		}
	}()
	r := &runner{t: t, out: out, sigCount: map[string]int{}}
	n, _ := strconv.Atoi(vutil.Env("VERIF_C24_SMOKE", "20000"))
	rnd := vutil.Rand(24)
	ps := protos()
	names := make([]string, 0, len(ps))
	for k := range ps {
		if k != "userAuthSuccessMsg" {
			names = append(names, k)
		}
	}
	sort.Strings(names)
	types := map[string][]int{}
	for _, k := range names {
		s, _ := goSig(reflect.TypeOf(ps[k]).Elem())
		types[k] = s.Types
	}
	accepted := 0
	for i := 0; i < n; i++ {
		ln := rnd.Intn(80)
		if rnd.Intn(8) == 0 {
			ln = rnd.Intn(600)
		}
		data := make([]byte, ln)
		rnd.Read(data)
		// bias: small length fields so that parsing gets deep
		for j := 0; j+4 <= len(data); j++ {
			if rnd.Intn(6) == 0 {
				data[j], data[j+1], data[j+2] = 0, 0, 0
				data[j+3] = byte(rnd.Intn(12))
			}
		}
		name := names[rnd.Intn(len(names))]
		if len(data) > 0 && len(types[name]) > 0 && rnd.Intn(4) != 0 {
			data[0] = byte(types[name][0])
		}
		out.Case("")
		dst := reflect.New(reflect.TypeOf(ps[name]).Elem())
		err, pan := safeUnmarshal(data, dst.Interface())
		if pan != "" {
			r.viol("c24-unmarshal-panic", "Unmarshal panicked on a random byte string", map[string]any{"message": name, "data": fmt.Sprintf("%x", data), "panic": pan})
		}
		if err == nil && pan == "" {
			accepted++
			// accepted inputs must survive a re-marshal/unmarshal cycle
			again, pan := safeMarshal(dst.Interface())
			if pan != "" {
				r.viol("c24-marshal-panic", "Marshal panicked on an unmarshaled value", map[string]any{"message": name, "data": fmt.Sprintf("%x", data), "panic": pan})
			} else {
				dst2 := reflect.New(dst.Elem().Type())
				if err, pan := safeUnmarshal(again, dst2.Interface()); err != nil || pan != "" {
					r.viol("c24-roundtrip", "Unmarshal(Marshal(Unmarshal(x))) failed", map[string]any{"message": name, "data": fmt.Sprintf("%x", data)})
				}
			}
		}
		if len(data) > 0 {
			if _, _, pan := safeDecode(data); pan != "" {
				r.viol("c24-decode-panic", "decode panicked on a random byte string", map[string]any{"data": fmt.Sprintf("%x", data), "panic": pan})
			}
		}
	}
	out.Extra["c24_smoke_inputs"] = n
	out.Extra["c24_smoke_accepted"] = accepted
}
