// Binding R for C07 (hash state marshaling is transparent and rejects corrupt states).
//
// (a) Transparency.  Call histories enumerated by TLC from spec/Blake2Buf.tla (instances b0, s0, b1, s1 at
// the real block sizes; ops Write/Sum/Reset/MarshalBinary/UnmarshalBinary-into-a-fresh-hash) and from
// spec/C07Keccak.tla (k256, k512 at the real rates; plus Read through io.Reader) are replayed on the real
// blake2b / blake2s / sha3.NewLegacyKeccak256/512 hashes.  After every UnmarshalBinary the restored hash is
// compared, call by call, with a "twin": a real hash of the same kind that never went through marshaling and
// was fed the bytes the original had absorbed when MarshalBinary was called.  No byte oracle is involved.
// In addition every history is re-run with a MarshalBinary/UnmarshalBinary round trip inserted after every
// call and must end in the same digest.
// (b) Corruption.  For every (size, offset) / (rate, n, direction) boundary combination printed by
// spec/C07Fields.tla (VERIF_C07_FIELDS) the bytes are planted into valid marshaled states; further every
// byte of the free fields takes the boundary values, magic and length are damaged, and seeded random
// strings are tried.  UnmarshalBinary must return an error or yield a state on which Write(1), Write(200),
// Sum, Reset do not panic (the documented "after Read" panics of a squeezing Keccak state excepted).
package c07

import (
	"bytes"
	"encoding"
	"encoding/hex"
	"encoding/json"
	"fmt"
	"hash"
	"io"
	"os"
	"runtime"
	"strconv"
	"testing"

	"golang.org/x/crypto/blake2b"
	"golang.org/x/crypto/blake2s"
	"golang.org/x/crypto/sha3"
	"verif/harness/c03ref"
	"verif/harness/vutil"
)

type histCase struct {
	W string  `json:"w"`
	H [][]int `json:"h"`
}

type fieldCase struct {
	Alg    string `json:"alg"`
	F1     int    `json:"f1"`
	F2     int    `json:"f2"`
	F3     int    `json:"f3"`
	Accept bool   `json:"accept"`
	Write  string `json:"write"`
	Sum    string `json:"sum"`
}

type env struct {
	t     *testing.T
	out   *vutil.Out
	nviol int
	info  map[string]int
	bySig map[string]int
}

// at most 3 violations per signature are recorded (vutil.Out keeps 50 in all): every signature gets its turn
func (e *env) fail(sig, what string, d map[string]any) {
	e.nviol++
	if e.bySig == nil {
		e.bySig = map[string]int{}
	}
	e.bySig[sig]++
	if e.bySig[sig] > 3 {
		return
	}
	e.out.Violation(sig, what, d)
	if e.nviol <= 20 {
		e.t.Errorf("%s: %s %v", sig, what, d)
	}
}

func hx(b []byte) string {
	if len(b) > 80 {
		b = b[:80]
	}
	return hex.EncodeToString(b)
}

// kind: "b2b", "b2s", "k256", "k512"
func newHash(kind string, size int, key []byte) hash.Hash {
	var h hash.Hash
	var err error
	switch kind {
	case "b2b":
		h, err = blake2b.New(size, key)
	case "b2s":
		if size == 16 {
			h, err = blake2s.New128(key)
		} else {
			h, err = blake2s.New256(key)
		}
	case "k256":
		h = sha3.NewLegacyKeccak256()
	case "k512":
		h = sha3.NewLegacyKeccak512()
	}
	if err != nil || h == nil {
		panic(fmt.Sprintf("cannot create %s size %d keylen %d: %v", kind, size, len(key), err))
	}
	return h
}

func pkgName(kind string) string {
	return map[string]string{"b2b": "blake2b", "b2s": "blake2s", "k256": "keccak256", "k512": "keccak512"}[kind]
}

type callResult struct {
	panicked bool
	pv       any
	out      []byte
	n        int
}

func (r callResult) same(o callResult) bool {
	return r.panicked == o.panicked && r.n == o.n && bytes.Equal(r.out, o.out) && fmt.Sprint(r.pv) == fmt.Sprint(o.pv)
}

func call(f func() ([]byte, int)) (r callResult) {
	defer func() {
		if v := recover(); v != nil {
			r.panicked, r.pv = true, v
		}
	}()
	r.out, r.n = f()
	return
}

func doWrite(h hash.Hash, p []byte) callResult {
	return call(func() ([]byte, int) { n, _ := h.Write(p); return nil, n })
}
func doSum(h hash.Hash) callResult {
	return call(func() ([]byte, int) { return h.Sum([]byte{7}), 0 })
}
func doReset(h hash.Hash) callResult { return call(func() ([]byte, int) { h.Reset(); return nil, 0 }) }
func doRead(h hash.Hash, k int) callResult {
	return call(func() ([]byte, int) {
		buf := make([]byte, k)
		n, _ := h.(io.Reader).Read(buf)
		return buf, n
	})
}

func marshal(h hash.Hash) ([]byte, error) {
	m, ok := h.(encoding.BinaryMarshaler)
	if !ok {
		return nil, fmt.Errorf("not a BinaryMarshaler")
	}
	return m.MarshalBinary()
}

func unmarshal(h hash.Hash, b []byte) (err error, pv any) {
	defer func() {
		if v := recover(); v != nil {
			pv = v
		}
	}()
	u, ok := h.(encoding.BinaryUnmarshaler)
	if !ok {
		return fmt.Errorf("not a BinaryUnmarshaler"), nil
	}
	return u.UnmarshalBinary(b), nil
}

func pat(seed, from, n int) []byte {
	b := make([]byte, n)
	for i := range b {
		b[i] = c03ref.PatByte(seed, from+i)
	}
	return b
}

// ---------------------------------------------------------------- (a) transparency

// one BLAKE2 history; everywhere: additionally round-trip through Marshal/Unmarshal after every call
func (e *env) blakeHistory(hc *histCase, size int, key []byte, idx int) {
	kind := "b2" + hc.W[:1]
	d := func(step int) map[string]any {
		return map[string]any{"kind": pkgName(kind), "size": size, "klen": len(key), "history": hc.H, "step": step}
	}
	obj := newHash(kind, size, key)
	shadow := newHash(kind, size, key) // same calls, but a round trip after every call
	var twin hash.Hash
	var saved, savedMsg, msg []byte
	seed, pos := 23+idx%5, 0
	roundTrip := func(step int) bool {
		if len(key) > 0 {
			return true
		}
		b, err := marshal(shadow)
		if err != nil {
			x := d(step)
			x["err"] = err.Error()
			e.fail("c07-marshal-fails:"+pkgName(kind), "MarshalBinary of an unkeyed hash failed", x)
			return false
		}
		fresh := newHash(kind, size, key)
		if err, pv := unmarshal(fresh, b); err != nil || pv != nil {
			x := d(step)
			x["err"], x["panic"], x["state"] = fmt.Sprint(err), fmt.Sprint(pv), hx(b)
			e.fail("c07-unmarshal-rejects-marshaled-state:"+pkgName(kind), "UnmarshalBinary rejected the bytes MarshalBinary produced", x)
			return false
		}
		shadow = fresh
		return true
	}
	cmp := func(step int, what string, a, b callResult) bool {
		if !a.same(b) {
			x := d(step)
			x["call"], x["restored"], x["original"] = what, fmt.Sprintf("panic=%v %v out=%s", a.panicked, a.pv, hx(a.out)), fmt.Sprintf("panic=%v %v out=%s", b.panicked, b.pv, hx(b.out))
			e.fail("c07-transparency:"+pkgName(kind), "after MarshalBinary/UnmarshalBinary the hash behaves differently from one that never was marshaled", x)
			return false
		}
		return true
	}
	for i, op := range hc.H {
		switch op[0] {
		case 0:
			p := pat(seed, pos, op[1])
			pos += op[1]
			msg = append(msg, p...)
			r := doWrite(obj, p)
			doWrite(shadow, p)
			if twin != nil && !cmp(i, "Write", r, doWrite(twin, p)) {
				return
			}
		case 1:
			r := doSum(obj)
			if !cmp(i, "Sum (round trip after every call)", doSum(shadow), r) {
				return
			}
			if twin != nil && !cmp(i, "Sum", r, doSum(twin)) {
				return
			}
		case 2:
			obj.Reset()
			shadow.Reset()
			msg = msg[:0]
			if twin != nil {
				twin.Reset()
			}
		case 3:
			b, err := marshal(obj)
			if op[1] == -1 { // the model predicts a refusal (keyed hash)
				if err == nil {
					e.info["keyed_marshal_succeeded_informational"]++
					return
				}
				continue
			}
			if err != nil {
				x := d(i)
				x["err"] = err.Error()
				e.fail("c07-marshal-fails:"+pkgName(kind), "MarshalBinary of an unkeyed hash failed", x)
				return
			}
			saved, savedMsg = b, append([]byte(nil), msg...)
		case 4:
			fresh := newHash(kind, size, key)
			if err, pv := unmarshal(fresh, saved); err != nil || pv != nil {
				x := d(i)
				x["err"], x["panic"], x["state"] = fmt.Sprint(err), fmt.Sprint(pv), hx(saved)
				e.fail("c07-unmarshal-rejects-marshaled-state:"+pkgName(kind), "UnmarshalBinary rejected the bytes MarshalBinary produced", x)
				return
			}
			obj = fresh
			msg = append(msg[:0], savedMsg...)
			twin = newHash(kind, size, key)
			twin.Write(savedMsg)
			shadow = newHash(kind, size, key)
			shadow.Write(savedMsg)
			if obj.Size() != twin.Size() || obj.BlockSize() != twin.BlockSize() || !cmp(i, "Sum right after UnmarshalBinary", doSum(obj), doSum(twin)) {
				return
			}
		}
		if len(msg) != op[2] {
			e.t.Fatalf("harness and model disagree on the message length (%d vs %d): %v", len(msg), op[2], hc.H)
		}
		if !roundTrip(i) {
			return
		}
	}
	// later Write/Sum behaviour: Write(1), Write(200), Sum, Reset, Write, Sum
	for j, n := range []int{1, 200, -1, -2, 77, -1} {
		var r, rs, rt callResult
		switch {
		case n >= 0:
			p := pat(seed+1, j, n)
			r, rs = doWrite(obj, p), doWrite(shadow, p)
			if twin != nil {
				rt = doWrite(twin, p)
			}
		case n == -1:
			r, rs = doSum(obj), doSum(shadow)
			if twin != nil {
				rt = doSum(twin)
			}
		default:
			r, rs = doReset(obj), doReset(shadow)
			if twin != nil {
				rt = doReset(twin)
			}
		}
		if !cmp(len(hc.H)+j, "tail call (round trip after every call)", rs, r) || (twin != nil && !cmp(len(hc.H)+j, "tail call", r, rt)) {
			return
		}
		if !roundTrip(len(hc.H) + j) {
			return
		}
	}
}

func (e *env) keccakHistory(hc *histCase, idx int) {
	kind := hc.W
	d := func(step int) map[string]any {
		return map[string]any{"kind": pkgName(kind), "history": hc.H, "step": step}
	}
	obj := newHash(kind, 0, nil)
	var twin hash.Hash
	var saved, savedMsg, msg []byte
	savedOpos, opos := 0, 0
	seed, pos := 29+idx%5, 0
	cmp := func(step int, what string, a, b callResult) bool {
		if !a.same(b) {
			x := d(step)
			x["call"], x["restored"], x["original"] = what, fmt.Sprintf("panic=%v %v n=%d out=%s", a.panicked, a.pv, a.n, hx(a.out)), fmt.Sprintf("panic=%v %v n=%d out=%s", b.panicked, b.pv, b.n, hx(b.out))
			e.fail("c07-transparency:"+pkgName(kind), "after MarshalBinary/UnmarshalBinary the hash behaves differently from one that never was marshaled", x)
			return false
		}
		return true
	}
	model := func(r callResult, res int) {
		if r.panicked != (res == 1) {
			e.info["keccak_mode_panic_differs_from_model_informational"]++
		}
	}
	for i, op := range hc.H {
		switch op[0] {
		case 0:
			p := pat(seed, pos, op[1])
			pos += op[1]
			r := doWrite(obj, p)
			model(r, op[2])
			if !r.panicked {
				msg = append(msg, p...)
			}
			if twin != nil && !cmp(i, "Write", r, doWrite(twin, p)) {
				return
			}
		case 1:
			r := doSum(obj)
			model(r, op[2])
			if twin != nil && !cmp(i, "Sum", r, doSum(twin)) {
				return
			}
		case 2:
			obj.Reset()
			msg, opos = msg[:0], 0
			if twin != nil {
				twin.Reset()
			}
		case 3:
			b, err := marshal(obj)
			if err != nil {
				x := d(i)
				x["err"] = err.Error()
				e.fail("c07-marshal-fails:"+pkgName(kind), "MarshalBinary failed", x)
				return
			}
			saved, savedMsg, savedOpos = b, append([]byte(nil), msg...), opos
		case 4:
			fresh := newHash(kind, 0, nil)
			if err, pv := unmarshal(fresh, saved); err != nil || pv != nil {
				x := d(i)
				x["err"], x["panic"], x["state"] = fmt.Sprint(err), fmt.Sprint(pv), hx(saved)
				e.fail("c07-unmarshal-rejects-marshaled-state:"+pkgName(kind), "UnmarshalBinary rejected the bytes MarshalBinary produced", x)
				return
			}
			obj = fresh
			msg, opos = append(msg[:0], savedMsg...), savedOpos
			twin = newHash(kind, 0, nil)
			twin.Write(savedMsg)
			if savedOpos > 0 {
				doRead(twin, savedOpos)
			}
			if obj.Size() != twin.Size() || obj.BlockSize() != twin.BlockSize() {
				e.fail("c07-transparency:"+pkgName(kind), "Size/BlockSize differ after UnmarshalBinary", d(i))
				return
			}
		case 5:
			r := doRead(obj, op[1])
			opos += op[1]
			if twin != nil && !cmp(i, "Read", r, doRead(twin, op[1])) {
				return
			}
		}
		if len(msg) != op[3] || opos != op[4] {
			e.t.Fatalf("harness and model disagree on absorbed/squeezed lengths (%d,%d vs %d,%d): %v", len(msg), opos, op[3], op[4], hc.H)
		}
	}
	if twin == nil {
		return
	}
	for j, n := range []int{1, 200, -1, -2, 77, -1} {
		var r, rt callResult
		switch {
		case n >= 0:
			p := pat(seed+1, j, n)
			r, rt = doWrite(obj, p), doWrite(twin, p)
		case n == -1:
			r, rt = doSum(obj), doSum(twin)
		default:
			r, rt = doReset(obj), doReset(twin)
		}
		if !cmp(len(hc.H)+j, "tail call", r, rt) {
			return
		}
	}
}

// ---------------------------------------------------------------- (b) corruption

type layout struct {
	kind                 string
	size                 int // digest size used for the base states (BLAKE2)
	total                int
	magic                int
	f1, f2, f3           int // byte indexes of the range-carrying fields (-1: none)
	free                 [][2]int
	block, maxSize, rate int
}

func layouts() []layout {
	return []layout{
		{kind: "b2b", size: 64, total: 213, magic: 3, f1: 3 + 64 + 16, f2: 212, f3: -1, free: [][2]int{{3, 3 + 64 + 16}, {3 + 64 + 16 + 1, 212}}, block: 128, maxSize: 64},
		{kind: "b2b", size: 20, total: 213, magic: 3, f1: 3 + 64 + 16, f2: 212, f3: -1, free: [][2]int{{3 + 64, 3 + 64 + 16}}, block: 128, maxSize: 64},
		{kind: "b2s", size: 32, total: 109, magic: 3, f1: 3 + 32 + 8, f2: 108, f3: -1, free: [][2]int{{3, 3 + 32 + 8}, {3 + 32 + 8 + 1, 108}}, block: 64, maxSize: 32},
		{kind: "k256", total: 207, magic: 4, f1: 4, f2: 205, f3: 206, free: [][2]int{{5, 205}}, rate: 136},
		{kind: "k512", total: 207, magic: 4, f1: 4, f2: 205, f3: 206, free: [][2]int{{5, 205}}, rate: 72},
	}
}

func (l *layout) fresh() hash.Hash { return newHash(l.kind, l.size, nil) }

// valid marshaled states: after 0, 1, B-1, B, B+1, 300 bytes (Keccak: also one squeezing state)
func (l *layout) bases(t *testing.T) [][]byte {
	B := l.block
	if B == 0 {
		B = l.rate
	}
	var out [][]byte
	for _, n := range []int{0, 1, B - 1, B, B + 1, 300} {
		h := l.fresh()
		h.Write(pat(37, 0, n))
		b, err := marshal(h)
		if err != nil || len(b) != l.total {
			t.Fatalf("%s: MarshalBinary: %v (len %d, expected %d): layout assumption wrong", l.kind, err, len(b), l.total)
		}
		out = append(out, b)
	}
	if l.rate > 0 {
		h := l.fresh()
		h.Write(pat(37, 0, 5))
		doRead(h, 3)
		b, _ := marshal(h)
		out = append(out, b)
	}
	return out
}

var sequences = [][]string{{"Write1"}, {"Write200"}, {"Sum"}, {"Reset", "Write200", "Sum"}, {"Write1", "Write200", "Sum", "Reset", "Sum"}}

func isModePanic(pv any) bool {
	s, ok := pv.(string)
	return ok && (s == "sha3: Write after Read" || s == "sha3: Sum after Read")
}

// try one candidate byte string: UnmarshalBinary into a fresh hash, then the call sequences, each on its own
// freshly unmarshaled object.  origin describes how the string was made (for the evidence).
func (e *env) try(l *layout, b []byte, origin string) (accepted bool) {
	name := pkgName(l.kind)
	d := func() map[string]any {
		return map[string]any{"kind": name, "origin": origin, "state": hex.EncodeToString(b), "len": len(b)}
	}
	for si, seq := range sequences {
		h := l.fresh()
		err, pv := unmarshal(h, b)
		if pv != nil {
			x := d()
			x["panic"] = fmt.Sprint(pv)
			e.fail("c07-unmarshal-panics:"+name, "UnmarshalBinary itself panicked", x)
			return false
		}
		if err != nil {
			return false
		}
		accepted = true
		squeezing := l.rate > 0 && len(b) == l.total && b[l.f3] == 1
		for _, c := range seq {
			var r callResult
			switch c {
			case "Write1":
				r = doWrite(h, []byte{0x61})
			case "Write200":
				r = doWrite(h, pat(41, 0, 200))
			case "Sum":
				r = doSum(h)
			case "Reset":
				r = doReset(h)
				squeezing = false
			}
			if !r.panicked {
				continue
			}
			if squeezing && isModePanic(r.pv) {
				break // the documented behaviour of a squeezing sponge: what the original would do
			}
			x := d()
			x["sequence"], x["call"], x["panic"], x["sequence_index"] = seq, c, fmt.Sprint(r.pv), si
			_, isRuntime := r.pv.(runtime.Error)
			x["runtime_error"] = isRuntime
			sig := fmt.Sprintf("c07-panic-after-unmarshal:%s:%s", name, c)
			if l.block > 0 && len(b) == l.total {
				sz, off := int(b[l.f1]), int(b[l.f2])
				x["size_byte"], x["offset_byte"] = sz, off
				switch {
				case off > l.block:
					sig = name + "-unmarshal-offset-out-of-range"
				case sz > l.maxSize && c == "Sum":
					sig = name + "-unmarshal-size-out-of-range"
				}
			}
			e.fail(sig, "UnmarshalBinary returned nil for a corrupt state and "+c+" then panicked", x)
			return
		}
	}
	return
}

func (e *env) corruption(fields []fieldCase, nrand int) {
	rnd := vutil.Rand(707)
	vals := func(maxValid int) []int { return []int{0, 1, maxValid, maxValid + 1, 0x7f, 0x80, 0xff} }
	for li := range layouts() {
		l := layouts()[li]
		bases := l.bases(e.t)
		name := pkgName(l.kind)
		acc, rej, disagree := 0, 0, 0
		for bi, base := range bases {
			// the boundary combinations the model names
			for _, fc := range fields {
				if fc.Alg != l.kind {
					continue
				}
				b := append([]byte(nil), base...)
				b[l.f1], b[l.f2] = byte(fc.F1), byte(fc.F2)
				if l.f3 >= 0 {
					b[l.f3] = byte(fc.F3)
				}
				ok := e.try(&l, b, fmt.Sprintf("base %d with fields (%d,%d,%d)", bi, fc.F1, fc.F2, fc.F3))
				e.out.Case(fmt.Sprintf("f|%s|%d|%d|%d|%d|%d", name, l.size, bi, fc.F1, fc.F2, fc.F3))
				if ok {
					acc++
				} else {
					rej++
				}
				if ok != fc.Accept {
					disagree++
				}
			}
			// every byte of the free fields (h / counter words / block; Keccak: a) set to the boundary values
			for _, reg := range l.free {
				step := 1
				if reg[1]-reg[0] > 40 && !vutil.Thorough() {
					step = 7
				}
				for i := reg[0]; i < reg[1]; i += step {
					for _, v := range vals(64) {
						b := append([]byte(nil), base...)
						b[i] = byte(v)
						e.try(&l, b, fmt.Sprintf("base %d with byte %d = %d", bi, i, v))
						e.out.Case(fmt.Sprintf("free|%s|%d|%d|%d|%d", name, l.size, bi, i, v))
					}
				}
			}
			// magic and length
			for i := 0; i < l.magic; i++ {
				b := append([]byte(nil), base...)
				b[i] ^= 0x20
				if e.try(&l, b, fmt.Sprintf("base %d with magic byte %d damaged", bi, i)) {
					e.info["wrong_magic_accepted_informational"]++
				}
				e.out.Case(fmt.Sprintf("magic|%s|%d|%d", name, bi, i))
			}
			for _, n := range []int{0, 1, l.magic, l.total - 1, l.total + 1, 2 * l.total} {
				b := make([]byte, n)
				copy(b, base)
				if n > l.total {
					copy(b[l.total:], base)
				}
				if e.try(&l, b, fmt.Sprintf("base %d cut/extended to %d bytes", bi, n)) {
					e.info["wrong_length_accepted_informational"]++
				}
				e.out.Case(fmt.Sprintf("len|%s|%d|%d", name, bi, n))
			}
		}
		e.out.Extra["accepted_"+name+"_"+strconv.Itoa(l.size)] = acc
		e.out.Extra["rejected_"+name+"_"+strconv.Itoa(l.size)] = rej
		e.info["accept_decision_differs_from_repaired_model_informational:"+name] += disagree
		// seeded random strings
		for i := 0; i < nrand; i++ {
			var b []byte
			switch i % 4 {
			case 0: // right magic and length, everything else random
				b = make([]byte, l.total)
				rnd.Read(b)
				copy(b, bases[0][:l.magic])
			case 1: // a valid state with a few random bytes changed (range fields included)
				b = append([]byte(nil), bases[rnd.Intn(len(bases))]...)
				for k := 0; k < 1+rnd.Intn(4); k++ {
					b[l.magic+rnd.Intn(l.total-l.magic)] = byte(rnd.Intn(256))
				}
				if rnd.Intn(2) == 0 {
					b[l.f2] = byte(rnd.Intn(256))
				}
			case 2: // random length, right magic
				b = make([]byte, rnd.Intn(2*l.total))
				rnd.Read(b)
				copy(b, bases[0][:l.magic])
			default: // completely random
				b = make([]byte, l.total)
				rnd.Read(b)
			}
			e.try(&l, b, fmt.Sprintf("seeded random string #%d kind %d", i, i%4))
			e.out.Case(fmt.Sprintf("rand|%s|%d|%d", name, l.size, i))
		}
	}
}

func TestReplay(t *testing.T) {
	out := vutil.NewOut()
	defer out.Write()
	e := &env{t: t, out: out, info: map[string]int{}}
	all := vutil.Thorough()
	nb, nk := 0, 0
	if p := os.Getenv("VERIF_CASES"); p != "" {
		err := vutil.ReadNDJSON(p, func(line []byte) error {
			var hc histCase
			if err := json.Unmarshal(line, &hc); err != nil {
				return err
			}
			switch hc.W {
			case "k256", "k512":
				nk++
				e.keccakHistory(&hc, nk)
				out.Case(fmt.Sprintf("tk|%s|%d", hc.W, nk))
			default:
				nb++
				keyed := hc.W[1] == '1'
				type combo struct{ size, klen int }
				var cs []combo
				switch {
				case hc.W[0] == 'b' && !keyed:
					cs = []combo{{64, 0}, {32, 0}, {1, 0}, {20, 0}, {48, 0}}
					if all && nb%8 == 0 {
						cs = cs[:0]
						for s := 1; s <= 64; s++ {
							cs = append(cs, combo{s, 0})
						}
					} else if !all {
						cs = append(cs[:1], cs[1+nb%4])
					}
				case hc.W[0] == 'b':
					cs = []combo{{64, 64}, {20, 1}}
				case !keyed:
					cs = []combo{{32, 0}}
				default:
					cs = []combo{{32, 32}, {16, 1}}
				}
				for _, c := range cs {
					e.blakeHistory(&hc, c.size, c03ref.Pat(11, c.klen), nb)
					out.Case(fmt.Sprintf("tb|%s|%d|%d|%d", hc.W, c.size, c.klen, nb))
				}
			}
			if nb+nk <= 3 {
				out.Sample(map[string]any{"w": hc.W, "history": hc.H})
			}
			return nil
		})
		if err != nil {
			t.Fatalf("histories: %v", err)
		}
	}
	out.Extra["blake2_histories"], out.Extra["keccak_histories"] = nb, nk
	var fields []fieldCase
	if p := os.Getenv("VERIF_C07_FIELDS"); p != "" {
		if err := vutil.ReadNDJSON(p, func(line []byte) error {
			var fc fieldCase
			if err := json.Unmarshal(line, &fc); err != nil {
				return err
			}
			fields = append(fields, fc)
			return nil
		}); err != nil {
			t.Fatalf("fields: %v", err)
		}
	}
	out.Extra["model_field_cases"] = len(fields)
	if len(fields) > 0 {
		nrand, _ := strconv.Atoi(vutil.Env("VERIF_C07_RANDOM", "2000"))
		e.corruption(fields, nrand)
	}
	for k, v := range e.info {
		out.Extra[k] = v
	}
	if len(e.bySig) > 0 {
		out.Extra["violations_by_signature"] = e.bySig
	}
}
