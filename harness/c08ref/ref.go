// Package c08ref is the "amplifier" of binding E for C08: a plain Go transcription of the
// executable TLA+ definitions of spec/PrimKeccak.tla (Keccak-f[1600] as the five step mappings of
// FIPS 202 section 3.2 on a 5x5 lane array, rho offsets and round constants computed by the
// FIPS 202 recurrences, the sponge with the byte-aligned domain paddings, SP 800-185
// left_encode / encode_string / bytepad / cSHAKE).  It has no authority of its own: the harness
// first checks it byte-for-byte against the streams TLC evaluated from the TLA+ definitions in
// the same run, and only then uses it to judge further cases.  It deliberately shares no code
// with golang.org/x/crypto/sha3 (which uses an unrolled in-place permutation and a literal
// round-constant table) or with crypto/sha3.
package c08ref

import "math/bits"

// Fn describes one function of the sha3 package: PrimKeccak!Rate, OutLen and the domain byte.
type Fn struct {
	Name   string
	Kind   string // "fixed" | "shake" | "legacy" (spec/SpongeBuf.tla Kind)
	Rate   int
	OutLen int
	DS     byte
}

var Fns = []Fn{
	{"sha3-224", "fixed", 144, 28, 0x06},
	{"sha3-256", "fixed", 136, 32, 0x06},
	{"sha3-384", "fixed", 104, 48, 0x06},
	{"sha3-512", "fixed", 72, 64, 0x06},
	{"shake128", "shake", 168, 32, 0x1f},
	{"shake256", "shake", 136, 64, 0x1f},
	{"cshake128", "shake", 168, 32, 0x04},
	{"cshake256", "shake", 136, 64, 0x04},
	{"keccak256", "legacy", 136, 32, 0x01},
	{"keccak512", "legacy", 72, 64, 0x01},
}

func Lookup(name string) (Fn, bool) {
	for _, f := range Fns {
		if f.Name == name {
			return f, true
		}
	}
	return Fn{}, false
}

var rhoOff [5][5]int // [x][y]
var rc [24]uint64

func init() {
	// FIPS 202 Algorithm 2
	x, y := 1, 0
	for t := 0; t < 24; t++ {
		rhoOff[x][y] = ((t + 1) * (t + 2) / 2) % 64
		x, y = y, (2*x+3*y)%5
	}
	// FIPS 202 Algorithm 5/6: LFSR x^8+x^6+x^5+x^4+1
	r := 1
	for ir := 0; ir < 24; ir++ {
		for j := 0; j < 7; j++ {
			if r&1 == 1 {
				rc[ir] ^= 1 << ((1 << j) - 1)
			}
			if r&0x80 != 0 {
				r = ((r << 1) & 0xff) ^ 0x71
			} else {
				r <<= 1
			}
		}
	}
}

// KeccakF: PrimKeccak!KeccakF on lanes a[x][y].
func KeccakF(a *[5][5]uint64) {
	for ir := 0; ir < 24; ir++ {
		var c, d [5]uint64
		for x := 0; x < 5; x++ {
			c[x] = a[x][0] ^ a[x][1] ^ a[x][2] ^ a[x][3] ^ a[x][4]
		}
		for x := 0; x < 5; x++ {
			d[x] = c[(x+4)%5] ^ bits.RotateLeft64(c[(x+1)%5], 1)
		}
		for x := 0; x < 5; x++ {
			for y := 0; y < 5; y++ {
				a[x][y] ^= d[x]
			}
		}
		var b [5][5]uint64
		for x := 0; x < 5; x++ {
			for y := 0; y < 5; y++ {
				b[y][(2*x+3*y)%5] = bits.RotateLeft64(a[x][y], rhoOff[x][y])
			}
		}
		for x := 0; x < 5; x++ {
			for y := 0; y < 5; y++ {
				a[x][y] = b[x][y] ^ (^b[(x+1)%5][y] & b[(x+2)%5][y])
			}
		}
		a[0][0] ^= rc[ir]
	}
}

// Pad: PrimKeccak!Pad.
func Pad(msg []byte, rate int, ds byte) []byte {
	q := rate - len(msg)%rate
	p := append([]byte(nil), msg...)
	if q == 1 {
		return append(p, ds+0x80)
	}
	p = append(p, ds)
	p = append(p, make([]byte, q-2)...)
	return append(p, 0x80)
}

// Sponge: PrimKeccak!Sponge - the first n output bytes.
func Sponge(msg []byte, rate int, ds byte, n int) []byte {
	var a [5][5]uint64
	p := Pad(msg, rate, ds)
	for off := 0; off < len(p); off += rate {
		for i := 0; i < rate/8; i++ {
			var l uint64
			for j := 7; j >= 0; j-- {
				l = l<<8 | uint64(p[off+8*i+j])
			}
			a[i%5][i/5] ^= l
		}
		KeccakF(&a)
	}
	var out []byte
	for {
		for i := 0; i < rate/8; i++ {
			l := a[i%5][i/5]
			for j := 0; j < 8; j++ {
				out = append(out, byte(l>>(8*j)))
			}
		}
		if len(out) >= n {
			return out[:n]
		}
		KeccakF(&a)
	}
}

func leftEncode(x int) []byte {
	var b []byte
	for {
		b = append([]byte{byte(x)}, b...)
		x >>= 8
		if x == 0 {
			break
		}
	}
	return append([]byte{byte(len(b))}, b...)
}

func encodeString(s []byte) []byte { return append(leftEncode(8*len(s)), s...) }

func bytePad(x []byte, w int) []byte {
	z := append(leftEncode(w), x...)
	for len(z)%w != 0 {
		z = append(z, 0)
	}
	return z
}

// XOF: PrimKeccak!XOF.
func XOF(f Fn, N, S, msg []byte, n int) []byte {
	if f.DS == 0x04 {
		if len(N) == 0 && len(S) == 0 {
			return Sponge(msg, f.Rate, 0x1f, n)
		}
		pre := bytePad(append(encodeString(N), encodeString(S)...), f.Rate)
		return Sponge(append(pre, msg...), f.Rate, 0x04, n)
	}
	return Sponge(msg, f.Rate, f.DS, n)
}
