// Independent X25519 written from RFC 7748 section 5 with math/big (decodeLittleEndian, decodeUCoordinate with the
// masked top bit and reduction modulo p, decodeScalar25519 clamping, the Montgomery ladder pseudo-code with cswap,
// a24 = 121665, final x_2 * z_2^(p-2)).  It shares nothing with /repo/curve25519 or crypto/ecdh and is anchored by
// the RFC's vectors on every run.
package c11

import "math/big"

var (
	p25519 = new(big.Int).Sub(new(big.Int).Lsh(big.NewInt(1), 255), big.NewInt(19))
	a24    = big.NewInt(121665)
)

func decodeLE(b []byte) *big.Int {
	r := make([]byte, len(b))
	for i := range b {
		r[len(b)-1-i] = b[i]
	}
	return new(big.Int).SetBytes(r)
}

func encodeLE(x *big.Int) []byte {
	be := x.FillBytes(make([]byte, 32))
	r := make([]byte, 32)
	for i := range be {
		r[31-i] = be[i]
	}
	return r
}

func refX25519(scalar, u []byte) []byte {
	// decodeUCoordinate
	ub := append([]byte(nil), u...)
	ub[31] &= 0x7f
	x1 := decodeLE(ub)
	x1.Mod(x1, p25519)
	// decodeScalar25519
	kb := append([]byte(nil), scalar...)
	kb[0] &= 248
	kb[31] &= 127
	kb[31] |= 64
	k := decodeLE(kb)

	mod := func(x *big.Int) *big.Int { return x.Mod(x, p25519) }
	add := func(a, b *big.Int) *big.Int { return mod(new(big.Int).Add(a, b)) }
	sub := func(a, b *big.Int) *big.Int { return mod(new(big.Int).Sub(a, b)) }
	mul := func(a, b *big.Int) *big.Int { return mod(new(big.Int).Mul(a, b)) }

	x2, z2 := big.NewInt(1), big.NewInt(0)
	x3, z3 := new(big.Int).Set(x1), big.NewInt(1)
	swap := uint(0)
	for t := 254; t >= 0; t-- {
		kt := k.Bit(t)
		swap ^= kt
		if swap == 1 {
			x2, x3 = x3, x2
			z2, z3 = z3, z2
		}
		swap = kt
		A := add(x2, z2)
		AA := mul(A, A)
		B := sub(x2, z2)
		BB := mul(B, B)
		E := sub(AA, BB)
		C := add(x3, z3)
		D := sub(x3, z3)
		DA := mul(D, A)
		CB := mul(C, B)
		t1 := add(DA, CB)
		x3 = mul(t1, t1)
		t2 := sub(DA, CB)
		z3 = mul(x1, mul(t2, t2))
		x2 = mul(AA, BB)
		z2 = mul(E, add(AA, mul(a24, E)))
	}
	if swap == 1 {
		x2, x3 = x3, x2
		z2, z3 = z3, z2
	}
	inv := new(big.Int).Exp(z2, new(big.Int).Sub(p25519, big.NewInt(2)), p25519)
	return encodeLE(mul(x2, inv))
}
