// Binding R for C11: every (api, scalar class, u class, alias) case TLC enumerated from spec/X25519Wrap_MC.tla is
// materialised as 32-byte inputs and run on the REAL curve25519.X25519 / ScalarMult / ScalarBaseMult; the RFC 7748
// value comes from an independent math/big implementation (ref.go, anchored by the RFC vectors) and from crypto/ecdh
// called directly.  Further: all u in p..2^255-1 with both top-bit settings, seeded random pairs, DH symmetry,
// wrong lengths, the RFC's iterated vector.
package c11

import (
	"bytes"
	"crypto/ecdh"
	"encoding/hex"
	"encoding/json"
	"fmt"
	"math/big"
	"strings"
	"testing"

	"golang.org/x/crypto/curve25519"
	"verif/harness/vutil"
)

type tcase struct {
	Api     string   `json:"api"`
	Scalar  string   `json:"scalar"`
	U       string   `json:"u"`
	PlusP   bool     `json:"plusP"`
	Top     bool     `json:"top"`
	Err     bool     `json:"err"`
	ValueID []string `json:"valueId"`
}

func unhex(s string) []byte {
	b, err := hex.DecodeString(s)
	if err != nil {
		panic(err)
	}
	return b
}

var zero32 = make([]byte, 32)

func rnd32(salt int64) []byte {
	b := make([]byte, 32)
	vutil.Rand(salt).Read(b)
	return b
}

func uClass(name string) []byte {
	small := func(v int64) []byte { return encodeLE(big.NewInt(v)) }
	switch name {
	case "0":
		return small(0)
	case "1":
		return small(1)
	case "2":
		return small(2)
	case "9":
		return small(9)
	case "18":
		return small(18)
	case "pm1":
		return encodeLE(new(big.Int).Sub(p25519, big.NewInt(1)))
	case "u8a":
		return unhex("e0eb7a7c3b41b8ae1656e3faf19fc46ada098deb9c32b1fd866205165f49b800")
	case "u8b":
		return unhex("5f9c95bca3508c24b1d0b1559c83ef5b04445cc4581c8e86d8224eddd09f1157")
	case "r1", "r2":
		salt := int64(1101)
		if name == "r2" {
			salt = 1102
		}
		for {
			b := rnd32(salt)
			b[31] &= 0x7f
			v := decodeLE(b)
			if v.Cmp(p25519) < 0 && v.Cmp(big.NewInt(19)) >= 0 {
				return b
			}
			salt += 1000
		}
	}
	panic("unknown u class " + name)
}

func scalarClass(name string) []byte {
	s1 := rnd32(1111)
	switch name {
	case "s1":
		return s1
	case "s2":
		return rnd32(1112)
	case "s1low":
		s1[0] ^= 7
		return s1
	case "s1hi":
		s1[31] ^= 0x80
		return s1
	case "s1b254":
		s1[31] ^= 0x40
		return s1
	case "zero":
		return make([]byte, 32)
	case "ones":
		return bytes.Repeat([]byte{0xff}, 32)
	}
	panic("unknown scalar class " + name)
}

func encode(c tcase) []byte {
	u := uClass(c.U)
	if c.PlusP {
		u = encodeLE(new(big.Int).Add(decodeLE(u), p25519))
	}
	if c.Top {
		u[31] |= 0x80
	}
	return u
}

// the RFC value from crypto/ecdh directly (nil when ecdh reports the all-zero result)
func ecdhValue(scalar, u []byte) ([]byte, error) {
	pub, err := ecdh.X25519().NewPublicKey(u)
	if err != nil {
		return nil, err
	}
	priv, err := ecdh.X25519().NewPrivateKey(scalar)
	if err != nil {
		return nil, err
	}
	return priv.ECDH(pub)
}

type rec struct {
	out *vutil.Out
	t   *testing.T
}

func (r rec) viol(sig, what string, scalar, u []byte, extra map[string]any) {
	d := map[string]any{"scalar": hex.EncodeToString(scalar), "u": hex.EncodeToString(u)}
	for k, v := range extra {
		d[k] = v
	}
	r.out.Violation(sig, what, d)
	r.t.Errorf("%s: %s scalar=%x u=%x %v", sig, what, scalar, u, extra)
}

// judge one (scalar, u) on all three entry points; want = RFC 7748 value
func (r rec) judge(scalar, u []byte, apis string, extra map[string]any) {
	r.judgeWant(scalar, u, refX25519(scalar, u), apis, extra)
}

// with returns extra plus the given key/value pairs
func with(extra map[string]any, kv ...any) map[string]any {
	d := map[string]any{}
	for k, v := range extra {
		d[k] = v
	}
	for i := 0; i+1 < len(kv); i += 2 {
		d[kv[i].(string)] = kv[i+1]
	}
	return d
}

// judgeWant: want = the RFC 7748 value, already computed by the caller
func (r rec) judgeWant(scalar, u, want []byte, apis string, extra map[string]any) {
	isZero := bytes.Equal(want, zero32)
	if ev, err := ecdhValue(scalar, u); (err != nil) != isZero || (err == nil && !bytes.Equal(ev, want)) {
		r.t.Fatalf("oracles disagree (math/big RFC 7748 vs crypto/ecdh) on scalar=%x u=%x: %x vs %x/%v", scalar, u, want, ev, err)
	}
	sc, uc := append([]byte(nil), scalar...), append([]byte(nil), u...)
	func() {
		defer func() {
			if e := recover(); e != nil {
				r.viol("x25519-panics", "panic: "+fmt.Sprint(e), scalar, u, extra)
			}
		}()
		if apis == "all" || apis == "X25519" {
			out, err := curve25519.X25519(sc, uc)
			switch {
			case isZero && (err == nil || out != nil):
				r.viol("x25519-no-error-for-all-zero-output", "X25519 did not return (nil, error) although the RFC 7748 value is all zero (low-order input)", scalar, u, extra)
			case !isZero && err != nil:
				r.viol("x25519-error-for-nonzero-output", "X25519 returned an error although the RFC 7748 value is not all zero: "+err.Error(), scalar, u, extra)
			case !isZero && !bytes.Equal(out, want):
				r.viol("x25519-differs-from-rfc7748", "X25519 returned a value different from the RFC 7748 function", scalar, u, with(extra, "got", hex.EncodeToString(out), "want", hex.EncodeToString(want)))
			}
		}
		if apis == "all" || apis == "ScalarMult" {
			var dst, s, pt [32]byte
			for i := range dst {
				dst[i] = 0xAA
			}
			copy(s[:], scalar)
			copy(pt[:], u)
			curve25519.ScalarMult(&dst, &s, &pt)
			if !bytes.Equal(dst[:], want) {
				what := "ScalarMult wrote a value different from the RFC 7748 function"
				sig := "scalarmult-differs-from-rfc7748"
				if isZero {
					what, sig = "ScalarMult did not write all zeros although the RFC 7748 value is all zero", "scalarmult-dst-not-zeroed"
				}
				r.viol(sig, what, scalar, u, with(extra, "got", hex.EncodeToString(dst[:]), "want", hex.EncodeToString(want)))
			}
			if !bytes.Equal(s[:], scalar) || !bytes.Equal(pt[:], u) {
				r.viol("x25519-inputs-modified", "ScalarMult modified its inputs", scalar, u, extra)
			}
		}
		if !bytes.Equal(sc, scalar) || !bytes.Equal(uc, u) {
			r.viol("x25519-inputs-modified", "X25519 modified its inputs", scalar, u, extra)
		}
	}()
}

func (r rec) judgeBase(scalar []byte) {
	nine := encodeLE(big.NewInt(9))
	want := refX25519(scalar, nine)
	defer func() {
		if e := recover(); e != nil {
			r.viol("x25519-panics", "ScalarBaseMult panicked: "+fmt.Sprint(e), scalar, nine, nil)
		}
	}()
	var dst, s [32]byte
	for i := range dst {
		dst[i] = 0x55
	}
	copy(s[:], scalar)
	curve25519.ScalarBaseMult(&dst, &s)
	if !bytes.Equal(dst[:], want) {
		r.viol("scalarbasemult-differs-from-rfc7748", "ScalarBaseMult differs from X25519(scalar, 9) per RFC 7748", scalar, nine, map[string]any{"got": hex.EncodeToString(dst[:]), "want": hex.EncodeToString(want)})
	}
	out, err := curve25519.X25519(scalar, curve25519.Basepoint)
	if err != nil || !bytes.Equal(out, dst[:]) {
		r.viol("scalarbasemult-differs-from-x25519-basepoint", "ScalarBaseMult and X25519(scalar, Basepoint) disagree", scalar, nine, map[string]any{"base": hex.EncodeToString(dst[:]), "x25519": hex.EncodeToString(out), "err": fmt.Sprint(err)})
	}
	if !bytes.Equal(curve25519.Basepoint, nine) {
		r.viol("basepoint-modified", "curve25519.Basepoint is not 9", scalar, curve25519.Basepoint, nil)
	}
}

func anchor(t *testing.T) {
	vec := []struct{ k, u, out string }{
		{"a546e36bf0527c9d3b16154b82465edd62144c0ac1fc5a18506a2244ba449ac4", "e6db6867583030db3594c1a424b15f7c726624ec26b3353b10a903a6d0ab1c4c", "c3da55379de9c6908e94ea4df28d084f32eccf03491c71f754b4075577a28552"},
		{"4b66e9d4d1b4673c5ad22691957d6af5c11b6421e0ea01d42ca4169e7918ba0d", "e5210f12786811d3f4b7959d0538ae2c31dbe7106fc03c3efc4cd549c715a493", "95cbde9476e8907d7aade45cb4b873f88b595a68799fa152e6f8f7647aac7957"},
		// section 6.1
		{"77076d0a7318a57d3c16c17251b26645df4c2f87ebc0992ab177fba51db92c2a", "0900000000000000000000000000000000000000000000000000000000000000", "8520f0098930a754748b7ddcb43ef75a0dbf3a0d26381af4eba4a98eaa9b4e6a"},
		{"5dab087e624a8a4b79e17f8b83800ee66f3bb1292618b6fd1c2f8b27ff88e0eb", "0900000000000000000000000000000000000000000000000000000000000000", "de9edb7d7b7dc1b4d35b61c2ece435373f8343c85b78674dadfc7e146f882b4f"},
		{"77076d0a7318a57d3c16c17251b26645df4c2f87ebc0992ab177fba51db92c2a", "de9edb7d7b7dc1b4d35b61c2ece435373f8343c85b78674dadfc7e146f882b4f", "4a5d9d5ba4ce2de1728e3bf480350f25e07e21c947d19e3376f09b3c1e161742"},
	}
	for _, v := range vec {
		if got := hex.EncodeToString(refX25519(unhex(v.k), unhex(v.u))); got != v.out {
			t.Fatalf("harness reference X25519 does not reproduce the RFC 7748 vector %s: %s", v.out, got)
		}
	}
}

func TestReplay(t *testing.T) {
	out := vutil.NewOut()
	defer func() {
		if err := out.Write(); err != nil {
			t.Fatal(err)
		}
	}()
	anchor(t)
	r := rec{out, t}
	groups := map[string]string{}
	err := vutil.ReadNDJSON(vutil.Env("VERIF_CASES", ""), func(line []byte) error {
		var c tcase
		if err := json.Unmarshal(line, &c); err != nil {
			return err
		}
		scalar, u := scalarClass(c.Scalar), encode(c)
		out.Case(fmt.Sprintf("%s|%x|%x", c.Api, scalar, u))
		want := refX25519(scalar, u)
		// the class table's prediction must agree with the oracle, otherwise the table (not the code) is wrong
		if c.Err != bytes.Equal(want, zero32) {
			t.Fatalf("model class table wrong: case %s predicts err=%v, RFC value %x", line, c.Err, want)
		}
		gid := fmt.Sprint(c.ValueID)
		if prev, ok := groups[gid]; ok && prev != hex.EncodeToString(want) {
			t.Fatalf("model class table wrong: value group %s has two RFC values", gid)
		}
		groups[gid] = hex.EncodeToString(want)
		extra := map[string]any{"case": c}
		if c.Api == "ScalarBaseMult" {
			r.judgeBase(scalar)
		} else {
			r.judge(scalar, u, c.Api, extra)
		}
		out.Sample(map[string]any{"api": c.Api, "scalar": c.Scalar, "u": c.U, "plusP": c.PlusP, "top": c.Top, "err": c.Err})
		return nil
	})
	if err != nil {
		t.Fatal(err)
	}
	out.Extra["value_groups"] = len(groups)
}

// TestSweep: beyond the class table.
func TestSweep(t *testing.T) {
	out := vutil.NewOut()
	defer func() {
		if err := out.Write(); err != nil {
			t.Fatal(err)
		}
	}()
	anchor(t)
	r := rec{out, t}
	rng := vutil.Rand(1190)
	n := 300
	iters := 1
	if vutil.Thorough() {
		n, iters = 6000, 1000
	}
	// every u in p .. 2^255-1 (aliases of 0..18), both top-bit settings, a few scalars
	for k := int64(0); k < 19; k++ {
		for _, top := range []byte{0, 0x80} {
			u := encodeLE(new(big.Int).Add(p25519, big.NewInt(k)))
			u[31] |= top
			for si := 0; si < 3; si++ {
				s := make([]byte, 32)
				rng.Read(s)
				out.Case(fmt.Sprintf("noncanon|%d|%d|%d", k, top, si))
				r.judge(s, u, "all", map[string]any{"class": fmt.Sprintf("u = p + %d, top bit %d", k, top>>7)})
			}
		}
	}
	// random scalars and u (any 32 bytes: top bit and non-canonical values included as they fall)
	for i := 0; i < n; i++ {
		s, u := make([]byte, 32), make([]byte, 32)
		rng.Read(s)
		rng.Read(u)
		if i%5 == 0 { // near the prime: high limbs all ones
			for j := 1; j < 31; j++ {
				u[j] = 0xff
			}
			u[31] |= 0x7f
		}
		out.Case(fmt.Sprintf("rand|%x|%x", s, u))
		r.judge(s, u, "all", nil)
		r.judgeBase(s)
	}
	// two parties derive the same secret
	for i := 0; i < n/3; i++ {
		a, b := make([]byte, 32), make([]byte, 32)
		rng.Read(a)
		rng.Read(b)
		pa, e1 := curve25519.X25519(a, curve25519.Basepoint)
		pb, e2 := curve25519.X25519(b, curve25519.Basepoint)
		out.Case(fmt.Sprintf("dh|%x|%x", a, b))
		if e1 != nil || e2 != nil {
			r.viol("x25519-error-for-nonzero-output", "public key computation failed", a, b, nil)
			continue
		}
		k1, e1 := curve25519.X25519(a, pb)
		k2, e2 := curve25519.X25519(b, pa)
		if e1 != nil || e2 != nil || !bytes.Equal(k1, k2) {
			r.viol("x25519-dh-asymmetric", "the two parties derive different shared secrets", a, b, map[string]any{"k1": hex.EncodeToString(k1), "k2": hex.EncodeToString(k2)})
		}
	}
	// wrong lengths: errors, never panics (outside the property's 32-byte domain; judged only for panics)
	for _, ls := range []int{0, 31, 32, 33, 64} {
		for _, lp := range []int{0, 31, 32, 33, 64} {
			if ls == 32 && lp == 32 {
				continue
			}
			func() {
				defer func() {
					if e := recover(); e != nil {
						r.viol("x25519-panics", "X25519 panicked on wrong-length input: "+fmt.Sprint(e), make([]byte, ls), make([]byte, lp), nil)
					}
				}()
				o, err := curve25519.X25519(bytes.Repeat([]byte{3}, ls), bytes.Repeat([]byte{9}, lp))
				out.Case(fmt.Sprintf("len|%d|%d", ls, lp))
				if err == nil || o != nil {
					r.viol("x25519-wrong-length-accepted", "X25519 accepted inputs that are not 32 bytes", make([]byte, ls), make([]byte, lp), nil)
				}
			}()
		}
	}
	// RFC 7748 section 5.2 iterated vector through the real X25519
	k := unhex("0900000000000000000000000000000000000000000000000000000000000000")
	u := append([]byte(nil), k...)
	want := map[int]string{1: "422c8e7a6227d7bca1350b3e2bb7279f7897b87bb6854b783c60e80311ae3079", 1000: "684cf59ba83309552800ef566f2f4d3c1c3887c49360e3875f2eb94d99532c51"}
	for i := 1; i <= iters; i++ {
		o, err := curve25519.X25519(k, u)
		if err != nil {
			r.viol("x25519-error-for-nonzero-output", "error in the RFC 7748 iteration", k, u, nil)
			break
		}
		u, k = k, o
		if w, ok := want[i]; ok {
			out.Case(fmt.Sprint("iter|", i))
			if hex.EncodeToString(k) != w {
				r.viol("x25519-differs-from-rfc7748", fmt.Sprintf("RFC 7748 iterated vector after %d iterations", i), k, u, map[string]any{"want": w})
			}
		}
	}
}

// ---------------------------------------------------------------- neighbourhoods (spec/X25519Nbhd.tla)

type ncase struct {
	Kind  string `json:"kind"` // "u": neighbourhood of a special u (scalars chosen here); "s": neighbourhood of a special scalar
	Cls   string `json:"cls"`
	U     []int  `json:"u"`
	S     []int  `json:"s"`
	Canon []int  `json:"canon"` // TLC: decodeUCoordinate(u), canonically re-encoded
	Clamp []int  `json:"clamp"` // TLC: decodeScalar25519(s)
	Err   bool   `json:"err"`   // TLC: Canon(u) is one of the five low-order values
}

func ib(x []int) []byte {
	b := make([]byte, len(x))
	for i, v := range x {
		b[i] = byte(v)
	}
	return b
}

// TestNbhd: every neighbour TLC enumerated around the special encodings, with TLC's decoding, on the real package.
func TestNbhd(t *testing.T) {
	out := vutil.NewOut()
	defer func() {
		if err := out.Write(); err != nil {
			t.Fatal(err)
		}
	}()
	anchor(t)
	r := rec{out, t}
	nScalars := 2
	if vutil.Thorough() {
		nScalars = 6
	}
	var scalars [][]byte
	for i := 0; i < nScalars; i++ {
		scalars = append(scalars, rnd32(int64(1150+i)))
	}
	classes := map[string]int{}
	err := vutil.ReadNDJSON(vutil.Env("VERIF_CASES", ""), func(line []byte) error {
		var c ncase
		if err := json.Unmarshal(line, &c); err != nil {
			return err
		}
		u, canon := ib(c.U), ib(c.Canon)
		if len(u) != 32 || len(canon) != 32 {
			return fmt.Errorf("bad case %s", line)
		}
		classes[c.Cls]++
		// TLC's decoding against the reference's own (a disagreement is a model/harness error, never a verdict)
		um := append([]byte(nil), u...)
		um[31] &= 0x7f
		if new(big.Int).Mod(decodeLE(um), p25519).Cmp(decodeLE(canon)) != 0 {
			t.Fatalf("model Canon(u) wrong for u=%x: %x", u, canon)
		}
		ss := scalars
		if c.Kind == "s" {
			s, cl := ib(c.S), ib(c.Clamp)
			k := append([]byte(nil), s...)
			k[0] &= 248
			k[31] &= 127
			k[31] |= 64
			if !bytes.Equal(k, cl) {
				t.Fatalf("model Clamp(s) wrong for s=%x: %x", s, cl)
			}
			ss = [][]byte{s}
		} else if strings.HasPrefix(c.Cls, "basepoint-") || c.Cls == "nbhd:9" {
			ss = append(append([][]byte{}, scalars...), make([]byte, 32))
		}
		for _, s := range ss {
			// the RFC 7748 value of the decoded inputs: ladder(clamp(s), u mod 2^255 mod p)
			sc := s
			if c.Kind == "s" {
				sc = ib(c.Clamp)
			}
			want := refX25519(sc, canon)
			if c.Err != bytes.Equal(want, zero32) {
				t.Fatalf("model low-order prediction wrong for u=%x (err=%v, value %x)", u, c.Err, want)
			}
			out.Case(fmt.Sprintf("nbhd|%x|%x", s, u))
			r.judgeWant(s, u, want, "all", map[string]any{"class": c.Cls, "case": c})
		}
		out.Sample(map[string]any{"class": c.Cls, "u": hex.EncodeToString(u), "err": c.Err})
		return nil
	})
	if err != nil {
		t.Fatal(err)
	}
	out.Extra["neighbourhood_classes"] = classes
}
