// c30_legacy_peer.go is the PEER of the one-sided strict-KEX scenarios of C30: an independent, minimal
// implementation of the SSH transport layer written from the RFCs with the Go standard library only (no code
// of package ssh, no hook).  It is a copy of the raw peer of the growth check X07 (harness/x07/x07_peer.go)
// with two switches and a blocking receive:
//
//	offerStrict   put kex-strict-[cs]-v00@openssh.com into the peer's first KEXINIT
//	honourStrict  enter strict mode (sequence numbers reset at NEWKEYS) when both sides offered
//
// offerStrict = honourStrict = false is a pre-Terrapin implementation: it never offers, never enters strict
// mode whatever the library offers, and keeps counting its sequence numbers through NEWKEYS.
//
//	RFC 4253 section 4.2  identification strings
//	RFC 4253 section 6    binary packet protocol, aes128-ctr + hmac-sha2-256 (MAC over sequence number and
//	                      the unencrypted packet, so the library's sequence numbers are checked all the time)
//	RFC 4253 section 7    KEXINIT / NEWKEYS / key derivation
//	RFC 8731              curve25519-sha256, ssh-ed25519 host keys (RFC 8709)
//	OpenSSH PROTOCOL 1.10 strict KEX (sequence numbers reset at NEWKEYS)
//
// The peer sends exactly the packets the script asks for and blocks (sync.Cond, no timer) in recv until the
// library has written a complete packet or closed the connection.
package c30

import (
	"bytes"
	"crypto/aes"
	"crypto/cipher"
	"crypto/ecdh"
	"crypto/ed25519"
	"crypto/hmac"
	"crypto/rand"
	"crypto/sha256"
	"encoding/binary"
	"fmt"
	"math/big"
	"strings"
	"sync"

	"verif/harness/memconn"
)

const (
	mDisconnect  = 1
	mIgnore      = 2
	mUnimpl      = 3
	mDebug       = 4
	mServiceReq  = 5
	mServiceAcc  = 6
	mExtInfo     = 7
	mKexInit     = 20
	mNewKeys     = 21
	mECDHInit    = 30
	mECDHReply   = 31
	mAuthRequest = 50
	mAuthFailure = 51
	mAuthSuccess = 52
	mGlobalReq   = 80
	mReqSuccess  = 81
	mReqFailure  = 82
	mPing        = 192
	mPong        = 193

	strictC = "kex-strict-c-v00@openssh.com"
	strictS = "kex-strict-s-v00@openssh.com"
)

func u32(v uint32) []byte    { b := make([]byte, 4); binary.BigEndian.PutUint32(b, v); return b }
func sshStr(s string) []byte { return append(u32(uint32(len(s))), s...) }
func sshBytes(b []byte) []byte {
	return append(u32(uint32(len(b))), b...)
}
func nameList(l []string) []byte { return sshStr(strings.Join(l, ",")) }

func cat(parts ...[]byte) []byte {
	var b []byte
	for _, p := range parts {
		b = append(b, p...)
	}
	return b
}

func getStr(p []byte) ([]byte, []byte, bool) {
	if len(p) < 4 {
		return nil, nil, false
	}
	n := binary.BigEndian.Uint32(p)
	if uint32(len(p)-4) < n {
		return nil, nil, false
	}
	return p[4 : 4+n], p[4+n:], true
}

func mpint(v []byte) []byte {
	// v: unsigned big-endian
	x := new(big.Int).SetBytes(v).Bytes()
	if len(x) > 0 && x[0]&0x80 != 0 {
		x = append([]byte{0}, x...)
	}
	return sshBytes(x)
}

// dirState is one direction of the binary packet protocol.
type dirState struct {
	enc    bool
	block  cipher.Block
	iv     []byte
	macKey []byte
	off    uint64 // keystream offset (bytes) in this key epoch
	seq    uint32
}

type keySet struct {
	iv, key, mac []byte
}

// keystream XORs data with the AES-CTR keystream starting at byte offset off (stateless).
func (d *dirState) keystream(data []byte, off uint64) {
	ctr := new(big.Int).SetBytes(d.iv)
	ctr.Add(ctr, new(big.Int).SetUint64(off/16))
	mod := new(big.Int).Lsh(big.NewInt(1), 128)
	var ks [16]byte
	pos := int(off % 16)
	first := true
	for i := 0; i < len(data); {
		ctr.Mod(ctr, mod)
		var in [16]byte
		ctr.FillBytes(in[:])
		d.block.Encrypt(ks[:], in[:])
		j := 0
		if first {
			j = pos
			first = false
		}
		for ; j < 16 && i < len(data); j++ {
			data[i] ^= ks[j]
			i++
		}
		ctr.Add(ctr, big.NewInt(1))
	}
}

func (d *dirState) install(k *keySet, strict bool) {
	blk, err := aes.NewCipher(k.key)
	if err != nil {
		panic(err)
	}
	d.enc, d.block, d.iv, d.macKey, d.off = true, blk, k.iv, k.mac, 0
	if strict {
		d.seq = 0
	}
}

// kexInitInfo is what the peer remembers of a KEXINIT of the library.
type kexInitInfo struct {
	Kex       []string
	HostKey   []string
	HasExtC   bool
	HasExtS   bool
	HasStrict bool
	Follows   bool
}

type rawPeer struct {
	mu       sync.Mutex
	c        *memconn.Conn
	isServer bool // the PEER's role
	inbuf    []byte
	inClosed bool // the library closed its end (or the conn is gone)
	rd, wr   dirState
	pendRd   *keySet
	pendWr   *keySet

	vC, vS []byte // identification strings as this peer hashes them

	hostPriv ed25519.PrivateKey // peer is server: its host key
	libHost  ed25519.PublicKey  // peer is client: the host key the library must prove

	myInit, libInit []byte
	libInitInfo     *kexInitInfo
	offerStrict     bool // the marker is in this peer's first KEXINIT
	honourStrict    bool // enter strict mode when both sides offered
	strict          bool
	cond            *sync.Cond // signalled by pump (on mu)
	firstDone       bool       // the first key exchange's NEWKEYS of this peer has been sent
	sessionID       []byte
	eph             *ecdh.PrivateKey
	libQ            []byte // peer is server: the library's ephemeral public key
	sigOK           *bool  // peer is client: the library's signature over H verified
	kexes           int
	problems        []string
}

func newRawPeer(c *memconn.Conn, isServer bool) *rawPeer {
	p := &rawPeer{c: c, isServer: isServer}
	p.cond = sync.NewCond(&p.mu)
	go p.pump()
	return p
}

func (p *rawPeer) fail(f string, a ...any) {
	p.problems = append(p.problems, fmt.Sprintf(f, a...))
}

// pump moves whatever the library wrote into inbuf; it never interprets anything.
func (p *rawPeer) pump() {
	buf := make([]byte, 64<<10)
	for {
		n, err := p.c.Read(buf)
		p.mu.Lock()
		p.inbuf = append(p.inbuf, buf[:n]...)
		if err != nil {
			p.inClosed = true
			p.cond.Broadcast()
			p.mu.Unlock()
			return
		}
		p.cond.Broadcast()
		p.mu.Unlock()
	}
}

func (p *rawPeer) writeRaw(b []byte) { p.c.Write(b) }

// takeLine removes and returns the bytes up to and including the first LF the library wrote (nil if none yet).
func (p *rawPeer) takeLine() []byte {
	p.mu.Lock()
	defer p.mu.Unlock()
	i := bytes.IndexByte(p.inbuf, '\n')
	if i < 0 {
		return nil
	}
	l := append([]byte(nil), p.inbuf[:i+1]...)
	p.inbuf = p.inbuf[i+1:]
	return l
}

func (p *rawPeer) libClosed() bool {
	p.mu.Lock()
	defer p.mu.Unlock()
	return p.inClosed
}

func (p *rawPeer) pendingBytes() int {
	p.mu.Lock()
	defer p.mu.Unlock()
	return len(p.inbuf)
}

// frame builds the wire form of one packet in the current write state and advances it.
func (p *rawPeer) frame(payload []byte) []byte {
	const mult = 16
	pad := mult - (5+len(payload))%mult
	if pad < 4 {
		pad += mult
	}
	pkt := make([]byte, 0, 5+len(payload)+pad+32)
	pkt = append(pkt, u32(uint32(1+len(payload)+pad))...)
	pkt = append(pkt, byte(pad))
	pkt = append(pkt, payload...)
	padding := make([]byte, pad)
	rand.Read(padding)
	pkt = append(pkt, padding...)
	if p.wr.enc {
		m := hmac.New(sha256.New, p.wr.macKey)
		m.Write(u32(p.wr.seq))
		m.Write(pkt)
		tag := m.Sum(nil)
		p.wr.keystream(pkt, p.wr.off)
		p.wr.off += uint64(len(pkt))
		pkt = append(pkt, tag...)
	}
	p.wr.seq++
	return pkt
}

// writePacket sends one packet with the given payload (any bytes, also none).
func (p *rawPeer) writePacket(payload []byte) {
	w := p.frame(payload)
	p.c.Write(w)
	if len(payload) > 0 && payload[0] == mNewKeys && p.pendWr != nil {
		// (a deviating script may send NEWKEYS out of turn: then there is nothing to switch to)
		p.wr.install(p.pendWr, p.strict)
		p.pendWr = nil
		p.firstDone = true
	}
}

// writePackets sends several packets in ONE write on the connection.
func (p *rawPeer) writePackets(payloads [][]byte) {
	var w []byte
	for _, pl := range payloads {
		w = append(w, p.frame(pl)...)
	}
	p.c.Write(w)
}

// next decodes one packet of the library from inbuf; (nil, false) when no complete packet is there.
func (p *rawPeer) next() ([]byte, bool) {
	p.mu.Lock()
	defer p.mu.Unlock()
	return p.nextLocked()
}

// recv blocks until the library has written one complete packet (payload, nil), or reports why there will be
// none: the peer cannot decode what the library wrote, or the library closed the connection.
func (p *rawPeer) recv() ([]byte, error) {
	p.mu.Lock()
	defer p.mu.Unlock()
	for {
		np := len(p.problems)
		pl, ok := p.nextLocked()
		if len(p.problems) > np {
			return nil, fmt.Errorf("%s", p.problems[np])
		}
		if ok {
			return pl, nil
		}
		if p.inClosed {
			return nil, fmt.Errorf("the library closed the connection (%d undecoded bytes left)", len(p.inbuf))
		}
		p.cond.Wait()
	}
}

// recvLine blocks until the library has written its identification line.
func (p *rawPeer) recvLine() ([]byte, error) {
	p.mu.Lock()
	defer p.mu.Unlock()
	for {
		if i := bytes.IndexByte(p.inbuf, '\n'); i >= 0 {
			l := append([]byte(nil), p.inbuf[:i+1]...)
			p.inbuf = p.inbuf[i+1:]
			return l, nil
		}
		if p.inClosed {
			return nil, fmt.Errorf("the library closed the connection before writing its identification line")
		}
		p.cond.Wait()
	}
}

func (p *rawPeer) nextLocked() ([]byte, bool) {
	var plain []byte
	if !p.rd.enc {
		if len(p.inbuf) < 4 {
			return nil, false
		}
		n := int(binary.BigEndian.Uint32(p.inbuf))
		if n > 1<<20 || n < 2 {
			p.fail("library wrote a packet with length field %d", n)
			p.inbuf = nil
			return nil, false
		}
		if len(p.inbuf) < 4+n {
			return nil, false
		}
		plain = append([]byte(nil), p.inbuf[:4+n]...)
		p.inbuf = p.inbuf[4+n:]
	} else {
		if len(p.inbuf) < 16 {
			return nil, false
		}
		head := append([]byte(nil), p.inbuf[:16]...)
		p.rd.keystream(head, p.rd.off)
		n := int(binary.BigEndian.Uint32(head))
		if n > 1<<20 || n < 2 || (4+n)%16 != 0 {
			p.fail("library wrote an undecipherable packet (length field %d, read seq %d)", n, p.rd.seq)
			p.inbuf = nil
			return nil, false
		}
		if len(p.inbuf) < 4+n+32 {
			return nil, false
		}
		plain = append([]byte(nil), p.inbuf[:4+n]...)
		tag := p.inbuf[4+n : 4+n+32]
		p.rd.keystream(plain, p.rd.off)
		m := hmac.New(sha256.New, p.rd.macKey)
		m.Write(u32(p.rd.seq))
		m.Write(plain)
		if !hmac.Equal(m.Sum(nil), tag) {
			p.fail("MAC of a packet written by the library does not verify (read seq %d): sequence numbers or keys differ", p.rd.seq)
			p.inbuf = nil
			return nil, false
		}
		p.rd.off += uint64(4 + n)
		p.inbuf = p.inbuf[4+n+32:]
	}
	p.rd.seq++
	n := int(binary.BigEndian.Uint32(plain))
	pad := int(plain[4])
	if pad+1 > n {
		p.fail("library wrote a packet with padding %d > length %d", pad, n)
		return nil, false
	}
	if pad < 4 {
		p.fail("library wrote a packet with %d bytes of padding (RFC 4253 section 6: at least four)", pad)
	}
	payload := plain[5 : 4+n-pad]
	p.absorb(payload)
	return payload, true
}

// absorb does what a transport has to do with the library's key exchange packets so that later packets
// can be read: remember KEXINIT, remember / evaluate the ECDH message, switch keys at NEWKEYS.
func (p *rawPeer) absorb(payload []byte) {
	if len(payload) == 0 {
		return
	}
	switch payload[0] {
	case mKexInit:
		p.libInit = append([]byte(nil), payload...)
		p.libInitInfo = parseKexInit(payload)
		if p.libInitInfo == nil {
			p.fail("library wrote a malformed KEXINIT")
		}
	case mECDHInit:
		if !p.isServer {
			p.fail("library (server) wrote an ECDH init")
			return
		}
		q, rest, ok := getStr(payload[1:])
		if !ok || len(rest) != 0 || len(q) != 32 {
			p.fail("library wrote a malformed ECDH init")
			return
		}
		p.libQ = append([]byte(nil), q...)
	case mECDHReply:
		if p.isServer {
			p.fail("library (client) wrote an ECDH reply")
			return
		}
		p.clientFinish(payload)
	case mNewKeys:
		if p.pendRd == nil {
			p.fail("library wrote NEWKEYS before the peer had key material")
			return
		}
		p.rd.install(p.pendRd, p.strict)
		p.pendRd = nil
	}
}

func parseKexInit(p []byte) *kexInitInfo {
	if len(p) < 17 || p[0] != mKexInit {
		return nil
	}
	rest := p[17:]
	var lists [][]string
	for i := 0; i < 10; i++ {
		s, r, ok := getStr(rest)
		if !ok {
			return nil
		}
		rest = r
		if len(s) == 0 {
			lists = append(lists, nil)
		} else {
			lists = append(lists, strings.Split(string(s), ","))
		}
	}
	if len(rest) != 5 {
		return nil
	}
	ki := &kexInitInfo{Kex: lists[0], HostKey: lists[1], Follows: rest[0] != 0}
	for _, k := range lists[0] {
		switch k {
		case "ext-info-c":
			ki.HasExtC = true
		case "ext-info-s":
			ki.HasExtS = true
		case strictC, strictS:
			ki.HasStrict = true
		}
	}
	return ki
}

// kexInitPayload builds this peer's KEXINIT.
func (p *rawPeer) kexInitPayload(extC, strict bool) []byte {
	kex := []string{"curve25519-sha256"}
	if extC {
		kex = append(kex, "ext-info-c")
	}
	if strict {
		if p.isServer {
			kex = append(kex, strictS)
		} else {
			kex = append(kex, strictC)
		}
	}
	cookie := make([]byte, 16)
	rand.Read(cookie)
	return cat([]byte{mKexInit}, cookie,
		nameList(kex), nameList([]string{"ssh-ed25519"}),
		nameList([]string{"aes128-ctr"}), nameList([]string{"aes128-ctr"}),
		nameList([]string{"hmac-sha2-256"}), nameList([]string{"hmac-sha2-256"}),
		nameList([]string{"none"}), nameList([]string{"none"}),
		nameList(nil), nameList(nil), []byte{0}, u32(0))
}

// sendKexInit sends this peer's KEXINIT (first or re-key).
func (p *rawPeer) sendKexInit(extC, strict bool) {
	if p.kexes == 0 {
		p.offerStrict = strict
	}
	p.myInit = p.kexInitPayload(extC, strict)
	p.writePacket(p.myInit)
}

func (p *rawPeer) decideStrict() {
	if p.sessionID == nil {
		p.strict = p.offerStrict && p.honourStrict && p.libInitInfo != nil && p.libInitInfo.HasStrict
	}
}

func (p *rawPeer) exchangeHash(vC, vS, iC, iS, kS, qC, qS, secret []byte) []byte {
	h := sha256.New()
	h.Write(sshBytes(vC))
	h.Write(sshBytes(vS))
	h.Write(sshBytes(iC))
	h.Write(sshBytes(iS))
	h.Write(sshBytes(kS))
	h.Write(sshBytes(qC))
	h.Write(sshBytes(qS))
	h.Write(mpint(secret))
	return h.Sum(nil)
}

func derive(secret, H, sid []byte, letter byte, n int) []byte {
	h := sha256.New()
	h.Write(mpint(secret))
	h.Write(H)
	h.Write([]byte{letter})
	h.Write(sid)
	out := h.Sum(nil)
	for len(out) < n {
		h.Reset()
		h.Write(mpint(secret))
		h.Write(H)
		h.Write(out)
		out = h.Sum(out)
	}
	return out[:n]
}

func (p *rawPeer) setKeys(secret, H []byte) {
	if p.sessionID == nil {
		p.sessionID = H
	}
	c2s := &keySet{iv: derive(secret, H, p.sessionID, 'A', 16), key: derive(secret, H, p.sessionID, 'C', 16), mac: derive(secret, H, p.sessionID, 'E', 32)}
	s2c := &keySet{iv: derive(secret, H, p.sessionID, 'B', 16), key: derive(secret, H, p.sessionID, 'D', 16), mac: derive(secret, H, p.sessionID, 'F', 32)}
	if p.isServer {
		p.pendRd, p.pendWr = c2s, s2c
	} else {
		p.pendRd, p.pendWr = s2c, c2s
	}
	p.kexes++
}

func hostKeyBlob(pub ed25519.PublicKey) []byte {
	return cat(sshStr("ssh-ed25519"), sshBytes(pub))
}

// serverReply (peer is server): answer the library's ECDH init.  hashVC / hashVS are the identification
// strings to hash (normally p.vC / p.vS; a deviating script passes others).
func (p *rawPeer) serverReply(hashVC, hashVS []byte) error {
	if p.libQ == nil || p.libInit == nil || p.myInit == nil {
		// out of turn (a deviating script): a well-formed reply that answers nothing
		junk := make([]byte, 32+64)
		rand.Read(junk)
		kS := hostKeyBlob(p.hostPriv.Public().(ed25519.PublicKey))
		p.writePacket(cat([]byte{mECDHReply}, sshBytes(kS), sshBytes(junk[:32]), sshBytes(cat(sshStr("ssh-ed25519"), sshBytes(junk[32:])))))
		return nil
	}
	p.decideStrict()
	eph, err := ecdh.X25519().GenerateKey(rand.Reader)
	if err != nil {
		return err
	}
	lq, err := ecdh.X25519().NewPublicKey(p.libQ)
	if err != nil {
		return err
	}
	secret, err := eph.ECDH(lq)
	if err != nil {
		return err
	}
	kS := hostKeyBlob(p.hostPriv.Public().(ed25519.PublicKey))
	qS := eph.PublicKey().Bytes()
	H := p.exchangeHash(hashVC, hashVS, p.libInit, p.myInit, kS, p.libQ, qS, secret)
	sig := ed25519.Sign(p.hostPriv, H)
	p.writePacket(cat([]byte{mECDHReply}, sshBytes(kS), sshBytes(qS), sshBytes(cat(sshStr("ssh-ed25519"), sshBytes(sig)))))
	p.setKeys(secret, H)
	p.libQ = nil
	return nil
}

// clientInit (peer is client): send the ECDH init.
func (p *rawPeer) clientInit() error {
	eph, err := ecdh.X25519().GenerateKey(rand.Reader)
	if err != nil {
		return err
	}
	p.eph = eph
	p.writePacket(cat([]byte{mECDHInit}, sshBytes(eph.PublicKey().Bytes())))
	return nil
}

// clientFinish (peer is client): evaluate the library's ECDH reply.
func (p *rawPeer) clientFinish(payload []byte) {
	kS, rest, ok1 := getStr(payload[1:])
	qS, rest, ok2 := getStr(rest)
	sigBlob, rest, ok3 := getStr(rest)
	if !ok1 || !ok2 || !ok3 || len(rest) != 0 || p.eph == nil || p.libInit == nil {
		p.fail("library wrote a malformed or unexpected ECDH reply")
		return
	}
	p.decideStrict()
	lq, err := ecdh.X25519().NewPublicKey(qS)
	if err != nil {
		p.fail("library's ephemeral key: %v", err)
		return
	}
	secret, err := p.eph.ECDH(lq)
	if err != nil {
		p.fail("ECDH: %v", err)
		return
	}
	H := p.exchangeHash(p.vC, p.vS, p.myInit, p.libInit, kS, p.eph.PublicKey().Bytes(), qS, secret)
	ok := false
	if bytes.Equal(kS, hostKeyBlob(p.libHost)) {
		name, r, okA := getStr(sigBlob)
		sig, r, okB := getStr(r)
		ok = okA && okB && len(r) == 0 && string(name) == "ssh-ed25519" && ed25519.Verify(p.libHost, H, sig)
	}
	p.sigOK = &ok
	p.setKeys(secret, H)
	p.eph = nil
}

func (p *rawPeer) close() { p.c.Close() }
