// One-sided strict-KEX offers (C30, S5/S6 of spec/SSHStrictKex.tla): every scenario TLC enumerated with one
// `legacy` side is replayed with the independent raw peer of c30_legacy_peer.go (never offers, never enters
// strict mode, keeps counting its sequence numbers, sends IGNORE/DEBUG where the scenario says) against the REAL
// library endpoint of the other role, created through the public API (ssh.NewServerConn / ssh.NewClientConn),
// over the in-memory connection.  Judged at the level of the property: the connection is established and
// protected packets (service request/accept, authentication, one global request and its reply) flow in both
// directions.  The peer's hmac-sha2-256 covers the sequence number, so a library that reset its counters at
// NEWKEYS although strict KEX was not negotiated fails here.
//
// Nothing in here waits for a timer: the peer blocks on a sync.Cond until the library wrote a packet or closed
// the connection.  A watchdog outside the scenarios classifies a scenario that does not end from a goroutine
// dump: "every goroutine blocked for ever" is a hang (a verdict), anything else a stall (infrastructure).
package c30

import (
	"crypto/ed25519"
	"crypto/rand"
	"encoding/json"
	"fmt"
	"net"
	"os"
	"regexp"
	"runtime"
	"strings"
	"sync"
	"sync/atomic"
	"testing"
	"time"

	"golang.org/x/crypto/ssh"
	"verif/harness/memconn"
	"verif/harness/vutil"
)

type lscen struct {
	Kind  map[string]string `json:"kind"`
	Offer map[string]bool   `json:"offer"`
	Plan  map[string][]item `json:"plan"`
	Noise map[string][]int  `json:"noise"`
}

type lcase struct {
	Sc      lscen             `json:"sc"`
	St      map[string]string `json:"st"`
	Strict  map[string]bool   `json:"strict"`
	Success bool              `json:"success"`
}

const (
	legacyVersion = "SSH-2.0-c30legacy_0.1"
	legacyUser    = "c30user"
	legacyRequest = "c30-ping@verif.example"
)

var (
	legacyKeysOnce   sync.Once
	legacyHostPriv   ed25519.PrivateKey
	legacyHostPub    ed25519.PublicKey
	legacyHostSigner ssh.Signer
)

func legacyKeys() {
	legacyKeysOnce.Do(func() {
		var err error
		if legacyHostPub, legacyHostPriv, err = ed25519.GenerateKey(rand.Reader); err != nil {
			panic(err)
		}
		if legacyHostSigner, err = ssh.NewSignerFromKey(legacyHostPriv); err != nil {
			panic(err)
		}
	})
}

// lresult is what one run showed.
type lresult struct {
	OK        bool      `json:"ok"`
	Step      string    `json:"step,omitempty"`     // the step of the script at which the run ended
	PeerErr   string    `json:"peer_err,omitempty"` // what the peer saw
	LibErr    string    `json:"lib_err,omitempty"`  // what the constructor / SendRequest of the library returned
	Progress  []string  `json:"progress,omitempty"` // steps completed
	LibToPeer int       `json:"lib_to_peer"`        // protected packets of the library the peer authenticated
	PeerToLib int       `json:"peer_to_lib"`        // protected packets of the peer the library demonstrably accepted
	PeerSeq   [2]uint32 `json:"peer_seq"`           // the peer's read / write sequence numbers at the end
}

// runOneSided runs the peer (role peerRole, "c" or "s") with the given switches and noise vector against the
// real library endpoint of the other role.
func runOneSided(peerRole string, offer, honour bool, noise []int) (r lresult) {
	legacyKeys()
	a, b := memconn.Pair()
	p := newRawPeer(b, peerRole == "s")
	p.honourStrict = honour
	p.hostPriv, p.libHost = legacyHostPriv, legacyHostPub

	type libRes struct {
		conn ssh.Conn
		reqs <-chan *ssh.Request
		err  error
	}
	libDone := make(chan libRes, 1)
	if peerRole == "c" {
		sc := &ssh.ServerConfig{NoClientAuth: true}
		sc.AddHostKey(legacyHostSigner)
		go func() {
			c, chans, reqs, err := ssh.NewServerConn(a, sc)
			if err != nil {
				libDone <- libRes{err: err}
				return
			}
			go func() {
				for nc := range chans {
					nc.Reject(ssh.Prohibited, "c30")
				}
			}()
			go ssh.DiscardRequests(reqs)
			libDone <- libRes{conn: c}
		}()
	} else {
		cc := &ssh.ClientConfig{User: legacyUser,
			HostKeyCallback: func(string, net.Addr, ssh.PublicKey) error { return nil }}
		go func() {
			c, chans, reqs, err := ssh.NewClientConn(a, "peer.example:22", cc)
			if err != nil {
				libDone <- libRes{err: err}
				return
			}
			go func() {
				for nc := range chans {
					nc.Reject(ssh.Prohibited, "c30")
				}
			}()
			go ssh.DiscardRequests(reqs)
			libDone <- libRes{conn: c}
		}()
	}
	var lib libRes
	gotLib := false
	defer func() {
		p.mu.Lock()
		r.PeerSeq = [2]uint32{p.rd.seq, p.wr.seq}
		p.mu.Unlock()
		p.close()
		a.Close()
		if !gotLib {
			lib = <-libDone // the connection is closed: the constructor returns
		}
		if lib.conn != nil {
			lib.conn.Close()
		}
		if r.LibErr == "" && lib.err != nil {
			r.LibErr = lib.err.Error()
		}
	}()

	step := func(s string) { r.Step = s }
	done := func() { r.Progress = append(r.Progress, r.Step) }
	nz := func(slot int) {
		n := 0
		if slot < len(noise) {
			n = noise[slot]
		}
		for j := 0; j < n; j++ {
			if (j+slot)%2 == 0 {
				p.writePacket(cat([]byte{mIgnore}, sshStr("c30 noise")))
			} else {
				p.writePacket(cat([]byte{mDebug}, []byte{1}, sshStr("c30 debug"), sshStr("")))
			}
		}
	}
	// expect reads the library's next packet, which has to be of the given type
	expect := func(typ byte) ([]byte, bool) {
		wasEnc := p.rd.enc
		pl, err := p.recv()
		if err != nil {
			r.PeerErr = err.Error()
			return nil, false
		}
		if len(pl) == 0 || pl[0] != typ {
			t := -1
			if len(pl) > 0 {
				t = int(pl[0])
			}
			r.PeerErr = fmt.Sprintf("the library wrote a packet of type %d where type %d is due", t, typ)
			return nil, false
		}
		if wasEnc {
			r.LibToPeer++
		}
		return pl, true
	}

	step("version")
	p.writeRaw([]byte(legacyVersion + "\r\n"))
	line, err := p.recvLine()
	if err != nil {
		r.PeerErr = err.Error()
		return
	}
	libV := []byte(strings.TrimSuffix(strings.TrimSuffix(string(line), "\n"), "\r"))
	if peerRole == "s" {
		p.vS, p.vC = []byte(legacyVersion), libV
	} else {
		p.vC, p.vS = []byte(legacyVersion), libV
	}
	done()

	step("kexinit")
	nz(0)
	p.sendKexInit(false, offer)
	if _, ok := expect(mKexInit); !ok {
		return
	}
	if p.libInitInfo == nil || !p.libInitInfo.HasStrict {
		r.PeerErr = "the library's first KEXINIT does not offer strict KEX (the scenario assumes it does)"
		return
	}
	done()

	if peerRole == "c" {
		step("kexmsg")
		nz(1)
		if err := p.clientInit(); err != nil {
			r.PeerErr = err.Error()
			return
		}
		if _, ok := expect(mECDHReply); !ok {
			return
		}
		if p.sigOK == nil || !*p.sigOK {
			r.PeerErr = "the library's signature over the exchange hash does not verify"
			return
		}
		done()
		step("newkeys")
		if _, ok := expect(mNewKeys); !ok {
			return
		}
		nz(2)
		p.writePacket([]byte{mNewKeys})
		done()
		step("service")
		nz(3)
		p.writePacket(cat([]byte{mServiceReq}, sshStr("ssh-userauth")))
		if _, ok := expect(mServiceAcc); !ok {
			return
		}
		r.PeerToLib++ // the library answered the protected service request
		done()
		step("auth")
		p.writePacket(cat([]byte{mAuthRequest}, sshStr(legacyUser), sshStr("ssh-connection"), sshStr("none")))
		if _, ok := expect(mAuthSuccess); !ok {
			return
		}
		r.PeerToLib++
		done()
		step("established")
		lib, gotLib = <-libDone, true
		if lib.err != nil {
			r.LibErr = lib.err.Error()
			return
		}
		done()
		step("request")
		p.writePacket(cat([]byte{mGlobalReq}, sshStr(legacyRequest), []byte{1}))
		if _, ok := expect(mReqFailure); !ok { // ssh.DiscardRequests answers every request with a failure
			return
		}
		r.PeerToLib++
		done()
	} else {
		step("kexmsg")
		if _, ok := expect(mECDHInit); !ok {
			return
		}
		nz(1)
		if err := p.serverReply(p.vC, p.vS); err != nil {
			r.PeerErr = err.Error()
			return
		}
		done()
		step("newkeys")
		nz(2)
		p.writePacket([]byte{mNewKeys})
		if _, ok := expect(mNewKeys); !ok {
			return
		}
		done()
		step("service")
		if _, ok := expect(mServiceReq); !ok {
			return
		}
		nz(3)
		p.writePacket(cat([]byte{mServiceAcc}, sshStr("ssh-userauth")))
		done()
		step("auth")
		if _, ok := expect(mAuthRequest); !ok {
			return
		}
		r.PeerToLib++ // the library went on after the protected service accept
		p.writePacket([]byte{mAuthSuccess})
		done()
		step("established")
		lib, gotLib = <-libDone, true
		if lib.err != nil {
			r.LibErr = lib.err.Error()
			return
		}
		r.PeerToLib++
		done()
		step("request")
		type reqRes struct {
			ok  bool
			err error
		}
		rr := make(chan reqRes, 1)
		go func() {
			ok, _, err := lib.conn.SendRequest(legacyRequest, true, nil)
			rr <- reqRes{ok, err}
		}()
		if _, ok := expect(mGlobalReq); !ok {
			return
		}
		p.writePacket([]byte{mReqFailure})
		x := <-rr
		if x.err != nil || x.ok {
			r.LibErr = fmt.Sprintf("SendRequest returned (%v, %v); the peer answered with a failure", x.ok, x.err)
			return
		}
		r.PeerToLib++
		done()
	}
	r.Step = ""
	r.OK = r.LibToPeer >= 1 && r.PeerToLib >= 1
	return
}

// ---------------------------------------------------------------- watchdog

var (
	lwdCase  atomic.Value // string: the scenario in progress
	lwdStart atomic.Int64
)

func lwdProgress(name string) {
	lwdCase.Store(name)
	lwdStart.Store(time.Now().UnixNano())
}

var lGoroutineHeader = regexp.MustCompile(`^goroutine (\d+)(?: gp=\S+ m=\S+(?: mp=\S+)?)? \[([^\]]*)\]`)
var lSSHFrame = regexp.MustCompile(`golang\.org/x/crypto/ssh\.(\(\*?\w+\)\.[\w.]+|[\w.]+)`)

// classifyDump: hang = every goroutine but the watchdog waits on a channel, a condition variable or a lock (none
// running, runnable, sleeping or in a system call) and one of them is inside package ssh: with an in-memory
// connection and no timer in play nothing can ever wake them.
func classifyDump(dump, self string) (frame string, hang bool) {
	allBlocked := true
	for _, g := range strings.Split(dump, "\n\n") {
		m := lGoroutineHeader.FindStringSubmatch(g)
		if m == nil || strings.Contains(g, self) || strings.Contains(g, "os/signal.") {
			continue
		}
		state := m[2]
		blocked := false
		for _, pre := range []string{"chan receive", "chan send", "select", "sync.Cond.Wait", "sync.Mutex.Lock", "sync.RWMutex", "semacquire", "sync.WaitGroup.Wait"} {
			if strings.HasPrefix(state, pre) {
				blocked = true
			}
		}
		if !blocked {
			allBlocked = false
		}
		if f := lSSHFrame.FindString(g); f != "" && frame == "" && blocked {
			frame = strings.TrimPrefix(f, "golang.org/x/crypto/ssh.")
		}
	}
	return frame, allBlocked && frame != ""
}

// startLegacyWatchdog: onHang is called (once) with the scenario and the frame when the scenario in progress is
// provably stuck; a scenario that is merely slow ends the process without a verdict.
func startLegacyWatchdog(limit time.Duration, onHang func(name, frame, dump string)) (stop func()) {
	quit := make(chan struct{})
	lwdProgress("")
	go func() {
		buf := make([]byte, 4<<20)
		strikes := 0
		for {
			select {
			case <-quit:
				return
			case <-time.After(time.Second):
			}
			if time.Since(time.Unix(0, lwdStart.Load())) < limit {
				strikes = 0
				continue
			}
			name, _ := lwdCase.Load().(string)
			dump := string(buf[:runtime.Stack(buf, true)])
			if frame, hang := classifyDump(dump, "c30.startLegacyWatchdog"); hang {
				// twice, a second apart, for the same scenario
				time.Sleep(time.Second)
				dump2 := string(buf[:runtime.Stack(buf, true)])
				if n2, _ := lwdCase.Load().(string); n2 == name {
					if _, hang2 := classifyDump(dump2, "c30.startLegacyWatchdog"); hang2 {
						onHang(name, frame, dump2)
						return
					}
				}
				continue
			}
			strikes++
			if strikes >= 20 {
				fmt.Printf("\nC30-STALL scenario=%s\n%s\n", name, dump)
				os.Exit(9) // no result file with a verdict: infrastructure
			}
		}
	}()
	return func() { close(quit) }
}

// ---------------------------------------------------------------- the test

var noiseSlotNames = []string{"before-kexinit", "after-kexinit", "before-newkeys", "after-newkeys"}

func noiseLabel(nv []int) string {
	var l []string
	for i, n := range nv {
		if n > 0 && i < len(noiseSlotNames) {
			l = append(l, noiseSlotNames[i])
		}
	}
	if len(l) == 0 {
		return "none"
	}
	return strings.Join(l, "+")
}

func TestLegacy(t *testing.T) {
	out := vutil.NewOut()
	var outMu sync.Mutex
	write := func() {
		if err := out.Write(); err != nil {
			t.Fatal(err)
		}
	}
	var cases []lcase
	seen := map[string]bool{}
	err := vutil.ReadNDJSON(vutil.Env("VERIF_CASES", ""), func(line []byte) error {
		var c lcase
		if err := json.Unmarshal(line, &c); err != nil {
			return err
		}
		k, _ := json.Marshal(c.Sc)
		if seen[string(k)] {
			return nil
		}
		seen[string(k)] = true
		cases = append(cases, c)
		return nil
	})
	if err != nil {
		write()
		t.Fatal(err)
	}
	limit := 60 * time.Second
	stop := startLegacyWatchdog(limit, func(name, frame, dump string) {
		if strings.HasPrefix(name, "control:") { // a misbehaving peer: outside the property
			fmt.Printf("\nC30-STALL (control) %s frame=%s\n%s\n", name, frame, dump)
			os.Exit(9)
		}
		outMu.Lock()
		var sc any
		json.Unmarshal([]byte(name[strings.Index(name, "{"):]), &sc)
		sig := name[:strings.Index(name, " ")] + ":hang"
		out.Violation(sig, "one-sided strict-KEX offer: the scenario never ends; every goroutine is blocked, package ssh in "+frame,
			map[string]any{"scenario": sc, "frame": frame, "dump": tailStr(dump, 6000)})
		out.Write()
		fmt.Printf("\nC30-HANG %s frame=%s\n%s\n", sig, frame, dump)
		os.Exit(1)
	})
	defer stop()

	ran := map[string]int{}
	for _, c := range cases {
		var peerRole string
		switch {
		case c.Sc.Kind["c"] == "legacy" && c.Sc.Kind["s"] == "real":
			peerRole = "c"
		case c.Sc.Kind["s"] == "legacy" && c.Sc.Kind["c"] == "real":
			peerRole = "s"
		default:
			write()
			t.Fatalf("not a one-sided scenario: %+v", c.Sc)
		}
		realRole := map[string]string{"c": "server", "s": "client"}[peerRole]
		if c.Sc.Offer[peerRole] || !c.Sc.Offer[map[string]string{"c": "s", "s": "c"}[peerRole]] || !isHonest(c.Sc.Plan["c"]) || !isHonest(c.Sc.Plan["s"]) || !c.Success {
			write()
			t.Fatalf("scenario outside the one-sided honest set (or the model does not predict success): %+v", c)
		}
		nv := c.Sc.Noise[peerRole]
		sig := "strictkex-onesided:" + realRole + ":" + noiseLabel(nv)
		k, _ := json.Marshal(c.Sc)
		lwdProgress(sig + " " + string(k))
		r := runOneSided(peerRole, false, false, nv)
		outMu.Lock()
		out.Case(string(k))
		if noiseLabel(nv) == "none" {
			ran[realRole+":quiet"]++
		} else {
			ran[realRole+":noisy"]++
		}
		if len(out.Samples) < 2 && noiseLabel(nv) != "none" {
			out.Sample(map[string]any{"scenario": c.Sc, "real": r})
		}
		if !r.OK {
			out.Violation(sig, fmt.Sprintf("strict KEX not negotiated (the %s is a pre-Terrapin implementation that does not offer it; its IGNORE/DEBUG: %s), yet the connection with the real %s does not work: at step %q peer: %s; library: %s",
				map[string]string{"c": "client", "s": "server"}[peerRole], noiseLabel(nv), realRole, r.Step, r.PeerErr, r.LibErr),
				map[string]any{"scenario": c.Sc, "real": r})
			t.Errorf("%s: %+v", sig, r)
		}
		outMu.Unlock()
	}

	// Both sides offer and the independent peer honours strict KEX: the connection has to work, i.e. the library's
	// counters did restart at zero in both directions at NEWKEYS (S2 as seen on the wire).  The same peer NOT
	// honouring its own offer has to fail: that is the sensitivity control of this harness.
	control := map[string]any{}
	for _, peerRole := range []string{"c", "s"} {
		realRole := map[string]string{"c": "server", "s": "client"}[peerRole]
		sc := map[string]any{"kind": map[string]string{peerRole: "independent-strict", map[string]string{"c": "s", "s": "c"}[peerRole]: "real"}, "offer": map[string]bool{"c": true, "s": true}}
		k, _ := json.Marshal(sc)
		sig := "strictkex-wire-seqnum:" + realRole
		lwdProgress(sig + " " + string(k))
		r := runOneSided(peerRole, true, true, nil)
		outMu.Lock()
		out.Case(string(k))
		if !r.OK {
			out.Violation(sig, fmt.Sprintf("both sides offer strict KEX and the independent peer restarts its sequence numbers at NEWKEYS, yet the connection with the real %s does not work: at step %q peer: %s; library: %s", realRole, r.Step, r.PeerErr, r.LibErr),
				map[string]any{"scenario": sc, "real": r})
			t.Errorf("%s: %+v", sig, r)
		}
		outMu.Unlock()
		lwdProgress("control:" + realRole + " {}")
		r2 := runOneSided(peerRole, true, false, nil)
		control[realRole] = map[string]any{"fails": !r2.OK, "step": r2.Step, "peer": r2.PeerErr, "lib": r2.LibErr}
	}
	lwdProgress("")
	outMu.Lock()
	out.Extra["onesided_ran"] = ran
	out.Extra["control_offer_not_honoured"] = control
	write()
	outMu.Unlock()
}

func tailStr(s string, n int) string {
	if len(s) > n {
		return s[len(s)-n:]
	}
	return s
}
