// Binding R for C30: every scenario TLC enumerated from SSHStrictKex (attacker plans on the
// cleartext prefix of either direction, legitimate peer noise, strict KEX offered or not) is
// replayed on a real client/server handshakeTransport pair through a man-in-the-middle that
// parses the cleartext packets and applies the plan; the outcome (both sides established and
// able to exchange an application packet, or not) is compared with the model, and in strict
// mode the sequence numbers after every NEWKEYS are checked to have restarted at zero.
package c30

import (
	"crypto/ed25519"
	"crypto/rand"
	"encoding/binary"
	"encoding/json"
	"fmt"
	"io"
	"sync"
	"testing"
	"time"

	"golang.org/x/crypto/ssh"
	"verif/harness/memconn"
	"verif/harness/vutil"
)

type item struct {
	T string `json:"t"`
	I int    `json:"i"`
	K string `json:"k"`
}

type scen struct {
	Offer map[string]bool   `json:"offer"`
	Plan  map[string][]item `json:"plan"`
	Noise map[string][]int  `json:"noise"`
}

type tcase struct {
	Sc      scen            `json:"sc"`
	St      map[string]string `json:"st"`
	Success bool            `json:"success"`
}

var hostKey ssh.Signer

func init() {
	_, priv, _ := ed25519.GenerateKey(rand.Reader)
	hostKey, _ = ssh.NewSignerFromKey(priv)
}

func clearPacket(payload []byte) []byte {
	pad := 8 - (5+len(payload))%8
	if pad < 4 {
		pad += 8
	}
	out := make([]byte, 4, 5+len(payload)+pad)
	binary.BigEndian.PutUint32(out, uint32(1+len(payload)+pad))
	out = append(out, byte(pad))
	out = append(out, payload...)
	out = append(out, make([]byte, pad)...)
	return out
}

func injected(kind string) []byte {
	switch kind {
	case "IGNORE":
		return clearPacket([]byte{ssh.VerifMsgIgnore, 0, 0, 0, 0})
	case "DEBUG":
		return clearPacket([]byte{ssh.VerifMsgDebug, 0, 0, 0, 0, 0, 0, 0, 0, 0})
	case "UNIMPL":
		return clearPacket([]byte{ssh.VerifMsgUnimplemented, 0, 0, 0, 0})
	case "NEWKEYS":
		return clearPacket([]byte{ssh.VerifMsgNewKeys})
	default:
		return clearPacket([]byte{192, 1, 2, 3})
	}
}

func noisePacket(j int) []byte {
	if j%2 == 0 {
		return []byte{ssh.VerifMsgIgnore, 0, 0, 0, 3, 'a', 'b', 'c'}
	}
	return []byte{ssh.VerifMsgDebug, 0, 0, 0, 0, 1, 'x', 0, 0, 0, 0}
}

// mitm forwards from src to dst applying the plan to the cleartext prefix.
// Originals are recognised by position: the sender's cleartext packets are exactly
// KEXINIT, kex message, NEWKEYS (scenarios with an attacker plan carry no sender noise).
func mitm(src io.Reader, dst io.Writer, plan []item, honest bool, done *sync.WaitGroup) {
	defer done.Done()
	if honest {
		io.Copy(dst, src)
		return
	}
	var orig [][]byte
	readOrig := func() bool { // read one more cleartext packet from the sender
		var hdr [4]byte
		if _, err := io.ReadFull(src, hdr[:]); err != nil {
			return false
		}
		n := binary.BigEndian.Uint32(hdr[:])
		if n > 1<<20 {
			return false
		}
		body := make([]byte, n)
		if _, err := io.ReadFull(src, body); err != nil {
			return false
		}
		orig = append(orig, append(hdr[:], body...))
		return true
	}
	for _, it := range plan {
		if it.T == "inj" {
			if _, err := dst.Write(injected(it.K)); err != nil {
				return
			}
			continue
		}
		for len(orig) <= it.I {
			if !readOrig() {
				return
			}
		}
		if _, err := dst.Write(orig[it.I]); err != nil {
			return
		}
	}
	// make sure all three cleartext originals have been consumed (deleted ones are dropped) before passing
	// the encrypted stream through
	for len(orig) < 3 {
		if !readOrig() {
			return
		}
	}
	io.Copy(dst, src)
}

type outcome struct {
	EstC, EstS     bool
	ErrC, ErrS     string
	TimeoutC, TimeoutS bool
	PingC, PingS   bool // c received s's ping / s received c's ping
	Success        bool
	SeqNote        string
	SeqBad         bool
}

type counter struct {
	mu    sync.Mutex
	since map[string]int // packets written by side since its last NEWKEYS
	total map[string]int
	nk    map[string]int // NEWKEYS received by side
}

func isHonest(p []item) bool {
	return len(p) == 3 && p[0].T == "orig" && p[0].I == 0 && p[1].T == "orig" && p[1].I == 1 && p[2].T == "orig" && p[2].I == 2
}

func runScenario(sc scen, failTimeout, okTimeout time.Duration) (o outcome) {
	c1, m1 := memconn.Pair()
	m2, s1 := memconn.Pair()
	var wg sync.WaitGroup
	wg.Add(2)
	go mitm(m1, m2, sc.Plan["c"], isHonest(sc.Plan["c"]), &wg)
	go mitm(m2, m1, sc.Plan["s"], isHonest(sc.Plan["s"]), &wg)
	cnt := &counter{since: map[string]int{}, total: map[string]int{}, nk: map[string]int{}}
	rec := func(side, ev string, p []byte) {
		cnt.mu.Lock()
		defer cnt.mu.Unlock()
		switch ev {
		case "wire", "noise":
			cnt.total[side]++
			if len(p) > 0 && p[0] == ssh.VerifMsgNewKeys {
				cnt.since[side] = 0
			} else {
				cnt.since[side]++
			}
		case "recv":
			if len(p) > 0 && p[0] == ssh.VerifMsgNewKeys {
				cnt.nk[side]++
			}
		}
	}
	slot := func(p []byte) int {
		switch {
		case p[0] == ssh.VerifMsgKexInit:
			return 0
		case p[0] >= 30 && p[0] <= 49:
			return 1
		case p[0] == ssh.VerifMsgNewKeys:
			return 2
		case p[0] == 94:
			return 3
		}
		return -1
	}
	mkNoise := func(side string) ssh.VerifHSNoise {
		nz := sc.Noise[side]
		used := map[int]bool{}
		var mu sync.Mutex
		return func(_ string, next []byte) [][]byte {
			s := slot(next)
			mu.Lock()
			defer mu.Unlock()
			if s < 0 || s >= len(nz) || used[s] {
				return nil
			}
			used[s] = true
			var out [][]byte
			for j := 0; j < nz[s]; j++ {
				out = append(out, noisePacket(j+s))
			}
			return out
		}
	}
	cconf := &ssh.ClientConfig{HostKeyCallback: ssh.InsecureIgnoreHostKey()}
	cconf.KeyExchanges = []string{"curve25519-sha256"}
	sconf := &ssh.ServerConfig{}
	sconf.KeyExchanges = []string{"curve25519-sha256"}
	sconf.AddHostKey(hostKey)
	if ciph := vutil.Env("VERIF_CIPHER", "chacha20-poly1305@openssh.com"); ciph != "" {
		// a cipher whose authentication covers the SSH sequence number (AES-GCM does not use it)
		cconf.Ciphers = []string{ciph}
		sconf.Ciphers = []string{ciph}
		cconf.MACs = []string{"hmac-sha2-256-etm@openssh.com"}
		sconf.MACs = []string{"hmac-sha2-256-etm@openssh.com"}
	}
	if !sc.Offer["c"] {
		ssh.VerifDisableStrictKex(&cconf.Config)
	}
	if !sc.Offer["s"] {
		ssh.VerifDisableStrictKex(&sconf.Config)
	}
	v := []byte("SSH-2.0-verif")
	hc := ssh.VerifNewClientHandshakeNoise(c1, cconf, v, v, "addr", c1.RemoteAddr(), rec, mkNoise("c"))
	hs := ssh.VerifNewServerHandshakeNoise(s1, sconf, v, v, rec, mkNoise("s"))
	defer func() {
		go func() {
			c1.Close(); s1.Close(); m1.Close(); m2.Close()
			hc.Close(); hs.Close()
		}()
	}()
	type wres struct {
		side string
		err  error
	}
	ch := make(chan wres, 2)
	go func() { ch <- wres{"c", hc.WaitSession()} }()
	go func() { ch <- wres{"s", hs.WaitSession()} }()
	expectFail := !(isHonest(sc.Plan["c"]) && isHonest(sc.Plan["s"]))
	to := okTimeout
	if expectFail {
		to = failTimeout
	}
	timer := time.After(to)
	got := 0
	for got < 2 {
		select {
		case r := <-ch:
			got++
			if r.side == "c" {
				o.EstC = r.err == nil
				if r.err != nil {
					o.ErrC = r.err.Error()
				}
			} else {
				o.EstS = r.err == nil
				if r.err != nil {
					o.ErrS = r.err.Error()
				}
			}
			if r.err != nil { // one side failed: the handshake as a whole cannot succeed any more
				return
			}
		case <-timer:
			o.TimeoutC, o.TimeoutS = !o.EstC && o.ErrC == "", !o.EstS && o.ErrS == ""
			return
		}
	}
	// both established: exchange one application packet each way
	ping := func(from, to *ssh.VerifHandshake, tag byte) bool {
		if err := from.WritePacket([]byte{94, tag, 0, 0, 0, 0}); err != nil {
			return false
		}
		res := make(chan bool, 1)
		go func() {
			for {
				p, err := to.ReadPacket()
				if err != nil {
					res <- false
					return
				}
				if len(p) > 1 && p[0] == 94 && p[1] == tag {
					res <- true
					return
				}
			}
		}()
		select {
		case ok := <-res:
			return ok
		case <-time.After(to2(expectFail, failTimeout, okTimeout)):
			return false
		}
	}
	o.PingS = ping(hc, hs, 1)
	o.PingC = ping(hs, hc, 2)
	o.Success = o.PingC && o.PingS
	if !o.Success {
		return
	}
	checkSeq := func(when string) {
		// quiescent: both pings delivered, nothing in flight
		time.Sleep(2 * time.Millisecond)
		cr, cw := hc.SeqNums()
		sr, sw := hs.SeqNums()
		hsStrictC, trStrictC := hc.StrictMode()
		hsStrictS, trStrictS := hs.StrictMode()
		cnt.mu.Lock()
		sinceC, sinceS, totC, totS := cnt.since["c"], cnt.since["s"], cnt.total["c"], cnt.total["s"]
		cnt.mu.Unlock()
		wantStrict := sc.Offer["c"] && sc.Offer["s"]
		if hsStrictC != wantStrict || hsStrictS != wantStrict || trStrictC != wantStrict || trStrictS != wantStrict {
			o.SeqBad = true
			o.SeqNote += fmt.Sprintf("[%s] strict mode flags c=(%v,%v) s=(%v,%v), want %v; ", when, hsStrictC, trStrictC, hsStrictS, trStrictS, wantStrict)
		}
		expC, expS := totC, totS
		if wantStrict {
			expC, expS = sinceC, sinceS
		}
		if int(cw) != expC || int(sr) != expC || int(sw) != expS || int(cr) != expS {
			o.SeqBad = true
			o.SeqNote += fmt.Sprintf("[%s] seq c.write=%d s.read=%d (want %d) s.write=%d c.read=%d (want %d) strict=%v; ", when, cw, sr, expC, sw, cr, expS, wantStrict)
		}
	}
	checkSeq("after first kex")
	// force a second key exchange and check again
	cnt.mu.Lock()
	nk0c, nk0s := cnt.nk["c"], cnt.nk["s"]
	cnt.mu.Unlock()
	hc.RequestKeyExchange()
	deadline := time.Now().Add(okTimeout)
	for {
		cnt.mu.Lock()
		doneKex := cnt.nk["c"] > nk0c && cnt.nk["s"] > nk0s
		cnt.mu.Unlock()
		if doneKex || time.Now().After(deadline) {
			break
		}
		time.Sleep(200 * time.Microsecond)
	}
	if !(ping(hc, hs, 3) && ping(hs, hc, 4)) {
		o.SeqBad = true
		o.SeqNote += "application packets not delivered after the second key exchange; "
		return
	}
	checkSeq("after second kex")
	return
}

func to2(expectFail bool, a, b time.Duration) time.Duration {
	if expectFail {
		return a
	}
	return b
}

func TestReplay(t *testing.T) {
	out := vutil.NewOut()
	defer func() {
		if err := out.Write(); err != nil {
			t.Fatal(err)
		}
	}()
	var cases []tcase
	seen := map[string]int{}
	err := vutil.ReadNDJSON(vutil.Env("VERIF_CASES", ""), func(line []byte) error {
		var c tcase
		if err := json.Unmarshal(line, &c); err != nil {
			return err
		}
		k, _ := json.Marshal(c.Sc)
		if i, ok := seen[string(k)]; ok {
			if cases[i].Success != c.Success {
				return fmt.Errorf("model is not deterministic for scenario %s", k)
			}
			return nil
		}
		seen[string(k)] = len(cases)
		cases = append(cases, c)
		return nil
	})
	if err != nil {
		t.Fatal(err)
	}
	failTO, okTO := 400*time.Millisecond, 20*time.Second
	type job struct {
		i int
		o outcome
	}
	res := make([]outcome, len(cases))
	sem := make(chan struct{}, 12)
	var wg sync.WaitGroup
	for i := range cases {
		wg.Add(1)
		sem <- struct{}{}
		go func(i int) {
			defer wg.Done()
			defer func() { <-sem }()
			res[i] = runScenario(cases[i].Sc, failTO, okTO)
		}(i)
	}
	wg.Wait()
	infra := 0
	for i, c := range cases {
		o := res[i]
		k, _ := json.Marshal(c.Sc)
		out.Case(string(k))
		bothStrict := c.Sc.Offer["c"] && c.Sc.Offer["s"]
		attacked := !(isHonest(c.Sc.Plan["c"]) && isHonest(c.Sc.Plan["s"]))
		if i < 3 {
			out.Sample(map[string]any{"scenario": c.Sc, "model_success": c.Success, "real": o})
		}
		switch {
		case o.Success && !c.Success:
			sig := "strictkex-model-mismatch-established"
			what := "connection established and usable although the model predicts failure"
			if bothStrict && attacked {
				sig = "strictkex-attack-not-detected"
				what = "strict KEX negotiated, attacker manipulated the cleartext prefix, yet both sides established a working connection"
			} else if !attacked {
				// honest run predicted to fail only for strict mode with noise before NEWKEYS; the property does not cover it
				continue
			} else {
				// attacker vs non-strict peers: no property attached (conformance only)
				out.Extra["weak_mismatch"] = fmt.Sprintf("%s", k)
				continue
			}
			out.Violation(sig, what, map[string]any{"scenario": c.Sc, "real": o})
			t.Errorf("%s: %s", sig, k)
		case !o.Success && c.Success:
			if attacked {
				out.Extra["weak_mismatch_fail"] = fmt.Sprintf("%s", k)
				continue
			}
			if o.TimeoutC || o.TimeoutS || (o.ErrC == "" && o.ErrS == "") {
				infra++
				t.Logf("infra: honest scenario did not complete in time: %s %+v", k, o)
				continue
			}
			out.Violation("strictkex-noise-not-transparent", fmt.Sprintf("no attacker; IGNORE/DEBUG sent by the peer itself made the connection fail (client err %q, server err %q)", o.ErrC, o.ErrS),
				map[string]any{"scenario": c.Sc, "real": o})
			t.Errorf("noise not transparent: %s %+v", k, o)
		}
		if o.Success && o.SeqBad {
			out.Violation("strictkex-seqnum", "sequence numbers after NEWKEYS are not as specified: "+o.SeqNote, map[string]any{"scenario": c.Sc, "real": o})
			t.Errorf("seq: %s %s", k, o.SeqNote)
		}
	}
	out.Extra["infra_timeouts"] = infra
	if infra > 0 && infra > len(cases)/10 {
		t.Fatalf("too many honest scenarios timed out (%d)", infra)
	}
}
