package c29

import (
	"bytes"
	"crypto/ecdh"
	"crypto/elliptic"
	"crypto/mlkem"
	"crypto/sha256"
	"encoding/hex"
	"encoding/json"
	"fmt"
	"math/big"
	"math/rand"
	"sort"
	"testing"

	"golang.org/x/crypto/ssh"
	"verif/harness/vutil"
)

// ---------------------------------------------------------------- model records

type mVal struct {
	Cls string `json:"cls"`
	N   int    `json:"n"`
	Own string `json:"own"`
}
type mPlan struct {
	M   string   `json:"m"`
	Req []uint32 `json:"req"`
	Grp string   `json:"grp"`
	E   mVal     `json:"e"`
	F   mVal     `json:"f"`
	Ks  string   `json:"ks"`
	Sig string   `json:"sig"`
}
type planCase struct {
	Plan      *mPlan `json:"plan"`
	COut      string `json:"cOut"`
	SOut      string `json:"sOut"`
	Agree     bool   `json:"agree"`
	Grp       int    `json:"grp"`
	Choose    int    `json:"choose"`
	Untouched bool   `json:"untouched"`
	Gex       bool   `json:"gexprobe"` // set by checks/C29.py on the records of the request table
}

var defaultReq = []uint32{2048, 2048, 8192}

func (p *mPlan) reqAltered() bool {
	return !(p.Req[0] == defaultReq[0] && p.Req[1] == defaultReq[1] && p.Req[2] == defaultReq[2])
}

// ---------------------------------------------------------------- parsing recorded packets into hashed fields

type transcript struct {
	req        []uint32
	p, g       *big.Int
	e, f       *big.Int // finite-field methods
	qc, qs     []byte   // string-valued public values
	ks, sig    []byte
	complete   bool
	groupBytes []byte
}

// view reconstructs what the client (side "c") or the server (side "s") hashed.
func view(method, side string, pp *pipe) (*transcript, error) {
	c2s, s2c := pp.packets("c2s"), pp.packets("s2c")
	pick := func(r packetRec, sender string) []byte {
		if sender == side {
			return r.Sent
		}
		return r.Delivered
	}
	t := &transcript{}
	need := func(rs []packetRec, n int) error {
		if len(rs) < n {
			return fmt.Errorf("transcript too short")
		}
		return nil
	}
	var initP, replyP []byte
	if method == "gex" {
		if err := need(c2s, 2); err != nil {
			return nil, err
		}
		if err := need(s2c, 2); err != nil {
			return nil, err
		}
		rq := pick(c2s[0], "c")
		if len(rq) != 13 || rq[0] != 34 {
			return nil, fmt.Errorf("bad gex request packet %x", rq)
		}
		r := &reader{b: rq[1:]}
		t.req = []uint32{r.u32(), r.u32(), r.u32()}
		gp := pick(s2c[0], "s")
		if len(gp) < 1 || gp[0] != 31 {
			return nil, fmt.Errorf("bad gex group packet")
		}
		r = &reader{b: gp[1:]}
		t.p, t.g = r.mpint(), r.mpint()
		if r.err != nil || len(r.b) != 0 {
			return nil, fmt.Errorf("bad gex group packet")
		}
		initP, replyP = pick(c2s[1], "c"), pick(s2c[1], "s")
		if initP[0] != 32 || replyP[0] != 33 {
			return nil, fmt.Errorf("bad gex init/reply packet types %d %d", initP[0], replyP[0])
		}
	} else {
		if err := need(c2s, 1); err != nil {
			return nil, err
		}
		if err := need(s2c, 1); err != nil {
			return nil, err
		}
		initP, replyP = pick(c2s[0], "c"), pick(s2c[0], "s")
		if initP[0] != 30 || replyP[0] != 31 {
			return nil, fmt.Errorf("bad init/reply packet types %d %d", initP[0], replyP[0])
		}
	}
	ri, rr := &reader{b: initP[1:]}, &reader{b: replyP[1:]}
	if method == "dh" || method == "gex" {
		t.e = ri.mpint()
		t.ks = rr.str()
		t.f = rr.mpint()
		t.sig = rr.str()
	} else {
		t.qc = ri.str()
		t.ks = rr.str()
		t.qs = rr.str()
		t.sig = rr.str()
	}
	if ri.err != nil || rr.err != nil || len(ri.b) != 0 || len(rr.b) != 0 {
		return nil, fmt.Errorf("kex packets do not parse")
	}
	t.complete = true
	return t, nil
}

// recomputeH builds the preimage from the field list of the TLA+ module and hashes it with the standard library.
func recomputeH(name string, m *ssh.VerifKexMagics, t *transcript, kEnc []byte) ([]byte, []byte, error) {
	info := kexTable[name]
	spec, ok := specs[info.method]
	if !ok {
		return nil, nil, fmt.Errorf("no field list from TLC for method %s", info.method)
	}
	vals := map[string]any{"V_C": m.ClientVersion, "V_S": m.ServerVersion, "I_C": m.ClientKexInit, "I_S": m.ServerKexInit, "K_S": t.ks}
	rk := &reader{b: kEnc}
	if info.method == "mlkem" {
		vals["K"] = rk.str()
	} else {
		vals["K"] = rk.mpint()
	}
	if rk.err != nil || len(rk.b) != 0 {
		return nil, nil, fmt.Errorf("K of the kex result is not one encoded value: %x", kEnc)
	}
	switch info.method {
	case "dh":
		vals["e"], vals["f"] = t.e, t.f
	case "gex":
		vals["min"], vals["n"], vals["max"] = t.req[0], t.req[1], t.req[2]
		vals["p"], vals["g"], vals["e"], vals["f"] = t.p, t.g, t.e, t.f
	case "ecdh", "c25519":
		vals["Q_C"], vals["Q_S"] = t.qc, t.qs
	case "mlkem":
		vals["C_INIT"], vals["S_REPLY"] = t.qc, t.qs
	}
	pre, err := preimage(spec, vals)
	if err != nil {
		return nil, nil, err
	}
	h := info.hash.New()
	h.Write(pre)
	// canonical encoding of K: re-encode the decoded value with the harness's encoder
	var kCanon []byte
	if info.method == "mlkem" {
		kCanon = encStr(vals["K"].([]byte))
	} else {
		kCanon = encMpint(vals["K"].(*big.Int))
	}
	return h.Sum(nil), kCanon, nil
}

// ---------------------------------------------------------------- concrete peer values for the model's classes

const oakley2Hex = "FFFFFFFFFFFFFFFFC90FDAA22168C234C4C6628B80DC1CD129024E088A67CC74020BBEA63B139B22514A08798E3404DDEF9519B3CD3A431B302B0A6DF25F14374FE1356D6D51C245E485B576625E7EC6F44C42E9A637ED6B0BFF5CB6F406B7EDEE386BFB5A899FA5AE9F24117C4B1FE649286651ECE65381FFFFFFFFFFFFFFFF"

var primes = map[int]*big.Int{} // by bit size; 1024 restated from RFC 2409, the others learnt from real GEX group messages

func dhValue(n int, p *big.Int, rng *rand.Rand) *big.Int {
	one := big.NewInt(1)
	switch n {
	case -1, 0, 1, 2:
		return big.NewInt(int64(n))
	case 21:
		return new(big.Int).Sub(p, big.NewInt(2))
	case 22:
		return new(big.Int).Sub(p, one)
	case 23:
		return new(big.Int).Set(p)
	case 24:
		return new(big.Int).Add(p, one)
	default: // the attacker's own valid value g^z
		z := new(big.Int).SetBytes(randBytes(rng, 32))
		return new(big.Int).Exp(big.NewInt(2), z, p)
	}
}

var lowOrder = []string{
	"0100000000000000000000000000000000000000000000000000000000000000",
	"e0eb7a7c3b41b8ae1656e3faf19fc46ada098deb9c32b1fd866205165f49b800",
	"5f9c95bca3508c24b1d0b1559c83ef5b04445cc4581c8e86d8224eddd09f1157",
	"ecffffffffffffffffffffffffffffffffffffffffffffffffffffffffffff7f",
	"edffffffffffffffffffffffffffffffffffffffffffffffffffffffffffff7f",
	"eeffffffffffffffffffffffffffffffffffffffffffffffffffffffffffff7f",
}

func x25519Value(cls string, orig []byte, rng *rand.Rand, variant int) []byte {
	switch cls {
	case "attacker":
		k, err := ecdh.X25519().NewPrivateKey(randBytes(rng, 32))
		if err != nil {
			panic(err)
		}
		return k.PublicKey().Bytes()
	case "len31":
		return orig[:31]
	case "len33":
		return append(append([]byte(nil), orig...), 7)
	case "zero", "xzero":
		return make([]byte, 32)
	case "loworder", "xlow":
		b, _ := hex.DecodeString(lowOrder[variant%len(lowOrder)])
		return b
	}
	return nil
}

// ecValue returns the encoding of a point of the class, or nil when it cannot be constructed on this curve.
func ecValue(cls string, curve elliptic.Curve, orig []byte, rng *rand.Rand) []byte {
	P := curve.Params().P
	bl := (curve.Params().BitSize + 7) / 8
	enc := func(x, y *big.Int) []byte {
		if x.BitLen() > 8*bl || y.BitLen() > 8*bl {
			return nil
		}
		out := make([]byte, 1+2*bl)
		out[0] = 4
		x.FillBytes(out[1 : 1+bl])
		y.FillBytes(out[1+bl:])
		return out
	}
	x, y := new(big.Int).SetBytes(orig[1:1+bl]), new(big.Int).SetBytes(orig[1+bl:])
	// y^2 = x^3 - 3x + b: find a point with a small x, so that x + p still fits in the encoding
	small := func() (*big.Int, *big.Int) {
		for i := int64(0); i < 200; i++ {
			xx := big.NewInt(i)
			rhs := new(big.Int).Exp(xx, big.NewInt(3), P)
			rhs.Sub(rhs, new(big.Int).Mul(big.NewInt(3), xx))
			rhs.Add(rhs, curve.Params().B)
			rhs.Mod(rhs, P)
			if yy := new(big.Int).ModSqrt(rhs, P); yy != nil {
				return xx, yy
			}
		}
		return nil, nil
	}
	switch cls {
	case "attacker":
		var c ecdh.Curve
		switch bl {
		case 32:
			c = ecdh.P256()
		case 48:
			c = ecdh.P384()
		default:
			c = ecdh.P521()
		}
		k, err := c.GenerateKey(cryptoRand{rng})
		if err != nil {
			panic(err)
		}
		return k.PublicKey().Bytes()
	case "infinity":
		return enc(big.NewInt(0), big.NewInt(0))
	case "offcurve":
		return enc(x, new(big.Int).Mod(new(big.Int).Add(y, big.NewInt(1)), P))
	case "xbig":
		if v := enc(new(big.Int).Add(x, P), y); v != nil {
			return v
		}
		sx, sy := small()
		if sx == nil {
			return nil
		}
		return enc(new(big.Int).Add(sx, P), sy)
	case "ybig":
		return enc(x, new(big.Int).Add(y, P))
	case "badformat":
		// compressed form: not accepted for key exchange values by elliptic.Unmarshal
		out := append([]byte{2 + byte(y.Bit(0))}, orig[1:1+bl]...)
		return out
	}
	return nil
}

type cryptoRand struct{ r *rand.Rand }

func (c cryptoRand) Read(p []byte) (int, error) { return c.r.Read(p) }

const ekSize, ctSize = mlkem.EncapsulationKeySize768, mlkem.CiphertextSize768

func mlkemClientValue(cls string, orig []byte, rng *rand.Rand, variant int) []byte {
	v := append([]byte(nil), orig...)
	switch cls {
	case "attacker":
		dk, err := mlkem.GenerateKey768()
		if err != nil {
			panic(err)
		}
		return append(dk.EncapsulationKey().Bytes(), x25519Value("attacker", nil, rng, 0)...)
	case "ektrunc":
		return append(v[:ekSize-1], v[ekSize:]...)
	case "ekext":
		return append(v[:ekSize:ekSize], append([]byte{0}, v[ekSize:]...)...)
	case "ekcoeff": // first 12-bit coefficient := 4095 >= q
		v[0] = 0xff
		v[1] |= 0x0f
		return v
	case "xzero", "xlow":
		return append(v[:ekSize:ekSize], x25519Value(cls, nil, rng, variant)...)
	}
	return nil
}

func mlkemServerValue(cls string, orig, clientInit []byte, rng *rand.Rand, variant int) []byte {
	v := append([]byte(nil), orig...)
	switch cls {
	case "attacker":
		ek, err := mlkem.NewEncapsulationKey768(clientInit[:ekSize])
		if err != nil {
			return nil
		}
		_, ct := ek.Encapsulate()
		return append(ct, x25519Value("attacker", nil, rng, 0)...)
	case "cttrunc":
		return append(v[:ctSize-1], v[ctSize:]...)
	case "ctext":
		return append(v[:ctSize:ctSize], append([]byte{0}, v[ctSize:]...)...)
	case "ctflip":
		v[rng.Intn(ctSize)] ^= 1 << uint(rng.Intn(8))
		return v
	case "xzero", "xlow":
		return append(v[:ctSize:ctSize], x25519Value(cls, nil, rng, variant)...)
	}
	return nil
}

// ---------------------------------------------------------------- the man in the middle for one plan

type mitm struct {
	plan     *mPlan
	name     string
	info     kexInfo
	rng      *rand.Rand
	variant  int
	hkType   string
	skipped  string // why the plan could not be made concrete
	serverP  *big.Int
	clientP  *big.Int
	clientIn []byte // C_INIT as sent
	applied  map[string]bool
}

func (mm *mitm) fixedP() *big.Int { return primes[groupBits[mm.name]] }

func (mm *mitm) tamper(dir string, n int, pk []byte) []byte {
	m := mm.info.method
	isInit := dir == "c2s" && ((m == "gex" && n == 1) || (m != "gex" && n == 0))
	isReply := dir == "s2c" && ((m == "gex" && n == 1) || (m != "gex" && n == 0))
	switch {
	case m == "gex" && dir == "c2s" && n == 0:
		if !mm.plan.reqAltered() {
			return nil
		}
		mm.applied["req"] = true
		out := []byte{34}
		for _, v := range mm.plan.Req {
			out = append(out, encU32(v)...)
		}
		return out
	case m == "gex" && dir == "s2c" && n == 0:
		r := &reader{b: pk[1:]}
		p, g := r.mpint(), r.mpint()
		mm.serverP = p
		np, ng := p, g
		switch mm.plan.Grp {
		case "keep":
			mm.clientP = p
			return nil
		case "other":
			if p.BitLen() == 2048 {
				np = primes[3072]
			} else {
				np = primes[2048]
			}
		case "small":
			np = primes[1024]
		case "huge":
			np = new(big.Int).Add(new(big.Int).Lsh(big.NewInt(1), 8199), big.NewInt(1))
		case "g0":
			ng = big.NewInt(0)
		case "g1":
			ng = big.NewInt(1)
		case "gpm1":
			ng = new(big.Int).Sub(p, big.NewInt(1))
		}
		if np == nil {
			mm.skipped = "prime for the substituted group not known"
			return nil
		}
		mm.applied["grp"] = true
		mm.clientP = np
		return append(append([]byte{31}, encMpint(np)...), encMpint(ng)...)
	case isInit:
		if m != "dh" && m != "gex" {
			r := &reader{b: pk[1:]}
			mm.clientIn = r.str()
		}
		if mm.plan.E.Cls == "keep" {
			return nil
		}
		var nv []byte
		switch m {
		case "dh", "gex":
			p := mm.serverP
			if m == "dh" {
				p = mm.fixedP()
			}
			if p == nil {
				mm.skipped = "group prime not known"
				return nil
			}
			mm.applied["e"] = true
			return append([]byte{pk[0]}, encMpint(dhValue(mm.plan.E.N, p, mm.rng))...)
		case "ecdh":
			nv = ecValue(mm.plan.E.Cls, mm.info.curve, mm.clientIn, mm.rng)
		case "c25519":
			nv = x25519Value(mm.plan.E.Cls, mm.clientIn, mm.rng, mm.variant)
		case "mlkem":
			nv = mlkemClientValue(mm.plan.E.Cls, mm.clientIn, mm.rng, mm.variant)
		}
		if nv == nil {
			mm.skipped = "value class " + mm.plan.E.Cls + " not constructible for " + mm.name
			return nil
		}
		mm.applied["e"] = true
		return append([]byte{pk[0]}, encStr(nv)...)
	case isReply:
		r := &reader{b: pk[1:]}
		ks := r.str()
		var fInt *big.Int
		var fStr []byte
		if m == "dh" || m == "gex" {
			fInt = r.mpint()
		} else {
			fStr = r.str()
		}
		sig := r.str()
		if r.err != nil {
			mm.skipped = "reply does not parse"
			return nil
		}
		if mm.plan.F.Cls != "keep" {
			switch m {
			case "dh", "gex":
				p := mm.clientP
				if m == "dh" {
					p = mm.fixedP()
				}
				if p == nil {
					mm.skipped = "group prime not known"
					return nil
				}
				fInt = dhValue(mm.plan.F.N, p, mm.rng)
			case "ecdh":
				fStr = ecValue(mm.plan.F.Cls, mm.info.curve, fStr, mm.rng)
			case "c25519":
				fStr = x25519Value(mm.plan.F.Cls, fStr, mm.rng, mm.variant)
			case "mlkem":
				fStr = mlkemServerValue(mm.plan.F.Cls, fStr, mm.clientIn, mm.rng, mm.variant)
			}
			if fInt == nil && fStr == nil {
				mm.skipped = "value class " + mm.plan.F.Cls + " not constructible for " + mm.name
				return nil
			}
			mm.applied["f"] = true
		}
		switch mm.plan.Ks {
		case "attacker":
			ks = hkAtk[ssh.KeyAlgoED25519].PublicKey().Marshal()
			mm.applied["ks"] = true
		case "corrupt":
			ks = ks[:len(ks)-3]
			mm.applied["ks"] = true
		}
		if mm.plan.Sig == "flip" {
			sig[len(sig)-1-mm.rng.Intn(8)] ^= 0x40
			mm.applied["sig"] = true
		}
		out := append([]byte{pk[0]}, encStr(ks)...)
		if fInt != nil {
			out = append(out, encMpint(fInt)...)
		} else {
			out = append(out, encStr(fStr)...)
		}
		return append(out, encStr(sig)...)
	}
	return nil
}

// ---------------------------------------------------------------- the harness as a DH-GEX client

type gexProbe struct {
	bits    int // 0: the server refused the request
	p, g    *big.Int
	sErr    error
	hOK     bool // completed exchange: signature over the independently recomputed H verified
	hDetail string
}

// probeGex sends (min, n, max) to the real server half; complete = finish the exchange as an independent client.
func probeGex(name string, hk hostKeyCase, req [3]uint32, complete bool, rng *rand.Rand) (res gexProbe) {
	pp := newPipe(nil)
	ce, se := pipeEnd{pp, "c"}, pipeEnd{pp, "s"}
	m := newMagics(rng)
	done := make(chan struct{})
	var sErr error
	go func() {
		defer close(done)
		defer se.Close()
		defer func() {
			if r := recover(); r != nil {
				sErr = fmt.Errorf("PANIC: %v", r)
			}
		}()
		_, sErr = ssh.VerifKexServer(name, se, rand.New(rand.NewSource(rng.Int63())), m, []ssh.Signer{hk.signer}, hk.algo)
	}()
	defer func() { ce.Close(); <-done; res.sErr = sErr }()
	pk := []byte{34}
	for _, v := range req {
		pk = append(pk, encU32(v)...)
	}
	if err := ce.WritePacket(pk); err != nil {
		return
	}
	gp, err := ce.ReadPacket()
	if err != nil {
		return // refused
	}
	if gp[0] != 31 {
		res.hDetail = fmt.Sprintf("unexpected packet type %d", gp[0])
		return
	}
	r := &reader{b: gp[1:]}
	res.p, res.g = r.mpint(), r.mpint()
	if r.err != nil || len(r.b) != 0 {
		res.hDetail = "group message does not parse"
		return
	}
	res.bits = res.p.BitLen()
	if !complete {
		return
	}
	x := new(big.Int).SetBytes(randBytes(rng, 40))
	e := new(big.Int).Exp(res.g, x, res.p)
	if err := ce.WritePacket(append([]byte{32}, encMpint(e)...)); err != nil {
		res.hDetail = "write init: " + err.Error()
		return
	}
	rp, err := ce.ReadPacket()
	if err != nil || rp[0] != 33 {
		res.hDetail = fmt.Sprintf("no reply: %v", err)
		return
	}
	r = &reader{b: rp[1:]}
	ks, f, sig := r.str(), r.mpint(), r.str()
	if r.err != nil || len(r.b) != 0 {
		res.hDetail = "reply does not parse"
		return
	}
	K := new(big.Int).Exp(f, x, res.p)
	t := &transcript{req: req[:], p: res.p, g: res.g, e: e, f: f, ks: ks, sig: sig}
	H, _, err := recomputeH(name, m, t, encMpint(K))
	if err != nil {
		res.hDetail = err.Error()
		return
	}
	key, err := ssh.ParsePublicKey(ks)
	if err != nil {
		res.hDetail = "host key: " + err.Error()
		return
	}
	if err := ssh.VerifKexVerifyHostKeySignature(key, hk.algo, &ssh.VerifKexResult{H: H, Signature: sig}); err != nil {
		res.hDetail = "signature over the independently computed H does not verify: " + err.Error()
		return
	}
	res.hOK = true
	return
}

// Go transcription of the declarative GexServerD / ChooseDHD of spec/SSHKex.tla (validated against the TLC table)
func chooseRef(mn, want, mx uint64) int {
	best := 0
	var inRange []int
	for _, s := range []int{2048, 3072, 4096} {
		if uint64(s) >= mn && uint64(s) <= mx {
			inRange = append(inRange, s)
		}
	}
	if len(inRange) == 0 {
		return 0
	}
	sort.Ints(inRange)
	for _, s := range inRange {
		if uint64(s) >= want {
			return s
		}
	}
	best = inRange[len(inRange)-1]
	return best
}
func gexServerRef(mn, want, mx uint64) int {
	if !(mn <= want && want <= mx) {
		return 0
	}
	return chooseRef(mn, want, mx)
}

// ---------------------------------------------------------------- the test

type driver struct {
	t    *testing.T
	out  *vutil.Out
	rng  *rand.Rand
	hks  []hostKeyCase
	stat map[string]int
}

func (d *driver) viol(sig, what string, detail any) {
	d.out.Violation(sig, what, detail)
	d.t.Errorf("%s: %s (%v)", sig, what, detail)
}

func (d *driver) learnPrimes() {
	b, _ := new(big.Int).SetString(oakley2Hex, 16)
	primes[1024] = b
	for _, bits := range []uint32{2048, 3072, 4096} {
		r := probeGex("diffie-hellman-group-exchange-sha256", d.hks[0], [3]uint32{bits, bits, bits}, false, d.rng)
		if r.bits == int(bits) {
			primes[int(bits)] = r.p
		}
	}
}

// honest: one untampered exchange; agreement, independent H, canonical K, independent K where possible.
func (d *driver) honest(name string, hk hostKeyCase) {
	info := kexTable[name]
	m := newMagics(d.rng)
	ex := runExchange(name, hk, m, nil, d.rng.Int63(), false)
	key := "honest|" + name + "|" + hk.name
	d.out.Case(key)
	det := map[string]any{"kex": name, "hostkey": hk.name}
	if ex.cErr != nil || ex.sErr != nil {
		d.viol("honest-exchange-fails:"+info.method, fmt.Sprintf("untampered %s exchange with host key %s fails: client %v, server %v", name, hk.name, ex.cErr, ex.sErr), det)
		return
	}
	c, s := ex.cRes, ex.sRes
	if !bytes.Equal(c.H, s.H) || !bytes.Equal(c.K, s.K) {
		d.viol("halves-disagree:"+info.method, "client and server derive different H or K", det)
		return
	}
	if c.Hash != info.hash || s.Hash != info.hash {
		d.viol("wrong-hash-function:"+name, fmt.Sprintf("kex result hash %v/%v, the method's is %v", c.Hash, s.Hash, info.hash), det)
	}
	if !bytes.Equal(s.HostKey, hk.signer.PublicKey().Marshal()) || !bytes.Equal(c.HostKey, s.HostKey) || ex.seenKey == nil ||
		!bytes.Equal(ex.seenKey.Marshal(), s.HostKey) {
		d.viol("host-key-not-bound:"+info.method, "host key of the results / callback is not the server's key", det)
	}
	for _, side := range []string{"c", "s"} {
		t, err := view(info.method, side, ex.pipe)
		if err != nil {
			d.t.Fatalf("harness: cannot parse the recorded packets of %s: %v", name, err)
		}
		H, kCanon, err := recomputeH(name, m, t, c.K)
		if err != nil {
			d.viol("K-not-one-encoded-value:"+info.method, err.Error(), det)
			return
		}
		if !bytes.Equal(H, c.H) {
			det["side"] = side
			det["H_code"], det["H_spec"] = hex.EncodeToString(c.H), hex.EncodeToString(H)
			d.viol("exchange-hash-differs-from-spec:"+info.method,
				"H of both halves is not the hash of the preimage built from the recorded transcript per the field list of spec/SSHKex.tla", det)
			return
		}
		if !bytes.Equal(kCanon, c.K) {
			d.viol("K-encoding-not-canonical:"+info.method, "K of the kex result is not the canonical encoding (mpint / string) of its value", det)
		}
		sr := &reader{b: t.sig}
		if f := string(sr.str()); f != hk.sigFmt {
			d.viol("signature-format:"+hk.name, fmt.Sprintf("signature format %q, expected %q", f, hk.sigFmt), det)
		}
	}
	// independent recomputation of K from the client's random bytes (standard library X25519 / ML-KEM)
	tc, _ := view(info.method, "c", ex.pipe)
	switch info.method {
	case "c25519":
		if sec := x25519(ex.cRand.got[:32], tc.qs); sec != nil {
			if want := encMpint(new(big.Int).SetBytes(sec)); !bytes.Equal(want, c.K) {
				d.viol("K-differs-from-independent-x25519", "K is not mpint(X25519(client private, Q_S)) read big-endian", det)
			}
			d.stat["K_recomputed"]++
		}
	case "mlkem":
		if len(ex.cRand.got) >= 96 && len(tc.qs) == ctSize+32 {
			dk, err := mlkem.NewDecapsulationKey768(ex.cRand.got[32:96])
			if err == nil && bytes.Equal(append(dk.EncapsulationKey().Bytes(), pubOf(ex.cRand.got[:32])...), tc.qc) {
				kpq, err := dk.Decapsulate(tc.qs[:ctSize])
				kcl := x25519(ex.cRand.got[:32], tc.qs[ctSize:])
				if err == nil && kcl != nil {
					sum := sha256.Sum256(append(kpq, kcl...))
					if !bytes.Equal(encStr(sum[:]), c.K) {
						d.viol("K-differs-from-independent-mlkem-hybrid", "K is not string(SHA-256(K_PQ || K_CL))", det)
					}
					d.stat["K_recomputed"]++
				}
			}
		}
	}
	d.stat["honest"]++
	if len(d.out.Samples) < 2 {
		d.out.Sample(map[string]any{"kex": name, "hostkey": hk.name, "H": hex.EncodeToString(c.H)})
	}
}

func x25519(priv, pub []byte) []byte {
	k, err := ecdh.X25519().NewPrivateKey(priv)
	if err != nil {
		return nil
	}
	p, err := ecdh.X25519().NewPublicKey(pub)
	if err != nil {
		return nil
	}
	s, err := k.ECDH(p)
	if err != nil {
		return nil
	}
	return s
}
func pubOf(priv []byte) []byte {
	k, err := ecdh.X25519().NewPrivateKey(priv)
	if err != nil {
		return nil
	}
	return k.PublicKey().Bytes()
}

// replayPlan runs one attacker plan of the model on one real algorithm and compares the outcome classes.
func (d *driver) replayPlan(pc *planCase, name string, variant int) {
	info := kexTable[name]
	hk := d.hks[0]
	m := newMagics(d.rng)
	mm := &mitm{plan: pc.Plan, name: name, info: info, rng: d.rng, variant: variant, applied: map[string]bool{}}
	ex := runExchange(name, hk, m, mm.tamper, d.rng.Int63(), false)
	if mm.skipped != "" {
		d.stat["plan_not_constructible"]++
		return
	}
	gotC, gotS := classify(ex.cErr, "accept"), classify(ex.sErr, "done")
	wantC, wantS := coarse(pc.COut), coarse(pc.SOut)
	pj, _ := json.Marshal(pc.Plan)
	key := fmt.Sprintf("plan|%s|%s|%d", name, pj, variant)
	if pc.Untouched {
		key = ""
	}
	d.out.Case(key)
	det := map[string]any{"kex": name, "plan": pc.Plan, "model": map[string]any{"client": pc.COut, "server": pc.SOut},
		"real": map[string]any{"client": fmt.Sprint(ex.cErr), "server": fmt.Sprint(ex.sErr)}}
	if isPanic(ex.cErr) || isPanic(ex.sErr) {
		d.viol("kex-panics:"+info.method, "a key exchange half panicked on an altered packet", det)
		return
	}
	if gotC != wantC || gotS != wantS {
		sig := "plan-outcome:" + info.method + ":client-" + gotC + "-want-" + wantC + ":server-" + gotS + "-want-" + wantS
		what := fmt.Sprintf("%s with the attacker plan of the model: client %s (model: %s), server %s (model: %s)", name, gotC, pc.COut, gotS, pc.SOut)
		// an outcome that contradicts the property: acceptance of an altered exchange / of an invalid value, or a false rejection
		d.viol(sig, what, det)
		return
	}
	if gotC == "accept" {
		if !bytes.Equal(ex.cRes.H, ex.sRes.H) || !bytes.Equal(ex.cRes.K, ex.sRes.K) {
			d.viol("accepted-without-agreement:"+info.method, "client accepted but H or K differ from the server's", det)
		}
	}
	// an invalid peer value must be refused by kexAlgorithm.Client itself (a malicious server signs what it sends)
	if pc.COut == "fail:invalid-peer-value" {
		mm2 := &mitm{plan: pc.Plan, name: name, info: info, rng: d.rng, variant: variant, applied: map[string]bool{}}
		ex2 := runExchange(name, hk, m, mm2.tamper, d.rng.Int63(), true)
		if mm2.skipped == "" && classify(ex2.cErr, "accept") != "fail:own" {
			det["half"] = fmt.Sprint(ex2.cErr)
			d.viol("invalid-value-passes-kex-client:"+info.method+":"+pc.Plan.F.Cls+fmt.Sprint(pc.Plan.F.N),
				"kexAlgorithm.Client accepts an invalid public value of the peer (only the signature check of the altered exchange stopped it)", det)
		}
		d.stat["half_checks"]++
	}
	d.stat["plans"]++
}

func namesOf(method string, all bool) []string {
	var out []string
	for n, i := range kexTable {
		if i.method == method {
			out = append(out, n)
		}
	}
	sort.Strings(out)
	if all {
		return out
	}
	switch method {
	case "dh":
		return []string{"diffie-hellman-group14-sha256"}
	case "gex":
		return []string{"diffie-hellman-group-exchange-sha256"}
	case "c25519":
		return []string{"curve25519-sha256"}
	}
	return out
}

func TestKex(t *testing.T) {
	out := vutil.NewOut()
	defer func() {
		if err := out.Write(); err != nil {
			t.Fatal(err)
		}
	}()
	d := &driver{t: t, out: out, rng: vutil.Rand(29), stat: map[string]int{}}
	d.hks = hostKeys(vutil.Rand(2929))
	defer func() {
		for k, v := range d.stat {
			out.Extra[k] = v
		}
	}()
	thorough := vutil.Thorough()

	// ---- read the TLC output: preimage records first (they validate the encoder and define the field lists)
	var plans, gex []*planCase
	npre, nks := 0, 0
	err := vutil.ReadNDJSON(vutil.Env("VERIF_CASES", ""), func(line []byte) error {
		var probe struct {
			Pre    string          `json:"pre"`
			KShape string          `json:"kshape"`
			Plan   json.RawMessage `json:"plan"`
		}
		if err := json.Unmarshal(line, &probe); err != nil {
			return err
		}
		if probe.Pre != "" {
			var c preCase
			if err := json.Unmarshal(line, &c); err != nil {
				return err
			}
			if err := loadPre(&c); err != nil {
				return err
			}
			npre++
			return nil
		}
		if probe.KShape != "" {
			var c kShapeCase
			if err := json.Unmarshal(line, &c); err != nil {
				return err
			}
			if err := loadKShape(&c); err != nil {
				return err
			}
			nks++
			return nil
		}
		var pc planCase
		if err := json.Unmarshal(line, &pc); err != nil {
			return err
		}
		if pc.Gex {
			gex = append(gex, &pc)
		} else {
			plans = append(plans, &pc)
		}
		return nil
	})
	if err != nil {
		t.Fatalf("harness input: %v", err)
	}
	out.Extra["preimages_validated_against_tlc"] = npre
	out.Extra["k_encodings_validated_against_tlc"] = nks
	for _, m := range []string{"dh", "gex", "ecdh", "c25519", "mlkem"} {
		if specs[m] == nil {
			t.Fatalf("no field list for method %s in the TLC output", m)
		}
		if kencOf[m] == "" {
			t.Fatalf("no K-shape records for method %s in the TLC output", m)
		}
	}
	// every algorithm of the package must be one the specification knows
	for _, n := range ssh.VerifKexNames() {
		if _, ok := kexTable[n]; !ok {
			t.Fatalf("key exchange %q of the package is not modelled by spec/SSHKex.tla (harness table): extend the specification", n)
		}
	}
	d.learnPrimes()
	for _, b := range []int{2048, 3072, 4096} {
		if primes[b] == nil {
			d.viol("gex-exact-size-request-refused", fmt.Sprintf("DH-GEX server refuses (%d,%d,%d)", b, b, b), nil)
		}
	}
	if thorough {
		for b, p := range primes {
			q := new(big.Int).Rsh(p, 1)
			if !p.ProbablyPrime(4) || !q.ProbablyPrime(4) {
				d.viol("gex-group-not-safe-prime", fmt.Sprintf("the %d-bit group modulus is not a safe prime", b), nil)
			}
		}
	}

	// ---- every method x host key type, untampered
	names := ssh.VerifKexNames()
	for _, n := range names {
		for _, hk := range d.hks {
			reps := 1
			if thorough {
				reps = 3
			}
			if groupBits[n] == 4096 && !thorough && hk.name != "ed25519" && hk.name != "rsa-sha2-512" {
				continue // group16: two host key types in the quick tier
			}
			for i := 0; i < reps; i++ {
				d.honest(n, hk)
			}
		}
	}

	// ---- forced shapes of K, every algorithm, both halves against the harness as an independent peer
	d.forcedShapes(thorough)

	// ---- attacker plans of the model
	for _, pc := range plans {
		for _, n := range namesOf(pc.Plan.M, thorough) {
			variants := 1
			if pc.Plan.E.Cls == "loworder" || pc.Plan.E.Cls == "xlow" || pc.Plan.F.Cls == "loworder" || pc.Plan.F.Cls == "xlow" {
				variants = len(lowOrder)
			}
			if groupBits[n] == 4096 && !(pc.Plan.Ks == "keep" && pc.Plan.Sig == "keep" && (pc.Plan.E.Cls == "keep" || pc.Plan.F.Cls == "keep")) {
				continue // group16 (4096-bit exponentiations): single value substitutions only
			}
			for v := 0; v < variants; v++ {
				d.replayPlan(pc, n, v)
			}
		}
	}

	// ---- DH-GEX requests: the TLC table through chooseDH and through the real server half
	nComplete := 12
	if thorough {
		nComplete = 400
	}
	for i, pc := range gex {
		r := [3]uint32{pc.Plan.Req[0], pc.Plan.Req[1], pc.Plan.Req[2]}
		want := pc.Grp
		if pc.SOut == "fail:bad-request" {
			want = 0
		}
		if ref := gexServerRef(uint64(r[0]), uint64(r[1]), uint64(r[2])); ref != want {
			t.Fatalf("harness transcription of GexServerD disagrees with TLC on %v: %d vs %d (harness bug, not a verdict)", r, ref, want)
		}
		if ref := chooseRef(uint64(r[0]), uint64(r[1]), uint64(r[2])); ref != pc.Choose {
			t.Fatalf("harness transcription of ChooseDHD disagrees with TLC on %v: %d vs %d (harness bug, not a verdict)", r, ref, pc.Choose)
		}
		d.gexCase(r, want, pc.Choose, i%7 == int(vutil.Seed()%7) && nComplete > 0 && want != 0, &nComplete)
	}
	// random uint32 triples (judge: the transcription validated above)
	nr := 1500
	if thorough {
		nr = 20000
	}
	bnd := []uint32{0, 1023, 1024, 2047, 2048, 2049, 3071, 3072, 3073, 4095, 4096, 4097, 8191, 8192, 8193, 1 << 31, 1<<32 - 1}
	pick := func() uint32 {
		switch d.rng.Intn(4) {
		case 0:
			return d.rng.Uint32()
		case 1:
			return uint32(d.rng.Intn(10000))
		default:
			return bnd[d.rng.Intn(len(bnd))] + uint32(d.rng.Intn(3)) - 1
		}
	}
	for i := 0; i < nr && len(gex) > 0; i++ {
		r := [3]uint32{pick(), pick(), pick()}
		if d.rng.Intn(2) == 0 {
			s := []uint32{r[0], r[1], r[2]}
			sort.Slice(s, func(a, b int) bool { return s[a] < s[b] })
			r = [3]uint32{s[0], s[1], s[2]}
		}
		d.gexCase(r, gexServerRef(uint64(r[0]), uint64(r[1]), uint64(r[2])), chooseRef(uint64(r[0]), uint64(r[1]), uint64(r[2])), false, &nComplete)
	}
}

// gexCase: chooseDH and the real GEX server half on one request.
func (d *driver) gexCase(r [3]uint32, want, wantChoose int, complete bool, budget *int) {
	det := map[string]any{"min": r[0], "preferred": r[1], "max": r[2], "want_bits": want}
	key := fmt.Sprintf("gex|%d|%d|%d", r[0], r[1], r[2])
	d.out.Case(key)
	bits, err := ssh.VerifKexChooseDH(r[0], r[1], r[2])
	if (err != nil) != (wantChoose == 0) || bits != wantChoose {
		det["chooseDH"] = bits
		d.viol(fmt.Sprintf("chooseDH-differs-from-rule:%d-want-%d", bits, wantChoose),
			fmt.Sprintf("chooseDH(%d,%d,%d) = %d bits (err %v); the choose_dh rule gives %d", r[0], r[1], r[2], bits, err, wantChoose), det)
	}
	for _, name := range []string{"diffie-hellman-group-exchange-sha256", "diffie-hellman-group-exchange-sha1"} {
		if name != "diffie-hellman-group-exchange-sha256" && !(complete || vutil.Thorough()) {
			continue
		}
		res := probeGex(name, d.hks[0], r, complete, d.rng)
		det["server_bits"] = res.bits
		if isPanic(res.sErr) {
			d.viol("gex-server-panics", "the DH-GEX server half panicked on a request", det)
			continue
		}
		if res.bits != want {
			d.viol(fmt.Sprintf("gex-server-choice:%d-want-%d", res.bits, want),
				fmt.Sprintf("DH-GEX server answered (%d,%d,%d) with %d bits; the choose_dh rule gives %d (0 = refuse)", r[0], r[1], r[2], res.bits, want), det)
			continue
		}
		if res.bits != 0 && (uint64(res.bits) < uint64(r[0]) || uint64(res.bits) > uint64(r[2])) {
			d.viol("gex-group-outside-bounds", "the chosen group is outside the requested bounds", det)
		}
		if res.bits != 0 && primes[res.bits] != nil && res.p.Cmp(primes[res.bits]) != 0 {
			d.viol("gex-group-unstable", "two requests answered with the same size got different moduli", det)
		}
		if complete && res.bits != 0 {
			*budget--
			d.stat["gex_completed"]++
			if !res.hOK {
				// a defect of the exchange hash is deterministic for a request: confirm it on two more exchanges
				// before it counts (anything that does not repeat is recorded in the evidence, not judged)
				first := res.hDetail
				again := 0
				for i := 0; i < 2; i++ {
					if r2 := probeGex(name, d.hks[0], r, true, d.rng); !r2.hOK {
						again++
						res = r2
					}
				}
				if again < 2 {
					d.stat["gex_unrepeatable_failures"]++
					d.out.Extra["gex_unrepeatable_failure_detail"] = fmt.Sprintf("%s (%d,%d,%d): %s; server: %v", name, r[0], r[1], r[2], first, res.sErr)
					continue
				}
			}
			if !res.hOK {
				det["detail"] = res.hDetail
				det["server_error"] = fmt.Sprint(res.sErr)
				d.viol("gex-exchange-hash-differs-from-spec", "independent DH-GEX client ("+name+"): the server's signature does not verify over H = hash(preimage with the requested min/n/max, p, g, e, f, K): "+res.hDetail, det)
			}
		}
		d.stat["gex_probes"]++
	}
}
