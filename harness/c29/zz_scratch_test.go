package c29

import (
	"fmt"
	"testing"

	"verif/harness/vutil"
)

func TestScratchGex(t *testing.T) {
	rng := vutil.Rand(777)
	hks := hostKeys(vutil.Rand(2929))
	d := &driver{t: t, out: vutil.NewOut(), rng: rng, hks: hks, stat: map[string]int{}}
	d.learnPrimes()
	bad := 0
	for i := 0; i < 3000; i++ {
		name := "diffie-hellman-group-exchange-sha256"
		if i%2 == 1 {
			name = "diffie-hellman-group-exchange-sha1"
		}
		tr := [][3]uint32{{2048, 2048, 8192}, {1024, 3072, 4096}, {0, 4096, 8192}, {2048, 2048, 2048}}[i%4]
		r := probeGex(name, hks[0], tr, true, rng)
		if !r.hOK {
			bad++
			fmt.Println("FAIL", i, name, tr, r.bits, r.hDetail, r.sErr)
		}
	}
	fmt.Println("bad", bad)
}
