// Harness for C29 (spec/SSHKex.tla): a packet pipe with a man in the middle between the real
// client and server halves of every key exchange of golang.org/x/crypto/ssh (hook ssh/verif_kex.go),
// an independent codec for the kex packets, and an independent builder of the exchange-hash
// preimage that walks the field list emitted by TLC from the TLA+ module.
package c29

import (
	"bytes"
	"crypto"
	"crypto/ecdsa"
	"crypto/ed25519"
	"crypto/elliptic"
	"crypto/rsa"
	_ "crypto/sha1"
	_ "crypto/sha256"
	_ "crypto/sha512"
	"encoding/binary"
	"encoding/json"
	"errors"
	"fmt"
	"io"
	"math/big"
	"math/rand"
	"net"
	"sync"
	"testing"

	"golang.org/x/crypto/ssh"
)

// ---------------------------------------------------------------- pipe with a man in the middle

var errPipeClosed = errors.New("c29 pipe: closed by peer")

type packetRec struct {
	Dir       string // "c2s" | "s2c"
	Sent      []byte
	Delivered []byte
}

// tamperFunc may rewrite the n-th packet (from 0) of a direction; returning nil delivers it unchanged.
type tamperFunc func(dir string, n int, p []byte) []byte

type pipe struct {
	mu     sync.Mutex
	log    []packetRec
	count  map[string]int
	tamper tamperFunc
	q      map[string]chan []byte
	closed map[string]chan struct{} // closed["c"]: the client end was closed
	once   map[string]*sync.Once
}

func newPipe(t tamperFunc) *pipe {
	return &pipe{count: map[string]int{}, tamper: t,
		q:      map[string]chan []byte{"c2s": make(chan []byte, 16), "s2c": make(chan []byte, 16)},
		closed: map[string]chan struct{}{"c": make(chan struct{}), "s": make(chan struct{})},
		once:   map[string]*sync.Once{"c": {}, "s": {}}}
}

type pipeEnd struct {
	p    *pipe
	side string // "c" | "s"
}

func (e pipeEnd) outDir() string {
	if e.side == "c" {
		return "c2s"
	}
	return "s2c"
}
func (e pipeEnd) inDir() string {
	if e.side == "c" {
		return "s2c"
	}
	return "c2s"
}
func (e pipeEnd) peer() string {
	if e.side == "c" {
		return "s"
	}
	return "c"
}

func (e pipeEnd) WritePacket(pk []byte) error {
	select {
	case <-e.p.closed[e.side]:
		return errPipeClosed
	case <-e.p.closed[e.peer()]:
		return errPipeClosed
	default:
	}
	sent := append([]byte(nil), pk...)
	dir := e.outDir()
	e.p.mu.Lock()
	n := e.p.count[dir]
	e.p.count[dir]++
	e.p.mu.Unlock()
	deliv := sent
	if e.p.tamper != nil {
		if x := e.p.tamper(dir, n, append([]byte(nil), sent...)); x != nil {
			deliv = x
		}
	}
	e.p.mu.Lock()
	e.p.log = append(e.p.log, packetRec{Dir: dir, Sent: sent, Delivered: deliv})
	e.p.mu.Unlock()
	e.p.q[dir] <- deliv
	return nil
}

func (e pipeEnd) ReadPacket() ([]byte, error) {
	q := e.p.q[e.inDir()]
	select {
	case pk := <-q:
		return pk, nil
	default:
	}
	select {
	case pk := <-q:
		return pk, nil
	case <-e.p.closed[e.peer()]:
		// drain what the peer wrote before closing
		select {
		case pk := <-q:
			return pk, nil
		default:
		}
		return nil, errPipeClosed
	case <-e.p.closed[e.side]:
		return nil, errPipeClosed
	}
}

func (e pipeEnd) Close() error {
	e.p.once[e.side].Do(func() { close(e.p.closed[e.side]) })
	return nil
}

func (p *pipe) packets(dir string) (out []packetRec) {
	p.mu.Lock()
	defer p.mu.Unlock()
	for _, r := range p.log {
		if r.Dir == dir {
			out = append(out, r)
		}
	}
	return
}

// ---------------------------------------------------------------- independent wire codec (RFC 4251 5)

type reader struct {
	b   []byte
	err error
}

func (r *reader) u32() uint32 {
	if r.err != nil || len(r.b) < 4 {
		r.err = errors.New("short uint32")
		return 0
	}
	v := binary.BigEndian.Uint32(r.b)
	r.b = r.b[4:]
	return v
}
func (r *reader) str() []byte {
	n := r.u32()
	if r.err != nil || uint32(len(r.b)) < n {
		r.err = errors.New("short string")
		return nil
	}
	v := r.b[:n]
	r.b = r.b[n:]
	return append([]byte(nil), v...)
}

// two's complement big-endian -> integer
func twosToInt(b []byte) *big.Int {
	v := new(big.Int).SetBytes(b)
	if len(b) > 0 && b[0]&0x80 != 0 {
		v.Sub(v, new(big.Int).Lsh(big.NewInt(1), uint(8*len(b))))
	}
	return v
}
func (r *reader) mpint() *big.Int { return twosToInt(r.str()) }

func encU32(v uint32) []byte { return []byte{byte(v >> 24), byte(v >> 16), byte(v >> 8), byte(v)} }
func encStr(b []byte) []byte { return append(encU32(uint32(len(b))), b...) }

// shortest two's complement form; zero is the empty string
func encMpint(v *big.Int) []byte {
	if v.Sign() == 0 {
		return encStr(nil)
	}
	if v.Sign() > 0 {
		b := v.Bytes()
		if b[0]&0x80 != 0 {
			b = append([]byte{0}, b...)
		}
		return encStr(b)
	}
	// negative: smallest n with -2^(8n-1) <= v
	n := 1
	for {
		lim := new(big.Int).Lsh(big.NewInt(1), uint(8*n-1))
		if new(big.Int).Neg(lim).Cmp(v) <= 0 {
			break
		}
		n++
	}
	t := new(big.Int).Add(v, new(big.Int).Lsh(big.NewInt(1), uint(8*n)))
	b := t.Bytes()
	for len(b) < n {
		b = append([]byte{0}, b...)
	}
	return encStr(b)
}

// ---------------------------------------------------------------- field list and preimage (from the TLA+ module)

type fieldSpec struct {
	Name string `json:"name"`
	Enc  string `json:"enc"`
}

// specs[method] is FieldSpec(method) as emitted by TLC.
var specs = map[string][]fieldSpec{}

type preCase struct {
	Pre   string                     `json:"pre"`
	Spec  []fieldSpec                `json:"spec"`
	Vals  map[string]json.RawMessage `json:"vals"`
	Bytes []int                      `json:"bytes"`
}

type bigRec struct {
	Neg bool  `json:"neg"`
	Mag []int `json:"mag"`
}

func ints2bytes(x []int) []byte {
	b := make([]byte, len(x))
	for i, v := range x {
		b[i] = byte(v)
	}
	return b
}

// a field value: []byte (string), *big.Int (mpint) or uint32
func preimage(spec []fieldSpec, vals map[string]any) ([]byte, error) {
	var out []byte
	for _, f := range spec {
		v, ok := vals[f.Name]
		if !ok {
			return nil, fmt.Errorf("no value for field %s", f.Name)
		}
		switch f.Enc {
		case "string":
			out = append(out, encStr(v.([]byte))...)
		case "mpint":
			out = append(out, encMpint(v.(*big.Int))...)
		case "uint32":
			out = append(out, encU32(v.(uint32))...)
		default:
			return nil, fmt.Errorf("unknown encoding %s", f.Enc)
		}
	}
	return out, nil
}

// loadPre checks the harness's encoder and field walk against one TLC-evaluated Preimage and
// remembers the field list of the method.
func loadPre(c *preCase) error {
	vals := map[string]any{}
	for _, f := range c.Spec {
		raw, ok := c.Vals[f.Name]
		if !ok {
			return fmt.Errorf("TLC record without value for %s", f.Name)
		}
		switch f.Enc {
		case "string":
			var x []int
			if err := json.Unmarshal(raw, &x); err != nil {
				return err
			}
			vals[f.Name] = ints2bytes(x)
		case "mpint":
			var x bigRec
			if err := json.Unmarshal(raw, &x); err != nil {
				return err
			}
			v := new(big.Int).SetBytes(ints2bytes(x.Mag))
			if x.Neg {
				v.Neg(v)
			}
			vals[f.Name] = v
		case "uint32":
			var x []int
			if err := json.Unmarshal(raw, &x); err != nil || len(x) != 2 {
				return fmt.Errorf("bad uint32 %s", raw)
			}
			vals[f.Name] = uint32(x[0])<<16 | uint32(x[1])
		}
	}
	got, err := preimage(c.Spec, vals)
	if err != nil {
		return err
	}
	if !bytes.Equal(got, ints2bytes(c.Bytes)) {
		return fmt.Errorf("harness preimage builder differs from TLC's Preimage for %s: got %x want %x", c.Pre, got, ints2bytes(c.Bytes))
	}
	specs[c.Pre] = c.Spec
	return nil
}

// ---------------------------------------------------------------- real algorithms

type kexInfo struct {
	method string // model method
	hash   crypto.Hash
	curve  elliptic.Curve
}

var kexTable = map[string]kexInfo{
	"diffie-hellman-group1-sha1":           {"dh", crypto.SHA1, nil},
	"diffie-hellman-group14-sha1":          {"dh", crypto.SHA1, nil},
	"diffie-hellman-group14-sha256":        {"dh", crypto.SHA256, nil},
	"diffie-hellman-group16-sha512":        {"dh", crypto.SHA512, nil},
	"diffie-hellman-group-exchange-sha1":   {"gex", crypto.SHA1, nil},
	"diffie-hellman-group-exchange-sha256": {"gex", crypto.SHA256, nil},
	"ecdh-sha2-nistp256":                   {"ecdh", crypto.SHA256, elliptic.P256()},
	"ecdh-sha2-nistp384":                   {"ecdh", crypto.SHA384, elliptic.P384()},
	"ecdh-sha2-nistp521":                   {"ecdh", crypto.SHA512, elliptic.P521()},
	"curve25519-sha256":                    {"c25519", crypto.SHA256, nil},
	"curve25519-sha256@libssh.org":         {"c25519", crypto.SHA256, nil},
	"mlkem768x25519-sha256":                {"mlkem", crypto.SHA256, nil},
}

// size of the fixed groups' prime (the primes themselves are restated in c29_test.go from RFC 2409 / RFC 3526)
var groupBits = map[string]int{"diffie-hellman-group1-sha1": 1024, "diffie-hellman-group14-sha1": 2048,
	"diffie-hellman-group14-sha256": 2048, "diffie-hellman-group16-sha512": 4096}

type hostKeyCase struct {
	name   string // label
	algo   string // negotiated host key algorithm
	sigFmt string // expected signature format
	signer ssh.Signer
}

var (
	hkOnce  sync.Once
	hkCases []hostKeyCase
	hkAtk   map[string]ssh.Signer // attacker keys by public key type
)

func hostKeys(rng *rand.Rand) []hostKeyCase {
	hkOnce.Do(func() {
		mk := func(k any) ssh.Signer {
			s, err := ssh.NewSignerFromKey(k)
			if err != nil {
				panic(err)
			}
			return s
		}
		_, ed, _ := ed25519.GenerateKey(rng)
		e256, _ := ecdsa.GenerateKey(elliptic.P256(), rng)
		e384, _ := ecdsa.GenerateKey(elliptic.P384(), rng)
		e521, _ := ecdsa.GenerateKey(elliptic.P521(), rng)
		rk, err := rsa.GenerateKey(rng, 2048)
		if err != nil {
			panic(err)
		}
		_, ca, _ := ed25519.GenerateKey(rng)
		hkCases = []hostKeyCase{
			{"ed25519", ssh.KeyAlgoED25519, ssh.KeyAlgoED25519, mk(ed)},
			{"ecdsa-256", ssh.KeyAlgoECDSA256, ssh.KeyAlgoECDSA256, mk(e256)},
			{"ecdsa-384", ssh.KeyAlgoECDSA384, ssh.KeyAlgoECDSA384, mk(e384)},
			{"ecdsa-521", ssh.KeyAlgoECDSA521, ssh.KeyAlgoECDSA521, mk(e521)},
			{"rsa-sha2-256", ssh.KeyAlgoRSASHA256, ssh.KeyAlgoRSASHA256, mk(rk)},
			{"rsa-sha2-512", ssh.KeyAlgoRSASHA512, ssh.KeyAlgoRSASHA512, mk(rk)},
			{"ssh-rsa", ssh.KeyAlgoRSA, ssh.KeyAlgoRSA, mk(rk)},
		}
		// certificate host keys: the signature algorithm is the underlying one
		for _, base := range []struct {
			label, algo, sig string
			s                ssh.Signer
		}{{"ed25519-cert", ssh.CertAlgoED25519v01, ssh.KeyAlgoED25519, mk(ed)}, {"rsa-sha2-512-cert", ssh.CertAlgoRSASHA512v01, ssh.KeyAlgoRSASHA512, mk(rk)}} {
			cert := &ssh.Certificate{Key: base.s.PublicKey(), CertType: ssh.HostCert, ValidBefore: ssh.CertTimeInfinity, KeyId: "c29"}
			if err := cert.SignCert(rng, mk(ca)); err != nil {
				panic(err)
			}
			cs, err := ssh.NewCertSigner(cert, base.s)
			if err != nil {
				panic(err)
			}
			hkCases = append(hkCases, hostKeyCase{base.label, base.algo, base.sig, cs})
		}
		_, aed, _ := ed25519.GenerateKey(rng)
		hkAtk = map[string]ssh.Signer{ssh.KeyAlgoED25519: mk(aed)}
	})
	return hkCases
}

type recReader struct {
	r   io.Reader
	got []byte
}

func (r *recReader) Read(p []byte) (int, error) {
	n, err := r.r.Read(p)
	r.got = append(r.got, p[:n]...)
	return n, err
}

func randBytes(rng *rand.Rand, n int) []byte {
	b := make([]byte, n)
	rng.Read(b)
	return b
}

func newMagics(rng *rand.Rand) *ssh.VerifKexMagics {
	return &ssh.VerifKexMagics{
		ClientVersion: []byte(fmt.Sprintf("SSH-2.0-c29client_%d", rng.Intn(1000))),
		ServerVersion: []byte(fmt.Sprintf("SSH-2.0-c29server_%d", rng.Intn(1000))),
		ClientKexInit: append([]byte{20}, randBytes(rng, 40+rng.Intn(40))...),
		ServerKexInit: append([]byte{20}, randBytes(rng, 40+rng.Intn(40))...),
	}
}

type exchange struct {
	cRes, sRes *ssh.VerifKexResult
	cErr, sErr error
	cRand      *recReader
	pipe       *pipe
	seenKey    ssh.PublicKey // what the host key callback got
}

// runExchange runs the real client and server halves of kex `name` over a pipe with the given tamper.
// half = true runs kexAlgorithm.Client only (no host key signature check) on the client side.
func runExchange(name string, hk hostKeyCase, m *ssh.VerifKexMagics, tamper tamperFunc, seed int64, half bool) *exchange {
	ex := &exchange{pipe: newPipe(tamper)}
	ce, se := pipeEnd{ex.pipe, "c"}, pipeEnd{ex.pipe, "s"}
	ex.cRand = &recReader{r: rand.New(rand.NewSource(seed))}
	sRand := rand.New(rand.NewSource(seed ^ 0x5eed))
	var wg sync.WaitGroup
	wg.Add(2)
	go func() {
		defer wg.Done()
		defer se.Close()
		defer func() {
			if r := recover(); r != nil {
				ex.sErr = fmt.Errorf("PANIC: %v", r)
			}
		}()
		ex.sRes, ex.sErr = ssh.VerifKexServer(name, se, sRand, m, []ssh.Signer{hk.signer}, hk.algo)
	}()
	go func() {
		defer wg.Done()
		defer ce.Close()
		defer func() {
			if r := recover(); r != nil {
				ex.cErr = fmt.Errorf("PANIC: %v", r)
			}
		}()
		if half {
			ex.cRes, ex.cErr = ssh.VerifKexClientHalf(name, ce, ex.cRand, m)
			return
		}
		cb := func(hostname string, remote net.Addr, key ssh.PublicKey) error { ex.seenKey = key; return nil }
		ex.cRes, ex.cErr = ssh.VerifKexClient(name, ce, ex.cRand, m, hk.algo, cb, "host:22", nil)
	}()
	wg.Wait()
	return ex
}

// outcome classes at the level the model is compared at
func classify(err error, okLabel string) string {
	switch {
	case err == nil:
		return okLabel
	case errors.Is(err, errPipeClosed):
		return "fail:eof"
	default:
		return "fail:own"
	}
}

func coarse(model string) string {
	switch model {
	case "accept", "done", "fail:eof":
		return model
	}
	return "fail:own"
}

func isPanic(err error) bool {
	return err != nil && len(err.Error()) > 6 && err.Error()[:6] == "PANIC:"
}

var _ = testing.Short
