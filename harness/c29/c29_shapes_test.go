package c29

// Forced shapes of the shared secret K (spec/SSHKex.tla, "K shapes"): for every real algorithm the harness
// plays an independent RFC peer against the real client half and against the real server half and searches
// its own ephemeral secret until the fixed-width shared secret has the wanted shape (ordinary; top bit set;
// leading zero octet; zero octet followed by an octet with the top bit set; two leading zero octets).  H is
// built with the field list of the TLA+ module and the minimal mpint (string for the hybrid) and then
//   - against the client half: the harness signs its H with the host key; the real client must accept,
//   - against the server half: the server's signature must verify over the harness's H,
// and the K and H of the real result must be the harness's.

import (
	"bytes"
	"crypto/ecdh"
	"crypto/mlkem"
	crand "crypto/rand"
	"crypto/sha256"
	"encoding/hex"
	"fmt"
	"math/big"
	"math/rand"
	"net"

	"golang.org/x/crypto/ssh"
)

type kShapeCase struct {
	KShape string `json:"kshape"`
	M      string `json:"m"`
	KEnc   string `json:"kenc"`
	Raw    []int  `json:"raw"`
	Enc    []int  `json:"enc"`
}

// shapeOf: ShapeOf of spec/SSHKex.tla
func shapeOf(raw []byte) string {
	switch {
	case raw[0] >= 128:
		return "hi"
	case raw[0] > 0:
		return "ord"
	case raw[1] == 0:
		return "lz2"
	case raw[1] >= 128:
		return "lzhi"
	}
	return "lz"
}

// encK: EncK of the specification through the harness's encoder (validated against TLC by loadKShape)
func encK(kenc string, raw []byte) []byte {
	if kenc == "string" {
		return encStr(raw)
	}
	return encMpint(new(big.Int).SetBytes(raw))
}

var kencOf = map[string]string{}

func loadKShape(c *kShapeCase) error {
	raw := ints2bytes(c.Raw)
	if got := shapeOf(raw); got != c.KShape {
		return fmt.Errorf("harness shapeOf(%x) = %s, TLC says %s", raw, got, c.KShape)
	}
	if got := encK(c.KEnc, raw); !bytes.Equal(got, ints2bytes(c.Enc)) {
		return fmt.Errorf("harness encoding of K %x (%s, %s) = %x, TLC's EncK = %x", raw, c.M, c.KEnc, got, ints2bytes(c.Enc))
	}
	kencOf[c.M] = c.KEnc
	return nil
}

func fixedWidth(v *big.Int, w int) []byte { return v.FillBytes(make([]byte, w)) }

func ecdhCurve(name string) ecdh.Curve {
	switch name {
	case "ecdh-sha2-nistp256":
		return ecdh.P256()
	case "ecdh-sha2-nistp384":
		return ecdh.P384()
	case "ecdh-sha2-nistp521":
		return ecdh.P521()
	}
	return ecdh.X25519()
}

func feasible(name, shape string) bool {
	if name == "ecdh-sha2-nistp521" && shape == "hi" {
		return false // 521 bits in 66 octets: the first octet is 00 or 01
	}
	return true
}

func sigBlob(s *ssh.Signature) []byte {
	return append(append(encStr([]byte(s.Format)), encStr(s.Blob)...), s.Rest...)
}

type shapeRes struct {
	raw     []byte // the shared secret, fixed width
	tries   int
	problem string // property-level problem (empty: fine)
	skipped string
}

const maxTries = 400000

// hOver builds H from the transcript and the raw secret with the specification's field list and K encoding.
func hOver(name string, m *ssh.VerifKexMagics, t *transcript, raw []byte) (H, kEnc []byte, err error) {
	kEnc = encK(kencOf[kexTable[name].method], raw)
	H, _, err = recomputeH(name, m, t, kEnc)
	return
}

// ---------------------------------------------------------------- harness as server, real client half

func (d *driver) shapeVsClient(name, shape string, hk hostKeyCase) (res shapeRes) {
	info := kexTable[name]
	m := newMagics(d.rng)
	pp := newPipe(nil)
	ce, se := pipeEnd{pp, "c"}, pipeEnd{pp, "s"}
	var cRes *ssh.VerifKexResult
	var cErr error
	done := make(chan struct{})
	go func() {
		defer close(done)
		defer ce.Close()
		defer func() {
			if r := recover(); r != nil {
				cErr = fmt.Errorf("PANIC: %v", r)
			}
		}()
		cRes, cErr = ssh.VerifKexClient(name, ce, rand.New(rand.NewSource(d.rng.Int63())), m, hk.algo,
			func(string, net.Addr, ssh.PublicKey) error { return nil }, "host:22", nil)
	}()
	finish := func() { se.Close(); <-done }
	t := &transcript{ks: hk.signer.PublicKey().Marshal()}
	replyType := byte(31)
	var p, g *big.Int
	if info.method == "gex" {
		rq, err := se.ReadPacket()
		if err != nil || len(rq) != 13 || rq[0] != 34 {
			finish()
			res.problem = "no GEX request from the client"
			return
		}
		r := &reader{b: rq[1:]}
		t.req = []uint32{r.u32(), r.u32(), r.u32()}
		p, g = primes[2048], big.NewInt(2)
		t.p, t.g = p, g
		se.WritePacket(append(append([]byte{31}, encMpint(p)...), encMpint(g)...))
		replyType = 33
	}
	ip, err := se.ReadPacket()
	if err != nil {
		finish()
		res.problem = fmt.Sprintf("no init packet from the client: %v", cErr)
		return
	}
	ri := &reader{b: ip[1:]}
	var pubField []byte // f / Q_S / S_REPLY as sent
	switch info.method {
	case "dh", "gex":
		if info.method == "dh" {
			p, g = primes[groupBits[name]], big.NewInt(2)
		}
		if p == nil {
			finish()
			res.skipped = "group prime not known"
			return
		}
		t.e = ri.mpint()
		w := len(p.Bytes())
		K, f := new(big.Int).Set(t.e), big.NewInt(2) // y = 1
		for res.tries = 1; ; res.tries++ {
			if raw := fixedWidth(K, w); shapeOf(raw) == shape && f.Cmp(big.NewInt(1)) > 0 && f.Cmp(new(big.Int).Sub(p, big.NewInt(1))) < 0 && K.Cmp(big.NewInt(1)) > 0 {
				res.raw = raw
				break
			}
			if res.tries > maxTries {
				finish()
				res.skipped = "shape not reached"
				return
			}
			K.Mul(K, t.e).Mod(K, p) // y := y + 1
			f.Lsh(f, 1).Mod(f, p)
		}
		t.f = f
		pubField = encMpint(f)
	case "ecdh", "c25519":
		t.qc = ri.str()
		curve := ecdhCurve(name)
		peer, err := curve.NewPublicKey(t.qc)
		if err != nil {
			finish()
			res.problem = "client public value does not parse: " + err.Error()
			return
		}
		for res.tries = 1; ; res.tries++ {
			k, _ := curve.GenerateKey(crand.Reader)
			sec, err := k.ECDH(peer)
			if err == nil && shapeOf(sec) == shape {
				res.raw, t.qs = sec, k.PublicKey().Bytes()
				break
			}
			if res.tries > maxTries {
				finish()
				res.skipped = "shape not reached"
				return
			}
		}
		pubField = encStr(t.qs)
	case "mlkem":
		t.qc = ri.str()
		if len(t.qc) != ekSize+32 {
			finish()
			res.problem = "C_INIT has the wrong length"
			return
		}
		ek, err := mlkem.NewEncapsulationKey768(t.qc[:ekSize])
		xpeer, err2 := ecdh.X25519().NewPublicKey(t.qc[ekSize:])
		if err != nil || err2 != nil {
			finish()
			res.problem = "C_INIT does not parse"
			return
		}
		xk, _ := ecdh.X25519().GenerateKey(crand.Reader)
		kcl, _ := xk.ECDH(xpeer)
		for res.tries = 1; ; res.tries++ {
			kpq, ct := ek.Encapsulate()
			sum := sha256.Sum256(append(append([]byte(nil), kpq...), kcl...))
			if shapeOf(sum[:]) == shape {
				res.raw, t.qs = sum[:], append(ct, xk.PublicKey().Bytes()...)
				break
			}
			if res.tries > maxTries {
				finish()
				res.skipped = "shape not reached"
				return
			}
		}
		pubField = encStr(t.qs)
	}
	H, kEnc, err := hOver(name, m, t, res.raw)
	if err != nil {
		finish()
		res.problem = "harness: " + err.Error()
		return
	}
	as, ok := hk.signer.(ssh.AlgorithmSigner)
	var sig *ssh.Signature
	if ok {
		sig, err = as.SignWithAlgorithm(crand.Reader, H, hk.sigFmt)
	} else {
		sig, err = hk.signer.Sign(crand.Reader, H)
	}
	if err != nil {
		finish()
		res.skipped = "cannot sign: " + err.Error()
		return
	}
	se.WritePacket(append(append(append([]byte{replyType}, encStr(t.ks)...), pubField...), encStr(sigBlob(sig))...))
	<-done
	se.Close()
	switch {
	case cErr != nil:
		res.problem = "the real client half refuses an exchange whose hash is built per the specification (minimal mpint K): " + cErr.Error()
	case !bytes.Equal(cRes.K, kEnc):
		res.problem = fmt.Sprintf("K of the client result %x is not the specified encoding %x", cRes.K, kEnc)
	case !bytes.Equal(cRes.H, H):
		res.problem = "H of the client result differs from the specified exchange hash"
	}
	return
}

// ---------------------------------------------------------------- harness as client, real server half

type clientSecret struct {
	initField []byte                                // e / Q_C / C_INIT as sent
	e         *big.Int                              // finite-field methods
	secret    func(reply []byte, f *big.Int) []byte // fixed-width shared secret from the server's value
}

// oneClientExchange runs the real server half (rand seeded with seed) against the harness as client.
// choose gets the server's group (gex) and returns the client's ephemeral material.
func (d *driver) oneClientExchange(name string, hk hostKeyCase, seed int64, choose func(p, g *big.Int) *clientSecret) (t *transcript, raw []byte, m *ssh.VerifKexMagics, sRes *ssh.VerifKexResult, sErr error, problem string) {
	info := kexTable[name]
	m = newMagics(rand.New(rand.NewSource(seed ^ 0x77)))
	pp := newPipe(nil)
	ce, se := pipeEnd{pp, "c"}, pipeEnd{pp, "s"}
	done := make(chan struct{})
	go func() {
		defer close(done)
		defer se.Close()
		defer func() {
			if r := recover(); r != nil {
				sErr = fmt.Errorf("PANIC: %v", r)
			}
		}()
		sRes, sErr = ssh.VerifKexServer(name, se, rand.New(rand.NewSource(seed)), m, []ssh.Signer{hk.signer}, hk.algo)
	}()
	defer func() { ce.Close(); <-done }()
	t = &transcript{}
	var p, g *big.Int
	initType, replyType := byte(30), byte(31)
	if info.method == "gex" {
		t.req = []uint32{2048, 2048, 8192}
		ce.WritePacket(append(append(append([]byte{34}, encU32(2048)...), encU32(2048)...), encU32(8192)...))
		gp, err := ce.ReadPacket()
		if err != nil || gp[0] != 31 {
			problem = "no GEX group from the server"
			return
		}
		r := &reader{b: gp[1:]}
		p, g = r.mpint(), r.mpint()
		t.p, t.g = p, g
		initType, replyType = 32, 33
	} else if info.method == "dh" {
		p, g = primes[groupBits[name]], big.NewInt(2)
	}
	cs := choose(p, g)
	if cs == nil {
		problem = "skip"
		return
	}
	ce.WritePacket(append([]byte{initType}, cs.initField...))
	rp, err := ce.ReadPacket()
	if err != nil || rp[0] != replyType {
		<-done
		problem = fmt.Sprintf("the real server half fails on a valid exchange: %v", sErr)
		return
	}
	rr := &reader{b: rp[1:]}
	t.ks = rr.str()
	if info.method == "dh" || info.method == "gex" {
		t.e = cs.e
		t.f = rr.mpint()
		t.sig = rr.str()
		raw = cs.secret(nil, t.f)
	} else {
		t.qc = cs.initField[4:]
		t.qs = rr.str()
		t.sig = rr.str()
		raw = cs.secret(t.qs, nil)
	}
	if rr.err != nil || len(rr.b) != 0 {
		problem = "reply of the server does not parse"
		return
	}
	<-done
	return
}

func (d *driver) checkServerSide(name string, hk hostKeyCase, t *transcript, raw []byte, m *ssh.VerifKexMagics, sRes *ssh.VerifKexResult, sErr error) string {
	if raw == nil {
		return "harness could not compute the shared secret from the server's value"
	}
	if sErr != nil {
		return "the real server half fails on a valid exchange: " + sErr.Error()
	}
	H, kEnc, err := hOver(name, m, t, raw)
	if err != nil {
		return "harness: " + err.Error()
	}
	key, err := ssh.ParsePublicKey(t.ks)
	if err != nil {
		return "host key of the reply does not parse"
	}
	if err := ssh.VerifKexVerifyHostKeySignature(key, hk.algo, &ssh.VerifKexResult{H: H, Signature: t.sig}); err != nil {
		return "the server's signature does not verify over the exchange hash built per the specification (minimal mpint K): " + err.Error()
	}
	if !bytes.Equal(sRes.K, kEnc) {
		return fmt.Sprintf("K of the server result %x is not the specified encoding %x", sRes.K, kEnc)
	}
	if !bytes.Equal(sRes.H, H) {
		return "H of the server result differs from the specified exchange hash"
	}
	return ""
}

func (d *driver) shapeVsServer(name, shape string, hk hostKeyCase) (res shapeRes) {
	info := kexTable[name]
	switch info.method {
	case "dh", "gex":
		// the server's value is a function of its random stream: learn it with one exchange, search the client's
		// exponent offline (K = f^x, x = 1, 2, ...), then repeat the exchange with the same stream
		seed := d.rng.Int63()
		var f1 *big.Int
		t1, _, _, _, _, prob := d.oneClientExchange(name, hk, seed, func(p, g *big.Int) *clientSecret {
			if p == nil {
				return nil
			}
			e := big.NewInt(4)
			return &clientSecret{initField: encMpint(e), e: e, secret: func(_ []byte, f *big.Int) []byte { return nil }}
		})
		if prob == "skip" {
			res.skipped = "group prime not known"
			return
		}
		if prob != "" {
			res.problem = prob
			return
		}
		f1 = t1.f
		var x int
		t, raw, m, sRes, sErr, prob := d.oneClientExchange(name, hk, seed, func(p, g *big.Int) *clientSecret {
			w := len(p.Bytes())
			K := new(big.Int).Set(f1)
			for x = 1; x < maxTries; x++ {
				if x >= 2 && shapeOf(fixedWidth(K, w)) == shape && K.Cmp(big.NewInt(1)) > 0 {
					break
				}
				K.Mul(K, f1).Mod(K, p)
			}
			res.tries = x
			e := new(big.Int).Exp(g, big.NewInt(int64(x)), p)
			xx := big.NewInt(int64(x))
			return &clientSecret{initField: encMpint(e), e: e, secret: func(_ []byte, f *big.Int) []byte {
				return fixedWidth(new(big.Int).Exp(f, xx, p), w)
			}}
		})
		if prob != "" {
			res.problem = prob
			return
		}
		res.raw = raw
		if t.f.Cmp(f1) != 0 || shapeOf(raw) != shape {
			res.skipped = "server value not reproducible from its random stream: shape " + shapeOf(raw) + " checked instead"
		}
		res.problem = d.checkServerSide(name, hk, t, raw, m, sRes, sErr)
		return
	}
	if info.method == "c25519" {
		// the server's key pair is the first 32 octets of its random stream: learn its public value with one
		// exchange, search the client's scalar offline, repeat the exchange with the same stream
		seed := d.rng.Int63()
		curve := ecdh.X25519()
		mk := func(k *ecdh.PrivateKey) *clientSecret {
			return &clientSecret{initField: encStr(k.PublicKey().Bytes()), secret: func(reply []byte, _ *big.Int) []byte {
				pk, err := curve.NewPublicKey(reply)
				if err != nil {
					return nil
				}
				sec, err := k.ECDH(pk)
				if err != nil {
					return nil
				}
				return sec
			}}
		}
		k0, _ := curve.GenerateKey(crand.Reader)
		t1, _, _, _, _, prob := d.oneClientExchange(name, hk, seed, func(_, _ *big.Int) *clientSecret { return mk(k0) })
		if prob != "" {
			res.problem = prob
			return
		}
		spub, err := curve.NewPublicKey(t1.qs)
		if err != nil {
			res.problem = "server public value does not parse"
			return
		}
		var kk *ecdh.PrivateKey
		for res.tries = 1; res.tries <= maxTries; res.tries++ {
			k, _ := curve.GenerateKey(crand.Reader)
			if sec, err := k.ECDH(spub); err == nil && shapeOf(sec) == shape {
				kk = k
				break
			}
		}
		if kk == nil {
			res.skipped = "shape not reached"
			return
		}
		t, raw, m, sRes, sErr, prob := d.oneClientExchange(name, hk, seed, func(_, _ *big.Int) *clientSecret { return mk(kk) })
		if prob != "" {
			res.problem = prob
			return
		}
		res.raw = raw
		if raw == nil || shapeOf(raw) != shape {
			res.skipped = "server value not reproducible from its random stream"
		}
		res.problem = d.checkServerSide(name, hk, t, raw, m, sRes, sErr)
		return
	}
	// the other methods: whole exchanges with fresh client keys until the secret has the shape
	// (every attempt is checked, whatever its shape)
	limit := 20000
	if shape == "lz2" {
		limit = maxTries
	}
	for res.tries = 1; res.tries <= limit; res.tries++ {
		t, raw, m, sRes, sErr, prob := d.oneClientExchange(name, hk, d.rng.Int63(), func(_, _ *big.Int) *clientSecret {
			if info.method == "mlkem" {
				dk, _ := mlkem.GenerateKey768()
				xk, _ := ecdh.X25519().GenerateKey(crand.Reader)
				return &clientSecret{initField: encStr(append(dk.EncapsulationKey().Bytes(), xk.PublicKey().Bytes()...)),
					secret: func(reply []byte, _ *big.Int) []byte {
						if len(reply) != ctSize+32 {
							return nil
						}
						kpq, err := dk.Decapsulate(reply[:ctSize])
						xp, err2 := ecdh.X25519().NewPublicKey(reply[ctSize:])
						if err != nil || err2 != nil {
							return nil
						}
						kcl, err := xk.ECDH(xp)
						if err != nil {
							return nil
						}
						sum := sha256.Sum256(append(kpq, kcl...))
						return sum[:]
					}}
			}
			curve := ecdhCurve(name)
			k, _ := curve.GenerateKey(crand.Reader)
			return &clientSecret{initField: encStr(k.PublicKey().Bytes()), secret: func(reply []byte, _ *big.Int) []byte {
				pk, err := curve.NewPublicKey(reply)
				if err != nil {
					return nil
				}
				s, err := k.ECDH(pk)
				if err != nil {
					return nil
				}
				return s
			}}
		})
		if prob != "" {
			res.problem = prob
			return
		}
		if p := d.checkServerSide(name, hk, t, raw, m, sRes, sErr); p != "" {
			res.raw, res.problem = raw, p
			return
		}
		if shapeOf(raw) == shape {
			res.raw = raw
			return
		}
	}
	res.skipped = "shape not reached"
	return
}

// forcedShapes runs every feasible (algorithm, shape, side).
func (d *driver) forcedShapes(thorough bool) {
	hk := d.hks[0]
	for _, name := range ssh.VerifKexNames() {
		info := kexTable[name]
		shapes := []string{"ord", "hi", "lz", "lzhi"}
		switch {
		case info.method == "dh" || info.method == "gex":
			shapes = append(shapes, "lz2") // cheap: one modular multiplication per try
		case thorough && (info.method == "c25519" || name == "ecdh-sha2-nistp256"):
			shapes = append(shapes, "lz2")
		}
		if groupBits[name] == 4096 && !thorough {
			shapes = []string{"hi", "lz"}
		}
		for _, shape := range shapes {
			if !feasible(name, shape) {
				continue
			}
			for _, side := range []string{"client", "server"} {
				run := func(sh string) shapeRes {
					if side == "client" {
						return d.shapeVsClient(name, sh, hk)
					}
					return d.shapeVsServer(name, sh, hk)
				}
				r := run(shape)
				if r.problem != "" && r.raw != nil {
					// an encoding defect is a function of the shape: it must show again on a second exchange with
					// that shape before it counts (what does not repeat is recorded in the evidence, not judged)
					if r2 := run(shapeOf(r.raw)); r2.problem == "" {
						d.stat["kshape_unrepeatable_failures"]++
						d.out.Extra["kshape_unrepeatable_failure_detail"] = fmt.Sprintf("%s %s %s: %s", name, shapeOf(r.raw), side, r.problem)
						r = r2
					}
				}
				if r.skipped != "" && r.problem == "" && (r.raw == nil || shapeOf(r.raw) != shape) {
					d.stat["kshape_not_forced"]++
					if r.raw == nil {
						continue
					}
				}
				d.out.Case(fmt.Sprintf("kshape|%s|%s|%s", name, shape, side))
				d.stat["kshape_cases"]++
				d.stat["kshape_tries"] += r.tries
				if r.problem != "" {
					got := shape
					if r.raw != nil {
						got = shapeOf(r.raw)
					}
					d.viol(fmt.Sprintf("K-shape:%s:%s:%s-half", info.method, got, side),
						fmt.Sprintf("%s, shared secret of shape %q (%s...), real %s half: %s", name, got, hex.EncodeToString(firstN(r.raw, 4)), side, r.problem),
						map[string]any{"kex": name, "shape": got, "side": side, "secret_prefix": hex.EncodeToString(firstN(r.raw, 4)), "problem": r.problem})
				}
			}
		}
	}
}

func firstN(b []byte, n int) []byte {
	if len(b) < n {
		return b
	}
	return b[:n]
}
