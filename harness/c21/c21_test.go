// Binding R for C21 (pkcs12): PFX files are written by an independent implementation (openssl pkcs12 -export
// -legacy: PBE-SHA1-RC2-40 certificate bag, PBE-SHA1-3DES shrouded key bag, HMAC-SHA1 MAC) for RSA and P-256 keys
// with self-signed certificates (openssl req -x509), the damage classes of spec/PKCS12.tla are applied with a small
// DER walker, and the real pkcs12.Decode / ToPEM are compared with the model's outcome.  Recovered keys are compared
// by value with the original (parsed by the standard library), certificates byte for byte.
package c21

import (
	"bytes"
	"crypto/ecdsa"
	"crypto/hmac"
	"crypto/rsa"
	"crypto/sha1"
	"crypto/x509"
	"encoding/hex"
	"encoding/json"
	"encoding/pem"
	"fmt"
	"math/rand"
	"os"
	"os/exec"
	"path/filepath"
	"runtime/debug"
	"strconv"
	"testing"

	"golang.org/x/crypto/pkcs12"
	"verif/harness/vutil"
)

type tcase struct {
	Key    string `json:"key"`
	FilePw string `json:"filepw"`
	Given  string `json:"given"`
	Iter   string `json:"iter"`
	Dmg    string `json:"dmg"`
	Decode string `json:"decode"`
	ToPEM  string `json:"topem"`
}

// ---------------------------------------------------------------- openssl side

type material struct {
	dir     string
	keyPEM  map[string]string // key type -> path
	certPEM map[string]string
	key     map[string]any    // parsed original private key
	certDER map[string][]byte // original certificate
	pfx     map[string][]byte // cache
}

func run(t *testing.T, args ...string) []byte {
	cmd := exec.Command("openssl", args...)
	var stderr bytes.Buffer
	cmd.Stderr = &stderr
	out, err := cmd.Output()
	if err != nil {
		t.Fatalf("openssl %v: %v\n%s", args, err, stderr.String())
	}
	return out
}

func newMaterial(t *testing.T) *material {
	m := &material{dir: t.TempDir(), keyPEM: map[string]string{}, certPEM: map[string]string{}, key: map[string]any{}, certDER: map[string][]byte{}, pfx: map[string][]byte{}}
	for _, kt := range []string{"rsa", "p256"} {
		k := filepath.Join(m.dir, kt+".key.pem")
		c := filepath.Join(m.dir, kt+".cert.pem")
		args := []string{"req", "-x509", "-nodes", "-keyout", k, "-out", c, "-subj", "/CN=c21 " + kt + "/O=verif", "-days", "30"}
		if kt == "rsa" {
			args = append(args, "-newkey", "rsa:2048")
		} else {
			args = append(args, "-newkey", "ec", "-pkeyopt", "ec_paramgen_curve:P-256")
		}
		run(t, args...)
		m.keyPEM[kt], m.certPEM[kt] = k, c
		der := run(t, "pkcs8", "-topk8", "-nocrypt", "-outform", "DER", "-in", k)
		key, err := x509.ParsePKCS8PrivateKey(der)
		if err != nil {
			t.Fatalf("cannot parse the original %s key: %v", kt, err)
		}
		m.key[kt] = key
		m.certDER[kt] = run(t, "x509", "-outform", "DER", "-in", c)
	}
	return m
}

func (m *material) export(t *testing.T, kt, password string, iter int, name string) []byte {
	ck := fmt.Sprintf("%s|%s|%d|%s", kt, password, iter, name)
	if b, ok := m.pfx[ck]; ok {
		return b
	}
	outp := filepath.Join(m.dir, fmt.Sprintf("f%d.pfx", len(m.pfx)))
	args := []string{"pkcs12", "-export", "-legacy", "-inkey", m.keyPEM[kt], "-in", m.certPEM[kt], "-out", outp, "-iter", strconv.Itoa(iter)}
	if name != "" {
		args = append(args, "-name", name)
	}
	if password == "" {
		args = append(args, "-passout", "pass:")
	} else {
		pf := filepath.Join(m.dir, fmt.Sprintf("pw%d", len(m.pfx)))
		if err := os.WriteFile(pf, []byte(password+"\n"), 0o600); err != nil {
			t.Fatal(err)
		}
		args = append(args, "-passout", "file:"+pf)
	}
	run(t, args...)
	b, err := os.ReadFile(outp)
	if err != nil {
		t.Fatal(err)
	}
	m.pfx[ck] = b
	return b
}

// ---------------------------------------------------------------- DER walker

type node struct {
	off, hdr, length int // offsets in the file: tag at off, content at off+hdr
	tag              byte
	depth            int
	inOctet          bool // reached by descending into an OCTET STRING that itself holds DER
}

// walk lists the TLVs of b[from:to], descending into constructed values and into OCTET STRINGs / context tags whose
// content is itself one or more complete TLVs.
func walk(b []byte, from, to, depth int, inOctet bool, out *[]node) bool {
	p := from
	for p < to {
		if p+2 > to {
			return false
		}
		tag := b[p]
		l := int(b[p+1])
		hdr := 2
		if l >= 0x80 {
			n := l - 0x80
			if n == 0 || n > 3 || p+2+n > to {
				return false
			}
			l = 0
			for i := 0; i < n; i++ {
				l = l<<8 | int(b[p+2+i])
			}
			hdr = 2 + n
		}
		if p+hdr+l > to {
			return false
		}
		*out = append(*out, node{off: p, hdr: hdr, length: l, tag: tag, depth: depth, inOctet: inOctet})
		if tag&0x20 != 0 {
			if !walk(b, p+hdr, p+hdr+l, depth+1, inOctet, out) {
				return false
			}
		} else if tag == 0x04 && l > 2 {
			var sub []node
			if walk(b, p+hdr, p+hdr+l, depth+1, true, &sub) && len(sub) > 0 && (b[p+hdr] == 0x30 || b[p+hdr] == 0x31) {
				*out = append(*out, sub...)
			}
		}
		p += hdr + l
	}
	return p == to
}

var (
	oidShroudedKeyBag = []byte{0x2a, 0x86, 0x48, 0x86, 0xf7, 0x0d, 0x01, 0x0c, 0x0a, 0x01, 0x02}
	oidSHA1           = []byte{0x2b, 0x0e, 0x03, 0x02, 0x1a}
)

// layout of an openssl-written PFX: the authenticated safe (content of the OCTET STRING in the first ContentInfo) and
// the MacData fields.
type layout struct {
	nodes            []node
	authOff, authLen int  // bytes the MAC covers
	digest, salt     node // OCTET STRINGs of MacData
	iter             *node
	version          node
	keyCipher        *node // ciphertext of the shrouded key bag
}

func analyse(b []byte) (*layout, error) {
	var ns []node
	if !walk(b, 0, len(b), 0, false, &ns) {
		return nil, fmt.Errorf("the file does not walk as DER")
	}
	l := &layout{nodes: ns}
	// top: SEQUENCE { INTEGER version, SEQUENCE authSafe {OID, [0] { OCTET STRING }}, SEQUENCE macData }
	if len(ns) < 6 || ns[0].tag != 0x30 || ns[1].tag != 0x02 {
		return nil, fmt.Errorf("unexpected PFX shape")
	}
	l.version = ns[1]
	for i, n := range ns {
		if n.depth == 3 && n.tag == 0x04 && !n.inOctet && l.authLen == 0 {
			l.authOff, l.authLen = n.off+n.hdr, n.length
		}
		if n.tag == 0x06 && bytes.Equal(b[n.off+n.hdr:n.off+n.hdr+n.length], oidSHA1) && !n.inOctet {
			// DigestInfo { AlgId {OID sha1, NULL}, OCTET STRING digest }, then OCTET STRING salt, then INTEGER iterations
			for j := i + 1; j < len(ns); j++ {
				if ns[j].tag == 0x04 && ns[j].length == 20 && l.digest.length == 0 {
					l.digest = ns[j]
				} else if ns[j].tag == 0x04 && l.digest.length != 0 && l.salt.length == 0 {
					l.salt = ns[j]
				} else if ns[j].tag == 0x02 && l.salt.length != 0 {
					nn := ns[j]
					l.iter = &nn
				}
			}
		}
		if n.tag == 0x06 && bytes.Equal(b[n.off+n.hdr:n.off+n.hdr+n.length], oidShroudedKeyBag) {
			for j := i + 1; j < len(ns); j++ {
				if ns[j].tag == 0x04 && ns[j].length >= 64 {
					nn := ns[j]
					l.keyCipher = &nn
					break
				}
			}
		}
	}
	if l.authLen == 0 || l.digest.length != 20 || l.salt.length == 0 {
		return nil, fmt.Errorf("authenticated safe or MacData not found")
	}
	return l, nil
}

// ---------------------------------------------------------------- RFC 7292 appendix B.2 (harness's own, for the MAC)

func kdf(password, salt []byte, iter int, id byte, size int) []byte {
	const u, v = 20, 64
	fill := func(p []byte) []byte {
		if len(p) == 0 {
			return nil
		}
		n := v * ((len(p) + v - 1) / v)
		o := make([]byte, n)
		for i := range o {
			o[i] = p[i%len(p)]
		}
		return o
	}
	D := bytes.Repeat([]byte{id}, v)
	I := append(fill(salt), fill(password)...)
	var out []byte
	for len(out) < size {
		h := sha1.Sum(append(append([]byte(nil), D...), I...))
		a := h[:]
		for j := 1; j < iter; j++ {
			hh := sha1.Sum(a)
			a = hh[:]
		}
		out = append(out, a...)
		B := make([]byte, v)
		for i := range B {
			B[i] = a[i%u]
		}
		for j := 0; j < len(I); j += v { // I_j = (I_j + B + 1) mod 2^(8v)
			carry := 1
			for k := v - 1; k >= 0; k-- {
				s := int(I[j+k]) + int(B[k]) + carry
				I[j+k] = byte(s)
				carry = s >> 8
			}
		}
	}
	return out[:size]
}

func bmp(s string) []byte {
	var o []byte
	for _, r := range s {
		o = append(o, byte(r>>8), byte(r))
	}
	return append(o, 0, 0)
}

// macOf computes the PFX MAC over the authenticated safe for the given password bytes.
func macOf(b []byte, l *layout, pw []byte, iter int) []byte {
	key := kdf(pw, b[l.salt.off+l.salt.hdr:l.salt.off+l.salt.hdr+l.salt.length], iter, 3, 20)
	m := hmac.New(sha1.New, key)
	m.Write(b[l.authOff : l.authOff+l.authLen])
	return m.Sum(nil)
}

// ---------------------------------------------------------------- passwords

func password(class string, r *rand.Rand) string {
	switch class {
	case "ascii":
		if r.Intn(2) == 0 {
			return "secret"
		}
		n := 1 + r.Intn(40)
		b := make([]byte, n)
		for i := range b {
			b[i] = byte(0x21 + r.Intn(0x7e-0x21))
		}
		return string(b)
	case "latin":
		return "päßwördé"
	case "cjk":
		return "密码中文あ"
	case "long":
		s := ""
		al := []rune("abcXYZ019éü中文ЖΩ ")
		for i := 0; i < 40; i++ {
			s += string(al[r.Intn(len(al))])
		}
		return s
	case "empty":
		return ""
	}
	panic("unknown password class " + class)
}

func iterOf(class string, r *rand.Rand) int {
	switch class {
	case "rnd1", "rnd2":
		return 1 + r.Intn(4096)
	}
	n, _ := strconv.Atoi(class)
	return n
}

// ---------------------------------------------------------------- calling the package

type result struct {
	outcome string // ok / badpw / error / panic
	err     error
	key     any
	cert    *x509.Certificate
	blocks  []*pem.Block
	panicV  string
}

func callDecode(b []byte, pw string) (r result) {
	defer func() {
		if x := recover(); x != nil {
			r.outcome, r.panicV = "panic", fmt.Sprintf("%v\n%s", x, debug.Stack())
		}
	}()
	k, c, err := pkcs12.Decode(b, pw)
	r.key, r.cert, r.err = k, c, err
	r.outcome = classify(err)
	return
}

func callToPEM(b []byte, pw string) (r result) {
	defer func() {
		if x := recover(); x != nil {
			r.outcome, r.panicV = "panic", fmt.Sprintf("%v\n%s", x, debug.Stack())
		}
	}()
	bl, err := pkcs12.ToPEM(b, pw)
	r.blocks, r.err = bl, err
	r.outcome = classify(err)
	return
}

func classify(err error) string {
	switch {
	case err == nil:
		return "ok"
	case err == pkcs12.ErrIncorrectPassword:
		return "badpw"
	}
	return "error"
}

func sameKey(a, b any) bool {
	switch x := a.(type) {
	case *rsa.PrivateKey:
		y, ok := b.(*rsa.PrivateKey)
		return ok && x.Equal(y)
	case *ecdsa.PrivateKey:
		y, ok := b.(*ecdsa.PrivateKey)
		return ok && x.Equal(y)
	}
	return false
}

// exact: the results are exactly the key and the certificate of the file.
func (m *material) exact(kt string, d, p result) string {
	if d.outcome == "ok" {
		if !sameKey(d.key, m.key[kt]) {
			return "Decode returned a different private key"
		}
		if d.cert == nil || !bytes.Equal(d.cert.Raw, m.certDER[kt]) {
			return "Decode returned a different certificate"
		}
	}
	if p.outcome == "ok" {
		nc, nk := 0, 0
		for _, bl := range p.blocks {
			switch bl.Type {
			case "CERTIFICATE":
				nc++
				if !bytes.Equal(bl.Bytes, m.certDER[kt]) {
					return "ToPEM returned a different certificate"
				}
			case "PRIVATE KEY":
				nk++
				var k any
				var err error
				if kt == "rsa" {
					k, err = x509.ParsePKCS1PrivateKey(bl.Bytes)
				} else {
					k, err = x509.ParseECPrivateKey(bl.Bytes)
				}
				if err != nil || !sameKey(k, m.key[kt]) {
					return fmt.Sprintf("ToPEM returned a different private key (parse error %v)", err)
				}
			}
		}
		if nc != 1 || nk != 1 {
			return fmt.Sprintf("ToPEM returned %d certificates and %d keys", nc, nk)
		}
	}
	return ""
}

// ---------------------------------------------------------------- damage

func damage(b []byte, l *layout, class, filePw string, iter int, r *rand.Rand) ([]byte, bool) {
	o := append([]byte(nil), b...)
	flip := func(n node) {
		o[n.off+n.hdr+r.Intn(n.length)] ^= byte(1 << uint(r.Intn(8)))
	}
	outer := func() []node { // nodes of the PFX PDU itself, not inside the authenticated safe
		var ns []node
		for _, n := range l.nodes {
			if !n.inOctet && (n.off < l.authOff || n.off >= l.authOff+l.authLen) {
				ns = append(ns, n)
			}
		}
		return ns
	}
	switch class {
	case "none":
	case "outer-tag":
		ns := outer()
		n := ns[r.Intn(len(ns))]
		if n.tag == 0x05 { // the NULL parameters of the digest algorithm are not interpreted
			n = ns[0]
		}
		o[n.off] ^= []byte{0x01, 0x20, 0x40, 0x1f}[r.Intn(4)]
	case "outer-len":
		ns := outer()
		n := ns[r.Intn(len(ns))]
		if n.tag == 0x05 {
			n = ns[0]
		}
		o[n.off+n.hdr-1] += []byte{1, 0xff, 0x7f}[r.Intn(3)]
	case "truncated":
		o = o[:r.Intn(len(o))]
	case "trailing":
		o = append(o, byte(r.Intn(256)))
	case "version":
		o[l.version.off+l.version.hdr] = []byte{0, 1, 2, 4, 0x7f}[r.Intn(5)]
	case "mac-digest":
		flip(l.digest)
	case "mac-salt":
		flip(l.salt)
	case "mac-iter":
		if l.iter == nil {
			return nil, false
		}
		n := *l.iter
		p := n.off + n.hdr + n.length - 1
		o[p] ^= 0x01 // stays a minimal INTEGER
	case "content-byte":
		o[l.authOff+r.Intn(l.authLen)] ^= byte(1 << uint(r.Intn(8)))
	case "padding":
		if l.keyCipher == nil {
			return nil, false
		}
		n := *l.keyCipher
		o[n.off+n.hdr+n.length-1] ^= byte(1 + r.Intn(255))
		// re-authenticate with the file password, in the convention the file uses for it
		pw := bmp(filePw)
		if !hmac.Equal(macOf(b, l, pw, iter), b[l.digest.off+l.digest.hdr:l.digest.off+l.digest.hdr+20]) {
			pw = nil // openssl's other convention for the empty password
			if filePw != "" || !hmac.Equal(macOf(b, l, pw, iter), b[l.digest.off+l.digest.hdr:l.digest.off+l.digest.hdr+20]) {
				return nil, false
			}
		}
		copy(o[l.digest.off+l.digest.hdr:], macOf(o, l, pw, iter))
	default:
		panic("unknown damage class " + class)
	}
	return o, true
}

func TestCases(t *testing.T) {
	out := vutil.NewOut()
	defer func() {
		if err := out.Write(); err != nil {
			t.Fatal(err)
		}
	}()
	if _, err := exec.LookPath("openssl"); err != nil {
		t.Fatalf("openssl not found: %v", err)
	}
	m := newMaterial(t)
	stats := map[string]int{}
	perSig := map[string]int{}
	viol := func(sig, what string, detail map[string]any) {
		perSig[sig]++
		if perSig[sig] <= 3 {
			out.Violation(sig, what, detail)
		}
		t.Errorf("%s: %s", sig, what)
	}
	idx := 0
	err := vutil.ReadNDJSON(vutil.Env("VERIF_CASES", ""), func(line []byte) error {
		var c tcase
		if err := json.Unmarshal(line, &c); err != nil {
			return err
		}
		idx++
		r := vutil.Rand(2100 + int64(idx))
		// the file
		h := int64(0)
		for _, ch := range c.FilePw + "/" + c.Iter {
			h = h*131 + int64(ch)
		}
		rf := vutil.Rand(21 + h%100000) // one file per (password class, iteration class, key type): they are cached
		filePw := password(c.FilePw, rf)
		iter := iterOf(c.Iter, rf)
		name := ""
		if c.FilePw == "cjk" || c.FilePw == "latin" {
			name = "friendly 名前 é"
		}
		pfx := m.export(t, c.Key, filePw, iter, name)
		l, err := analyse(pfx)
		if err != nil {
			t.Fatalf("cannot analyse the openssl file: %v", err)
		}
		// the harness's own MAC computation agrees with openssl's for the BMP encoding of the password
		// (or, for the empty password, one of the two conventions): an independent check of the test material
		ownMac := hmac.Equal(macOf(pfx, l, bmp(filePw), iter), pfx[l.digest.off+l.digest.hdr:l.digest.off+l.digest.hdr+20])
		if !ownMac && filePw == "" {
			ownMac = hmac.Equal(macOf(pfx, l, nil, iter), pfx[l.digest.off+l.digest.hdr:l.digest.off+l.digest.hdr+20])
			stats["empty_password_as_empty_bytes"]++
		}
		if !ownMac {
			t.Fatalf("the harness cannot reproduce openssl's MAC for password class %s iter %d", c.FilePw, iter)
		}
		given := ""
		switch c.Given {
		case "same":
			given = filePw
		case "other":
			given = filePw + "x"
			if r.Intn(2) == 0 && filePw != "" {
				given = filePw[:len(filePw)-1] // may cut a multi-byte character: an invalid UTF-8 tail is a different password too
				if given == "" {
					given = "y"
				}
			}
		case "emptystr":
			given = ""
		case "nonbmp":
			given = "a\U0001F600"
		}
		file, ok := damage(pfx, l, c.Dmg, filePw, iter, r)
		if !ok {
			stats["unrealised_"+c.Dmg]++
			return nil
		}
		d, p := callDecode(file, given), callToPEM(file, given)
		out.Case(string(line))
		stats["cases"]++
		detail := map[string]any{"case": json.RawMessage(append([]byte(nil), line...)), "file_password": filePw, "given_password": given, "iterations": iter,
			"pfx_hex": hex.EncodeToString(file), "decode": d.outcome, "topem": p.outcome, "decode_err": fmt.Sprint(d.err), "topem_err": fmt.Sprint(p.err)}
		if d.outcome == "panic" || p.outcome == "panic" {
			viol("pkcs12-panic:"+c.Dmg, fmt.Sprintf("panic on a %s file (damage %s): %s%s", c.Key, c.Dmg, d.panicV, p.panicV), detail)
			return nil
		}
		if why := m.exact(c.Key, d, p); why != "" {
			viol("pkcs12-wrong-data", fmt.Sprintf("%s (key %s, file password class %s, damage %s)", why, c.Key, c.FilePw, c.Dmg), detail)
			return nil
		}
		// the property's clauses
		switch {
		case c.Dmg == "none" && c.Decode == "ok" && (d.outcome != "ok" || p.outcome != "ok"):
			viol("pkcs12-interop:"+c.FilePw, fmt.Sprintf("an openssl -legacy PFX (%s key, password class %s, %d iterations) is not decoded with its own password: Decode %v, ToPEM %v", c.Key, c.FilePw, iter, d.err, p.err), detail)
		case c.Dmg == "none" && c.Decode == "badpw" && (d.outcome != "badpw" || p.outcome != "badpw"):
			viol("pkcs12-wrong-password-not-reported", fmt.Sprintf("wrong password (%s for a %s file): Decode %s (%v), ToPEM %s (%v) instead of ErrIncorrectPassword", c.Given, c.FilePw, d.outcome, d.err, p.outcome, p.err), detail)
		case c.Dmg != "none" && (d.outcome == "ok" || p.outcome == "ok") && c.Decode != "ok":
			// the data is intact (exact() passed): the damage did not matter to the decoder; informational
			stats["damage_tolerated_"+c.Dmg]++
		case d.outcome != c.Decode || p.outcome != c.ToPEM:
			// an error of another kind than the model's: the property only asks for "an error rather than a panic"
			stats["other_error_kind_"+c.Dmg+"_"+d.outcome]++
		}
		if p.outcome == "ok" && name != "" {
			for _, bl := range p.blocks {
				if bl.Headers["friendlyName"] != name {
					viol("pkcs12-friendly-name", fmt.Sprintf("friendlyName %q decoded as %q", name, bl.Headers["friendlyName"]), detail)
				}
			}
		}
		if idx <= 3 {
			out.Sample(json.RawMessage(append([]byte(nil), line...)))
		}
		return nil
	})
	if err != nil {
		t.Fatal(err)
	}

	// ---------------------------------------------------------------- password lengths 0..40 (the key derivation fills 64-byte
	// blocks with the BMP password: 2n+2 bytes, a block boundary at n = 31) and random iteration counts
	{
		r := vutil.Rand(2140)
		lens := []int{0, 1, 2, 30, 31, 32, 33, 39, 40}
		if vutil.Thorough() {
			lens = nil
			for n := 0; n <= 40; n++ {
				lens = append(lens, n)
			}
		}
		alpha := []rune("abcdefghijklmnopqrstuvwxyzABCDEFGHIJKLMNOPQRSTUVWXYZ0123456789 _-éüß中文字あЖΩ")
		for _, n := range lens {
			for variant := 0; variant < 2; variant++ {
				pw := ""
				for i := 0; i < n; i++ {
					if variant == 0 {
						pw += string(alpha[r.Intn(62)]) // ASCII
					} else {
						pw += string(alpha[r.Intn(len(alpha))]) // ASCII, Latin, CJK, Cyrillic, Greek
					}
				}
				kt := []string{"rsa", "p256"}[r.Intn(2)]
				iter := 1 + r.Intn(4096)
				if !vutil.Thorough() {
					iter = 1 + r.Intn(64)
				}
				pfx := m.export(t, kt, pw, iter, "")
				out.Case(fmt.Sprintf("pwlen/%d/%d", n, variant))
				stats["password_length_cases"]++
				d, p := callDecode(pfx, pw), callToPEM(pfx, pw)
				detail := map[string]any{"key": kt, "iterations": iter, "file_password": pw, "password_chars": n, "pfx_hex": hex.EncodeToString(pfx), "decode_err": fmt.Sprint(d.err), "topem_err": fmt.Sprint(p.err)}
				if d.outcome == "panic" || p.outcome == "panic" {
					viol("pkcs12-panic:pwlen", "panic: "+d.panicV+p.panicV, detail)
					continue
				}
				if why := m.exact(kt, d, p); why != "" {
					viol("pkcs12-wrong-data", why, detail)
					continue
				}
				if d.outcome != "ok" || p.outcome != "ok" {
					viol("pkcs12-interop:password-length", fmt.Sprintf("an openssl -legacy PFX (%s key, password of %d characters, %d iterations) is not decoded with its own password: Decode %v, ToPEM %v", kt, n, iter, d.err, p.err), detail)
				}
				if n > 0 {
					w := callDecode(pfx, pw[:len(pw)-1])
					if w.outcome != "badpw" {
						viol("pkcs12-wrong-password-not-reported", fmt.Sprintf("password shortened by one byte: Decode %s (%v)", w.outcome, w.err), detail)
					}
				}
			}
		}
	}

	// ---------------------------------------------------------------- the other convention for the empty password
	// openssl keys everything with the two-byte NUL for "" ; some writers use the empty byte string.  The package tries
	// both (getSafeContents retries the MAC with a nil password and then decrypts with it).
	for _, kt := range []string{"rsa", "p256"} {
		for _, iter := range []int{1, 2, 2048} {
			pfx := m.export(t, kt, "", iter, "")
			l, err := analyse(pfx)
			if err != nil {
				t.Fatal(err)
			}
			alt, err := reencrypt(pfx, l, []byte{0, 0}, nil, iter)
			if err != nil {
				t.Fatalf("cannot build the empty-bytes variant: %v", err)
			}
			for _, given := range []string{"", "x"} {
				out.Case(fmt.Sprintf("emptyconv/%s/%d/%q", kt, iter, given))
				stats["empty_bytes_convention_cases"]++
				d, p := callDecode(alt, given), callToPEM(alt, given)
				detail := map[string]any{"key": kt, "iterations": iter, "given_password": given, "pfx_hex": hex.EncodeToString(alt), "decode_err": fmt.Sprint(d.err), "topem_err": fmt.Sprint(p.err)}
				if d.outcome == "panic" || p.outcome == "panic" {
					viol("pkcs12-panic:emptyconv", "panic: "+d.panicV+p.panicV, detail)
					continue
				}
				if why := m.exact(kt, d, p); why != "" {
					viol("pkcs12-wrong-data", why+" (empty password as empty byte string)", detail)
					continue
				}
				want := map[string]string{"": "ok", "x": "badpw"}[given]
				if d.outcome != want || p.outcome != want {
					sig := "pkcs12-interop:empty-bytes-convention"
					if want == "badpw" {
						sig = "pkcs12-wrong-password-not-reported"
					}
					viol(sig, fmt.Sprintf("PFX protected with the empty password as an empty byte string (%s key, %d iterations), password %q: Decode %s (%v), ToPEM %s (%v), expected %s", kt, iter, given, d.outcome, d.err, p.outcome, p.err, want), detail)
				}
			}
		}
	}

	// ---------------------------------------------------------------- sweeps: every tag / length byte, every truncation, random bytes
	nRand, _ := strconv.Atoi(vutil.Env("VERIF_RAND", "2000"))
	r := vutil.Rand(2121)
	for _, kt := range []string{"rsa", "p256"} {
		for _, pw := range []string{"secret", "密码"} {
			pfx := m.export(t, kt, pw, 3, "")
			l, err := analyse(pfx)
			if err != nil {
				t.Fatal(err)
			}
			try := func(file []byte, what string, mustFail bool) {
				out.Case("")
				stats["sweep_inputs"]++
				d, p := callDecode(file, pw), callToPEM(file, pw)
				detail := map[string]any{"mutation": what, "key": kt, "pfx_hex": hex.EncodeToString(file), "decode_err": fmt.Sprint(d.err), "topem_err": fmt.Sprint(p.err)}
				if d.outcome == "panic" || p.outcome == "panic" {
					viol("pkcs12-panic:sweep", fmt.Sprintf("panic on %s: %s%s", what, d.panicV, p.panicV), detail)
					return
				}
				if why := m.exact(kt, d, p); why != "" {
					viol("pkcs12-wrong-data", why+" after "+what, detail)
					return
				}
				if d.outcome == "ok" || p.outcome == "ok" {
					stats["sweep_tolerated"]++
					if mustFail {
						viol("pkcs12-truncated-accepted", "a truncated file is decoded: "+what, detail)
					}
				}
			}
			for _, n := range l.nodes {
				for _, v := range []func(byte) byte{func(x byte) byte { return x ^ 1 }, func(x byte) byte { return x ^ 0x80 }, func(x byte) byte { return 0 }, func(x byte) byte { return 0xff },
					func(x byte) byte { return x + 1 }, func(x byte) byte { return x - 1 }, func(x byte) byte { return x ^ 0x20 }} {
					for off := n.off; off < n.off+n.hdr; off++ { // the tag byte and every length byte
						f := append([]byte(nil), pfx...)
						f[off] = v(f[off])
						if f[off] != pfx[off] {
							try(f, fmt.Sprintf("byte %d (tag/length of the TLV at %d, depth %d) changed from %02x to %02x", off, n.off, n.depth, pfx[off], f[off]), false)
						}
					}
				}
			}
			step := 1
			if !vutil.Thorough() {
				step = 7
			}
			for n := 0; n < len(pfx); n += step {
				try(pfx[:n], fmt.Sprintf("truncation to %d of %d bytes", n, len(pfx)), true)
			}
			for i := 0; i < nRand; i++ {
				f := append([]byte(nil), pfx...)
				for k := 1 + r.Intn(3); k > 0; k-- {
					f[r.Intn(len(f))] = byte(r.Intn(256))
				}
				try(f, "random byte mutation", false)
			}
		}
	}
	for k, v := range stats {
		out.Extra[k] = v
	}
	for k, v := range perSig {
		out.Extra["violations_"+k] = v
	}
}
