package c21

import (
	"bytes"
	"crypto/cipher"
	"crypto/des"
	"fmt"

	"golang.org/x/crypto/pkcs12"
)

var (
	oidPBE3DES = []byte{0x2a, 0x86, 0x48, 0x86, 0xf7, 0x0d, 0x01, 0x0c, 0x01, 0x03}
	oidPBERC2  = []byte{0x2a, 0x86, 0x48, 0x86, 0xf7, 0x0d, 0x01, 0x0c, 0x01, 0x06}
)

// reencrypt rewrites every PBE-protected part of an openssl PFX from password oldPw to newPw (raw password bytes as
// they enter the RFC 7292 key derivation) and recomputes the MAC with newPw.  Used to build the other convention for
// the empty password (empty byte string instead of a two-byte NUL): the package tries both.  RC2 comes from the
// package's own internal/rc2 through the existing verif hook VerifRC2New; 3DES from the standard library.
func reencrypt(b []byte, l *layout, oldPw, newPw []byte, macIter int) ([]byte, error) {
	o := append([]byte(nil), b...)
	done := 0
	for i, n := range l.nodes {
		if n.tag != 0x06 {
			continue
		}
		oid := b[n.off+n.hdr : n.off+n.hdr+n.length]
		is3des, isrc2 := bytes.Equal(oid, oidPBE3DES), bytes.Equal(oid, oidPBERC2)
		if !is3des && !isrc2 {
			continue
		}
		var salt, ct *node
		iter := 1
		for j := i + 1; j < len(l.nodes) && ct == nil; j++ {
			m := l.nodes[j]
			switch {
			case m.tag == 0x04 && salt == nil:
				mm := m
				salt = &mm
			case m.tag == 0x02 && salt != nil:
				iter = 0
				for _, x := range b[m.off+m.hdr : m.off+m.hdr+m.length] {
					iter = iter<<8 | int(x)
				}
			case (m.tag == 0x04 || m.tag == 0x80) && salt != nil && m.length >= 16:
				mm := m
				ct = &mm
			}
		}
		if salt == nil || ct == nil {
			return nil, fmt.Errorf("PBE parameters not found")
		}
		s := b[salt.off+salt.hdr : salt.off+salt.hdr+salt.length]
		mk := func(pw []byte) (cipher.Block, []byte, error) {
			iv := kdf(pw, s, iter, 2, 8)
			if is3des {
				blk, err := des.NewTripleDESCipher(kdf(pw, s, iter, 1, 24))
				return blk, iv, err
			}
			blk, err := pkcs12.VerifRC2New(kdf(pw, s, iter, 1, 5), 40)
			return blk, iv, err
		}
		ob, oiv, err := mk(oldPw)
		if err != nil {
			return nil, err
		}
		nb, niv, err := mk(newPw)
		if err != nil {
			return nil, err
		}
		c := b[ct.off+ct.hdr : ct.off+ct.hdr+ct.length]
		if len(c)%8 != 0 {
			return nil, fmt.Errorf("ciphertext length %d", len(c))
		}
		plain := make([]byte, len(c))
		cipher.NewCBCDecrypter(ob, oiv).CryptBlocks(plain, c)
		pad := int(plain[len(plain)-1])
		if pad < 1 || pad > 8 || !bytes.Equal(plain[len(plain)-pad:], bytes.Repeat([]byte{byte(pad)}, pad)) {
			return nil, fmt.Errorf("the harness cannot decrypt the bag with the old password (padding %d)", pad)
		}
		cipher.NewCBCEncrypter(nb, niv).CryptBlocks(o[ct.off+ct.hdr:ct.off+ct.hdr+ct.length], plain)
		done++
	}
	if done != 2 {
		return nil, fmt.Errorf("%d PBE-protected parts found, expected 2", done)
	}
	copy(o[l.digest.off+l.digest.hdr:], macOf(o, l, newPw, macIter))
	return o, nil
}
