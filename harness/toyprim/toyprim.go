// Package toyprim is the Go twin of spec/PrimToy.tla and spec/PrimGF128.tla: the toy 16-byte block
// cipher (cipher.Block), the toy h-byte hash (hash.Hash) and plain transcriptions of the TLA+
// definitions built on them (HMAC per RFC 2104, GF(2^128) doubling, XTS, HKDF, PBKDF2, S2K).
// It exists so that the REAL golang.org/x/crypto constructions (xts, hkdf, pbkdf2, openpgp/s2k)
// can be run with a primitive whose outputs TLC evaluates exactly.  It has no authority of its
// own: every harness first checks it byte-for-byte against vectors TLC evaluated from the TLA+
// modules in the same run.  It shares no code with golang.org/x/crypto.
package toyprim

import (
	"crypto/cipher"
	"errors"
	"hash"
	"math/big"
)

// TPat: PrimToy!TPat.
func TPat(seed, n int) []byte {
	b := make([]byte, n)
	for i := range b {
		b[i] = byte((seed*73 + i*151 + (i/16)*29 + 7) % 256)
	}
	return b
}

// Pat: PrimWords!Pat.
func Pat(seed, n int) []byte {
	b := make([]byte, n)
	for i := range b {
		switch seed {
		case 0:
			b[i] = 0
		case 1:
			b[i] = 255
		default:
			b[i] = byte(((seed*131 + i*197 + (i/7)*31 + 17) ^ (((i%251)*(i%241) + seed) % 256)) % 256)
		}
	}
	return b
}

// ---------------------------------------------------------------- toy block cipher

type block struct {
	k  [16]byte
	bs int
}

func tsub(j int, b byte) byte    { return byte((int(b)*5 + 17 + j) % 256) }
func tsubInv(j int, b byte) byte { return byte(((int(b) + 512 - 17 - j) * 205) % 256) }

// NewBlock is PrimToy!ToyE/ToyD as a cipher.Block; the key must be 16 bytes.
func NewBlock(key []byte) (cipher.Block, error) {
	if len(key) != 16 {
		return nil, errors.New("toyprim: key must be 16 bytes")
	}
	c := &block{bs: 16}
	copy(c.k[:], key)
	return c, nil
}

// NewBlock8 is a cipher with a block size of 8 (only BlockSize matters; used for the key/block-size rule).
func NewBlock8(key []byte) (cipher.Block, error) {
	c, err := NewBlock(key)
	if err == nil {
		c.(*block).bs = 8
	}
	return c, err
}

func (c *block) BlockSize() int { return c.bs }
func (c *block) Encrypt(dst, src []byte) {
	var x [16]byte
	copy(x[:], src[:16])
	for i := 0; i < 16; i++ {
		j := (i + 3) % 16
		dst[i] = tsub(j, x[j]^c.k[j])
	}
}
func (c *block) Decrypt(dst, src []byte) {
	var y [16]byte
	copy(y[:], src[:16])
	for j := 0; j < 16; j++ {
		i := (j + 13) % 16
		dst[j] = tsubInv(j, y[i]) ^ c.k[j]
	}
}

// KeyFor: PrimToy!ToyKeyFor.
func KeyFor(x, y []byte) []byte {
	k := make([]byte, 16)
	for j := 0; j < 16; j++ {
		i := (j + 13) % 16
		k[j] = tsubInv(j, y[i]) ^ x[j]
	}
	return k
}

// ---------------------------------------------------------------- GF(2^128), XTS

var gfPoly = big.NewInt(0x87)

// Mul2 is PrimGF128!GFMul2 (the polynomial definition) on a big integer: the 16 little-endian bytes
// are the coefficients of x^0..x^127; multiply by x and replace x^128 by x^7+x^2+x+1.
func Mul2(t []byte) []byte {
	be := make([]byte, 16)
	for i := range be {
		be[i] = t[15-i]
	}
	n := new(big.Int).SetBytes(be)
	n.Lsh(n, 1)
	if n.Bit(128) == 1 {
		n.SetBit(n, 128, 0)
		n.Xor(n, gfPoly)
	}
	out := make([]byte, 16)
	b := n.FillBytes(make([]byte, 16))
	for i := range out {
		out[i] = b[15-i]
	}
	return out
}

func xor16(a, b []byte) []byte {
	o := make([]byte, 16)
	for i := range o {
		o[i] = a[i] ^ b[i]
	}
	return o
}

// XTS is XTS!XTSEnc / XTS!XTSDec over any cipher.Block pair: T0 = E_k2(LE128(sector)), T(j+1) = Mul2(Tj),
// out_j = E/D_k1(in_j xor Tj) xor Tj.  sector8 is the sector number as 8 little-endian bytes.
func XTS(k1, k2 cipher.Block, sector8 []byte, in []byte, enc bool) []byte {
	t := make([]byte, 16)
	copy(t, sector8)
	k2.Encrypt(t, t)
	out := make([]byte, 0, len(in))
	for j := 0; j+16 <= len(in); j += 16 {
		x := xor16(in[j:j+16], t)
		y := make([]byte, 16)
		if enc {
			k1.Encrypt(y, x)
		} else {
			k1.Decrypt(y, x)
		}
		out = append(out, xor16(y, t)...)
		t = Mul2(t)
	}
	return out
}

// ---------------------------------------------------------------- toy hash

// Hash is PrimToy!ToyHash(h, .) as a hash.Hash (Size h, BlockSize 2h).
type Hash struct {
	h int
	s []byte
	n int
	// Writes counts Write calls, Absorbed the bytes absorbed since the last Reset (harness statistics).
	Writes, Absorbed int
}

func iv(h int) []byte {
	s := make([]byte, h)
	for i := range s {
		s[i] = byte((103 + 34*i + i*i) % 256)
	}
	return s
}

// NewHash returns a toy hash with an h-byte output.
func NewHash(h int) *Hash { return &Hash{h: h, s: iv(h)} }

// New4 and New3 are func() hash.Hash constructors for the 4- and 3-byte toy hashes.
func New4() hash.Hash { return NewHash(4) }
func New3() hash.Hash { return NewHash(3) }

func absorb(s []byte, b byte) {
	h := len(s)
	x := byte((int(s[0]^b)*167 + int(s[1]) + 13) % 256)
	last := x ^ (s[h-1] / 4)
	copy(s, s[1:])
	s[h-1] = last
}

func (d *Hash) Write(p []byte) (int, error) {
	for _, b := range p {
		absorb(d.s, b)
	}
	d.n += len(p)
	d.Writes++
	d.Absorbed += len(p)
	return len(p), nil
}

func (d *Hash) Sum(in []byte) []byte {
	s := append([]byte(nil), d.s...)
	n := d.n
	for _, b := range []byte{byte(n % 256), byte((n / 256) % 256), byte((n / 65536) % 256)} {
		absorb(s, b)
	}
	for i := 0; i < d.h+2; i++ {
		absorb(s, 165)
	}
	return append(in, s...)
}

func (d *Hash) Reset()         { d.s = iv(d.h); d.n = 0; d.Absorbed = 0 }
func (d *Hash) Size() int      { return d.h }
func (d *Hash) BlockSize() int { return 2 * d.h }

// Sum computes the toy hash of m in one call.
func Sum(h int, m []byte) []byte {
	d := NewHash(h)
	d.Write(m)
	return d.Sum(nil)
}
