package toyprim

import "hash"

// Plain Go transcriptions of the TLA+ definitions of spec/PrimToy.tla (ToyHMAC = RFC 2104),
// spec/Kdf.tla (HKDF per RFC 5869, PBKDF2 per RFC 8018) and spec/S2K.tla (RFC 4880 3.7.1), generic in
// the hash constructor so that, once validated against TLC with the toy hash, they can judge the
// real packages with the standard library's hashes.  They use neither crypto/hmac nor
// golang.org/x/crypto.

// HMAC: RFC 2104.  H(K0^opad | H(K0^ipad | msg)), keys longer than the block are hashed.
func HMAC(newHash func() hash.Hash, key, msg []byte) []byte {
	h := newHash()
	B := h.BlockSize()
	k0 := key
	if len(k0) > B {
		h.Write(k0)
		k0 = h.Sum(nil)
		h.Reset()
	}
	ipad := make([]byte, B)
	opad := make([]byte, B)
	copy(ipad, k0)
	copy(opad, k0)
	for i := range ipad {
		ipad[i] ^= 0x36
		opad[i] ^= 0x5c
	}
	h.Write(ipad)
	h.Write(msg)
	inner := h.Sum(nil)
	h.Reset()
	h.Write(opad)
	h.Write(inner)
	return h.Sum(nil)
}

// HKDFExtract: Kdf!HkdfExtract (absent salt = HashLen zero octets).
func HKDFExtract(newHash func() hash.Hash, salt, ikm []byte) []byte {
	if len(salt) == 0 {
		salt = make([]byte, newHash().Size())
	}
	return HMAC(newHash, salt, ikm)
}

// HKDFStream: Kdf!HkdfStream, T(1) | ... | T(n).
func HKDFStream(newHash func() hash.Hash, prk, info []byte, n int) []byte {
	var out, t []byte
	for i := 1; i <= n; i++ {
		m := append(append(append([]byte(nil), t...), info...), byte(i))
		t = HMAC(newHash, prk, m)
		out = append(out, t...)
	}
	return out
}

// PBKDF2: Kdf!Pbkdf2.
func PBKDF2(newHash func() hash.Hash, pw, salt []byte, c, dkLen int) []byte {
	hl := newHash().Size()
	var out []byte
	for i := 1; len(out) < dkLen; i++ {
		u := HMAC(newHash, pw, append(append([]byte(nil), salt...), byte(i>>24), byte(i>>16), byte(i>>8), byte(i)))
		t := append([]byte(nil), u...)
		for j := 2; j <= c; j++ {
			u = HMAC(newHash, pw, u)
			for k := 0; k < hl; k++ {
				t[k] ^= u[k]
			}
		}
		out = append(out, t...)
	}
	return out[:dkLen]
}
