package toyprim

import "hash"

// FeedRL writes the run-length form of an S2K preimage (S2K!ExpandRL) into h: `zeros` zero octets,
// then `unit` repeated and truncated to `total` octets.
func FeedRL(h hash.Hash, zeros int, unit []byte, total int) {
	if zeros > 0 {
		h.Write(make([]byte, zeros))
	}
	if total == 0 {
		return
	}
	// feed in large chunks made of whole repetitions
	reps := 1
	if len(unit) < 1<<16 {
		reps = (1 << 16) / len(unit)
	}
	chunk := make([]byte, 0, reps*len(unit))
	for i := 0; i < reps; i++ {
		chunk = append(chunk, unit...)
	}
	for total >= len(chunk) {
		h.Write(chunk)
		total -= len(chunk)
	}
	h.Write(chunk[:total])
}

// S2KKey is S2K!Key: mode 0 simple, 1 salted, 3 iterated (count = octets to hash, at least |salt|+|pass|).
func S2KKey(newHash func() hash.Hash, mode int, salt, pass []byte, count, keyLen int) []byte {
	var unit []byte
	switch mode {
	case 0:
		unit = pass
	default:
		unit = append(append([]byte(nil), salt...), pass...)
	}
	total := len(unit)
	if mode == 3 && count > total {
		total = count
	}
	var out []byte
	for i := 0; len(out) < keyLen; i++ {
		h := newHash()
		FeedRL(h, i, unit, total)
		out = h.Sum(out)
	}
	return out[:keyLen]
}
