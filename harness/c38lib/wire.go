// Package c38lib holds helpers shared by the C38-C41 harnesses (SSH keys, certificates,
// signatures, OpenSSH private key files): an independent SSH wire reader/writer used to
// build mutated and non-canonical encodings, key generation for every key type, software
// security-key (sk-*) signers built the way PROTOCOL.u2f defines, and ssh-keygen helpers.
package c38lib

import (
	"encoding/binary"
	"errors"
	"math/big"
)

// W is an append-only SSH wire writer.
type W struct{ B []byte }

func (w *W) U32(v uint32) *W     { w.B = binary.BigEndian.AppendUint32(w.B, v); return w }
func (w *W) U64(v uint64) *W     { w.B = binary.BigEndian.AppendUint64(w.B, v); return w }
func (w *W) Byte(v byte) *W      { w.B = append(w.B, v); return w }
func (w *W) Raw(b []byte) *W     { w.B = append(w.B, b...); return w }
func (w *W) Str(b []byte) *W     { w.U32(uint32(len(b))); w.B = append(w.B, b...); return w }
func (w *W) S(s string) *W       { return w.Str([]byte(s)) }
func (w *W) Mpint(n *big.Int) *W { return w.Str(MpintBytes(n)) }

// MpintBytes is the canonical RFC 4251 mpint body of a non-negative integer.
func MpintBytes(n *big.Int) []byte {
	if n.Sign() == 0 {
		return nil
	}
	b := n.Bytes()
	if b[0]&0x80 != 0 {
		b = append([]byte{0}, b...)
	}
	return b
}

// R is an SSH wire reader.
type R struct {
	B   []byte
	Err error
}

var ErrShort = errors.New("c38lib: short read")

func (r *R) U32() uint32 {
	if r.Err != nil || len(r.B) < 4 {
		r.Err = ErrShort
		return 0
	}
	v := binary.BigEndian.Uint32(r.B)
	r.B = r.B[4:]
	return v
}
func (r *R) U64() uint64 {
	if r.Err != nil || len(r.B) < 8 {
		r.Err = ErrShort
		return 0
	}
	v := binary.BigEndian.Uint64(r.B)
	r.B = r.B[8:]
	return v
}
func (r *R) Str() []byte {
	n := r.U32()
	if r.Err != nil || uint64(len(r.B)) < uint64(n) {
		r.Err = ErrShort
		return nil
	}
	v := r.B[:n:n]
	r.B = r.B[n:]
	return v
}

// KeyFieldKinds returns the field kinds ("s" string, "m" mpint) following the type name in a
// public key blob of the given plain key type.
func KeyFieldKinds(keyType string) []string {
	switch keyType {
	case "ssh-rsa":
		return []string{"m", "m"} // e n
	case "ssh-dss":
		return []string{"m", "m", "m", "m"} // p q g y
	case "ecdsa-sha2-nistp256", "ecdsa-sha2-nistp384", "ecdsa-sha2-nistp521":
		return []string{"s", "s"} // curve point
	case "ssh-ed25519":
		return []string{"s"}
	case "sk-ecdsa-sha2-nistp256@openssh.com":
		return []string{"s", "s", "s"} // curve point application
	case "sk-ssh-ed25519@openssh.com":
		return []string{"s", "s"} // pk application
	}
	return nil
}

// PlainType maps a certificate type name to the plain key type ("" if not a certificate type).
func PlainType(certType string) string {
	const suf = "-cert-v01@openssh.com"
	if len(certType) > len(suf) && certType[len(certType)-len(suf):] == suf {
		base := certType[:len(certType)-len(suf)]
		switch base {
		case "sk-ecdsa-sha2-nistp256", "sk-ssh-ed25519":
			return base + "@openssh.com"
		}
		return base
	}
	return ""
}

// CertWire is a certificate split into its wire fields (every field kept as raw bytes so that
// it can be re-assembled with deliberate non-canonical encodings).
type CertWire struct {
	Type      string
	Nonce     []byte
	KeyFields [][]byte // bodies of the subject key fields (without length prefixes)
	Serial    uint64
	CertType  uint32
	KeyID     []byte
	Princ     []byte
	After     uint64
	Before    uint64
	Crit      []byte
	Ext       []byte
	Reserved  []byte
	SigKey    []byte
	Sig       []byte
	Trailing  []byte
}

// SplitCert parses certificate wire bytes (as produced by Certificate.Marshal).
func SplitCert(b []byte) (*CertWire, error) {
	r := &R{B: b}
	c := &CertWire{}
	c.Type = string(r.Str())
	kinds := KeyFieldKinds(PlainType(c.Type))
	if kinds == nil {
		return nil, errors.New("c38lib: not a certificate type: " + c.Type)
	}
	c.Nonce = r.Str()
	for range kinds {
		c.KeyFields = append(c.KeyFields, r.Str())
	}
	c.Serial = r.U64()
	c.CertType = r.U32()
	c.KeyID = r.Str()
	c.Princ = r.Str()
	c.After = r.U64()
	c.Before = r.U64()
	c.Crit = r.Str()
	c.Ext = r.Str()
	c.Reserved = r.Str()
	c.SigKey = r.Str()
	c.Sig = r.Str()
	c.Trailing = r.B
	return c, r.Err
}

// Join re-assembles the certificate.
func (c *CertWire) Join() []byte {
	w := &W{}
	w.S(c.Type).Str(c.Nonce)
	for _, f := range c.KeyFields {
		w.Str(f)
	}
	w.U64(c.Serial).U32(c.CertType).Str(c.KeyID).Str(c.Princ).U64(c.After).U64(c.Before)
	w.Str(c.Crit).Str(c.Ext).Str(c.Reserved).Str(c.SigKey).Str(c.Sig).Raw(c.Trailing)
	return w.B
}

// SignedLen is the number of leading bytes of Join() covered by the CA signature.
func (c *CertWire) SignedLen() int { return len(c.Join()) - len(c.Trailing) - 4 - len(c.Sig) }

// Tuple is one critical option / extension on the wire: name and raw data field.
type Tuple struct {
	Name string
	Data []byte
}

func SplitTuples(b []byte) ([]Tuple, error) {
	r := &R{B: b}
	var out []Tuple
	for len(r.B) > 0 && r.Err == nil {
		n := r.Str()
		d := r.Str()
		out = append(out, Tuple{string(n), d})
	}
	return out, r.Err
}

func JoinTuples(t []Tuple) []byte {
	w := &W{}
	for _, x := range t {
		w.S(x.Name).Str(x.Data)
	}
	return w.B
}

// SplitKey splits a plain public key blob into type and field bodies.
func SplitKey(b []byte) (string, [][]byte, []byte, error) {
	r := &R{B: b}
	t := string(r.Str())
	kinds := KeyFieldKinds(t)
	if kinds == nil {
		return t, nil, nil, errors.New("c38lib: unknown key type " + t)
	}
	var f [][]byte
	for range kinds {
		f = append(f, r.Str())
	}
	return t, f, r.B, r.Err
}

func JoinKey(t string, f [][]byte) []byte {
	w := &W{}
	w.S(t)
	for _, x := range f {
		w.Str(x)
	}
	return w.B
}
