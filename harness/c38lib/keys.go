package c38lib

import (
	"crypto"
	"crypto/dsa"
	"crypto/ecdsa"
	"crypto/ed25519"
	"crypto/elliptic"
	"crypto/rand"
	"crypto/rsa"
	"crypto/sha256"
	"fmt"
	"io"
	"math/big"
	"sync"

	"golang.org/x/crypto/ssh"
)

// KeyTypes are the plain public key formats of the package.
var KeyTypes = []string{
	ssh.KeyAlgoRSA, ssh.InsecureKeyAlgoDSA, ssh.KeyAlgoECDSA256, ssh.KeyAlgoECDSA384, ssh.KeyAlgoECDSA521,
	ssh.KeyAlgoED25519, ssh.KeyAlgoSKECDSA256, ssh.KeyAlgoSKED25519,
}

// SigFormats are all signature format strings the package knows (plus two foreign ones).
var SigFormats = []string{
	ssh.KeyAlgoRSA, ssh.KeyAlgoRSASHA256, ssh.KeyAlgoRSASHA512, ssh.InsecureKeyAlgoDSA,
	ssh.KeyAlgoECDSA256, ssh.KeyAlgoECDSA384, ssh.KeyAlgoECDSA521, ssh.KeyAlgoED25519,
	ssh.KeyAlgoSKECDSA256, ssh.KeyAlgoSKED25519,
}

// Key is a key pair of one of the KeyTypes with the package's public key and a signer.
type Key struct {
	Type   string
	Pub    ssh.PublicKey // as returned by the package (parsed from wire for sk keys)
	Signer ssh.Signer    // the package's signer; for sk keys a software authenticator (SKSigner)
	Priv   crypto.PrivateKey
	SK     *SKSigner // non-nil for sk keys
}

// SKSigner is a software FIDO authenticator: it produces signatures in the layout of
// PROTOCOL.u2f over sha256(application) || flags || counter || sha256(data).
type SKSigner struct {
	Pub     ssh.PublicKey
	App     string
	EC      *ecdsa.PrivateKey
	Ed      ed25519.PrivateKey
	Flags   byte
	Counter uint32
}

func (s *SKSigner) PublicKey() ssh.PublicKey { return s.Pub }

// SignFlags signs data with explicit flags/counter.
func (s *SKSigner) SignFlags(data []byte, flags byte, counter uint32) (*ssh.Signature, error) {
	app := sha256.Sum256([]byte(s.App))
	dd := sha256.Sum256(data)
	w := &W{}
	w.Raw(app[:]).Byte(flags).U32(counter).Raw(dd[:])
	var blob []byte
	if s.EC != nil {
		h := sha256.Sum256(w.B)
		r, ss, err := ecdsa.Sign(rand.Reader, s.EC, h[:])
		if err != nil {
			return nil, err
		}
		blob = (&W{}).Mpint(r).Mpint(ss).B
	} else {
		blob = ed25519.Sign(s.Ed, w.B)
	}
	rest := (&W{}).Byte(flags).U32(counter).B
	return &ssh.Signature{Format: s.Pub.Type(), Blob: blob, Rest: rest}, nil
}

func (s *SKSigner) Sign(_ io.Reader, data []byte) (*ssh.Signature, error) {
	return s.SignFlags(data, s.Flags, s.Counter)
}

// WithFlags returns a copy of the signer that uses the given flags.
func (s *SKSigner) WithFlags(flags byte) *SKSigner { c := *s; c.Flags = flags; return &c }

// NewSKECDSA wraps a software P-256 key as sk-ecdsa-sha2-nistp256@openssh.com.
func NewSKECDSA(k *ecdsa.PrivateKey, app string) (*SKSigner, error) {
	pt := elliptic.Marshal(k.Curve, k.X, k.Y)
	blob := (&W{}).S(ssh.KeyAlgoSKECDSA256).S("nistp256").Str(pt).S(app).B
	pub, err := ssh.ParsePublicKey(blob)
	if err != nil {
		return nil, err
	}
	return &SKSigner{Pub: pub, App: app, EC: k, Flags: 1, Counter: 7}, nil
}

// NewSKEd25519 wraps a software Ed25519 key as sk-ssh-ed25519@openssh.com.
func NewSKEd25519(k ed25519.PrivateKey, app string) (*SKSigner, error) {
	blob := (&W{}).S(ssh.KeyAlgoSKED25519).Str(k.Public().(ed25519.PublicKey)).S(app).B
	pub, err := ssh.ParsePublicKey(blob)
	if err != nil {
		return nil, err
	}
	return &SKSigner{Pub: pub, App: app, Ed: k, Flags: 1, Counter: 7}, nil
}

var (
	dsaOnce   sync.Once
	dsaParams dsa.Parameters
	dsaErr    error
)

func dsaParameters() (*dsa.Parameters, error) {
	dsaOnce.Do(func() { dsaErr = dsa.GenerateParameters(&dsaParams, rand.Reader, dsa.L1024N160) })
	p := dsaParams
	return &p, dsaErr
}

// NewKey generates a fresh key pair of the given type. RSA keys have rsaBits bits (0 = 2048).
func NewKey(typ string, rsaBits int) (*Key, error) {
	k := &Key{Type: typ}
	var err error
	switch typ {
	case ssh.KeyAlgoRSA:
		if rsaBits == 0 {
			rsaBits = 2048
		}
		var p *rsa.PrivateKey
		if p, err = rsa.GenerateKey(rand.Reader, rsaBits); err != nil {
			return nil, err
		}
		k.Priv = p
	case ssh.InsecureKeyAlgoDSA:
		params, err := dsaParameters()
		if err != nil {
			return nil, err
		}
		p := &dsa.PrivateKey{}
		p.Parameters = *params
		if err = dsa.GenerateKey(p, rand.Reader); err != nil {
			return nil, err
		}
		k.Priv = p
	case ssh.KeyAlgoECDSA256, ssh.KeyAlgoECDSA384, ssh.KeyAlgoECDSA521, ssh.KeyAlgoSKECDSA256:
		c := map[string]elliptic.Curve{ssh.KeyAlgoECDSA256: elliptic.P256(), ssh.KeyAlgoECDSA384: elliptic.P384(),
			ssh.KeyAlgoECDSA521: elliptic.P521(), ssh.KeyAlgoSKECDSA256: elliptic.P256()}[typ]
		var p *ecdsa.PrivateKey
		if p, err = ecdsa.GenerateKey(c, rand.Reader); err != nil {
			return nil, err
		}
		k.Priv = p
		if typ == ssh.KeyAlgoSKECDSA256 {
			if k.SK, err = NewSKECDSA(p, "ssh:"); err != nil {
				return nil, err
			}
			k.Pub, k.Signer = k.SK.Pub, k.SK
			return k, nil
		}
	case ssh.KeyAlgoED25519, ssh.KeyAlgoSKED25519:
		_, p, err := ed25519.GenerateKey(rand.Reader)
		if err != nil {
			return nil, err
		}
		k.Priv = p
		if typ == ssh.KeyAlgoSKED25519 {
			if k.SK, err = NewSKEd25519(p, "ssh:"); err != nil {
				return nil, err
			}
			k.Pub, k.Signer = k.SK.Pub, k.SK
			return k, nil
		}
	default:
		return nil, fmt.Errorf("c38lib: unknown key type %q", typ)
	}
	if k.Signer, err = ssh.NewSignerFromKey(k.Priv); err != nil {
		return nil, err
	}
	k.Pub = k.Signer.PublicKey()
	return k, nil
}

// KeySet generates one key of every type (RSA of rsaBits).
func KeySet(rsaBits int) (map[string]*Key, error) {
	out := map[string]*Key{}
	for _, t := range KeyTypes {
		k, err := NewKey(t, rsaBits)
		if err != nil {
			return nil, fmt.Errorf("%s: %w", t, err)
		}
		out[t] = k
	}
	return out, nil
}

// BigFromBytes is a convenience for tests.
func BigFromBytes(b []byte) *big.Int { return new(big.Int).SetBytes(b) }
