package c38lib

import (
	"crypto/aes"
	"crypto/cipher"
	"encoding/pem"
	"errors"
	"fmt"
)

// OpenSSH private key container (PROTOCOL.key), independent of the package under test.
const KeyMagic = "openssh-key-v1\x00"

type KeyFile struct {
	Magic    []byte
	Cipher   string
	KDF      string
	KDFOpts  []byte
	NKeys    uint32
	Pub      []byte // first public key blob
	Enc      []byte // private section (possibly encrypted)
	Trailing []byte
}

// ParseKeyFile splits the body of an "OPENSSH PRIVATE KEY" PEM block.
func ParseKeyFile(pemBytes []byte) (*KeyFile, error) {
	blk, _ := pem.Decode(pemBytes)
	if blk == nil || blk.Type != "OPENSSH PRIVATE KEY" {
		return nil, errors.New("c38lib: not an OPENSSH PRIVATE KEY block")
	}
	b := blk.Bytes
	if len(b) < len(KeyMagic) {
		return nil, errors.New("c38lib: short")
	}
	k := &KeyFile{Magic: append([]byte(nil), b[:len(KeyMagic)]...)}
	r := &R{B: b[len(KeyMagic):]}
	k.Cipher, k.KDF = string(r.Str()), string(r.Str())
	k.KDFOpts = r.Str()
	k.NKeys = r.U32()
	k.Pub = r.Str()
	k.Enc = r.Str()
	k.Trailing = r.B
	return k, r.Err
}

// PEM re-assembles the file.
func (k *KeyFile) PEM() []byte {
	w := &W{}
	w.Raw(k.Magic).S(k.Cipher).S(k.KDF).Str(k.KDFOpts).U32(k.NKeys)
	w.Str(k.Pub).Str(k.Enc).Raw(k.Trailing) // one public key whatever NKeys claims
	return pem.EncodeToMemory(&pem.Block{Type: "OPENSSH PRIVATE KEY", Bytes: w.B})
}

// KDFParams decodes the bcrypt KDF options.
func (k *KeyFile) KDFParams() (salt []byte, rounds uint32, err error) {
	r := &R{B: k.KDFOpts}
	salt = r.Str()
	rounds = r.U32()
	return salt, rounds, r.Err
}

// KDF derives key material (bcrypt_pbkdf); injected because the package's implementation is internal.
type KDF func(password, salt []byte, rounds, keyLen int) ([]byte, error)

// Crypt decrypts (dec=true) or encrypts the private section with the file's cipher.
func (k *KeyFile) Crypt(kdf KDF, passphrase []byte, in []byte, dec bool) ([]byte, error) {
	if k.Cipher == "none" {
		return append([]byte(nil), in...), nil
	}
	salt, rounds, err := k.KDFParams()
	if err != nil {
		return nil, err
	}
	km, err := kdf(passphrase, salt, int(rounds), 48)
	if err != nil {
		return nil, err
	}
	c, err := aes.NewCipher(km[:32])
	if err != nil {
		return nil, err
	}
	out := make([]byte, len(in))
	switch k.Cipher {
	case "aes256-ctr":
		cipher.NewCTR(c, km[32:]).XORKeyStream(out, in)
	case "aes256-cbc":
		if len(in)%16 != 0 {
			return nil, errors.New("c38lib: cbc length")
		}
		if dec {
			cipher.NewCBCDecrypter(c, km[32:]).CryptBlocks(out, in)
		} else {
			cipher.NewCBCEncrypter(c, km[32:]).CryptBlocks(out, in)
		}
	default:
		return nil, fmt.Errorf("c38lib: cipher %q not handled by the harness", k.Cipher)
	}
	return out, nil
}

// Inner is the decrypted private section.
type Inner struct {
	Check1, Check2 uint32
	KeyType        string
	Fields         [][]byte // type specific fields up to and including the comment
	Pad            []byte
}

// InnerFieldCount is the number of string/mpint fields after the key type (including the comment).
func InnerFieldCount(keyType string) int {
	switch keyType {
	case "ssh-rsa":
		return 7 // n e d iqmp p q comment
	case "ssh-ed25519":
		return 3 // pub priv comment
	case "ecdsa-sha2-nistp256", "ecdsa-sha2-nistp384", "ecdsa-sha2-nistp521":
		return 4 // curve pub d comment
	case "ssh-dss":
		return 6 // p q g y x comment
	}
	return -1
}

func ParseInner(b []byte) (*Inner, error) {
	r := &R{B: b}
	in := &Inner{Check1: r.U32(), Check2: r.U32()}
	in.KeyType = string(r.Str())
	n := InnerFieldCount(in.KeyType)
	if r.Err != nil || n < 0 {
		return nil, fmt.Errorf("c38lib: cannot parse private section (type %q): %v", in.KeyType, r.Err)
	}
	for i := 0; i < n; i++ {
		in.Fields = append(in.Fields, r.Str())
	}
	in.Pad = r.B
	return in, r.Err
}

func (in *Inner) Bytes() []byte {
	w := &W{}
	w.U32(in.Check1).U32(in.Check2).S(in.KeyType)
	for _, f := range in.Fields {
		w.Str(f)
	}
	w.Raw(in.Pad)
	return w.B
}

// Repad recomputes the 1,2,3.. padding for the given block size.
func (in *Inner) Repad(block int) {
	in.Pad = nil
	n := len(in.Bytes())
	for i := 1; (n+len(in.Pad))%block != 0; i++ {
		in.Pad = append(in.Pad, byte(i))
	}
}
