// Binding R for C38 (spec/AuthorizedKeys.tla): every authorized_keys / known_hosts input TLC assembled
// (symbol sequences with the model's predicted parse) is rendered to bytes with a real key (rotating
// over every key type and certificates) and given to the real ParseAuthorizedKey / ParseKnownHosts;
// plus round trips, fingerprints against ssh-keygen, ssh-keygen-written keys, and an exploration of
// mutated / random inputs for panics.
package c38

import (
	"bytes"
	"crypto/rand"
	"encoding/base64"
	"encoding/json"
	"fmt"
	"hash/fnv"
	"os"
	"os/exec"
	"path/filepath"
	"reflect"
	"strings"
	"testing"

	"golang.org/x/crypto/ssh"
	"verif/harness/c38lib"
	"verif/harness/vutil"
)

type tcase struct {
	Kind    string     `json:"kind"`
	Inp     []string   `json:"inp"`
	OK      bool       `json:"ok"`
	Opts    [][]string `json:"opts"`
	Comment []string   `json:"comment"`
	Rest    []string   `json:"rest"`
	Res     string     `json:"res"`
	Marker  []string   `json:"marker"`
	Hosts   [][]string `json:"hosts"`
}

func hashOf(s string, salt int64) uint64 {
	h := fnv.New64a()
	fmt.Fprintf(h, "%d|%d|%s", vutil.Seed(), salt, s)
	return h.Sum64()
}

var sigCount = map[string]int{}

func viol(out *vutil.Out, sig, what string, detail any) {
	sigCount[sig]++
	out.Extra["violations:"+sig] = sigCount[sig]
	if sigCount[sig] <= 3 {
		out.Violation(sig, what, detail)
	}
}
func bump(out *vutil.Out, k string) {
	n, _ := out.Extra[k].(int)
	out.Extra[k] = n + 1
}

// ---------------------------------------------------------------- keys

type pubEntry struct {
	name string
	pub  ssh.PublicKey
}

func allPublicKeys(t *testing.T) []pubEntry {
	var out []pubEntry
	ca, err := c38lib.NewKey(ssh.KeyAlgoED25519, 0)
	if err != nil {
		t.Fatal(err)
	}
	for _, kt := range c38lib.KeyTypes {
		k, err := c38lib.NewKey(kt, 2048)
		if err != nil {
			t.Fatal(err)
		}
		out = append(out, pubEntry{kt, k.Pub})
		cert := &ssh.Certificate{Key: k.Pub, Serial: 7, CertType: ssh.UserCert, KeyId: "c38", ValidPrincipals: []string{"alice"},
			ValidBefore: ssh.CertTimeInfinity, Permissions: ssh.Permissions{Extensions: map[string]string{"permit-pty": ""}}}
		if err := cert.SignCert(rand.Reader, ca.Signer); err != nil {
			t.Fatal(err)
		}
		out = append(out, pubEntry{kt + "+cert", cert})
	}
	return out
}

// ---------------------------------------------------------------- rendering

type renderer struct {
	key       ssh.PublicKey
	otherType string
	word      string
}

func (r renderer) sym(s string) string {
	switch s {
	case "q":
		return `"`
	case "b":
		return `\`
	case "s":
		return " "
	case "t":
		return "\t"
	case "r":
		return "\r"
	case "n":
		return "\n"
	case "T":
		return r.key.Type()
	case "X":
		return r.otherType
	case "K":
		return base64.StdEncoding.EncodeToString(r.key.Marshal())
	case "B":
		return "AAAA!!!not*base64"
	case "J":
		return base64.StdEncoding.EncodeToString([]byte("\x00\x00\x00\x0bssh-ed25519\x00\x00\x00\x05short"))
	case "C":
		return r.word
	case "H":
		return "host.example.org"
	case "G":
		return "[192.0.2.7]:2222"
	case "M":
		return "cert-authority"
	}
	return s // a = , # @
}
func (r renderer) str(syms []string) string {
	var b strings.Builder
	for _, s := range syms {
		b.WriteString(r.sym(s))
	}
	return b.String()
}
func (r renderer) list(l [][]string) []string {
	var out []string
	for _, x := range l {
		out = append(out, r.str(x))
	}
	return out
}

func otherTypeFor(k ssh.PublicKey, h uint64) string {
	t := k.Type()
	var cands []string
	if p := c38lib.PlainType(t); p != "" {
		cands = append(cands, p) // certificate blob declared with the plain type
	} else {
		cands = append(cands, t[:len(t)-1], strings.ToUpper(t))
		if t == ssh.KeyAlgoRSA {
			cands = append(cands, ssh.KeyAlgoRSASHA512)
		}
	}
	for _, kt := range c38lib.KeyTypes {
		if kt != t {
			cands = append(cands, kt)
		}
	}
	return cands[h%uint64(len(cands))]
}

var words = []string{"user@host", "c0mment", "x", "ssh-ed25519", "AAAA", "k=v,w", "träger"}

func sameStrings(a, b []string) bool {
	if len(a) != len(b) {
		return false
	}
	for i := range a {
		if a[i] != b[i] {
			return false
		}
	}
	return true
}

func replay(t *testing.T, out *vutil.Out, keys []pubEntry) {
	fails := 0
	n := 0
	err := vutil.ReadNDJSON(vutil.Env("VERIF_CASES", ""), func(line []byte) error {
		var tc tcase
		if err := json.Unmarshal(line, &tc); err != nil {
			return err
		}
		n++
		key := strings.Join(tc.Inp, "")
		h := hashOf(tc.Kind+key, 3)
		pe := keys[h%uint64(len(keys))]
		r := renderer{key: pe.pub, otherType: otherTypeFor(pe.pub, h>>8), word: words[(h>>16)%uint64(len(words))]}
		in := []byte(r.str(tc.Inp))
		out.Case(tc.Kind + "|" + key)
		if n%2999 == 1 {
			out.Sample(map[string]any{"kind": tc.Kind, "input": string(in), "predicted": json.RawMessage(append([]byte(nil), line...))})
		}
		det := func(real any) map[string]any {
			return map[string]any{"case": tc, "input": string(in), "key": pe.name, "real": real}
		}
		bad := false
		func() {
			defer func() {
				if p := recover(); p != nil {
					viol(out, "panic:"+tc.Kind, fmt.Sprintf("the parser panicked: %v", p), det(fmt.Sprint(p)))
					bad = true
				}
			}()
			if tc.Kind == "ak" {
				pk, comment, opts, rest, err := ssh.ParseAuthorizedKey(in)
				real := map[string]any{"ok": err == nil, "comment": comment, "options": opts, "rest": string(rest), "error": fmt.Sprint(err)}
				switch {
				case err == nil && !tc.OK:
					sig := "ak:key-returned-for-line-the-grammar-rejects"
					if strings.Contains(key, "X") || !strings.Contains(key, "T") {
						sig = "ak:key-returned-although-declared-type-does-not-match"
					}
					viol(out, sig, "ParseAuthorizedKey returned a key for input the line grammar rejects", det(real))
					bad = true
				case err != nil && tc.OK:
					viol(out, "ak:valid-line-rejected", "ParseAuthorizedKey found no key in input the line grammar accepts: "+err.Error(), det(real))
					bad = true
				case err == nil:
					if !bytes.Equal(pk.Marshal(), pe.pub.Marshal()) {
						viol(out, "ak:returned-key-differs", "ParseAuthorizedKey returned a different key than the one in the line", det(real))
						bad = true
					}
					if !sameStrings(opts, r.list(tc.Opts)) {
						real["want_options"] = r.list(tc.Opts)
						viol(out, "ak:options-split-differs", "ParseAuthorizedKey splits the options field differently from sshd's rule", det(real))
						bad = true
					}
					if comment != r.str(tc.Comment) {
						bump(out, "ak_comment_differs")
					}
					if string(rest) != r.str(tc.Rest) {
						bump(out, "ak_rest_differs")
					}
				}
				return
			}
			marker, hosts, pk, comment, rest, err := ssh.ParseKnownHosts(in)
			real := map[string]any{"marker": marker, "hosts": hosts, "comment": comment, "rest": string(rest), "error": fmt.Sprint(err)}
			switch {
			case err == nil && tc.Res != "ok":
				sig := "kh:key-returned-for-line-the-grammar-rejects"
				if strings.Contains(key, "X") {
					sig = "kh:key-returned-although-declared-type-does-not-match"
				}
				viol(out, sig, "ParseKnownHosts returned an entry for input the model rejects ("+tc.Res+")", det(real))
				bad = true
			case err != nil && tc.Res == "ok":
				viol(out, "kh:valid-line-rejected", "ParseKnownHosts rejected an entry the model accepts: "+err.Error(), det(real))
				bad = true
			case err == nil:
				if !bytes.Equal(pk.Marshal(), pe.pub.Marshal()) {
					viol(out, "kh:returned-key-differs", "ParseKnownHosts returned a different key than the one in the line", det(real))
					bad = true
				}
				if marker != r.str(tc.Marker) || !sameStrings(hosts, r.list(tc.Hosts)) {
					viol(out, "kh:marker-or-hosts-differ", "ParseKnownHosts returned marker/hosts different from the line's fields", det(real))
					bad = true
				}
				if comment != r.str(tc.Comment) {
					bump(out, "kh_comment_differs")
				}
				if string(rest) != r.str(tc.Rest) {
					bump(out, "kh_rest_differs")
				}
			default:
				// both reject: io.EOF vs error is not part of the property
			}
		}()
		if bad {
			fails++
			if fails <= 10 {
				t.Errorf("case %s (input %q)", line, in)
			}
		}
		return nil
	})
	if err != nil {
		t.Fatal(err)
	}
	if fails > 0 {
		t.Errorf("%d failing replay cases", fails)
	}
}

// ---------------------------------------------------------------- round trips and fingerprints

func keygenFingerprint(dir, file, hash string) (string, error) {
	cmd := exec.Command("ssh-keygen", "-l", "-E", hash, "-f", file)
	cmd.Dir = dir
	o, err := cmd.CombinedOutput()
	if err != nil {
		return "", fmt.Errorf("%v: %s", err, o)
	}
	f := strings.Fields(string(o))
	if len(f) < 2 {
		return "", fmt.Errorf("unexpected output %q", o)
	}
	return f[1], nil
}

func equalKey(a, b ssh.PublicKey) bool {
	if a.Type() != b.Type() || !bytes.Equal(a.Marshal(), b.Marshal()) {
		return false
	}
	ca, ok1 := a.(ssh.CryptoPublicKey)
	cb, ok2 := b.(ssh.CryptoPublicKey)
	if ok1 != ok2 {
		return false
	}
	return !ok1 || reflect.DeepEqual(ca.CryptoPublicKey(), cb.CryptoPublicKey())
}

func roundTrips(t *testing.T, out *vutil.Out, haveKeygen bool) {
	dir := t.TempDir()
	rounds := 2
	if vutil.Thorough() {
		rounds = 12
	}
	fails := 0
	fail := func(sig, what string, det any) {
		viol(out, sig, what, det)
		fails++
	}
	for round := 0; round < rounds; round++ {
		for i, pe := range allPublicKeys(t) {
			k := pe.pub
			out.Case(fmt.Sprintf("rt|%s|%d", pe.name, round))
			wire := k.Marshal()
			det := map[string]any{"key": pe.name, "wire_b64": base64.StdEncoding.EncodeToString(wire)}
			p2, err := ssh.ParsePublicKey(wire)
			if err != nil || !equalKey(p2, k) {
				fail("roundtrip:ParsePublicKey(Marshal)", fmt.Sprintf("ParsePublicKey(Marshal(k)) does not return an equal %s key: %v", pe.name, err), det)
				continue
			}
			line := ssh.MarshalAuthorizedKey(k)
			p3, comment, opts, rest, err := ssh.ParseAuthorizedKey(line)
			if err != nil || !equalKey(p3, k) || comment != "" || len(opts) != 0 || len(rest) != 0 {
				fail("roundtrip:ParseAuthorizedKey(MarshalAuthorizedKey)", fmt.Sprintf("ParseAuthorizedKey(MarshalAuthorizedKey(k)) does not return an equal %s key: %v", pe.name, err), det)
				continue
			}
			if !haveKeygen {
				continue
			}
			f := filepath.Join(dir, fmt.Sprintf("k%d_%d.pub", round, i))
			if err := os.WriteFile(f, line, 0o600); err != nil {
				t.Fatal(err)
			}
			isCert := strings.HasSuffix(pe.name, "+cert")
			for _, hsh := range []string{"sha256", "md5"} {
				want, err := keygenFingerprint(dir, f, hsh)
				if err != nil {
					bump(out, "keygen_fingerprint_failed:"+pe.name)
					continue
				}
				got := ssh.FingerprintSHA256(k)
				if hsh == "md5" {
					got = "MD5:" + ssh.FingerprintLegacyMD5(k)
				}
				out.Case(fmt.Sprintf("fp|%s|%s|%d", pe.name, hsh, round))
				if got != want {
					det2 := map[string]any{"key": pe.name, "line": string(line), "go": got, "ssh-keygen": want}
					if isCert {
						fail("fingerprint:certificate-differs-from-ssh-keygen", "Fingerprint"+strings.ToUpper(hsh)+" of a certificate differs from ssh-keygen -l (which fingerprints the certified public key, not the certificate blob)", det2)
					} else {
						fail("fingerprint:"+pe.name+"-"+hsh+"-differs-from-ssh-keygen", "fingerprint differs from ssh-keygen -l -E "+hsh, det2)
					}
				}
			}
		}
	}
	if fails > 0 {
		t.Errorf("%d failing round trips / fingerprints", fails)
	}
}

// ---------------------------------------------------------------- keys written by ssh-keygen

func keygenKeys(t *testing.T, out *vutil.Out) [][]byte {
	dir := t.TempDir()
	specs := [][]string{{"ed25519"}, {"ecdsa", "-b", "256"}, {"ecdsa", "-b", "384"}, {"ecdsa", "-b", "521"}, {"rsa", "-b", "1024"}, {"rsa", "-b", "2048"}, {"dsa"}}
	if vutil.Thorough() {
		specs = append(specs, []string{"rsa", "-b", "3072"}, []string{"rsa", "-b", "4096"}, []string{"rsa", "-b", "1536"}, []string{"ed25519"}, []string{"ecdsa", "-b", "256"})
	}
	var lines [][]byte
	fails := 0
	for i, spec := range specs {
		f := filepath.Join(dir, fmt.Sprintf("kg%d", i))
		comment := words[i%len(words)] + " " + fmt.Sprint(i)
		args := append([]string{"-q", "-t", spec[0], "-N", "", "-C", comment, "-f", f}, spec[1:]...)
		if o, err := exec.Command("ssh-keygen", args...).CombinedOutput(); err != nil {
			bump(out, "keygen_generate_refused:"+strings.Join(spec, ""))
			out.Extra["keygen_generate_refused_msg:"+strings.Join(spec, "")] = strings.TrimSpace(string(o))
			continue
		}
		line, err := os.ReadFile(f + ".pub")
		if err != nil {
			t.Fatal(err)
		}
		lines = append(lines, line)
		name := strings.Join(spec, "")
		out.Case("keygen|" + name)
		det := map[string]any{"spec": name, "line": string(line)}
		pk, c, opts, rest, err := ssh.ParseAuthorizedKey(line)
		if err != nil {
			viol(out, "ssh-keygen-key:does-not-parse:"+name, "a public key written by ssh-keygen is rejected: "+err.Error(), det)
			fails++
			continue
		}
		fields := strings.Fields(string(line))
		blob, _ := base64.StdEncoding.DecodeString(fields[1])
		if pk.Type() != fields[0] || !bytes.Equal(pk.Marshal(), blob) || len(opts) != 0 || len(rest) != 0 {
			viol(out, "ssh-keygen-key:parses-to-different-key:"+name, "a public key written by ssh-keygen parses to a different key", det)
			fails++
		}
		if c != comment {
			bump(out, "keygen_comment_differs")
		}
		for _, hsh := range []string{"sha256", "md5"} {
			want, err := keygenFingerprint(dir, f+".pub", hsh)
			if err != nil {
				bump(out, "keygen_fingerprint_failed:"+name)
				continue
			}
			got := ssh.FingerprintSHA256(pk)
			if hsh == "md5" {
				got = "MD5:" + ssh.FingerprintLegacyMD5(pk)
			}
			out.Case("keygen-fp|" + name + "|" + hsh)
			if got != want {
				viol(out, "fingerprint:"+name+"-"+hsh+"-differs-from-ssh-keygen", "fingerprint of a key written by ssh-keygen differs from ssh-keygen -l -E "+hsh,
					map[string]any{"spec": name, "line": string(line), "go": got, "ssh-keygen": want})
				fails++
			}
		}
		// the private half written next to it yields the same public key
		pem, err := os.ReadFile(f)
		if err == nil {
			if s, err := ssh.ParsePrivateKey(pem); err == nil {
				if !bytes.Equal(s.PublicKey().Marshal(), pk.Marshal()) {
					viol(out, "ssh-keygen-key:public-and-private-file-differ:"+name, "the .pub file and the private key file written by ssh-keygen parse to different public keys", det)
					fails++
				}
			} else {
				bump(out, "keygen_private_key_not_parsed:"+name)
			}
		}
	}
	if fails > 0 {
		t.Errorf("%d failing ssh-keygen key cases", fails)
	}
	return lines
}

// ---------------------------------------------------------------- exploration: never panic

func explore(t *testing.T, out *vutil.Out, keys []pubEntry, seedLines [][]byte) {
	r := vutil.Rand(38)
	n := 20000
	if vutil.Thorough() {
		n = 400000
	}
	var corpus [][]byte
	for _, pe := range keys {
		line := ssh.MarshalAuthorizedKey(pe.pub)
		corpus = append(corpus, line, pe.pub.Marshal(),
			append([]byte(`command="echo \"hi, there\"",no-pty,from="10.0.0.0/8,*.example.org" `), line...),
			append([]byte("@cert-authority *.example.org,10.* "), line...),
			append([]byte("|1|JfKTdBh7rNbXkVAQCRp4OQoPfmI=|USECr3SWf1JUPsms5AqfD5QfxkM= "), line...))
	}
	corpus = append(corpus, seedLines...)
	panics := 0
	try := func(name string, in []byte, f func([]byte)) {
		defer func() {
			if p := recover(); p != nil {
				panics++
				viol(out, "panic:"+name, fmt.Sprintf("%s panicked: %v", name, p), map[string]any{"input_b64": base64.StdEncoding.EncodeToString(in), "panic": fmt.Sprint(p)})
			}
		}()
		f(in)
	}
	for i := 0; i < n; i++ {
		var in []byte
		switch r.Intn(10) {
		case 0:
			in = make([]byte, r.Intn(200))
			r.Read(in)
		default:
			in = append([]byte(nil), corpus[r.Intn(len(corpus))]...)
			for m := 1 + r.Intn(4); m > 0 && len(in) > 0; m-- {
				p := r.Intn(len(in))
				switch r.Intn(7) {
				case 0:
					in[p] ^= 1 << uint(r.Intn(8))
				case 1:
					in = append(in[:p], in[p+1:]...)
				case 2:
					in = append(in[:p], append([]byte{" \t\r\n\",\\#@="[r.Intn(10)]}, in[p:]...)...)
				case 3:
					in = in[:p]
				case 4:
					in[p] = byte(r.Intn(256))
				case 5:
					q := r.Intn(len(in))
					if p > q {
						p, q = q, p
					}
					in = append(in[:q:q], in[p:]...)
				default:
					// binary blobs: set a length field to something large / small
					if p+4 <= len(in) {
						copy(in[p:], []byte{byte(r.Intn(2)) * 0xff, byte(r.Intn(256)), byte(r.Intn(256)), byte(r.Intn(256))})
					}
				}
			}
		}
		out.Case("")
		try("ParseAuthorizedKey", in, func(b []byte) { ssh.ParseAuthorizedKey(b) })
		try("ParseKnownHosts", in, func(b []byte) { ssh.ParseKnownHosts(b) })
		try("ParsePublicKey", in, func(b []byte) {
			if k, err := ssh.ParsePublicKey(b); err == nil {
				k.Type()
				k.Marshal()
				ssh.MarshalAuthorizedKey(k)
				ssh.FingerprintSHA256(k)
			}
		})
		// base64-wrapped binary mutations reach the blob parsers through the line parsers as well
		if i%3 == 0 {
			l := append([]byte("ssh-ed25519 "), []byte(base64.StdEncoding.EncodeToString(in))...)
			try("ParseAuthorizedKey", l, func(b []byte) { ssh.ParseAuthorizedKey(b) })
		}
	}
	out.Extra["exploration_inputs"] = n
	if panics > 0 {
		t.Errorf("%d panics", panics)
	}
}

func TestC38(t *testing.T) {
	out := vutil.NewOut()
	defer func() {
		if err := out.Write(); err != nil {
			t.Fatal(err)
		}
	}()
	keys := allPublicKeys(t)
	_, err := exec.LookPath("ssh-keygen")
	haveKeygen := err == nil
	if !haveKeygen {
		out.Extra["skipped"] = "ssh-keygen not installed: fingerprints and ssh-keygen-written keys not compared"
	}
	replay(t, out, keys)
	boundaryKeys(t, out, haveKeygen)
	roundTrips(t, out, haveKeygen)
	var seeds [][]byte
	if haveKeygen {
		seeds = keygenKeys(t, out)
	}
	explore(t, out, keys, seeds)
	out.Extra["completed"] = true
}
