package c38

// Generator of spec/SSHKeyBlob_Keys.tla (the boundary key set of spec/SSHKeyBlob.tla).  Not part of the check:
//   VERIF_C38_KEYS_OUT=/verif/spec/SSHKeyBlob_Keys.tla go1.26 test -tags verif -run TestC38WriteBoundaryKeys ./c38/
// EC points are found by the deterministic search d*G, d = 1, 2, 3, ...; RSA integers are fixed bit patterns;
// DSA parameters are generated once (the module is the record of what was generated); Ed25519 keys by seed search.

import (
	"crypto/dsa"
	"crypto/ed25519"
	"crypto/elliptic"
	"crypto/rand"
	"crypto/sha256"
	"encoding/binary"
	"fmt"
	"math/big"
	"os"
	"sort"
	"strings"
	"testing"
)

type bkey struct {
	name, typ string
	ints      []*big.Int
	raws      [][]byte
	classes   []string
}

func tlaBytes(b []byte) string {
	parts := make([]string, len(b))
	for i, x := range b {
		parts[i] = fmt.Sprint(x)
	}
	return "<<" + strings.Join(parts, ",") + ">>"
}

func detBytes(label string, n int) []byte {
	var out []byte
	for i := uint32(0); len(out) < n; i++ {
		var c [4]byte
		binary.BigEndian.PutUint32(c[:], i)
		h := sha256.Sum256(append([]byte(label), c[:]...))
		out = append(out, h[:]...)
	}
	return out[:n]
}

// detInt: a deterministic odd integer of exactly the given bit length.
func detInt(label string, bits int) *big.Int {
	n := new(big.Int).SetBytes(detBytes(label, (bits+7)/8))
	n.SetBit(n, 0, 1)
	for i := n.BitLen(); i > bits; i-- {
		n.SetBit(n, i-1, 0)
	}
	n.SetBit(n, bits-1, 1)
	return n
}

func TestC38WriteBoundaryKeys(t *testing.T) {
	outPath := os.Getenv("VERIF_C38_KEYS_OUT")
	if outPath == "" {
		t.Skip("VERIF_C38_KEYS_OUT not set")
	}
	var keys []bkey
	// ---- EC
	for _, c := range []struct {
		typ   string
		curve elliptic.Curve
		w     int
		two   bool
	}{{"ecdsa-sha2-nistp256", elliptic.P256(), 32, true}, {"ecdsa-sha2-nistp384", elliptic.P384(), 48, false}, {"ecdsa-sha2-nistp521", elliptic.P521(), 66, false}} {
		want := map[string]bool{"full": true, "shortX": true, "shortY": true}
		if c.two {
			want["shortX2"], want["shortY2"] = true, true
		}
		limit := 400000
		if !c.two {
			limit = 5000
		}
		for d := int64(1); d <= int64(limit) && len(want) > 0; d++ {
			x, y := c.curve.ScalarBaseMult(big.NewInt(d).Bytes())
			lx, ly := len(x.Bytes()), len(y.Bytes())
			var cls []string
			if lx == c.w && ly == c.w {
				cls = append(cls, "full")
			}
			if lx < c.w {
				cls = append(cls, "shortX")
			}
			if ly < c.w {
				cls = append(cls, "shortY")
			}
			if lx < c.w-1 {
				cls = append(cls, "shortX2")
			}
			if ly < c.w-1 {
				cls = append(cls, "shortY2")
			}
			hit := false
			for _, cl := range cls {
				if want[cl] {
					hit = true
					delete(want, cl)
				}
			}
			if hit {
				keys = append(keys, bkey{name: fmt.Sprintf("%s d=%d", c.typ, d), typ: c.typ, ints: []*big.Int{x, y}, classes: cls})
				if c.typ == "ecdsa-sha2-nistp256" {
					keys = append(keys, bkey{name: fmt.Sprintf("sk-ecdsa d=%d", d), typ: "sk-ecdsa-sha2-nistp256@openssh.com", ints: []*big.Int{x, y}, raws: [][]byte{[]byte("ssh:")}, classes: cls})
				}
			}
		}
		if len(want) > 0 {
			t.Fatalf("%s: classes not found: %v", c.typ, want)
		}
	}
	gx, gy := elliptic.P256().ScalarBaseMult([]byte{2})
	keys = append(keys, bkey{name: "sk-ecdsa empty application", typ: "sk-ecdsa-sha2-nistp256@openssh.com", ints: []*big.Int{gx, gy}, raws: [][]byte{{}}, classes: []string{"appEmpty", "full"}})
	keys = append(keys, bkey{name: "sk-ecdsa long application", typ: "sk-ecdsa-sha2-nistp256@openssh.com", ints: []*big.Int{gx, gy}, raws: [][]byte{[]byte("ssh:" + strings.Repeat("application/", 12))}, classes: []string{"appLong", "full"}})
	// ---- RSA: e, n
	rsa := func(name string, e int64, n *big.Int, cls ...string) {
		keys = append(keys, bkey{name: "rsa " + name, typ: "ssh-rsa", ints: []*big.Int{big.NewInt(e), n}, classes: cls})
	}
	rsa("2048 e=65537", 65537, detInt("n2048", 2048), "nTopSet", "e65537")
	rsa("2047 e=3", 3, detInt("n2047", 2047), "nTopClear", "e3")
	rsa("1024 e=0xffffff", 0xffffff, detInt("n1024", 1024), "nTopSet", "eTopSet")
	rsa("1025 e=0x800001", 0x800001, detInt("n1025", 1025), "nTopClear", "eTopSet")
	rsa("1031 e=0x7fffff", 0x7fffff, detInt("n1031", 1031), "nTopClear", "eTopClear")
	rsa("64 e=257", 257, detInt("n64", 64), "nTopSet", "small")
	rsa("61 e=0x8001", 0x8001, detInt("n61", 61), "nTopClear", "small", "eTopSet")
	// ---- DSA
	var params dsa.Parameters
	if err := dsa.GenerateParameters(&params, rand.Reader, dsa.L1024N160); err != nil {
		t.Fatal(err)
	}
	cls3 := func(v *big.Int, pre string) string {
		b := v.Bytes()
		switch {
		case len(b) < 128:
			return pre + "Short"
		case b[0] >= 128:
			return pre + "TopSet"
		}
		return pre + "TopClear"
	}
	exp := new(big.Int).Div(new(big.Int).Sub(params.P, big.NewInt(1)), params.Q)
	wantG := map[string]*big.Int{}
	for h := int64(2); h < 20000 && len(wantG) < 3; h++ {
		g := new(big.Int).Exp(big.NewInt(h), exp, params.P)
		if g.Cmp(big.NewInt(1)) <= 0 {
			continue
		}
		if c := cls3(g, "g"); wantG[c] == nil {
			wantG[c] = g
		}
	}
	if len(wantG) < 3 {
		t.Fatalf("DSA generator classes not found: %v", len(wantG))
	}
	gnames := []string{}
	for c := range wantG {
		gnames = append(gnames, c)
	}
	sort.Strings(gnames)
	wantY := map[string]bool{"yShort": true, "yTopSet": true, "yTopClear": true}
	g0 := wantG["gTopClear"]
	for x := int64(2); x < 100000 && len(wantY) > 0; x++ {
		y := new(big.Int).Exp(g0, big.NewInt(x), params.P)
		if c := cls3(y, "y"); wantY[c] {
			delete(wantY, c)
			keys = append(keys, bkey{name: fmt.Sprintf("dsa %s x=%d", c, x), typ: "ssh-dss", ints: []*big.Int{params.P, params.Q, g0, y}, classes: []string{c, "gTopClear"}})
		}
	}
	if len(wantY) > 0 {
		t.Fatalf("DSA y classes not found: %v", wantY)
	}
	for _, c := range gnames {
		if c == "gTopClear" {
			continue
		}
		y := new(big.Int).Exp(wantG[c], big.NewInt(5), params.P)
		keys = append(keys, bkey{name: "dsa " + c, typ: "ssh-dss", ints: []*big.Int{params.P, params.Q, wantG[c], y}, classes: []string{c, cls3(y, "y")}})
	}
	// ---- Ed25519
	ed := map[string][]byte{}
	for i := uint32(1); len(ed) < 3 && i < 1000000; i++ {
		seed := sha256.Sum256([]byte(fmt.Sprintf("c38 ed25519 seed %d", i)))
		pk := ed25519.NewKeyFromSeed(seed[:]).Public().(ed25519.PublicKey)
		switch {
		case pk[0] == 0 && ed["lead0"] == nil:
			ed["lead0"] = pk
		case pk[31] == 0 && ed["trail0"] == nil:
			ed["trail0"] = pk
		case ed["random"] == nil && pk[0] != 0 && pk[31] != 0:
			ed["random"] = pk
		}
	}
	ed["zeros"] = make([]byte, 32)
	ed["ones"] = []byte(strings.Repeat("\xff", 32))
	for _, c := range []string{"random", "lead0", "trail0", "zeros", "ones"} {
		if ed[c] == nil {
			t.Fatalf("ed25519 class %s not found", c)
		}
		keys = append(keys, bkey{name: "ed25519 " + c, typ: "ssh-ed25519", raws: [][]byte{ed[c]}, classes: []string{c}})
		keys = append(keys, bkey{name: "sk-ed25519 " + c, typ: "sk-ssh-ed25519@openssh.com", raws: [][]byte{ed[c], []byte("ssh:")}, classes: []string{c}})
	}
	keys = append(keys, bkey{name: "sk-ed25519 empty application", typ: "sk-ssh-ed25519@openssh.com", raws: [][]byte{ed["random"], {}}, classes: []string{"appEmpty"}})

	var b strings.Builder
	b.WriteString("---------------------------- MODULE SSHKeyBlob_Keys ----------------------------\n")
	b.WriteString("(* GENERATED by harness/c38/boundary_gen_test.go (TestC38WriteBoundaryKeys); do not edit.\n")
	b.WriteString("   The boundary key set of SSHKeyBlob: integer components as magnitudes (no leading zero bytes),\n")
	b.WriteString("   byte-string components, and the boundary classes each key stands for. *)\n")
	b.WriteString("BoundaryKeys == <<\n")
	for i, k := range keys {
		ints := make([]string, len(k.ints))
		for j, v := range k.ints {
			ints[j] = tlaBytes(v.Bytes())
		}
		raws := make([]string, len(k.raws))
		for j, v := range k.raws {
			raws[j] = tlaBytes(v)
		}
		cls := make([]string, len(k.classes))
		for j, c := range k.classes {
			cls[j] = fmt.Sprintf("%q", c)
		}
		fmt.Fprintf(&b, "  [name |-> %q, type |-> %q,\n   ints |-> <<%s>>,\n   raws |-> <<%s>>,\n   classes |-> {%s}]", k.name, k.typ,
			strings.Join(ints, ", "), strings.Join(raws, ", "), strings.Join(cls, ", "))
		if i < len(keys)-1 {
			b.WriteString(",")
		}
		b.WriteString("\n")
	}
	b.WriteString(">>\n=============================================================================\n")
	if err := os.WriteFile(outPath, []byte(b.String()), 0o644); err != nil {
		t.Fatal(err)
	}
	t.Logf("wrote %d keys", len(keys))
}
