package c38

// Binding R for spec/SSHKeyBlob.tla: every boundary key TLC encoded (component magnitudes + the blob the width rules
// predict) is built as a real key through the public API and compared byte for byte: Marshal, both round trips,
// the authorized_keys line, the fingerprints, ssh-keygen -l, and a certificate over the key.

import (
	"bytes"
	"crypto/dsa"
	"crypto/ecdsa"
	"crypto/ed25519"
	"crypto/elliptic"
	"crypto/md5"
	"crypto/rand"
	"crypto/rsa"
	"crypto/sha256"
	"encoding/base64"
	"encoding/hex"
	"encoding/json"
	"fmt"
	"math/big"
	"os"
	"path/filepath"
	"strings"
	"testing"

	"golang.org/x/crypto/ssh"
	"verif/harness/c38lib"
	"verif/harness/vutil"
)

type kcase struct {
	Name    string   `json:"name"`
	Type    string   `json:"type"`
	Ints    [][]int  `json:"ints"`
	Raws    [][]int  `json:"raws"`
	Classes []string `json:"classes"`
	Blob    []int    `json:"blob"`
}

func toBytes(a []int) []byte {
	b := make([]byte, len(a))
	for i, x := range a {
		b[i] = byte(x)
	}
	return b
}

// buildKey constructs the package's key object from the components WITHOUT going through the encoding under
// test where the API allows it (NewPublicKey); security-key types exist only as parsed values, they are parsed from
// the harness's own wire writer (c38lib.W), which is thereby compared with the model as well.
func buildKey(c kcase) (ssh.PublicKey, error) {
	n := func(i int) *big.Int { return new(big.Int).SetBytes(toBytes(c.Ints[i])) }
	curve := map[string]elliptic.Curve{ssh.KeyAlgoECDSA256: elliptic.P256(), ssh.KeyAlgoECDSA384: elliptic.P384(), ssh.KeyAlgoECDSA521: elliptic.P521(), ssh.KeyAlgoSKECDSA256: elliptic.P256()}[c.Type]
	switch c.Type {
	case ssh.KeyAlgoRSA:
		return ssh.NewPublicKey(&rsa.PublicKey{E: int(n(0).Int64()), N: n(1)})
	case ssh.InsecureKeyAlgoDSA:
		return ssh.NewPublicKey(&dsa.PublicKey{Parameters: dsa.Parameters{P: n(0), Q: n(1), G: n(2)}, Y: n(3)})
	case ssh.KeyAlgoECDSA256, ssh.KeyAlgoECDSA384, ssh.KeyAlgoECDSA521:
		return ssh.NewPublicKey(&ecdsa.PublicKey{Curve: curve, X: n(0), Y: n(1)})
	case ssh.KeyAlgoED25519:
		return ssh.NewPublicKey(ed25519.PublicKey(toBytes(c.Raws[0])))
	case ssh.KeyAlgoSKECDSA256:
		w := curve.Params().BitSize / 8
		pt := append([]byte{4}, append(n(0).FillBytes(make([]byte, w)), n(1).FillBytes(make([]byte, w))...)...)
		return ssh.ParsePublicKey((&c38lib.W{}).S(c.Type).S("nistp256").Str(pt).Str(toBytes(c.Raws[0])).B)
	case ssh.KeyAlgoSKED25519:
		return ssh.ParsePublicKey((&c38lib.W{}).S(c.Type).Str(toBytes(c.Raws[0])).Str(toBytes(c.Raws[1])).B)
	}
	return nil, fmt.Errorf("unknown type %q", c.Type)
}

func boundaryKeys(t *testing.T, out *vutil.Out, haveKeygen bool) {
	path := os.Getenv("VERIF_C38_KEYCASES")
	if path == "" {
		out.Extra["boundary_keys"] = "not run (VERIF_C38_KEYCASES unset)"
		return
	}
	dir := t.TempDir()
	ca, err := c38lib.NewKey(ssh.KeyAlgoED25519, 0)
	if err != nil {
		t.Fatal(err)
	}
	exercised := map[string]int{}
	fails, idx := 0, 0
	err = vutil.ReadNDJSON(path, func(line []byte) error {
		var c kcase
		if err := json.Unmarshal(line, &c); err != nil {
			return err
		}
		idx++
		want := toBytes(c.Blob)
		out.Case("boundary|" + c.Name)
		det := map[string]any{"key": c.Name, "type": c.Type, "classes": c.Classes, "model_blob_b64": base64.StdEncoding.EncodeToString(want)}
		cls := strings.Join(c.Classes, "+")
		failed := false
		fail := func(kind, what string) {
			if failed {
				return // one report per key: the first comparison that fails names the defect
			}
			failed = true
			viol(out, "key-encoding:"+kind+":"+c.Type, what+" ("+c.Name+", classes "+cls+")", det)
			fails++
			if fails <= 10 {
				t.Errorf("%s: %s: %s", c.Name, kind, what)
			}
		}
		func() {
			defer func() {
				if p := recover(); p != nil {
					det["panic"] = fmt.Sprint(p)
					fail("panic", fmt.Sprintf("the package panicked: %v", p))
				}
			}()
			k, err := buildKey(c)
			if err != nil {
				det["error"] = err.Error()
				fail("construct", "the key cannot be constructed / parsed: "+err.Error())
				return
			}
			for _, cl := range c.Classes {
				exercised[c.Type+":"+cl]++
			}
			got := k.Marshal()
			det["marshal_b64"] = base64.StdEncoding.EncodeToString(got)
			if !bytes.Equal(got, want) {
				fail("marshal", fmt.Sprintf("Marshal() is not the encoding the width rules give (%d bytes, expected %d)", len(got), len(want)))
			}
			// the model's bytes parse, to an equal key that re-marshals to them
			if p, err := ssh.ParsePublicKey(want); err != nil {
				fail("parse-canonical", "ParsePublicKey rejects the canonical encoding: "+err.Error())
			} else if !bytes.Equal(p.Marshal(), want) || p.Type() != c.Type {
				fail("parse-canonical", "ParsePublicKey(canonical).Marshal() differs from the canonical encoding")
			}
			// ParsePublicKey(Marshal(k))
			if p, err := ssh.ParsePublicKey(got); err != nil || !equalKey(p, k) {
				fail("roundtrip", fmt.Sprintf("ParsePublicKey(Marshal(k)) does not return an equal key: %v", err))
			}
			// authorized_keys form
			wantLine := c.Type + " " + base64.StdEncoding.EncodeToString(want) + "\n"
			line := ssh.MarshalAuthorizedKey(k)
			if string(line) != wantLine {
				fail("authorized-line", "MarshalAuthorizedKey(k) is not `type base64(blob)`")
			}
			if p, comment, opts, rest, err := ssh.ParseAuthorizedKey(line); err != nil || !equalKey(p, k) || comment != "" || len(opts) != 0 || len(rest) != 0 {
				fail("authorized-roundtrip", fmt.Sprintf("ParseAuthorizedKey(MarshalAuthorizedKey(k)) does not return an equal key: %v", err))
			}
			// fingerprints are hashes of the blob
			s256 := sha256.Sum256(want)
			m5 := md5.Sum(want)
			var hx []string
			for _, b := range m5 {
				hx = append(hx, hex.EncodeToString([]byte{b}))
			}
			wantSHA, wantMD5 := "SHA256:"+base64.RawStdEncoding.EncodeToString(s256[:]), strings.Join(hx, ":")
			if ssh.FingerprintSHA256(k) != wantSHA || ssh.FingerprintLegacyMD5(k) != wantMD5 {
				fail("fingerprint", "FingerprintSHA256/FingerprintLegacyMD5 are not the hashes of the canonical blob")
			}
			// ssh-keygen reads the canonical line and must print the package's fingerprints
			if haveKeygen {
				f := filepath.Join(dir, fmt.Sprintf("b%d.pub", idx))
				if err := os.WriteFile(f, []byte(wantLine), 0o600); err != nil {
					t.Fatal(err)
				}
				for _, hsh := range []string{"sha256", "md5"} {
					fp, err := keygenFingerprint(dir, f, hsh)
					if err != nil {
						bump(out, "boundary_keygen_refused:"+c.Type)
						break
					}
					mine := ssh.FingerprintSHA256(k)
					if hsh == "md5" {
						mine = "MD5:" + ssh.FingerprintLegacyMD5(k)
					}
					out.Case("boundary-keygen|" + c.Name + "|" + hsh)
					if fp != mine {
						det["ssh-keygen"], det["go"] = fp, mine
						fail("ssh-keygen-fingerprint-"+hsh, "fingerprint differs from ssh-keygen -l on the canonical authorized_keys line")
					}
				}
			}
			// a certificate over the key survives Marshal -> ParsePublicKey -> Marshal
			cert := &ssh.Certificate{Key: k, Serial: uint64(idx), CertType: ssh.HostCert, KeyId: "c38-boundary", ValidBefore: ssh.CertTimeInfinity}
			if err := cert.SignCert(rand.Reader, ca.Signer); err != nil {
				fail("certificate", "SignCert: "+err.Error())
				return
			}
			cw := cert.Marshal()
			if p, err := ssh.ParsePublicKey(cw); err != nil {
				fail("certificate", "a certificate over the key does not parse back: "+err.Error())
			} else if !bytes.Equal(p.Marshal(), cw) || !bytes.Equal(p.(*ssh.Certificate).Key.Marshal(), want) {
				fail("certificate", "a certificate over the key does not round-trip / carries a different key encoding")
			}
		}()
		return nil
	})
	if err != nil {
		t.Fatal(err)
	}
	out.Extra["boundary_classes_exercised"] = exercised
	if fails > 0 {
		t.Errorf("%d failing boundary key comparisons", fails)
	}
}
