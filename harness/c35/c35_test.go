// Binding T for C35 (channel flow control and data integrity under all schedules).
//
// Real ssh muxes (hook ssh.VerifMuxNew = newMux unchanged) run over the monitored in-memory
// packet connection of package c35conn.  The monitor sees every packet of both endpoints in one
// linear order (at writePacket entry / readPacket return) and projects it on each
// (channel, direction): sdata / rdata / sadj / radj / seof / reof, plus `read` events logged by
// the reading applications and q_* snapshots taken at quiescent points (testing/synctest:
// synctest.Wait returns only when every goroutine of the bubble is durably blocked, so
// "quiescent" is decided by the runtime, not by a timer).  The recorded traces are validated by
// spec/SSHChannel_Trace.tla with the real constants.  Scenarios: two real muxes (2 MiB windows,
// 32 KiB packets, > window-size transfers so that writers block, gated = delayed readers), and a
// scripted raw peer that opens / confirms channels with tiny windows and max packet sizes 9..64,
// credits at random, and also sends to the real receiver in arbitrary chunkings.
package c35

import (
	"encoding/binary"
	"encoding/json"
	"fmt"
	"io"
	"math/rand"
	"os"
	"runtime"
	"sync"
	"testing"
	"testing/synctest"
	"time"

	"golang.org/x/crypto/ssh"
	"verif/harness/c35conn"
	"verif/harness/vutil"
)

type ev = map[string]any

// ---------------------------------------------------------------- recorder

type chanInfo struct {
	idx       int
	opener    int
	id        [2]uint32 // local id of the channel at endpoint i
	ws, mp    [2]uint32 // receive window / max packet advertised by endpoint i
	confirmed bool
	evs       [2][]ev   // evs[d]: projection on direction d (d = sending endpoint)
	sentOff   [2][3]int // bytes of stream s put on the wire by sender d
	recvOff   [2][3]int // bytes of stream s dequeued by the receiver of direction d
	readOff   [2][2]int // bytes of stream s read by the application at the receiver of direction d
	code2     [2]uint32 // the extended code > 1 used in direction d (0: none yet)
	dataPkts  [2]int
	adjPkts   [2]int
	maxSeen   [2]uint32
	overrun   [2]bool
	minWinObs [2]int64 // smallest model window seen at the sender (tracked here only for the evidence)
	modelWin  [2]int64
}

type recorder struct {
	onRecvData func(ep int) // optional: called (lock held) when endpoint ep dequeues channel data
	chans      []*chanInfo
	byID       [2]map[uint32]*chanInfo
	bad        []string // harness-level inconsistencies (infrastructure, not verdicts)
}

func newRecorder() *recorder {
	r := &recorder{}
	r.byID[0] = map[uint32]*chanInfo{}
	r.byID[1] = map[uint32]*chanInfo{}
	return r
}

func pat(salt uint32, off int) byte {
	x := uint32(off)*2654435761 + salt*40503 + 17
	return byte(x>>24) ^ byte(x>>13)
}

func salt(ci, d, s int) uint32 { return uint32(ci*16 + d*4 + s) }

func fill(b []byte, sl uint32, off int) {
	for i := range b {
		b[i] = pat(sl, off+i)
	}
}

func matches(b []byte, sl uint32, off int) bool {
	for i := range b {
		if b[i] != pat(sl, off+i) {
			return false
		}
	}
	return true
}

func strm(code uint32) int {
	if code > 1 {
		return 2
	}
	return int(code)
}

func parseString(p []byte) (rest []byte, ok bool) {
	if len(p) < 4 {
		return nil, false
	}
	n := binary.BigEndian.Uint32(p)
	if uint32(len(p)-4) < n {
		return nil, false
	}
	return p[4+n:], true
}

// mon is the c35conn monitor: called with the pair lock held.
func (r *recorder) mon(ep int, send bool, p []byte) {
	switch p[0] {
	case 90: // channel open: string type, uint32 sender id, window, max packet
		if !send {
			return
		}
		rest, ok := parseString(p[1:])
		if !ok || len(rest) < 12 {
			return
		}
		ci := &chanInfo{idx: len(r.chans), opener: ep}
		ci.id[ep] = binary.BigEndian.Uint32(rest)
		ci.ws[ep] = binary.BigEndian.Uint32(rest[4:])
		ci.mp[ep] = binary.BigEndian.Uint32(rest[8:])
		r.chans = append(r.chans, ci)
		r.byID[ep][ci.id[ep]] = ci
	case 91: // confirm: recipient id, sender id, window, max packet
		if !send || len(p) < 17 {
			return
		}
		ci := r.byID[1-ep][binary.BigEndian.Uint32(p[1:])]
		if ci == nil || ci.confirmed {
			r.bad = append(r.bad, "confirm for unknown channel")
			return
		}
		ci.id[ep] = binary.BigEndian.Uint32(p[5:])
		ci.ws[ep] = binary.BigEndian.Uint32(p[9:])
		ci.mp[ep] = binary.BigEndian.Uint32(p[13:])
		ci.confirmed = true
		r.byID[ep][ci.id[ep]] = ci
		for d := 0; d < 2; d++ {
			ci.evs[d] = append(ci.evs[d], ev{"ev": "init", "ws": ci.ws[1-d], "mp": ci.mp[1-d], "chan": ci.idx, "dir": d})
			ci.modelWin[d] = int64(ci.ws[1-d])
			ci.minWinObs[d] = ci.modelWin[d]
		}
	case 94, 95:
		hl := 9
		var code uint32
		if p[0] == 95 {
			hl = 13
		}
		if len(p) < hl {
			return
		}
		if p[0] == 95 {
			code = binary.BigEndian.Uint32(p[5:])
		}
		rid := binary.BigEndian.Uint32(p[1:])
		n := binary.BigEndian.Uint32(p[hl-4:])
		data := p[hl:]
		s := strm(code)
		if send {
			ci := r.byID[1-ep][rid]
			if ci == nil || !ci.confirmed {
				r.bad = append(r.bad, "data for unknown channel")
				return
			}
			d := ep
			if s == 2 {
				ci.code2[d] = code
			}
			ok := int(n) == len(data) && matches(data, salt(ci.idx, d, s), ci.sentOff[d][s])
			ci.evs[d] = append(ci.evs[d], ev{"ev": "sdata", "s": s, "from": ci.sentOff[d][s], "n": n, "ok": ok})
			ci.sentOff[d][s] += int(n)
			ci.dataPkts[d]++
			if n > ci.maxSeen[d] {
				ci.maxSeen[d] = n
			}
			ci.modelWin[d] -= int64(n)
			if ci.modelWin[d] < ci.minWinObs[d] {
				ci.minWinObs[d] = ci.modelWin[d]
			}
		} else {
			if r.onRecvData != nil {
				r.onRecvData(ep)
			}
			ci := r.byID[ep][rid]
			if ci == nil {
				return
			}
			d := 1 - ep
			ci.evs[d] = append(ci.evs[d], ev{"ev": "rdata", "s": s, "from": ci.recvOff[d][s], "n": n})
			ci.recvOff[d][s] += int(n)
		}
	case 93:
		if len(p) < 9 {
			return
		}
		rid := binary.BigEndian.Uint32(p[1:])
		a := binary.BigEndian.Uint32(p[5:])
		if send {
			ci := r.byID[1-ep][rid]
			if ci == nil {
				return
			}
			ci.evs[1-ep] = append(ci.evs[1-ep], ev{"ev": "sadj", "a": a})
			ci.adjPkts[1-ep]++
		} else {
			ci := r.byID[ep][rid]
			if ci == nil {
				return
			}
			ci.evs[ep] = append(ci.evs[ep], ev{"ev": "radj", "a": a})
			ci.modelWin[ep] += int64(a)
		}
	case 96:
		if len(p) < 5 {
			return
		}
		rid := binary.BigEndian.Uint32(p[1:])
		if send {
			if ci := r.byID[1-ep][rid]; ci != nil {
				ci.evs[ep] = append(ci.evs[ep], ev{"ev": "seof"})
			}
		} else {
			if ci := r.byID[ep][rid]; ci != nil {
				ci.evs[1-ep] = append(ci.evs[1-ep], ev{"ev": "reof"})
			}
		}
	}
}

// ---------------------------------------------------------------- scenario plumbing

type results struct {
	mu     sync.Mutex
	out    *vutil.Out
	traces [][]ev
	t      *testing.T
	stats  map[string]int
}

func (rs *results) violation(sig, what string, detail any) {
	rs.mu.Lock()
	defer rs.mu.Unlock()
	rs.out.Violation(sig, what, detail)
	rs.t.Errorf("%s: %s %v", sig, what, detail)
}

func (rs *results) stat(k string, n int) {
	rs.mu.Lock()
	rs.stats[k] += n
	rs.mu.Unlock()
}

// side is one direction of one channel as the driver sees it.
type side struct {
	ci       *chanInfo
	d        int         // sending endpoint
	sendCh   ssh.Channel // real sender's channel object (nil: raw peer sends)
	recvCh   ssh.Channel // real receiver's channel object (nil: raw peer receives)
	pending  int         // writers (or raw sender) that have not finished
	pmu      sync.Mutex
	gate     chan struct{} // readers start when closed
	open     bool
	expected [2]int // bytes the readers of stream 0/1 will get
}

func (sd *side) addPending(n int) { sd.pmu.Lock(); sd.pending += n; sd.pmu.Unlock() }
func (sd *side) getPending() int  { sd.pmu.Lock(); defer sd.pmu.Unlock(); return sd.pending }

func yield(rng *rand.Rand) {
	switch rng.Intn(6) {
	case 0:
		runtime.Gosched()
	case 1:
		time.Sleep(time.Duration(rng.Intn(1000)) * time.Microsecond) // virtual time inside the bubble
	}
}

// writer issues Write calls of the given sizes on stream code of ch.
func writer(rs *results, pair *c35conn.Pair, sd *side, ch ssh.Channel, code uint32, sizes []int, seed int64, wg *sync.WaitGroup) {
	defer wg.Done()
	defer sd.addPending(-1)
	rng := rand.New(rand.NewSource(seed))
	var w io.Writer = ch
	if code > 0 {
		w = ssh.VerifChanExtended(ch, code)
	}
	s := strm(code)
	sl := salt(sd.ci.idx, sd.d, s)
	off := 0
	buf := make([]byte, 0, 200<<10)
	for _, sz := range sizes {
		if sz > cap(buf) {
			buf = make([]byte, 0, sz)
		}
		b := buf[:sz]
		fill(b, sl, off)
		n, err := w.Write(b)
		if err != nil || n != sz {
			rs.violation("write-failed", "Write on an open channel whose peer keeps reading returned early",
				ev{"chan": sd.ci.idx, "dir": sd.d, "code": code, "size": sz, "n": n, "err": fmt.Sprint(err)})
			return
		}
		off += sz
		yield(rng)
	}
}

// reader reads stream s (0 or 1) of ch until `want` bytes have arrived, logging every Read.
func reader(rs *results, pair *c35conn.Pair, sd *side, ch ssh.Channel, s int, want int, seed int64, wg *sync.WaitGroup) {
	defer wg.Done()
	<-sd.gate
	rng := rand.New(rand.NewSource(seed))
	var r io.Reader = ch
	if s == 1 {
		r = ch.Stderr()
	}
	sl := salt(sd.ci.idx, sd.d, s)
	buf := make([]byte, 1+rng.Intn(70000))
	got := 0
	for got < want {
		k := len(buf)
		if rng.Intn(3) == 0 {
			k = 1 + rng.Intn(len(buf))
		}
		n, err := r.Read(buf[:k])
		if n > 0 {
			ok := matches(buf[:n], sl, got)
			pair.Locked(func() {
				sd.ci.evs[sd.d] = append(sd.ci.evs[sd.d], ev{"ev": "read", "s": s, "from": got, "n": n, "ok": ok})
				sd.ci.readOff[sd.d][s] += n
			})
			got += n
		}
		if err != nil {
			rs.violation("read-failed", "Read returned an error before all written bytes arrived",
				ev{"chan": sd.ci.idx, "dir": sd.d, "stream": s, "got": got, "want": want, "err": fmt.Sprint(err)})
			return
		}
		yield(rng)
	}
}

// quiesce lets every virtual sleep expire and waits until all goroutines are durably blocked.
func quiesce() {
	time.Sleep(time.Hour)
	synctest.Wait()
}

// snapshot appends the q_* events of one direction; must be called at a quiescent point.
func snapshot(pair *c35conn.Pair, sd *side, label string) {
	active := label != "gated"
	pair.Locked(func() {
		e := &sd.ci.evs[sd.d]
		*e = append(*e, ev{"ev": "q_net", "label": label})
		if sd.sendCh != nil {
			if st, ok := ssh.VerifChanGetState(sd.sendCh); ok {
				*e = append(*e, ev{"ev": "q_swin", "v": st.RemoteWin})
			}
		}
		if sd.recvCh != nil {
			if st, ok := ssh.VerifChanGetState(sd.recvCh); ok {
				*e = append(*e, ev{"ev": "q_rwin", "v": st.MyWindow})
				*e = append(*e, ev{"ev": "q_noleak", "mywin": st.MyWindow, "mycons": st.MyConsumed})
			}
		}
		*e = append(*e, ev{"ev": "q_writers", "pending": sd.getPending(), "active": active})
	})
}

func splitSizes(rng *rand.Rand, total, maxOne int) []int {
	var out []int
	for total > 0 {
		k := rng.Intn(maxOne + 1)
		if rng.Intn(8) == 0 {
			k = 0 // zero-length writes are part of the quantifier
		}
		if k > total {
			k = total
		}
		out = append(out, k)
		total -= k
	}
	if rng.Intn(3) == 0 {
		out = append(out, 0)
	}
	return out
}

func acceptLoop(m *ssh.VerifMux, got chan<- ssh.Channel) {
	for nc := range m.IncomingChannels() {
		ch, reqs, err := nc.Accept()
		if err != nil {
			continue
		}
		go ssh.DiscardRequests(reqs)
		got <- ch
	}
}

func watchMux(rs *results, m *ssh.VerifMux, name string, tearing *bool, mu *sync.Mutex) {
	err := m.Wait()
	mu.Lock()
	td := *tearing
	mu.Unlock()
	if !td {
		rs.violation("receiver-reported:"+fmt.Sprint(err), "a mux terminated the connection although both sides followed the window protocol",
			ev{"mux": name, "err": fmt.Sprint(err)})
	}
}

func localID(ch ssh.Channel) uint32 {
	st, _ := ssh.VerifChanGetState(ch)
	return st.LocalID
}

// ---------------------------------------------------------------- scenario 1: two real muxes

type realPlan struct {
	Seed     int64
	Chans    int
	Big      bool // transfers larger than the window (writers must block until credited)
	Gated    bool
	Code2    uint32
	MaxWrite int
}

func runRealPair(rs *results, pl realPlan) {
	rng := rand.New(rand.NewSource(pl.Seed))
	rec := newRecorder()
	pair := c35conn.NewPair(rec.mon)
	var tmu sync.Mutex
	tearing := false
	A := ssh.VerifMuxNew(pair.Ends[0])
	B := ssh.VerifMuxNew(pair.Ends[1])
	go watchMux(rs, A, "A", &tearing, &tmu)
	go watchMux(rs, B, "B", &tearing, &tmu)
	accepted := make(chan ssh.Channel, 16)
	go acceptLoop(B, accepted)
	go acceptLoop(A, make(chan ssh.Channel, 16))
	go ssh.DiscardRequests(A.IncomingRequests())
	go ssh.DiscardRequests(B.IncomingRequests())

	var sides []*side
	var wgW, wgR sync.WaitGroup
	type startFn func()
	var starts []startFn
	for c := 0; c < pl.Chans; c++ {
		chA, reqs, err := A.OpenChannel("verif", nil)
		if err != nil {
			rs.violation("open-failed", "OpenChannel between two real muxes failed", fmt.Sprint(err))
			return
		}
		go ssh.DiscardRequests(reqs)
		chB := <-accepted
		var ci *chanInfo
		pair.Locked(func() { ci = rec.byID[0][localID(chA)] })
		if ci == nil || ci.id[1] != localID(chB) {
			panic("c35: recorder lost track of a channel")
		}
		ends := [2]ssh.Channel{chA, chB}
		for d := 0; d < 2; d++ {
			sd := &side{ci: ci, d: d, sendCh: ends[d], recvCh: ends[1-d], gate: make(chan struct{})}
			sides = append(sides, sd)
			// which streams have writers in this direction
			var codes []uint32
			for _, cd := range []uint32{0, 1, pl.Code2} {
				if rng.Intn(4) != 0 {
					codes = append(codes, cd)
				}
			}
			if len(codes) == 0 {
				codes = []uint32{0}
			}
			for _, cd := range codes {
				total := rng.Intn(300000)
				if pl.Big && rng.Intn(2) == 0 {
					total = (2 << 20) + rng.Intn(1<<20) // more than one full window on this stream alone
				}
				sizes := splitSizes(rng, total, pl.MaxWrite)
				if strm(cd) < 2 {
					sd.expected[strm(cd)] = total
				}
				sd.addPending(1)
				wgW.Add(1)
				seed := rng.Int63()
				cd := cd
				starts = append(starts, func() { go writer(rs, pair, sd, sd.sendCh, cd, sizes, seed, &wgW) })
			}
			for s := 0; s < 2; s++ {
				if sd.expected[s] > 0 {
					wgR.Add(1)
					seed := rng.Int63()
					s := s
					starts = append(starts, func() { go reader(rs, pair, sd, sd.recvCh, s, sd.expected[s], seed, &wgR) })
				}
			}
			if !pl.Gated || rng.Intn(3) == 0 {
				close(sd.gate)
				sd.open = true
			}
		}
	}
	rng.Shuffle(len(starts), func(i, j int) { starts[i], starts[j] = starts[j], starts[i] })
	for _, f := range starts {
		f()
	}
	quiesce()
	for _, sd := range sides {
		snapshot(pair, sd, "gated")
	}
	for _, sd := range sides {
		if !sd.open {
			close(sd.gate)
			sd.open = true
		}
	}
	quiesce()
	for _, sd := range sides {
		snapshot(pair, sd, "final")
		if p := sd.getPending(); p > 0 {
			rs.violation("writer-stuck", "every goroutine is blocked, the peer has read everything it was sent, and a Write has not returned",
				ev{"chan": sd.ci.idx, "dir": sd.d, "pendingWriters": p, "plan": pl})
		}
		for s := 0; s < 2; s++ {
			if sd.ci.readOff[sd.d][s] != sd.expected[s] {
				rs.violation("bytes-missing", "the reader did not receive all bytes written to the stream",
					ev{"chan": sd.ci.idx, "dir": sd.d, "stream": s, "read": sd.ci.readOff[sd.d][s], "written": sd.expected[s], "plan": pl})
			}
		}
	}
	// end of streams
	for _, sd := range sides {
		if sd.getPending() == 0 {
			sd.sendCh.CloseWrite()
		}
	}
	quiesce()
	for _, sd := range sides {
		snapshot(pair, sd, "eof")
	}
	tmu.Lock()
	tearing = true
	tmu.Unlock()
	A.Close()
	B.Close()
	quiesce()
	finish(rs, rec, fmt.Sprintf("real-pair chans=%d big=%v gated=%v code2=%d", pl.Chans, pl.Big, pl.Gated, pl.Code2), pl)
}

func finish(rs *results, rec *recorder, key string, plan any) {
	rs.mu.Lock()
	defer rs.mu.Unlock()
	if len(rec.bad) > 0 {
		panic(fmt.Sprintf("c35 harness inconsistency: %v", rec.bad))
	}
	for _, ci := range rec.chans {
		if !ci.confirmed {
			continue
		}
		for d := 0; d < 2; d++ {
			if ci.dataPkts[d] == 0 {
				rs.out.Case("")
				continue
			}
			rs.traces = append(rs.traces, ci.evs[d])
			blocked := ci.minWinObs[d] == 0
			rs.out.Case(fmt.Sprintf("%s|ws=%d|mp=%d|pkts=%d|adj=%d|blocked=%v|%d", key, ci.ws[1-d], ci.mp[1-d], ci.dataPkts[d], ci.adjPkts[d], blocked, len(rs.traces)))
			rs.stats["data_packets"] += ci.dataPkts[d]
			rs.stats["adjust_packets"] += ci.adjPkts[d]
			if blocked {
				rs.stats["directions_where_window_reached_0"]++
			}
			if ci.mp[1-d] < 100 {
				rs.stats["directions_with_tiny_max_packet"]++
			}
			rs.stats["bytes"] += ci.sentOff[d][0] + ci.sentOff[d][1] + ci.sentOff[d][2]
			if ci.sentOff[d][2] > 0 {
				rs.stats["directions_with_discarded_extended_data"]++
			}
		}
	}
	if len(rs.out.Samples) < 5 {
		rs.out.Sample(ev{"scenario": key, "plan": plan})
	}
}

// ---------------------------------------------------------------- scenario 2: scripted raw peer

type rawPlan struct {
	Seed      int64
	PeerOpens bool
	Win       uint32 // raw peer's receive window
	MaxPkt    uint32 // raw peer's max packet (9..64)
	Code2     uint32
	ToRaw     [3]int // bytes the real side writes per stream
	FromRaw   [3]int // bytes the raw peer sends per stream
	Gated     bool
	Grant     int64 // late window grant of a peer that advertised window 0 (0: random small)
	Single    bool  // the real side issues one Write per stream, each fitting one packet
}

// rawPeer is a hand-written, protocol-compliant endpoint with its own crediting policy.
type rawPeer struct {
	mu     sync.Mutex
	end    *c35conn.End
	pair   *c35conn.Pair
	rs     *results
	rec    *recorder
	rng    *rand.Rand
	pl     rawPlan
	myID   uint32
	peerID uint32
	ready  bool
	ci     *chanInfo
	// receiving (real -> raw)
	view     int64 // window the real sender still has, as the raw peer sees it
	backlog  [3]int
	consumed int64 // consumed, not yet credited
	active   bool
	rcvd     [3]int
	// sending (raw -> real)
	swin    int64
	smax    uint32
	left    [3]int
	soff    [3]int
	sd      *side // direction raw -> real, for the pending count
	readyCh chan struct{}
}

func (rp *rawPeer) send(p []byte) { rp.end.WritePacket(p) }

func u32(v uint32) []byte { b := make([]byte, 4); binary.BigEndian.PutUint32(b, v); return b }

func (rp *rawPeer) loop() {
	for {
		p, err := rp.end.ReadPacket()
		if err != nil {
			return
		}
		rp.mu.Lock()
		rp.handle(p)
		rp.mu.Unlock()
	}
}

func (rp *rawPeer) handle(p []byte) {
	switch p[0] {
	case 90: // the real side opens a channel to us
		rest, _ := parseString(p[1:])
		rp.peerID = binary.BigEndian.Uint32(rest)
		rp.swin = int64(binary.BigEndian.Uint32(rest[4:]))
		rp.smax = binary.BigEndian.Uint32(rest[8:])
		rp.view = int64(rp.pl.Win)
		msg := append([]byte{91}, u32(rp.peerID)...)
		msg = append(msg, u32(rp.myID)...)
		msg = append(msg, u32(rp.pl.Win)...)
		msg = append(msg, u32(rp.pl.MaxPkt)...)
		rp.send(msg)
		rp.established()
	case 91:
		rp.peerID = binary.BigEndian.Uint32(p[5:])
		rp.swin = int64(binary.BigEndian.Uint32(p[9:]))
		rp.smax = binary.BigEndian.Uint32(p[13:])
		rp.view = int64(rp.pl.Win)
		rp.established()
	case 93:
		rp.swin += int64(binary.BigEndian.Uint32(p[5:]))
		rp.pump()
	case 94, 95:
		hl, code := 9, uint32(0)
		if p[0] == 95 {
			hl, code = 13, binary.BigEndian.Uint32(p[5:])
		}
		n := int(binary.BigEndian.Uint32(p[hl-4:]))
		s := strm(code)
		rp.view -= int64(n)
		rp.rcvd[s] += n
		rp.backlog[s] += n
		if rp.active {
			rp.consume()
		}
	}
}

func (rp *rawPeer) established() {
	rp.ready = true
	close(rp.readyCh)
}

// consume "reads" the whole backlog in random slices (logging read events for streams 0/1) and
// credits at random -- but always when the sender's window, as seen from here, is used up: the
// raw peer is a peer that keeps reading.  A peer that advertised window 0 grants some window later.
func (rp *rawPeer) consume() {
	for s := 0; s < 3; s++ {
		for rp.backlog[s] > 0 {
			k := rp.backlog[s]
			if rp.rng.Intn(2) == 0 {
				k = 1 + rp.rng.Intn(k)
			}
			if s < 2 {
				from := rp.ci.readOff[0][s]
				rp.pair.Locked(func() {
					rp.ci.evs[0] = append(rp.ci.evs[0], ev{"ev": "read", "s": s, "from": from, "n": k, "ok": true})
					rp.ci.readOff[0][s] += k
				})
			}
			rp.backlog[s] -= k
			rp.consumed += int64(k)
		}
	}
	var a int64
	switch {
	case rp.consumed > 0 && (rp.view == 0 || rp.rng.Intn(3) == 0):
		a = rp.consumed
		if rp.rng.Intn(2) == 0 {
			a = 1 + rp.rng.Int63n(a)
		}
		rp.consumed -= a
	case rp.consumed == 0 && rp.view == 0:
		a = 1 + rp.rng.Int63n(50) // late grant of a peer that opened with window 0
		if rp.pl.Grant > 0 {
			a = rp.pl.Grant
		}
	default:
		return
	}
	msg := append([]byte{93}, u32(rp.peerID)...)
	msg = append(msg, u32(uint32(a))...)
	rp.view += a
	rp.send(msg)
}

func (rp *rawPeer) activate() {
	rp.mu.Lock()
	rp.active = true
	rp.consume()
	rp.mu.Unlock()
}

// pump sends as much of the remaining data as the real receiver's window allows, in random chunks.
func (rp *rawPeer) pump() {
	if !rp.ready {
		return
	}
	for rp.swin > 0 {
		var cand []int
		for s := 0; s < 3; s++ {
			if rp.left[s] > 0 {
				cand = append(cand, s)
			}
		}
		if len(cand) == 0 {
			break
		}
		s := cand[rp.rng.Intn(len(cand))]
		k := int64(rp.left[s])
		if k > rp.swin {
			k = rp.swin
		}
		if k > int64(rp.smax) {
			k = int64(rp.smax)
		}
		switch rp.rng.Intn(4) {
		case 0:
			k = 1 + rp.rng.Int63n(k)
		case 1:
			if k > 64 {
				k = 1 + rp.rng.Int63n(64)
			}
		}
		var msg []byte
		if s == 0 {
			msg = append([]byte{94}, u32(rp.peerID)...)
		} else {
			code := uint32(1)
			if s == 2 {
				code = rp.pl.Code2
			}
			msg = append([]byte{95}, u32(rp.peerID)...)
			msg = append(msg, u32(code)...)
		}
		msg = append(msg, u32(uint32(k))...)
		data := make([]byte, k)
		fill(data, salt(rp.ci.idx, 1, s), rp.soff[s])
		msg = append(msg, data...)
		rp.swin -= k
		rp.left[s] -= int(k)
		rp.soff[s] += int(k)
		rp.send(msg)
	}
	if rp.left[0]+rp.left[1]+rp.left[2] == 0 && rp.sd != nil && rp.sd.getPending() > 0 {
		rp.sd.addPending(-1)
	}
}

func runRawPeer(rs *results, pl rawPlan) {
	rng := rand.New(rand.NewSource(pl.Seed))
	rec := newRecorder()
	pair := c35conn.NewPair(rec.mon)
	var tmu sync.Mutex
	tearing := false
	A := ssh.VerifMuxNew(pair.Ends[0])
	go watchMux(rs, A, "A", &tearing, &tmu)
	accepted := make(chan ssh.Channel, 4)
	go acceptLoop(A, accepted)
	go ssh.DiscardRequests(A.IncomingRequests())
	rp := &rawPeer{end: pair.Ends[1], pair: pair, rs: rs, rec: rec, rng: rand.New(rand.NewSource(pl.Seed + 1)), pl: pl,
		myID: 40 + uint32(rng.Intn(5)), left: pl.FromRaw, readyCh: make(chan struct{})}
	var chA ssh.Channel
	if pl.PeerOpens {
		rp.view = int64(pl.Win)
		msg := append([]byte{90}, u32(5)...)
		msg = append(msg, "verif"...)
		msg = append(msg, u32(rp.myID)...)
		msg = append(msg, u32(pl.Win)...)
		msg = append(msg, u32(pl.MaxPkt)...)
		rp.send(msg)
		go rp.loop()
		chA = <-accepted
	} else {
		go rp.loop()
		ch, reqs, err := A.OpenChannel("verif", nil)
		if err != nil {
			rs.violation("open-failed", "OpenChannel to a compliant raw peer failed", fmt.Sprint(err))
			pair.Ends[1].Close()
			A.Close()
			return
		}
		go ssh.DiscardRequests(reqs)
		chA = ch
	}
	<-rp.readyCh
	var ci *chanInfo
	pair.Locked(func() { ci = rec.byID[0][localID(chA)] })
	if ci == nil || !ci.confirmed {
		panic("c35: recorder lost track of the raw channel")
	}
	toRaw := &side{ci: ci, d: 0, sendCh: chA}
	fromRaw := &side{ci: ci, d: 1, recvCh: chA, gate: make(chan struct{})}
	rp.mu.Lock()
	rp.ci = ci
	rp.sd = fromRaw
	rp.active = !pl.Gated
	rp.mu.Unlock()
	var wgW, wgR sync.WaitGroup
	codes := [3]uint32{0, 1, pl.Code2}
	for s := 0; s < 3; s++ {
		if pl.ToRaw[s] > 0 {
			toRaw.addPending(1)
			wgW.Add(1)
			sizes := splitSizes(rng, pl.ToRaw[s], 1+rng.Intn(400))
			if pl.Single {
				sizes = []int{pl.ToRaw[s]}
			}
			go writer(rs, pair, toRaw, chA, codes[s], sizes, rng.Int63(), &wgW)
		}
	}
	if pl.FromRaw[0]+pl.FromRaw[1]+pl.FromRaw[2] > 0 {
		fromRaw.addPending(1)
	}
	for s := 0; s < 2; s++ {
		fromRaw.expected[s] = pl.FromRaw[s]
		if pl.FromRaw[s] > 0 {
			wgR.Add(1)
			go reader(rs, pair, fromRaw, chA, s, pl.FromRaw[s], rng.Int63(), &wgR)
		}
	}
	if !pl.Gated {
		close(fromRaw.gate)
	}
	rp.mu.Lock()
	rp.pump()
	rp.mu.Unlock()
	quiesce()
	snapshot(pair, toRaw, "gated")
	snapshot(pair, fromRaw, "gated")
	if pl.Gated {
		close(fromRaw.gate)
	}
	rp.activate()
	quiesce()
	snapshot(pair, toRaw, "final")
	snapshot(pair, fromRaw, "final")
	for _, sd := range []*side{toRaw, fromRaw} {
		if p := sd.getPending(); p > 0 {
			rs.violation("writer-stuck", "every goroutine is blocked, the peer has read everything it was sent, and a sender still waits for window",
				ev{"chan": sd.ci.idx, "dir": sd.d, "pending": p, "plan": pl})
		}
	}
	for s := 0; s < 2; s++ {
		if ci.readOff[1][s] != pl.FromRaw[s] {
			rs.violation("bytes-missing", "the reader did not receive all bytes the raw peer sent",
				ev{"stream": s, "read": ci.readOff[1][s], "sent": pl.FromRaw[s], "plan": pl})
		}
	}
	rp.mu.Lock()
	for s := 0; s < 3; s++ {
		if rp.rcvd[s] != pl.ToRaw[s] && toRaw.getPending() == 0 {
			rs.violation("bytes-missing", "the raw peer did not receive all bytes written", ev{"stream": s, "got": rp.rcvd[s], "written": pl.ToRaw[s], "plan": pl})
		}
	}
	rp.mu.Unlock()
	tmu.Lock()
	tearing = true
	tmu.Unlock()
	A.Close()
	pair.Ends[1].Close()
	quiesce()
	finish(rs, rec, fmt.Sprintf("raw-peer peerOpens=%v win=%d maxpkt=%d gated=%v code2=%d", pl.PeerOpens, pl.Win, pl.MaxPkt, pl.Gated, pl.Code2), pl)
}

// ---------------------------------------------------------------- scenario 3: adjust delivered -> peer data handled -> local continuation

type heldPlan struct {
	Seed  int64
	Dir   int // sending endpoint of the data direction (the other endpoint is the delayed reader)
	Extra int // bytes beyond the first full window
	Holds int // how many window adjusts are held after delivery
}

// runHeldAdjust exhausts the receiver's 2 MiB window with one blocked Write while the reader is delayed,
// then lets the reader run with a write gate on the RECEIVER's endpoint: the goroutine that wrote a
// CHANNEL_WINDOW_ADJUST is held right after the packet has been queued for the peer.  The sender reacts
// (window.add, reserve, CHANNEL_DATA), the receiver's mux loop handles that data while the reader has
// not yet continued past writePacket, and only then is the reader released.
func runHeldAdjust(rs *results, pl heldPlan) {
	rng := rand.New(rand.NewSource(pl.Seed))
	rec := newRecorder()
	pair := c35conn.NewPair(rec.mon)
	var tmu sync.Mutex
	tearing := false
	A := ssh.VerifMuxNew(pair.Ends[0])
	B := ssh.VerifMuxNew(pair.Ends[1])
	go watchMux(rs, A, "A", &tearing, &tmu)
	go watchMux(rs, B, "B", &tearing, &tmu)
	accepted := make(chan ssh.Channel, 4)
	go acceptLoop(B, accepted)
	go acceptLoop(A, make(chan ssh.Channel, 4))
	go ssh.DiscardRequests(A.IncomingRequests())
	go ssh.DiscardRequests(B.IncomingRequests())
	chA, reqs, err := A.OpenChannel("verif", nil)
	if err != nil {
		rs.violation("open-failed", "OpenChannel between two real muxes failed", fmt.Sprint(err))
		A.Close()
		B.Close()
		return
	}
	go ssh.DiscardRequests(reqs)
	chB := <-accepted
	var ci *chanInfo
	pair.Locked(func() { ci = rec.byID[0][localID(chA)] })
	ends := [2]ssh.Channel{chA, chB}
	d := pl.Dir
	recvEp := 1 - d
	sd := &side{ci: ci, d: d, sendCh: ends[d], recvCh: ends[1-d], gate: make(chan struct{})}
	total := (2 << 20) + pl.Extra
	sd.expected[0] = total
	var wgW, wgR sync.WaitGroup
	sd.addPending(1)
	wgW.Add(1)
	go writer(rs, pair, sd, sd.sendCh, 0, []int{total}, rng.Int63(), &wgW)
	wgR.Add(1)
	go reader(rs, pair, sd, sd.recvCh, 0, total, rng.Int63(), &wgR)
	quiesce() // the sender has used the whole window and sleeps in reserve; nothing has been read
	snapshot(pair, sd, "gated")

	// The gate: the writer of a window adjust on the receiver's endpoint is held after delivery and released
	// when the receiver's loop dequeues the peer's responding data.  With one P the Go scheduler keeps the
	// loop running until it blocks, so it handles that data before the released writer continues; whether
	// that really was the order is read off the conn: the writer has not resumed when the loop comes back.
	oldProcs := runtime.GOMAXPROCS(1)
	defer runtime.GOMAXPROCS(oldProcs)
	holdsLeft := pl.Holds
	schedules := 0
	held, sawData := false, false
	armed := true // the next adjust is held only after the loop came back from the previous held schedule
	pair.Locked(func() {
		pair.AfterWrite = func(ep int, p []byte) bool {
			if ep == recvEp && p[0] == 93 && holdsLeft > 0 && armed {
				holdsLeft--
				held, armed = true, false
				return true
			}
			return false
		}
		rec.onRecvData = func(ep int) {
			if ep == recvEp && held && !sawData {
				sawData = true
				pair.ReleaseLocked()
			}
		}
		pair.ReadHook = func(ep int, closing bool) {
			// the receiver's loop comes back for the next packet (or exits): what it dequeued before is handled
			if ep == recvEp && sawData {
				if pair.AfterHeldLocked() > 0 {
					schedules++ // ... and the adjust writer has not continued yet
				}
				sawData, held, armed = false, false, true
			}
		}
	})
	close(sd.gate)
	sd.open = true
	for i := 0; i < 1000; i++ {
		quiesce()
		if pair.AfterHeld() == 0 {
			break
		}
		pair.Locked(func() { held, sawData, armed = false, false, true })
		pair.Release() // the peer had nothing to send in response to this adjust
	}
	pair.Locked(func() { pair.AfterWrite = nil; pair.ReadHook = nil; rec.onRecvData = nil })
	pair.Release()
	quiesce()
	snapshot(pair, sd, "final")
	if p := sd.getPending(); p > 0 {
		rs.violation("writer-stuck", "every goroutine is blocked, the peer has read everything it was sent, and a Write has not returned",
			ev{"chan": ci.idx, "dir": d, "pendingWriters": p, "plan": pl})
	}
	if ci.readOff[d][0] != total {
		rs.violation("bytes-missing", "the reader did not receive all bytes written to the stream",
			ev{"chan": ci.idx, "dir": d, "read": ci.readOff[d][0], "written": total, "plan": pl})
	}
	tmu.Lock()
	tearing = true
	tmu.Unlock()
	A.Close()
	B.Close()
	quiesce()
	rs.stat("held_after_adjust_schedules", schedules)
	finish(rs, rec, fmt.Sprintf("held-adjust dir=%d holds=%d", pl.Dir, pl.Holds), pl)
}

// ---------------------------------------------------------------- test entry

func TestRecord(t *testing.T) {
	out := vutil.NewOut()
	rs := &results{out: out, t: t, stats: map[string]int{}}
	defer func() {
		for k, v := range rs.stats {
			out.Extra[k] = v
		}
		if p := os.Getenv("VERIF_TRACE_OUT"); p != "" {
			fh, err := os.Create(p)
			if err != nil {
				t.Fatal(err)
			}
			enc := json.NewEncoder(fh)
			for _, tr := range rs.traces {
				if err := enc.Encode(tr); err != nil {
					t.Fatal(err)
				}
			}
			fh.Close()
		}
		if err := out.Write(); err != nil {
			t.Fatal(err)
		}
	}()
	var saltEnv int64
	fmt.Sscan(os.Getenv("VERIF_C35_SALT"), &saltEnv)
	rng := vutil.Rand(35 + saltEnv)
	nReal, nRaw := 4, 40
	if v := os.Getenv("VERIF_C35_REAL"); v != "" {
		fmt.Sscan(v, &nReal)
	}
	if v := os.Getenv("VERIF_C35_RAW"); v != "" {
		fmt.Sscan(v, &nRaw)
	}
	code2s := []uint32{2, 3, 7, 0xfffffffe}
	for i := 0; i < nReal; i++ {
		pl := realPlan{Seed: rng.Int63(), Chans: 1 + rng.Intn(3), Big: i%2 == 0, Gated: i%4 < 2 || rng.Intn(2) == 0,
			Code2: code2s[rng.Intn(len(code2s))], MaxWrite: 200000}
		synctest.Test(t, func(t *testing.T) { runRealPair(rs, pl) })
	}
	nHeld := 2
	if v := os.Getenv("VERIF_C35_HELD"); v != "" {
		fmt.Sscan(v, &nHeld)
	}
	for i := 0; i < nHeld; i++ {
		pl := heldPlan{Seed: rng.Int63(), Dir: i % 2, Extra: 100000 + rng.Intn(400000), Holds: 2 + rng.Intn(3)}
		synctest.Test(t, func(t *testing.T) { runHeldAdjust(rs, pl) })
	}
	for i := 0; i < nRaw; i++ {
		pl := rawPlan{Seed: rng.Int63(), PeerOpens: rng.Intn(2) == 0, MaxPkt: 9 + uint32(rng.Intn(56)), Code2: code2s[rng.Intn(len(code2s))],
			Gated: rng.Intn(2) == 0}
		switch rng.Intn(4) {
		case 0:
			pl.Win = 0
		case 1:
			pl.Win = 1 + uint32(rng.Intn(20))
		default:
			pl.Win = uint32(rng.Intn(4000))
		}
		for s := 0; s < 3; s++ {
			if rng.Intn(4) != 0 {
				pl.ToRaw[s] = rng.Intn(6000)
			}
		}
		switch i % 5 {
		case 0: // fill the real receiver's 2 MiB window completely, mostly with discarded extended data
			pl.FromRaw = [3]int{rng.Intn(100000), rng.Intn(100000), (2 << 20) + rng.Intn(1<<20)}
		case 1:
			pl.FromRaw = [3]int{(2 << 20) + rng.Intn(1<<19), rng.Intn(1 << 19), rng.Intn(1000)}
		default:
			for s := 0; s < 3; s++ {
				if rng.Intn(3) != 0 {
					pl.FromRaw[s] = rng.Intn(200000)
				}
			}
		}
		if i%5 == 2 {
			// several writers asleep on a zero window, then ONE large grant: every sleeper must be woken
			pl.Win, pl.Gated, pl.Single, pl.Grant = 0, true, true, int64(1000+rng.Intn(100000))
			for s := 0; s < 3; s++ {
				pl.ToRaw[s] = 1 + rng.Intn(int(pl.MaxPkt))
			}
		}
		synctest.Test(t, func(t *testing.T) { runRawPeer(rs, pl) })
	}
}
