// Package c25 holds the conformance harness for C25/C26 (SSH binary packet protocol).
//
// ref.go is an INDEPENDENT implementation of the wire format of every cipher x MAC mode, written
// from the specifications (RFC 4253 6, RFC 4344, RFC 4345, RFC 5647, OpenSSH PROTOCOL 1.6 for the
// -etm MACs, PROTOCOL.chacha20poly1305) on top of the Go standard library (crypto/aes, des, rc4,
// cipher, hmac, sha1/256/512), golang.org/x/crypto/chacha20 and a math/big Poly1305.  It shares no
// code with golang.org/x/crypto/ssh; the mode parameters come from the TLA+ model's tables.
package c25

import (
	"crypto/aes"
	"crypto/cipher"
	"crypto/des"
	"crypto/hmac"
	"crypto/rc4"
	"crypto/sha1"
	"crypto/sha256"
	"crypto/sha512"
	"encoding/binary"
	"errors"
	"fmt"
	"hash"
	"math/big"

	"golang.org/x/crypto/chacha20"
)

// Mode is a mode record of spec/SSHPacket.tla (ModeOf / NoneMode).
type Mode struct {
	Cipher string `json:"cipher"`
	Mac    string `json:"mac"`
	Bs     int    `json:"bs"`
	Class  string `json:"class"`
	Aad    int    `json:"aad"`
	Tag    int    `json:"tag"`
	Auth   bool   `json:"auth"`
}

func (m Mode) String() string { return m.Cipher + "+" + m.Mac }

// CipherRow / MacRow are rows of CipherTable / MacTable of the model.
type CipherRow struct {
	Name string `json:"name"`
	Kind string `json:"kind"`
	Bs   int    `json:"bs"`
	Key  int    `json:"key"`
	Iv   int    `json:"iv"`
	Skip int    `json:"skip"`
}
type MacRow struct {
	Name string `json:"name"`
	Etm  bool   `json:"etm"`
	Tag  int    `json:"tag"`
	Key  int    `json:"key"`
	Hash string `json:"hash"`
}

// The harness' own copy of the tables (checked three ways by TestTable: model = this = package).
var refCiphers = map[string]CipherRow{
	"aes128-ctr":                    {"aes128-ctr", "stream", 16, 16, 16, 0},
	"aes192-ctr":                    {"aes192-ctr", "stream", 16, 24, 16, 0},
	"aes256-ctr":                    {"aes256-ctr", "stream", 16, 32, 16, 0},
	"arcfour":                       {"arcfour", "stream", 8, 16, 0, 0},
	"arcfour128":                    {"arcfour128", "stream", 8, 16, 0, 1536},
	"arcfour256":                    {"arcfour256", "stream", 8, 32, 0, 1536},
	"aes128-gcm@openssh.com":        {"aes128-gcm@openssh.com", "gcm", 16, 16, 12, 0},
	"aes256-gcm@openssh.com":        {"aes256-gcm@openssh.com", "gcm", 16, 32, 12, 0},
	"chacha20-poly1305@openssh.com": {"chacha20-poly1305@openssh.com", "chachapoly", 8, 64, 0, 0},
	"aes128-cbc":                    {"aes128-cbc", "cbc", 16, 16, 16, 0},
	"3des-cbc":                      {"3des-cbc", "cbc", 8, 24, 8, 0},
}
var refMacs = map[string]MacRow{
	"hmac-sha2-256-etm@openssh.com": {"hmac-sha2-256-etm@openssh.com", true, 32, 32, "sha256"},
	"hmac-sha2-512-etm@openssh.com": {"hmac-sha2-512-etm@openssh.com", true, 64, 64, "sha512"},
	"hmac-sha2-256":                 {"hmac-sha2-256", false, 32, 32, "sha256"},
	"hmac-sha2-512":                 {"hmac-sha2-512", false, 64, 64, "sha512"},
	"hmac-sha1":                     {"hmac-sha1", false, 20, 20, "sha1"},
	"hmac-sha1-96":                  {"hmac-sha1-96", false, 12, 20, "sha1"},
}

// Keys is the key material of one direction.
type Keys struct{ Key, IV, MacKey []byte }

// KeySizes returns the sizes of key, iv and MAC key a mode needs.
func KeySizes(m Mode) (k, iv, mk int) {
	if m.Class == "None" {
		return 0, 0, 0
	}
	c := refCiphers[m.Cipher]
	return c.Key, c.Iv, refMacs[m.Mac].Key
}

// Ref is the independent codec of one direction (stateful like the real one: key stream
// position, CBC chain, GCM invocation counter).
type Ref struct {
	m      Mode
	stream cipher.Stream
	enc    cipher.BlockMode
	dec    cipher.BlockMode
	aead   cipher.AEAD
	nonce  []byte // GCM: 4 fixed || 8 counter
	k1, k2 []byte // chacha20-poly1305: K_1 (length), K_2 (main)
	mkey   []byte
	mhash  func() hash.Hash
}

func NewRef(m Mode, k Keys) (*Ref, error) {
	r := &Ref{m: m}
	if m.Class == "None" {
		return r, nil
	}
	c, ok := refCiphers[m.Cipher]
	if !ok {
		return nil, fmt.Errorf("ref: no cipher %q", m.Cipher)
	}
	if len(k.Key) != c.Key || len(k.IV) != c.Iv {
		return nil, fmt.Errorf("ref: key/iv size")
	}
	switch c.Kind {
	case "stream":
		if c.Name[:3] == "aes" {
			b, err := aes.NewCipher(k.Key)
			if err != nil {
				return nil, err
			}
			r.stream = cipher.NewCTR(b, k.IV) // RFC 4344 4: SDCTR, counter = IV as big-endian integer
		} else {
			s, err := rc4.NewCipher(k.Key)
			if err != nil {
				return nil, err
			}
			if c.Skip > 0 { // RFC 4345: discard the first 1536 bytes of key stream
				d := make([]byte, c.Skip)
				s.XORKeyStream(d, d)
			}
			r.stream = s
		}
	case "cbc":
		var b cipher.Block
		var err error
		if c.Name == "3des-cbc" {
			b, err = des.NewTripleDESCipher(k.Key)
		} else {
			b, err = aes.NewCipher(k.Key)
		}
		if err != nil {
			return nil, err
		}
		r.enc = cipher.NewCBCEncrypter(b, k.IV)
		r.dec = cipher.NewCBCDecrypter(b, k.IV)
	case "gcm":
		b, err := aes.NewCipher(k.Key)
		if err != nil {
			return nil, err
		}
		r.aead, err = cipher.NewGCM(b)
		if err != nil {
			return nil, err
		}
		r.nonce = append([]byte{}, k.IV...)
	case "chachapoly":
		r.k2 = append([]byte{}, k.Key[:32]...) // "the first 256 bits constitute K_2"
		r.k1 = append([]byte{}, k.Key[32:]...)
	}
	if c.Kind == "stream" || c.Kind == "cbc" {
		mr, ok := refMacs[m.Mac]
		if !ok {
			return nil, fmt.Errorf("ref: no MAC %q", m.Mac)
		}
		if len(k.MacKey) != mr.Key {
			return nil, fmt.Errorf("ref: mac key size")
		}
		r.mkey = k.MacKey
		switch mr.Hash {
		case "sha1":
			r.mhash = sha1.New
		case "sha256":
			r.mhash = sha256.New
		case "sha512":
			r.mhash = sha512.New
		}
	}
	return r, nil
}

func (r *Ref) mac(seq uint32, parts ...[]byte) []byte {
	h := hmac.New(r.mhash, r.mkey)
	var s [4]byte
	binary.BigEndian.PutUint32(s[:], seq)
	h.Write(s[:])
	for _, p := range parts {
		h.Write(p)
	}
	return h.Sum(nil)[:r.m.Tag] // hmac-sha1-96: first 96 bits (RFC 4253 6.4)
}

func (r *Ref) incCounter() { // RFC 5647 7.1: 64-bit invocation counter, incremented after each packet
	binary.BigEndian.PutUint64(r.nonce[4:], binary.BigEndian.Uint64(r.nonce[4:])+1)
}

func chachaNonce(seq uint32) []byte {
	n := make([]byte, 12) // IETF layout: 32-bit counter || 96-bit nonce; here nonce = 0^32 || uint64 BE seq
	binary.BigEndian.PutUint64(n[4:], uint64(seq))
	return n
}

func chachaXOR(key, nonce []byte, counter uint32, dst, src []byte) {
	c, err := chacha20.NewUnauthenticatedCipher(key, nonce)
	if err != nil {
		panic(err)
	}
	c.SetCounter(counter)
	c.XORKeyStream(dst, src)
}

// Decoded is what the independent decoder recovered from one packet.
type Decoded struct {
	Consumed int
	Len      int // packet_length field
	Pad      int
	Payload  []byte
	TagOK    bool
	Nonce    []byte // GCM: nonce used
}

var errShort = errors.New("ref: stream shorter than the declared packet")

// Decode decodes the packet at the start of b as the standards define the mode.
func (r *Ref) Decode(seq uint32, b []byte) (d Decoded, err error) {
	m := r.m
	tag := m.Tag
	need := func(n int) error {
		if n < 0 || len(b) < n {
			return errShort
		}
		return nil
	}
	finish := func(pt []byte, plen int) error { // pt = padding_length || payload || padding
		d.Len = plen
		d.Consumed = 4 + plen + tag
		if plen < 1 || len(pt) != plen {
			return fmt.Errorf("ref: packet_length %d", plen)
		}
		d.Pad = int(pt[0])
		if plen-1-d.Pad < 0 {
			return fmt.Errorf("ref: padding_length %d exceeds packet_length %d", d.Pad, plen)
		}
		d.Payload = pt[1 : plen-d.Pad]
		return nil
	}
	if err = need(4); err != nil {
		return
	}
	switch m.Class {
	case "None":
		plen := int(binary.BigEndian.Uint32(b))
		if err = need(4 + plen); err != nil {
			return
		}
		d.TagOK = true
		err = finish(b[4:4+plen], plen)
	case "StreamEaM":
		hdr := make([]byte, 4)
		r.stream.XORKeyStream(hdr, b[:4])
		plen := int(binary.BigEndian.Uint32(hdr))
		if plen > 1<<24 {
			return d, fmt.Errorf("ref: decrypted packet_length %d implausible", plen)
		}
		if err = need(4 + plen + tag); err != nil {
			return
		}
		pt := make([]byte, plen)
		r.stream.XORKeyStream(pt, b[4:4+plen])
		d.TagOK = hmac.Equal(r.mac(seq, hdr, pt), b[4+plen:4+plen+tag])
		err = finish(pt, plen)
	case "StreamEtM":
		plen := int(binary.BigEndian.Uint32(b))
		if plen > 1<<24 {
			return d, fmt.Errorf("ref: clear packet_length %d implausible", plen)
		}
		if err = need(4 + plen + tag); err != nil {
			return
		}
		d.TagOK = hmac.Equal(r.mac(seq, b[:4+plen]), b[4+plen:4+plen+tag])
		pt := make([]byte, plen)
		r.stream.XORKeyStream(pt, b[4:4+plen])
		err = finish(pt, plen)
	case "GCM":
		plen := int(binary.BigEndian.Uint32(b))
		if plen > 1<<24 {
			return d, fmt.Errorf("ref: clear packet_length %d implausible", plen)
		}
		if err = need(4 + plen + tag); err != nil {
			return
		}
		d.Nonce = append([]byte{}, r.nonce...)
		pt, e := r.aead.Open(nil, r.nonce, b[4:4+plen+tag], b[:4])
		r.incCounter()
		if e != nil {
			d.Len, d.Consumed = plen, 4+plen+tag
			return d, nil // TagOK false
		}
		d.TagOK = true
		err = finish(pt, plen)
	case "ChaChaPoly":
		nonce := chachaNonce(seq)
		hdr := make([]byte, 4)
		chachaXOR(r.k1, nonce, 0, hdr, b[:4])
		plen := int(binary.BigEndian.Uint32(hdr))
		if plen > 1<<24 {
			return d, fmt.Errorf("ref: decrypted packet_length %d implausible", plen)
		}
		if err = need(4 + plen + tag); err != nil {
			return
		}
		pk := make([]byte, 32)
		chachaXOR(r.k2, nonce, 0, pk, pk)
		d.TagOK = hmac.Equal(Poly1305(pk, b[:4+plen]), b[4+plen:4+plen+16])
		pt := make([]byte, plen)
		chachaXOR(r.k2, nonce, 1, pt, b[4:4+plen])
		err = finish(pt, plen)
	case "CBC":
		bs := m.Bs
		if err = need(bs); err != nil {
			return
		}
		first := make([]byte, bs)
		r.dec.CryptBlocks(first, b[:bs])
		plen := int(binary.BigEndian.Uint32(first))
		if plen > 1<<24 || (4+plen)%bs != 0 || 4+plen < bs {
			return d, fmt.Errorf("ref: decrypted packet_length %d implausible", plen)
		}
		if err = need(4 + plen + tag); err != nil {
			return
		}
		pt := make([]byte, 4+plen)
		copy(pt, first)
		r.dec.CryptBlocks(pt[bs:], b[bs:4+plen])
		d.TagOK = hmac.Equal(r.mac(seq, pt), b[4+plen:4+plen+tag])
		err = finish(pt[4:], plen)
	case "CBCEtM": // OpenSSH PROTOCOL 1.6: length in clear, MAC over seq || length || ciphertext
		bs := m.Bs
		plen := int(binary.BigEndian.Uint32(b))
		if plen > 1<<24 || plen%bs != 0 || plen < bs {
			return d, fmt.Errorf("ref: clear packet_length %d implausible for %s", plen, m)
		}
		if err = need(4 + plen + tag); err != nil {
			return
		}
		d.TagOK = hmac.Equal(r.mac(seq, b[:4+plen]), b[4+plen:4+plen+tag])
		pt := make([]byte, plen)
		r.dec.CryptBlocks(pt, b[4:4+plen])
		err = finish(pt, plen)
	default:
		err = fmt.Errorf("ref: class %q", m.Class)
	}
	return
}

// Encode produces the wire bytes of one packet with the given padding, as the standards define
// the mode.
func (r *Ref) Encode(seq uint32, payload, padding []byte) []byte {
	m := r.m
	plen := 1 + len(payload) + len(padding)
	body := make([]byte, 0, 4+plen+m.Tag)
	body = binary.BigEndian.AppendUint32(body, uint32(plen))
	body = append(body, byte(len(padding)))
	body = append(body, payload...)
	body = append(body, padding...)
	return r.EncodeRaw(seq, body)
}

// EncodeRaw encrypts and authenticates plain = packet_length || rest, whatever it says.
func (r *Ref) EncodeRaw(seq uint32, plain []byte) []byte {
	m := r.m
	out := make([]byte, len(plain))
	switch m.Class {
	case "None":
		copy(out, plain)
	case "StreamEaM":
		tag := r.mac(seq, plain)
		r.stream.XORKeyStream(out, plain)
		out = append(out, tag...)
	case "StreamEtM":
		copy(out, plain[:4])
		r.stream.XORKeyStream(out[4:], plain[4:])
		out = append(out, r.mac(seq, out)...)
	case "GCM":
		out = append(out[:0], plain[:4]...)
		out = r.aead.Seal(out, r.nonce, plain[4:], plain[:4])
		r.incCounter()
	case "ChaChaPoly":
		nonce := chachaNonce(seq)
		chachaXOR(r.k1, nonce, 0, out[:4], plain[:4])
		chachaXOR(r.k2, nonce, 1, out[4:], plain[4:])
		pk := make([]byte, 32)
		chachaXOR(r.k2, nonce, 0, pk, pk)
		out = append(out, Poly1305(pk, out)...)
	case "CBC":
		tag := r.mac(seq, plain)
		n := len(plain) / m.Bs * m.Bs
		r.enc.CryptBlocks(out[:n], plain[:n])
		copy(out[n:], plain[n:])
		out = append(out, tag...)
	case "CBCEtM":
		copy(out, plain[:4])
		n := (len(plain) - 4) / m.Bs * m.Bs
		r.enc.CryptBlocks(out[4:4+n], plain[4:4+n])
		copy(out[4+n:], plain[4+n:])
		out = append(out, r.mac(seq, out)...)
	}
	return out
}

// Align is the alignment the standards require of 4 + packet_length - aad.
func Align(m Mode) int {
	if m.Bs > 8 {
		return m.Bs
	}
	return 8
}

// Poly1305 (RFC 8439 2.5) with math/big.
func Poly1305(key, msg []byte) []byte {
	le := func(b []byte) *big.Int {
		r := make([]byte, len(b))
		for i := range b {
			r[len(b)-1-i] = b[i]
		}
		return new(big.Int).SetBytes(r)
	}
	rb := append([]byte{}, key[:16]...)
	rb[3] &= 15
	rb[7] &= 15
	rb[11] &= 15
	rb[15] &= 15
	rb[4] &= 252
	rb[8] &= 252
	rb[12] &= 252
	rr := le(rb)
	s := le(key[16:32])
	p := new(big.Int).Sub(new(big.Int).Lsh(big.NewInt(1), 130), big.NewInt(5))
	acc := new(big.Int)
	for len(msg) > 0 {
		n := 16
		if len(msg) < n {
			n = len(msg)
		}
		blk := append(append([]byte{}, msg[:n]...), 1)
		acc.Add(acc, le(blk))
		acc.Mul(acc, rr)
		acc.Mod(acc, p)
		msg = msg[n:]
	}
	acc.Add(acc, s)
	b := acc.Bytes()
	out := make([]byte, 16)
	for i := 0; i < 16 && i < len(b); i++ {
		out[i] = b[len(b)-1-i]
	}
	return out
}
