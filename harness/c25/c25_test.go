// Binding R for C25 and C26: behaviours enumerated by TLC from spec/SSHPacket.tla are replayed on
// the real packet ciphers of golang.org/x/crypto/ssh (through ssh/verif_cipher.go) and the bytes
// they produce are decoded by the independent implementation in ref.go.
package c25

import (
	"bufio"
	"bytes"
	"crypto"
	_ "crypto/sha1"
	_ "crypto/sha256"
	_ "crypto/sha512"
	"encoding/binary"
	"encoding/json"
	"fmt"
	"io"
	"math/rand"
	"os"
	"sort"
	"strconv"
	"testing"

	"golang.org/x/crypto/ssh"
	"verif/harness/vutil"
)

const maxPacket = 262144 // the value the model uses; TestTable compares it with the package's constant

type pktJ struct {
	ID  int   `json:"id"`
	N   int   `json:"n"`
	Pad int   `json:"pad"`
	Seq int   `json:"seq"`
	Ctr []int `json:"ctr"`
}
type opJ struct {
	Op string `json:"op"`
	I  int    `json:"i"`
	J  int    `json:"j"`
	F  string `json:"f"`
}
type caseJ struct {
	Mode      Mode   `json:"mode"`
	StartSeq  int    `json:"startSeq"`
	StartCtr  []int  `json:"startCtr"`
	Pkts      []pktJ `json:"pkts"`
	Ops       []opJ  `json:"ops"`
	Delivered []int  `json:"delivered"`
	SeqW      int    `json:"seqW"`
	SeqR      int    `json:"seqR"`
	SeqMod    int    `json:"seqMod"`
	Fin       bool   `json:"fin"`
	// table lines
	Ciphers []CipherRow `json:"ciphers"`
	Macs    []MacRow    `json:"macs"`
	MaxPkt  int         `json:"maxPacket"`
}

func (c *caseJ) sizes() []int {
	s := make([]int, len(c.Pkts))
	for i, p := range c.Pkts {
		s[i] = p.N
	}
	return s
}

// realStart maps the model's scaled start sequence number to the real one: 0 -> 0, otherwise
// the same distance below 2^32 as the model value is below SeqMod.
func (c *caseJ) realStart() uint32 {
	if c.StartSeq == 0 {
		return 0
	}
	return uint32(0) - uint32(c.SeqMod-c.StartSeq)
}

func mkKeys(m Mode, rng *rand.Rand, startCtr []int) Keys {
	k, iv, mk := KeySizes(m)
	ks := Keys{Key: make([]byte, k), IV: make([]byte, iv), MacKey: make([]byte, mk)}
	rng.Read(ks.Key)
	rng.Read(ks.IV)
	rng.Read(ks.MacKey)
	if m.Class == "GCM" && len(startCtr) == 8 {
		for i, v := range startCtr {
			ks.IV[4+i] = byte(v)
		}
	}
	return ks
}

func newReal(m Mode, k Keys) (*ssh.VerifCipherPacket, error) {
	if m.Class == "None" {
		return ssh.VerifCipherNone(), nil
	}
	return ssh.VerifCipherNew(m.Cipher, m.Mac, k.Key, k.IV, k.MacKey)
}

func mkPayload(rng *rand.Rand, n int) []byte {
	p := make([]byte, n)
	rng.Read(p)
	if n > 0 {
		p[0] = 94 // SSH_MSG_CHANNEL_DATA: connectionState.readPacket interprets 1 and 21
	}
	return p
}

// writeAll writes the payloads with the real writer wrapped in a real connectionState starting at
// start; returns the bytes of each packet.
func writeAll(m Mode, k Keys, start uint32, payloads [][]byte, rng *rand.Rand) (pk [][]byte, seqAfter []uint32, err error) {
	w, err := newReal(m, k)
	if err != nil {
		return nil, nil, err
	}
	wc := ssh.VerifCipherNewConn(w, start)
	var buf bytes.Buffer
	bw := bufio.NewWriter(&buf)
	for _, p := range payloads {
		before := buf.Len()
		if err := wc.WritePacket(bw, rng, append([]byte{}, p...)); err != nil {
			return pk, seqAfter, err
		}
		pk = append(pk, append([]byte{}, buf.Bytes()[before:]...))
		seqAfter = append(seqAfter, wc.SeqNum())
	}
	return pk, seqAfter, nil
}

func guard(f func()) (panicked any) {
	defer func() { panicked = recover() }()
	f()
	return nil
}

func forCases(t *testing.T, f func(c *caseJ, line []byte)) {
	err := vutil.ReadNDJSON(vutil.Env("VERIF_CASES", ""), func(line []byte) error {
		var c caseJ
		if err := json.Unmarshal(line, &c); err != nil {
			return err
		}
		f(&c, line)
		return nil
	})
	if err != nil {
		t.Fatal(err)
	}
}

func finish(t *testing.T, out *vutil.Out) {
	if err := out.Write(); err != nil {
		t.Fatal(err)
	}
	if len(out.Violations) > 0 {
		t.Errorf("%d violations, first: %v", len(out.Violations), out.Violations[0]["what"])
	}
}

func allModes() []Mode {
	var ms []Mode
	var cn, mn []string
	for n := range refCiphers {
		cn = append(cn, n)
	}
	for n := range refMacs {
		mn = append(mn, n)
	}
	sort.Strings(cn)
	sort.Strings(mn)
	for _, c := range cn {
		cr := refCiphers[c]
		switch cr.Kind {
		case "gcm":
			ms = append(ms, Mode{c, "", cr.Bs, "GCM", 4, 16, true})
		case "chachapoly":
			ms = append(ms, Mode{c, "", cr.Bs, "ChaChaPoly", 4, 16, true})
		default:
			for _, mm := range mn {
				mr := refMacs[mm]
				cl, aad := "StreamEaM", 0
				if cr.Kind == "cbc" {
					cl = "CBC"
				}
				if mr.Etm {
					cl, aad = map[string]string{"stream": "StreamEtM", "cbc": "CBCEtM"}[cr.Kind], 4
				}
				ms = append(ms, Mode{c, mm, cr.Bs, cl, aad, mr.Tag, true})
			}
		}
	}
	ms = append(ms, Mode{"none", "", 8, "None", 0, 0, false})
	return ms
}

// ---------------------------------------------------------------------------------------------
// TestTable: the model's tables, the harness' tables and the package's registrations agree
// (a name the model does not know is an infrastructure error, reported in extra.table_mismatch).
func doTable(t *testing.T, x *ctxT) {
	out := x.out
	var mism []string
	seen := false
	forCases(t, func(c *caseJ, _ []byte) {
		if c.Ciphers == nil || seen {
			return
		}
		seen = true
		if c.MaxPkt != maxPacket || ssh.VerifCipherMaxPacket != maxPacket {
			mism = append(mism, fmt.Sprintf("maxPacket model=%d package=%d harness=%d", c.MaxPkt, ssh.VerifCipherMaxPacket, maxPacket))
		}
		mc := map[string]bool{}
		for _, r := range c.Ciphers {
			mc[r.Name] = true
			if refCiphers[r.Name] != r {
				mism = append(mism, "cipher row differs model/harness: "+r.Name)
			}
			ks, ivs, aead, ok := ssh.VerifCipherInfo(r.Name)
			if !ok {
				mism = append(mism, "cipher in model but not registered: "+r.Name)
				continue
			}
			if ks != r.Key || ivs != r.Iv || aead != (r.Kind == "gcm" || r.Kind == "chachapoly") {
				mism = append(mism, fmt.Sprintf("cipher %s: package key=%d iv=%d aead=%v, model key=%d iv=%d kind=%s", r.Name, ks, ivs, aead, r.Key, r.Iv, r.Kind))
			}
		}
		for _, n := range ssh.VerifCipherNames() {
			if !mc[n] {
				mism = append(mism, "cipher registered but not in the model's table: "+n)
			}
		}
		if len(c.Ciphers) != len(refCiphers) {
			mism = append(mism, "cipher table sizes differ model/harness")
		}
		mm := map[string]bool{}
		for _, r := range c.Macs {
			mm[r.Name] = true
			if refMacs[r.Name] != r {
				mism = append(mism, "mac row differs model/harness: "+r.Name)
			}
			ks, etm, ok := ssh.VerifCipherMACInfo(r.Name)
			if !ok {
				mism = append(mism, "MAC in model but not registered: "+r.Name)
				continue
			}
			if ks != r.Key || etm != r.Etm {
				mism = append(mism, fmt.Sprintf("mac %s: package key=%d etm=%v, model key=%d etm=%v", r.Name, ks, etm, r.Key, r.Etm))
			}
		}
		for _, n := range ssh.VerifCipherMACNames() {
			if !mm[n] {
				mism = append(mism, "MAC registered but not in the model's table: "+n)
			}
		}
		if len(c.Macs) != len(refMacs) {
			mism = append(mism, "mac table sizes differ model/harness")
		}
		out.Case("table")
	})
	if !seen {
		mism = append(mism, "no table line in the cases")
	}
	out.Extra["table_mismatch"] = mism
	out.Extra["modes"] = len(allModes())
}

// ---------------------------------------------------------------------------------------------
// checkWritten decodes packet bytes independently and compares with the property's framing rule
// and the model's prediction.  Returns the decoded packet.
type ctxT struct {
	total   int             // violations recorded so far (all signatures)
	overBad map[string]bool // modes whose reader mishandled a declared length > maxPacket
	out     *vutil.Out
	t       *testing.T
	info    map[string]int
	nviol   map[string]int
}

// viol records a violation; at most two per signature are kept in full (vutil keeps 50 in all),
// the number per signature goes to extra.violation_counts.
func (x *ctxT) viol(sig, what string, detail map[string]any) {
	if x.nviol == nil {
		x.nviol = map[string]int{}
	}
	x.nviol[sig]++
	x.total++
	x.out.Extra["violation_counts"] = x.nviol
	if x.nviol[sig] <= 2 {
		x.out.Violation(sig, what, detail)
		x.t.Logf("VIOLATION %s: %s %v", sig, what, detail)
	}
}

func (x *ctxT) checkWritten(m Mode, ref *Ref, diag *Ref, seq uint32, pkt, payload []byte, model *pktJ, det map[string]any) (Decoded, bool) {
	d, err := ref.Decode(seq, pkt)
	var dd Decoded
	var derr error
	if diag != nil {
		dd, derr = diag.Decode(seq, pkt)
	}
	if err != nil || !d.TagOK || d.Consumed != len(pkt) {
		// the real writer's untampered output fails under the standards: a C25 verdict whatever the model says
		sig := "independent-decode:framing:" + m.String()
		if err == nil && !d.TagOK {
			sig = "independent-decode:mac:" + m.String()
		}
		what := fmt.Sprintf("%s: packet does not decode under the independent implementation of the standards (err=%v tagOK=%v consumed=%d of %d)", m, err, d.TagOK, d.Consumed, len(pkt))
		// diagnose CBC x etm: is it the plain RFC 4253 encrypt-and-MAC layout keyed with the -etm MAC's key?
		if diag != nil && derr == nil && dd.TagOK && dd.Consumed == len(pkt) && bytes.Equal(dd.Payload, payload) {
			sig = "cbc-etm-written-as-encrypt-and-mac"
			what = fmt.Sprintf("%s: cbcCipher ignores the EtM flag: the packet is RFC 4253 encrypt-and-MAC (length encrypted, MAC over plaintext), not the OpenSSH -etm layout (length in clear, MAC over ciphertext)", m)
		}
		x.viol(sig, what, det)
		return d, false
	}
	ok := true
	if !bytes.Equal(d.Payload, payload) {
		x.viol("framing-payload:"+m.Class, fmt.Sprintf("%s: independently decoded payload differs from the written one (len %d vs %d)", m, len(d.Payload), len(payload)), det)
		ok = false
	}
	if d.Pad < 4 {
		x.viol("framing-pad<4:"+m.Class, fmt.Sprintf("%s: padding_length %d < 4", m, d.Pad), det)
		ok = false
	}
	if (4+d.Len-m.Aad)%Align(m) != 0 {
		x.viol("framing-alignment:"+m.Class, fmt.Sprintf("%s: 4+packet_length-%d = %d is not a multiple of %d", m, m.Aad, 4+d.Len-m.Aad, Align(m)), det)
		ok = false
	}
	if d.Len != 1+len(payload)+d.Pad {
		x.viol("framing-length:"+m.Class, fmt.Sprintf("%s: packet_length %d != 1+%d+%d", m, d.Len, len(payload), d.Pad), det)
		ok = false
	}
	if model != nil && d.Pad != model.Pad {
		x.info["pad_differs_from_model"]++ // deterministic-but-unspecified detail: informational only
	}
	return d, ok
}

// TestRoundTrip (C25): real writer -> independent decode, real writer -> real reader.
func doRoundTrip(t *testing.T, x *ctxT) {
	out := x.out
	ncase := 0
	classes := map[string]int{}
	forCases(t, func(c *caseJ, line []byte) {
		if c.Ciphers != nil || len(c.Pkts) == 0 {
			return
		}
		ncase++
		violBefore := x.total
		m := c.Mode
		rng := vutil.Rand(int64(ncase))
		k := mkKeys(m, rng, c.StartCtr)
		start := c.realStart()
		var payloads [][]byte
		for _, p := range c.Pkts {
			payloads = append(payloads, mkPayload(rng, p.N))
		}
		det := func(i int) map[string]any {
			return map[string]any{"mode": m, "sizes": c.sizes(), "startSeq": start, "packet": i + 1, "key": fmt.Sprintf("%x", k.Key), "iv": fmt.Sprintf("%x", k.IV), "macKey": fmt.Sprintf("%x", k.MacKey)}
		}
		out.Case(fmt.Sprintf("%s|%v|%d|%v", m, c.sizes(), c.StartSeq, c.StartCtr))
		classes[m.Class]++
		if ncase%977 == 1 {
			out.Sample(map[string]any{"mode": m.String(), "sizes": c.sizes(), "startSeq": start})
		}
		var pk [][]byte
		var seqs []uint32
		var werr error
		if p := guard(func() { pk, seqs, werr = writeAll(m, k, start, payloads, rng) }); p != nil {
			x.viol("panic-write:"+m.Class, fmt.Sprintf("%s: writer panicked: %v", m, p), det(len(pk)))
			return
		}
		if werr != nil {
			x.viol("write-error:"+m.Class, fmt.Sprintf("%s: writer refused a payload of %d <= maxPacket bytes: %v", m, c.Pkts[len(pk)].N, werr), det(len(pk)))
			return
		}
		// (ii) independent decode of what the writer produced
		ref, err := NewRef(m, k)
		if err != nil {
			t.Fatalf("ref: %v", err)
		}
		var diag *Ref
		if m.Class == "CBCEtM" {
			m2 := m
			m2.Class, m2.Aad = "CBC", 0
			diag, _ = NewRef(m2, k)
		}
		var decs []Decoded
		for i := range pk {
			seq := start + uint32(i)
			if int(seq%uint32(c.SeqMod)) != c.Pkts[i].Seq {
				t.Fatalf("harness: sequence number map broken: real %d model %d", seq, c.Pkts[i].Seq)
			}
			if seqs[i] != seq+1 {
				x.viol("seq-writer:"+m.Class, fmt.Sprintf("%s: writer sequence number after packet %d is %d, want %d", m, i+1, seqs[i], seq+1), det(i))
			}
			d, ok := x.checkWritten(m, ref, diag, seq, pk[i], payloads[i], &c.Pkts[i], det(i))
			decs = append(decs, d)
			if m.Class == "GCM" && ok {
				want := append([]byte{}, k.IV...)
				binary.BigEndian.PutUint64(want[4:], binary.BigEndian.Uint64(k.IV[4:])+uint64(i))
				mod := want[:4:4]
				for _, v := range c.Pkts[i].Ctr {
					mod = append(mod, byte(v))
				}
				if !bytes.Equal(d.Nonce, want) || !bytes.Equal(mod, want) {
					t.Fatalf("harness/model: GCM nonce bookkeeping differs: ref %x want %x model %x", d.Nonce, want, mod)
				}
			}
			if !ok {
				break
			}
		}
		// (i) real reader keyed like the writer
		r, err := newReal(m, k)
		if err != nil {
			t.Fatalf("reader: %v", err)
		}
		rc := ssh.VerifCipherNewConn(r, start)
		br := bufio.NewReaderSize(bytes.NewReader(bytes.Join(pk, nil)), 4096)
		delivered := 0
		for i := range pk {
			var got []byte
			var rerr error
			if p := guard(func() { got, rerr = rc.ReadPacket(br) }); p != nil {
				x.viol("panic-read:"+m.Class, fmt.Sprintf("%s: reader panicked: %v", m, p), det(i))
				break
			}
			if rerr != nil {
				declared := 1 + c.Pkts[i].N + c.Pkts[i].Pad
				if i < len(decs) && decs[i].Len > 0 {
					declared = decs[i].Len
				}
				dd := det(i)
				dd["error"] = rerr.Error()
				dd["packet_length"] = declared
				if declared > maxPacket && c.Pkts[i].N <= maxPacket {
					x.viol("roundtrip-packet_length>maxPacket", fmt.Sprintf("%s: payload of %d bytes (<= maxPacket) is written with packet_length %d, which the package's own reader rejects: %v", m, c.Pkts[i].N, declared, rerr), dd)
				} else if m.Class == "CBCEtM" {
					x.viol("roundtrip-rejected:"+m.String(), fmt.Sprintf("%s: reader rejected an untampered packet: %v", m, rerr), dd)
				} else {
					x.viol("roundtrip-rejected:"+m.String(), fmt.Sprintf("%s: a reader keyed like the writer rejected an untampered packet (%d bytes payload, packet %d of %v): %v", m, c.Pkts[i].N, i+1, c.sizes(), rerr), dd)
				}
				break
			}
			if !bytes.Equal(got, payloads[i]) {
				x.viol("roundtrip-payload:"+m.Class, fmt.Sprintf("%s: reader returned a payload different from the %d-th written", m, i+1), det(i))
				break
			}
			delivered++
			if rc.SeqNum() != start+uint32(i)+1 {
				x.viol("seq-reader:"+m.Class, fmt.Sprintf("%s: reader sequence number after packet %d is %d, want %d", m, i+1, rc.SeqNum(), start+uint32(i)+1), det(i))
			}
		}
		// Infrastructure only: the real code wrote, decoded and round-tripped this case without any
		// violation, yet the model predicted another number of deliveries.  Whenever the real code
		// misbehaved (a violation above), the disagreement with the model is a consequence, not a model error.
		if c.Fin && delivered != len(c.Delivered) && x.total == violBefore {
			x.info["model_delivery_mismatch"]++
		}
		if delivered == len(pk) {
			var rerr error
			var got []byte
			guard(func() { got, rerr = rc.ReadPacket(br) })
			if rerr == nil {
				x.viol("extra-packet:"+m.Class, fmt.Sprintf("%s: reader returned a packet (%d bytes) after the end of the stream", m, len(got)), det(len(pk)))
			}
		}
	})
	out.Extra["roundtrip_cases_by_class"] = classes
}

// ---------------------------------------------------------------------------------------------
// TestIndepEncode (C25, reader side): packets built by the independent encoder with any padding
// the standards allow must be returned by the real reader.
func doIndepEncode(t *testing.T, x *ctxT) {
	out := x.out
	sizes := []int{1, 2, 3, 7, 8, 11, 12, 15, 16, 17, 27, 31, 32, 33, 100, 255, 256, 300, 1000, 32768}
	rounds := 2
	if vutil.Thorough() {
		rounds = 12
	}
	for mi, m := range allModes() {
		for round := 0; round < rounds; round++ {
			rng := vutil.Rand(int64(7000 + mi*100 + round))
			k := mkKeys(m, rng, nil)
			start := []uint32{0, 0xfffffffe, rng.Uint32()}[round%3]
			ref, err := NewRef(m, k)
			if err != nil {
				t.Fatal(err)
			}
			r, err := newReal(m, k)
			if err != nil {
				t.Fatal(err)
			}
			var stream []byte
			var payloads [][]byte
			var pads []int
			for i := 0; i < 4; i++ {
				n := sizes[rng.Intn(len(sizes))]
				p := mkPayload(rng, n)
				// smallest valid padding plus a random number of alignment units (<= 255)
				al := Align(m)
				pad := al - (4+1+n-m.Aad)%al
				if pad < 4 {
					pad += al
				}
				pad += al * rng.Intn((255-pad)/al+1)
				if round == 0 {
					pad = pad % al // minimal
					for pad < 4 {
						pad += al
					}
				}
				if m.Class == "CBC" || m.Class == "CBCEtM" { // RFC 4253 6: minimum packet size 16
					for 4+1+n+pad < 16 {
						pad += al
					}
				}
				padding := make([]byte, pad)
				rng.Read(padding)
				stream = append(stream, ref.Encode(start+uint32(i), p, padding)...)
				payloads = append(payloads, p)
				pads = append(pads, pad)
			}
			rc := ssh.VerifCipherNewConn(r, start)
			br := bufio.NewReader(bytes.NewReader(stream))
			out.Case(fmt.Sprintf("%s|%d", m, round))
			for i := range payloads {
				var got []byte
				var rerr error
				det := map[string]any{"mode": m, "packet": i + 1, "n": len(payloads[i]), "pad": pads[i], "startSeq": start}
				if p := guard(func() { got, rerr = rc.ReadPacket(br) }); p != nil {
					x.viol("panic-read:"+m.Class, fmt.Sprintf("%s: reader panicked: %v", m, p), det)
					break
				}
				if rerr != nil {
					det["error"] = rerr.Error()
					sig := "independent-encode-rejected:" + m.String()
					what := fmt.Sprintf("%s: reader rejects a packet framed as the standards define (n=%d pad=%d): %v", m, len(payloads[i]), pads[i], rerr)
					if m.Class == "CBCEtM" {
						sig = "cbc-etm-read-as-encrypt-and-mac"
						what = fmt.Sprintf("%s: cbcCipher ignores the EtM flag: a packet in the OpenSSH -etm layout (length in clear, MAC over ciphertext) is rejected: %v", m, rerr)
					}
					x.viol(sig, what, det)
					break
				}
				if !bytes.Equal(got, payloads[i]) {
					x.viol("indep-encode-payload:"+m.Class, fmt.Sprintf("%s: reader returned other bytes than the independently encoded payload", m), det)
					break
				}
			}
		}
	}
}

// ---------------------------------------------------------------------------------------------
// TestKex (C25, generateKeyMaterial / newPacketCipher): keys derived by the real code from
// (K, H, session id) equal RFC 4253 7.2 derivation done here, observed through the wire bytes.
func doKex(t *testing.T, x *ctxT) {
	out := x.out
	hashes := []crypto.Hash{crypto.SHA1, crypto.SHA256, crypto.SHA384, crypto.SHA512}
	derive := func(h crypto.Hash, K, H, sid []byte, letter byte, n int) []byte {
		var outb []byte
		for len(outb) < n { // K1 = HASH(K||H||X||sid); Kn = HASH(K||H||K1||...||Kn-1)
			d := h.New()
			d.Write(K)
			d.Write(H)
			if len(outb) == 0 {
				d.Write([]byte{letter})
				d.Write(sid)
			} else {
				d.Write(outb)
			}
			outb = d.Sum(outb)
		}
		return outb[:n]
	}
	for mi, m := range allModes() {
		if m.Class == "None" {
			continue
		}
		for hi, h := range hashes {
			for _, server := range []bool{false, true} {
				rng := vutil.Rand(int64(9000 + mi*10 + hi))
				K := make([]byte, 4+33)
				rng.Read(K)
				binary.BigEndian.PutUint32(K, 33)
				K[4] = 0 // mpint with leading zero, as marshalled by the package
				H := make([]byte, h.Size())
				rng.Read(H)
				sid := make([]byte, h.Size())
				rng.Read(sid)
				kl, il, ml := KeySizes(m)
				letters := [3]byte{'A', 'C', 'E'} // client -> server: IV, key, MAC key
				if server {
					letters = [3]byte{'B', 'D', 'F'}
				}
				k := Keys{IV: derive(h, K, H, sid, letters[0], il), Key: derive(h, K, H, sid, letters[1], kl), MacKey: derive(h, K, H, sid, letters[2], ml)}
				w, err := ssh.VerifCipherFromKex(server, m.Cipher, m.Mac, h, K, H, sid)
				if err != nil {
					t.Fatalf("VerifCipherFromKex: %v", err)
				}
				out.Case(fmt.Sprintf("%s|%v|%v", m, h, server))
				var buf bytes.Buffer
				p := mkPayload(rng, 40)
				if err := w.Write(7, &buf, rng, append([]byte{}, p...)); err != nil {
					t.Fatalf("write: %v", err)
				}
				ref, err := NewRef(m, k)
				if err != nil {
					t.Fatal(err)
				}
				d, derr := ref.Decode(7, buf.Bytes())
				if m.Class == "CBCEtM" && (derr != nil || !d.TagOK) {
					// the framing of CBC x etm is judged by doRoundTrip (C25-F1); here only the keys matter:
					// accept the encrypt-and-MAC layout as well
					m2 := m
					m2.Class, m2.Aad = "CBC", 0
					ref2, _ := NewRef(m2, k)
					d, derr = ref2.Decode(7, buf.Bytes())
				}
				if derr != nil || !d.TagOK || !bytes.Equal(d.Payload, p) {
					x.viol("kdf:"+m.Class, fmt.Sprintf("%s hash=%v server=%v: packet written with keys from newPacketCipher/generateKeyMaterial does not decode with keys derived per RFC 4253 7.2 (err=%v tagOK=%v)", m, h, server, derr, d.TagOK),
						map[string]any{"mode": m, "hash": h.String(), "server": server})
				}
			}
		}
	}
}

// ---------------------------------------------------------------------------------------------
// C26: tampering.

type field struct{ lo, hi int } // byte range within a packet

func fieldsOf(m Mode, n, pad, total int) map[string]field {
	f := map[string]field{
		"len":     {0, 4},
		"padlen":  {4, 5},
		"payload": {5, 5 + n},
		"padding": {5 + n, 5 + n + pad},
	}
	if m.Tag > 0 {
		f["tag"] = field{5 + n + pad, total}
	}
	return f
}

type variant struct {
	items [][]byte
	desc  string
}

func cloneItems(it [][]byte) [][]byte {
	o := make([][]byte, len(it))
	for i := range it {
		o[i] = it[i]
	}
	return o
}

// expand materialises one abstract attacker action on each of the given streams.
func expand(m Mode, c *caseJ, vs []variant, op opJ, last bool, rng *rand.Rand, full bool, other *Ref, writtenIdx func(item []byte) int) []variant {
	multi := len(c.Ops) > 1 // fault sequences: sample the byte-level variants of each step
	var res []variant
	for _, v := range vs {
		switch op.Op {
		case "drop":
			it := cloneItems(v.items)
			it = append(it[:op.I-1], it[op.I:]...)
			res = append(res, variant{it, v.desc + fmt.Sprintf(" drop(%d)", op.I)})
		case "dup":
			it := cloneItems(v.items)
			x := it[op.I-1]
			it = append(it[:op.J-1], append([][]byte{x}, it[op.J-1:]...)...)
			res = append(res, variant{it, v.desc + fmt.Sprintf(" dup(%d->%d)", op.I, op.J)})
		case "swap":
			it := cloneItems(v.items)
			it[op.I-1], it[op.J-1] = it[op.J-1], it[op.I-1]
			res = append(res, variant{it, v.desc + fmt.Sprintf(" swap(%d,%d)", op.I, op.J)})
		case "inject":
			var junks [][]byte
			j16 := make([]byte, 16)
			rng.Read(j16)
			junks = append(junks, j16, []byte{0})
			big := make([]byte, 40+rng.Intn(200))
			rng.Read(big)
			junks = append(junks, big)
			// a well-framed packet under foreign keys
			pl := mkPayload(rng, 20)
			al := Align(m)
			pad := al - (4+1+20-m.Aad)%al
			if pad < 4 {
				pad += al
			}
			junks = append(junks, other.Encode(uint32(rng.Intn(4)), pl, make([]byte, pad)))
			for ji, j := range junks {
				it := cloneItems(v.items)
				it = append(it[:op.J-1], append([][]byte{j}, it[op.J-1:]...)...)
				res = append(res, variant{it, v.desc + fmt.Sprintf(" inject(@%d,#%d,%dB)", op.J, ji, len(j))})
			}
		case "trunc":
			x := v.items[op.I-1]
			var cuts []int
			if !multi && (full || len(x) <= 64) {
				for l := 0; l < len(x); l++ {
					cuts = append(cuts, l)
				}
			} else {
				cuts = []int{0, 1, 3, 4, 5, 6, len(x) - 1, len(x) - 2, len(x) - m.Tag, len(x) - m.Tag - 1}
				for i := 0; i < 12 && !multi; i++ {
					cuts = append(cuts, rng.Intn(len(x)))
				}
			}
			for _, l := range cuts {
				if l < 0 || l >= len(x) {
					continue
				}
				if l == 0 && !last {
					continue // an item cut to nothing is a Drop; followed by further edits the model keeps it as an item
				}
				it := cloneItems(v.items[:op.I])
				it[op.I-1] = x[:l]
				res = append(res, variant{it, v.desc + fmt.Sprintf(" trunc(%d@%d)", op.I, l)})
			}
		case "flip":
			x := v.items[op.I-1]
			wi := writtenIdx(x)
			if wi < 0 {
				continue
			}
			p := c.Pkts[wi]
			f := fieldsOf(m, p.N, len(x)-5-p.N-m.Tag, len(x))[op.F]
			var bits []int
			nb := (f.hi - f.lo) * 8
			if !multi && (full || op.I == 1 || nb <= 64) { // the property's quantifier: every bit of the first packet
				for b := 0; b < nb; b++ {
					bits = append(bits, b)
				}
			} else {
				for i := 0; i < 24 && (!multi || i < 6); i++ {
					bits = append(bits, rng.Intn(nb))
				}
			}
			for _, b := range bits {
				y := append([]byte{}, x...)
				y[f.lo+b/8] ^= 1 << uint(b%8)
				it := cloneItems(v.items)
				it[op.I-1] = y
				res = append(res, variant{it, v.desc + fmt.Sprintf(" flip(%d.%s bit %d)", op.I, op.F, b)})
			}
			for i := 0; i < 3 && nb > 0; i++ { // random multi-byte corruption of the field
				y := append([]byte{}, x...)
				for {
					for j := 0; j < 1+rng.Intn(f.hi-f.lo); j++ {
						y[f.lo+rng.Intn(f.hi-f.lo)] = byte(rng.Intn(256))
					}
					if !bytes.Equal(x, y) {
						break
					}
				}
				it := cloneItems(v.items)
				it[op.I-1] = y
				res = append(res, variant{it, v.desc + fmt.Sprintf(" corrupt(%d.%s #%d)", op.I, op.F, i)})
			}
		}
	}
	return res
}

// readStream feeds stream to a fresh real reader; returns payloads delivered before the first
// error (reads at most max packets).
func readStream(m Mode, k Keys, start uint32, stream []byte, max int) (got [][]byte, rerr error, panicked any) {
	r, err := newReal(m, k)
	if err != nil {
		return nil, err, nil
	}
	src := bytes.NewReader(stream)
	seq := start
	for i := 0; i < max; i++ {
		var p []byte
		var e error
		if pn := guard(func() { p, e = r.Read(seq, src) }); pn != nil {
			return got, nil, pn
		}
		seq++ // connectionState.readPacket: seqNum++ whatever the outcome
		if e != nil {
			return got, e, nil
		}
		got = append(got, append([]byte{}, p...))
	}
	return got, nil, nil
}

// TestTamper (C26): every abstract fault sequence of the model, materialised on real bytes.
func doTamper(t *testing.T, x *ctxT) {
	out := x.out
	ncase, nvar := 0, 0
	early := 0
	byOp := map[string]int{}
	forCases(t, func(c *caseJ, line []byte) {
		if c.Ciphers != nil || len(c.Pkts) == 0 || len(c.Ops) == 0 {
			return
		}
		m := c.Mode
		if !m.Auth || x.overBad[m.String()] {
			return
		}
		ncase++
		rng := vutil.Rand(int64(ncase) + 500000)
		k := mkKeys(m, rng, c.StartCtr)
		start := c.realStart()
		var payloads [][]byte
		for _, p := range c.Pkts {
			payloads = append(payloads, mkPayload(rng, p.N))
		}
		pk, _, err := writeAll(m, k, start, payloads, rng)
		if err != nil {
			x.viol("write-error:"+m.String(), fmt.Sprintf("%s: the real writer refused payloads %v: %v", m, c.sizes(), err), map[string]any{"mode": m, "sizes": c.sizes()})
			return
		}
		// control: the untampered stream through the real reader.  If the real code does not even
		// round-trip it, that is a defect of the real code (reported as such), not of the model.
		ctrl, cerr, cpn := readStream(m, k, start, bytes.Join(pk, nil), len(pk))
		if cpn != nil || cerr != nil || len(ctrl) != len(pk) {
			x.viol("untampered-stream-rejected:"+m.String(), fmt.Sprintf("%s: the real reader, keyed like the writer, rejects the UNTAMPERED stream of payloads %v at packet %d (err=%v panic=%v); tamper cases on this stream are judged against what it does deliver", m, c.sizes(), len(ctrl)+1, cerr, cpn),
				map[string]any{"mode": m, "sizes": c.sizes(), "startSeq": start, "key": fmt.Sprintf("%x", k.Key), "iv": fmt.Sprintf("%x", k.IV), "macKey": fmt.Sprintf("%x", k.MacKey)})
		}
		for i, d := range c.Delivered {
			if d != i+1 {
				t.Fatalf("model predicts a wrong delivery in an authenticated mode: %s", line)
			}
		}
		D := len(c.Delivered)
		other, err := NewRef(m, mkKeys(m, rng, nil)) // well-framed packets under foreign keys
		if err != nil {
			t.Fatal(err)
		}
		writtenIdx := func(item []byte) int {
			for i := range pk {
				if bytes.Equal(pk[i], item) {
					return i
				}
			}
			for i := range pk { // a damaged copy: same length, mostly equal
				if len(pk[i]) == len(item) {
					diff := 0
					for j := range item {
						if item[j] != pk[i][j] {
							diff++
						}
					}
					if diff*4 < len(item) {
						return i
					}
				}
			}
			return -1
		}
		vs := []variant{{cloneItems(pk), ""}}
		for oi, op := range c.Ops {
			byOp[op.Op]++
			vs = expand(m, c, vs, op, oi == len(c.Ops)-1, rng, vutil.Thorough() && oi == 0 && len(c.Ops) == 1, other, writtenIdx)
			if len(c.Ops) > 1 && len(vs) > 48 { // fault sequences multiply: keep a seeded sample per step
				rng.Shuffle(len(vs), func(i, j int) { vs[i], vs[j] = vs[j], vs[i] })
				vs = vs[:48]
			}
		}
		orig := bytes.Join(pk, nil)
		if ncase%499 == 1 {
			out.Sample(map[string]any{"mode": m.String(), "sizes": c.sizes(), "ops": c.Ops, "predicted_delivered": D, "variants": len(vs)})
		}
		for _, v := range vs {
			stream := bytes.Join(v.items, nil)
			if bytes.Equal(stream, orig) {
				continue
			}
			nvar++
			out.Evaluations++ // every variant is a distinct (case, byte-level fault) by construction
			out.Distinct++
			got, rerr, pn := readStream(m, k, start, stream, len(pk)+3)
			det := map[string]any{"mode": m, "sizes": c.sizes(), "startSeq": start, "ops": c.Ops, "variant": v.desc, "predicted_delivered": D, "delivered": len(got),
				"key": fmt.Sprintf("%x", k.Key), "iv": fmt.Sprintf("%x", k.IV), "macKey": fmt.Sprintf("%x", k.MacKey)}
			opname := c.Ops[0].Op
			if pn != nil {
				x.viol("panic-read:"+m.Class, fmt.Sprintf("%s: reader panicked on a tampered stream (%s): %v", m, v.desc, pn), det)
				continue
			}
			wrong := false
			for i, g := range got {
				if i >= len(payloads) || !bytes.Equal(g, payloads[i]) {
					x.viol("tamper-wrong-payload:"+m.Class+":"+opname, fmt.Sprintf("%s: after%s the reader returned at position %d a payload that was not written there", m, v.desc, i+1), det)
					wrong = true
					break
				}
			}
			if wrong {
				continue
			}
			if rerr == nil {
				x.viol("tamper-no-error:"+m.Class+":"+opname, fmt.Sprintf("%s: after%s the reader never reported an error", m, v.desc), det)
				continue
			}
			// K = number of whole written packets that are still a byte prefix of the tampered stream
			// (>= the model's D; larger only by coincidence, e.g. an injected byte equal to a truncated one)
			K, off := 0, 0
			for K < len(pk) && off+len(pk[K]) <= len(stream) && bytes.Equal(stream[off:off+len(pk[K])], pk[K]) {
				off += len(pk[K])
				K++
			}
			if K < D {
				t.Fatalf("harness: materialised stream %s%s keeps fewer intact packets (%d) than the model predicts (%d)", m, v.desc, K, D)
			}
			if K > D {
				x.info["tamper_coincidentally_intact"]++
			}
			if len(got) > K {
				x.viol("tamper-accepted:"+m.Class+":"+opname, fmt.Sprintf("%s: after%s the reader accepted the modified part of the stream (%d packets returned, the first %d are untouched)", m, v.desc, len(got), K), det)
				continue
			}
			if len(got) < D && len(got) < len(ctrl) { // fewer than predicted AND fewer than the untampered control delivers
				early++
				if early <= 5 {
					t.Logf("early error (not a C26 verdict): %s %s delivered %d predicted %d err=%v", m, v.desc, len(got), D, rerr)
				}
			}
		}
	})
	out.Extra["tamper_cases"] = ncase
	out.Extra["tamper_variants"] = nvar
	out.Extra["tamper_early_error"] = early
	out.Extra["tamper_ops"] = byOp
}

// ---------------------------------------------------------------------------------------------
// C26, second clause: any byte stream, any mode: payload or error, no panic, declared lengths
// above maxPacket rejected without reading that much.

type countingReader struct {
	data    []byte
	pos     int
	endless bool // zeros after data
	asked   int  // sum of len(p) over Read calls
	given   int
	maxAsk  int
	limit   int // stop (EOF) once given exceeds this, so a runaway reader cannot read gigabytes
}

func (c *countingReader) Read(p []byte) (int, error) {
	c.asked += len(p)
	if len(p) > c.maxAsk {
		c.maxAsk = len(p)
	}
	if c.given > c.limit {
		return 0, io.EOF
	}
	if c.pos < len(c.data) {
		n := copy(p, c.data[c.pos:])
		c.pos += n
		c.given += n
		return n, nil
	}
	if !c.endless {
		return 0, io.EOF
	}
	for i := range p {
		p[i] = 0
	}
	c.given += len(p)
	return len(p), nil
}

// craftHeader builds the start of a stream whose first packet declares packet_length = plen and
// padding_length = padlen under the mode's real framing (encrypted where the mode encrypts it).
func craftHeader(m Mode, ref *Ref, seq uint32, plen uint32, padlen byte, rng *rand.Rand) []byte {
	n := 16
	if m.Class == "CBCEtM" || m.Class == "CBC" {
		n = 32
	}
	plain := make([]byte, n)
	rng.Read(plain)
	binary.BigEndian.PutUint32(plain, plen)
	plain[4] = padlen
	if m.Class == "GCM" {
		return plain // length in clear; the rest is ciphertext anyway
	}
	b := ref.EncodeRaw(seq, plain)
	return b[:n] // without tag: followed by whatever
}

func doFuzz(t *testing.T, x *ctxT) {
	out := x.out
	nrand := 400
	ncorrupt := 300
	if vutil.Thorough() {
		nrand, ncorrupt = 20000, 6000
	}
	if v := os.Getenv("VERIF_C26_FUZZ"); v != "" {
		nrand, _ = strconv.Atoi(v)
	}
	lens := []uint32{0, 1, 2, 3, 4, 5, 6, 7, 8, 11, 12, 15, 16, 17, 20, 27, 28, 32, 255, 256, 1024, 35000,
		maxPacket - 17, maxPacket - 16, maxPacket - 4, maxPacket - 1, maxPacket, maxPacket + 1, maxPacket + 2, maxPacket + 4, maxPacket + 12, maxPacket + 16,
		2 * maxPacket, 1 << 20, 1 << 24, 0x7fffffff, 0x80000000, 0x80000001, 0xfffffff0, 0xfffffffb, 0xfffffffc, 0xfffffffe, 0xffffffff}
	pads := []byte{0, 1, 3, 4, 5, 8, 16, 254, 255}
	var stats struct{ random, targeted, corrupt, over, delivered int }
	for mi, m := range allModes() {
		// CBC x -etm MAC: headers are crafted in the -etm layout and, additionally, in the
		// encrypt-and-MAC layout the package used before 78606fd (whichever it implements, both must be handled)
		mAlt := m
		if m.Class == "CBCEtM" {
			mAlt.Class, mAlt.Aad = "CBC", 0
		}
		rng := vutil.Rand(int64(300000 + mi))
		k := mkKeys(m, rng, nil)
		det := func(kind string, stream []byte, extra map[string]any) map[string]any {
			d := map[string]any{"mode": m, "kind": kind, "key": fmt.Sprintf("%x", k.Key), "iv": fmt.Sprintf("%x", k.IV), "macKey": fmt.Sprintf("%x", k.MacKey)}
			if len(stream) <= 600 {
				d["stream"] = fmt.Sprintf("%x", stream)
			} else {
				d["stream_prefix"] = fmt.Sprintf("%x", stream[:64])
				d["stream_len"] = len(stream)
			}
			for kk, v := range extra {
				d[kk] = v
			}
			return d
		}
		// (b) length-field-targeted streams
		overBad := false // once a mode mishandles an oversized length, do not repeat (each try may allocate gigabytes)
		for _, pl := range lens {
			if overBad && pl > maxPacket {
				continue
			}
			for _, pd := range pads {
				for ti, tail := range []int{0, 37, 5000, -1, 5000, -1} {
					mCraft := m
					if ti >= 4 {
						if m.Class != "CBCEtM" {
							continue
						}
						mCraft = mAlt
					}
					ref, err := NewRef(mCraft, k)
					if err != nil {
						t.Fatal(err)
					}
					hdr := craftHeader(mCraft, ref, 3, pl, pd, rng)
					cr := &countingReader{data: hdr, limit: 3*maxPacket + 4096}
					if tail < 0 {
						cr.endless = true
					} else {
						tl := make([]byte, tail)
						rng.Read(tl)
						cr.data = append(cr.data, tl...)
					}
					r, err := newReal(m, k)
					if err != nil {
						t.Fatal(err)
					}
					stats.targeted++
					out.Case(fmt.Sprintf("len|%s|%d|%d|%d|%d", m, pl, pd, tail, ti))
					var p []byte
					var e error
					pn := guard(func() { p, e = r.Read(3, cr) })
					ex := map[string]any{"declared_packet_length": pl, "padding_length": pd, "tail": tail, "bytes_requested": cr.asked, "largest_request": cr.maxAsk}
					if pn != nil {
						x.viol("panic-read:"+m.Class, fmt.Sprintf("%s: reader panicked on declared length %d padlen %d: %v", m, pl, pd, pn), det("targeted", hdr, ex))
						continue
					}
					if pl > maxPacket {
						stats.over++
						if e == nil {
							overBad = true
							x.overBad[m.String()] = true
							x.viol("maxpacket-accepted:"+m.Class, fmt.Sprintf("%s: declared packet_length %d > maxPacket accepted (%d bytes returned)", m, pl, len(p)), det("targeted", hdr, ex))
							continue
						}
						// rejected: but not by reading/allocating that much.  cbcCipher deliberately drains up
						// to maxPacket+4+mac bytes afterwards (oracle camouflage), in small chunks.
						limit, chunk := 64, 64
						if m.Class == "CBC" || m.Class == "CBCEtM" {
							limit, chunk = maxPacket+4+64+32*1024, 64*1024
						}
						if cr.asked > limit || cr.maxAsk > chunk {
							overBad = true
							x.overBad[m.String()] = true
							x.viol("maxpacket-read:"+m.Class, fmt.Sprintf("%s: declared packet_length %d > maxPacket rejected only after requesting %d bytes (largest single request %d)", m, pl, cr.asked, cr.maxAsk), det("targeted", hdr, ex))
						}
					} else if e == nil {
						stats.delivered++
						if m.Auth {
							x.viol("forgery:"+m.Class, fmt.Sprintf("%s: reader returned a payload from a crafted header followed by random bytes", m), det("targeted", hdr, ex))
						}
					}
				}
			}
		}
		if x.overBad[m.String()] {
			continue // the oversized-length defect is recorded; further streams would only allocate gigabytes
		}
		// (a) fully random streams
		for i := 0; i < nrand; i++ {
			s := make([]byte, rng.Intn(700))
			rng.Read(s)
			if i%3 == 0 && len(s) >= 4 { // small plausible length field in clear
				binary.BigEndian.PutUint32(s, uint32(rng.Intn(64)))
			}
			stats.random++
			out.Case("")
			got, _, pn := readStream(m, k, uint32(i), s, 6)
			if pn != nil {
				x.viol("panic-read:"+m.Class, fmt.Sprintf("%s: reader panicked on a random stream: %v", m, pn), det("random", s, nil))
			}
			if m.Auth && len(got) > 0 {
				x.viol("forgery:"+m.Class, fmt.Sprintf("%s: reader returned a payload from a random stream", m), det("random", s, nil))
			}
		}
		// (c) valid streams with random multi-byte corruption
		for i := 0; i < ncorrupt; i++ {
			np := 1 + rng.Intn(5)
			var payloads [][]byte
			for j := 0; j < np; j++ {
				payloads = append(payloads, mkPayload(rng, 1+rng.Intn(120)))
			}
			start := []uint32{0, 0xfffffffd, 77}[i%3]
			pk, _, err := writeAll(m, k, start, payloads, rng)
			if err != nil {
				t.Fatalf("write: %v", err)
			}
			s := bytes.Join(pk, nil)
			orig := append([]byte{}, s...)
			first := len(s)
			for j := 0; j < 1+rng.Intn(8); j++ {
				pos := rng.Intn(len(s))
				s[pos] ^= byte(1 + rng.Intn(255))
				if pos < first {
					first = pos
				}
			}
			if bytes.Equal(s, orig) {
				continue
			}
			for first = 0; s[first] == orig[first]; first++ { // two corruptions of one byte may cancel
			}
			hit, off := 0, 0 // index of the first corrupted packet
			for j := range pk {
				if first < off+len(pk[j]) {
					hit = j
					break
				}
				off += len(pk[j])
			}
			stats.corrupt++
			out.Case("")
			got, rerr, pn := readStream(m, k, start, s, np+2)
			ex := map[string]any{"sizes": fmt.Sprint(len(payloads)), "first_corrupted_packet": hit + 1, "delivered": len(got), "startSeq": start}
			if pn != nil {
				x.viol("panic-read:"+m.Class, fmt.Sprintf("%s: reader panicked on a corrupted stream: %v", m, pn), det("corrupt", s, ex))
				continue
			}
			if !m.Auth {
				continue
			}
			bad := rerr == nil || len(got) > hit
			for j, g := range got {
				if j >= np || !bytes.Equal(g, payloads[j]) {
					bad = true
				}
			}
			if bad {
				x.viol("tamper-random:"+m.Class, fmt.Sprintf("%s: random corruption starting in packet %d: reader returned %d packets, err=%v", m, hit+1, len(got), rerr), det("corrupt", s, ex))
			}
		}
	}
	out.Extra["fuzz_random_streams"] = stats.random
	out.Extra["fuzz_length_targeted"] = stats.targeted
	out.Extra["fuzz_declared_over_maxPacket"] = stats.over
	out.Extra["fuzz_corrupted_streams"] = stats.corrupt
	out.Extra["fuzz_targeted_delivered_none_mode"] = stats.delivered
}

// TestCBCOracle (C26): the oracle-camouflage path of cbcCipher is exercised: whichever check
// fails, the reader has consumed the same number of bytes (no timing is judged).
func doCBCOracle(t *testing.T, x *ctxT) {
	out := x.out
	for mi, m := range allModes() {
		if m.Class != "CBC" && m.Class != "CBCEtM" {
			continue
		}
		rng := vutil.Rand(int64(800 + mi))
		k := mkKeys(m, rng, nil)
		p := mkPayload(rng, 50)
		pk, _, err := writeAll(m, k, 0, [][]byte{p}, rng)
		if err != nil {
			t.Fatal(err)
		}
		consumed := map[int]int{}
		for i := 0; i < len(pk[0]); i++ {
			s := append([]byte{}, pk[0]...)
			s[i] ^= 0x40
			cr := &countingReader{data: s, endless: true, limit: 3 * maxPacket}
			r, _ := newReal(m, k)
			var e error
			pn := guard(func() { _, e = r.Read(0, cr) })
			out.Case(fmt.Sprintf("%s|%d", m, i))
			if pn != nil || e == nil {
				x.viol("cbc-corrupt-accepted:"+m.Class, fmt.Sprintf("%s: corrupt byte %d: panic=%v err=%v", m, i, pn, e), map[string]any{"mode": m, "byte": i})
				continue
			}
			consumed[cr.given]++
		}
		if len(consumed) != 1 {
			x.info["cbc_camouflage_distinct_read_totals"] += len(consumed) // informational: not part of the property
		}
		x.info["cbc_camouflage_modes"]++
		for tot := range consumed {
			out.Extra["cbc_camouflage_bytes_read:"+m.Mac] = tot
		}
	}
}

// ---------------------------------------------------------------------------------------------
// Entry points.  One go test invocation per property: all parts share one result file.
func runParts(t *testing.T, parts ...func(*testing.T, *ctxT)) {
	out := vutil.NewOut()
	x := &ctxT{out: out, t: t, info: map[string]int{}, overBad: map[string]bool{}}
	defer func() {
		for k, v := range x.info {
			out.Extra[k] = v
		}
		finish(t, out)
	}()
	only := os.Getenv("VERIF_C25_PART")
	for i, p := range parts {
		if only != "" && only != strconv.Itoa(i) {
			continue
		}
		p(t, x)
	}
}

func TestC25(t *testing.T) { runParts(t, doTable, doRoundTrip, doIndepEncode, doKex) }
func TestC26(t *testing.T) { runParts(t, doTable, doFuzz, doTamper, doCBCOracle) }
