// Binding R for C52 (bn256): every case TLC emits from spec/Bn256Enc.tla is materialised on the real curve.
//   - encoding classes (canonical / +p / p / zero / 2^256-1 per coordinate, curve equation holding or not for the
//     residues) against the real G1/G2 Unmarshal, with the model's Accept as the expected decision;
//   - law instances over scalar classes against the real G1/G2/GT operations (metamorphic: both sides are computed
//     by the package; expected logarithms with math/big).
package c52

import (
	"bytes"
	"encoding/hex"
	"encoding/json"
	"fmt"
	"math/big"
	"math/rand"
	"strings"
	"sync"
	"testing"

	"golang.org/x/crypto/bn256"
	"verif/harness/vutil"
)

type tcase struct {
	Kind      string   `json:"kind"`
	Grp       string   `json:"grp"`
	Cs        []string `json:"cs"`
	On        bool     `json:"on"`
	Accept    bool     `json:"accept"`
	OldAccept bool     `json:"oldAccept"` // the decision of the code before the repair 57c7a7b (classifies a regression)
	Must      bool     `json:"must"`      // the model requires this class tuple to be materialised
	A         string   `json:"a"`
	B         string   `json:"b"`
	C         string   `json:"c"`
}

// curve parameters: the definition of the groups (constants.go, curve.go, twist.go)
var (
	fieldP, _ = new(big.Int).SetString("65000549695646603732796438742359905742825358107623003571877145026864184071783", 10)
	twoTo256  = new(big.Int).Lsh(big.NewInt(1), 256)
	// twist constant 3/(i+3) = tbI*i + tbR
	tbI, _ = new(big.Int).SetString("6500054969564660373279643874235990574282535810762300357187714502686418407178", 10)
	tbR, _ = new(big.Int).SetString("45500384786952622612957507119651934019977750675336102500314001518804928850249", 10)
)

func mod(x *big.Int) *big.Int { return new(big.Int).Mod(x, fieldP) }

// reference curve equations on residues
func onCurveG1(x, y *big.Int) bool {
	l := mod(new(big.Int).Mul(y, y))
	r := new(big.Int).Mul(x, x)
	r.Mul(r, x)
	r.Add(r, big.NewInt(3))
	return l.Cmp(mod(r)) == 0
}

type fp2 struct{ i, r *big.Int } // i*I + r, I^2 = -1

var mustSamples []string // must-materialise class tuples that could not be built (guarded by the cases' mutex)

func fmul(a, b fp2) fp2 {
	// (ai I + ar)(bi I + br) = (ai br + ar bi) I + (ar br - ai bi)
	i := new(big.Int).Mul(a.i, b.r)
	i.Add(i, new(big.Int).Mul(a.r, b.i))
	r := new(big.Int).Mul(a.r, b.r)
	r.Sub(r, new(big.Int).Mul(a.i, b.i))
	return fp2{mod(i), mod(r)}
}
func fadd(a, b fp2) fp2 { return fp2{mod(new(big.Int).Add(a.i, b.i)), mod(new(big.Int).Add(a.r, b.r))} }
func onCurveG2(xi, xr, yi, yr *big.Int) bool {
	x, y := fp2{mod(xi), mod(xr)}, fp2{mod(yi), mod(yr)}
	l := fmul(y, y)
	r := fadd(fmul(fmul(x, x), x), fp2{tbI, tbR})
	return l.i.Cmp(r.i) == 0 && l.r.Cmp(r.r) == 0
}

func be32(x *big.Int) []byte {
	b := x.Bytes()
	if len(b) > 32 {
		panic("value does not fit in 32 bytes")
	}
	out := make([]byte, 32)
	copy(out[32-len(b):], b)
	return out
}

// rawFor returns the raw coordinate value of the class for residue v (nil if the class cannot carry that residue).
func rawFor(class string, v *big.Int) *big.Int {
	switch class {
	case "canon":
		if v.Sign() == 0 {
			return nil
		}
		return v
	case "plusp":
		r := new(big.Int).Add(v, fieldP)
		if r.Cmp(twoTo256) >= 0 || v.Sign() == 0 {
			return nil
		}
		return r
	case "p":
		if v.Sign() != 0 {
			return nil
		}
		return new(big.Int).Set(fieldP)
	case "zero":
		if v.Sign() != 0 {
			return nil
		}
		return new(big.Int)
	case "max":
		m := new(big.Int).Sub(twoTo256, big.NewInt(1))
		if mod(m).Cmp(v) != 0 {
			return nil
		}
		return m
	}
	return nil
}

// residueOf: the residue a class forces, or nil if it is free.
func residueOf(class string) *big.Int {
	switch class {
	case "p", "zero":
		return new(big.Int)
	case "max":
		return mod(new(big.Int).Sub(twoTo256, big.NewInt(1)))
	}
	return nil
}

func sqrtMod(a *big.Int) *big.Int { return new(big.Int).ModSqrt(mod(a), fieldP) }

// ---- GF(p^2) = GF(p)[I]/(I^2+1) helpers of the harness (p = 3 mod 4)
var (
	fzero   = fp2{new(big.Int), new(big.Int)}
	fone    = fp2{new(big.Int), big.NewInt(1)}
	twistB2 = fp2{tbI, tbR}
)

func fsub(a, b fp2) fp2 { return fp2{mod(new(big.Int).Sub(a.i, b.i)), mod(new(big.Int).Sub(a.r, b.r))} }
func feq(a, b fp2) bool { return mod(a.i).Cmp(mod(b.i)) == 0 && mod(a.r).Cmp(mod(b.r)) == 0 }
func fexp(a fp2, e *big.Int) fp2 {
	res := fone
	for i := e.BitLen() - 1; i >= 0; i-- {
		res = fmul(res, res)
		if e.Bit(i) == 1 {
			res = fmul(res, a)
		}
	}
	return res
}

// fsqrt: a square root of a in GF(p^2), or ok=false.
func fsqrt(a fp2) (fp2, bool) {
	a = fp2{mod(a.i), mod(a.r)}
	var x fp2
	if a.i.Sign() == 0 {
		if s := sqrtMod(a.r); s != nil {
			x = fp2{new(big.Int), s}
		} else if s := sqrtMod(new(big.Int).Neg(a.r)); s != nil {
			x = fp2{s, new(big.Int)} // (sI)^2 = -s^2
		} else {
			return fzero, false
		}
	} else {
		n := sqrtMod(new(big.Int).Add(new(big.Int).Mul(a.r, a.r), new(big.Int).Mul(a.i, a.i))) // sqrt of the norm
		if n == nil {
			return fzero, false
		}
		half := new(big.Int).ModInverse(big.NewInt(2), fieldP)
		var x0 *big.Int
		for _, sgn := range []int64{1, -1} {
			d := mod(new(big.Int).Mul(new(big.Int).Add(a.r, new(big.Int).Mul(big.NewInt(sgn), n)), half))
			if x0 = sqrtMod(d); x0 != nil && x0.Sign() != 0 {
				break
			}
			x0 = nil
		}
		if x0 == nil {
			return fzero, false
		}
		x1 := mod(new(big.Int).Mul(a.i, new(big.Int).ModInverse(mod(new(big.Int).Lsh(x0, 1)), fieldP)))
		x = fp2{x1, x0}
	}
	if !feq(fmul(x, x), a) {
		return fzero, false
	}
	return x, true
}

// fcbrt: a cube root of c in GF(p^2) (Adleman-Manders-Miller for q-1 = 3^s t), or ok=false.  For c in GF(p) that is a
// cube there, the result lies in GF(p) (x^3 - c splits over GF(p) because p = 1 mod 3).
var cbrtSetup struct {
	s    int
	t, m *big.Int
	z    fp2 // generator of the 3-Sylow subgroup
	k    int // exponent multiplier: root = c^m * z^(-k*e/3)
}

func init() {
	q1 := new(big.Int).Sub(new(big.Int).Mul(fieldP, fieldP), big.NewInt(1))
	t := new(big.Int).Set(q1)
	s := 0
	three := big.NewInt(3)
	for new(big.Int).Mod(t, three).Sign() == 0 {
		t.Div(t, three)
		s++
	}
	e3 := new(big.Int).Div(q1, three)
	var g fp2
	for k := int64(1); ; k++ {
		g = fp2{big.NewInt(1), big.NewInt(k)}
		if !feq(fexp(g, e3), fone) {
			break
		}
	}
	cbrtSetup.s, cbrtSetup.t, cbrtSetup.z = s, t, fexp(g, t)
	if new(big.Int).Mod(t, three).Int64() == 2 {
		cbrtSetup.m = new(big.Int).Div(new(big.Int).Add(t, big.NewInt(1)), three)
		cbrtSetup.k = 1
	} else {
		cbrtSetup.m = new(big.Int).Div(new(big.Int).Add(new(big.Int).Lsh(t, 1), big.NewInt(1)), three)
		cbrtSetup.k = 2
	}
}

func fcbrt(c fp2) (fp2, bool) {
	c = fp2{mod(c.i), mod(c.r)}
	if feq(c, fzero) {
		return fzero, true
	}
	u := fexp(c, cbrtSetup.t)
	ord := 1
	for i := 0; i < cbrtSetup.s; i++ {
		ord *= 3
	}
	e := -1
	zp := fone
	for i := 0; i < ord; i++ { // discrete logarithm in the group of order 3^s (9 here)
		if feq(zp, u) {
			e = i
			break
		}
		zp = fmul(zp, cbrtSetup.z)
	}
	if e < 0 || e%3 != 0 {
		return fzero, false // not a cube
	}
	back := (ord - (cbrtSetup.k*e/3)%ord) % ord
	x := fmul(fexp(c, cbrtSetup.m), fexp(cbrtSetup.z, big.NewInt(int64(back))))
	if !feq(fmul(fmul(x, x), x), c) {
		return fzero, false
	}
	return x, true
}

// omega: a primitive cube root of unity (in GF(p)).
func omega() fp2 {
	return fexp(cbrtSetup.z, big.NewInt(int64(pow3(cbrtSetup.s-1))))
}
func pow3(n int) int {
	r := 1
	for i := 0; i < n; i++ {
		r *= 3
	}
	return r
}

// numberFacts: what the model's Must relies on for G1 (checked on the real p, not assumed).
func numberFacts() error {
	if sqrtMod(big.NewInt(3)) != nil {
		return fmt.Errorf("3 is a square modulo p: G1 would have points with x = 0, the model's Must table is wrong")
	}
	if r, ok := fcbrt(fp2{new(big.Int), mod(big.NewInt(-3))}); ok && r.i.Sign() == 0 {
		return fmt.Errorf("-3 is a cube modulo p: G1 would have points with y = 0")
	}
	return nil
}

// solveG1 returns an affine point of y^2 = x^3 + 3 whose coordinates have the forced residues (nil = free), or ok=false.
func solveG1(r *rand.Rand, fx, fy *big.Int) (x, y *big.Int, ok bool) {
	switch {
	case fx != nil && fy != nil:
		return fx, fy, onCurveG1(fx, fy)
	case fx != nil:
		y := sqrtMod(new(big.Int).Add(new(big.Int).Exp(fx, big.NewInt(3), fieldP), big.NewInt(3)))
		if y == nil {
			return nil, nil, false
		}
		if r.Intn(2) == 0 {
			y = mod(new(big.Int).Neg(y))
		}
		return fx, y, true
	case fy != nil:
		c, ok := fcbrt(fp2{new(big.Int), mod(new(big.Int).Sub(new(big.Int).Mul(fy, fy), big.NewInt(3)))})
		if !ok || c.i.Sign() != 0 {
			return nil, nil, false
		}
		for k := r.Intn(3); k > 0; k-- {
			c = fmul(c, omega())
		}
		return c.r, fy, true
	}
	k := new(big.Int).Rand(r, bn256.Order)
	if k.Sign() == 0 {
		k.SetInt64(7)
	}
	m := new(bn256.G1).ScalarBaseMult(k).Marshal()
	return new(big.Int).SetBytes(m[:32]), new(big.Int).SetBytes(m[32:]), true
}

// solveG2 returns a point of the twist y^2 = x^3 + 3/xi over GF(p^2) whose components (x.i, x.r, y.i, y.r) have the
// forced residues (nil = free).  Components are forced either in x only (y by a square root) or in y only (x by a cube
// root); a free component of the forced coordinate is drawn at random until the root exists.
func solveG2(r *rand.Rand, f [4]*big.Int) (res []*big.Int, ok bool) {
	inX, inY := f[0] != nil || f[1] != nil, f[2] != nil || f[3] != nil
	pick := func(v *big.Int) *big.Int {
		if v != nil {
			return v
		}
		return new(big.Int).Rand(r, fieldP)
	}
	switch {
	case !inX && !inY:
		k := new(big.Int).Rand(r, bn256.Order)
		if k.Sign() == 0 {
			k.SetInt64(5)
		}
		m := new(bn256.G2).ScalarBaseMult(k).Marshal()
		for i := 0; i < 4; i++ {
			res = append(res, new(big.Int).SetBytes(m[32*i:32*i+32]))
		}
		return res, true
	case inX && inY:
		return nil, false
	case inX:
		for try := 0; try < 40; try++ {
			x := fp2{pick(f[0]), pick(f[1])}
			y, ok := fsqrt(fadd(fmul(fmul(x, x), x), twistB2))
			if ok {
				if r.Intn(2) == 0 {
					y = fsub(fzero, y)
				}
				return []*big.Int{x.i, x.r, y.i, y.r}, true
			}
			if f[0] != nil && f[1] != nil {
				break
			}
		}
	default:
		for try := 0; try < 60; try++ {
			y := fp2{pick(f[2]), pick(f[3])}
			x, ok := fcbrt(fsub(fmul(y, y), twistB2))
			if ok {
				for k := r.Intn(3); k > 0; k-- {
					x = fmul(x, omega())
				}
				return []*big.Int{x.i, x.r, y.i, y.r}, true
			}
			if f[2] != nil && f[3] != nil {
				break
			}
		}
	}
	return nil, false
}

func TestCases(t *testing.T) {
	out := vutil.NewOut()
	defer func() {
		if err := out.Write(); err != nil {
			t.Fatal(err)
		}
	}()
	if err := numberFacts(); err != nil {
		t.Fatal(err)
	}
	reps := 1
	if vutil.Thorough() {
		reps = 10
	}
	var mu sync.Mutex // guards out, unreal, stats, perSig
	unreal := map[string]int{}
	stats := map[string]int{}
	perSig := map[string]int{}
	viol := func(sig, what string, detail any) {
		mu.Lock()
		perSig[sig]++
		if perSig[sig] <= 2 { // a few witnesses per signature, so that no signature is crowded out
			out.Violation(sig, what, detail)
		}
		mu.Unlock()
		t.Errorf("%s: %s", sig, what)
	}
	var lines [][]byte
	err := vutil.ReadNDJSON(vutil.Env("VERIF_CASES", ""), func(line []byte) error {
		lines = append(lines, append([]byte(nil), line...))
		return nil
	})
	if err != nil {
		t.Fatal(err)
	}
	var wg sync.WaitGroup
	sem := make(chan struct{}, 8)
	for idx, line := range lines {
		var c tcase
		if err := json.Unmarshal(line, &c); err != nil {
			t.Fatal(err)
		}
		wg.Add(1)
		sem <- struct{}{}
		go func(idx int, c tcase, line []byte) {
			defer wg.Done()
			defer func() { <-sem }()
			r := vutil.Rand(5200 + int64(idx))
			for rep := 0; rep < reps; rep++ {
				func() {
					defer func() {
						if x := recover(); x != nil {
							viol("bn256-panic:"+c.Kind+":"+c.Grp, fmt.Sprintf("panic in case %s: %v", line, x), map[string]any{"case": json.RawMessage(line)})
						}
					}()
					if c.Kind == "enc" {
						encCase(&c, r, out, viol, unreal, stats, &mu)
					} else {
						lawCase(&c, r, out, viol, stats, &mu)
					}
				}()
			}
		}(idx, c, line)
	}
	wg.Wait()
	for i := 0; i < len(lines) && i < 4; i++ {
		out.Sample(json.RawMessage(lines[i*(len(lines)/4)]))
	}
	for k, v := range unreal {
		out.Extra["unrealised_"+k] = v
	}
	if len(mustSamples) > 0 {
		out.Extra["unrealised_must_samples"] = mustSamples
	}
	for k, v := range stats {
		out.Extra[k] = v
	}
	for k, v := range perSig {
		out.Extra["violations_"+k] = v
	}
}

func encCase(c *tcase, r *rand.Rand, out *vutil.Out, viol func(string, string, any), unreal, stats map[string]int, mu *sync.Mutex) {
	key := fmt.Sprintf("enc/%s/%v/%v", c.Grp, c.Cs, c.On)
	var res []*big.Int // residues
	allZero := true
	for _, k := range c.Cs {
		if k != "zero" {
			allZero = false
		}
	}
	found := false
	for try := 0; try < 80 && !found; try++ {
		res = nil
		var forced [4]*big.Int
		for i, k := range c.Cs {
			forced[i] = residueOf(k)
		}
		if !c.On {
			// any residues the classes allow (made off-curve below)
			for i := range c.Cs {
				if forced[i] != nil {
					res = append(res, forced[i])
				} else {
					res = append(res, new(big.Int).Rand(r, fieldP))
				}
			}
		} else if c.Grp == "G1" {
			x, y, ok := solveG1(r, forced[0], forced[1])
			if !ok && c.On {
				break // the equations have no solution: deterministic
			}
			if !ok {
				x, y = forced[0], forced[1]
				if x == nil {
					x = new(big.Int).Rand(r, fieldP)
				}
				if y == nil {
					y = new(big.Int).Rand(r, fieldP)
				}
			}
			res = []*big.Int{x, y}
		} else {
			var ok bool
			res, ok = solveG2(r, forced)
			if !ok && c.On {
				break
			}
			if !ok {
				res = nil
				for i := 0; i < 4; i++ {
					if forced[i] != nil {
						res = append(res, forced[i])
					} else {
						res = append(res, new(big.Int).Rand(r, fieldP))
					}
				}
			}
		}
		if !c.On {
			// make sure the residues are off the curve: perturb a free coordinate if needed
			for i, k := range c.Cs {
				if residueOf(k) == nil {
					res[i] = mod(new(big.Int).Add(res[i], big.NewInt(int64(1+r.Intn(5)))))
					break
				}
			}
		}
		on := false
		if c.Grp == "G1" {
			on = onCurveG1(res[0], res[1])
		} else {
			on = onCurveG2(res[0], res[1], res[2], res[3])
		}
		if on != c.On {
			continue
		}
		ok := true
		for i, k := range c.Cs {
			if rawFor(k, res[i]) == nil {
				ok = false
			}
		}
		found = ok
	}
	if !found {
		mu.Lock()
		if c.Must {
			unreal["must_"+c.Grp]++
			if len(mustSamples) < 5 {
				mustSamples = append(mustSamples, fmt.Sprintf("%s %v on=%v", c.Grp, c.Cs, c.On))
			}
		} else {
			unreal["optional_"+c.Grp]++
		}
		mu.Unlock()
		return
	}
	if c.On && !allZero {
		for i, k := range c.Cs {
			if k == "p" || k == "zero" {
				mu.Lock()
				stats[fmt.Sprintf("zero_component_on_curve_%s_%d_%s", c.Grp, i, k)]++
				mu.Unlock()
			}
		}
	}
	var enc []byte
	for i, k := range c.Cs {
		enc = append(enc, be32(rawFor(k, res[i]))...)
	}
	mu.Lock()
	out.Case(key)
	stats["enc_cases_"+c.Grp]++
	mu.Unlock()
	var got bool
	var re []byte
	if c.Grp == "G1" {
		e, ok := new(bn256.G1).Unmarshal(enc)
		got = ok
		if ok {
			re = e.Marshal()
		}
	} else {
		e, ok := new(bn256.G2).Unmarshal(enc)
		got = ok
		if ok {
			re = e.Marshal()
		}
	}
	detail := map[string]any{"group": c.Grp, "classes": c.Cs, "residues_on_curve": c.On, "encoding": hex.EncodeToString(enc), "model_accept": c.Accept, "unmarshal_ok": got}
	if got && re != nil {
		detail["remarshalled"] = hex.EncodeToString(re)
	}
	switch {
	case got == c.Accept:
		if got && !allZero && !bytes.Equal(re, enc) {
			viol("bn256-roundtrip:"+c.Grp, fmt.Sprintf("%s: an accepted canonical encoding does not re-marshal to itself", c.Grp), detail)
		}
		if got && allZero && !bytes.Equal(re, enc) {
			viol("bn256-roundtrip:"+c.Grp, fmt.Sprintf("%s: the encoding of infinity does not re-marshal to itself", c.Grp), detail)
		}
	case got && !c.Accept && c.OldAccept:
		// a point on the curve with a coordinate >= p: a second accepted encoding of the same element
		mu.Lock()
		stats["noncanonical_accepted_"+c.Grp]++
		mu.Unlock()
		viol("bn256-"+strings.ToLower(c.Grp)+"-unmarshal-noncanonical-coordinate",
			fmt.Sprintf("%s.Unmarshal accepts an encoding with coordinate classes %v (a coordinate >= p) of a point on the curve; Marshal of the result gives different bytes, so the element has two accepted encodings", c.Grp, c.Cs), detail)
	case got && !c.Accept:
		viol("bn256-unmarshal-accepts-invalid:"+c.Grp, fmt.Sprintf("%s.Unmarshal accepts an encoding that is not a point on the curve (classes %v)", c.Grp, c.Cs), detail)
	default:
		viol("bn256-unmarshal-rejects-valid:"+c.Grp, fmt.Sprintf("%s.Unmarshal rejects the canonical encoding of a point on the curve (classes %v)", c.Grp, c.Cs), detail)
	}
}

// ---------------------------------------------------------------- laws

var order = bn256.Order

func scalar(class string, r *rand.Rand, rs map[string]*big.Int) *big.Int {
	switch class {
	case "0":
		return big.NewInt(0)
	case "1":
		return big.NewInt(1)
	case "2":
		return big.NewInt(2)
	case "n-1":
		return new(big.Int).Sub(order, big.NewInt(1))
	case "n":
		return new(big.Int).Set(order)
	case "n+1":
		return new(big.Int).Add(order, big.NewInt(1))
	case "-1":
		return big.NewInt(-1)
	case "-2":
		return big.NewInt(-2)
	case "r1", "r2":
		if rs[class] == nil {
			k := new(big.Int).Rand(r, order)
			if k.Sign() == 0 {
				k.SetInt64(11)
			}
			if r.Intn(4) == 0 { // sometimes a scalar beyond the order, sometimes a small one
				k.Add(k, order)
			} else if r.Intn(4) == 0 {
				k.SetInt64(int64(3 + r.Intn(1000)))
			}
			rs[class] = k
		}
		return rs[class]
	}
	panic("unknown scalar class " + class)
}

func red(k *big.Int) *big.Int { return new(big.Int).Mod(k, order) } // Euclidean: 0 <= result < order

// elt is an element of one of the three groups with uniform operations; marshalled bytes identify it.
type elt struct {
	g  string
	g1 *bn256.G1
	g2 *bn256.G2
	gt *bn256.GT
}

// gT = e(g1, g2).  Marshal reduces the coefficients in place (gfP12.Minimal), so it is called once here: afterwards
// the shared value is only read by the concurrent cases.
var gT = func() *bn256.GT {
	e := bn256.Pair(new(bn256.G1).ScalarBaseMult(big.NewInt(1)), new(bn256.G2).ScalarBaseMult(big.NewInt(1)))
	e.Marshal()
	return e
}()

func base(g string, k *big.Int) elt { // [k]generator
	switch g {
	case "G1":
		return elt{g: g, g1: new(bn256.G1).ScalarBaseMult(k)}
	case "G2":
		return elt{g: g, g2: new(bn256.G2).ScalarBaseMult(k)}
	}
	return elt{g: g, gt: new(bn256.GT).ScalarMult(gT, k)}
}
func (a elt) smul(k *big.Int) elt {
	switch a.g {
	case "G1":
		return elt{g: a.g, g1: new(bn256.G1).ScalarMult(a.g1, k)}
	case "G2":
		return elt{g: a.g, g2: new(bn256.G2).ScalarMult(a.g2, k)}
	}
	return elt{g: a.g, gt: new(bn256.GT).ScalarMult(a.gt, k)}
}
func (a elt) add(b elt) elt {
	switch a.g {
	case "G1":
		return elt{g: a.g, g1: new(bn256.G1).Add(a.g1, b.g1)}
	case "G2":
		return elt{g: a.g, g2: new(bn256.G2).Add(a.g2, b.g2)}
	}
	return elt{g: a.g, gt: new(bn256.GT).Add(a.gt, b.gt)}
}
func (a elt) bytes() []byte {
	switch a.g {
	case "G1":
		return a.g1.Marshal()
	case "G2":
		return a.g2.Marshal()
	}
	return a.gt.Marshal()
}
func (a elt) eq(b elt) bool { return bytes.Equal(a.bytes(), b.bytes()) }

func lawCase(c *tcase, r *rand.Rand, out *vutil.Out, viol func(string, string, any), stats map[string]int, mu *sync.Mutex) {
	rs := map[string]*big.Int{}
	key := fmt.Sprintf("%s/%s/%s/%s/%s", c.Kind, c.Grp, c.A, c.B, c.C)
	mu.Lock()
	out.Case(key)
	stats["law_cases"]++
	mu.Unlock()
	neg := func(ks ...*big.Int) bool {
		for _, k := range ks {
			if k.Sign() < 0 {
				return true
			}
		}
		return false
	}
	report := func(law string, rawNeg bool, got, want elt, scal map[string]string) {
		sig := "bn256-law:" + law + ":" + c.Grp
		what := fmt.Sprintf("%s: law %s fails for scalar classes a=%s b=%s c=%s", c.Grp, law, c.A, c.B, c.C)
		if rawNeg {
			sig = "bn256-scalarmult-negative-scalar:" + c.Grp
			what = fmt.Sprintf("%s: ScalarMult/ScalarBaseMult with a negative scalar does not compute the inverse multiple (law %s, classes a=%s b=%s): the bits of the two's complement are used", c.Grp, law, c.A, c.B)
		}
		viol(sig, what, map[string]any{"law": law, "group": c.Grp, "a": c.A, "b": c.B, "c": c.C, "scalars": scal,
			"got": hex.EncodeToString(got.bytes())[:64], "want": hex.EncodeToString(want.bytes())[:64]})
	}
	sc := func(ks map[string]*big.Int) map[string]string {
		m := map[string]string{}
		for k, v := range ks {
			m[k] = v.String()
		}
		return m
	}
	g := c.Grp
	switch c.Kind {
	case "hom": // [a]g + [b]g = [a+b]g, raw scalars handed to ScalarBaseMult / ScalarMult
		a, b := scalar(c.A, r, rs), scalar(c.B, r, rs)
		want := base(g, red(new(big.Int).Add(a, b)))
		got := base(g, a).add(base(g, b))
		if !got.eq(want) {
			report("hom", neg(a, b), got, want, sc(map[string]*big.Int{"a": a, "b": b}))
		}
	case "smul": // [b]([a]g) = [ab]g, raw b handed to ScalarMult
		a, b := scalar(c.A, r, rs), scalar(c.B, r, rs)
		want := base(g, red(new(big.Int).Mul(a, b)))
		got := base(g, red(a)).smul(b)
		if !got.eq(want) {
			report("smul", neg(b), got, want, sc(map[string]*big.Int{"a": a, "b": b}))
		}
	case "assoc":
		a, b, cc := red(scalar(c.A, r, rs)), red(scalar(c.B, r, rs)), red(scalar(c.C, r, rs))
		P, Q, R := base(g, a), base(g, b), base(g, cc)
		l, rr := P.add(Q).add(R), P.add(Q.add(R))
		want := base(g, red(new(big.Int).Add(new(big.Int).Add(a, b), cc)))
		if !l.eq(rr) || !l.eq(want) {
			report("assoc", false, l, want, sc(map[string]*big.Int{"a": a, "b": b, "c": cc}))
		}
		if !P.add(Q).eq(Q.add(P)) {
			report("comm", false, P.add(Q), Q.add(P), sc(map[string]*big.Int{"a": a, "b": b}))
		}
	case "neg":
		a := red(scalar(c.A, r, rs))
		P := base(g, a)
		zero := base(g, big.NewInt(0))
		var N elt
		switch g {
		case "G1":
			N = elt{g: g, g1: new(bn256.G1).Neg(P.g1)}
		case "GT":
			N = elt{g: g, gt: new(bn256.GT).Neg(P.gt)}
		default: // G2 has no Neg: the inverse is the (n-1)-fold multiple
			N = P.smul(new(big.Int).Sub(order, big.NewInt(1)))
		}
		if !P.add(N).eq(zero) || !N.eq(base(g, red(new(big.Int).Neg(a)))) {
			report("neg", false, P.add(N), zero, sc(map[string]*big.Int{"a": a}))
		}
		if !P.add(zero).eq(P) || !zero.add(P).eq(P) {
			report("identity", false, P.add(zero), P, sc(map[string]*big.Int{"a": a}))
		}
	case "order":
		a := red(scalar(c.A, r, rs))
		P := base(g, a)
		zero := base(g, big.NewInt(0))
		if got := P.smul(order); !got.eq(zero) {
			report("order", false, got, zero, sc(map[string]*big.Int{"a": a}))
		}
		if g != "GT" && !bytes.Equal(zero.bytes(), make([]byte, len(zero.bytes()))) {
			report("infinity-encoding", false, zero, zero, nil)
		}
	case "roundtrip":
		a := red(scalar(c.A, r, rs))
		P := base(g, a)
		m := P.bytes()
		var back []byte
		ok := false
		switch g {
		case "G1":
			e, o := new(bn256.G1).Unmarshal(m)
			if ok = o; o {
				back = e.Marshal()
			}
		case "G2":
			e, o := new(bn256.G2).Unmarshal(m)
			if ok = o; o {
				back = e.Marshal()
			}
		default:
			e, o := new(bn256.GT).Unmarshal(m)
			if ok = o; o {
				back = e.Marshal()
				// and the unmarshalled element behaves as the original
				if !bytes.Equal(new(bn256.GT).Add(e, gT).Marshal(), P.add(base(g, big.NewInt(1))).bytes()) {
					ok = false
				}
			}
		}
		if !ok || !bytes.Equal(back, m) {
			viol("bn256-roundtrip:"+g, fmt.Sprintf("%s: Unmarshal(Marshal([%s]g)) does not return an equal element", g, c.A), map[string]any{"a": a.String(), "marshal": hex.EncodeToString(m), "ok": ok})
		}
		if g != "GT" {
			// the unmarshalled element is usable: adding the generator gives [a+1]g
			var sum []byte
			if g == "G1" {
				e, _ := new(bn256.G1).Unmarshal(m)
				sum = new(bn256.G1).Add(e, new(bn256.G1).ScalarBaseMult(big.NewInt(1))).Marshal()
			} else {
				e, _ := new(bn256.G2).Unmarshal(m)
				sum = new(bn256.G2).Add(e, new(bn256.G2).ScalarBaseMult(big.NewInt(1))).Marshal()
			}
			if !bytes.Equal(sum, base(g, red(new(big.Int).Add(a, big.NewInt(1)))).bytes()) {
				viol("bn256-roundtrip:"+g, fmt.Sprintf("%s: the element returned by Unmarshal(Marshal([%s]g)) does not add like the original", g, c.A), map[string]any{"a": a.String()})
			}
		}
	case "bilinear":
		a, b := red(scalar(c.A, r, rs)), red(scalar(c.B, r, rs))
		got := elt{g: "GT", gt: bn256.Pair(new(bn256.G1).ScalarBaseMult(a), new(bn256.G2).ScalarBaseMult(b))}
		want := base("GT", red(new(big.Int).Mul(a, b)))
		if !got.eq(want) {
			report("bilinear", false, got, want, sc(map[string]*big.Int{"a": a, "b": b}))
		}
		// e(aP, Q)^b = e(P, bQ)^a = e(P,Q)^(ab) with the exponent applied in GT
		alt := elt{g: "GT", gt: new(bn256.GT).ScalarMult(bn256.Pair(new(bn256.G1).ScalarBaseMult(a), new(bn256.G2).ScalarBaseMult(big.NewInt(1))), b)}
		if !alt.eq(want) {
			report("bilinear-gt-exponent", false, alt, want, sc(map[string]*big.Int{"a": a, "b": b}))
		}
		mu.Lock()
		stats["pairings"] += 2
		mu.Unlock()
	case "nondegenerate":
		one := base("GT", big.NewInt(0))
		g0 := elt{g: "GT", gt: gT}
		if g0.eq(one) {
			report("nondegenerate", false, g0, one, nil)
		}
		if !g0.smul(order).eq(one) {
			report("gt-order", false, g0.smul(order), one, nil)
		}
	default:
		panic("unknown case kind " + c.Kind)
	}
}
