// Binding R for C52 (bn256): every case TLC emits from spec/Bn256Enc.tla is materialised on the real curve.
//   - encoding classes (canonical / +p / p / zero / 2^256-1 per coordinate, curve equation holding or not for the
//     residues) against the real G1/G2 Unmarshal, with the model's Accept as the expected decision;
//   - law instances over scalar classes against the real G1/G2/GT operations (metamorphic: both sides are computed
//     by the package; expected logarithms with math/big).
package c52

import (
	"bytes"
	"encoding/hex"
	"encoding/json"
	"fmt"
	"math/big"
	"math/rand"
	"strings"
	"sync"
	"testing"

	"golang.org/x/crypto/bn256"
	"verif/harness/vutil"
)

type tcase struct {
	Kind       string   `json:"kind"`
	Grp        string   `json:"grp"`
	Cs         []string `json:"cs"`
	On         bool     `json:"on"`
	Accept     bool     `json:"accept"`
	ImplAccept bool     `json:"implAccept"`
	A          string   `json:"a"`
	B          string   `json:"b"`
	C          string   `json:"c"`
}

// curve parameters: the definition of the groups (constants.go, curve.go, twist.go)
var (
	fieldP, _ = new(big.Int).SetString("65000549695646603732796438742359905742825358107623003571877145026864184071783", 10)
	twoTo256  = new(big.Int).Lsh(big.NewInt(1), 256)
	// twist constant 3/(i+3) = tbI*i + tbR
	tbI, _ = new(big.Int).SetString("6500054969564660373279643874235990574282535810762300357187714502686418407178", 10)
	tbR, _ = new(big.Int).SetString("45500384786952622612957507119651934019977750675336102500314001518804928850249", 10)
)

func mod(x *big.Int) *big.Int { return new(big.Int).Mod(x, fieldP) }

// reference curve equations on residues
func onCurveG1(x, y *big.Int) bool {
	l := mod(new(big.Int).Mul(y, y))
	r := new(big.Int).Mul(x, x)
	r.Mul(r, x)
	r.Add(r, big.NewInt(3))
	return l.Cmp(mod(r)) == 0
}

type fp2 struct{ i, r *big.Int } // i*I + r, I^2 = -1

func fmul(a, b fp2) fp2 {
	// (ai I + ar)(bi I + br) = (ai br + ar bi) I + (ar br - ai bi)
	i := new(big.Int).Mul(a.i, b.r)
	i.Add(i, new(big.Int).Mul(a.r, b.i))
	r := new(big.Int).Mul(a.r, b.r)
	r.Sub(r, new(big.Int).Mul(a.i, b.i))
	return fp2{mod(i), mod(r)}
}
func fadd(a, b fp2) fp2 { return fp2{mod(new(big.Int).Add(a.i, b.i)), mod(new(big.Int).Add(a.r, b.r))} }
func onCurveG2(xi, xr, yi, yr *big.Int) bool {
	x, y := fp2{mod(xi), mod(xr)}, fp2{mod(yi), mod(yr)}
	l := fmul(y, y)
	r := fadd(fmul(fmul(x, x), x), fp2{tbI, tbR})
	return l.i.Cmp(r.i) == 0 && l.r.Cmp(r.r) == 0
}

func be32(x *big.Int) []byte {
	b := x.Bytes()
	if len(b) > 32 {
		panic("value does not fit in 32 bytes")
	}
	out := make([]byte, 32)
	copy(out[32-len(b):], b)
	return out
}

// rawFor returns the raw coordinate value of the class for residue v (nil if the class cannot carry that residue).
func rawFor(class string, v *big.Int) *big.Int {
	switch class {
	case "canon":
		if v.Sign() == 0 {
			return nil
		}
		return v
	case "plusp":
		r := new(big.Int).Add(v, fieldP)
		if r.Cmp(twoTo256) >= 0 || v.Sign() == 0 {
			return nil
		}
		return r
	case "p":
		if v.Sign() != 0 {
			return nil
		}
		return new(big.Int).Set(fieldP)
	case "zero":
		if v.Sign() != 0 {
			return nil
		}
		return new(big.Int)
	case "max":
		m := new(big.Int).Sub(twoTo256, big.NewInt(1))
		if mod(m).Cmp(v) != 0 {
			return nil
		}
		return m
	}
	return nil
}

// residueOf: the residue a class forces, or nil if it is free.
func residueOf(class string) *big.Int {
	switch class {
	case "p", "zero":
		return new(big.Int)
	case "max":
		return mod(new(big.Int).Sub(twoTo256, big.NewInt(1)))
	}
	return nil
}

func sqrtMod(a *big.Int) *big.Int { return new(big.Int).ModSqrt(mod(a), fieldP) }

// cube roots modulo p (p = 1 mod 3): a^((p+2)/9)-style shortcuts do not apply in general; search by exponentiation
// with the cofactor is avoided -- a coordinate class that needs a cube root is simply reported as unrealised.

// pointsG1 yields candidate affine points of G1 (residues), including ones that the classes force.
func candidateG1(r *rand.Rand, cs []string) (x, y *big.Int, ok bool) {
	fx, fy := residueOf(cs[0]), residueOf(cs[1])
	switch {
	case fx != nil && fy != nil:
		return fx, fy, onCurveG1(fx, fy)
	case fx != nil:
		y := sqrtMod(new(big.Int).Add(new(big.Int).Exp(fx, big.NewInt(3), fieldP), big.NewInt(3)))
		if y == nil {
			return nil, nil, false
		}
		if r.Intn(2) == 0 {
			y = mod(new(big.Int).Neg(y))
		}
		return fx, y, true
	case fy != nil:
		return nil, nil, false // needs a cube root
	}
	k := new(big.Int).Rand(r, bn256.Order)
	if k.Sign() == 0 {
		k.SetInt64(7)
	}
	m := new(bn256.G1).ScalarBaseMult(k).Marshal()
	return new(big.Int).SetBytes(m[:32]), new(big.Int).SetBytes(m[32:]), true
}

func TestCases(t *testing.T) {
	out := vutil.NewOut()
	defer func() {
		if err := out.Write(); err != nil {
			t.Fatal(err)
		}
	}()
	reps := 1
	if vutil.Thorough() {
		reps = 10
	}
	var mu sync.Mutex // guards out, unreal, stats, perSig
	unreal := map[string]int{}
	stats := map[string]int{}
	perSig := map[string]int{}
	viol := func(sig, what string, detail any) {
		mu.Lock()
		perSig[sig]++
		if perSig[sig] <= 2 { // a few witnesses per signature, so that no signature is crowded out
			out.Violation(sig, what, detail)
		}
		mu.Unlock()
		t.Errorf("%s: %s", sig, what)
	}
	var lines [][]byte
	err := vutil.ReadNDJSON(vutil.Env("VERIF_CASES", ""), func(line []byte) error {
		lines = append(lines, append([]byte(nil), line...))
		return nil
	})
	if err != nil {
		t.Fatal(err)
	}
	var wg sync.WaitGroup
	sem := make(chan struct{}, 8)
	for idx, line := range lines {
		var c tcase
		if err := json.Unmarshal(line, &c); err != nil {
			t.Fatal(err)
		}
		wg.Add(1)
		sem <- struct{}{}
		go func(idx int, c tcase, line []byte) {
			defer wg.Done()
			defer func() { <-sem }()
			r := vutil.Rand(5200 + int64(idx))
			for rep := 0; rep < reps; rep++ {
				func() {
					defer func() {
						if x := recover(); x != nil {
							viol("bn256-panic:"+c.Kind+":"+c.Grp, fmt.Sprintf("panic in case %s: %v", line, x), map[string]any{"case": json.RawMessage(line)})
						}
					}()
					if c.Kind == "enc" {
						encCase(&c, r, out, viol, unreal, stats, &mu)
					} else {
						lawCase(&c, r, out, viol, stats, &mu)
					}
				}()
			}
		}(idx, c, line)
	}
	wg.Wait()
	for i := 0; i < len(lines) && i < 4; i++ {
		out.Sample(json.RawMessage(lines[i*(len(lines)/4)]))
	}
	for k, v := range unreal {
		out.Extra["unrealised_"+k] = v
	}
	for k, v := range stats {
		out.Extra[k] = v
	}
	for k, v := range perSig {
		out.Extra["violations_"+k] = v
	}
}

func encCase(c *tcase, r *rand.Rand, out *vutil.Out, viol func(string, string, any), unreal, stats map[string]int, mu *sync.Mutex) {
	key := fmt.Sprintf("enc/%s/%v/%v", c.Grp, c.Cs, c.On)
	var res []*big.Int // residues
	allZero := true
	for _, k := range c.Cs {
		if k != "zero" {
			allZero = false
		}
	}
	found := false
	for try := 0; try < 60 && !found; try++ {
		res = nil
		if c.Grp == "G1" {
			x, y, ok := candidateG1(r, c.Cs)
			if !ok && c.On {
				break
			}
			if !ok {
				// off-curve wanted: any residues the classes allow
				x, y = residueOf(c.Cs[0]), residueOf(c.Cs[1])
				if x == nil {
					x = new(big.Int).Rand(r, fieldP)
				}
				if y == nil {
					y = new(big.Int).Rand(r, fieldP)
				}
			}
			res = []*big.Int{x, y}
		} else {
			k := new(big.Int).Rand(r, bn256.Order)
			if k.Sign() == 0 {
				k.SetInt64(5)
			}
			m := new(bn256.G2).ScalarBaseMult(k).Marshal()
			for i := 0; i < 4; i++ {
				res = append(res, new(big.Int).SetBytes(m[32*i:32*i+32]))
			}
			forced := false
			for i, k := range c.Cs {
				if f := residueOf(k); f != nil {
					res[i] = f
					forced = true
				}
			}
			if forced && c.On {
				break // a twist point with a prescribed coordinate: not searched for
			}
		}
		if !c.On {
			// make sure the residues are off the curve: perturb a free coordinate if needed
			for i, k := range c.Cs {
				if residueOf(k) == nil {
					res[i] = mod(new(big.Int).Add(res[i], big.NewInt(int64(1+r.Intn(5)))))
					break
				}
			}
		}
		on := false
		if c.Grp == "G1" {
			on = onCurveG1(res[0], res[1])
		} else {
			on = onCurveG2(res[0], res[1], res[2], res[3])
		}
		if on != c.On {
			continue
		}
		ok := true
		for i, k := range c.Cs {
			if rawFor(k, res[i]) == nil {
				ok = false
			}
		}
		found = ok
	}
	if !found {
		mu.Lock()
		unreal[c.Grp]++
		mu.Unlock()
		return
	}
	var enc []byte
	for i, k := range c.Cs {
		enc = append(enc, be32(rawFor(k, res[i]))...)
	}
	mu.Lock()
	out.Case(key)
	stats["enc_cases_"+c.Grp]++
	mu.Unlock()
	var got bool
	var re []byte
	if c.Grp == "G1" {
		e, ok := new(bn256.G1).Unmarshal(enc)
		got = ok
		if ok {
			re = e.Marshal()
		}
	} else {
		e, ok := new(bn256.G2).Unmarshal(enc)
		got = ok
		if ok {
			re = e.Marshal()
		}
	}
	detail := map[string]any{"group": c.Grp, "classes": c.Cs, "residues_on_curve": c.On, "encoding": hex.EncodeToString(enc), "model_accept": c.Accept, "unmarshal_ok": got}
	if got && re != nil {
		detail["remarshalled"] = hex.EncodeToString(re)
	}
	switch {
	case got == c.Accept:
		if got && !allZero && !bytes.Equal(re, enc) {
			viol("bn256-roundtrip:"+c.Grp, fmt.Sprintf("%s: an accepted canonical encoding does not re-marshal to itself", c.Grp), detail)
		}
		if got && allZero && !bytes.Equal(re, enc) {
			viol("bn256-roundtrip:"+c.Grp, fmt.Sprintf("%s: the encoding of infinity does not re-marshal to itself", c.Grp), detail)
		}
	case got && !c.Accept && c.ImplAccept:
		// a point on the curve with a coordinate >= p: a second accepted encoding of the same element
		mu.Lock()
		stats["noncanonical_accepted_"+c.Grp]++
		mu.Unlock()
		viol("bn256-"+strings.ToLower(c.Grp)+"-unmarshal-noncanonical-coordinate",
			fmt.Sprintf("%s.Unmarshal accepts an encoding with coordinate classes %v (a coordinate >= p) of a point on the curve; Marshal of the result gives different bytes, so the element has two accepted encodings", c.Grp, c.Cs), detail)
	case got && !c.Accept:
		viol("bn256-unmarshal-accepts-invalid:"+c.Grp, fmt.Sprintf("%s.Unmarshal accepts an encoding that is not a point on the curve (classes %v)", c.Grp, c.Cs), detail)
	default:
		viol("bn256-unmarshal-rejects-valid:"+c.Grp, fmt.Sprintf("%s.Unmarshal rejects the canonical encoding of a point on the curve (classes %v)", c.Grp, c.Cs), detail)
	}
}

// ---------------------------------------------------------------- laws

var order = bn256.Order

func scalar(class string, r *rand.Rand, rs map[string]*big.Int) *big.Int {
	switch class {
	case "0":
		return big.NewInt(0)
	case "1":
		return big.NewInt(1)
	case "2":
		return big.NewInt(2)
	case "n-1":
		return new(big.Int).Sub(order, big.NewInt(1))
	case "n":
		return new(big.Int).Set(order)
	case "n+1":
		return new(big.Int).Add(order, big.NewInt(1))
	case "-1":
		return big.NewInt(-1)
	case "-2":
		return big.NewInt(-2)
	case "r1", "r2":
		if rs[class] == nil {
			k := new(big.Int).Rand(r, order)
			if k.Sign() == 0 {
				k.SetInt64(11)
			}
			if r.Intn(4) == 0 { // sometimes a scalar beyond the order, sometimes a small one
				k.Add(k, order)
			} else if r.Intn(4) == 0 {
				k.SetInt64(int64(3 + r.Intn(1000)))
			}
			rs[class] = k
		}
		return rs[class]
	}
	panic("unknown scalar class " + class)
}

func red(k *big.Int) *big.Int { return new(big.Int).Mod(k, order) } // Euclidean: 0 <= result < order

// elt is an element of one of the three groups with uniform operations; marshalled bytes identify it.
type elt struct {
	g  string
	g1 *bn256.G1
	g2 *bn256.G2
	gt *bn256.GT
}

// gT = e(g1, g2).  Marshal reduces the coefficients in place (gfP12.Minimal), so it is called once here: afterwards
// the shared value is only read by the concurrent cases.
var gT = func() *bn256.GT {
	e := bn256.Pair(new(bn256.G1).ScalarBaseMult(big.NewInt(1)), new(bn256.G2).ScalarBaseMult(big.NewInt(1)))
	e.Marshal()
	return e
}()

func base(g string, k *big.Int) elt { // [k]generator
	switch g {
	case "G1":
		return elt{g: g, g1: new(bn256.G1).ScalarBaseMult(k)}
	case "G2":
		return elt{g: g, g2: new(bn256.G2).ScalarBaseMult(k)}
	}
	return elt{g: g, gt: new(bn256.GT).ScalarMult(gT, k)}
}
func (a elt) smul(k *big.Int) elt {
	switch a.g {
	case "G1":
		return elt{g: a.g, g1: new(bn256.G1).ScalarMult(a.g1, k)}
	case "G2":
		return elt{g: a.g, g2: new(bn256.G2).ScalarMult(a.g2, k)}
	}
	return elt{g: a.g, gt: new(bn256.GT).ScalarMult(a.gt, k)}
}
func (a elt) add(b elt) elt {
	switch a.g {
	case "G1":
		return elt{g: a.g, g1: new(bn256.G1).Add(a.g1, b.g1)}
	case "G2":
		return elt{g: a.g, g2: new(bn256.G2).Add(a.g2, b.g2)}
	}
	return elt{g: a.g, gt: new(bn256.GT).Add(a.gt, b.gt)}
}
func (a elt) bytes() []byte {
	switch a.g {
	case "G1":
		return a.g1.Marshal()
	case "G2":
		return a.g2.Marshal()
	}
	return a.gt.Marshal()
}
func (a elt) eq(b elt) bool { return bytes.Equal(a.bytes(), b.bytes()) }

func lawCase(c *tcase, r *rand.Rand, out *vutil.Out, viol func(string, string, any), stats map[string]int, mu *sync.Mutex) {
	rs := map[string]*big.Int{}
	key := fmt.Sprintf("%s/%s/%s/%s/%s", c.Kind, c.Grp, c.A, c.B, c.C)
	mu.Lock()
	out.Case(key)
	stats["law_cases"]++
	mu.Unlock()
	neg := func(ks ...*big.Int) bool {
		for _, k := range ks {
			if k.Sign() < 0 {
				return true
			}
		}
		return false
	}
	report := func(law string, rawNeg bool, got, want elt, scal map[string]string) {
		sig := "bn256-law:" + law + ":" + c.Grp
		what := fmt.Sprintf("%s: law %s fails for scalar classes a=%s b=%s c=%s", c.Grp, law, c.A, c.B, c.C)
		if rawNeg {
			sig = "bn256-scalarmult-negative-scalar:" + c.Grp
			what = fmt.Sprintf("%s: ScalarMult/ScalarBaseMult with a negative scalar does not compute the inverse multiple (law %s, classes a=%s b=%s): the bits of the two's complement are used", c.Grp, law, c.A, c.B)
		}
		viol(sig, what, map[string]any{"law": law, "group": c.Grp, "a": c.A, "b": c.B, "c": c.C, "scalars": scal,
			"got": hex.EncodeToString(got.bytes())[:64], "want": hex.EncodeToString(want.bytes())[:64]})
	}
	sc := func(ks map[string]*big.Int) map[string]string {
		m := map[string]string{}
		for k, v := range ks {
			m[k] = v.String()
		}
		return m
	}
	g := c.Grp
	switch c.Kind {
	case "hom": // [a]g + [b]g = [a+b]g, raw scalars handed to ScalarBaseMult / ScalarMult
		a, b := scalar(c.A, r, rs), scalar(c.B, r, rs)
		want := base(g, red(new(big.Int).Add(a, b)))
		got := base(g, a).add(base(g, b))
		if !got.eq(want) {
			report("hom", neg(a, b), got, want, sc(map[string]*big.Int{"a": a, "b": b}))
		}
	case "smul": // [b]([a]g) = [ab]g, raw b handed to ScalarMult
		a, b := scalar(c.A, r, rs), scalar(c.B, r, rs)
		want := base(g, red(new(big.Int).Mul(a, b)))
		got := base(g, red(a)).smul(b)
		if !got.eq(want) {
			report("smul", neg(b), got, want, sc(map[string]*big.Int{"a": a, "b": b}))
		}
	case "assoc":
		a, b, cc := red(scalar(c.A, r, rs)), red(scalar(c.B, r, rs)), red(scalar(c.C, r, rs))
		P, Q, R := base(g, a), base(g, b), base(g, cc)
		l, rr := P.add(Q).add(R), P.add(Q.add(R))
		want := base(g, red(new(big.Int).Add(new(big.Int).Add(a, b), cc)))
		if !l.eq(rr) || !l.eq(want) {
			report("assoc", false, l, want, sc(map[string]*big.Int{"a": a, "b": b, "c": cc}))
		}
		if !P.add(Q).eq(Q.add(P)) {
			report("comm", false, P.add(Q), Q.add(P), sc(map[string]*big.Int{"a": a, "b": b}))
		}
	case "neg":
		a := red(scalar(c.A, r, rs))
		P := base(g, a)
		zero := base(g, big.NewInt(0))
		var N elt
		switch g {
		case "G1":
			N = elt{g: g, g1: new(bn256.G1).Neg(P.g1)}
		case "GT":
			N = elt{g: g, gt: new(bn256.GT).Neg(P.gt)}
		default: // G2 has no Neg: the inverse is the (n-1)-fold multiple
			N = P.smul(new(big.Int).Sub(order, big.NewInt(1)))
		}
		if !P.add(N).eq(zero) || !N.eq(base(g, red(new(big.Int).Neg(a)))) {
			report("neg", false, P.add(N), zero, sc(map[string]*big.Int{"a": a}))
		}
		if !P.add(zero).eq(P) || !zero.add(P).eq(P) {
			report("identity", false, P.add(zero), P, sc(map[string]*big.Int{"a": a}))
		}
	case "order":
		a := red(scalar(c.A, r, rs))
		P := base(g, a)
		zero := base(g, big.NewInt(0))
		if got := P.smul(order); !got.eq(zero) {
			report("order", false, got, zero, sc(map[string]*big.Int{"a": a}))
		}
		if g != "GT" && !bytes.Equal(zero.bytes(), make([]byte, len(zero.bytes()))) {
			report("infinity-encoding", false, zero, zero, nil)
		}
	case "roundtrip":
		a := red(scalar(c.A, r, rs))
		P := base(g, a)
		m := P.bytes()
		var back []byte
		ok := false
		switch g {
		case "G1":
			e, o := new(bn256.G1).Unmarshal(m)
			if ok = o; o {
				back = e.Marshal()
			}
		case "G2":
			e, o := new(bn256.G2).Unmarshal(m)
			if ok = o; o {
				back = e.Marshal()
			}
		default:
			e, o := new(bn256.GT).Unmarshal(m)
			if ok = o; o {
				back = e.Marshal()
				// and the unmarshalled element behaves as the original
				if !bytes.Equal(new(bn256.GT).Add(e, gT).Marshal(), P.add(base(g, big.NewInt(1))).bytes()) {
					ok = false
				}
			}
		}
		if !ok || !bytes.Equal(back, m) {
			viol("bn256-roundtrip:"+g, fmt.Sprintf("%s: Unmarshal(Marshal([%s]g)) does not return an equal element", g, c.A), map[string]any{"a": a.String(), "marshal": hex.EncodeToString(m), "ok": ok})
		}
		if g != "GT" {
			// the unmarshalled element is usable: adding the generator gives [a+1]g
			var sum []byte
			if g == "G1" {
				e, _ := new(bn256.G1).Unmarshal(m)
				sum = new(bn256.G1).Add(e, new(bn256.G1).ScalarBaseMult(big.NewInt(1))).Marshal()
			} else {
				e, _ := new(bn256.G2).Unmarshal(m)
				sum = new(bn256.G2).Add(e, new(bn256.G2).ScalarBaseMult(big.NewInt(1))).Marshal()
			}
			if !bytes.Equal(sum, base(g, red(new(big.Int).Add(a, big.NewInt(1)))).bytes()) {
				viol("bn256-roundtrip:"+g, fmt.Sprintf("%s: the element returned by Unmarshal(Marshal([%s]g)) does not add like the original", g, c.A), map[string]any{"a": a.String()})
			}
		}
	case "bilinear":
		a, b := red(scalar(c.A, r, rs)), red(scalar(c.B, r, rs))
		got := elt{g: "GT", gt: bn256.Pair(new(bn256.G1).ScalarBaseMult(a), new(bn256.G2).ScalarBaseMult(b))}
		want := base("GT", red(new(big.Int).Mul(a, b)))
		if !got.eq(want) {
			report("bilinear", false, got, want, sc(map[string]*big.Int{"a": a, "b": b}))
		}
		// e(aP, Q)^b = e(P, bQ)^a = e(P,Q)^(ab) with the exponent applied in GT
		alt := elt{g: "GT", gt: new(bn256.GT).ScalarMult(bn256.Pair(new(bn256.G1).ScalarBaseMult(a), new(bn256.G2).ScalarBaseMult(big.NewInt(1))), b)}
		if !alt.eq(want) {
			report("bilinear-gt-exponent", false, alt, want, sc(map[string]*big.Int{"a": a, "b": b}))
		}
		mu.Lock()
		stats["pairings"] += 2
		mu.Unlock()
	case "nondegenerate":
		one := base("GT", big.NewInt(0))
		g0 := elt{g: "GT", gt: gT}
		if g0.eq(one) {
			report("nondegenerate", false, g0, one, nil)
		}
		if !g0.smul(order).eq(one) {
			report("gt-order", false, g0.smul(order), one, nil)
		}
	default:
		panic("unknown case kind " + c.Kind)
	}
}
