// Binding R for C02 (AEAD Open rejects every input it did not produce).
//
// Input (VERIF_CASES): base cases with their full tamper sets enumerated by TLC from
// spec/AEAD_Tamper.tla (kinds: sealed/sealedff/ad/adext/adtrunc/nonce/key/trunc/ext and the
// correlated multi-position tag changes tagmask/tagswap).  For every
// base case the message is sealed by the real code, every tamper is applied, and the real Open is
// expected to fail, return no plaintext and (ChaCha20-Poly1305) leave no decrypted bytes in the
// region of dst it would have returned.  Variants: "std"/"x" = chacha20poly1305.New/NewX;
// "secretbox"/"box" = NaCl (tag first).  Built twice: tags "verif" (assembly) and "verif,purego".
package c02

import (
	"bytes"
	"crypto/cipher"
	"encoding/hex"
	"encoding/json"
	"fmt"
	"testing"

	"golang.org/x/crypto/chacha20poly1305"
	"golang.org/x/crypto/nacl/box"
	"golang.org/x/crypto/nacl/secretbox"
	"verif/harness/c03ref"
	"verif/harness/vutil"
)

type tamper struct {
	Kind string
	I, B int
}

func (t *tamper) UnmarshalJSON(b []byte) error {
	var raw []any
	if err := json.Unmarshal(b, &raw); err != nil {
		return err
	}
	if len(raw) != 3 {
		return fmt.Errorf("bad tamper %s", b)
	}
	t.Kind = raw[0].(string)
	t.I = int(raw[1].(float64))
	t.B = int(raw[2].(float64))
	return nil
}

type baseCase struct {
	V       string   `json:"v"`
	PtLen   int      `json:"ptLen"`
	AdLen   int      `json:"adLen"`
	Kseed   int      `json:"kseed"`
	Nseed   int      `json:"nseed"`
	Pseed   int      `json:"pseed"`
	Aseed   int      `json:"aseed"`
	Sealed  []int    `json:"sealed"`
	Tampers []tamper `json:"tampers"`
}

const sentinel = 0xEE

func hx(b []byte) string {
	if len(b) > 48 {
		b = b[:48]
	}
	return hex.EncodeToString(b)
}

// call f, report whether it panicked
func panics(f func()) (msg string, p bool) {
	defer func() {
		if r := recover(); r != nil {
			p = true
			msg = fmt.Sprint(r)
		}
	}()
	f()
	return
}

func flip(b []byte, i, bit int) []byte {
	c := append([]byte(nil), b...)
	c[i] ^= 1 << bit
	return c
}

type env struct {
	t    *testing.T
	out  *vutil.Out
	path string
	nvio int
}

func (e *env) fail(sig, what string, d map[string]any) {
	d["path"] = e.path
	e.nvio++
	e.out.Violation(sig, what, d)
	if e.nvio <= 20 {
		e.t.Errorf("%s: %s %v", sig, what, d)
	} else {
		e.t.Fail()
	}
}

// apply a tamper to (key, nonce, sealed, ad); ok=false if not applicable
func apply(tm tamper, key, nonce, sealed, ad []byte, tagOff int) (k, n, s, a []byte, ok bool) {
	k, n, s, a, ok = key, nonce, sealed, ad, true
	switch tm.Kind {
	case "sealed":
		s = flip(sealed, tm.I, tm.B)
	case "sealedff":
		s = append([]byte(nil), sealed...)
		s[tm.I] ^= 0xff
	case "ad":
		a = flip(ad, tm.I, tm.B)
	case "adext":
		a = append(append([]byte(nil), ad...), 0)
	case "adtrunc":
		a = ad[:len(ad)-1]
	case "nonce":
		n = flip(nonce, tm.I, tm.B)
	case "key":
		k = flip(key, tm.I, tm.B)
	case "trunc":
		s = sealed[:len(sealed)-tm.I]
	case "ext":
		s = append(append([]byte(nil), sealed...), c03ref.Pat(99, tm.I)...)
	case "tagmask": // xor with B every tag byte whose index is set in the position mask I
		s = append([]byte(nil), sealed...)
		for j := 0; j < 16; j++ {
			if tm.I>>j&1 == 1 {
				s[tagOff+j] ^= byte(tm.B)
			}
		}
	case "tagswap": // I = 0: swap the 8-byte halves of the tag; I = 1: rotate it by 4 bytes
		s = append([]byte(nil), sealed...)
		sh := 8
		if tm.I == 1 {
			sh = 4
		}
		for j := 0; j < 16; j++ {
			s[tagOff+j] = sealed[tagOff+(j+sh)%16]
		}
	default:
		ok = false
	}
	return
}

func newAEAD(key []byte, x bool) cipher.AEAD {
	var a cipher.AEAD
	var err error
	if x {
		a, err = chacha20poly1305.NewX(key)
	} else {
		a, err = chacha20poly1305.New(key)
	}
	if err != nil {
		panic(err)
	}
	return a
}

func (e *env) chacha(c *baseCase) {
	x := c.V == "x"
	nl := 12
	if x {
		nl = 24
	}
	key, nonce := c03ref.Pat(c.Kseed, 32), c03ref.Pat(c.Nseed, nl)
	pt, ad := c03ref.Pat(c.Pseed, c.PtLen), c03ref.Pat(c.Aseed, c.AdLen)
	sealed := newAEAD(key, x).Seal(nil, nonce, pt, ad)
	if want := toBytes(c.Sealed); !bytes.Equal(sealed, want) {
		// Seal itself differs from the TLC-evaluated RFC 8439 output: that is C01's verdict.  C02 is about what the
		// real Seal produced, so the real output stays the baseline; the evidence records the discrepancy.
		n, _ := e.out.Extra["baseline_seal_differs_from_model"].(int)
		e.out.Extra["baseline_seal_differs_from_model"] = n + 1
	}
	// the untampered message must open, otherwise there is no baseline to tamper with (C01's verdict)
	if back, err := newAEAD(key, x).Open(nil, nonce, sealed, ad); err != nil || !bytes.Equal(back, pt) {
		n, _ := e.out.Extra["baseline_unusable"].(int)
		e.out.Extra["baseline_unusable"] = n + 1
		return
	}
	for _, tm := range c.Tampers {
		k, n, s, a, ok := apply(tm, key, nonce, sealed, ad, len(sealed)-16)
		if !ok {
			e.t.Fatalf("unknown tamper kind %q", tm.Kind)
		}
		e.out.Case(fmt.Sprintf("%s|%s|%d|%d|%d|%s|%d|%d", e.path, c.V, c.Kseed, c.PtLen, c.AdLen, tm.Kind, tm.I, tm.B))
		aead := newAEAD(k, x)
		// dst with a prefix and sentinel-filled spare capacity large enough for the plaintext
		np := len(s) - 16
		if np < 0 {
			np = 0
		}
		buf := bytes.Repeat([]byte{sentinel}, 4+np+8)
		copy(buf, []byte{1, 2, 3, 4})
		desc := func() map[string]any {
			return map[string]any{"v": c.V, "ptLen": c.PtLen, "adLen": c.AdLen, "tamper": []any{tm.Kind, tm.I, tm.B},
				"seeds": []int{c.Kseed, c.Nseed, c.Pseed, c.Aseed}}
		}
		var got []byte
		var err error
		if pmsg, p := panics(func() { got, err = aead.Open(buf[:4], n, s, a) }); p {
			d := desc()
			d["panic"] = pmsg
			e.fail("c02-open-panic:"+tm.Kind, "Open panicked instead of returning an error", d)
			continue
		}
		if err == nil {
			d := desc()
			d["returned"] = hx(got)
			e.fail("c02-forgery-accepted:"+tm.Kind, "Open accepted an input that Seal did not produce", d)
			continue
		}
		if len(got) != 0 {
			d := desc()
			d["returned"] = hx(got)
			e.fail("c02-plaintext-returned-on-failure", "Open returned an error together with data", d)
			continue
		}
		// no decrypted bytes in the region Open would have returned
		if np > 0 {
			ek, en := c03ref.Eff(k, n)
			dec := c03ref.KS(ek, en, 0, 64, np)
			for i := range dec {
				dec[i] ^= s[i]
			}
			region := buf[4 : 4+np]
			leaked := 0
			for i := range dec {
				if dec[i] != 0 && dec[i] != sentinel && region[i] == dec[i] {
					leaked++
				}
			}
			if leaked > 0 {
				d := desc()
				d["leakedBytes"], d["region"] = leaked, hx(region)
				e.fail("c02-plaintext-left-in-dst", "after a failed Open the returned region of dst holds decrypted bytes", d)
				continue
			}
		}
		// the same through a nil dst
		var got2 []byte
		var err2 error
		if _, p := panics(func() { got2, err2 = aead.Open(nil, n, s, a) }); p || err2 == nil || len(got2) != 0 {
			d := desc()
			d["dst"] = "nil"
			e.fail("c02-forgery-accepted:"+tm.Kind, "Open(nil, ...) accepted an input that Seal did not produce", d)
		}
	}
}

func toBytes(v []int) []byte {
	b := make([]byte, len(v))
	for i, x := range v {
		b[i] = byte(x)
	}
	return b
}

func arr32(b []byte) *[32]byte { var a [32]byte; copy(a[:], b); return &a }
func arr24(b []byte) *[24]byte { var a [24]byte; copy(a[:], b); return &a }

func (e *env) nacl(c *baseCase) {
	key, nonce, msg := c03ref.Pat(c.Kseed, 32), c03ref.Pat(c.Nseed, 24), c03ref.Pat(c.Pseed, c.PtLen)
	isBox := c.V == "box"
	var sealed []byte
	var pubS, privS, pubR, privR *[32]byte
	var shared [32]byte
	if isBox {
		var err error
		pubS, privS, err = box.GenerateKey(bytes.NewReader(c03ref.Pat(c.Kseed, 32)))
		if err != nil {
			e.t.Fatal(err)
		}
		pubR, privR, err = box.GenerateKey(bytes.NewReader(c03ref.Pat(c.Kseed+1, 32)))
		if err != nil {
			e.t.Fatal(err)
		}
		sealed = box.Seal(nil, msg, arr24(nonce), pubR, privS)
		box.Precompute(&shared, pubS, privR)
		if back, ok := box.Open(nil, sealed, arr24(nonce), pubS, privR); !ok || !bytes.Equal(back, msg) {
			e.t.Fatalf("baseline: box.Open rejects the untampered box")
		}
	} else {
		sealed = secretbox.Seal(nil, msg, arr24(nonce), arr32(key))
		if back, ok := secretbox.Open(nil, sealed, arr24(nonce), arr32(key)); !ok || !bytes.Equal(back, msg) {
			e.t.Fatalf("baseline: secretbox.Open rejects the untampered box")
		}
	}
	type attempt struct {
		name string
		open func(out, bx []byte, n *[24]byte) ([]byte, bool)
	}
	for _, tm := range c.Tampers {
		var atts []attempt
		bx, n := sealed, nonce
		switch tm.Kind {
		case "key":
			if isBox {
				// X25519 ignores bit 255 of a public key and clamps bits 0,1,2,254,255 of a private key:
				// such flips do not change the key (by specification), so they are not "a key that differs".
				if !(tm.I == 31 && tm.B == 7) {
					pk := arr32(flip(pubS[:], tm.I, tm.B))
					atts = append(atts, attempt{"peer-public-key", func(out, b []byte, n *[24]byte) ([]byte, bool) { return box.Open(out, b, n, pk, privR) }})
				}
				if !(tm.I == 0 && tm.B <= 2) && !(tm.I == 31 && tm.B >= 6) {
					sk := arr32(flip(privR[:], tm.I, tm.B))
					atts = append(atts, attempt{"private-key", func(out, b []byte, n *[24]byte) ([]byte, bool) { return box.Open(out, b, n, pubS, sk) }})
				}
				sh := arr32(flip(shared[:], tm.I, tm.B))
				atts = append(atts, attempt{"shared-key", func(out, b []byte, n *[24]byte) ([]byte, bool) { return box.OpenAfterPrecomputation(out, b, n, sh) }})
			} else {
				k := arr32(flip(key, tm.I, tm.B))
				atts = append(atts, attempt{"key", func(out, b []byte, n *[24]byte) ([]byte, bool) { return secretbox.Open(out, b, n, k) }})
			}
		default:
			_, n2, s2, _, ok := apply(tm, key, nonce, sealed, nil, 0)
			if !ok || tm.Kind == "ad" || tm.Kind == "adext" || tm.Kind == "adtrunc" {
				e.t.Fatalf("tamper kind %q not applicable to NaCl", tm.Kind)
			}
			bx, n = s2, n2
			if isBox {
				atts = append(atts, attempt{"box", func(out, b []byte, n *[24]byte) ([]byte, bool) { return box.Open(out, b, n, pubS, privR) }},
					attempt{"box-precomputed", func(out, b []byte, n *[24]byte) ([]byte, bool) {
						return box.OpenAfterPrecomputation(out, b, n, &shared)
					}})
			} else {
				atts = append(atts, attempt{"secretbox", func(out, b []byte, n *[24]byte) ([]byte, bool) { return secretbox.Open(out, b, n, arr32(key)) }})
			}
		}
		for _, at := range atts {
			e.out.Case(fmt.Sprintf("%s|%s|%d|%d|%s|%d|%d|%s", e.path, c.V, c.Kseed, c.PtLen, tm.Kind, tm.I, tm.B, at.name))
			buf := bytes.Repeat([]byte{sentinel}, 4+len(bx)+8)
			var got []byte
			var ok bool
			if pmsg, p := panics(func() { got, ok = at.open(buf[:4], bx, arr24(n)) }); p {
				e.fail("c02-nacl-open-panic:"+tm.Kind, "NaCl Open panicked instead of returning false",
					map[string]any{"v": c.V, "via": at.name, "ptLen": c.PtLen, "tamper": []any{tm.Kind, tm.I, tm.B}, "panic": pmsg})
				continue
			}
			if ok || len(got) != 0 {
				e.fail("c02-nacl-forgery-accepted:"+tm.Kind, "NaCl Open accepted (or returned data for) an input that Seal did not produce",
					map[string]any{"v": c.V, "via": at.name, "ptLen": c.PtLen, "tamper": []any{tm.Kind, tm.I, tm.B}, "ok": ok, "returned": hx(got),
						"seeds": []int{c.Kseed, c.Nseed, c.Pseed}})
			}
		}
	}
}

func TestTamper(t *testing.T) {
	out := vutil.NewOut()
	defer func() {
		if err := out.Write(); err != nil {
			t.Fatal(err)
		}
	}()
	e := &env{t: t, out: out, path: vutil.Env("VERIF_C02_PATH", "default")}
	nb := 0
	err := vutil.ReadNDJSON(vutil.Env("VERIF_CASES", ""), func(line []byte) error {
		var c baseCase
		if err := json.Unmarshal(line, &c); err != nil {
			return err
		}
		nb++
		switch c.V {
		case "std", "x":
			e.chacha(&c)
		case "secretbox", "box":
			e.nacl(&c)
		default:
			return fmt.Errorf("unknown variant %q", c.V)
		}
		if nb%11 == 1 {
			out.Sample(map[string]any{"v": c.V, "ptLen": c.PtLen, "adLen": c.AdLen, "tampers": len(c.Tampers)})
		}
		return nil
	})
	if err != nil {
		t.Fatal(err)
	}
	if nb == 0 {
		t.Fatal("no base cases")
	}
	out.Extra["base_cases_"+e.path] = nb
}
