// Conformance harness for C50 (ACME nonces, retries, context, results).
//
// TestReplay  (binding R): every single-operation behaviour TLC enumerated from AcmeNonce_Gen is
//
//	played against the REAL acme.Client through its public API (scripted fake server =
//	http.RoundTripper, scripted RetryBackoff) inside a testing/synctest bubble (virtual time);
//	the requests the server received and the value/error the caller got are compared with the
//	model's predictions, and the recorded event log is written out for trace validation.
//
// TestConcurrent (binding T): seeded random reply scripts, several goroutines sharing one client
//
//	(real time, -race); only direct checks (nonce issued / never reused) are judged here, the
//	recorded logs are validated by AcmeNonce_Trace.
//
// TestLong: seeded long sequential sessions on one client (pool carried over between calls).
// TestDefaultBackoff: the documented default back-off (Retry-After honoured, 10 s ceiling,
//
//	context deadline stops retries) in virtual time.
package c50

import (
	"context"
	"crypto/ecdsa"
	"crypto/elliptic"
	"crypto/rand"
	"encoding/json"
	"fmt"
	"net/http"
	"os"
	"sort"
	"strings"
	"sync"
	"testing"
	"testing/synctest"
	"time"

	"golang.org/x/crypto/acme"
	"verif/harness/acmefake"
	"verif/harness/vutil"
)

type mev struct {
	T string `json:"t"`
	O int    `json:"o"`
	K string `json:"k"`
	N int    `json:"n"`
	S int    `json:"s"`
}
type mres struct {
	C string `json:"c"`
	S int    `json:"s"`
}
type tcase struct {
	Nurl bool   `json:"nurl"`
	H    []mev  `json:"h"`
	Res  []mres `json:"res"`
}

var (
	keyOnce sync.Once
	acctKey *ecdsa.PrivateKey
	certKey *ecdsa.PrivateKey
)

func keys() (*ecdsa.PrivateKey, *ecdsa.PrivateKey) {
	keyOnce.Do(func() {
		acctKey, _ = ecdsa.GenerateKey(elliptic.P256(), rand.Reader)
		certKey, _ = ecdsa.GenerateKey(elliptic.P256(), rand.Reader)
	})
	return acctKey, certKey
}

func newClient(s *acmefake.Server) *acme.Client {
	k, _ := keys()
	return &acme.Client{Key: k, HTTPClient: &http.Client{Transport: s}, DirectoryURL: acmefake.Base + "/dir",
		RetryBackoff: s.Backoff, KID: acme.KeyID(acmefake.Base + "/acct/1")}
}

type traceWriter struct {
	f *os.File
	n int
}

func newTraceWriter() *traceWriter {
	p := os.Getenv("VERIF_TRACES")
	if p == "" {
		return &traceWriter{}
	}
	f, err := os.Create(p)
	if err != nil {
		panic(err)
	}
	return &traceWriter{f: f}
}
func (w *traceWriter) add(cfg acmefake.Event, log []acmefake.Event) {
	if w.f == nil {
		return
	}
	all := append([]acmefake.Event{cfg}, log...)
	b, _ := json.Marshal(all)
	w.f.Write(append(b, '\n'))
	w.n++
}
func (w *traceWriter) close() {
	if w.f != nil {
		w.f.Close()
	}
}

// script derived from a model behaviour
type script struct {
	heads, posts []string
	hi, pi       int
}

func (sc *script) choose(op *acmefake.Op, head bool, url string) string {
	if head {
		if sc.hi < len(sc.heads) {
			sc.hi++
			return sc.heads[sc.hi-1]
		}
		return "nonce" // the model never sent this request; keep the client going, judged by the comparison
	}
	if sc.pi < len(sc.posts) {
		sc.pi++
		return sc.posts[sc.pi-1]
	}
	// the model sent no further request.  A client that keeps retrying keeps getting the last
	// retriable reply (until the server's per-call request budget stops it): judged by count.
	if n := len(sc.posts); n > 0 {
		switch sc.posts[n-1] {
		case "badNonce", "e500", "e429":
			return sc.posts[n-1]
		}
	}
	return "e403"
}

var negStops int // replayed behaviours in which a NEGATIVE back-off value had to end the retries

func TestReplay(t *testing.T) {
	out := vutil.NewOut()
	tw := newTraceWriter()
	defer func() {
		tw.close()
		out.Extra["traces_written"] = tw.n
		out.Extra["c50_negative_backoff_post_cases"] = negStops
		if err := out.Write(); err != nil {
			t.Fatal(err)
		}
	}()
	allOps := os.Getenv("C50_ALL_OPS") == "1"
	caseNo := 0
	err := vutil.ReadNDJSON(vutil.Env("VERIF_CASES", ""), func(line []byte) error {
		var c tcase
		if err := json.Unmarshal(line, &c); err != nil {
			return err
		}
		caseNo++
		phases := 1
		for _, e := range c.H {
			if e.T == "call" {
				phases = e.S
			}
		}
		cands := acmefake.OpsWithPhases(phases)
		if len(cands) == 0 {
			return fmt.Errorf("no operation with %d phases", phases)
		}
		if !allOps {
			cands = []acmefake.OpSpec{cands[caseNo%len(cands)]}
		}
		for _, spec := range cands {
			replayOne(t, out, tw, c, spec, line)
		}
		return nil
	})
	if err != nil {
		t.Fatal(err)
	}
}

func replayOne(t *testing.T, out *vutil.Out, tw *traceWriter, c tcase, spec acmefake.OpSpec, line []byte) {
	// model predictions
	var sc script
	budget, phases, ip := 0, 1, 0
	wantPosts, wantHeads, cancelAt, nb := 0, 0, 0, 0
	stopVal, stops := time.Duration(0), 0
	for _, e := range c.H {
		switch e.T {
		case "init":
			ip = e.N
		case "call":
			budget, phases = e.N, e.S
			if e.K == "neg" {
				stopVal = -time.Second
			}
		case "headReply":
			sc.heads = append(sc.heads, e.K)
		case "postReply":
			sc.posts = append(sc.posts, e.K)
		case "post":
			wantPosts++
		case "head":
			wantHeads++
		case "backoff":
			nb++
			if e.K == "cancel" {
				cancelAt = nb
			}
			if e.K == "stop" {
				stops++
			}
		}
	}
	want := c.Res[0]
	key := fmt.Sprintf("%s|nurl=%v|ip=%d|b=%d|p=%d|h=%v|p=%v|c=%d|stop=%v", spec.Name, c.Nurl, ip, budget, phases, sc.heads, sc.posts, cancelAt, stopVal)
	if stops > 0 && stopVal < 0 {
		negStops++
	}
	out.Case(key)
	var res acmefake.Result
	var op *acmefake.Op
	var probs []string
	var elapsed, cancelLag time.Duration
	var log []acmefake.Event
	var cfg acmefake.Event
	synctest.Test(t, func(t *testing.T) {
		s := acmefake.NewServer()
		s.NonceURL, s.DirNonce = c.Nurl, ip == 1
		s.Choose = sc.choose
		cl := newClient(s)
		if _, err := cl.Discover(context.Background()); err != nil {
			t.Fatalf("discover: %v", err)
		}
		_, ck := keys()
		env := &acmefake.Env{CertKey: ck}
		op = s.NewOp(spec.Name, budget, phases, cancelAt)
		op.StopVal = stopVal
		t0 := time.Now()
		res = s.Run(op, func(ctx context.Context) (string, error) { return spec.Run(ctx, cl, env) })
		elapsed = time.Since(t0)
		if !op.CancelTime.IsZero() {
			cancelLag = op.Returned.Sub(op.CancelTime)
		}
		probs = s.TakeProblems()
		cfg = s.ResetEvent()
		log = s.TakeLog()
	})
	tw.add(cfg, log)
	detail := map[string]any{"op": spec.Name, "case": json.RawMessage(append([]byte(nil), line...)), "got": res,
		"posts": op.Posts, "heads": op.Heads, "refused": op.Refused, "elapsed": elapsed.String(), "log": log}
	fail := func(sig, what string) {
		out.Violation(sig, what, detail)
		t.Errorf("%s: %s (%s)", sig, what, key)
	}
	// (N1) direct: every POST carried an issued, never-used nonce
	for _, p := range probs {
		fail("c50-"+strings.SplitN(p, ":", 2)[0], p)
	}
	// (N2) number of signed requests = the model's (bounded by budget+1 per post() call)
	if op.Posts != wantPosts {
		fail("c50-post-count", fmt.Sprintf("%s: client sent %d signed POSTs, the model predicts %d (budget %d, replies %v)", spec.Name, op.Posts, wantPosts, budget, sc.posts))
	}
	for _, m := range op.Refused {
		if m == "POST" {
			fail("c50-post-after-cancel", spec.Name+": a signed request was attempted after the context had been cancelled")
		}
	}
	if cancelLag != 0 {
		fail("c50-cancel-not-honoured", fmt.Sprintf("%s: call returned %v (virtual time) after its context was cancelled", spec.Name, cancelLag))
	}
	// (N3) class of the result and the reply it derives from
	if res.Class != want.C {
		fail("c50-result-class", fmt.Sprintf("%s: caller got %s (%s), the model predicts %s", spec.Name, res.Class, res.Err, want.C))
	} else if res.Serial >= 0 && res.Serial != op.LastSerial {
		fail("c50-result-not-last-reply", fmt.Sprintf("%s: returned value/error derives from reply #%d, the last reply received was #%d", spec.Name, res.Serial, op.LastSerial))
	}
	if op.Heads != wantHeads {
		// how nonces are fetched is more precise than the property: informational only
		out.Extra["info_head_count_differs"] = fmt.Sprintf("%s heads=%d model=%d", key, op.Heads, wantHeads)
	}
	if len(out.Samples) < 5 {
		out.Sample(map[string]any{"op": spec.Name, "budget": budget, "heads": sc.heads, "posts": sc.posts, "result": res, "nposts": op.Posts})
	}
}

// ---------------------------------------------------------------------------------------------

var postKinds = []string{"ok", "ok", "ok", "okNoNonce", "badNonce", "badNonce", "e500", "e429", "e403", "neterr", "cancel"}
var headKinds = []string{"nonce", "nonce", "nonce", "nonce", "nonce", "noNonce", "e500", "neterr", "cancel"}

func TestConcurrent(t *testing.T) {
	out := vutil.NewOut()
	tw := newTraceWriter()
	defer func() {
		tw.close()
		out.Extra["traces_written"] = tw.n
		if err := out.Write(); err != nil {
			t.Fatal(err)
		}
	}()
	rounds := 60
	if v := os.Getenv("C50_ROUNDS"); v != "" {
		fmt.Sscan(v, &rounds)
	}
	rng := vutil.Rand(50)
	_, ck := keys()
	for r := 0; r < rounds; r++ {
		s := acmefake.NewServer()
		s.SlowDelay, s.BackoffDelay, s.CancelSleep = 50*time.Microsecond, 100*time.Microsecond, 3*time.Second
		s.NonceURL, s.DirNonce = rng.Intn(4) != 0, rng.Intn(2) == 0
		var cmu sync.Mutex
		crng := vutil.Rand(int64(5000 + r))
		s.Choose = func(op *acmefake.Op, head bool, url string) string {
			cmu.Lock()
			defer cmu.Unlock()
			if head {
				return headKinds[crng.Intn(len(headKinds))]
			}
			return postKinds[crng.Intn(len(postKinds))]
		}
		cl := newClient(s)
		if _, err := cl.Discover(context.Background()); err != nil {
			t.Fatalf("discover: %v", err)
		}
		env := &acmefake.Env{CertKey: ck}
		waves := 1 + rng.Intn(3)
		desc := []string{}
		for w := 0; w < waves; w++ {
			n := 2 + rng.Intn(3)
			var wg sync.WaitGroup
			start := make(chan struct{})
			for i := 0; i < n; i++ {
				spec := acmefake.Ops[rng.Intn(len(acmefake.Ops))]
				cancelAt := 0
				if rng.Intn(4) == 0 {
					cancelAt = 1 + rng.Intn(2)
				}
				op := s.NewOp(spec.Name, rng.Intn(4), spec.Phases, cancelAt)
				if rng.Intn(2) == 0 {
					op.StopVal = -time.Duration(1+rng.Intn(5)) * time.Second
				}
				desc = append(desc, spec.Name)
				wg.Add(1)
				go func() {
					defer wg.Done()
					<-start
					s.Run(op, func(ctx context.Context) (string, error) { return spec.Run(ctx, cl, env) })
				}()
			}
			close(start)
			wg.Wait()
		}
		sort.Strings(desc)
		out.Case(fmt.Sprintf("round %d %v", r, desc))
		log := s.TakeLog()
		for _, p := range s.TakeProblems() {
			sig := "c50-" + strings.SplitN(p, ":", 2)[0]
			out.Violation(sig, p, map[string]any{"round": r, "ops": desc, "log": log})
			t.Errorf("%s: %s", sig, p)
		}
		tw.add(s.ResetEvent(), log)
		if len(out.Samples) < 3 {
			out.Sample(map[string]any{"round": r, "ops": desc, "events": len(log)})
		}
	}
}

func TestLong(t *testing.T) {
	out := vutil.NewOut()
	tw := newTraceWriter()
	defer func() {
		tw.close()
		out.Extra["traces_written"] = tw.n
		if err := out.Write(); err != nil {
			t.Fatal(err)
		}
	}()
	sessions := 40
	if v := os.Getenv("C50_SESSIONS"); v != "" {
		fmt.Sscan(v, &sessions)
	}
	rng := vutil.Rand(51)
	_, ck := keys()
	for r := 0; r < sessions; r++ {
		var log []acmefake.Event
		var probs []string
		var cfg acmefake.Event
		var lags []string
		names := []string{}
		synctest.Test(t, func(t *testing.T) {
			s := acmefake.NewServer()
			s.NonceURL, s.DirNonce = rng.Intn(4) != 0, rng.Intn(2) == 0
			s.Choose = func(op *acmefake.Op, head bool, url string) string {
				if head {
					return headKinds[rng.Intn(len(headKinds))]
				}
				return postKinds[rng.Intn(len(postKinds))]
			}
			cl := newClient(s)
			if _, err := cl.Discover(context.Background()); err != nil {
				t.Fatalf("discover: %v", err)
			}
			env := &acmefake.Env{CertKey: ck}
			for i := 0; i < 24; i++ {
				spec := acmefake.Ops[rng.Intn(len(acmefake.Ops))]
				cancelAt := 0
				if rng.Intn(5) == 0 {
					cancelAt = 1 + rng.Intn(3)
				}
				op := s.NewOp(spec.Name, rng.Intn(5), spec.Phases, cancelAt)
				if rng.Intn(2) == 0 {
					op.StopVal = -time.Duration(1+rng.Intn(5)) * time.Second
				}
				names = append(names, spec.Name)
				res := s.Run(op, func(ctx context.Context) (string, error) { return spec.Run(ctx, cl, env) })
				if !op.CancelTime.IsZero() && !op.Returned.Equal(op.CancelTime) {
					lags = append(lags, fmt.Sprintf("%s returned %v after cancellation", spec.Name, op.Returned.Sub(op.CancelTime)))
				}
				if res.Serial >= 0 && res.Serial != op.LastSerial {
					probs = append(probs, fmt.Sprintf("result-not-last-reply: %s returned a value/error derived from reply #%d, last reply received #%d", spec.Name, res.Serial, op.LastSerial))
				}
				for _, m := range op.Refused {
					if m == "POST" {
						probs = append(probs, "post-after-cancel: "+spec.Name+" attempted a signed request after cancellation")
					}
				}
			}
			probs = append(probs, s.TakeProblems()...)
			cfg = s.ResetEvent()
			log = s.TakeLog()
		})
		out.Case(fmt.Sprintf("session %d %v", r, names))
		for _, p := range probs {
			sig := "c50-" + strings.SplitN(p, ":", 2)[0]
			out.Violation(sig, p, map[string]any{"session": r, "ops": names, "log": log})
			t.Errorf("%s: %s", sig, p)
		}
		for _, p := range lags {
			out.Violation("c50-cancel-not-honoured", p, map[string]any{"session": r, "ops": names, "log": log})
			t.Errorf("cancel-not-honoured: %s", p)
		}
		tw.add(cfg, log)
		if len(out.Samples) < 3 {
			out.Sample(map[string]any{"session": r, "ops": names[:6], "events": len(log)})
		}
	}
}

// TestDefaultBackoff: RetryBackoff == nil.  Documented: retry n after Retry-After + jitter or
// 2^n s + jitter (jitter up to 1 s), ceiling 10 s; only the context ends the retries.
func TestDefaultBackoff(t *testing.T) {
	out := vutil.NewOut()
	defer func() {
		if err := out.Write(); err != nil {
			t.Fatal(err)
		}
	}()
	type sc struct {
		name  string
		kinds []string
	}
	for _, c := range []sc{{"5xx", []string{"e500", "e500", "e500", "e500", "e500", "e500", "e500"}},
		{"429", []string{"e429", "e429", "e429"}}, {"badNonce", []string{"badNonce", "badNonce", "badNonce", "badNonce", "badNonce"}}} {
		synctest.Test(t, func(t *testing.T) {
			s := acmefake.NewServer()
			var times []time.Time
			i := 0
			s.Choose = func(op *acmefake.Op, head bool, url string) string {
				if head {
					return "nonce"
				}
				times = append(times, time.Now())
				if i < len(c.kinds) {
					i++
					return c.kinds[i-1]
				}
				return "e500" // forever
			}
			cl := newClient(s)
			cl.RetryBackoff = nil
			if _, err := cl.Discover(context.Background()); err != nil {
				t.Fatal(err)
			}
			op := s.NewOp("GetOrder", 0, 1, 0)
			deadline := 120 * time.Second
			ctx, cancel := context.WithTimeout(op.Ctx, deadline)
			defer cancel()
			t0 := time.Now()
			_, err := cl.GetOrder(ctx, acmefake.Base+"/order/1")
			el := time.Since(t0)
			out.Case(c.name)
			d := map[string]any{"script": c.kinds, "attempts": len(times), "elapsed": el.String()}
			if err == nil {
				out.Violation("c50-default-backoff-result", "call succeeded although every reply was an error", d)
				t.Errorf("unexpected success")
			}
			if el > deadline {
				out.Violation("c50-deadline-not-honoured", fmt.Sprintf("call returned %v after a %v deadline (virtual time)", el, deadline), d)
				t.Errorf("deadline exceeded: %v", el)
			}
			for j := 1; j < len(times); j++ {
				gap := times[j].Sub(times[j-1])
				k := "e500"
				if j-1 < len(c.kinds) {
					k = c.kinds[j-1]
				}
				lo, hi := time.Duration(0), 10*time.Second
				if k == "e429" { // Retry-After: 1
					lo, hi = time.Second, 2*time.Second
				}
				if gap < lo || gap > hi || gap <= 0 {
					out.Violation("c50-default-backoff-delay", fmt.Sprintf("retry %d after a %s reply came %v after the previous attempt; documented window (%v, %v]", j, k, gap, lo, hi), d)
					t.Errorf("gap %d = %v", j, gap)
				}
			}
			for _, p := range s.TakeProblems() {
				out.Violation("c50-"+strings.SplitN(p, ":", 2)[0], p, d)
				t.Errorf("%s", p)
			}
			out.Sample(d)
		})
	}
}

// TestGetBackoff: the unsigned GET retry loop (Client.get, used by Discover) with a scripted
// RetryBackoff whose stop value is zero or NEGATIVE: requests = retries taken + 1, judged by count;
// the caller gets the CA's error of the final reply.
func TestGetBackoff(t *testing.T) {
	out := vutil.NewOut()
	negCases := 0
	defer func() {
		out.Extra["c50_negative_backoff_get_cases"] = negCases
		if err := out.Write(); err != nil {
			t.Fatal(err)
		}
	}()
	for _, kind := range []string{"e500", "e429"} {
		for budget := 0; budget <= 3; budget++ {
			for _, stop := range []time.Duration{0, -1, -time.Second, -time.Hour} {
				synctest.Test(t, func(t *testing.T) {
					s := acmefake.NewServer()
					s.DirChoose = func(n int) string { return kind } // the directory never answers 200
					cl := newClient(s)
					op := s.NewOp("Discover", budget, 1, 0)
					op.StopVal = stop
					ctx, cancel := context.WithTimeout(op.Ctx, time.Hour) // safety net only
					defer cancel()
					_, err := cl.Discover(ctx)
					res := acmefake.Classify("", err)
					key := fmt.Sprintf("Discover|%s|budget=%d|stop=%v", kind, budget, stop)
					out.Case(key)
					if stop < 0 {
						negCases++
					}
					d := map[string]any{"reply": kind, "budget": budget, "stop_value": stop.String(), "gets": s.DirGets, "result": res}
					if s.DirGets > acmefake.MaxRequestsPerCall {
						out.Violation("c50-retry-unbounded", fmt.Sprintf("Discover sent more than %d GETs with a RetryBackoff that returns %v after %d retries (documented: negative or zero ends the retries)", acmefake.MaxRequestsPerCall, stop, budget), d)
						t.Errorf("unbounded: %s", key)
						return
					}
					if s.DirGets != budget+1 {
						out.Violation("c50-get-count", fmt.Sprintf("Discover sent %d GETs, budget %d allows %d (stop value %v)", s.DirGets, budget, budget+1, stop), d)
						t.Errorf("get count: %s", key)
					}
					if res.Class != "acmeerr" || res.Serial != s.DirGets {
						out.Violation("c50-result-not-last-reply", fmt.Sprintf("Discover returned %s/%d (%s), expected the CA's error of reply #%d", res.Class, res.Serial, res.Err, s.DirGets), d)
						t.Errorf("result: %s", key)
					}
					if len(out.Samples) < 3 && stop < 0 {
						out.Sample(d)
					}
				})
			}
		}
	}
}

// TestDefaultRetryAfter: RetryBackoff == nil and 429 replies with every class of Retry-After.
// Documented: retry after Retry-After + jitter (jitter up to 1 s, at least 1 ms); a non-positive
// back-off ends the retries with the CA's error.  Judged by request COUNT (budget) and virtual time.
func TestDefaultRetryAfter(t *testing.T) {
	out := vutil.NewOut()
	defer func() {
		if err := out.Write(); err != nil {
			t.Fatal(err)
		}
	}()
	type cl struct {
		name   string
		ra     func() string
		stops  bool          // non-positive back-off: exactly one request
		lo, hi time.Duration // otherwise: window of the gap between attempts
	}
	classes := []cl{
		{"absent", func() string { return "" }, false, 0, 10 * time.Second},
		{"posSeconds", func() string { return "2" }, false, 2 * time.Second, 3 * time.Second},
		{"zeroSeconds", func() string { return "0" }, false, 0, time.Second},
		{"negSeconds", func() string { return "-5" }, true, 0, 0},
		{"futureDate", func() string { return time.Now().Add(4 * time.Second).UTC().Format(http.TimeFormat) }, false, 2 * time.Second, 5 * time.Second},
		{"pastDate", func() string { return time.Now().Add(-time.Hour).UTC().Format(http.TimeFormat) }, true, 0, 0},
	}
	for _, c := range classes {
		for _, post := range []bool{true, false} {
			synctest.Test(t, func(t *testing.T) {
				s := acmefake.NewServer()
				s.RetryAfter = c.ra
				var times []time.Time
				const replies = 4
				s.Choose = func(op *acmefake.Op, head bool, url string) string {
					if head {
						return "nonce"
					}
					times = append(times, time.Now())
					if len(times) <= replies {
						return "e429"
					}
					return "e403" // ends a client that is still retrying after 4 rate-limit replies
				}
				client := newClient(s)
				client.RetryBackoff = nil
				op := s.NewOp("GetOrder", 0, 1, 0)
				ctx, cancel := context.WithTimeout(op.Ctx, 10*time.Minute)
				defer cancel()
				var err error
				n := 0
				if post {
					if _, err = client.Discover(ctx); err != nil {
						t.Fatal(err)
					}
					_, err = client.GetOrder(ctx, acmefake.Base+"/order/1")
					n = len(times)
				} else {
					s.DirChoose = func(k int) string {
						times = append(times, time.Now())
						if k <= replies {
							return "e429"
						}
						return "ok"
					}
					_, err = client.Discover(ctx)
					n = s.DirGets
				}
				key := fmt.Sprintf("%s|post=%v", c.name, post)
				out.Case(key)
				d := map[string]any{"retry_after": c.name, "post": post, "requests": n, "err": fmt.Sprint(err)}
				out.Sample(d)
				if n > acmefake.MaxRequestsPerCall || len(s.TakeProblems()) > 0 {
					out.Violation("c50-retry-unbounded", fmt.Sprintf("more than %d requests for one call with Retry-After class %s", acmefake.MaxRequestsPerCall, c.name), d)
					t.Errorf("unbounded %s", key)
					return
				}
				if c.stops {
					if n != 1 {
						out.Violation("c50-retry-after-nonpositive", fmt.Sprintf("Retry-After %s gives a negative back-off, which must end the retries: %d requests were sent", c.name, n), d)
						t.Errorf("%s: %d requests", key, n)
					}
					if acmefake.Classify("", err).Class != "acmeerr" {
						out.Violation("c50-result-not-last-reply", fmt.Sprintf("Retry-After %s: caller got %v instead of the CA's 429 error", c.name, err), d)
						t.Errorf("%s: err %v", key, err)
					}
					return
				}
				if n != replies+1 {
					out.Violation("c50-default-backoff-count", fmt.Sprintf("Retry-After %s: %d requests, expected %d", c.name, n, replies+1), d)
					t.Errorf("%s: %d requests", key, n)
				}
				for j := 1; j < len(times) && j <= replies; j++ {
					if gap := times[j].Sub(times[j-1]); gap <= 0 || gap < c.lo || gap > c.hi {
						out.Violation("c50-default-backoff-delay", fmt.Sprintf("Retry-After %s: retry %d came %v after the previous attempt, documented window [%v, %v]", c.name, j, gap, c.lo, c.hi), d)
						t.Errorf("%s gap %v", key, gap)
					}
				}
			})
		}
	}
}
